import RoaringModel.SpecCodec
/-!
# SPEC — reference codec for the 64-bit "portable" Roaring format

Written from the format description (RoaringFormatSpec, "Extension for 64-bit implementations"; the
format of CRoaring's `Roaring64Map::write(portable = true)`, Java's `Roaring64NavigableMap` in portable
mode and Go's `roaring64`), **not** from the crate; it builds only on the 32-bit reference codec
`SpecCodec.lean` and shares no definition with the model.

Format (all integers little-endian):

1. a 64-bit unsigned count `n` of buckets;
2. `n` times: the 32-bit bucket key (the high 32 bits of the bucket's values), immediately followed by a
   32-bit Roaring stream (`SpecCodec.lean`) holding the low 32 bits.  Buckets are written in ascending
   (unsigned) key order, one bucket per key.

The set is the union over the buckets of `key * 2^32 + low`.

Decisions where the text leaves room (documented; what `decode64` enforces):
* keys must be **strictly ascending** — a descending or repeated key is not conformant (for a repeated key
  the meaning would be ambiguous: union or replacement).  The crate is more liberal (any order is accepted,
  a repeated key replaces the earlier bucket); such streams are outside C06 and are judged by C13 only
  (error, or a well-formed set);
* a bucket whose 32-bit stream holds the **empty set is accepted** and contributes nothing: the text does
  not exclude it and CRoaring's writer emits such buckets (its map may hold emptied bitmaps).  A decoder
  that kept the empty bucket as a partition would break `==` with the natively built set, so these
  streams are deliberately inside the quantifier of C06;
* the inner stream must be conformant in the sense of `Spec.decode` (either cookie, run chunks, exact
  cardinalities and offsets …);
* bytes after the `n`-th bucket are not part of the structure (`decode64` returns them as the rest);
* the standard writer emits one bucket per distinct high half that occurs, so `encode64` writes no empty
  bucket and uses the run-free inner encoding `Spec.encode`.
-/
namespace Roaring
namespace Spec

/-- the distinct high halves (`v / 2^32`) of an ascending list, ascending -/
def keysOf64 : List Nat → List Nat
  | [] => []
  | [x] => [x / 4294967296]
  | x :: y :: l =>
    if x / 4294967296 = y / 4294967296 then keysOf64 (y :: l) else x / 4294967296 :: keysOf64 (y :: l)

/-- low halves of the values with high half `k` -/
def bucketOf (s : List Nat) (k : Nat) : List Nat := (s.filter (· / 4294967296 = k)).map (· % 4294967296)

/-- the standard portable encoding of a strictly ascending list of `u64` -/
def encode64 (s : List Nat) : List Nat :=
  let ks := keysOf64 s
  leBytes 8 ks.length ++ ks.flatMap fun k => leBytes 4 k ++ encode (bucketOf s k)

/-- `n` buckets; `prev` = key of the previous bucket -/
def decodeBuckets : Nat → Option Nat → List Nat → Option (List Nat × List Nat)
  | 0, _, bs => some ([], bs)
  | n + 1, prev, bs => do
    let (kb, r1) ← takeN 4 bs
    let key := leNat kb
    guard (prev.all (· < key))
    let (lows, r2) ← decode r1
    let (more, r3) ← decodeBuckets n (some key) r2
    pure (lows.map (key * 4294967296 + ·) ++ more, r3)

/-- strict decoder: `some (set, unread rest)` exactly for the byte strings that start with a conformant
    portable 64-bit serialization -/
def decode64 (bs : List Nat) : Option (List Nat × List Nat) := do
  let (cb, r) ← takeN 8 bs
  decodeBuckets (leNat cb) none r

end Spec
end Roaring
