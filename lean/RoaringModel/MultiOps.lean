import RoaringModel.Bitmap
/-!
# `MultiOps` for `RoaringBitmap` (bitmap/multiops.rs), mirrored line by line

Items of the input iterator are `Except ε Bitmap` (`Result<RoaringBitmap, E>` / `Result<&RoaringBitmap, E>`);
the plain (non-`Result`) impls map every item through `Ok::<_, Infallible>` and `unwrap()` the result
(`ε = Empty`).  The iterator's `size_hint().1`, which drives `collect_starting_elements`, is an explicit
model parameter (`Hint`).

`sort_unstable_by_key` is abstracted as a *parameter* `sort` of the `…With` definitions: the property
theorems (Props/C09.lean) are proved for **every** function returning a key-sorted permutation
(`IsKeySort`), so they hold for whatever order the unstable sort produces among equal keys.  The executable
model instantiates it with a stable insertion sort.
-/
namespace Roaring.Multi
open Roaring

/-! ## The three whole-bitmap assignment operators `multiops.rs` calls (bitmap/ops.rs) -/
-- duplicate of Ops.lean, to be unified at merge

/-- ops.rs:236 `BitAndAssign<RoaringBitmap> for RoaringBitmap` (owned rhs: swap so that `self` is the one
    with fewer containers; `retain_mut` + `binary_search_by_key` in `rhs`; the matched `rhs` container is
    `mem::replace`d by an empty one, which is mirrored by the `set` below). -/
def andAssignOwned (self rhs : Bitmap) : Bitmap :=
  let swap : Bool := rhs.length < self.length
  let s := if swap then rhs else self
  let r := if swap then self else rhs
  (s.foldl (fun (st : List Container × List Container) cont =>
      match Bitmap.search st.2 cont.key with
      | (true, loc) =>
        match st.2[loc]? with
        | some rc =>
          let rhs' := st.2.set loc (Container.new rc.key)
          let c := cont.andAssignOwned rc
          if !c.isEmpty then (c :: st.1, rhs') else (st.1, rhs')
        | none => st
      | (false, _) => st) ([], r)).1.reverse

/-- ops.rs:259 `BitAndAssign<&RoaringBitmap> for RoaringBitmap` -/
def andAssignRef (self rhs : Bitmap) : Bitmap :=
  self.filterMap fun cont =>
    match Bitmap.search rhs cont.key with
    | (true, loc) =>
      match rhs[loc]? with
      | some rc => let c := cont.andAssignRef rc; if !c.isEmpty then some c else none
      | none => none
    | (false, _) => none

/-- ops.rs:336 `SubAssign<&RoaringBitmap> for RoaringBitmap` -/
def subAssignRef (self rhs : Bitmap) : Bitmap :=
  self.filterMap fun cont =>
    match Bitmap.search rhs cont.key with
    | (true, loc) =>
      match rhs[loc]? with
      | some rc => let c := cont.subAssignRef rc; if !c.isEmpty then some c else none
      | none => some cont
    | (false, _) => some cont

/-- ops.rs:329 `SubAssign<RoaringBitmap> for RoaringBitmap`: `SubAssign::sub_assign(self, &rhs)` -/
def subAssignOwned (self rhs : Bitmap) : Bitmap := subAssignRef self rhs

/-- store/mod.rs:248 `Store::to_bitmap` -/
def storeToBitmap : Store → Store
  | .array v => .bitmap (Store.arrToBitmap v)
  | .bitmap b => .bitmap b

/-! ## `collect_starting_elements` (multiops.rs:428) -/

/-- multiops.rs:19 -/
def BASE_COLLECT : Nat := 10
/-- multiops.rs:23 -/
def MAX_COLLECT : Nat := 50

/-- what the input iterator answers to `size_hint().1` -/
inductive Hint where
  /-- the iterator knows its length (`vec::IntoIter`, `slice::Iter`, arrays …): `Some(len)` -/
  | exact
  /-- `Some(k)` whatever the real length -/
  | upper (k : Nat)
  /-- `None` -/
  | none
deriving Repr, BEq, DecidableEq

/-- `iter.size_hint().1` of an iterator that will yield `n` items -/
def Hint.upperBound : Hint → Nat → Option Nat
  | .exact, n => some n
  | .upper k, _ => some k
  | .none, _ => Option.none

/-- multiops.rs:433-436 -/
def toCollect (h : Hint) (n : Nat) : Nat :=
  let t := (h.upperBound n).getD BASE_COLLECT
  if t > MAX_COLLECT then BASE_COLLECT else t

/-- multiops.rs:439 `for el in iter.take(to_collect) { ret.push(el?) }` on `iter.by_ref()`:
    returns the collected values and what is left in the iterator. -/
def collectLoop {ε α : Type} : Nat → List (Except ε α) → Except ε (List α × List (Except ε α))
  | 0, rest => .ok ([], rest)
  | _ + 1, [] => .ok ([], [])
  | _ + 1, .error e :: _ => .error e
  | n + 1, .ok x :: rest =>
    match collectLoop n rest with
    | .ok (c, r) => .ok (x :: c, r)
    | .error e => .error e

/-- multiops.rs:428 `collect_starting_elements` -/
def collectStart {ε α : Type} (h : Hint) (xs : List (Except ε α)) : Except ε (List α × List (Except ε α)) :=
  collectLoop (toCollect h xs.length) xs

/-! ## sorting by container count -/

def insertByKey {α : Type} (key : α → Nat) (x : α) : List α → List α
  | [] => [x]
  | y :: ys => if key x ≤ key y then x :: y :: ys else y :: insertByKey key x ys

/-- stable ascending insertion sort: the executable stand-in for
    `sort_unstable_by_key(|b| b.containers.len())` -/
def sortByKey {α : Type} (key : α → Nat) (l : List α) : List α := l.foldr (insertByKey key) []

def insertByKeyRev {α : Type} (key : α → Nat) (x : α) : List α → List α
  | [] => [x]
  | y :: ys => if key y ≤ key x then x :: y :: ys else y :: insertByKeyRev key x ys

/-- stable descending insertion sort: stand-in for `sort_unstable_by_key(|b| Reverse(b.containers.len()))` -/
def sortByKeyRev {α : Type} (key : α → Nat) (l : List α) : List α := l.foldr (insertByKeyRev key) []

/-- the sort key: `bitmap.containers.len()` -/
def nContainers (b : Bitmap) : Nat := b.length

/-! ## intersection (multiops.rs:118-166) -/

/-- multiops.rs:130-137 / 156-162: `for rhs in start.map(Ok).chain(iter) { if lhs.is_empty() { return
    Ok(lhs) } lhs &= rhs?; } Ok(lhs)`; `f` is the `&=` in use -/
def assignLoop {ε : Type} (f : Bitmap → Bitmap → Bitmap) : Bitmap → List (Except ε Bitmap) → Except ε Bitmap
  | lhs, [] => .ok lhs
  | lhs, rhs :: rest =>
    if lhs.isEmpty then .ok lhs
    else match rhs with
      | .error e => .error e
      | .ok r => assignLoop f (f lhs r) rest

/-- multiops.rs:121-129 / 147-155: collect, `sort_unstable_by_key(len)`, `start.next()`; `none` = the
    `else { Ok(RoaringBitmap::new()) }` arm; otherwise the first bitmap and `start.map(Ok).chain(iter)` -/
def andStartWith {ε : Type} (sort : List Bitmap → List Bitmap) (h : Hint) (xs : List (Except ε Bitmap)) :
    Except ε (Option (Bitmap × List (Except ε Bitmap))) :=
  match collectStart h xs with
  | .error e => .error e
  | .ok (start, iter) =>
    match sort start with
    | lhs :: start => .ok (some (lhs, start.map .ok ++ iter))
    | [] => .ok none

/-- multiops.rs:118 `try_multi_and_owned` -/
def tryMultiAndOwnedWith {ε : Type} (sort : List Bitmap → List Bitmap) (h : Hint) (xs : List (Except ε Bitmap)) :
    Except ε Bitmap :=
  match andStartWith sort h xs with
  | .error e => .error e
  | .ok (some (lhs, rest)) => assignLoop andAssignOwned lhs rest
  | .ok none => .ok Bitmap.new

/-- multiops.rs:144 `try_multi_and_ref` (`start.next().cloned()`; `lhs &= rhs?` with `rhs : &RoaringBitmap`) -/
def tryMultiAndRefWith {ε : Type} (sort : List Bitmap → List Bitmap) (h : Hint) (xs : List (Except ε Bitmap)) :
    Except ε Bitmap :=
  match andStartWith sort h xs with
  | .error e => .error e
  | .ok (some (lhs, rest)) => assignLoop andAssignRef lhs rest
  | .ok none => .ok Bitmap.new

/-! ## difference (multiops.rs:169-205) -/

/-- multiops.rs:169 `try_multi_sub_owned`: `iter.next().transpose()?` then the loop -/
def tryMultiSubOwned {ε : Type} (xs : List (Except ε Bitmap)) : Except ε Bitmap :=
  match xs with
  | [] => .ok Bitmap.new
  | .error e :: _ => .error e
  | .ok lhs :: iter => assignLoop subAssignOwned lhs iter

/-- multiops.rs:188 `try_multi_sub_ref` -/
def tryMultiSubRef {ε : Type} (xs : List (Except ε Bitmap)) : Except ε Bitmap :=
  match xs with
  | [] => .ok Bitmap.new
  | .error e :: _ => .error e
  | .ok lhs :: iter => assignLoop subAssignRef lhs iter

/-! ## `merge_container_owned` (multiops.rs:272) -/

/-- which arm of the `match` a right-hand container takes (path tag; also used by the driver's coverage) -/
inductive MergeArm where
  | insert | arrArr | arrBmp | bmpArr | bmpBmp
deriving Repr, BEq, DecidableEq

def mergeArm (lhs : List Container) (r : Container) : MergeArm :=
  match Bitmap.search lhs r.key with
  | (false, _) => .insert
  | (true, loc) =>
    match lhs[loc]? with
    | none => .insert
    | some l =>
      match l.store, r.store with
      | .array _, .array _ => .arrArr
      | .array _, .bitmap _ => .arrBmp
      | .bitmap _, .array _ => .bmpArr
      | .bitmap _, .bitmap _ => .bmpBmp

/-- the `Ok(loc)` arm, multiops.rs:281-287: `lhs = &mut lhs[loc]`, the kind `match`, then
    `op(&mut lhs.store, rhs.store)`; the result is the new `lhs[loc]` -/
def mergeCombineOwned (op : Store → Store → Store) (l r : Container) : Container :=
  match l.store, r.store with
  | .array _, .array _ => { l with store := op (storeToBitmap l.store) r.store }  -- lhs.store = lhs.store.to_bitmap()
  | .array _, .bitmap _ => { r with store := op r.store l.store }                 -- mem::swap(lhs, &mut rhs)
  | _, _ => { l with store := op l.store r.store }

/-- body of the `for mut rhs in rhs` loop, multiops.rs:278-289; `op` is `BitOrAssign::bitor_assign` /
    `BitXorAssign::bitxor_assign` on `(&mut Store, Store)` -/
def mergeStepOwned (op : Store → Store → Store) (lhs : List Container) (r : Container) : List Container :=
  match Bitmap.search lhs r.key with
  | (false, loc) => lhs.take loc ++ r :: lhs.drop loc                       -- Err(loc) => lhs.insert(loc, rhs)
  | (true, loc) =>
    match lhs[loc]? with
    | none => lhs                                                           -- unreachable (`Ok(loc)` is in range)
    | some l => lhs.set loc (mergeCombineOwned op l r)

/-- multiops.rs:272 `merge_container_owned` -/
def mergeContainerOwned (op : Store → Store → Store) (lhs rhs : List Container) : List Container :=
  rhs.foldl (mergeStepOwned op) lhs

/-- multiops.rs:230-232 / 256-258: `for bitmap in … { merge_container_owned(&mut containers, bitmap?.containers, op) }` -/
def mergeLoopOwned {ε : Type} (op : Store → Store → Store) :
    List Container → List (Except ε Bitmap) → Except ε (List Container)
  | cs, [] => .ok cs
  | _, .error e :: _ => .error e
  | cs, .ok b :: rest => mergeLoopOwned op (mergeContainerOwned op cs b) rest

/-- multiops.rs:234-241 / 260-267: `containers.retain_mut(|c| if !c.is_empty() { c.ensure_correct_store(); true } else { false })` -/
def cleanupOwned (cs : List Container) : Bitmap :=
  cs.filterMap fun c => if !c.isEmpty then some c.ensureCorrectStore else none

/-- multiops.rs:211-228 / 307-325: collect, `sort_unstable_by_key(Reverse(len))`, `start.next()`;
    `none` = `return Ok(RoaringBitmap::new())`; otherwise the first (largest) bitmap and
    `start.map(Ok).chain(iter)`.  (`c.is_empty()` is asked of the `RoaringBitmap` in the owned version and of
    the `Vec<Cow<Container>>` built from its containers in the ref version: the same condition.) -/
def orStartWith {ε : Type} (sort : List Bitmap → List Bitmap) (h : Hint) (xs : List (Except ε Bitmap)) :
    Except ε (Option (Bitmap × List (Except ε Bitmap))) :=
  match collectStart h xs with
  | .error e => .error e
  | .ok (start, iter) =>
    let startSize := start.length
    match sort start with
    | [] => .ok none
    | c :: start =>
      -- `if c.is_empty() { start.by_ref().nth(start_size); }`: everything must be empty if the max is empty
      let start := if c.isEmpty then start.drop (startSize + 1) else start
      .ok (some (c, start.map .ok ++ iter))

/-- multiops.rs:208 `try_multi_or_owned` -/
def tryMultiOrOwnedWith {ε : Type} (sort : List Bitmap → List Bitmap) (h : Hint) (xs : List (Except ε Bitmap)) :
    Except ε Bitmap :=
  match orStartWith sort h xs with
  | .error e => .error e
  | .ok none => .ok Bitmap.new
  | .ok (some (c, rest)) =>
    match mergeLoopOwned Store.orAssignOwned c rest with
    | .error e => .error e
    | .ok cs => .ok (cleanupOwned cs)

/-- multiops.rs:247 `try_multi_xor_owned` -/
def tryMultiXorOwned {ε : Type} (xs : List (Except ε Bitmap)) : Except ε Bitmap :=
  match xs with
  | [] => .ok (cleanupOwned [])
  | .error e :: _ => .error e
  | .ok v :: iter =>
    match mergeLoopOwned Store.xorAssignOwned v iter with
    | .error e => .error e
    | .ok cs => .ok (cleanupOwned cs)

/-! ## `merge_container_ref` (multiops.rs:388) with `Cow<Container>` -/

inductive Cow where
  | borrowed (c : Container)
  | owned (c : Container)
deriving Repr, BEq, DecidableEq

/-- `Deref` / `into_owned` -/
def Cow.get : Cow → Container
  | .borrowed c => c
  | .owned c => c

/-- `containers.binary_search_by_key(&key, |c| c.key)` on a `Vec<Cow<Container>>` -/
def searchCow (cs : List Cow) (key : Nat) : Bool × Nat :=
  let i := (cs.takeWhile (fun c => c.get.key < key)).length
  (match cs[i]? with
   | some c => c.get.key == key
   | none => false, i)

def mergeArmRef (cs : List Cow) (r : Container) : MergeArm :=
  match searchCow cs r.key with
  | (false, _) => .insert
  | (true, loc) =>
    match cs[loc]? with
    | none => .insert
    | some l =>
      match l.get.store, r.store with
      | .array _, .array _ => .arrArr
      | .array _, .bitmap _ => .arrBmp
      | .bitmap _, .array _ => .bmpArr
      | .bitmap _, .bitmap _ => .bmpBmp

/-- the `Ok(loc)` arm, multiops.rs:401-421; the result is the new `containers[loc]` -/
def mergeCombineRef (op : Store → Store → Store) (lhs : Cow) (r : Container) : Cow :=
  match lhs.get.store, r.store with
  | .array _, .array _ =>                                               -- new bitmap from the borrowed array
    .owned { key := lhs.get.key, store := op (storeToBitmap lhs.get.store) r.store }
  | .array _, .bitmap _ =>                                              -- copy the rhs bitmap, add lhs to it
    .owned { key := lhs.get.key, store := op r.store lhs.get.store }
  | .bitmap _, _ =>                                                     -- `to_mut()`: clone-on-write
    .owned { key := lhs.get.key, store := op lhs.get.store r.store }

/-- body of the `for rhs in rhs` loop, multiops.rs:394-423; `op` is `|a, b| *a |= b` / `*a ^= b` on
    `(&mut Store, &Store)` -/
def mergeStepRef (op : Store → Store → Store) (cs : List Cow) (r : Container) : List Cow :=
  match searchCow cs r.key with
  | (false, loc) => cs.take loc ++ Cow.borrowed r :: cs.drop loc             -- borrow it
  | (true, loc) =>
    match cs[loc]? with
    | none => cs                                                            -- unreachable
    | some lhs => cs.set loc (mergeCombineRef op lhs r)

/-- multiops.rs:388 `merge_container_ref` -/
def mergeContainerRef (op : Store → Store → Store) (cs : List Cow) (rhs : List Container) : List Cow :=
  rhs.foldl (mergeStepRef op) cs

/-- multiops.rs:328-330 / 369-371 -/
def mergeLoopRef {ε : Type} (op : Store → Store → Store) :
    List Cow → List (Except ε Bitmap) → Except ε (List Cow)
  | cs, [] => .ok cs
  | _, .error e :: _ => .error e
  | cs, .ok b :: rest => mergeLoopRef op (mergeContainerRef op cs b) rest

/-- multiops.rs:333-342 / 374-383: `filter(!is_empty).map(|c| { let mut c = c.into_owned(); c.ensure_correct_store(); c })` -/
def cleanupRef (cs : List Cow) : Bitmap :=
  (cs.filter fun c => !c.get.isEmpty).map fun c => c.get.ensureCorrectStore

/-- multiops.rs:294 `try_multi_or_ref` -/
def tryMultiOrRefWith {ε : Type} (sort : List Bitmap → List Bitmap) (h : Hint) (xs : List (Except ε Bitmap)) :
    Except ε Bitmap :=
  match orStartWith sort h xs with
  | .error e => .error e
  | .ok none => .ok Bitmap.new
  | .ok (some (c, rest)) =>
    match mergeLoopRef Store.orAssignRef (c.map Cow.borrowed) rest with
    | .error e => .error e
    | .ok cs => .ok (cleanupRef cs)

/-- multiops.rs:348 `try_multi_xor_ref` -/
def tryMultiXorRef {ε : Type} (xs : List (Except ε Bitmap)) : Except ε Bitmap :=
  match xs with
  | [] => .ok (cleanupRef [])
  | .error e :: _ => .error e
  | .ok v :: iter =>
    match mergeLoopRef Store.xorAssignRef (v.map Cow.borrowed) iter with
    | .error e => .error e
    | .ok cs => .ok (cleanupRef cs)

/-! ## the executable instances and the four trait impls (multiops.rs:25-115) -/

def sortAsc : List Bitmap → List Bitmap := sortByKey nContainers
def sortDesc : List Bitmap → List Bitmap := sortByKeyRev nContainers

inductive Op where
  | or | and | sub | xor
deriving Repr, BEq, DecidableEq

/-- `impl MultiOps<Result<RoaringBitmap, E>> for I` (multiops.rs:48) -/
def tryMultiOwned {ε : Type} (op : Op) (h : Hint) (xs : List (Except ε Bitmap)) : Except ε Bitmap :=
  match op with
  | .or => tryMultiOrOwnedWith sortDesc h xs
  | .and => tryMultiAndOwnedWith sortAsc h xs
  | .sub => tryMultiSubOwned xs
  | .xor => tryMultiXorOwned xs

/-- `impl MultiOps<Result<&RoaringBitmap, E>> for I` (multiops.rs:94) -/
def tryMultiRef {ε : Type} (op : Op) (h : Hint) (xs : List (Except ε Bitmap)) : Except ε Bitmap :=
  match op with
  | .or => tryMultiOrRefWith sortDesc h xs
  | .and => tryMultiAndRefWith sortAsc h xs
  | .sub => tryMultiSubRef xs
  | .xor => tryMultiXorRef xs

/-- `Result<_, Infallible>::unwrap` -/
def unwrapInfallible {α : Type} : Except Empty α → α
  | .ok a => a
  | .error e => nomatch e

/-- `impl MultiOps<RoaringBitmap> for I` (multiops.rs:25): `….map(Ok::<_, Infallible>)` … `.unwrap()`;
    `Map` forwards `size_hint`, so the hint is the input iterator's -/
def multiOwned (op : Op) (h : Hint) (xs : List Bitmap) : Bitmap :=
  unwrapInfallible (tryMultiOwned op h (xs.map .ok))

/-- `impl MultiOps<&RoaringBitmap> for I` (multiops.rs:71) -/
def multiRef (op : Op) (h : Hint) (xs : List Bitmap) : Bitmap :=
  unwrapInfallible (tryMultiRef op h (xs.map .ok))

/-! ## path tags (pure classifiers of the branch conditions; printed by the driver as coverage) -/

/-- which arm of `collect_starting_elements` and how the sequence length compares with `to_collect` -/
def collectTag (h : Hint) (n : Nat) : String :=
  let arm := match h.upperBound n with
    | Option.none => "none"
    | some t => if t > MAX_COLLECT then "gt50" else "le50"
  let t := toCollect h n
  arm ++ (if n < t then ",n<t" else if n = t then ",n=t" else ",n>t")

end Roaring.Multi
