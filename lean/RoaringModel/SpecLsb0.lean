import RoaringModel.Spec
/-!
# SPEC additions for C17 (`from_lsb0_bytes`), C20 (`statistics()`), C16 (`Debug`)

All of it is computed from the strictly ascending element list (or, for C17, from the raw bytes)
alone and shares no code with the model.
-/
namespace Roaring
namespace Spec

/-! ## C17 -/

/-- the set `{ off + 8·i + j | bit j (least significant first) of byte i is set }`, ascending -/
def bitsOfBytes (off : Nat) (bytes : List Nat) : Set :=
  bytes.zipIdx.flatMap fun (b, i) =>
    ((List.range 8).filter fun j => b.testBit j).map fun j => off + 8 * i + j

/-- the documented precondition: the slice does not extend past `2^32` -/
def lsb0Fits (off : Nat) (bytes : List Nat) : Bool := off + 8 * bytes.length ≤ 4294967296

/-! ## C20 -/

/-- put `x` in front of the groups of the larger elements: same 16-bit prefix as the first group or a new group -/
def groupStep (x : Nat) : List (Nat × Nat) → List (Nat × Nat)
  | (k, n) :: rest => if k = x / 65536 then (k, n + 1) :: rest else (x / 65536, 1) :: (k, n) :: rest
  | [] => [(x / 65536, 1)]

/-- the elements grouped by their 16-bit prefix `x / 65536`, as `(prefix, how many)`
    (ascending input ⇒ one group per prefix) -/
def groups (s : Set) : List (Nat × Nat) := s.foldr groupStep []

/-- what `statistics()` and `serialized_size()` must say about a set: the Roaring space rule -/
structure StatsSpec where
  nContainers : Nat
  nArray : Nat
  nBitset : Nat
  valuesArray : Nat
  valuesBitset : Nat
  cardinality : Nat
  minValue : Option Nat
  maxValue : Option Nat
  serializedSize : Nat
deriving Repr, BEq, DecidableEq

def sum (l : List Nat) : Nat := l.foldr (· + ·) 0

def stats (s : Set) : StatsSpec :=
  let cards := (groups s).map (·.2)
  let small := cards.filter (· ≤ 4096)
  let big := cards.filter (4096 < ·)
  { nContainers := cards.length
    nArray := small.length
    nBitset := big.length
    valuesArray := sum small
    valuesBitset := sum big
    cardinality := s.length
    minValue := s.head?
    maxValue := s.getLast?
    serializedSize := 8 + sum (cards.map fun c => 8 + min (2 * c) 8192) }

/-! ## C16: `Debug` -/

/-- `format!("{:?}", bitmap)` (bitmap/fmt.rs): the element list below 16 values, a summary otherwise -/
def debugString (s : Set) : String :=
  if s.length < 16 then "RoaringBitmap<[" ++ ", ".intercalate (s.map toString) ++ "]>"
  else s!"RoaringBitmap<{s.length} values between {s.head?.getD 0} and {s.getLast?.getD 0}>"

/-- `format!("{:?}", treemap)` (treemap/fmt.rs): the same rule over `u64` values -/
def debugString64 (s : Set) : String :=
  if s.length < 16 then "RoaringTreemap<[" ++ ", ".intercalate (s.map toString) ++ "]>"
  else s!"RoaringTreemap<{s.length} values between {s.head?.getD 0} and {s.getLast?.getD 0}>"

end Spec
end Roaring
