import RoaringModel.Safe
import RoaringModel.SerOps
import RoaringModel.Lsb0
import RoaringModel.TreemapSer
/-!
# `Safe_*` for the codec area (C16): decoders, intersection with a serialized bitmap, `from_lsb0_bytes`, treemap codec

Same conventions as `RoaringModel/Safe.lean`: for one Rust function, the decidable side condition under which every
`-`, `+`, `+=`, `*`, `<<`, `>>`, slice index / slice range and narrowing `as` cast of that function is panic-free in the
Rust integer types; each conjunct is followed by the `file.rs:LINE` it covers.  The predicates depend on the model only;
the proofs are in `Lemmas/SafeCodecLemmas.lean`, the property theorems `C16_safe_*` at the end of `Props/C16.lean`.

The decoders read ARBITRARY bytes, so their predicates are functions of the reader state, not of a well-formed value:
they follow the control flow of the model decoder (`Ser.lean`, `SerOps.lean`) over the same abstract `read_exact`
function `R` and state the conditions of the arithmetic that the Rust executes *up to the point where the decoder
returns* (an `Err` return — EOF, unknown cookie, size too big, invalid data — ends the obligations: `True`).
`usize` is taken to be 64 bits wide (DESIGN §15 item 5); wherever a `usize` value provably fits 32 bits the
stronger `U32` is stated, so that the condition also covers a 32-bit target.
-/
namespace Roaring

/-! ## `RoaringBitmap::deserialize_from_impl` (roaring/src/bitmap/serialization.rs:170-271)

The header code of `intersection_with_serialized_impl` (ops_with_serialized.rs:70-106) is the same text; the line
numbers of both files are given. -/

/-- serialization.rs:183-193 = ops_with_serialized.rs:70-80: the cookie and the `(size, has_run_containers)` it
    determines.  AUXILIARY (not a model definition): `decodeHeader` (Ser.lean) computes exactly these values in its
    first two steps but does not return the cookie, and returns nothing at all when a later read fails; this function
    recomputes them from the same reader state with the same expressions
    (`Lemmas/SafeCodecLemmas.lean: decodeHeader_cookieSize` proves the agreement). -/
def cookieSize {σ : Type} (R : Nat → Parser σ (List Nat)) : Parser σ (Nat × Nat × Bool) := fun s =>
  match R 4 s with
  | .error e => .error e
  | .ok (cb, s1) =>
    let cookie := leVal cb
    if cookie = 12346 then
      match R 4 s1 with
      | .error e => .error e
      | .ok (sb, s2) => .ok ((cookie, leVal sb, false), s2)
    else if cookie % 65536 = 12347 then .ok ((cookie, cookie / 65536 + 1, true), s1)
    else .error .unknownCookie

/-- serialization.rs:183-217 (`deserialize_from_impl`, header) = ops_with_serialized.rs:70-106 -/
def Safe_decodeHeader {σ : Type} (R : Nat → Parser σ (List Nat)) (s : σ) : Prop :=
  match cookieSize R s with
  | .error _ => True                              -- :184 :186 `?` (EOF), :191 `return Err(..)`: nothing else is evaluated
  | .ok ((cookie, size, hasRun), _) =>
    U32 cookie                                    -- :184 / ows:71 the value of `read_u32` (so `cookie as u16` truncates a `u32`)
    ∧ U32 size                                    -- :186 / ows:73 `read_u32()? as usize`, :188 / ows:75 `(…) as usize`: widening casts
    ∧ (hasRun = true →
         16 < 32                                  -- :188 / ows:75 `cookie >> 16` on a `u32`
         ∧ U32 (cookie / 65536 + 1)               -- :188 / ows:75 `(cookie >> 16) + 1` in `u32`
         ∧ U32 (size + 7))                        -- :197 / ows:84 `(size + 7) / 8` in `usize` (the divisor is the constant 8)
    ∧ (size ≤ 65536 →                             -- behind :204 / ows:91 `size > u16::MAX as usize + 1` (`65535 + 1`: constants)
         U32 (size * 4))                          -- :209 `size * DESCRIPTION_BYTES`, :214 `size * OFFSET_BYTES` (usize);
                                                  -- ows:96-97 ows:104-105 `vec![[0; 2]; size]` / `vec![0u32; size]` viewed as bytes

instance {σ : Type} (R : Nat → Parser σ (List Nat)) (s : σ) : Decidable (Safe_decodeHeader R s) := by
  unfold Safe_decodeHeader; split <;> infer_instance

/-- the replay loop serialization.rs:241-245 (= ops_with_serialized.rs:143-149, :248-252) on the evolving store:
    `s.checked_add(len)` is total (`None` = `InvalidData`, the model's `s + len > 65535` test), and
    `store.insert_range(RangeInclusive::new(s, end))` (store/mod.rs:91-101: `s ≤ end`, so not the `is_empty` return)
    is `Store.Safe_insertRange` on the store built so far -/
def Safe_replayRuns : Store → List (Nat × Nat) → Prop
  | _, [] => True
  | st, (s, len) :: rs =>
    U16 s ∧ U16 len                               -- :234-237 the interval fields are `u16`s (operands of `checked_add`)
    ∧ (¬ s + len > 65535 →                        -- :242 `checked_add` succeeded
         s ≤ s + len                              -- :243 `RangeInclusive::new(s, end)` is not empty
         ∧ st.Safe_insertRange s (s + len)        -- :243 → store/mod.rs:97-100 → array_store/mod.rs:89-107 / bitmap_store.rs:116-161
         ∧ Safe_replayRuns (st.insertRange s (s + len)).1 rs)

instance : ∀ (st : Store) (rs : List (Nat × Nat)), Decidable (Safe_replayRuns st rs)
  | _, [] => isTrue trivial
  | st, (s, len) :: rs => by
    unfold Safe_replayRuns
    have := instDecidableSafe_replayRuns (st.insertRange s (s + len)).1 rs
    infer_instance

/-- serialization.rs:231-246 = ops_with_serialized.rs:131-150, :238-253: one run chunk (`decodeRunStore`) -/
def Safe_decodeRunStore {σ : Type} (R : Nat → Parser σ (List Nat)) (s : σ) : Prop :=
  match R 2 s with
  | .error _ => True                              -- :231 `?`
  | .ok (rb, s1) =>
    let runs := leVal rb
    U16 runs                                      -- :231 the value of `read_u16` (so :232 `runs as usize` widens)
    ∧ U32 (runs * 4)                              -- :232-233 `vec![[0, 0]; runs as usize]` viewed as bytes by `cast_slice_mut`
    ∧ (match R (runs * 4) s1 with
       | .error _ => True                         -- :233 `?`
       | .ok (ib, _) =>
         let intervals := pairs (leWords 2 ib)
         let cap := (intervals.map (·.2)).foldl (· + ·) 0
         U32 cap                                  -- :239 `.map(|[_, len]| *len as usize).sum()` (usize; monotone partial sums)
         ∧ Safe_replayRuns (Store.withCapacity cap) intervals)   -- :240-245 (store/mod.rs:42-48 `with_capacity`: a comparison)

instance {σ : Type} (R : Nat → Parser σ (List Nat)) (s : σ) : Decidable (Safe_decodeRunStore R s) := by
  unfold Safe_decodeRunStore
  split
  · infer_instance
  · simp only []
    refine @instDecidableAnd _ _ _ (@instDecidableAnd _ _ _ ?_)
    split <;> infer_instance

/-- serialization.rs:247-252 = ops_with_serialized.rs:158-166, :254-259: an array chunk of `card ≤ 4096` values
    (`ArrayStore::try_from`, array_store/mod.rs:331-345, has no arithmetic besides `enumerate`'s counter `< len`) -/
def Safe_decodeArrayStore (card : Nat) : Prop :=
  U32 card                                        -- :248 `cardinality as usize` (u64 → usize)
  ∧ U32 (card * 2)                                -- :248-249 `vec![0; cardinality as usize]` (u16s) viewed as bytes

instance (card : Nat) : Decidable (Safe_decodeArrayStore card) := by unfold Safe_decodeArrayStore; infer_instance

/-- serialization.rs:253-259 = ops_with_serialized.rs:174-182, :260-267: a bitset chunk.  `validate` = the closure `b`
    sums the population counts: always for `BitmapStore::try_from` (checked decoder), under `debug_assertions` for
    `BitmapStore::from_unchecked` (bitmap_store.rs:93-99) -/
def Safe_decodeBitmapStore {σ : Type} (R : Nat → Parser σ (List Nat)) (validate : Bool) (s : σ) : Prop :=
  match R 8192 s with
  | .error _ => True                              -- :255 `?`
  | .ok (wb, _) =>
    (leWords 8 wb).length = 1024                  -- :254-256 the `Box<[u64; 1024]>` is filled completely by 8192 bytes
    ∧ (validate = true →
         U64 (BStore.popSum (leWords 8 wb)))      -- bitmap_store.rs:36 `.map(|v| v.count_ones() as u64).sum()` (monotone partial sums)

instance {σ : Type} (R : Nat → Parser σ (List Nat)) (validate : Bool) (s : σ) :
    Decidable (Safe_decodeBitmapStore R validate s) := by
  unfold Safe_decodeBitmapStore; split <;> infer_instance

/-- serialization.rs:230-266: the store of one container (`decodeStore`), including :263-266
    `container.ensure_correct_store()` on the replayed run store -/
def Safe_decodeStore {σ : Type} (R : Nat → Parser σ (List Nat)) (chk dbg : Bool) (card : Nat) (isRun : Bool)
    (s : σ) : Prop :=
  if isRun then
    Safe_decodeRunStore R s                                                -- :231-246
    ∧ (match decodeRunStore R s with
       | .ok (st, _) => Container.Safe_ensureCorrectStore { key := 0, store := st }   -- :265 → container.rs:177-190
       | .error _ => True)
  else if card ≤ ARRAY_LIMIT then Safe_decodeArrayStore card              -- :247-252
  else Safe_decodeBitmapStore R (chk || dbg) s                            -- :253-259

instance {σ : Type} (R : Nat → Parser σ (List Nat)) (chk dbg : Bool) (card : Nat) (isRun : Bool) (s : σ) :
    Decidable (Safe_decodeStore R chk dbg card isRun s) := by
  unfold Safe_decodeStore
  split
  · refine @instDecidableAnd _ _ _ ?_
    split <;> infer_instance
  · infer_instance

/-- serialization.rs:224 and :227-228 (= ops_with_serialized.rs:124, :127-128 and :231, :234-235): the cardinality
    and the run-flag lookup for container `i` with description `(key, cardM1)` -/
def Safe_descr (runBitmap : Option (List Nat)) (i cardM1 : Nat) : Prop :=
  U16 cardM1                                      -- :224 the operand of `u64::from` is a `u16`
  ∧ U64 (cardM1 + 1)                              -- :224 `u64::from(…) + 1`
  ∧ (match runBitmap with
     | some bm =>
       i / 8 < bm.length                          -- :228 `bm[i / 8]`
       ∧ i % 8 < 8                                -- :228 `1 << (i % 8)` on a `u8` (the other operand of `&` is a `u8`)
     | none => True)

instance (runBitmap : Option (List Nat)) (i cardM1 : Nat) : Decidable (Safe_descr runBitmap i cardM1) := by
  unfold Safe_descr
  refine @instDecidableAnd _ _ _ (@instDecidableAnd _ _ _ ?_)
  split <;> infer_instance

/-- serialization.rs:222-268, the `for i in 0..size` loop (`decodeContainers`): the list is the remaining
    descriptions, `i` the container index, `s` the reader state before container `i` -/
def Safe_decodeContainers {σ : Type} (R : Nat → Parser σ (List Nat)) (chk dbg : Bool)
    (runBitmap : Option (List Nat)) : List (Nat × Nat) → Nat → σ → Prop
  | [], _, _ => True
  | (_, cardM1) :: ds, i, s =>
    Safe_descr runBitmap i cardM1                                           -- :224 :228
    ∧ Safe_decodeStore R chk dbg (cardM1 + 1) (isRunAt runBitmap i) s      -- :230-266
    ∧ (match decodeStore R chk dbg (cardM1 + 1) (isRunAt runBitmap i) s with
       | .ok (_, s') => Safe_decodeContainers R chk dbg runBitmap ds (i + 1) s'     -- next iteration
       | .error _ => True)                                                  -- `?`: the function returns

instance {σ : Type} (R : Nat → Parser σ (List Nat)) (chk dbg : Bool) (runBitmap : Option (List Nat)) :
    ∀ (ds : List (Nat × Nat)) (i : Nat) (s : σ), Decidable (Safe_decodeContainers R chk dbg runBitmap ds i s)
  | [], _, _ => isTrue trivial
  | (_, cardM1) :: ds, i, s => by
    unfold Safe_decodeContainers
    have := fun s' => instDecidableSafe_decodeContainers R chk dbg runBitmap ds (i + 1) s'
    refine @instDecidableAnd _ _ _ (@instDecidableAnd _ _ _ ?_)
    split <;> infer_instance

/-- serialization.rs:170-271 `deserialize_from_impl` (the whole function, for `deserialize_from` with `chk = true` and
    `deserialize_unchecked_from` with `chk = false`) over the reader `R` from state `s`.  The validation that
    `deserialize_from` appends (:133-138: `any(is_empty)`, `windows(2)` with `pair[0]`, `pair[1]` on windows of
    length 2) has no partial operation.
    NOT an arithmetic site and not part of this predicate: with `chk = false` under `debug_assertions` the "unchecked"
    constructors validate and `unwrap()` (array_store/mod.rs:51, bitmap_store.rs:99) — the model's `DecErr.panic`;
    the checked decoder never reaches them (C13 `np_deserializeG`). -/
def Safe_deserialize {σ : Type} (R : Nat → Parser σ (List Nat)) (chk dbg : Bool) (s : σ) : Prop :=
  Safe_decodeHeader R s                                                     -- :183-217
  ∧ (match decodeHeader R s with
     | .error _ => True
     | .ok (h, s') =>
       h.descr.length = h.size                    -- :222-224 `for i in 0..size` reads `size` descriptions out of the
                                                  -- `size * 4` bytes of `description_bytes`: the slice reads never hit EOF
       ∧ h.size ≤ 65536                           -- :219 `Vec::with_capacity(size)` is small (:204)
       ∧ Safe_decodeContainers R chk dbg h.runBitmap h.descr 0 s')         -- :222-268

instance {σ : Type} (R : Nat → Parser σ (List Nat)) (chk dbg : Bool) (s : σ) :
    Decidable (Safe_deserialize R chk dbg s) := by
  unfold Safe_deserialize
  refine @instDecidableAnd _ _ _ ?_
  split <;> infer_instance

/-! ## `RoaringBitmap::intersection_with_serialized_unchecked` (roaring/src/bitmap/ops_with_serialized.rs:44-277)

The reader is the `Cursor` of `SerOps.lean`.  The header (:70-106) is `Safe_decodeHeader Cursor.readExact`.  NOT part of
these predicates: the in-memory `other_container &= container` (:194, :270 → container.rs:236-241), whose operands are
the stores built by the *unchecked* constructors; for a conformant stream they satisfy `Store.Inv` and the store-level
predicates of `Safe.lean` apply (C18 proves the functional result), for arbitrary bytes nothing is known about them.
Likewise not arithmetic sites: the validating `unwrap()`s of the unchecked constructors under `debug_assertions`
(array_store/mod.rs:51, bitmap_store.rs:99; the model's `DecErr.panic`, covered by C18 for conformant streams). -/

/-- ops_with_serialized.rs:130-150, :158-166, :174-182 (the `Some(_)` arms) and :237-267: reading one chunk with the
    unchecked constructors (`interReadStore`); the bitset sum of bitmap_store.rs:36 runs under `debug_assertions` only -/
def Safe_interReadStore (dbg : Bool) (card : Nat) (isRun : Bool) (c : Cursor) : Prop :=
  if isRun then Safe_decodeRunStore Cursor.readExact c                    -- :131-150 / :238-253
  else if card ≤ ARRAY_LIMIT then Safe_decodeArrayStore card              -- :161-166 / :255-259
  else Safe_decodeBitmapStore Cursor.readExact dbg c                      -- :177-182 / :261-266

instance (dbg : Bool) (card : Nat) (isRun : Bool) (c : Cursor) : Decidable (Safe_interReadStore dbg card isRun c) := by
  unfold Safe_interReadStore; infer_instance

/-- `reader.seek(SeekFrom::Current(n as i64))` of ops_with_serialized.rs:154, :170, :186 for a byte count `n : usize`:
    the cast is lossless and `Cursor::seek` stays inside `u64` (std computes `pos.checked_add_signed(n)` and returns an
    `Err` on overflow — no panic, but the model's `Cursor.seekCur` never fails, so this is also where the two agree) -/
def Safe_seekCur (c : Cursor) (n : Nat) : Prop :=
  U64 n                                           -- the `usize` product
  ∧ I64 (n : Int)                                 -- `… as i64`
  ∧ U64 (c.pos + n)                               -- `Cursor::seek(SeekFrom::Current(..))`

instance (c : Cursor) (n : Nat) : Decidable (Safe_seekCur c n) := by unfold Safe_seekCur; infer_instance

/-- ops_with_serialized.rs:117-201: the sequential loop (`interSequential`; the accumulator is irrelevant here).
    :120-123 `binary_search_by_key` / `self.containers.get(index)` are total. -/
def Safe_interSequential (dbg : Bool) (a : Bitmap) (runBitmap : Option (List Nat)) :
    List (Nat × Nat) → Nat → Cursor → Prop
  | [], _, _ => True
  | (key, cardM1) :: ds, i, c =>
    let container : Option Container := match Bitmap.search a key with
      | (true, index) => a[index]?
      | (false, _) => none
    let card := cardM1 + 1
    let isRun := isRunAt runBitmap i
    Safe_descr runBitmap i cardM1                                           -- :124 :128 (`i` from `enumerate()`)
    ∧ (match container with
       | some _ =>
         Safe_interReadStore dbg card isRun c                               -- :131-150 / :161-166 / :177-182
         ∧ (match interReadStore dbg card isRun c with
            | .ok (_, c') => Safe_interSequential dbg a runBitmap ds (i + 1) c'
            | .error _ => True)
       | none =>
         if isRun then
           match Cursor.readExact 2 c with
           | .error _ => True                                               -- :131 `?`
           | .ok (rb, c1) =>
             U16 (leVal rb)                                                 -- :131 `read_u16`
             ∧ Safe_seekCur c1 (2 * 2 * leVal rb)                           -- :153 `size_of::<u16>() * 2 * runs as usize`, :154
             ∧ Safe_interSequential dbg a runBitmap ds (i + 1) { c1 with pos := c1.pos + 2 * 2 * leVal rb }
         else if card ≤ ARRAY_LIMIT then
           U32 card                                                         -- :169 `cardinality as usize`
           ∧ Safe_seekCur c (2 * card)                                      -- :169 `size_of::<u16>() * cardinality as usize`, :170
           ∧ Safe_interSequential dbg a runBitmap ds (i + 1) { c with pos := c.pos + 2 * card }
         else
           Safe_seekCur c (8 * 1024)                                        -- :185 `size_of::<u64>() * BITMAP_LENGTH`, :186
           ∧ Safe_interSequential dbg a runBitmap ds (i + 1) { c with pos := c.pos + 8 * 1024 })

instance (dbg : Bool) (a : Bitmap) (runBitmap : Option (List Nat)) :
    ∀ (ds : List (Nat × Nat)) (i : Nat) (c : Cursor), Decidable (Safe_interSequential dbg a runBitmap ds i c)
  | [], _, _ => isTrue trivial
  | (key, cardM1) :: ds, i, c => by
    unfold Safe_interSequential
    have := fun c' => instDecidableSafe_interSequential dbg a runBitmap ds (i + 1) c'
    simp only []
    refine @instDecidableAnd _ _ _ ?_
    split
    · refine @instDecidableAnd _ _ _ ?_
      split <;> infer_instance
    · split
      · split <;> infer_instance
      · infer_instance

/-- ops_with_serialized.rs:204-277 `intersection_with_serialized_impl_with_offsets`: the loop over `self.containers`
    (`interOffsets`; the accumulator is irrelevant here) -/
def Safe_interOffsets (dbg : Bool) (h : Header) : List Container → Cursor → Prop
  | [], _ => True
  | c :: cs, cur =>
    match descrSearch h.descr c.key with
    | none => Safe_interOffsets dbg h cs cur                                -- :224 `Err(_) => continue`
    | some i =>
      let d := h.descr.getD i (0, 0)
      let cur1 : Cursor := { cur with pos := h.offsets.getD i 0 }
      i < h.offsets.length                                                  -- :228 `offsets[i]`
      ∧ U32 (h.offsets.getD i 0)                                            -- :228 `offsets[i] as u64` widens a `u32`; `SeekFrom::Start`
      ∧ i < h.descr.length                                                  -- :230 `descriptions[i]`
      ∧ Safe_descr h.runBitmap i d.2                                        -- :231 :235
      ∧ Safe_interReadStore dbg (d.2 + 1) (isRunAt h.runBitmap i) cur1      -- :237-267
      ∧ (match interReadStore dbg (d.2 + 1) (isRunAt h.runBitmap i) cur1 with
         | .ok (_, cur') => Safe_interOffsets dbg h cs cur'
         | .error _ => True)                                                -- `?`

instance (dbg : Bool) (h : Header) : ∀ (cs : List Container) (cur : Cursor), Decidable (Safe_interOffsets dbg h cs cur)
  | [], _ => isTrue trivial
  | c :: cs, cur => by
    unfold Safe_interOffsets
    have := fun cur' => instDecidableSafe_interOffsets dbg h cs cur'
    split
    · infer_instance
    · simp only []
      refine @instDecidableAnd _ _ _ (@instDecidableAnd _ _ _ (@instDecidableAnd _ _ _ (@instDecidableAnd _ _ _
        (@instDecidableAnd _ _ _ ?_))))
      split <;> infer_instance

/-- ops_with_serialized.rs:44-277 `intersection_with_serialized_unchecked(self = a, Cursor::new(bytes))` (`interSerG`) -/
def Safe_interSer (dbg : Bool) (a : Bitmap) (bytes : List Nat) : Prop :=
  Safe_decodeHeader Cursor.readExact ⟨bytes, 0⟩                             -- :70-106
  ∧ (match decodeHeader Cursor.readExact ⟨bytes, 0⟩ with
     | .error _ => True
     | .ok (h, c) =>
       h.descr.length = h.size                    -- :96-101 `descriptions` has `size` entries
       ∧ (if h.hasOffsets then
            h.offsets.length = h.size             -- :104-106 `offsets` has `size` entries
            ∧ Safe_interOffsets dbg h a c                                   -- :107-114 → :204-277
          else Safe_interSequential dbg a h.runBitmap h.descr 0 c))        -- :117-201

instance (dbg : Bool) (a : Bitmap) (bytes : List Nat) : Decidable (Safe_interSer dbg a bytes) := by
  unfold Safe_interSer
  refine @instDecidableAnd _ _ _ ?_
  split <;> infer_instance

/-! ## `RoaringBitmap::from_lsb0_bytes` (roaring/src/bitmap/inherent.rs:87-171) and the constructors under it

The model (`Lsb0.lean`) already turns the `expect` of :121, the `assert!`s, `split_at` past the end and the `usize`
subtraction of :140 into an explicit `none`, and C17 proves that none of them fires on the documented domain
`offset + 8·len ≤ 2^32`.  The predicates below list ALL arithmetic sites, including those for which the model silently
uses `Nat` arithmetic, `% 65536` for an `as u16` cast, or truncated subtraction. -/
namespace Lsb0

/-- inherent.rs:88-103 `shift_bytes(bytes, amount)` (`shiftBytes`) -/
def Safe_shiftBytes (bytes : List Nat) (amount : Nat) : Prop :=
  U64 (bytes.length + 1)                          -- :89 `Vec::with_capacity(bytes.len() + 1)`
  ∧ (bytes ≠ [] →
       amount < 8                                 -- :93 `byte << amount` on a `u8`
       ∧ amount ≤ 8                               -- :94 `8 - amount` (usize)
       ∧ 8 - amount < 8)                          -- :94 `byte >> (8 - amount)` on a `u8`

instance (bytes : List Nat) (amount : Nat) : Decidable (Safe_shiftBytes bytes amount) := by
  unfold Safe_shiftBytes; infer_instance

/-- array_store/mod.rs:64-72: the loop over the full words (`arrWords`); `word &= word - 1` (:70) runs under
    `while word != 0` -/
def Safe_arrWords (byteOffset : Nat) : Nat → List Nat → Prop
  | _, [] => True
  | index, w :: ws =>
    let bitIndex := (byteOffset + index * 8) * 8
    U64 (index * 8) ∧ U64 (byteOffset + index * 8) ∧ U64 bitIndex     -- :65 `(byte_offset + index * size_of::<Word>()) * 8` (usize)
    ∧ U32 bitIndex                                                      -- :69 `bit_index as u32`
    ∧ (∀ x ∈ drainWord bitIndex 64 w, U32 x ∧ U16 x)                   -- :69 `(word.trailing_zeros() + bit_index as u32) as u16`:
                                                                        --     the `u32` sum, and the cast is lossless
    ∧ Safe_arrWords byteOffset (index + 1) ws

instance (byteOffset : Nat) : ∀ (index : Nat) (ws : List Nat), Decidable (Safe_arrWords byteOffset index ws)
  | _, [] => isTrue trivial
  | index, w :: ws => by
    unfold Safe_arrWords
    have := instDecidableSafe_arrWords byteOffset (index + 1) ws
    infer_instance

/-- array_store/mod.rs:73-79: the loop over the remainder bytes (`arrRem`); `byte &= byte - 1` (:77) runs under
    `while byte != 0` -/
def Safe_arrRem (byteOffset done : Nat) : Nat → List Nat → Prop
  | _, [] => True
  | index, b :: bs =>
    let bitIndex := (byteOffset + done + index) * 8
    U64 (byteOffset + done) ∧ U64 (byteOffset + done + index) ∧ U64 bitIndex   -- :74 `(byte_offset + (…) + index) * 8` (usize)
    ∧ U32 bitIndex                                                      -- :76 `bit_index as u32`
    ∧ (∀ x ∈ drainWord bitIndex 64 b, U32 x ∧ U16 x)                   -- :76 `(byte.trailing_zeros() + bit_index as u32) as u16`
    ∧ Safe_arrRem byteOffset done (index + 1) bs

instance (byteOffset done : Nat) : ∀ (index : Nat) (bs : List Nat), Decidable (Safe_arrRem byteOffset done index bs)
  | _, [] => isTrue trivial
  | index, b :: bs => by
    unfold Safe_arrRem
    have := instDecidableSafe_arrRem byteOffset done (index + 1) bs
    infer_instance

/-- array_store/mod.rs:57-82 `ArrayStore::from_lsb0_bytes(bytes, byte_offset, bits_set)` (`arrFromLsb0`) -/
def Safe_arrFromLsb0 (bytes : List Nat) (byteOffset bitsSet : Nat) : Prop :=
  let rem := chunkRem bytes
  U64 bitsSet                                                           -- :60 `bits_set as usize`
  ∧ rem.length ≤ bytes.length                                           -- :74 `bytes.len() - remainder.len()`
  ∧ Safe_arrWords byteOffset 0 (chunkWords bytes)                       -- :64-72
  ∧ Safe_arrRem byteOffset (bytes.length - rem.length) 0 rem            -- :73-79

instance (bytes : List Nat) (byteOffset bitsSet : Nat) : Decidable (Safe_arrFromLsb0 bytes byteOffset bitsSet) := by
  unfold Safe_arrFromLsb0; infer_instance

/-- bitmap_store.rs:44-88 `BitmapStore::from_lsb0_bytes_unchecked(bytes, byte_offset, bits_set)` (`bmFromLsb0`); the
    `if !cfg!(target_endian = "little")` block (:75-85) is not executed on the little-endian target of the model -/
def Safe_bmFromLsb0 (dbg : Bool) (bytes : List Nat) (byteOffset : Nat) : Prop :=
  let buf := if bytes.length = BITMAP_BYTES then bytes
    else List.replicate byteOffset 0 ++ bytes ++ List.replicate (BITMAP_BYTES - byteOffset - bytes.length) 0
  byteOffset + bytes.length ≤ BITMAP_BYTES                              -- :46 `assert!(byte_offset.checked_add(len).map_or(false, …))`
  ∧ (bytes.length = BITMAP_BYTES → byteOffset = 0)                      -- :50 `debug_assert_eq!(byte_offset, 0)`
  ∧ (bytes.length ≠ BITMAP_BYTES →
       byteOffset ≤ BITMAP_BYTES                                        -- :70 `&mut dst[byte_offset..]`
       ∧ bytes.length ≤ BITMAP_BYTES - byteOffset)                      -- :70 `[..bytes.len()]` (and `copy_from_slice`: equal lengths)
  ∧ (leWords 8 buf).length = 1024                                       -- the box holds `BITMAP_LENGTH` words
  ∧ (dbg = true → U64 (BStore.popSum (leWords 8 buf)))                  -- :87 → :99 → :36 the `u64` sum of `try_from`

instance (dbg : Bool) (bytes : List Nat) (byteOffset : Nat) : Decidable (Safe_bmFromLsb0 dbg bytes byteOffset) := by
  unfold Safe_bmFromLsb0; infer_instance

/-- store/mod.rs:54-81 `Store::from_lsb0_bytes(bytes, byte_offset)` (`storeFromLsb0`), reached through
    container.rs:35-37.  `byte_offset + bytes.len() ≤ 8192` is the callers' obligation (an `assert!`). -/
def Safe_storeFromLsb0 (dbg : Bool) (bytes : List Nat) (byteOffset : Nat) : Prop :=
  U64 (byteOffset + bytes.length)                                       -- :55 `byte_offset + bytes.len()` (usize)
  ∧ byteOffset + bytes.length ≤ BITMAP_BYTES                            -- :55 `assert!(… <= BITMAP_LENGTH * size_of::<u64>())`
  ∧ U64 (bitsSet bytes)                                                 -- :65 :68 `bits_set += u64::from(….count_ones())` (monotone)
  ∧ (bitsSet bytes ≠ 0 →
       if bitsSet bytes ≤ ARRAY_LIMIT then Safe_arrFromLsb0 bytes byteOffset (bitsSet bytes)   -- :77
       else Safe_bmFromLsb0 dbg bytes byteOffset)                                               -- :79

instance (dbg : Bool) (bytes : List Nat) (byteOffset : Nat) : Decidable (Safe_storeFromLsb0 dbg bytes byteOffset) := by
  unfold Safe_storeFromLsb0; infer_instance

/-- inherent.rs:153-160 `for full_container_key in start_container..end_container_inc` (`fullLoop`; the accumulated
    containers are irrelevant here) -/
def Safe_fullLoop (dbg : Bool) : List Nat → List Nat → Prop
  | [], _ => True
  | key :: keys, bytes =>
    BITMAP_BYTES ≤ bytes.length                                         -- :154 `bytes.split_at(BITMAP_LENGTH * size_of::<u64>())`
    ∧ U16 key                                                           -- :157 `full_container_key as u16` is lossless
    ∧ Safe_storeFromLsb0 dbg (bytes.take BITMAP_BYTES) 0                -- :157 → container.rs:36 → store/mod.rs:54
    ∧ Safe_fullLoop dbg keys (bytes.drop BITMAP_BYTES)

instance (dbg : Bool) : ∀ (keys bytes : List Nat), Decidable (Safe_fullLoop dbg keys bytes)
  | [], _ => isTrue trivial
  | key :: keys, bytes => by
    unfold Safe_fullLoop
    have := instDecidableSafe_fullLoop dbg keys (bytes.drop BITMAP_BYTES)
    infer_instance

/-- AUXILIARY (not a model definition): the slice and the container key with which the loop of inherent.rs:153 starts,
    i.e. the `(bytes, start_container)` components of the local `first` of `fromLsb0Aligned`, recomputed with the
    same expressions (`first` is a `let` inside the model function and is not exposed) -/
def afterFirst (offset : Nat) (bytes : List Nat) : List Nat × Nat :=
  let endBitInc := offset + (bytes.length * 8 - 1)
  let startContainer := offset / 65536
  let startOffset := offset % 65536 / 8
  if startOffset ≠ 0 then
    let endByte := if endBitInc / 65536 = startContainer then (endBitInc % 65536 + 1) / 8 else BITMAP_BYTES
    (bytes.drop (endByte - startOffset), startContainer + 1)
  else (bytes, startContainer)

/-- inherent.rs:110-170: the body of `from_lsb0_bytes` for an offset that is a multiple of 8 (`fromLsb0Aligned`) -/
def Safe_fromLsb0Aligned (dbg : Bool) (offset : Nat) (bytes : List Nat) : Prop :=
  bytes ≠ [] →                                                          -- :110 `return RoaringBitmap::new()`
  let len := bytes.length
  (len ≤ wMax → len * 8 ≤ wMax → 1 ≤ len * 8)                           -- :119 `len_bits - 1` (u64), evaluated when :115-117 gave `Some`
  ∧ (¬ (len > wMax ∨ len * 8 > wMax ∨ offset + (len * 8 - 1) > wMax ∨ offset + (len * 8 - 1) > u32Max) →
                                                                        -- … otherwise the DOCUMENTED panic of :121 `.expect(…)`
     let endBitInc := offset + (len * 8 - 1)
     let startContainer := offset / 65536
     let startOffset := offset % 65536 / 8
     let endContainerInc := endBitInc / 65536
     let endOffset := (endBitInc % 65536 + 1) / 8
     let endByte := if endContainerInc = startContainer then endOffset else BITMAP_BYTES
     let keys := List.range' (afterFirst offset bytes).2 (endContainerInc - (afterFirst offset bytes).2)
     let rest := (afterFirst offset bytes).1.drop (BITMAP_BYTES * keys.length)
     U64 offset ∧ U64 endBitInc                                         -- :125 `offset as usize`, :127 `end_bit_inc as usize` (u32 → usize)
     ∧ 16 < 64                                                          -- :125 :127 `>> 16` on a `usize`
     ∧ U64 (endBitInc % 65536 + 1)                                      -- :127 `end_bit_inc as usize % 0x1_0000 + 1`
     ∧ U64 (endContainerInc + 1) ∧ startContainer ≤ endContainerInc + 1 -- :129 `end_container_inc + 1 - start_container`
     ∧ (startOffset ≠ 0 →
          startOffset ≤ endByte                                         -- :140 `end_byte - start_offset` (usize)
          ∧ endByte - startOffset ≤ len                                 -- :140 `bytes.split_at(…)`
          ∧ U16 startContainer                                          -- :144 `start_container as u16` is lossless
          ∧ Safe_storeFromLsb0 dbg (bytes.take (endByte - startOffset)) startOffset   -- :144 → container.rs:36 → store/mod.rs:54
          ∧ U64 (startContainer + 1))                                   -- :149 `start_container += 1`
     ∧ Safe_fullLoop dbg keys (afterFirst offset bytes).1               -- :153-160
     ∧ (rest ≠ [] →                                                     -- :163
          U16 endContainerInc                                           -- :164 `end_container_inc as u16` is lossless
          ∧ Safe_storeFromLsb0 dbg rest 0))                             -- :164 → container.rs:36 → store/mod.rs:54

instance (dbg : Bool) (offset : Nat) (bytes : List Nat) : Decidable (Safe_fromLsb0Aligned dbg offset bytes) := by
  unfold Safe_fromLsb0Aligned; infer_instance

/-- inherent.rs:87-171 `RoaringBitmap::from_lsb0_bytes(offset, bytes)` (`fromLsb0`) -/
def Safe_fromLsb0 (dbg : Bool) (offset : Nat) (bytes : List Nat) : Prop :=
  if offset % 8 ≠ 0 then                                                -- :104 (`%` by the constant 8)
    let shift := offset % 8
    U64 offset                                                          -- :105 `offset as usize`
    ∧ Safe_shiftBytes bytes shift                                       -- :106
    ∧ U32 shift ∧ shift ≤ offset                                        -- :107 `shift as u32`, `offset - shift as u32`
    ∧ Safe_fromLsb0Aligned dbg (offset - shift) (shiftBytes bytes shift)   -- :107 the recursive call: its offset is a multiple of 8
  else Safe_fromLsb0Aligned dbg offset bytes

instance (dbg : Bool) (offset : Nat) (bytes : List Nat) : Decidable (Safe_fromLsb0 dbg offset bytes) := by
  unfold Safe_fromLsb0; infer_instance

end Lsb0

/-! ## `RoaringTreemap` serialization (roaring/src/treemap/serialization.rs) -/
namespace Treemap

/-- treemap/serialization.rs:22-26 `serialized_size` -/
def Safe_serializedSize (t : Treemap) : Prop :=
  (∀ p ∈ t, Bitmap.Safe_serializedSize p.2)       -- :25 `bitmap.serialized_size()` → bitmap/serialization.rs:35-47
  ∧ U64 (serializedSize t)                        -- :25 `acc + size_of::<u32>() + bitmap.serialized_size()` (usize; monotone partial sums)

instance (t : Treemap) : Decidable (Safe_serializedSize t) := by unfold Safe_serializedSize; infer_instance

/-- treemap/serialization.rs:43-52 `serialize_into` -/
def Safe_serialize (t : Treemap) : Prop :=
  U64 t.length                                    -- :44 `self.map.len() as u64`
  ∧ (∀ p ∈ t, U32 p.1                             -- :47 the key is a `u32`
       ∧ Bitmap.Safe_serialize p.2)               -- :48 `bitmap.serialize_into(&mut writer)` → bitmap/serialization.rs:66-101

instance (t : Treemap) : Decidable (Safe_serialize t) := by unfold Safe_serialize; infer_instance

/-- treemap/serialization.rs:109-116, the body of `for _ in 0..size` (`decodeParts`); `n` = iterations left
    (`BTreeMap::insert`, `is_empty` are total) -/
def Safe_decodeParts {σ : Type} (R : Nat → Parser σ (List Nat)) (chk dbg : Bool) : Nat → σ → Prop
  | 0, _ => True
  | n + 1, s =>
    match R 4 s with
    | .error _ => True                            -- :110 `?`
    | .ok (kb, s1) =>
      U32 (leVal kb)                              -- :110 the value of `read_u32`
      ∧ Roaring.Safe_deserialize R chk dbg s1     -- :111 `deserialize_bitmap(&mut reader)` → bitmap/serialization.rs:126-141 / :162-168 → :170-271
      ∧ (match Roaring.deserializeG R chk dbg s1 with
         | .ok (_, s2) => Safe_decodeParts R chk dbg n s2
         | .error _ => True)                      -- :111 `?`

instance {σ : Type} (R : Nat → Parser σ (List Nat)) (chk dbg : Bool) :
    ∀ (n : Nat) (s : σ), Decidable (Safe_decodeParts R chk dbg n s)
  | 0, _ => isTrue trivial
  | n + 1, s => by
    unfold Safe_decodeParts
    have := fun s' => instDecidableSafe_decodeParts R chk dbg n s'
    split
    · infer_instance
    · refine @instDecidableAnd _ _ _ (@instDecidableAnd _ _ _ ?_)
      split <;> infer_instance

/-- treemap/serialization.rs:100-119 `deserialize_from_impl` (`Treemap.deserializeG`): `deserialize_from` with
    `chk = true`, `deserialize_unchecked_from` with `chk = false` -/
def Safe_deserialize {σ : Type} (R : Nat → Parser σ (List Nat)) (chk dbg : Bool) (s : σ) : Prop :=
  match R 8 s with
  | .error _ => True                              -- :105 `?`
  | .ok (sb, s1) =>
    U64 (leVal sb)                                -- :105 the value of `read_u64`; :109 the range `0..size` over `u64`
    ∧ Safe_decodeParts R chk dbg (leVal sb) s1    -- :109-116

instance {σ : Type} (R : Nat → Parser σ (List Nat)) (chk dbg : Bool) (s : σ) :
    Decidable (Safe_deserialize R chk dbg s) := by
  unfold Safe_deserialize; split <;> infer_instance

end Treemap

end Roaring
