import RoaringModel.Lemmas.IterLemmas
/-!
# C03: `size_hint`, `len`, `count`, `fold`, `rfold`, `iter()` over the kernel interface
-/
namespace Roaring
namespace Iter

/-! ### `size_hint_impl` (iter.rs:250) -/

theorem sizeHint_go_spec (K : CKernel) : ∀ (cs : List Container) (size : Nat), (∀ c ∈ cs, c.IterOK) →
    size + (mid cs).length ≤ usizeMax →
    sizeHint.go cs size = (size + (mid cs).length, some (size + (mid cs).length)) := by
  intro cs
  induction cs with
  | nil => intro size _ _; simp [sizeHint.go, mid_nil]
  | cons c cs ih =>
    intro size hok hle
    obtain ⟨_, _, k3⟩ := K.ofContainer c (hok c List.mem_cons_self)
    rw [mid_cons, List.length_append] at hle ⊢
    unfold sizeHint.go
    have : ¬ size + c.len > usizeMax := by rw [k3]; omega
    simp only [this, ↓reduceIte]
    rw [ih (size + c.len) (fun d hd => hok d (List.mem_cons_of_mem _ hd)) (by rw [k3]; omega), k3]
    simp only [Nat.add_assoc]

/-- `size_hint` is exact (the `checked_add` overflow arm needs more than `usize::MAX` remaining values) -/
theorem sizeHint_spec (K : CKernel) (it : Iter) (hi : it.Inv) (hlen : it.rem.length ≤ usizeMax) :
    it.sizeHint = (it.rem.length, some it.rem.length) := by
  obtain ⟨fr, cs, bk⟩ := it
  have hgo := sizeHint_go_spec K cs
  have hcok : ∀ c ∈ cs, c.IterOK := hi.cok
  unfold sizeHint
  simp only [rem_mk, List.length_append] at hlen ⊢
  cases fr with
  | none =>
    cases bk with
    | none =>
      simp only [orem_none, List.length_nil] at hlen ⊢
      rw [hgo _ hcok (by omega)]; simp
    | some b =>
      have := CIter.len_spec K b (hi.bi b rfl)
      simp only [orem_none, orem_some, List.length_nil] at hlen ⊢
      rw [hgo _ hcok (by omega), this]
      simp only [Prod.mk.injEq, Option.some.injEq]; omega
  | some f =>
    have hf := CIter.len_spec K f (hi.fi f rfl)
    cases bk with
    | none =>
      simp only [orem_none, orem_some, List.length_nil] at hlen ⊢
      rw [hgo _ hcok (by omega), hf]
      simp only [Prod.mk.injEq, Option.some.injEq]; omega
    | some b =>
      have := CIter.len_spec K b (hi.bi b rfl)
      simp only [orem_some] at hlen ⊢
      rw [hgo _ hcok (by omega), this, hf]
      simp only [Prod.mk.injEq, Option.some.injEq]; omega

theorem len?_spec (K : CKernel) (it : Iter) (hi : it.Inv) (hlen : it.rem.length ≤ usizeMax) :
    it.len? = some it.rem.length := by
  unfold len?
  rw [sizeHint_spec K it hi hlen]
  simp

/-! ### `count` (iter.rs:305) -/

theorem sum_len (K : CKernel) : ∀ (cs : List Container) (a : Nat), (∀ c ∈ cs, c.IterOK) →
    (cs.map Container.len).foldl (· + ·) a = a + (mid cs).length := by
  intro cs
  induction cs with
  | nil => intro a _; simp [mid_nil]
  | cons c cs ih =>
    intro a hok
    obtain ⟨_, _, k3⟩ := K.ofContainer c (hok c List.mem_cons_self)
    simp only [List.map_cons, List.foldl_cons, mid_cons, List.length_append]
    rw [ih _ (fun d hd => hok d (List.mem_cons_of_mem _ hd)), k3]
    omega

theorem count_spec (K : CKernel) (it : Iter) (hi : it.Inv) : it.count = it.rem.length := by
  obtain ⟨fr, cs, bk⟩ := it
  unfold count
  simp only [rem_mk, List.length_append]
  rw [sum_len K cs 0 hi.cok]
  cases fr with
  | none =>
    cases bk with
    | none => simp [orem_none]
    | some b => simp [orem_none, orem_some, K.count b (hi.bi b rfl)]
  | some f =>
    cases bk with
    | none => simp [orem_none, orem_some, K.count f (hi.fi f rfl)]
    | some b => simp [orem_some, K.count f (hi.fi f rfl), K.count b (hi.bi b rfl)]

/-! ### `fold` (iter.rs:287) and `rfold` (iter.rs:357) -/

theorem fold_mid (K : CKernel) {β : Type} (f : β → Nat → β) : ∀ (cs : List Container) (acc : β),
    (∀ c ∈ cs, c.IterOK) →
    cs.foldl (fun acc c => (CIter.ofContainer c).fold acc f) acc = (mid cs).foldl f acc := by
  intro cs
  induction cs with
  | nil => intro acc _; rfl
  | cons c cs ih =>
    intro acc hok
    obtain ⟨k1, k2, _⟩ := K.ofContainer c (hok c List.mem_cons_self)
    simp only [List.foldl_cons, mid_cons, List.foldl_append]
    rw [CIter.fold_spec K _ k1, k2]
    exact ih _ (fun d hd => hok d (List.mem_cons_of_mem _ hd))

theorem fold_spec (K : CKernel) {β : Type} (it : Iter) (hi : it.Inv) (init : β) (f : β → Nat → β) :
    it.fold init f = it.rem.foldl f init := by
  obtain ⟨fr, cs, bk⟩ := it
  unfold fold
  simp only [rem_mk, List.foldl_append]
  cases fr with
  | none =>
    simp only [orem_none, List.foldl_nil]
    rw [fold_mid K f cs _ hi.cok]
    cases bk with
    | none => rfl
    | some c => exact CIter.fold_spec K c (hi.bi c rfl) _ f
  | some c0 =>
    simp only [orem_some]
    rw [CIter.fold_spec K c0 (hi.fi c0 rfl), fold_mid K f cs _ hi.cok]
    cases bk with
    | none => rfl
    | some c => exact CIter.fold_spec K c (hi.bi c rfl) _ f

theorem mid_reverse (cs : List Container) :
    (mid cs).reverse = cs.reverse.flatMap (fun c => c.elems.reverse) := by
  simp only [mid, List.reverse_flatMap]; rfl

theorem rfold_mid (K : CKernel) {β : Type} (f : β → Nat → β) : ∀ (rcs : List Container) (acc : β),
    (∀ c ∈ rcs, c.IterOK) →
    rcs.foldl (fun acc c => (CIter.ofContainer c).rfold acc f) acc =
      (rcs.flatMap (fun c => c.elems.reverse)).foldl f acc := by
  intro rcs
  induction rcs with
  | nil => intro acc _; rfl
  | cons c cs ih =>
    intro acc hok
    obtain ⟨k1, k2, _⟩ := K.ofContainer c (hok c List.mem_cons_self)
    simp only [List.foldl_cons, List.flatMap_cons, List.foldl_append]
    rw [CIter.rfold_spec K _ k1, k2]
    exact ih _ (fun d hd => hok d (List.mem_cons_of_mem _ hd))

theorem rfold_spec (K : CKernel) {β : Type} (it : Iter) (hi : it.Inv) (init : β) (f : β → Nat → β) :
    it.rfold init f = it.rem.reverse.foldl f init := by
  obtain ⟨fr, cs, bk⟩ := it
  have hrev : ∀ c ∈ cs.reverse, c.IterOK := fun c hc => hi.cok c (List.mem_reverse.mp hc)
  unfold rfold
  simp only [rem_mk, List.reverse_append, List.foldl_append, mid_reverse]
  cases bk with
  | none =>
    simp only [orem_none, List.reverse_nil, List.foldl_nil]
    rw [rfold_mid K f cs.reverse _ hrev]
    cases fr with
    | none => rfl
    | some c => exact CIter.rfold_spec K c (hi.fi c rfl) _ f
  | some c0 =>
    simp only [orem_some]
    rw [CIter.rfold_spec K c0 (hi.bi c0 rfl), rfold_mid K f cs.reverse _ hrev]
    cases fr with
    | none => rfl
    | some c => exact CIter.rfold_spec K c (hi.fi c rfl) _ f

/-! ### `iter()` / `into_iter()` -/

theorem iter_spec (b : Bitmap) (hb : b.IterOK) : (Bitmap.iter b).Inv ∧ (Bitmap.iter b).rem = Bitmap.elems b := by
  refine ⟨⟨hb.1, hb.2, by simp [Bitmap.iter, Iter.new], by simp [Bitmap.iter, Iter.new],
    by simp [Bitmap.iter, Iter.new], by simp [Bitmap.iter, Iter.new], by simp [Bitmap.iter, Iter.new]⟩, ?_⟩
  simp [Bitmap.iter, Iter.new, Iter.rem, orem, mid, Bitmap.elems]

theorem empty_spec : Iter.empty.Inv ∧ Iter.empty.rem = [] := by
  have := iter_spec [] ⟨by simp [SortedLt], by simp⟩
  exact ⟨this.1, by rw [show Iter.empty = Bitmap.iter [] from rfl, this.2]; rfl⟩

end Iter
end Roaring
