import RoaringModel.Lemmas.TreemapKernel32
import RoaringModel.Lemmas.TreemapRangeConv
/-!
# `RoaringTreemap::remove_range` (inherent.rs:207-241) through the partition directory

The first loop rewrites every partition whose key lies in `[sk, ek]` (interval `[si or 0, ei or u32::MAX]`)
and records the emptied keys; the second loop removes them.  Everything is structural in the partition list:
`elems` is the concatenation of the partitions and `filter` distributes over it.
-/
namespace Roaring
namespace Treemap
open TL

variable (K : Kernel32)

/-- the new value of one partition -/
def rrPart (sk si ek ei : Nat) (p : Nat × Bitmap) : Nat × Bitmap :=
  if p.1 ≥ sk && p.1 ≤ ek then
    (p.1, (Bitmap.removeRange p.2 (.incl (if p.1 = sk then si else 0)) (.incl (if p.1 = ek then ei else u32Max))).1)
  else p

/-- the number of values removed from one partition -/
def rrCnt (sk si ek ei : Nat) (p : Nat × Bitmap) : Nat :=
  if p.1 ≥ sk && p.1 ≤ ek then
    (Bitmap.removeRange p.2 (.incl (if p.1 = sk then si else 0)) (.incl (if p.1 = ek then ei else u32Max))).2
  else 0

theorem rrPart_fst (sk si ek ei : Nat) (p : Nat × Bitmap) : (rrPart sk si ek ei p).1 = p.1 := by
  unfold rrPart; split <;> rfl

theorem removeRangeLoop_cons (sk si ek ei : Nat) (p : Nat × Bitmap) (t : Treemap) :
    removeRangeLoop sk si ek ei (p :: t) =
      (rrPart sk si ek ei p :: (removeRangeLoop sk si ek ei t).1,
       rrCnt sk si ek ei p + (removeRangeLoop sk si ek ei t).2.1,
       if Bitmap.isEmpty (rrPart sk si ek ei p).2 && (p.1 ≥ sk && p.1 ≤ ek)
         then p.1 :: (removeRangeLoop sk si ek ei t).2.2 else (removeRangeLoop sk si ek ei t).2.2) := by
  obtain ⟨key, rb⟩ := p
  rw [removeRangeLoop]
  unfold rrPart rrCnt
  by_cases h : (decide (key ≥ sk) && decide (key ≤ ek)) = true
  · simp only [h, ↓reduceIte, Bool.and_true]
  · simp only [h, Bool.false_eq_true, ↓reduceIte, Bool.and_false, Nat.zero_add]

/-- what one partition contributes, against the interval `[start, en]` of `u64` -/
theorem rrPart_spec {sk si ek ei start en : Nat} (hsi : si < 4294967296) (hei : ei < 4294967296)
    (hst : start = sk * 4294967296 + si) (hen : en = ek * 4294967296 + ei) (hse : start ≤ en)
    {k : Nat} {b : Bitmap} (hb : K.WF b) :
    K.WF (rrPart sk si ek ei (k, b)).2 ∧
    (Bitmap.elems (rrPart sk si ek ei (k, b)).2).map (join k) =
      ((Bitmap.elems b).map (join k)).filter
        (fun x => decide (x < start) || decide (en < x)) ∧
    rrCnt sk si ek ei (k, b) =
      (((Bitmap.elems b).map (join k)).filter
        (fun x => decide (start ≤ x) && decide (x ≤ en))).length := by
  have hlt := K.elems_lt b hb
  unfold rrPart rrCnt
  simp only [List.filter_map, List.length_map]
  by_cases hk : sk ≤ k ∧ k ≤ ek
  · have h : (decide (k ≥ sk) && decide (k ≤ ek)) = true := by
      rw [Bool.and_eq_true, decide_eq_true_eq, decide_eq_true_eq]; exact hk
    simp only [h, ↓reduceIte]
    have ha : (if k = sk then si else 0) ≤ (if k = ek then ei else u32Max) := by
      unfold u32Max; split <;> split <;> omega
    have hb' : (if k = ek then ei else u32Max) < 4294967296 := by unfold u32Max; split <;> omega
    obtain ⟨h1, h2, h3⟩ := K.removeRange_spec b _ _ hb ha hb'
    refine ⟨h1, ?_, ?_⟩
    · rw [h2]
      simp only [Spec.removeIv]
      congr 1
      apply List.filter_congr
      intro y hy
      have := hlt y hy
      rw [Bool.eq_iff_iff]
      simp only [Function.comp, Bool.or_eq_true, decide_eq_true_eq]
      rw [join_eq this]
      unfold u32Max
      split <;> split <;> omega
    · rw [h3]
      simp only [Spec.removeIv]
      congr 1
      apply List.filter_congr
      intro y hy
      have := hlt y hy
      rw [Bool.eq_iff_iff]
      simp only [Function.comp, Bool.and_eq_true, decide_eq_true_eq]
      rw [join_eq this]
      unfold u32Max
      split <;> split <;> omega
  · have h : (decide (k ≥ sk) && decide (k ≤ ek)) = false := by
      rw [Bool.eq_false_iff]; intro h
      rw [Bool.and_eq_true, decide_eq_true_eq, decide_eq_true_eq] at h; exact hk h
    simp only [h, Bool.false_eq_true, ↓reduceIte]
    refine ⟨hb, ?_, ?_⟩
    · congr 1
      symm
      rw [List.filter_eq_self]
      intro y hy
      have := hlt y hy
      simp only [Function.comp, Bool.or_eq_true, decide_eq_true_eq]
      rw [join_eq this]
      omega
    · symm
      rw [List.length_eq_zero_iff, List.filter_eq_nil_iff]
      intro y hy
      have := hlt y hy
      simp only [Function.comp, Bool.and_eq_true, decide_eq_true_eq]
      rw [join_eq this]
      omega

/-- the first loop, as a whole -/
theorem removeRangeLoop_spec {sk si ek ei start en : Nat} (hsi : si < 4294967296) (hei : ei < 4294967296)
    (hst : start = sk * 4294967296 + si) (hen : en = ek * 4294967296 + ei) (hse : start ≤ en) :
    ∀ (t : Treemap), (∀ p ∈ t, K.WF p.2 ∧ Bitmap.elems p.2 ≠ []) →
      (removeRangeLoop sk si ek ei t).1 = t.map (rrPart sk si ek ei) ∧
      elems (removeRangeLoop sk si ek ei t).1 = (elems t).filter
        (fun x => decide (x < start) || decide (en < x)) ∧
      (removeRangeLoop sk si ek ei t).2.1 = ((elems t).filter
        (fun x => decide (start ≤ x) && decide (x ≤ en))).length ∧
      (∀ k, k ∈ (removeRangeLoop sk si ek ei t).2.2 →
        ∃ p ∈ t, p.1 = k ∧ Bitmap.isEmpty (rrPart sk si ek ei p).2 = true) ∧
      (∀ p ∈ t, Bitmap.isEmpty (rrPart sk si ek ei p).2 = true → p.1 ∈ (removeRangeLoop sk si ek ei t).2.2)
  | [], _ => by simp [removeRangeLoop, elems]
  | (k, b) :: t, h => by
    obtain ⟨i1, i2, i3, i4, i5⟩ := removeRangeLoop_spec hsi hei hst hen hse t (fun q hq => h q (List.mem_cons_of_mem _ hq))
    have hb : K.WF b := (h (k, b) (by simp)).1
    have hbne : Bitmap.elems b ≠ [] := (h (k, b) (by simp)).2
    obtain ⟨p1, p2, p3⟩ := rrPart_spec K hsi hei hst hen hse (k := k) hb
    rw [removeRangeLoop_cons]
    simp only []
    refine ⟨by rw [i1]; rfl, ?_, ?_, ?_, ?_⟩
    · rw [elems_cons, elems_cons, List.filter_append, i2, rrPart_fst, p2]
    · rw [elems_cons, List.filter_append, List.length_append, i3, p3]
    · intro k' hk'
      split at hk'
      · rename_i hc
        rcases List.mem_cons.mp hk' with rfl | hk'
        · exact ⟨(k', b), by simp, rfl, by simp only [Bool.and_eq_true] at hc; exact hc.1⟩
        · obtain ⟨p, hp, e1, e2⟩ := i4 k' hk'
          exact ⟨p, List.mem_cons_of_mem _ hp, e1, e2⟩
      · obtain ⟨p, hp, e1, e2⟩ := i4 k' hk'
        exact ⟨p, List.mem_cons_of_mem _ hp, e1, e2⟩
    · intro p hp he
      rcases List.mem_cons.mp hp with rfl | hp
      · by_cases hc : (decide (k ≥ sk) && decide (k ≤ ek)) = true
        · simp only [he, hc, Bool.and_self, ↓reduceIte]; exact List.mem_cons_self ..
        · -- not in range: `rrPart` is the identity, but a partition of a well-formed treemap is not empty
          exfalso
          unfold rrPart at he
          simp only [hc, Bool.false_eq_true, ↓reduceIte] at he
          exact hbne ((K.isEmpty_spec b hb).1 he)
      · have := i5 p hp he
        split
        · exact List.mem_cons_of_mem _ this
        · exact this

/-! ### the second loop: `for key in keys_to_remove { self.map.remove(&key) }` -/

theorem foldl_removeK : ∀ (ks : List Nat) (t : Treemap),
    ks.foldl removeK t = t.filter (fun p => decide (p.1 ∉ ks))
  | [], t => by
    simp only [List.foldl_nil, List.not_mem_nil, not_false_eq_true, decide_true]
    exact (List.filter_eq_self.mpr (fun _ _ => rfl)).symm
  | k :: ks, t => by
    rw [List.foldl_cons, foldl_removeK ks, removeK, List.filter_filter]
    apply List.filter_congr
    intro p _
    rw [Bool.eq_iff_iff]
    simp only [Bool.and_eq_true, decide_eq_true_eq, bne_iff_ne, ne_eq, List.mem_cons, not_or]
    exact And.comm

theorem key_unique {t : Treemap} (hs : KeysSorted t) {p q : Nat × Bitmap} (hp : p ∈ t) (hq : q ∈ t)
    (h : p.1 = q.1) : p = q := by
  have h1 := get_eq_some_of_mem hs (k := p.1) (b := p.2) hp
  have h2 := get_eq_some_of_mem hs (k := q.1) (b := q.2) hq
  rw [h, h2] at h1
  exact Prod.ext h (Option.some.inj h1).symm

theorem elems_filter (f : Nat × Bitmap → Bool) : ∀ (l : Treemap), (∀ p ∈ l, f p = false → Bitmap.elems p.2 = []) →
    elems (l.filter f) = elems l
  | [], _ => rfl
  | p :: l, h => by
    have ih := elems_filter f l (fun q hq => h q (List.mem_cons_of_mem _ hq))
    rw [List.filter_cons]
    cases hf : f p with
    | true => simp only [↓reduceIte, elems_cons, ih]
    | false =>
      simp only [Bool.false_eq_true, ↓reduceIte, elems_cons, ih, h p (by simp) hf, List.map_nil, List.nil_append]

private theorem removeRange_eq (t : Treemap) (lo hi : Bound) :
    removeRange t lo hi = match convertRange64 lo hi with
      | none => (t, 0)
      | some (start, en) =>
        let r := removeRangeLoop (split start).1 (split start).2 (split en).1 (split en).2 t
        (r.2.2.foldl removeK r.1, r.2.1) := rfl

/-- `remove_range`: the values inside the range are removed (emptied partitions are dropped), the result is
    their number -/
theorem removeRange_spec (t : Treemap) (hw : WF K t) (lo hi : Bound)
    (hlo : Bound.le u64Max lo) (hhi : Bound.le u64Max hi) :
    WF K (removeRange t lo hi).1 ∧
    elems (removeRange t lo hi).1 = (Spec.removeRange u64Max (elems t) lo hi).1 ∧
    (removeRange t lo hi).2 = (Spec.removeRange u64Max (elems t) lo hi).2 := by
  rw [removeRange_eq, convertRange64_interval lo hi hlo hhi]
  unfold Spec.removeRange
  cases hiv : Spec.interval u64Max lo hi with
  | none => exact ⟨hw, rfl, rfl⟩
  | some iv =>
    obtain ⟨start, en⟩ := iv
    obtain ⟨hse, hen64⟩ := interval64_bounds hiv
    have hen' : en < 18446744073709551616 := by unfold u64Max at hen64; omega
    have hst' : start < 18446744073709551616 := by omega
    simp only [split_fst_of_lt hst', split_fst_of_lt hen', split_snd]
    have hst : start = start / 4294967296 * 4294967296 + start % 4294967296 := (Nat.div_add_mod' _ _).symm
    have hen : en = en / 4294967296 * 4294967296 + en % 4294967296 := (Nat.div_add_mod' _ _).symm
    have hparts : ∀ p ∈ t, K.WF p.2 ∧ Bitmap.elems p.2 ≠ [] := fun p hp => (hw.parts p hp).2
    obtain ⟨l1, l2, l3, l4, l5⟩ := removeRangeLoop_spec K (Nat.mod_lt _ (by decide)) (Nat.mod_lt _ (by decide))
      hst hen hse t hparts
    generalize hL : removeRangeLoop (start / 4294967296) (start % 4294967296) (en / 4294967296) (en % 4294967296) t = L
      at l1 l2 l3 l4 l5
    obtain ⟨t1, cnt, ks⟩ := L
    simp only [] at l1 l2 l3 l4 l5 ⊢
    -- shorthand for the per-partition rewrite
    generalize hrr : rrPart (start / 4294967296) (start % 4294967296) (en / 4294967296) (en % 4294967296) = rr
      at l1 l4 l5
    have hrr1 : ∀ p, (rr p).1 = p.1 := by intro p; rw [← hrr]; exact rrPart_fst ..
    have hrrwf : ∀ p ∈ t, K.WF (rr p).2 := by
      intro p hp
      rw [← hrr]
      exact (rrPart_spec K (Nat.mod_lt _ (by decide)) (Nat.mod_lt _ (by decide)) hst hen hse (k := p.1)
        (hparts p hp).1).1
    have hkeys : keys t1 = keys t := by
      rw [l1]; unfold keys; rw [List.map_map]
      apply List.map_congr_left; intro p _; exact hrr1 p
    have hs1 : KeysSorted t1 := by unfold KeysSorted; rw [hkeys]; exact hw.sorted
    -- the recorded keys are exactly the keys of the emptied partitions
    have hfil : ks.foldl removeK t1 = t1.filter (fun p => !Bitmap.isEmpty p.2) := by
      rw [foldl_removeK]
      apply List.filter_congr
      intro p' hp'
      rw [Bool.eq_iff_iff]
      simp only [decide_eq_true_eq, Bool.not_eq_true', Bool.eq_false_iff]
      rw [l1] at hp'
      obtain ⟨p, hp, rfl⟩ := List.mem_map.mp hp'
      constructor
      · intro hnot he; exact hnot (by rw [hrr1]; exact l5 p hp he)
      · intro hne hmem
        rw [hrr1] at hmem
        obtain ⟨q, hq, e1, e2⟩ := l4 _ hmem
        have := key_unique hw.sorted hq hp e1
        subst this; exact hne e2
    rw [hfil]
    have hmem1 : ∀ p' ∈ t1, ∃ p ∈ t, p' = rr p := by
      intro p' hp'; rw [l1] at hp'
      obtain ⟨p, hp, rfl⟩ := List.mem_map.mp hp'
      exact ⟨p, hp, rfl⟩
    refine ⟨⟨?_, ?_⟩, ?_, l3⟩
    · exact List.Pairwise.sublist (List.Sublist.map _ List.filter_sublist) hs1
    · intro p' hp'
      obtain ⟨h1, h2⟩ := List.mem_filter.mp hp'
      obtain ⟨p, hp, rfl⟩ := hmem1 p' h1
      have hwf := hrrwf p hp
      refine ⟨by rw [hrr1]; exact (hw.parts p hp).1, hwf, ?_⟩
      intro hnil
      have := (K.isEmpty_spec _ hwf).2 hnil
      rw [this] at h2; simp at h2
    · rw [elems_filter _ t1 ?_, l2]
      · rfl
      · intro p' hp' hf
        obtain ⟨p, hp, rfl⟩ := hmem1 p' hp'
        have : Bitmap.isEmpty (rr p).2 = true := by simpa using hf
        exact (K.isEmpty_spec _ (hrrwf p hp)).1 this

end Treemap
end Roaring
