import RoaringModel.Lemmas.TreemapDir
import RoaringModel.Lemmas.Canonical
/-!
# Canonical form of a `RoaringTreemap`: a well-formed treemap is determined by its set of `u64` (C04, 64-bit half)

Well-formed (`WFd Bitmap.WF`): partition keys strictly ascending and `< 2^32`, every partition a well-formed,
non-empty 32-bit bitmap.
-/
namespace Roaring
namespace Treemap
open TL

/-- what the partition-directory lemmas need from `Bitmap.WF` -/
theorem elems32 : Elems32 Bitmap.WF :=
  ⟨fun b h => Bitmap.sorted_elems b h.dir, fun b h => Bitmap.elems_lt b h.dir⟩

/-- `==` on treemaps (derived `PartialEq` over the `BTreeMap`) is structural equality of the model value -/
theorem eq_iff : ∀ (s t : Treemap), Treemap.eq s t = true ↔ s = t
  | [], [] => by simp [Treemap.eq]
  | [], _ :: _ => by simp [Treemap.eq]
  | _ :: _, [] => by simp [Treemap.eq]
  | (k, a) :: s, (k', b) :: t => by
    simp only [Treemap.eq, Bool.and_eq_true, beq_iff_eq, List.cons.injEq, Prod.mk.injEq, eq_iff s t,
      Bitmap.eq_iff]

theorem head_key_mem {k : Nat} {a : Bitmap} {s : Treemap} (hs : WFd Bitmap.WF ((k, a) :: s)) :
    ∃ lo, lo ∈ Bitmap.elems a ∧ lo < P32 ∧ join k lo ∈ elems ((k, a) :: s) := by
  have hp := hs.parts (k, a) (by simp)
  obtain ⟨lo, hmem⟩ : ∃ lo, lo ∈ Bitmap.elems a := by
    cases hl : Bitmap.elems a with
    | nil => exact absurd hl hp.2.2
    | cons lo rest => exact ⟨lo, by simp⟩
  have hlt := elems32.lt a hp.2.1 lo hmem
  refine ⟨lo, hmem, hlt, ?_⟩
  rw [mem_elems elems32 hs, join_div hlt, join_mod hlt]
  exact ⟨a, by simp [get], hmem⟩

theorem key_ge_of_get {k : Nat} {a : Bitmap} {s : Treemap} (hs : WFd Bitmap.WF ((k, a) :: s))
    {k' : Nat} {b : Bitmap} (hg : get ((k, a) :: s) k' = some b) : k ≤ k' := by
  have hm := mem_of_get_eq_some hg
  rcases List.mem_cons.mp hm with h | h
  · simp only [Prod.mk.injEq] at h; omega
  · have := (keysSorted_cons.mp hs.sorted).1 _ h; simp at this; omega

/-- **Canonical form (64-bit).** Two well-formed treemaps with the same elements are the same value. -/
theorem canonical : ∀ (s t : Treemap), WFd Bitmap.WF s → WFd Bitmap.WF t → elems s = elems t → s = t
  | [], t, _, ht, h => ((elems_eq_nil_iff ht).mp h.symm).symm
  | s, [], hs, _, h => (elems_eq_nil_iff hs).mp h
  | (k, a) :: s, (k', b) :: t, hs, ht, h => by
    have hpa := hs.parts (k, a) (by simp)
    have hpb := ht.parts (k', b) (by simp)
    -- the first partition keys agree
    have hk : k = k' := by
      obtain ⟨lo, _, hlo, hm⟩ := head_key_mem hs
      obtain ⟨lo', _, hlo', hm'⟩ := head_key_mem ht
      rw [h, mem_elems elems32 ht, join_div hlo] at hm
      rw [← h, mem_elems elems32 hs, join_div hlo'] at hm'
      obtain ⟨_, hg, _⟩ := hm
      obtain ⟨_, hg', _⟩ := hm'
      have := key_ge_of_get ht hg
      have := key_ge_of_get hs hg'
      omega
    subst hk
    -- the first partitions hold the same values, hence are the same bitmap
    have hab : a = b := by
      apply Bitmap.canonical a b hpa.2.1 hpb.2.1
      apply Arr.sorted_ext _ _ (elems32.sorted a hpa.2.1) (elems32.sorted b hpb.2.1)
      intro lo
      constructor
      · intro hl
        have hlt := elems32.lt a hpa.2.1 lo hl
        have : join k lo ∈ elems ((k, a) :: s) := by
          rw [mem_elems elems32 hs, join_div hlt, join_mod hlt]; exact ⟨a, by simp [get], hl⟩
        rw [h, mem_elems elems32 ht, join_div hlt, join_mod hlt] at this
        obtain ⟨b', hg, hm⟩ := this
        simp [get] at hg; subst hg; exact hm
      · intro hl
        have hlt := elems32.lt b hpb.2.1 lo hl
        have : join k lo ∈ elems ((k, b) :: t) := by
          rw [mem_elems elems32 ht, join_div hlt, join_mod hlt]; exact ⟨b, by simp [get], hl⟩
        rw [← h, mem_elems elems32 hs, join_div hlt, join_mod hlt] at this
        obtain ⟨a', hg, hm⟩ := this
        simp [get] at hg; subst hg; exact hm
    subst hab
    -- cancel the common first partition and recurse
    have htail : elems s = elems t := by
      rw [elems_cons, elems_cons] at h
      exact List.append_cancel_left h
    rw [canonical s t hs.tail ht.tail htail]

/-- `==` holds exactly when the two treemaps contain the same integers -/
theorem eq_iff_elems (s t : Treemap) (hs : WFd Bitmap.WF s) (ht : WFd Bitmap.WF t) :
    Treemap.eq s t = true ↔ elems s = elems t := by
  rw [eq_iff]
  exact ⟨fun h => by rw [h], canonical s t hs ht⟩

end Treemap
end Roaring
