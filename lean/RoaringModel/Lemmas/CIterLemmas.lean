import RoaringModel.Lemmas.BIterLemmas
import RoaringModel.Lemmas.IterDefs
/-!
# C03: the container-level kernel `cKernel : CKernel`

Instantiates the interface used by the bitmap-level proofs with the two kinds of store iterator:
the slice window (`slice::Iter` / `vec::IntoIter` + `partition_point`) and `BitmapIter`.
-/
namespace Roaring

/-! ### slice window -/
namespace Win

theorem sorted_tail {w : List Nat} (h : SortedLt w) : SortedLt w.tail :=
  List.Pairwise.sublist (List.tail_sublist w) h
theorem sorted_dropLast {w : List Nat} (h : SortedLt w) : SortedLt w.dropLast :=
  List.Pairwise.sublist (List.dropLast_sublist w) h
theorem sorted_drop {w : List Nat} (k : Nat) (h : SortedLt w) : SortedLt (w.drop k) :=
  List.Pairwise.sublist (List.drop_sublist k w) h
theorem sorted_filter {w : List Nat} (p : Nat → Bool) (h : SortedLt w) : SortedLt (w.filter p) :=
  List.Pairwise.sublist List.filter_sublist h

/-- `partition_point(|i| i < n)` then `nth(skip - 1)`: on a sorted window this drops exactly the values `< n` -/
theorem drop_takeWhile_lt (n : Nat) : ∀ (w : List Nat), SortedLt w →
    w.drop (w.takeWhile (fun i => decide (i < n))).length = w.filter (fun x => decide (n ≤ x)) := by
  intro w
  induction w with
  | nil => simp
  | cons a l ih =>
    intro hs
    have hs' := (List.pairwise_cons.mp hs)
    by_cases h : a < n
    · have hna : ¬ n ≤ a := by omega
      simp only [List.takeWhile_cons, h, decide_true, ↓reduceIte, List.length_cons, List.drop_succ_cons,
        List.filter_cons, hna, decide_false, Bool.false_eq_true]
      exact ih hs'.2
    · have hna : n ≤ a := by omega
      simp only [List.takeWhile_cons, h, decide_false, Bool.false_eq_true, ↓reduceIte, List.length_nil,
        List.drop_zero]
      symm
      rw [List.filter_eq_self]
      intro x hx
      rcases List.mem_cons.mp hx with rfl | hx
      · simp [hna]
      · have := hs'.1 x hx; simp; omega

/-- `partition_point(|i| i <= n)`: on a sorted window the prefix of values `≤ n` is exactly the filter -/
theorem takeWhile_le (n : Nat) : ∀ (w : List Nat), SortedLt w →
    w.takeWhile (fun i => decide (i ≤ n)) = w.filter (fun x => decide (x ≤ n)) := by
  intro w
  induction w with
  | nil => simp
  | cons a l ih =>
    intro hs
    have hs' := (List.pairwise_cons.mp hs)
    by_cases h : a ≤ n
    · simp only [List.takeWhile_cons, h, decide_true, ↓reduceIte, List.filter_cons]
      rw [ih hs'.2]
    · simp only [List.takeWhile_cons, h, decide_false, Bool.false_eq_true, ↓reduceIte, List.filter_cons]
      symm
      rw [List.filter_eq_nil_iff]
      intro x hx
      have := hs'.1 x hx; simp; omega

end Win

/-! ### `BitmapIter`: the std default `nth` -/
namespace BIter

theorem nth_cursor (n : Nat) : ∀ (it : BIter), it.Inv →
    (it.nth n).2 = it.rem[n]? ∧ (it.nth n).1.rem = it.rem.drop (n + 1) ∧ (it.nth n).1.Inv := by
  induction n with
  | zero =>
    intro it hi
    obtain ⟨h1, h2, h3⟩ := next_cursor it hi
    simp only [nth]
    refine ⟨?_, ?_, h3⟩
    · rw [h1]; cases it.rem <;> rfl
    · rw [h2]; cases it.rem <;> rfl
  | succ n ih =>
    intro it hi
    obtain ⟨h1, h2, h3⟩ := next_cursor it hi
    unfold nth
    cases hr : it.next with
    | mk it' r =>
      rw [hr] at h1 h2 h3
      simp only [] at h1 h2 h3
      cases r with
      | none =>
        have hnil : it.rem = [] := List.head?_eq_none_iff.mp h1.symm
        simp only []
        rw [h2, hnil]
        exact ⟨by simp, by simp, h3⟩
      | some x =>
        simp only []
        obtain ⟨i1, i2, i3⟩ := ih it' h3
        rw [h2] at i1 i2
        cases hrem : it.rem with
        | nil => rw [hrem] at h1; simp at h1
        | cons a l =>
          rw [hrem] at i1 i2
          simp only [List.tail_cons] at i1 i2
          exact ⟨by rw [i1]; simp, by rw [i2]; simp, i3⟩

end BIter

/-! ### `store::Iter` -/
namespace SIter

theorem rem_lt (s : SIter) (hs : s.Inv) : ∀ x ∈ s.rem, x < 65536 := by
  cases s with
  | array w => exact hs.2
  | bitmap it => exact BIter.rem_lt it hs

theorem rem_sorted (s : SIter) (hs : s.Inv) : SortedLt s.rem := by
  cases s with
  | array w => exact hs.1
  | bitmap it => exact BIter.rem_sorted it hs

theorem next_spec (s : SIter) (hs : s.Inv) :
    s.next.2 = s.rem.head? ∧ s.next.1.rem = s.rem.tail ∧ s.next.1.Inv := by
  cases s with
  | array w =>
    refine ⟨rfl, rfl, Win.sorted_tail hs.1, ?_⟩
    intro x hx; exact hs.2 x (List.mem_of_mem_tail hx)
  | bitmap it => exact BIter.next_cursor it hs

theorem nextBack_spec (s : SIter) (hs : s.Inv) :
    s.nextBack.2 = s.rem.getLast? ∧ s.nextBack.1.rem = s.rem.dropLast ∧ s.nextBack.1.Inv := by
  cases s with
  | array w =>
    refine ⟨rfl, rfl, Win.sorted_dropLast hs.1, ?_⟩
    intro x hx; exact hs.2 x ((List.dropLast_sublist w).subset hx)
  | bitmap it => exact BIter.nextBack_cursor it hs

theorem nth_spec (s : SIter) (n : Nat) (hs : s.Inv) :
    (s.nth n).2 = s.rem[n]? ∧ (s.nth n).1.rem = s.rem.drop (n + 1) ∧ (s.nth n).1.Inv := by
  cases s with
  | array w =>
    refine ⟨rfl, rfl, Win.sorted_drop _ hs.1, ?_⟩
    intro x hx; exact hs.2 x (List.mem_of_mem_drop hx)
  | bitmap it => exact BIter.nth_cursor n it hs

theorem advanceTo_array (w : List Nat) (i : Nat) :
    SIter.advanceTo (.array w) i = .array (w.drop (w.takeWhile (fun j => decide (j < i))).length) := by
  simp only [advanceTo, Win.partitionPoint]
  split
  · rename_i h; rw [h]; rfl
  · rename_i k h; rw [h]; rfl

theorem advanceTo_spec (s : SIter) (i : Nat) (hs : s.Inv) :
    (s.advanceTo i).rem = s.rem.filter (fun x => decide (i ≤ x)) ∧ (s.advanceTo i).Inv := by
  cases s with
  | array w =>
    rw [advanceTo_array]
    show w.drop _ = _ ∧ SIter.Inv (.array (w.drop _))
    rw [Win.drop_takeWhile_lt i w hs.1]
    exact ⟨rfl, Win.sorted_filter _ hs.1, fun x hx => hs.2 x (List.mem_filter.mp hx).1⟩
  | bitmap it => exact BIter.advanceTo_cursor it hs i

theorem advanceBackTo_array (w : List Nat) (i : Nat) :
    SIter.advanceBackTo (.array w) i = .array (w.takeWhile (fun j => decide (j ≤ i))) := by
  have hle : (w.takeWhile (fun j => decide (j ≤ i))).length ≤ w.length := (List.takeWhile_sublist _).length_le
  have htk : w.take (w.takeWhile (fun j => decide (j ≤ i))).length = w.takeWhile (fun j => decide (j ≤ i)) :=
    (List.prefix_iff_eq_take.mp (List.takeWhile_prefix _)).symm
  simp only [advanceBackTo, Win.partitionPoint]
  split
  · rename_i h
    have : (w.takeWhile (fun j => decide (j ≤ i))).length = w.length := by omega
    congr 1
    rw [← htk, this, List.take_length]
  · rename_i k h
    have hk : k < w.length := by omega
    congr 1
    simp only [Win.nthBack, hk, ↓reduceIte]
    rw [← htk]; congr 1; omega

theorem advanceBackTo_spec (s : SIter) (i : Nat) (hs : s.Inv) :
    (s.advanceBackTo i).rem = s.rem.filter (fun x => decide (x ≤ i)) ∧ (s.advanceBackTo i).Inv := by
  cases s with
  | array w =>
    rw [advanceBackTo_array]
    show w.takeWhile _ = _ ∧ SIter.Inv (.array (w.takeWhile _))
    rw [Win.takeWhile_le i w hs.1]
    exact ⟨rfl, Win.sorted_filter _ hs.1, fun x hx => hs.2 x (List.mem_filter.mp hx).1⟩
  | bitmap it => exact BIter.advanceBackTo_cursor it hs i

theorem sizeHint_spec (s : SIter) (hs : s.Inv) : s.sizeHint = (s.rem.length, some s.rem.length) := by
  cases s with
  | array w => rfl
  | bitmap it => simp only [sizeHint, SIter.rem, BIter.sizeHint_exact it hs]

theorem count_spec (s : SIter) (hs : s.Inv) : s.count = s.rem.length := by
  cases s with
  | array w => rfl
  | bitmap it => simp only [count, BIter.count, SIter.rem, BIter.sizeHint_exact it hs]

theorem ofStore_spec (st : Store) (h : st.IterOK) :
    (ofStore st).Inv ∧ (ofStore st).rem = st.elems ∧ st.len = st.elems.length := by
  cases st with
  | array v => exact ⟨h, rfl, rfl⟩
  | bitmap b =>
    obtain ⟨hl, hw, hlen⟩ := h
    refine ⟨BIter.new_inv b.bits hw, BIter.new_rem b.bits hl hw, ?_⟩
    show b.len = (BStore.toArrayFrom 0 b.bits).length
    rw [BIter.length_toArrayFrom 0 b.bits hw, hlen]

end SIter

/-! ### `container::Iter` -/

theorem join_eq (k : Nat) : Bitmap.join k = fun i => k * 65536 + i := rfl

theorem cKernel : CKernel where
  next := by
    intro c hc
    obtain ⟨h1, h2, h3⟩ := SIter.next_spec c.inner hc
    refine ⟨?_, ?_, h3, rfl⟩
    · simp only [CIter.next, CIter.rem, h1, List.head?_map, join_eq]
    · simp only [CIter.next, CIter.rem, h2, List.map_tail]
  nextBack := by
    intro c hc
    obtain ⟨h1, h2, h3⟩ := SIter.nextBack_spec c.inner hc
    refine ⟨?_, ?_, h3, rfl⟩
    · simp only [CIter.nextBack, CIter.rem, h1, List.getLast?_map, join_eq]
    · simp only [CIter.nextBack, CIter.rem, h2, List.map_dropLast]
  nth := by
    intro c n hc
    obtain ⟨h1, h2, h3⟩ := SIter.nth_spec c.inner n hc
    refine ⟨?_, ?_, h3, rfl⟩
    · simp only [CIter.nth, CIter.rem, h1, List.getElem?_map, join_eq]
    · simp only [CIter.nth, CIter.rem, h2, List.map_drop]
  advanceTo := by
    intro c i hc _
    obtain ⟨h1, h2⟩ := SIter.advanceTo_spec c.inner i hc
    refine ⟨?_, h2, rfl⟩
    simp only [CIter.advanceTo, CIter.rem, h1, List.filter_map]
    congr 1
    apply List.filter_congr
    intro x _
    simp only [Function.comp]
    by_cases h : i ≤ x <;> simp [h]
  advanceBackTo := by
    intro c i hc _
    obtain ⟨h1, h2⟩ := SIter.advanceBackTo_spec c.inner i hc
    refine ⟨?_, h2, rfl⟩
    simp only [CIter.advanceBackTo, CIter.rem, h1, List.filter_map]
    congr 1
    apply List.filter_congr
    intro x _
    simp only [Function.comp]
    by_cases h : x ≤ i <;> simp [h]
  sizeHint := by
    intro c hc
    simp only [CIter.sizeHint, SIter.sizeHint_spec c.inner hc, CIter.rem, List.length_map]
  count := by
    intro c hc
    simp only [CIter.count, SIter.count_spec c.inner hc, CIter.rem, List.length_map]
  rem_hi := by
    intro c hc x hx
    simp only [CIter.rem, List.mem_map] at hx
    obtain ⟨j, hj, rfl⟩ := hx
    have := SIter.rem_lt c.inner hc j hj
    omega
  rem_sorted := by
    intro c hc
    have := SIter.rem_sorted c.inner hc
    simp only [CIter.rem, SortedLt, List.pairwise_map]
    exact this.imp (by intro a b h; omega)
  ofContainer := by
    intro c hc
    obtain ⟨h1, h2, h3⟩ := SIter.ofStore_spec c.store hc
    refine ⟨h1, ?_, ?_⟩
    · simp only [CIter.rem, CIter.ofContainer, h2, Container.elems]
    · simp only [Container.len, h3, Container.elems, List.length_map]

end Roaring
#print axioms Roaring.cKernel
