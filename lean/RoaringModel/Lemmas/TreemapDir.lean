import RoaringModel.Treemap
import RoaringModel.Lemmas.TreemapSorted
/-!
# The partition directory of a treemap: `split`/`join` arithmetic at 2^32, the key-sorted association list
  (`get`, `insertKV`, `removeK`), and `elems` = concatenation of the partitions.  Import-free.
-/
namespace Roaring
namespace Treemap
open TL

scoped notation "P32" => (4294967296 : Nat)

/-! ### `split` / `join` -/
theorem split_fst (v : Nat) : (split v).1 = v / P32 % P32 := by
  simp [split, Nat.shiftRight_eq_div_pow]
theorem split_snd (v : Nat) : (split v).2 = v % P32 := rfl
theorem split_fst_of_lt {v : Nat} (h : v < 18446744073709551616) : (split v).1 = v / P32 := by
  rw [split_fst]; apply Nat.mod_eq_of_lt; omega
theorem split_fst_lt (v : Nat) : (split v).1 < P32 := by rw [split_fst]; exact Nat.mod_lt _ (by decide)
theorem split_snd_lt (v : Nat) : (split v).2 < P32 := Nat.mod_lt _ (by decide)

theorem join_eq {hi lo : Nat} (h : lo < P32) : join hi lo = hi * P32 + lo := by
  unfold join
  rw [← Nat.shiftLeft_add_eq_or_of_lt (by simpa using h), Nat.shiftLeft_eq]

theorem join_div {hi lo : Nat} (h : lo < P32) : join hi lo / P32 = hi := by rw [join_eq h]; omega
theorem join_mod {hi lo : Nat} (h : lo < P32) : join hi lo % P32 = lo := by rw [join_eq h]; omega
theorem join_lt {hi lo : Nat} (hh : hi < P32) (h : lo < P32) : join hi lo < 18446744073709551616 := by
  rw [join_eq h]; omega
/-- `split (join hi lo) = (hi, lo)` for `u32` arguments -/
theorem split_join {hi lo : Nat} (hh : hi < P32) (h : lo < P32) : split (join hi lo) = (hi, lo) := by
  have h1 := split_fst_of_lt (join_lt hh h)
  rw [join_div h] at h1
  exact Prod.ext h1 (by rw [split_snd, join_mod h])
/-- `join (split v) = v` for `u64` arguments -/
theorem join_split {v : Nat} (h : v < 18446744073709551616) : join (split v).1 (split v).2 = v := by
  rw [join_eq (split_snd_lt v), split_fst_of_lt h, split_snd]; omega

/-! ### the association list -/
def keys (t : Treemap) : List Nat := t.map (·.1)
abbrev KeysSorted (t : Treemap) : Prop := Sorted (keys t)

theorem keysSorted_cons {p : Nat × Bitmap} {t : Treemap} :
    KeysSorted (p :: t) ↔ (∀ q ∈ t, p.1 < q.1) ∧ KeysSorted t := by
  simp [KeysSorted, keys, Sorted, List.pairwise_cons]

theorem get_eq_some_of_mem : ∀ {t : Treemap} {k : Nat} {b : Bitmap}, KeysSorted t → (k, b) ∈ t → get t k = some b
  | (k', b') :: t, k, b, hs, hm => by
    have ⟨hlt, hs'⟩ := keysSorted_cons.mp hs
    unfold get
    rcases List.mem_cons.mp hm with h | h
    · cases h; simp
    · have := hlt _ h
      have hne : k' ≠ k := by simp at this; omega
      simp only [hne, ↓reduceIte]
      exact get_eq_some_of_mem hs' h

theorem mem_of_get_eq_some : ∀ {t : Treemap} {k : Nat} {b : Bitmap}, get t k = some b → (k, b) ∈ t
  | (k', b') :: t, k, b, h => by
    unfold get at h
    by_cases hk : k' = k
    · simp only [hk, ↓reduceIte, Option.some.injEq] at h; subst h; subst hk; simp
    · simp only [hk, ↓reduceIte] at h
      exact List.mem_cons_of_mem _ (mem_of_get_eq_some h)

theorem get_eq_none_iff {t : Treemap} {k : Nat} : get t k = none ↔ k ∉ keys t := by
  induction t with
  | nil => simp [get, keys]
  | cons p t ih =>
    obtain ⟨k', b'⟩ := p
    unfold get
    by_cases hk : k' = k
    · simp [hk, keys]
    · simp only [hk, ↓reduceIte, ih, keys, List.map_cons, List.mem_cons, not_or]
      constructor
      · intro h; exact ⟨fun h' => hk h'.symm, h⟩
      · intro h; exact h.2

theorem get_insertKV (t : Treemap) (k : Nat) (b : Bitmap) (k' : Nat) :
    get (insertKV t k b) k' = if k' = k then some b else get t k' := by
  induction t with
  | nil => simp [insertKV, get, eq_comm]
  | cons p t ih =>
    obtain ⟨k1, b1⟩ := p
    unfold insertKV
    by_cases h1 : k < k1
    · simp only [h1, ↓reduceIte]
      rw [get]
      by_cases h2 : k = k' <;> simp [h2, eq_comm]
    · simp only [h1, ↓reduceIte]
      by_cases h2 : k = k1
      · subst h2
        simp only [↓reduceIte]
        rw [get]
        by_cases h3 : k = k'
        · simp [h3]
        · have : k' ≠ k := fun h => h3 h.symm
          simp [h3, this, get]
      · simp only [h2, ↓reduceIte]
        rw [get, ih]
        by_cases h3 : k1 = k'
        · have : k' ≠ k := by omega
          simp [h3, this, get]
        · simp [h3, get]

theorem mem_insertKV {t : Treemap} {k : Nat} {b : Bitmap} {p : Nat × Bitmap} (h : p ∈ insertKV t k b) :
    p = (k, b) ∨ p ∈ t := by
  induction t with
  | nil => simp [insertKV] at h; exact Or.inl h
  | cons q t ih =>
    obtain ⟨k1, b1⟩ := q
    unfold insertKV at h
    by_cases h1 : k < k1
    · simp only [h1, ↓reduceIte, List.mem_cons] at h
      rcases h with h | h | h
      · exact Or.inl h
      · exact Or.inr (by simp [h])
      · exact Or.inr (List.mem_cons_of_mem _ h)
    · simp only [h1, ↓reduceIte] at h
      by_cases h2 : k = k1
      · simp only [h2, ↓reduceIte, List.mem_cons] at h
        rcases h with h | h
        · exact Or.inl (by rw [h, h2])
        · exact Or.inr (List.mem_cons_of_mem _ h)
      · simp only [h2, ↓reduceIte, List.mem_cons] at h
        rcases h with h | h
        · exact Or.inr (by simp [h])
        · rcases ih h with h | h
          · exact Or.inl h
          · exact Or.inr (List.mem_cons_of_mem _ h)

theorem keys_insertKV_mem {t : Treemap} {k : Nat} {b : Bitmap} {x : Nat} (h : x ∈ keys (insertKV t k b)) :
    x = k ∨ x ∈ keys t := by
  simp only [keys, List.mem_map] at h ⊢
  obtain ⟨p, hp, rfl⟩ := h
  rcases mem_insertKV hp with h | h
  · exact Or.inl (by rw [h])
  · exact Or.inr ⟨p, h, rfl⟩

theorem keysSorted_insertKV {t : Treemap} (k : Nat) (b : Bitmap) (hs : KeysSorted t) :
    KeysSorted (insertKV t k b) := by
  induction t with
  | nil => simp [insertKV, KeysSorted, keys, Sorted]
  | cons q t ih =>
    obtain ⟨k1, b1⟩ := q
    have ⟨hlt, hs'⟩ := keysSorted_cons.mp hs
    unfold insertKV
    by_cases h1 : k < k1
    · simp only [h1, ↓reduceIte]
      apply keysSorted_cons.mpr
      refine ⟨?_, hs⟩
      intro q hq
      rcases List.mem_cons.mp hq with rfl | hq
      · exact h1
      · have := hlt q hq; simp at this ⊢; omega
    · simp only [h1, ↓reduceIte]
      by_cases h2 : k = k1
      · subst h2
        simp only [↓reduceIte]
        exact keysSorted_cons.mpr ⟨hlt, hs'⟩
      · simp only [h2, ↓reduceIte]
        apply keysSorted_cons.mpr
        refine ⟨?_, ih hs'⟩
        intro q hq
        rcases mem_insertKV hq with rfl | hq
        · simp; omega
        · exact hlt q hq

theorem get_removeK (t : Treemap) (k k' : Nat) : get (removeK t k) k' = if k' = k then none else get t k' := by
  induction t with
  | nil => simp [removeK, get]
  | cons p t ih =>
    obtain ⟨k1, b1⟩ := p
    unfold removeK at ih ⊢
    rw [List.filter_cons]
    by_cases h1 : k1 = k
    · subst h1
      simp only [bne_self_eq_false, Bool.false_eq_true, ↓reduceIte, ih]
      by_cases h2 : k' = k1
      · simp [h2]
      · have : k1 ≠ k' := fun h => h2 h.symm
        simp [h2, get, this]
    · have : (k1 != k) = true := by simp [h1]
      simp only [this, ↓reduceIte]
      rw [get, ih]
      by_cases h2 : k1 = k'
      · have : k' ≠ k := by omega
        simp [h2, this, get]
      · simp [h2, get]

theorem keysSorted_removeK {t : Treemap} (k : Nat) (hs : KeysSorted t) : KeysSorted (removeK t k) := by
  unfold KeysSorted keys removeK
  exact List.Pairwise.sublist (List.Sublist.map _ List.filter_sublist) hs

theorem mem_removeK {t : Treemap} {k : Nat} {p : Nat × Bitmap} (h : p ∈ removeK t k) : p ∈ t ∧ p.1 ≠ k := by
  unfold removeK at h
  have := List.mem_filter.mp h
  exact ⟨this.1, by simpa using this.2⟩

/-! ### well-formedness and the abstraction `elems` -/

/-- partition-level well-formedness, relative to a 32-bit invariant `wf32` -/
structure WFd (wf32 : Bitmap → Prop) (t : Treemap) : Prop where
  sorted : KeysSorted t
  parts : ∀ p ∈ t, p.1 < P32 ∧ wf32 p.2 ∧ Bitmap.elems p.2 ≠ []

/-- what the directory proofs need from a well-formed 32-bit bitmap: its values are `u32`, ascending -/
structure Elems32 (wf32 : Bitmap → Prop) : Prop where
  sorted : ∀ b, wf32 b → Sorted (Bitmap.elems b)
  lt : ∀ b, wf32 b → ∀ x ∈ Bitmap.elems b, x < P32

variable {wf32 : Bitmap → Prop}

theorem WFd.nil : WFd wf32 [] := ⟨by simp [KeysSorted, keys, Sorted], by simp⟩

theorem WFd.tail {p : Nat × Bitmap} {t : Treemap} (h : WFd wf32 (p :: t)) : WFd wf32 t :=
  ⟨(keysSorted_cons.mp h.sorted).2, fun q hq => h.parts q (List.mem_cons_of_mem _ hq)⟩

theorem WFd.get {t : Treemap} (h : WFd wf32 t) {k : Nat} {b : Bitmap} (hg : get t k = some b) :
    k < P32 ∧ wf32 b ∧ Bitmap.elems b ≠ [] := h.parts _ (mem_of_get_eq_some hg)

theorem elems_cons (p : Nat × Bitmap) (t : Treemap) :
    elems (p :: t) = (Bitmap.elems p.2).map (join p.1) ++ elems t := by simp [elems]

/-- `x` is a value of the treemap iff its low part is in the partition of its high part -/
theorem mem_elems (E : Elems32 wf32) {t : Treemap} (h : WFd wf32 t) (x : Nat) :
    x ∈ elems t ↔ ∃ b, get t (x / P32) = some b ∧ x % P32 ∈ Bitmap.elems b := by
  simp only [elems, List.mem_flatMap, List.mem_map]
  constructor
  · rintro ⟨⟨k, b⟩, hp, lo, hlo, rfl⟩
    have hlt := E.lt b (h.parts _ hp).2.1 lo hlo
    refine ⟨b, ?_, ?_⟩
    · rw [join_div hlt]; exact get_eq_some_of_mem h.sorted hp
    · rw [join_mod hlt]; exact hlo
  · rintro ⟨b, hg, hm⟩
    refine ⟨(x / P32, b), mem_of_get_eq_some hg, x % P32, hm, ?_⟩
    rw [join_eq (Nat.mod_lt _ (by decide))]; omega

theorem elems_lt (E : Elems32 wf32) {t : Treemap} (h : WFd wf32 t) : ∀ x ∈ elems t, x < 18446744073709551616 := by
  intro x hx
  obtain ⟨b, hg, hm⟩ := (mem_elems E h x).1 hx
  have := (h.get hg).1
  have := E.lt b (h.get hg).2.1 _ hm
  omega

/-- the values of a well-formed treemap are strictly ascending -/
theorem sorted_elems (E : Elems32 wf32) : ∀ {t : Treemap}, WFd wf32 t → Sorted (elems t)
  | [], _ => by simp [elems, Sorted]
  | p :: t, h => by
    rw [elems_cons]
    have hp := h.parts p (by simp)
    have hlt := E.lt p.2 hp.2.1
    apply sorted_append
    · have : (Bitmap.elems p.2).map (join p.1) = (Bitmap.elems p.2).map (fun x => p.1 * P32 + x) := by
        apply List.map_congr_left; intro x hx; exact join_eq (hlt x hx)
      rw [this]; exact sorted_map_add _ (E.sorted p.2 hp.2.1)
    · exact sorted_elems E h.tail
    · intro x hx y hy
      obtain ⟨lo, hlo, rfl⟩ := List.mem_map.mp hx
      obtain ⟨b, hg, _⟩ := (mem_elems E h.tail y).1 hy
      have := (keysSorted_cons.mp h.sorted).1 _ (mem_of_get_eq_some hg)
      have := hlt lo hlo
      rw [join_eq this]
      simp at *
      have : (p.1 + 1) * P32 ≤ y / P32 * P32 := Nat.mul_le_mul_right _ (by omega)
      omega

theorem elems_eq_nil_iff {t : Treemap} (h : WFd wf32 t) : elems t = [] ↔ t = [] := by
  constructor
  · intro he
    cases t with
    | nil => rfl
    | cons p t =>
      rw [elems_cons] at he
      have := (h.parts p (by simp)).2.2
      simp at he; exact absurd he.1 this
  · rintro rfl; rfl

end Treemap
end Roaring
