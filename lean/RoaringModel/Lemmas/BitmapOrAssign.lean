import RoaringModel.Lemmas.BitmapSearchOps
/-!
# The insert-or-merge loops `a |= b`, `a |= &b` (ops.rs:156-185) are the `Pairs` loop of `|`

`for container in rhs.containers { binary_search_by_key … insert / bitor_assign }` with both key lists
strictly ascending.
-/
namespace Roaring
namespace Bitmap

/-- the position-based step (`binary_search` + `Vec::insert` / in-place merge) as a recursive sorted insert -/
def insRec (f : Container → Container → Container) : Bitmap → Container → Bitmap
  | [], c => [c]
  | x :: xs, c =>
    if x.key < c.key then x :: insRec f xs c
    else if x.key = c.key then f x c :: xs
    else c :: x :: xs

theorem orStep_eq_insRec (f : Container → Container → Container) (self : Bitmap) (c : Container) :
    orStep f self c = insRec f self c := by
  induction self with
  | nil => simp [orStep, search, insRec]
  | cons x xs ih =>
    unfold orStep search at ih ⊢
    by_cases h : x.key < c.key
    · simp only [List.takeWhile_cons, h, decide_true, if_true, List.length_cons, List.getElem?_cons_succ,
        insRec]
      generalize (List.takeWhile (fun d => decide (d.key < c.key)) xs).length = i at ih ⊢
      cases hi : xs[i]? with
      | none => simp only [hi] at ih ⊢; simp at ih ⊢; exact ih
      | some d =>
        cases hk : (d.key == c.key)
        · simp only [hi, hk] at ih ⊢; simp at ih ⊢; exact ih
        · simp only [hi, hk, List.set_cons_succ] at ih ⊢
          simp only [List.getElem?_cons_succ, hi]; rw [ih]
    · simp only [List.takeWhile_cons, h, decide_false, Bool.false_eq_true, if_false, List.length_nil,
        List.getElem?_cons_zero, insRec]
      by_cases h2 : x.key = c.key
      · simp [h2]
      · have : (x.key == c.key) = false := by simp [h2]
        simp [this, h2]

/-- a head whose key is below every key still to be inserted stays in front -/
theorem foldl_insRec_head (f : Container → Container → Container) (x : Container) (xs rs : Bitmap)
    (h : ∀ d ∈ rs, x.key < d.key) : rs.foldl (insRec f) (x :: xs) = x :: rs.foldl (insRec f) xs := by
  induction rs generalizing xs with
  | nil => rfl
  | cons r rs ih =>
    have hr := h r (by simp)
    simp only [List.foldl_cons, insRec, hr, if_true]
    exact ih _ (fun d hd => h d (List.mem_cons_of_mem _ hd))

theorem pairsOp_nil_right (kr chk : Bool) (f : Container → Container → Container) (a : Bitmap) :
    pairsOp true kr chk f a [] = a := by
  induction a with
  | nil => simp [pairsOp, pairs]
  | cons l ls ih =>
    simp only [pairsOp, pairs, filterMap_cons_consOpt, gOp] at ih ⊢
    rw [ih]; rfl

theorem foldl_insRec_eq_pairsOp (f : Container → Container → Container)
    (hf : ∀ l r : Container, (f l r).key = l.key) :
    ∀ (a b : Bitmap), WF a → WF b → b.foldl (insRec f) a = pairsOp true true false f a b
  | a, [], _, _ => by rw [pairsOp_nil_right]; rfl
  | [], r :: rs, ha, hb => by
    obtain ⟨hr, hrs, hrsw⟩ := wf_cons r rs hb
    have ih := foldl_insRec_eq_pairsOp f hf [] rs ha hrsw
    simp only [pairsOp, pairs, filterMap_cons_consOpt, gOp] at ih ⊢
    rw [← ih]
    simp only [List.foldl_cons, insRec, if_true, consOpt]
    exact foldl_insRec_head f r [] rs hrs
  | l :: ls, r :: rs, ha, hb => by
    obtain ⟨hl, hls, hlsw⟩ := wf_cons l ls ha
    obtain ⟨hr, hrs, hrsw⟩ := wf_cons r rs hb
    by_cases h1 : l.key = r.key
    · have ih := foldl_insRec_eq_pairsOp f hf ls rs hlsw hrsw
      simp only [pairsOp, pairs, h1, if_true, filterMap_cons_consOpt, gOp] at ih ⊢
      rw [← ih]
      simp only [List.foldl_cons, insRec, h1, Nat.lt_irrefl, if_false, if_true, Bool.false_and,
        Bool.false_eq_true, consOpt]
      exact foldl_insRec_head f (f l r) ls rs (fun d hd => by rw [hf, h1]; exact hrs d hd)
    · by_cases h2 : l.key < r.key
      · have ih := foldl_insRec_eq_pairsOp f hf ls (r :: rs) hlsw hb
        simp only [pairsOp, pairs, h1, h2, if_true, if_false, filterMap_cons_consOpt, gOp] at ih ⊢
        rw [← ih]
        have hbs : ∀ d ∈ r :: rs, l.key < d.key := by
          intro d hd
          rcases List.mem_cons.mp hd with rfl | hd
          · exact h2
          · exact Nat.lt_trans h2 (hrs d hd)
        simp only [consOpt]
        exact foldl_insRec_head f l ls (r :: rs) hbs
      · have ih := foldl_insRec_eq_pairsOp f hf (l :: ls) rs ha hrsw
        simp only [pairsOp, pairs, h1, h2, if_true, if_false, filterMap_cons_consOpt, gOp] at ih ⊢
        rw [← ih]
        simp only [List.foldl_cons, insRec, h1, h2, if_false, consOpt]
        exact foldl_insRec_head f r (l :: ls) rs hrs
termination_by a b => a.length + b.length

theorem orAR_eq_pairsOp (a b : Bitmap) (ha : WF a) (hb : WF b) :
    orAR a b = pairsOp true true false Container.orAssignRef a b := by
  unfold orAR
  have : orStep Container.orAssignRef = insRec Container.orAssignRef := by
    funext s c; exact orStep_eq_insRec _ s c
  rw [this]
  exact foldl_insRec_eq_pairsOp _ (fun l r => by
    simp only [Container.orAssignRef, Container.ensureCorrectStore]
    split <;> split <;> rfl) a b ha hb

theorem orAO_eq_pairsOp (a b : Bitmap) (ha : WF a) (hb : WF b) :
    orAO a b = if len a < len b then pairsOp true true false Container.orAssignOwned b a
               else pairsOp true true false Container.orAssignOwned a b := by
  unfold orAO
  have : orStep Container.orAssignOwned = insRec Container.orAssignOwned := by
    funext s c; exact orStep_eq_insRec _ s c
  rw [this]
  have hk : ∀ l r : Container, (Container.orAssignOwned l r).key = l.key := fun l r => by
    simp only [Container.orAssignOwned, Container.ensureCorrectStore]
    split <;> split <;> rfl
  split
  · exact foldl_insRec_eq_pairsOp _ hk b a hb ha
  · exact foldl_insRec_eq_pairsOp _ hk a b ha hb

theorem pairSpec_orAR (K : BKernel) : PairSpec Store.POr true true false Container.orAssignRef where
  left := by intro p; simp [Store.POr]
  right := by intro q; simp [Store.POr]
  both := fun l r hl hr => Container.op_spec K (Store.orAssignRef_spec K) l r hl hr
  nonempty := fun _ _ _ hp => Or.inl hp

theorem pairSpec_orAO (K : BKernel) : PairSpec Store.POr true true false Container.orAssignOwned where
  left := by intro p; simp [Store.POr]
  right := by intro q; simp [Store.POr]
  both := fun l r hl hr => Container.op_spec K (Store.orAssignOwned_spec K) l r hl hr
  nonempty := fun _ _ _ hp => Or.inl hp

end Bitmap
end Roaring
