import RoaringModel.Lemmas.BitmapMut
/-!
# The remaining `RoaringBitmap` mutators refine the set operations (inherent.rs, iter.rs `Extend`/`append`)
-/
namespace Roaring
namespace Bitmap

/-! ### directories written as `init ++ [last]` -/
private theorem elems_append (a b : Bitmap) : elems (a ++ b) = elems a ++ elems b := by
  simp [elems, List.flatMap_append]

private theorem elems_single (c : Container) : elems [c] = c.elems := by simp [elems]

private theorem elems_cons (c : Container) (cs : Bitmap) : elems (c :: cs) = c.elems ++ elems cs := by
  simp [elems]

theorem dir_snoc_iff (init : Bitmap) (c : Container) :
    Dir (init ++ [c]) ↔ Dir init ∧ (∀ d ∈ init, d.key < c.key) ∧ c.key < 65536 ∧ c.store.Canon := by
  unfold Dir
  rw [List.map_append, List.pairwise_append]
  constructor
  · rintro ⟨⟨h1, _, h3⟩, h4⟩
    refine ⟨⟨h1, fun d hd => h4 d (List.mem_append_left _ hd)⟩, ?_, h4 c (by simp)⟩
    intro d hd; exact h3 d.key (List.mem_map_of_mem hd) c.key (by simp)
  · rintro ⟨⟨h1, h2⟩, h3, h4, h5⟩
    refine ⟨⟨h1, by simp, ?_⟩, ?_⟩
    · intro x hx y hy
      obtain ⟨d, hd, rfl⟩ := List.mem_map.mp hx
      simp at hy; subst hy; exact h3 d hd
    · intro d hd
      rcases List.mem_append.mp hd with h | h
      · exact h2 d h
      · simp at h; subst h; exact ⟨h4, h5⟩

theorem wf_snoc_iff (init : Bitmap) (c : Container) :
    WF (init ++ [c]) ↔ WF init ∧ (∀ d ∈ init, d.key < c.key) ∧ c.key < 65536 ∧ c.store.Canon ∧
      c.store.elems ≠ [] := by
  rw [wf_iff, wf_iff, dir_snoc_iff]
  constructor
  · rintro ⟨⟨h1, h2, h3, h4⟩, h5⟩
    exact ⟨⟨h1, fun d hd => h5 d (List.mem_append_left _ hd)⟩, h2, h3, h4, h5 c (by simp)⟩
  · rintro ⟨⟨h1, h1'⟩, h2, h3, h4, h5⟩
    refine ⟨⟨h1, h2, h3, h4⟩, ?_⟩
    intro d hd
    rcases List.mem_append.mp hd with h | h
    · exact h1' d h
    · simp at h; subst h; exact h5

/-- all values of a directory whose keys are below `K` are below `K * 65536` -/
theorem elems_lt_of_keys (b : Bitmap) (h : b.Dir) (K : Nat) (hK : ∀ d ∈ b, d.key < K) :
    ∀ x ∈ elems b, x < K * 65536 := by
  intro x hx
  obtain ⟨c, hc, hxc⟩ := (mem_elems_iff_exists b x).mp hx
  rw [mem_cElems c (Store.canon_inv _ (h.2 c hc).2)] at hxc
  have := hK c hc
  omega

/-- appending a container whose last value is `v` -/
theorem snoc_pushed (init : Bitmap) (hinit : init.WF) (c' : Container) (v : Nat) (l : List Nat)
    (hk : hi16 v < 65536)
    (hkey : c'.key = hi16 v) (hcan : c'.store.Canon) (hel : c'.store.elems = l ++ [lo16 v])
    (hlt : ∀ d ∈ init, d.key < hi16 v) :
    (init ++ [c']).WF ∧
      elems (init ++ [c']) = elems init ++ (l.map (fun i => hi16 v * 65536 + i)) ++ [v] := by
  refine ⟨?_, ?_⟩
  · rw [wf_snoc_iff]
    refine ⟨hinit, by rw [hkey]; exact hlt, by rw [hkey]; exact hk, hcan, ?_⟩
    rw [hel]; simp
  · rw [elems_append, elems_single]
    unfold Container.elems
    rw [hel, hkey, List.map_append, List.append_assoc]
    have := join_split v
    simp only [List.map_cons, List.map_nil, this]

/-- inherent.rs:294 `push` -/
theorem push_spec (b : Bitmap) (h : b.WF) (v : Nat) (hv : v < 4294967296) :
    (push b v).1.WF ∧ elems (push b v).1 = (Spec.push (elems b) v).1 ∧
    (push b v).2 = (Spec.push (elems b) v).2 := by
  obtain ⟨hk, hl⟩ := split_lt v hv
  have hjs := join_split v
  rw [Spec.push_eq _ _ (sorted_elems b h.dir)]
  -- a fresh container holding just `lo16 v`
  obtain ⟨f1, f2, _, f4⟩ := Container.push_spec (Container.new (hi16 v)) (Container.new_canon _) (lo16 v) hl
  rw [Container.new_elems, if_pos (by simp)] at f4
  have hfresh : ∀ init : Bitmap, init.WF → (∀ d ∈ init, d.key < hi16 v) →
      (init ++ [(Container.push (Container.new (hi16 v)) (lo16 v)).1]).WF ∧
      elems (init ++ [(Container.push (Container.new (hi16 v)) (lo16 v)).1]) = elems init ++ [v] := by
    intro init hi hlt
    have := snoc_pushed init hi _ v [] hk f1 f2 f4 hlt
    simpa using this
  unfold push
  cases hlast : b.getLast? with
  | none =>
    have : b = [] := List.getLast?_eq_none_iff.mp hlast
    subst this
    simp only []
    obtain ⟨w1, w2⟩ := hfresh [] h (by simp)
    rw [if_pos (by simp [elems])]
    exact ⟨w1, w2, rfl⟩
  | some c =>
    obtain ⟨init, rfl⟩ := List.getLast?_eq_some_iff.mp hlast
    obtain ⟨hinit, hlt, hck, hcan, hne⟩ := (wf_snoc_iff init c).mp h
    have hinv := Store.canon_inv _ hcan
    simp only []
    by_cases h1 : c.key = hi16 v
    · rw [if_pos h1, List.dropLast_concat]
      obtain ⟨p1, p2, p3, p4⟩ := Container.push_spec c hcan (lo16 v) hl
      have E : (∀ x ∈ elems (init ++ [c]), x < v) ↔ (∀ x ∈ c.store.elems, x < lo16 v) := by
        constructor
        · intro H x hx
          have := H (c.key * 65536 + x) (by
            rw [elems_append, elems_single]; apply List.mem_append_right
            exact List.mem_map_of_mem hx)
          omega
        · intro H x hx
          rw [elems_append, elems_single] at hx
          rcases List.mem_append.mp hx with hx | hx
          · have := elems_lt_of_keys init hinit.dir c.key hlt x hx
            unfold hi16 lo16 at *; omega
          · rw [mem_cElems c hinv] at hx
            have := H _ hx.2
            unfold hi16 lo16 at *; omega
      by_cases hc : ∀ x ∈ c.store.elems, x < lo16 v
      · rw [if_pos (E.mpr hc)]
        rw [if_pos hc] at p4
        obtain ⟨w1, w2⟩ := snoc_pushed init hinit _ v c.store.elems hk (p1.trans h1) p2 p4
          (fun d hd => h1 ▸ hlt d hd)
        refine ⟨w1, ?_, by rw [p3]; exact decide_eq_true hc⟩
        rw [w2, elems_append, elems_single]
        simp only [Container.elems, h1]
      · rw [if_neg (fun H => hc (E.mp H))]
        rw [if_neg hc] at p4
        refine ⟨?_, ?_, by rw [p3]; exact decide_eq_false hc⟩
        · rw [wf_snoc_iff]
          exact ⟨hinit, by rw [p1]; exact hlt, by rw [p1]; exact hck, p2, by rw [p4]; exact hne⟩
        · simp only [elems_append, elems_single, Container.elems, p1, p4]
    · rw [if_neg h1]
      obtain ⟨x0, hx0⟩ : ∃ x0, x0 ∈ c.store.elems := by
        cases hce : c.store.elems with
        | nil => exact absurd hce hne
        | cons a l => exact ⟨a, List.mem_cons_self ..⟩
      by_cases h2 : c.key > hi16 v
      · rw [if_pos h2]
        rw [if_neg]
        · exact ⟨h, rfl, rfl⟩
        · intro H
          have := H (c.key * 65536 + x0) (by
            rw [elems_append, elems_single]; apply List.mem_append_right
            exact List.mem_map_of_mem hx0)
          unfold hi16 lo16 at *; omega
      · rw [if_neg h2]
        have h3 : c.key < hi16 v := by omega
        obtain ⟨w1, w2⟩ := hfresh (init ++ [c]) h (by
          intro d hd
          rcases List.mem_append.mp hd with hd | hd
          · have := hlt d hd; omega
          · simp at hd; subst hd; exact h3)
        rw [if_pos]
        · exact ⟨w1, w2, rfl⟩
        · intro x hx
          have := elems_lt_of_keys _ h.dir (hi16 v) (by
            intro d hd
            rcases List.mem_append.mp hd with hd | hd
            · have := hlt d hd; omega
            · simp at hd; subst hd; exact h3) x hx
          unfold hi16 lo16 at *; omega

/-! ### insert_range -/

theorem filter_three (s : List Nat) (a b : Nat) (hab : a ≤ b) :
    (s.filter (· < a)).length + (s.filter (fun x => decide (a ≤ x) && decide (x ≤ b))).length +
      (s.filter (b < ·)).length = s.length := by
  induction s with
  | nil => rfl
  | cons y s ih =>
    simp only [List.filter_cons, List.length_cons]
    by_cases h1 : y < a
    · have h2 : ¬ a ≤ y := by omega
      have h3 : ¬ b < y := by omega
      simp [h1, h2, h3]; omega
    · have h2 : a ≤ y := by omega
      by_cases h3 : b < y
      · have h4 : ¬ y ≤ b := by omega
        simp [h1, h2, h3, h4]; omega
      · have h4 : y ≤ b := by omega
        simp [h1, h2, h3, h4]; omega

/-- the count returned by `insertIv` is the growth of the set -/
theorem insertIv_length (s : List Nat) (hs : Sorted s) (a b : Nat) (hab : a ≤ b) :
    (Spec.insertIv s a b).1.length = s.length + (Spec.insertIv s a b).2 := by
  simp only [Spec.insertIv, List.length_append, List.length_range']
  have h3 := filter_three s a b hab
  have hb := (Arr.sorted_bounded_length (s.filter (fun x => decide (a ≤ x) && decide (x ≤ b)))
    (Spec.sorted_filter s hs _) a (b - a + 1) (by
      intro x hx
      simp only [List.mem_filter, Bool.and_eq_true, decide_eq_true_eq] at hx
      omega)).1
  omega

/-- inserting `[a, m]` then `[m+1, b]` is inserting `[a, b]` -/
theorem insertIv_comp (s : List Nat) (hs : Sorted s) (a m b : Nat) (h1 : a ≤ m) (h2 : m + 1 ≤ b) :
    (Spec.insertIv (Spec.insertIv s a m).1 (m + 1) b).1 = (Spec.insertIv s a b).1 ∧
    (Spec.insertIv s a m).2 + (Spec.insertIv (Spec.insertIv s a m).1 (m + 1) b).2 = (Spec.insertIv s a b).2 := by
  have hs1 := Spec.sorted_insertIv s hs a m h1
  have e : (Spec.insertIv (Spec.insertIv s a m).1 (m + 1) b).1 = (Spec.insertIv s a b).1 := by
    apply Arr.sorted_ext _ _ (Spec.sorted_insertIv _ hs1 _ _ h2) (Spec.sorted_insertIv s hs a b (by omega))
    intro x
    rw [Spec.mem_insertIv _ _ _ _ h2, Spec.mem_insertIv _ _ _ _ h1, Spec.mem_insertIv _ _ _ _ (by omega)]
    constructor
    · rintro (h | h | h)
      · left; omega
      · left; omega
      · right; exact h
    · rintro (h | h)
      · by_cases hx : x ≤ m
        · right; left; omega
        · left; omega
      · right; right; exact h
  refine ⟨e, ?_⟩
  have l1 := insertIv_length s hs a m h1
  have l2 := insertIv_length _ hs1 (m + 1) b h2
  have l3 := insertIv_length s hs a b (by omega)
  rw [e] at l2
  omega

/-- `insert_range` on one chunk -/
theorem upsert_insertRange_spec (b : Bitmap) (h : b.WF) (k lo hi : Nat) (hk : k < 65536) (hlh : lo ≤ hi)
    (hhi : hi < 65536) :
    (upsert k (fun c => c.insertRange lo hi) b).1.WF ∧
    elems (upsert k (fun c => c.insertRange lo hi) b).1 =
      (Spec.insertIv (elems b) (k * 65536 + lo) (k * 65536 + hi)).1 ∧
    (upsert k (fun c => c.insertRange lo hi) b).2 =
      (Spec.insertIv (elems b) (k * 65536 + lo) (k * 65536 + hi)).2 := by
  have hdir := h.dir
  obtain ⟨c0, k0, cn0, e0, r0, d0, ch0, m0⟩ :=
    upsert_spec k hk (fun c => c.insertRange lo hi)
      (fun c hck hc => ⟨hck ▸ (Container.insertRange_spec c (Store.canon_inv _ hc) lo hi hlh hhi).1,
        (Container.insertRange_spec c (Store.canon_inv _ hc) lo hi hlh hhi).2.1⟩) b hdir
  obtain ⟨_, i2, i3, i4⟩ := Container.insertRange_spec c0 (Store.canon_inv _ cn0) lo hi hlh hhi
  refine ⟨?_, ?_, ?_⟩
  · apply wf_of_dir _ d0
    intro d hd
    rcases m0 d hd with hd' | hd'
    · rw [hd']; intro hc
      have := (i3 lo).mpr (Or.inl ⟨Nat.le_refl _, hlh⟩)
      rw [hc] at this; simp at this
    · exact h.ne d hd'
  · apply Arr.sorted_ext _ _ (sorted_elems _ d0)
      (Spec.sorted_insertIv _ (sorted_elems b hdir) _ _ (by omega))
    intro y
    rw [mem_of_chunk_update b _ hdir d0 k _ ch0 y, Spec.mem_insertIv _ _ _ _ (by omega)]
    simp only [i3, e0]
    rw [mem_elems b hdir]
    constructor
    · rintro (⟨h1, h2 | h2⟩ | ⟨h1, h2⟩)
      · left; omega
      · right; rw [h1]; exact h2
      · right; exact h2
    · rintro (h1 | h2)
      · left; exact ⟨by omega, Or.inl (by omega)⟩
      · by_cases hc : y / 65536 = k
        · left; exact ⟨hc, Or.inr (hc ▸ h2)⟩
        · right; exact ⟨hc, h2⟩
  · rw [r0, i4, e0]
    simp only [Spec.insertIv]
    have hcnt : Store.countIn (chunk b k) lo hi =
        ((elems b).filter (fun x => decide (k * 65536 + lo ≤ x) && decide (x ≤ k * 65536 + hi))).length := by
      have : (elems b).filter (fun x => decide (k * 65536 + lo ≤ x) && decide (x ≤ k * 65536 + hi)) =
          ((chunk b k).filter (fun x => decide (lo ≤ x) && decide (x ≤ hi))).map (fun i => k * 65536 + i) := by
        apply Arr.sorted_ext _ _ (Spec.sorted_filter _ (sorted_elems b hdir) _) ?_
        · intro y
          simp only [List.mem_filter, List.mem_map, Bool.and_eq_true, decide_eq_true_eq]
          rw [mem_elems b hdir]
          constructor
          · rintro ⟨hy, h1, h2⟩
            have : y / 65536 = k := by omega
            rw [this] at hy
            exact ⟨y % 65536, ⟨hy, by omega, by omega⟩, by omega⟩
          · rintro ⟨x, ⟨hx, h1, h2⟩, rfl⟩
            have e1 : (k * 65536 + x) / 65536 = k := by omega
            have e2 : (k * 65536 + x) % 65536 = x := by omega
            rw [e1, e2]; exact ⟨hx, by omega, by omega⟩
        · rw [Sorted, List.pairwise_map]
          exact List.Pairwise.imp (by intro a b hab; omega)
            (Spec.sorted_filter _ (chunk_sorted b hdir k) _)
      rw [this, List.length_map]; rfl
    rw [hcnt]
    have : k * 65536 + hi - (k * 65536 + lo) = hi - lo := by omega
    rw [this]

/-- the (possibly empty) container `find_container_by_key` leaves behind is found again by `upsert` -/
theorem upsert_find {α : Type} (key : Nat) (g : Container → Container × α) (b : Bitmap) :
    upsert key g (findContainerByKey b key).1 = upsert key g b := by
  induction b with
  | nil => simp [findContainerByKey, search_nil, upsert, Container.new]
  | cons c cs ih =>
    unfold findContainerByKey at ih ⊢
    rw [search_cons]
    by_cases h1 : c.key < key
    · simp only [h1, if_true]
      cases hs : search cs key with
      | mk f loc =>
        rw [hs] at ih
        cases f with
        | true => rfl
        | false =>
          simp only [List.take_succ_cons, List.drop_succ_cons, List.cons_append] at ih ⊢
          conv => lhs; unfold upsert
          conv => rhs; unfold upsert
          simp only [h1, if_true]
          rw [ih]
    · simp only [h1, if_false]
      by_cases h2 : c.key = key
      · simp [h2]
      · have h2' : (c.key == key) = false := by simp [h2]
        simp only [h2', List.take_zero, List.drop_zero, List.nil_append]
        conv => lhs; unfold upsert
        conv => rhs; unfold upsert
        simp [h1, h2, Container.new]

/-- one iteration of the `for i in start_container_key..end_container_key` loop -/
def irStep (st : Bitmap × Nat × Nat) (i : Nat) : Bitmap × Nat × Nat :=
  ((upsert i (fun c => c.insertRange st.2.1 65535) st.1).1, 0,
    st.2.2 + (upsert i (fun c => c.insertRange st.2.1 65535) st.1).2)

theorem insertRange_ok (b : Bitmap) (lo hi : Bound) (start en : Nat)
    (hc : convertRange u32Max lo hi = .ok (start, en)) :
    insertRange b lo hi =
      if hi16 start = hi16 en then upsert (hi16 start) (fun c => c.insertRange (lo16 start) (lo16 en)) b
      else
        ((upsert (hi16 en) (fun c => c.insertRange 0 (lo16 en))
          ((List.range' (hi16 start) (hi16 en - hi16 start)).foldl irStep
            ((findContainerByKey b (hi16 start)).1, lo16 start, 0)).1).1,
         ((List.range' (hi16 start) (hi16 en - hi16 start)).foldl irStep
            ((findContainerByKey b (hi16 start)).1, lo16 start, 0)).2.2 +
          (upsert (hi16 en) (fun c => c.insertRange 0 (lo16 en))
          ((List.range' (hi16 start) (hi16 en - hi16 start)).foldl irStep
            ((findContainerByKey b (hi16 start)).1, lo16 start, 0)).1).2) := by
  unfold insertRange
  rw [hc]
  simp only [findModify_eq_upsert]
  rfl

theorem irFold_spec : ∀ (n k : Nat) (b0 : Bitmap) (low cnt0 : Nat), b0.WF → low < 65536 → k + n < 65536 →
    ((List.range' k (n + 1)).foldl irStep (b0, low, cnt0)).1.WF ∧
    elems ((List.range' k (n + 1)).foldl irStep (b0, low, cnt0)).1 =
      (Spec.insertIv (elems b0) (k * 65536 + low) ((k + n) * 65536 + 65535)).1 ∧
    ((List.range' k (n + 1)).foldl irStep (b0, low, cnt0)).2.2 =
      cnt0 + (Spec.insertIv (elems b0) (k * 65536 + low) ((k + n) * 65536 + 65535)).2 := by
  intro n
  induction n with
  | zero =>
    intro k b0 low cnt0 h hlow hk
    obtain ⟨u1, u2, u3⟩ := upsert_insertRange_spec b0 h k low 65535 (by omega) (by omega) (by omega)
    simp only [List.range'_succ, List.range'_zero, List.foldl_cons, List.foldl_nil, irStep, Nat.add_zero]
    exact ⟨u1, u2, by rw [u3]⟩
  | succ n ih =>
    intro k b0 low cnt0 h hlow hk
    obtain ⟨u1, u2, u3⟩ := upsert_insertRange_spec b0 h k low 65535 (by omega) (by omega) (by omega)
    rw [List.range'_succ, List.foldl_cons]
    obtain ⟨j1, j2, j3⟩ := ih (k + 1) (irStep (b0, low, cnt0) k).1 0 (irStep (b0, low, cnt0) k).2.2 u1
      (by omega) (by omega)
    have hst : irStep (b0, low, cnt0) k = ((irStep (b0, low, cnt0) k).1, 0, (irStep (b0, low, cnt0) k).2.2) := rfl
    rw [hst]
    refine ⟨j1, ?_, ?_⟩
    · rw [j2]
      have e1 : (irStep (b0, low, cnt0) k).1 = (upsert k (fun c => c.insertRange low 65535) b0).1 := rfl
      rw [e1, u2]
      have := (insertIv_comp (elems b0) (sorted_elems b0 h.dir) (k * 65536 + low) (k * 65536 + 65535)
        ((k + (n + 1)) * 65536 + 65535) (by omega) (by omega)).1
      rw [← this]
      have e2 : (k + 1) * 65536 + 0 = k * 65536 + 65535 + 1 := by omega
      have e3 : (k + 1 + n) * 65536 + 65535 = (k + (n + 1)) * 65536 + 65535 := by omega
      rw [e2, e3]
    · rw [j3]
      have e1 : (irStep (b0, low, cnt0) k).1 = (upsert k (fun c => c.insertRange low 65535) b0).1 := rfl
      have e4 : (irStep (b0, low, cnt0) k).2.2 = cnt0 + (upsert k (fun c => c.insertRange low 65535) b0).2 := rfl
      rw [e1, e4, u2, u3]
      have := (insertIv_comp (elems b0) (sorted_elems b0 h.dir) (k * 65536 + low) (k * 65536 + 65535)
        ((k + (n + 1)) * 65536 + 65535) (by omega) (by omega)).2
      rw [← this]
      have e2 : (k + 1) * 65536 + 0 = k * 65536 + 65535 + 1 := by omega
      have e3 : (k + 1 + n) * 65536 + 65535 = (k + (n + 1)) * 65536 + 65535 := by omega
      rw [e2, e3]; omega

/-- inherent.rs:229 `insert_range`, any `RangeBounds` shape, any number of chunks spanned -/
theorem insertRange_spec (b : Bitmap) (h : b.WF) (lo hi : Bound)
    (hlo : Bound.le u32Max lo) (hhi : Bound.le u32Max hi) :
    (insertRange b lo hi).1.WF ∧ elems (insertRange b lo hi).1 = (Spec.insertRange u32Max (elems b) lo hi).1 ∧
    (insertRange b lo hi).2 = (Spec.insertRange u32Max (elems b) lo hi).2 := by
  unfold Spec.insertRange
  cases hc : convertRange u32Max lo hi with
  | error e =>
    rw [convertRange_error u32Max lo hi hlo hhi e hc]
    unfold insertRange; rw [hc]
    exact ⟨h, rfl, rfl⟩
  | ok r =>
    obtain ⟨st, en⟩ := r
    rw [convertRange_ok u32Max lo hi hlo hhi st en hc]
    obtain ⟨hse, hen, _⟩ := Spec.interval_some u32Max lo hi st en (convertRange_ok u32Max lo hi hlo hhi st en hc)
    have hen' : en < 4294967296 := by unfold u32Max at hen; omega
    obtain ⟨hsk, hsi⟩ := split_lt st (by omega)
    obtain ⟨hek, hei⟩ := split_lt en hen'
    have js := join_split st
    have je := join_split en
    simp only []
    rw [insertRange_ok b lo hi st en hc]
    by_cases hkk : hi16 st = hi16 en
    · rw [if_pos hkk]
      have hle : lo16 st ≤ lo16 en := by unfold hi16 lo16 at *; omega
      have := upsert_insertRange_spec b h (hi16 st) (lo16 st) (lo16 en) hsk hle hei
      rw [js] at this
      have e : hi16 st * 65536 + lo16 en = en := by rw [hkk]; exact je
      rw [e] at this
      exact this
    · rw [if_neg hkk]
      have hlt : hi16 st < hi16 en := by unfold hi16 lo16 at *; omega
      obtain ⟨n, hn⟩ : ∃ n, hi16 en - hi16 st = n + 1 := ⟨hi16 en - hi16 st - 1, by unfold hi16 lo16 at *; omega⟩
      have e2 : hi16 en * 65536 + 0 = (hi16 st + n) * 65536 + 65535 + 1 := by
        clear js je; unfold hi16 lo16 at *; omega
      have hkn : hi16 st + n < 65536 := by unfold hi16 lo16 at *; omega
      have hcomp := insertIv_comp (elems b) (sorted_elems b h.dir) st ((hi16 st + n) * 65536 + 65535) en
        (by unfold hi16 lo16 at *; omega) (by unfold hi16 lo16 at *; omega)
      rw [hn]
      -- the first iteration finds the container `find_container_by_key` may have created
      have hfirst : (List.range' (hi16 st) (n + 1)).foldl irStep ((findContainerByKey b (hi16 st)).1, lo16 st, 0) =
          (List.range' (hi16 st) (n + 1)).foldl irStep (b, lo16 st, 0) := by
        rw [List.range'_succ, List.foldl_cons, List.foldl_cons]
        congr 1
        simp only [irStep, upsert_find]
      rw [hfirst]
      obtain ⟨f1, f2, f3⟩ := irFold_spec n (hi16 st) b (lo16 st) 0 h hsi hkn
      obtain ⟨u1, u2, u3⟩ := upsert_insertRange_spec _ f1 (hi16 en) 0 (lo16 en) hek (by omega) hei
      rw [js] at f2 f3
      rw [je, e2, f2] at u2 u3
      refine ⟨u1, ?_, ?_⟩
      · rw [u2]; exact hcomp.1
      · rw [u3, f3, ← hcomp.2]; omega

/-- inherent.rs:317 `push_unchecked`: when the caller's promise holds no debug assertion fires (any `dbg`) -/
theorem pushUnchecked_spec (dbg : Bool) (b : Bitmap) (h : b.WF) (v : Nat) (hv : v < 4294967296)
    (hmax : ∀ x ∈ elems b, x < v) :
    ∃ b', pushUnchecked dbg b v = some b' ∧ b'.WF ∧ elems b' = elems b ++ [v] := by
  obtain ⟨hk, hl⟩ := split_lt v hv
  have hjs := join_split v
  obtain ⟨cf, f0, f1, f2, f4⟩ := Container.pushUnchecked_spec dbg (Container.new (hi16 v))
    (Store.canon_inv _ (Container.new_canon _)) (lo16 v) hl (by simp [Container.new_elems])
  rw [Container.new_elems] at f4
  have hfresh : (∀ d ∈ b, d.key < hi16 v) →
      ∃ b', (((Container.new (hi16 v)).pushUnchecked dbg (lo16 v)).map fun c => b ++ [c]) = some b' ∧
        b'.WF ∧ elems b' = elems b ++ [v] := by
    intro hlt
    have := snoc_pushed b h cf v [] hk f1 f2 f4 hlt
    exact ⟨b ++ [cf], by rw [f0]; rfl, this.1, by simpa using this.2⟩
  unfold pushUnchecked
  cases hlast : b.getLast? with
  | none =>
    have : b = [] := List.getLast?_eq_none_iff.mp hlast
    subst this
    exact hfresh (by simp)
  | some c =>
    obtain ⟨init, rfl⟩ := List.getLast?_eq_some_iff.mp hlast
    obtain ⟨hinit, hlt, hck, hcan, hne⟩ := (wf_snoc_iff init c).mp h
    have hinv := Store.canon_inv _ hcan
    have hcmem : ∀ x ∈ c.store.elems, c.key * 65536 + x < v := by
      intro x hx
      apply hmax
      rw [elems_append, elems_single]; apply List.mem_append_right
      exact List.mem_map_of_mem hx
    simp only []
    by_cases h1 : c.key = hi16 v
    · rw [if_pos h1, List.dropLast_concat]
      obtain ⟨c', q0, q1, q2, q4⟩ := Container.pushUnchecked_spec dbg c hinv (lo16 v) hl (by
        intro x hx; have := hcmem x hx; omega)
      obtain ⟨w1, w2⟩ := snoc_pushed init hinit c' v c.store.elems hk (q1.trans h1) q2 q4
        (fun d hd => h1 ▸ hlt d hd)
      refine ⟨init ++ [c'], by rw [q0]; rfl, w1, ?_⟩
      rw [w2, elems_append, elems_single]
      simp only [Container.elems, h1]
    · rw [if_neg h1]
      obtain ⟨x0, hx0⟩ : ∃ x0, x0 ∈ c.store.elems := by
        cases hce : c.store.elems with
        | nil => exact absurd hce hne
        | cons a l => exact ⟨a, List.mem_cons_self ..⟩
      have h3 : c.key < hi16 v := by
        have := hcmem x0 hx0
        have := Store.elems_lt _ hinv x0 hx0
        unfold hi16 lo16 at *; omega
      have h2 : (dbg && decide (c.key > hi16 v)) = false := by
        have : ¬ c.key > hi16 v := by omega
        simp [this]
      rw [h2]
      simp only [Bool.false_eq_true, if_false]
      apply hfresh
      intro d hd
      rcases List.mem_append.mp hd with hd | hd
      · have := hlt d hd; omega
      · simp at hd; subst hd; exact h3

/-- inherent.rs `max`: the last value of the last container -/
theorem max?_eq (b : Bitmap) (h : b.WF) : max? b = (elems b).getLast? := by
  unfold max?
  cases hlast : b.getLast? with
  | none =>
    have : b = [] := List.getLast?_eq_none_iff.mp hlast
    subst this; rfl
  | some c =>
    obtain ⟨init, rfl⟩ := List.getLast?_eq_some_iff.mp hlast
    obtain ⟨hinit, hlt, hck, hcan, hne⟩ := (wf_snoc_iff init c).mp h
    simp only []
    rw [elems_append, elems_single, List.getLast?_append]
    unfold Container.elems Container.max?
    rw [List.getLast?_map, Store.max?_spec _ (Store.canon_inv _ hcan)]
    cases hce : c.store.elems.getLast? with
    | none => exact absurd (List.getLast?_eq_none_iff.mp hce) hne
    | some m => simp [join]

/-- the result value of `append` after `count` accepted values -/
def appendRes (count : Nat) (acc vs : List Nat) : Except Nat Nat :=
  if acc.length = vs.length then .ok (count + acc.length) else .error (count + acc.length)

theorem appendRes_cons (count v w : Nat) (acc vs : List Nat) :
    appendRes count (v :: acc) (w :: vs) = appendRes (count + 1) acc vs := by
  unfold appendRes
  simp only [List.length_cons]
  have e : count + (acc.length + 1) = count + 1 + acc.length := by omega
  by_cases hn : acc.length = vs.length
  · rw [if_pos hn, if_pos (by omega), e]
  · rw [if_neg hn, if_neg (by omega), e]

theorem appendLoop_spec (dbg : Bool) : ∀ (vs : List Nat) (b : Bitmap) (prev count : Nat), b.WF →
    (elems b).getLast? = some prev → (∀ v ∈ vs, v < 4294967296) →
    ∃ b', appendLoop dbg b prev count vs =
        some (b', appendRes count (Spec.ascPrefix (some prev) vs) vs) ∧ b'.WF ∧
      elems b' = elems b ++ Spec.ascPrefix (some prev) vs := by
  intro vs
  induction vs with
  | nil =>
    intro b prev count h _ _
    exact ⟨b, by simp [appendLoop, Spec.ascPrefix, appendRes], h, by simp [Spec.ascPrefix]⟩
  | cons v vs ih =>
    intro b prev count h hlast hvs
    unfold appendLoop
    by_cases hle : v ≤ prev
    · rw [if_pos hle]
      have : Spec.ascPrefix (some prev) (v :: vs) = [] := by
        simp only [Spec.ascPrefix]; rw [if_neg (by omega)]
      rw [this]; exact ⟨b, by simp [appendRes], h, by simp⟩
    · rw [if_neg hle]
      have hmax : ∀ x ∈ elems b, x < v := by
        intro x hx
        have := (Arr.getLast?_sorted _ (sorted_elems b h.dir) prev hlast).2 x hx; omega
      obtain ⟨b1, e1, w1, l1⟩ := pushUnchecked_spec dbg b h v (hvs v (List.mem_cons_self ..)) hmax
      rw [e1]; simp only []
      obtain ⟨b', e2, w2, l2⟩ := ih b1 v (count + 1) w1 (by rw [l1]; exact List.getLast?_concat)
        (fun x hx => hvs x (List.mem_cons_of_mem _ hx))
      have : Spec.ascPrefix (some prev) (v :: vs) = v :: Spec.ascPrefix (some v) vs := by
        simp only [Spec.ascPrefix]; rw [if_pos (by omega)]
      refine ⟨b', ?_, w2, ?_⟩
      · rw [e2, this, appendRes_cons]
      · rw [l2, l1, this]; simp

/-- iter.rs `append`: never panics (for either build configuration), accepts exactly the ascending prefix -/
theorem append_spec (dbg : Bool) (b : Bitmap) (h : b.WF) (vs : List Nat) (hvs : ∀ v ∈ vs, v < 4294967296) :
    ∃ b', append dbg b vs = some (b', (Spec.append (elems b) vs).2) ∧ b'.WF ∧
      elems b' = (Spec.append (elems b) vs).1 := by
  have hS : ∀ s vs, Spec.append s vs = (s ++ Spec.ascPrefix s.getLast? vs,
      appendRes 0 (Spec.ascPrefix s.getLast? vs) vs) := by
    intro s vs; simp [Spec.append, appendRes]
  rw [hS]
  cases vs with
  | nil => exact ⟨b, by simp [append, Spec.ascPrefix, appendRes], h, by simp [Spec.ascPrefix]⟩
  | cons first rest =>
    have hf := hvs first (List.mem_cons_self ..)
    -- the common continuation once `first` is known to be above the maximum
    have cont : (∀ x ∈ elems b, x < first) →
        Spec.ascPrefix (elems b).getLast? (first :: rest) = first :: Spec.ascPrefix (some first) rest →
        ∃ b', (match pushUnchecked dbg b first with
               | none => none
               | some b' => appendLoop dbg b' first 1 rest) =
            some (b', appendRes 0 (Spec.ascPrefix (elems b).getLast? (first :: rest)) (first :: rest)) ∧
          b'.WF ∧ elems b' = elems b ++ Spec.ascPrefix (elems b).getLast? (first :: rest) := by
      intro hmax hasc
      obtain ⟨b1, e1, w1, l1⟩ := pushUnchecked_spec dbg b h first hf hmax
      rw [e1]; simp only []
      obtain ⟨b', e2, w2, l2⟩ := appendLoop_spec dbg rest b1 first 1 w1
        (by rw [l1]; exact List.getLast?_concat) (fun x hx => hvs x (List.mem_cons_of_mem _ hx))
      refine ⟨b', ?_, w2, ?_⟩
      · rw [e2, hasc, appendRes_cons]
      · rw [l2, l1, hasc]; simp
    unfold append
    rw [max?_eq b h]
    cases hlast : (elems b).getLast? with
    | none =>
      simp only []
      rw [hlast] at cont
      apply cont
      · have : elems b = [] := List.getLast?_eq_none_iff.mp hlast
        rw [this]; simp
      · simp [Spec.ascPrefix]
    | some m =>
      simp only []
      rw [hlast] at cont
      by_cases hle : first ≤ m
      · rw [if_pos hle]
        have : Spec.ascPrefix (some m) (first :: rest) = [] := by
          simp only [Spec.ascPrefix]; rw [if_neg (by omega)]
        rw [this]; exact ⟨b, by simp [appendRes], h, by simp⟩
      · rw [if_neg hle]
        apply cont
        · intro x hx
          have := (Arr.getLast?_sorted _ (sorted_elems b h.dir) m hlast).2 x hx; omega
        · simp only [Spec.ascPrefix]; rw [if_pos (by omega)]

/-- iter.rs `Extend<u32>` / `FromIterator` -/
theorem extend_spec (b : Bitmap) (h : b.WF) (vs : List Nat) (hvs : ∀ v ∈ vs, v < 4294967296) :
    (extend b vs).WF ∧ elems (extend b vs) = Spec.extend (elems b) vs := by
  unfold extend Spec.extend
  induction vs generalizing b with
  | nil => exact ⟨h, rfl⟩
  | cons v vs ih =>
    obtain ⟨i1, i2, _⟩ := insert_spec b h v (hvs v (List.mem_cons_self ..))
    simp only [List.foldl_cons]
    rw [← i2]
    exact ih _ i1 (fun x hx => hvs x (List.mem_cons_of_mem _ hx))

private theorem WF.tail {c : Container} {cs : Bitmap} (h : WF (c :: cs)) : WF cs :=
  wf_of_dir _ h.dir.tail (fun d hd => h.ne d (List.mem_cons_of_mem _ hd))

theorem cElems_length (c : Container) : c.elems.length = c.store.elems.length := by simp [Container.elems]

theorem clen_eq (c : Container) (hc : c.store.Inv) : c.len = c.elems.length := by
  unfold Container.len; rw [Store.len_eq _ hc, cElems_length]

/-- inherent.rs:753 `remove_smallest` for every `n` (also `n ≥ len`) -/
theorem removeSmallest_spec (b : Bitmap) (h : b.WF) (n : Nat) :
    (removeSmallest b n).WF ∧ elems (removeSmallest b n) = Spec.removeSmallest (elems b) n := by
  unfold Spec.removeSmallest
  induction b generalizing n with
  | nil => exact ⟨h, by simp [removeSmallest, elems]⟩
  | cons c cs ih =>
    have hdir := h.dir
    have hc := hdir.2 c (List.mem_cons_self ..)
    have hinv := Store.canon_inv _ hc.2
    have hlen := clen_eq c hinv
    unfold removeSmallest
    rw [elems_cons]
    by_cases h1 : c.len ≤ n
    · rw [if_pos h1]
      obtain ⟨i1, i2⟩ := ih h.tail (n - c.len)
      refine ⟨i1, ?_⟩
      have : List.drop n (c.elems ++ elems cs) = List.drop (n - c.len) (elems cs) := by
        rw [List.drop_append, List.drop_eq_nil_of_le (by omega), List.nil_append, hlen]
      rw [i2, this]
    · rw [if_neg h1]
      by_cases h2 : n > 0
      · rw [if_pos h2]
        obtain ⟨r1, r2, r3⟩ := Container.removeSmallest_spec c hc.2 n (by omega)
        refine ⟨?_, ?_⟩
        · apply wf_of_dir
          · exact Dir.cons hdir.tail (by rw [r1]; exact hc.1) r2 (by rw [r1]; exact hdir.head_lt)
          · intro d hd
            rcases List.mem_cons.mp hd with hd | hd
            · rw [hd, r3]; intro hnil
              have := congrArg List.length hnil
              simp only [List.length_drop, List.length_nil] at this
              rw [← cElems_length] at this; omega
            · exact h.ne d (List.mem_cons_of_mem _ hd)
        · rw [elems_cons, List.drop_append_of_le_length (by omega)]
          congr 1
          unfold Container.elems; rw [r1, r3, List.map_drop]
      · rw [if_neg h2]
        have : n = 0 := by omega
        subst this
        exact ⟨h, by rw [elems_cons]; rfl⟩

/-- `remove_biggest` walks the containers from the back: stated on the reversed directory -/
theorem removeBiggestRev_spec : ∀ (r : List Container) (n : Nat), WF r.reverse →
    WF (removeBiggestRev r n).reverse ∧
    elems (removeBiggestRev r n).reverse = (elems r.reverse).take ((elems r.reverse).length - n) := by
  intro r
  induction r with
  | nil => intro n h; exact ⟨h, by simp [removeBiggestRev, elems]⟩
  | cons c cs ih =>
    intro n h
    rw [List.reverse_cons] at h
    obtain ⟨hinit, hlt, hck, hcan, hne⟩ := (wf_snoc_iff _ c).mp h
    have hinv := Store.canon_inv _ hcan
    have hlen := clen_eq c hinv
    unfold removeBiggestRev
    rw [List.reverse_cons, elems_append, elems_single, List.length_append]
    by_cases h1 : c.len ≤ n
    · rw [if_pos h1]
      obtain ⟨i1, i2⟩ := ih (n - c.len) hinit
      refine ⟨i1, ?_⟩
      rw [i2, List.take_append_of_le_length (by omega)]
      congr 1; omega
    · rw [if_neg h1]
      by_cases h2 : n > 0
      · rw [if_pos h2]
        obtain ⟨r1, r2, r3⟩ := Container.removeBiggest_spec c hcan n (by omega)
        rw [List.reverse_cons]
        refine ⟨?_, ?_⟩
        · rw [wf_snoc_iff]
          refine ⟨hinit, by rw [r1]; exact hlt, by rw [r1]; exact hck, r2, ?_⟩
          rw [r3]; intro hnil
          have := congrArg List.length hnil
          simp only [List.length_take, List.length_nil] at this
          rw [← cElems_length] at this; omega
        · rw [elems_append, elems_single]
          have e : (elems cs.reverse).length + c.elems.length - n =
              (elems cs.reverse).length + (c.elems.length - n) := by omega
          rw [e, List.take_length_add_append]
          congr 1
          unfold Container.elems; rw [r1, r3, List.map_take, List.length_map]
      · rw [if_neg h2]
        have : n = 0 := by omega
        subst this
        rw [List.reverse_cons]
        refine ⟨h, ?_⟩
        rw [elems_append, elems_single, List.take_of_length_le (by simp)]

/-- inherent.rs:788 `remove_biggest` for every `n` -/
theorem removeBiggest_spec (b : Bitmap) (h : b.WF) (n : Nat) :
    (removeBiggest b n).WF ∧ elems (removeBiggest b n) = Spec.removeBiggest (elems b) n := by
  unfold removeBiggest Spec.removeBiggest
  have := removeBiggestRev_spec b.reverse n (by rw [List.reverse_reverse]; exact h)
  rw [List.reverse_reverse] at this
  exact this

end Bitmap
end Roaring
