import RoaringModel.Lemmas.BitmapMut
/-!
# The remaining `RoaringBitmap` mutators refine the set operations (inherent.rs, iter.rs `Extend`/`append`)
-/
namespace Roaring
namespace Bitmap

/-- inherent.rs:229 `insert_range`, any `RangeBounds` shape, any number of chunks spanned -/
theorem insertRange_spec (b : Bitmap) (h : b.WF) (lo hi : Bound)
    (hlo : Bound.le u32Max lo) (hhi : Bound.le u32Max hi) :
    (insertRange b lo hi).1.WF ∧ elems (insertRange b lo hi).1 = (Spec.insertRange u32Max (elems b) lo hi).1 ∧
    (insertRange b lo hi).2 = (Spec.insertRange u32Max (elems b) lo hi).2 := by
  sorry

/-- inherent.rs:294 `push` -/
theorem push_spec (b : Bitmap) (h : b.WF) (v : Nat) (hv : v < 4294967296) :
    (push b v).1.WF ∧ elems (push b v).1 = (Spec.push (elems b) v).1 ∧
    (push b v).2 = (Spec.push (elems b) v).2 := by
  sorry

/-- inherent.rs:317 `push_unchecked`: when the caller's promise holds no debug assertion fires (any `dbg`) -/
theorem pushUnchecked_spec (dbg : Bool) (b : Bitmap) (h : b.WF) (v : Nat) (hv : v < 4294967296)
    (hmax : ∀ x ∈ elems b, x < v) :
    ∃ b', pushUnchecked dbg b v = some b' ∧ b'.WF ∧ elems b' = elems b ++ [v] := by
  sorry

/-- iter.rs `append`: never panics (for either build configuration), accepts exactly the ascending prefix -/
theorem append_spec (dbg : Bool) (b : Bitmap) (h : b.WF) (vs : List Nat) (hvs : ∀ v ∈ vs, v < 4294967296) :
    ∃ b', append dbg b vs = some (b', (Spec.append (elems b) vs).2) ∧ b'.WF ∧
      elems b' = (Spec.append (elems b) vs).1 := by
  sorry

/-- iter.rs `Extend<u32>` / `FromIterator` -/
theorem extend_spec (b : Bitmap) (h : b.WF) (vs : List Nat) (hvs : ∀ v ∈ vs, v < 4294967296) :
    (extend b vs).WF ∧ elems (extend b vs) = Spec.extend (elems b) vs := by
  sorry

/-- inherent.rs:753 `remove_smallest` for every `n` (also `n ≥ len`) -/
theorem removeSmallest_spec (b : Bitmap) (h : b.WF) (n : Nat) :
    (removeSmallest b n).WF ∧ elems (removeSmallest b n) = Spec.removeSmallest (elems b) n := by
  sorry

/-- inherent.rs:788 `remove_biggest` for every `n` -/
theorem removeBiggest_spec (b : Bitmap) (h : b.WF) (n : Nat) :
    (removeBiggest b n).WF ∧ elems (removeBiggest b n) = Spec.removeBiggest (elems b) n := by
  sorry

end Bitmap
end Roaring
