import RoaringModel.Lemmas.TreemapKernel32
import RoaringModel.Lemmas.TreemapWF
import RoaringModel.Lemmas.BitmapQuery
import RoaringModel.Lemmas.BitmapMut2
/-!
# `kernel32 : Kernel32` — the 32-bit hypotheses of the `C10_*_partial` theorems, discharged from the core library

`WF := Bitmap.WF` (Inv.lean); mutators from Lemmas/BitmapMut.lean + BitmapMut2.lean (C01), queries from
Lemmas/BitmapQuery.lean (C07), sortedness and the `u32` bound from Lemmas/Dir.lean, and `RoaringBitmap::full()`
(2^16 full bitset chunks) proved here.
-/
namespace Roaring
namespace Treemap

/-! ### `RoaringBitmap::full()` -/

theorem fullBitmap_WF : Bitmap.WF fullBitmap := by
  unfold fullBitmap
  refine ⟨?_, ?_⟩
  · have : ((List.range 65536).map Container.full).map Container.key = List.range 65536 := by
      rw [List.map_map]
      have : (Container.key ∘ Container.full) = id := by funext k; rfl
      rw [this, List.map_id]
    rw [this]
    exact List.pairwise_lt_range
  · intro c hc
    obtain ⟨k, hk, rfl⟩ := List.mem_map.mp hc
    exact ⟨List.mem_range.mp hk, BStore.inv_full, by show 4096 < 65536; omega⟩

theorem mem_elems_fullBitmap (x : Nat) : x ∈ Bitmap.elems fullBitmap ↔ x < 4294967296 := by
  rw [Bitmap.mem_elems_iff_exists]
  constructor
  · rintro ⟨c, hc, hx⟩
    obtain ⟨k, hk, rfl⟩ := List.mem_map.mp hc
    have hk := List.mem_range.mp hk
    have := ((Bitmap.mem_cElems (Container.full k) BStore.inv_full x).mp hx).1
    have hkey : (Container.full k).key = k := rfl
    omega
  · intro hx
    refine ⟨Container.full (x / 65536), List.mem_map.mpr ⟨x / 65536, List.mem_range.mpr (by omega), rfl⟩, ?_⟩
    rw [Bitmap.mem_cElems (Container.full (x / 65536)) BStore.inv_full]
    exact ⟨rfl, (BStore.mem_toArray_full _).mpr (Nat.mod_lt _ (by omega))⟩

theorem elems_fullBitmap : Bitmap.elems fullBitmap = List.range' 0 4294967296 := by
  apply TL.sorted_ext (Bitmap.sorted_elems _ fullBitmap_WF.dir) List.pairwise_lt_range'
  intro x
  rw [mem_elems_fullBitmap, List.mem_range'_1]
  omega

theorem len_fullBitmap : Bitmap.len fullBitmap = 4294967296 := by
  rw [Bitmap.len_spec _ fullBitmap_WF, elems_fullBitmap, List.length_range']

/-! ### the interval forms of the 32-bit range mutators -/

private theorem interval_incl {s e : Nat} (hse : s ≤ e) (he : e < 4294967296) :
    Spec.interval u32Max (.incl s) (.incl e) = some (s, e) := by
  have : min e u32Max = e := Nat.min_eq_left (by unfold u32Max; omega)
  simp [Spec.interval, Spec.upper, Spec.lower, this, hse]

private theorem le_u32 {e : Nat} (he : e < 4294967296) : e ≤ u32Max := by unfold u32Max; omega

/-- **the 32-bit kernel, discharged** -/
def kernel32 : Kernel32 where
  WF := Bitmap.WF
  new_WF := ⟨List.Pairwise.nil, fun _ hc => absurd hc (by simp [Bitmap.new])⟩
  elems_sorted := fun b h => Bitmap.sorted_elems b h.dir
  elems_lt := fun b h => Bitmap.elems_lt b h.dir
  isEmpty_spec := fun b h => by rw [Bitmap.isEmpty_spec b h]; exact List.isEmpty_iff
  insert_spec := fun b v h hv => Bitmap.insert_spec b h v hv
  remove_spec := fun b v h _ => Bitmap.remove_spec b h v
  insertRange_spec := fun b s e h hse he => by
    have := Bitmap.insertRange_spec b h (.incl s) (.incl e) (le_u32 (by omega)) (le_u32 he)
    simpa only [Spec.insertRange, interval_incl hse he] using this
  removeRange_spec := fun b s e h hse he => by
    have := Bitmap.removeRange_spec b h (.incl s) (.incl e) (le_u32 (by omega)) (le_u32 he)
    simpa only [Spec.removeRange, interval_incl hse he] using this
  push_spec := fun b v h hv => Bitmap.push_spec b h v hv
  pushUnchecked_spec := fun dbg b v h hv hmax => Bitmap.pushUnchecked_spec dbg b h v hv hmax
  contains_spec := fun b v h _ => Bitmap.contains_spec b h v
  len_spec := fun b h => Bitmap.len_spec b h
  min_spec := fun b h => Bitmap.min?_spec b h
  max_spec := fun b h => Bitmap.max?_spec b h
  rank_spec := fun b v h hv => Bitmap.rank_spec b h v hv
  select_spec := fun b n h _ => Bitmap.select_spec b h n
  full_spec := ⟨fullBitmap_WF, elems_fullBitmap⟩

/-- `Treemap.WF kernel32` is the plain invariant `TWF` -/
theorem WF_kernel32 (t : Treemap) : WF kernel32 t ↔ TWF t := Iff.rfl

end Treemap
end Roaring
