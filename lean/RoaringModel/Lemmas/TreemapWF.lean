import RoaringModel.Lemmas.TreemapDir
import RoaringModel.Inv
/-!
# Well-formed treemaps (`TWF`): the partition-level invariant `WFd` over the 32-bit invariant `Bitmap.WF`
-/
namespace Roaring
namespace Treemap

/-- **well-formed treemaps**: keys strictly ascending `u32`s, every partition a well-formed (`Bitmap.WF`,
    Inv.lean) non-empty 32-bit bitmap -/
abbrev TWF (t : Treemap) : Prop := WFd Bitmap.WF t

end Treemap
end Roaring
