import RoaringModel.Lemmas.IterDefs
/-!
# C03: bitmap-level iterator lemmas over the container-level kernel interface `CKernel`

Every public method of `bitmap::Iter` / `IntoIter` is shown to act on `Iter.rem` as the corresponding
`Spec.Cursor` operation and to preserve `Iter.Inv`.
-/
namespace Roaring
open Spec (Cursor)

/-! ### list helpers -/

theorem filterGE_keep (l : List Nat) (n : Nat) (h : ∀ x ∈ l, n ≤ x) : l.filter (fun x => decide (n ≤ x)) = l := by
  rw [List.filter_eq_self]; intro x hx; simp [h x hx]
theorem filterGE_drop (l : List Nat) (n : Nat) (h : ∀ x ∈ l, x < n) : l.filter (fun x => decide (n ≤ x)) = [] := by
  rw [List.filter_eq_nil_iff]; intro x hx; have := h x hx; simp; omega
theorem filterLE_keep (l : List Nat) (n : Nat) (h : ∀ x ∈ l, x ≤ n) : l.filter (fun x => decide (x ≤ n)) = l := by
  rw [List.filter_eq_self]; intro x hx; simp [h x hx]
theorem filterLE_drop (l : List Nat) (n : Nat) (h : ∀ x ∈ l, n < x) : l.filter (fun x => decide (x ≤ n)) = [] := by
  rw [List.filter_eq_nil_iff]; intro x hx; have := h x hx; simp; omega

theorem eq_nil_or_snoc {α} (l : List α) : l = [] ∨ ∃ l' a, l = l' ++ [a] := by
  rcases List.eq_nil_or_concat l with h | ⟨l', a, h⟩
  · left; exact h
  · right; exact ⟨l', a, by simpa using h⟩

theorem head?_append_of_ne_nil {α} (l r : List α) (h : l ≠ []) : (l ++ r).head? = l.head? := by
  cases l with
  | nil => contradiction
  | cons a l => rfl
theorem tail_append_of_ne_nil' {α} (l r : List α) (h : l ≠ []) : (l ++ r).tail = l.tail ++ r := by
  cases l with
  | nil => contradiction
  | cons a l => rfl

theorem getLast?_append_of_ne_nil' {α} (l r : List α) (h : r ≠ []) : (l ++ r).getLast? = r.getLast? := by
  rcases eq_nil_or_snoc r with h' | ⟨r', a, h'⟩
  · contradiction
  · subst h'; rw [← List.append_assoc]; simp

/-! ### `container::Iter`: consequences of the kernel for the std-default methods -/
namespace CIter

theorem nthBack_spec (K : CKernel) (n : Nat) : ∀ (c : CIter), c.Inv →
    (c.nthBack n).2 = (c.rem.take (c.rem.length - n)).getLast? ∧
    (c.nthBack n).1.rem = (c.rem.take (c.rem.length - n)).dropLast ∧
    (c.nthBack n).1.Inv ∧ (c.nthBack n).1.key = c.key := by
  induction n with
  | zero =>
    intro c hc
    simpa [nthBack] using K.nextBack c hc
  | succ n ih =>
    intro c hc
    obtain ⟨h1, h2, h3, h4⟩ := K.nextBack c hc
    unfold nthBack
    cases hr : c.nextBack with
    | mk c' r =>
      rw [hr] at h1 h2 h3 h4
      simp only [] at h1 h2 h3 h4
      cases r with
      | none =>
        have hnil : c.rem = [] := List.getLast?_eq_none_iff.mp h1.symm
        simp only []
        rw [h2, hnil]
        exact ⟨by simp, by simp, h3, h4⟩
      | some x =>
        simp only []
        obtain ⟨i1, i2, i3, i4⟩ := ih c' h3
        have hlen : c'.rem.length = c.rem.length - 1 := by rw [h2]; simp
        have htake : c'.rem.take (c'.rem.length - n) = c.rem.take (c.rem.length - (n + 1)) := by
          rw [h2, List.dropLast_eq_take, List.take_take]
          congr 1
          simp only [List.length_take]
          omega
        rw [htake] at i1 i2
        exact ⟨i1, i2, i3, by rw [i4, h4]⟩

theorem foldFuel_spec (K : CKernel) {β : Type} (f : β → Nat → β) (fuel : Nat) :
    ∀ (c : CIter) (acc : β), c.Inv → c.rem.length < fuel → foldFuel f fuel c acc = c.rem.foldl f acc := by
  induction fuel with
  | zero => intro c acc _ h; omega
  | succ fuel ih =>
    intro c acc hc hlen
    obtain ⟨h1, h2, h3, _⟩ := K.next c hc
    unfold foldFuel
    cases hr : c.next with
    | mk c' r =>
      rw [hr] at h1 h2 h3
      simp only [] at h1 h2 h3
      cases hrem : c.rem with
      | nil =>
        rw [hrem] at h1; simp at h1; subst h1
        simp
      | cons a l =>
        rw [hrem] at h1 h2; simp at h1 h2; subst h1
        simp only [List.foldl_cons]
        rw [hrem] at hlen
        apply (ih c' (f acc a) h3 (by rw [h2]; simp at hlen; omega)).trans
        rw [h2]

theorem fold_spec (K : CKernel) {β : Type} (c : CIter) (hc : c.Inv) (init : β) (f : β → Nat → β) :
    c.fold init f = c.rem.foldl f init := by
  unfold fold len
  rw [K.sizeHint c hc]
  exact foldFuel_spec K f _ c init hc (by simp)

theorem rfoldFuel_spec (K : CKernel) {β : Type} (f : β → Nat → β) (fuel : Nat) :
    ∀ (c : CIter) (acc : β), c.Inv → c.rem.length < fuel → rfoldFuel f fuel c acc = c.rem.reverse.foldl f acc := by
  induction fuel with
  | zero => intro c acc _ h; omega
  | succ fuel ih =>
    intro c acc hc hlen
    obtain ⟨h1, h2, h3, _⟩ := K.nextBack c hc
    unfold rfoldFuel
    cases hr : c.nextBack with
    | mk c' r =>
      rw [hr] at h1 h2 h3
      simp only [] at h1 h2 h3
      rcases eq_nil_or_snoc c.rem with hrem | ⟨l, a, hrem⟩
      · rw [hrem] at h1; simp at h1; subst h1
        simp [hrem]
      · rw [hrem] at h1 h2 hlen; simp at h1 h2 hlen; subst h1
        simp only [hrem, List.reverse_append, List.reverse_cons, List.reverse_nil, List.nil_append,
          List.singleton_append, List.foldl_cons]
        apply (ih c' (f acc a) h3 (by rw [h2]; omega)).trans
        rw [h2]

theorem rfold_spec (K : CKernel) {β : Type} (c : CIter) (hc : c.Inv) (init : β) (f : β → Nat → β) :
    c.rfold init f = c.rem.reverse.foldl f init := by
  unfold rfold len
  rw [K.sizeHint c hc]
  exact rfoldFuel_spec K f _ c init hc (by simp)

theorem len_spec (K : CKernel) (c : CIter) (hc : c.Inv) : c.len = c.rem.length := by
  unfold len; rw [K.sizeHint c hc]

end CIter

/-! ### `and_then_or_clear` -/

theorem atoc_some {α : Type} (c : CIter) (g : CIter → CIter × Option α) :
    andThenOrClear (some c) g =
      match (g c).2 with
      | none => (none, none)
      | some x => (some (g c).1, some x) := rfl

theorem orem_some (c : CIter) : orem (some c) = c.rem := rfl
theorem orem_none : orem none = [] := rfl
theorem mid_nil : mid [] = [] := rfl
theorem mid_cons (c : Container) (cs : List Container) : mid (c :: cs) = c.elems ++ mid cs := by
  simp [mid]
theorem mid_append (as bs : List Container) : mid (as ++ bs) = mid as ++ mid bs := by
  simp [mid]

/-- `and_then_or_clear(opt, Iterator::next)` pops the head of the optional iterator's remaining values -/
theorem atoc_next (K : CKernel) (o : Option CIter) (ho : ∀ c, o = some c → c.Inv) :
    (andThenOrClear o CIter.next).2 = (orem o).head? ∧
    orem (andThenOrClear o CIter.next).1 = (orem o).tail ∧
    ((andThenOrClear o CIter.next).2 = none → (andThenOrClear o CIter.next).1 = none) ∧
    (∀ c', (andThenOrClear o CIter.next).1 = some c' → c'.Inv ∧ ∃ c, o = some c ∧ c'.key = c.key) := by
  cases o with
  | none => simp [andThenOrClear, orem]
  | some c =>
    obtain ⟨h1, h2, h3, h4⟩ := K.next c (ho c rfl)
    rw [atoc_some]
    cases hx : c.next.2 with
    | none =>
      rw [hx] at h1
      have hnil : c.rem = [] := List.head?_eq_none_iff.mp h1.symm
      simp [orem, hnil]
    | some x =>
      simp only [orem_some, ← h1, hx, h2, true_and]
      refine ⟨by simp, ?_⟩
      intro c' hc'
      simp only [Option.some.injEq] at hc'
      subst hc'
      exact ⟨h3, c, rfl, h4⟩

theorem atoc_nextBack (K : CKernel) (o : Option CIter) (ho : ∀ c, o = some c → c.Inv) :
    (andThenOrClear o CIter.nextBack).2 = (orem o).getLast? ∧
    orem (andThenOrClear o CIter.nextBack).1 = (orem o).dropLast ∧
    ((andThenOrClear o CIter.nextBack).2 = none → (andThenOrClear o CIter.nextBack).1 = none) ∧
    (∀ c', (andThenOrClear o CIter.nextBack).1 = some c' → c'.Inv ∧ ∃ c, o = some c ∧ c'.key = c.key) := by
  cases o with
  | none => simp [andThenOrClear, orem]
  | some c =>
    obtain ⟨h1, h2, h3, h4⟩ := K.nextBack c (ho c rfl)
    rw [atoc_some]
    cases hx : c.nextBack.2 with
    | none =>
      rw [hx] at h1
      have hnil : c.rem = [] := List.getLast?_eq_none_iff.mp h1.symm
      simp [orem, hnil]
    | some x =>
      simp only [orem_some, ← h1, hx, h2, true_and]
      refine ⟨by simp, ?_⟩
      intro c' hc'
      simp only [Option.some.injEq] at hc'
      subst hc'
      exact ⟨h3, c, rfl, h4⟩

namespace Iter

theorem rem_mk (f : Option CIter) (cs : List Container) (b : Option CIter) :
    Iter.rem ⟨f, cs, b⟩ = orem f ++ mid cs ++ orem b := rfl

/-- replacing the front iterator by one with the same key (or by nothing) -/
theorem Inv.setFront {it : Iter} (hi : it.Inv) (fr : Option CIter)
    (h : ∀ c', fr = some c' → c'.Inv ∧ ∃ c, it.front = some c ∧ c'.key = c.key) :
    Iter.Inv ⟨fr, it.containers, it.back⟩ := by
  refine ⟨hi.sorted, hi.cok, ?_, hi.bi, ?_, hi.bk, ?_⟩
  · intro f hf; exact (h f hf).1
  · intro f hf c hc
    obtain ⟨_, c0, hc0, hk⟩ := h f hf
    rw [hk]; exact hi.fr c0 hc0 c hc
  · intro f b hf hb
    obtain ⟨_, c0, hc0, hk⟩ := h f hf
    rw [hk]; exact hi.fb c0 b hc0 hb

theorem Inv.setBack {it : Iter} (hi : it.Inv) (bk : Option CIter)
    (h : ∀ c', bk = some c' → c'.Inv ∧ ∃ c, it.back = some c ∧ c'.key = c.key) :
    Iter.Inv ⟨it.front, it.containers, bk⟩ := by
  refine ⟨hi.sorted, hi.cok, hi.fi, ?_, hi.fr, ?_, ?_⟩
  · intro b hb; exact (h b hb).1
  · intro b hb c hc
    obtain ⟨_, c0, hc0, hk⟩ := h b hb
    rw [hk]; exact hi.bk c0 hc0 c hc
  · intro f b hf hb
    obtain ⟨_, c0, hc0, hk⟩ := h b hb
    rw [hk]; exact hi.fb f c0 hf hc0

theorem Inv.clearFront {it : Iter} (hi : it.Inv) : Iter.Inv ⟨none, it.containers, it.back⟩ :=
  hi.setFront none (by simp)
theorem Inv.clearBack {it : Iter} (hi : it.Inv) : Iter.Inv ⟨it.front, it.containers, none⟩ :=
  hi.setBack none (by simp)

/-- dropping the first middle chunk -/
theorem Inv.tailMid {f : Option CIter} {c : Container} {cs : List Container} {b : Option CIter}
    (hi : Iter.Inv ⟨f, c :: cs, b⟩) : Iter.Inv ⟨f, cs, b⟩ := by
  refine ⟨(List.pairwise_cons.mp hi.sorted).2, fun d hd => hi.cok d (List.mem_cons_of_mem _ hd), hi.fi, hi.bi,
    fun g hg d hd => hi.fr g hg d (List.mem_cons_of_mem _ hd),
    fun g hg d hd => hi.bk g hg d (List.mem_cons_of_mem _ hd), hi.fb⟩

/-- the first middle chunk becomes the front iterator (any iterator over it with the same key) -/
theorem Inv.promoteFront {c : Container} {cs : List Container} {b : Option CIter}
    (hi : Iter.Inv ⟨none, c :: cs, b⟩) (c' : CIter) (hc' : c'.Inv) (hk : c'.key = c.key) :
    Iter.Inv ⟨some c', cs, b⟩ := by
  have ht := hi.tailMid
  refine ⟨ht.sorted, ht.cok, ?_, ht.bi, ?_, ht.bk, ?_⟩
  · intro f hf; simp only [Option.some.injEq] at hf; subst hf; exact hc'
  · intro f hf d hd
    simp only [Option.some.injEq] at hf; subst hf
    rw [hk]
    exact (List.pairwise_cons.mp hi.sorted).1 d.key (List.mem_map_of_mem hd)
  · intro f g hf hg
    simp only [Option.some.injEq] at hf; subst hf
    rw [hk]
    exact hi.bk g hg c (List.mem_cons_self)

theorem nextLoop_spec (K : CKernel) (back : Option CIter) : ∀ cs, Iter.Inv ⟨none, cs, back⟩ →
    (nextLoop back cs).2 = (mid cs ++ orem back).head? ∧
    (nextLoop back cs).1.rem = (mid cs ++ orem back).tail ∧ (nextLoop back cs).1.Inv := by
  intro cs
  induction cs with
  | nil =>
    intro hi
    obtain ⟨h1, h2, _, h4⟩ := atoc_next K back hi.bi
    simp only [nextLoop, mid_nil, List.nil_append, rem_mk, orem_none]
    exact ⟨h1, h2, hi.setBack _ h4⟩
  | cons c cs ih =>
    intro hi
    obtain ⟨k1, k2, k3⟩ := K.ofContainer c (hi.cok c List.mem_cons_self)
    obtain ⟨h1, h2, h3, h4⟩ := atoc_next K (some (CIter.ofContainer c)) (by
      intro d hd; simp only [Option.some.injEq] at hd; subst hd; exact k1)
    rw [orem_some, k2] at h1 h2
    unfold nextLoop
    cases hr : andThenOrClear (some (CIter.ofContainer c)) CIter.next with
    | mk fr r =>
      rw [hr] at h1 h2 h3 h4
      simp only [] at h1 h2 h3 h4
      cases r with
      | some x =>
        simp only []
        have hne : c.elems ≠ [] := by intro h; rw [h] at h1; simp at h1
        rw [mid_cons, List.append_assoc, head?_append_of_ne_nil _ _ hne, tail_append_of_ne_nil' _ _ hne,
          rem_mk, h2, List.append_assoc]
        refine ⟨h1, rfl, ?_⟩
        cases fr with
        | none => exact hi.tailMid
        | some c' =>
          obtain ⟨i1, c0, i2, i3⟩ := h4 c' rfl
          simp only [Option.some.injEq] at i2; subst i2
          exact hi.promoteFront c' i1 i3
      | none =>
        simp only []
        have hnil : c.elems = [] := List.head?_eq_none_iff.mp h1.symm
        rw [mid_cons, hnil, List.nil_append]
        exact ih hi.tailMid

theorem next_spec (K : CKernel) (it : Iter) (hi : it.Inv) :
    it.next.2 = it.rem.head? ∧ it.next.1.rem = it.rem.tail ∧ it.next.1.Inv := by
  obtain ⟨h1, h2, h3, h4⟩ := atoc_next K it.front hi.fi
  unfold next
  cases hr : andThenOrClear it.front CIter.next with
  | mk fr r =>
    rw [hr] at h1 h2 h3 h4
    simp only [] at h1 h2 h3 h4
    cases r with
    | some x =>
      simp only []
      have hne : orem it.front ≠ [] := by intro h; rw [h] at h1; simp at h1
      unfold Iter.rem
      rw [List.append_assoc, head?_append_of_ne_nil _ _ hne, tail_append_of_ne_nil' _ _ hne]
      refine ⟨h1, ?_, hi.setFront fr h4⟩
      show orem fr ++ mid it.containers ++ orem it.back = _
      rw [h2, List.append_assoc]
    | none =>
      simp only []
      have hnil : orem it.front = [] := List.head?_eq_none_iff.mp h1.symm
      unfold Iter.rem
      rw [hnil, List.nil_append]
      exact nextLoop_spec K it.back it.containers hi.clearFront

/-- dropping the last middle chunk -/
theorem Inv.initMid {f : Option CIter} {c : Container} {cs : List Container} {b : Option CIter}
    (hi : Iter.Inv ⟨f, cs ++ [c], b⟩) : Iter.Inv ⟨f, cs, b⟩ := by
  have hs := hi.sorted
  simp only [List.map_append, List.pairwise_append] at hs
  refine ⟨hs.1, fun d hd => hi.cok d (List.mem_append_left _ hd), hi.fi, hi.bi,
    fun g hg d hd => hi.fr g hg d (List.mem_append_left _ hd),
    fun g hg d hd => hi.bk g hg d (List.mem_append_left _ hd), hi.fb⟩

/-- the last middle chunk becomes the back iterator -/
theorem Inv.promoteBack {f : Option CIter} {c : Container} {cs : List Container}
    (hi : Iter.Inv ⟨f, cs ++ [c], none⟩) (c' : CIter) (hc' : c'.Inv) (hk : c'.key = c.key) :
    Iter.Inv ⟨f, cs, some c'⟩ := by
  have ht := hi.initMid
  have hs := hi.sorted
  simp only [List.map_append, List.pairwise_append] at hs
  refine ⟨ht.sorted, ht.cok, ht.fi, ?_, ht.fr, ?_, ?_⟩
  · intro b hb; simp only [Option.some.injEq] at hb; subst hb; exact hc'
  · intro b hb d hd
    simp only [Option.some.injEq] at hb; subst hb
    rw [hk]
    exact hs.2.2 d.key (List.mem_map_of_mem hd) c.key (by simp)
  · intro g b hg hb
    simp only [Option.some.injEq] at hb; subst hb
    rw [hk]
    exact hi.fr g hg c (by simp)

theorem nextBackLoop_spec (K : CKernel) (front : Option CIter) : ∀ rcs, Iter.Inv ⟨front, rcs.reverse, none⟩ →
    (nextBackLoop front rcs).2 = (orem front ++ mid rcs.reverse).getLast? ∧
    (nextBackLoop front rcs).1.rem = (orem front ++ mid rcs.reverse).dropLast ∧ (nextBackLoop front rcs).1.Inv := by
  intro rcs
  induction rcs with
  | nil =>
    intro hi
    obtain ⟨h1, h2, _, h4⟩ := atoc_nextBack K front hi.fi
    simp only [nextBackLoop, List.reverse_nil, mid_nil, List.append_nil, rem_mk, orem_none]
    exact ⟨h1, h2, hi.setFront _ h4⟩
  | cons c rcs ih =>
    intro hi
    rw [List.reverse_cons] at hi ⊢
    obtain ⟨k1, k2, k3⟩ := K.ofContainer c (hi.cok c (by simp))
    obtain ⟨h1, h2, h3, h4⟩ := atoc_nextBack K (some (CIter.ofContainer c)) (by
      intro d hd; simp only [Option.some.injEq] at hd; subst hd; exact k1)
    rw [orem_some, k2] at h1 h2
    unfold nextBackLoop
    cases hr : andThenOrClear (some (CIter.ofContainer c)) CIter.nextBack with
    | mk bk r =>
      rw [hr] at h1 h2 h3 h4
      simp only [] at h1 h2 h3 h4
      rw [mid_append, mid_cons, mid_nil, List.append_nil, ← List.append_assoc]
      cases r with
      | some x =>
        simp only []
        have hne : c.elems ≠ [] := by intro h; rw [h] at h1; simp at h1
        rw [getLast?_append_of_ne_nil' _ _ hne, List.dropLast_append_of_ne_nil hne, rem_mk, h2]
        refine ⟨h1, rfl, ?_⟩
        cases bk with
        | none => exact hi.initMid
        | some c' =>
          obtain ⟨i1, c0, i2, i3⟩ := h4 c' rfl
          simp only [Option.some.injEq] at i2; subst i2
          exact hi.promoteBack c' i1 i3
      | none =>
        simp only []
        have hnil : c.elems = [] := List.getLast?_eq_none_iff.mp h1.symm
        rw [hnil, List.append_nil]
        exact ih hi.initMid

theorem nextBack_spec (K : CKernel) (it : Iter) (hi : it.Inv) :
    it.nextBack.2 = it.rem.getLast? ∧ it.nextBack.1.rem = it.rem.dropLast ∧ it.nextBack.1.Inv := by
  obtain ⟨h1, h2, h3, h4⟩ := atoc_nextBack K it.back hi.bi
  unfold nextBack
  cases hr : andThenOrClear it.back CIter.nextBack with
  | mk bk r =>
    rw [hr] at h1 h2 h3 h4
    simp only [] at h1 h2 h3 h4
    cases r with
    | some x =>
      simp only []
      have hne : orem it.back ≠ [] := by intro h; rw [h] at h1; simp at h1
      unfold Iter.rem
      rw [getLast?_append_of_ne_nil' _ _ hne, List.dropLast_append_of_ne_nil hne]
      refine ⟨h1, ?_, hi.setBack bk h4⟩
      show orem it.front ++ mid it.containers ++ orem bk = _
      rw [h2]
    | none =>
      simp only []
      have hnil : orem it.back = [] := List.getLast?_eq_none_iff.mp h1.symm
      unfold Iter.rem
      rw [hnil, List.append_nil]
      have := nextBackLoop_spec K it.front it.containers.reverse (by
        rw [List.reverse_reverse]; exact hi.clearBack)
      rw [List.reverse_reverse] at this
      exact this

/-! ### `nth` -/

theorem getElem?_append_skip (l r : List Nat) (n : Nat) (h : l.length ≤ n) :
    (l ++ r)[n]? = r[n - l.length]? ∧ (l ++ r).drop (n + 1) = r.drop (n - l.length + 1) := by
  refine ⟨List.getElem?_append_right h, ?_⟩
  rw [List.drop_append, List.drop_eq_nil_of_le (by omega), List.nil_append]
  congr 1; omega

theorem getElem?_append_stay (l r : List Nat) (n : Nat) (h : n < l.length) :
    (l ++ r)[n]? = l[n]? ∧ (l ++ r).drop (n + 1) = l.drop (n + 1) ++ r :=
  ⟨List.getElem?_append_left h, List.drop_append_of_le_length (by omega)⟩

theorem atoc_nth (K : CKernel) (o : Option CIter) (n : Nat) (ho : ∀ c, o = some c → c.Inv) :
    (andThenOrClear o (fun c => c.nth n)).2 = (orem o)[n]? ∧
    orem (andThenOrClear o (fun c => c.nth n)).1 = (orem o).drop (n + 1) ∧
    (∀ c', (andThenOrClear o (fun c => c.nth n)).1 = some c' → c'.Inv ∧ ∃ c, o = some c ∧ c'.key = c.key) := by
  cases o with
  | none => simp [andThenOrClear, orem]
  | some c =>
    obtain ⟨h1, h2, h3, h4⟩ := K.nth c n (ho c rfl)
    rw [atoc_some]
    cases hx : (c.nth n).2 with
    | none =>
      rw [hx] at h1
      have hlen : c.rem.length ≤ n := List.getElem?_eq_none_iff.mp h1.symm
      simp [orem, ← h1, List.drop_eq_nil_of_le (show c.rem.length ≤ n + 1 by omega)]
    | some x =>
      simp only [orem_some, ← h1, hx, h2, true_and]
      intro c' hc'
      simp only [Option.some.injEq] at hc'
      subst hc'
      exact ⟨h3, c, rfl, h4⟩

theorem nthLoop_spec (K : CKernel) (back : Option CIter) : ∀ cs n, Iter.Inv ⟨none, cs, back⟩ →
    (nthLoop back cs n).2 = (mid cs ++ orem back)[n]? ∧
    (nthLoop back cs n).1.rem = (mid cs ++ orem back).drop (n + 1) ∧ (nthLoop back cs n).1.Inv := by
  intro cs
  induction cs with
  | nil =>
    intro n hi
    obtain ⟨h1, h2, h4⟩ := atoc_nth K back n hi.bi
    simp only [nthLoop, mid_nil, List.nil_append, rem_mk, orem_none]
    exact ⟨h1, h2, hi.setBack _ h4⟩
  | cons c cs ih =>
    intro n hi
    obtain ⟨k1, k2, k3⟩ := K.ofContainer c (hi.cok c List.mem_cons_self)
    unfold nthLoop
    simp only [k3]
    rw [mid_cons, List.append_assoc]
    by_cases hn : n < c.elems.length
    · simp only [hn, ↓reduceIte]
      obtain ⟨h1, h2, h3, h4⟩ := K.nth (CIter.ofContainer c) n k1
      rw [k2] at h1 h2
      obtain ⟨e1, e2⟩ := getElem?_append_stay c.elems (mid cs ++ orem back) n hn
      rw [e1, e2, rem_mk, orem_some, h2, List.append_assoc]
      exact ⟨h1, rfl, hi.promoteFront _ h3 h4⟩
    · simp only [hn, ↓reduceIte]
      obtain ⟨e1, e2⟩ := getElem?_append_skip c.elems (mid cs ++ orem back) n (by omega)
      rw [e1, e2]
      exact ih _ hi.tailMid

theorem nth_spec (K : CKernel) (it : Iter) (hi : it.Inv) (n : Nat) :
    (it.nth n).2 = it.rem[n]? ∧ (it.nth n).1.rem = it.rem.drop (n + 1) ∧ (it.nth n).1.Inv := by
  unfold nth
  cases hf : it.front with
  | none =>
    simp only []
    have := nthLoop_spec K it.back it.containers n hi.clearFront
    unfold Iter.rem
    rw [hf, orem_none, List.nil_append]
    exact this
  | some f =>
    simp only []
    have hfi := hi.fi f hf
    rw [CIter.len_spec K f hfi]
    unfold Iter.rem
    rw [hf, orem_some, List.append_assoc]
    obtain ⟨h1, h2, h3, h4⟩ := K.nth f n hfi
    by_cases hn : n < f.rem.length
    · simp only [hn, ↓reduceIte]
      obtain ⟨e1, e2⟩ := getElem?_append_stay f.rem (mid it.containers ++ orem it.back) n hn
      rw [e1, e2]
      cases hr : f.nth n with
      | mk f' r =>
        rw [hr] at h1 h2 h3 h4
        simp only [] at h1 h2 h3 h4
        cases r with
        | some x =>
          simp only []
          refine ⟨h1, ?_, ?_⟩
          · show orem (some f') ++ mid it.containers ++ orem it.back = _
            rw [orem_some, h2, List.append_assoc]
          · exact hi.setFront (some f') (by
              intro c' hc'; simp only [Option.some.injEq] at hc'; subst hc'
              exact ⟨h3, f, hf, h4⟩)
        | none =>
          exfalso
          rw [List.getElem?_eq_getElem hn] at h1
          cases h1
    · simp only [hn, ↓reduceIte]
      obtain ⟨e1, e2⟩ := getElem?_append_skip f.rem (mid it.containers ++ orem it.back) n (by omega)
      rw [e1, e2]
      exact nthLoop_spec K it.back it.containers _ hi.clearFront

/-! ### `nth_back` -/

/-- the `n`-th element from the back / what is left in front of it -/
def backGet (l : List Nat) (n : Nat) : Option Nat := (l.take (l.length - n)).getLast?
def backDrop (l : List Nat) (n : Nat) : List Nat := (l.take (l.length - n)).dropLast

theorem back_stay (l r : List Nat) (n : Nat) (h : n < r.length) :
    backGet (l ++ r) n = backGet r n ∧ backDrop (l ++ r) n = l ++ backDrop r n := by
  unfold backGet backDrop
  have e : (l ++ r).take ((l ++ r).length - n) = l ++ r.take (r.length - n) := by
    rw [List.take_append, List.length_append, List.take_of_length_le (by omega)]
    congr 2; omega
  have hne : r.take (r.length - n) ≠ [] := by
    intro hc
    have := congrArg List.length hc
    simp only [List.length_take, List.length_nil] at this
    omega
  rw [e]
  exact ⟨getLast?_append_of_ne_nil' _ _ hne, List.dropLast_append_of_ne_nil hne⟩

theorem back_skip (l r : List Nat) (n : Nat) (h : r.length ≤ n) :
    backGet (l ++ r) n = backGet l (n - r.length) ∧ backDrop (l ++ r) n = backDrop l (n - r.length) := by
  unfold backGet backDrop
  have e : (l ++ r).take ((l ++ r).length - n) = l.take (l.length - (n - r.length)) := by
    rw [List.take_append, List.length_append]
    have : l.length + r.length - n - l.length = 0 := by omega
    rw [this, List.take_zero, List.append_nil]
    congr 1; omega
  rw [e]
  exact ⟨rfl, rfl⟩

theorem atoc_nthBack (K : CKernel) (o : Option CIter) (n : Nat) (ho : ∀ c, o = some c → c.Inv) :
    (andThenOrClear o (fun c => c.nthBack n)).2 = backGet (orem o) n ∧
    orem (andThenOrClear o (fun c => c.nthBack n)).1 = backDrop (orem o) n ∧
    (∀ c', (andThenOrClear o (fun c => c.nthBack n)).1 = some c' → c'.Inv ∧ ∃ c, o = some c ∧ c'.key = c.key) := by
  cases o with
  | none => simp [andThenOrClear, orem, backGet, backDrop]
  | some c =>
    obtain ⟨h1, h2, h3, h4⟩ := CIter.nthBack_spec K n c (ho c rfl)
    rw [atoc_some]
    cases hx : (c.nthBack n).2 with
    | none =>
      rw [hx] at h1
      have hnil : c.rem.take (c.rem.length - n) = [] := List.getLast?_eq_none_iff.mp h1.symm
      simp [orem, backGet, backDrop, hnil]
    | some x =>
      simp only [orem_some, backGet, backDrop, ← h1, hx, h2, true_and]
      intro c' hc'
      simp only [Option.some.injEq] at hc'
      subst hc'
      exact ⟨h3, c, rfl, h4⟩

theorem nthBackLoop_spec (K : CKernel) (front : Option CIter) : ∀ rcs n, Iter.Inv ⟨front, rcs.reverse, none⟩ →
    (nthBackLoop front rcs n).2 = backGet (orem front ++ mid rcs.reverse) n ∧
    (nthBackLoop front rcs n).1.rem = backDrop (orem front ++ mid rcs.reverse) n ∧
    (nthBackLoop front rcs n).1.Inv := by
  intro rcs
  induction rcs with
  | nil =>
    intro n hi
    obtain ⟨h1, h2, h4⟩ := atoc_nthBack K front n hi.fi
    simp only [nthBackLoop, List.reverse_nil, mid_nil, List.append_nil, rem_mk, orem_none]
    exact ⟨h1, h2, hi.setFront _ h4⟩
  | cons c rcs ih =>
    intro n hi
    rw [List.reverse_cons] at hi ⊢
    obtain ⟨k1, k2, k3⟩ := K.ofContainer c (hi.cok c (by simp))
    unfold nthBackLoop
    simp only [k3]
    rw [mid_append, mid_cons, mid_nil, List.append_nil, ← List.append_assoc]
    by_cases hn : n < c.elems.length
    · simp only [hn, ↓reduceIte]
      obtain ⟨h1, h2, h3, h4⟩ := CIter.nthBack_spec K n (CIter.ofContainer c) k1
      rw [k2] at h1 h2
      obtain ⟨e1, e2⟩ := back_stay (orem front ++ mid rcs.reverse) c.elems n hn
      rw [e1, e2, rem_mk, orem_some, h2]
      exact ⟨h1, rfl, hi.promoteBack _ h3 h4⟩
    · simp only [hn, ↓reduceIte]
      obtain ⟨e1, e2⟩ := back_skip (orem front ++ mid rcs.reverse) c.elems n (by omega)
      rw [e1, e2]
      exact ih _ hi.initMid

theorem nthBack_spec (K : CKernel) (it : Iter) (hi : it.Inv) (n : Nat) :
    (it.nthBack n).2 = backGet it.rem n ∧ (it.nthBack n).1.rem = backDrop it.rem n ∧ (it.nthBack n).1.Inv := by
  have hloop : ∀ m, (nthBackLoop it.front it.containers.reverse m).2 = backGet (orem it.front ++ mid it.containers) m ∧
      (nthBackLoop it.front it.containers.reverse m).1.rem = backDrop (orem it.front ++ mid it.containers) m ∧
      (nthBackLoop it.front it.containers.reverse m).1.Inv := by
    intro m
    have := nthBackLoop_spec K it.front it.containers.reverse m (by
      rw [List.reverse_reverse]; exact hi.clearBack)
    rw [List.reverse_reverse] at this
    exact this
  unfold nthBack
  cases hb : it.back with
  | none =>
    simp only []
    unfold Iter.rem
    rw [hb, orem_none, List.append_nil]
    exact hloop n
  | some b =>
    simp only []
    have hbi := hi.bi b hb
    rw [CIter.len_spec K b hbi]
    unfold Iter.rem
    rw [hb, orem_some]
    obtain ⟨h1, h2, h3, h4⟩ := CIter.nthBack_spec K n b hbi
    by_cases hn : n < b.rem.length
    · simp only [hn, ↓reduceIte]
      obtain ⟨e1, e2⟩ := back_stay (orem it.front ++ mid it.containers) b.rem n hn
      rw [e1, e2]
      cases hr : b.nthBack n with
      | mk b' r =>
        rw [hr] at h1 h2 h3 h4
        simp only [] at h1 h2 h3 h4
        cases r with
        | some x =>
          simp only []
          refine ⟨h1, ?_, ?_⟩
          · show orem it.front ++ mid it.containers ++ orem (some b') = _
            rw [orem_some, h2]; rfl
          · exact hi.setBack (some b') (by
              intro c' hc'; simp only [Option.some.injEq] at hc'; subst hc'
              exact ⟨h3, b, hb, h4⟩)
        | none =>
          exfalso
          have hnil : b.rem.take (b.rem.length - n) = [] := List.getLast?_eq_none_iff.mp h1.symm
          have := congrArg List.length hnil
          simp only [List.length_take, List.length_nil] at this
          omega
    · simp only [hn, ↓reduceIte]
      obtain ⟨e1, e2⟩ := back_skip (orem it.front ++ mid it.containers) b.rem n (by omega)
      rw [e1, e2]
      exact hloop _

/-! ### `advance_to` (iter.rs:38-93) -/

theorem mid_hi (K : CKernel) (cs : List Container) (hc : ∀ c ∈ cs, c.IterOK) (x : Nat) (h : x ∈ mid cs) :
    ∃ c ∈ cs, x / 65536 = c.key := by
  simp only [mid, List.mem_flatMap] at h
  obtain ⟨c, hc', hx⟩ := h
  obtain ⟨k1, k2, _⟩ := K.ofContainer c (hc c hc')
  rw [← k2] at hx
  exact ⟨c, hc', K.rem_hi _ k1 x hx⟩

theorem orem_hi (K : CKernel) (o : Option CIter) (ho : ∀ c, o = some c → c.Inv) (x : Nat) (h : x ∈ orem o) :
    ∃ c, o = some c ∧ x / 65536 = c.key := by
  cases o with
  | none => simp [orem] at h
  | some c => exact ⟨c, rfl, K.rem_hi c (ho c rfl) x h⟩

/-- splitting a key-sorted chunk list at the binary-search position -/
theorem split_at_search (cs : List Container) (key : Nat) (hs : SortedLt (cs.map (·.key))) :
    (∀ c ∈ cs.take (cs.takeWhile (fun c => decide (c.key < key))).length, c.key < key) ∧
    (∀ c ∈ cs.drop (cs.takeWhile (fun c => decide (c.key < key))).length, key ≤ c.key) := by
  induction cs with
  | nil => simp
  | cons c cs ih =>
    have hs' : SortedLt (cs.map (·.key)) := (List.pairwise_cons.mp hs).2
    by_cases h : c.key < key
    · simp only [List.takeWhile_cons, h, decide_true, ↓reduceIte, List.length_cons, List.take_succ_cons,
        List.mem_cons, List.drop_succ_cons]
      have := ih hs'
      refine ⟨?_, this.2⟩
      rintro d (rfl | hd)
      · exact h
      · exact this.1 d hd
    · simp only [List.takeWhile_cons, h, decide_false]
      refine ⟨by simp, ?_⟩
      intro d hd
      have hs2 : SortedLt (c.key :: cs.map (·.key)) := hs
      rcases List.mem_cons.mp hd with rfl | hd
      · omega
      · have := (List.pairwise_cons.mp hs2).1 d.key (List.mem_map_of_mem hd); omega

theorem mid_split (cs : List Container) (loc : Nat) : mid cs = mid (cs.take loc) ++ mid (cs.drop loc) := by
  rw [← mid_append, List.take_append_drop]

theorem advanceToRest_spec (K : CKernel) (it : Iter) (hi : it.Inv) (n : Nat) (hf : it.front = none) :
    (advanceToRest it (n / 65536) (n % 65536)).rem = it.rem.filter (fun x => decide (n ≤ x)) ∧
    (advanceToRest it (n / 65536) (n % 65536)).Inv := by
  have hidx : n % 65536 < 65536 := Nat.mod_lt _ (by omega)
  obtain ⟨hlt, hge⟩ := split_at_search it.containers (n / 65536) hi.sorted
  have hcok_take : ∀ k, ∀ c ∈ it.containers.take k, c.IterOK := fun k c hc => hi.cok c (List.mem_of_mem_take hc)
  have hcok_drop : ∀ k, ∀ c ∈ it.containers.drop k, c.IterOK := fun k c hc => hi.cok c (List.mem_of_mem_drop hc)
  -- the chunks before the search position are entirely below n
  have hdrop_pre : (mid (it.containers.take (it.containers.takeWhile (fun c => decide (c.key < n / 65536))).length)).filter
      (fun x => decide (n ≤ x)) = [] := by
    apply filterGE_drop
    intro x hx
    obtain ⟨c, hc, hxc⟩ := mid_hi K _ (hcok_take _) x hx
    have := hlt c hc; omega
  have hsorted_drop : ∀ k, SortedLt ((it.containers.drop k).map (·.key)) := by
    intro k; rw [List.map_drop]; exact List.Pairwise.sublist (List.drop_sublist _ _) hi.sorted
  have hback_hi : ∀ b, it.back = some b → ∀ x ∈ b.rem, x / 65536 = b.key :=
    fun b hb x hx => K.rem_hi b (hi.bi b hb) x hx
  unfold advanceToRest Bitmap.search
  simp only []
  generalize hloc : (it.containers.takeWhile (fun c => decide (c.key < n / 65536))).length = loc at *
  cases hget : it.containers[loc]? with
  | none =>
    -- every chunk is below the target key
    have hlen : it.containers.length ≤ loc := by simpa using hget
    have htake : it.containers.take loc = it.containers := List.take_of_length_le hlen
    have hloc_eq : loc = it.containers.length := by
      have : loc ≤ it.containers.length := by rw [← hloc]; exact (List.takeWhile_sublist _).length_le
      omega
    rw [htake] at hdrop_pre
    simp only [hloc_eq, ne_eq, not_true_eq_false, ↓reduceIte, List.drop_length]
    cases hb : it.back with
    | none =>
      simp only [Iter.rem, hf, hb, orem_none, mid_nil, List.append_nil, List.nil_append]
      exact ⟨hdrop_pre.symm, ⟨by simp [SortedLt], by simp, by simp, by simp, by simp, by simp, by simp⟩⟩
    | some b =>
      simp only []
      have hbi := hi.bi b hb
      by_cases c1 : n / 65536 < b.key
      · simp only [c1, ↓reduceIte, Iter.rem, hf, hb, orem_none, orem_some, mid_nil, List.nil_append,
          List.filter_append]
        rw [hdrop_pre]
        refine ⟨?_, ⟨by simp [SortedLt], by simp, by simp, ?_, by simp, by simp, by simp⟩⟩
        · simp only [List.nil_append]
          symm; apply filterGE_keep
          intro x hx; have := hback_hi b hb x hx; omega
        · intro b' hb'; simp only [Option.some.injEq] at hb'; subst hb'; exact hbi
      · simp only [c1, ↓reduceIte]
        obtain ⟨a1, a2, a3⟩ := K.advanceTo b (n % 65536) hbi hidx
        by_cases c2 : n / 65536 = b.key
        · simp only [c2, ↓reduceIte, Iter.rem, hf, hb, orem_none, orem_some, mid_nil, List.nil_append,
            List.filter_append]
          rw [hdrop_pre, a1]
          have : b.key * 65536 + n % 65536 = n := by omega
          rw [this]
          refine ⟨by simp, ⟨by simp [SortedLt], by simp, by simp, ?_, by simp, by simp, by simp⟩⟩
          intro b' hb'; simp only [Option.some.injEq] at hb'; subst hb'; exact a2
        · simp only [c2, ↓reduceIte, Iter.rem, hf, hb, orem_none, orem_some, mid_nil, List.nil_append,
            List.filter_append]
          rw [hdrop_pre]
          refine ⟨?_, ⟨by simp [SortedLt], by simp, by simp, by simp, by simp, by simp, by simp⟩⟩
          simp only [List.nil_append]
          symm; apply filterGE_drop
          intro x hx; have := hback_hi b hb x hx; omega
  | some c =>
    have hlen : loc < it.containers.length := by
      rcases Nat.lt_or_ge loc it.containers.length with h | h
      · exact h
      · rw [List.getElem?_eq_none h] at hget; cases hget
    have hcmem : c ∈ it.containers := List.mem_of_getElem? hget
    have hdropc : it.containers.drop loc = c :: it.containers.drop (loc + 1) := by
      rw [List.drop_eq_getElem_cons hlen]
      congr 1
      rw [List.getElem?_eq_getElem hlen] at hget; exact Option.some.inj hget
    have hcge : n / 65536 ≤ c.key := hge c (by rw [hdropc]; simp)
    have htail : ∀ d ∈ it.containers.drop (loc + 1), c.key < d.key := by
      intro d hd
      have := hsorted_drop loc
      rw [hdropc] at this
      exact (List.pairwise_cons.mp this).1 d.key (List.mem_map_of_mem hd)
    have hkeep_tail : (mid (it.containers.drop (loc + 1))).filter (fun x => decide (n ≤ x)) =
        mid (it.containers.drop (loc + 1)) := by
      apply filterGE_keep
      intro x hx
      obtain ⟨d, hd, hxd⟩ := mid_hi K _ (hcok_drop _) x hx
      have := htail d hd; omega
    have hb_keep : (orem it.back).filter (fun x => decide (n ≤ x)) = orem it.back := by
      apply filterGE_keep
      intro x hx
      obtain ⟨b, hb, hxb⟩ := orem_hi K it.back hi.bi x hx
      have h2 := hi.bk b hb c hcmem
      omega
    have hrem_split : it.rem = mid (it.containers.take loc) ++ (c.elems ++ mid (it.containers.drop (loc+1))) ++ orem it.back := by
      simp only [Iter.rem, hf, orem_none, List.nil_append]
      rw [mid_split it.containers loc, hdropc, mid_cons]
    obtain ⟨k1, k2, _⟩ := K.ofContainer c (hi.cok c hcmem)
    by_cases hk : c.key = n / 65536
    · -- Ok(loc): this chunk becomes the front iterator
      simp only [hk, beq_self_eq_true]
      simp only [hget]
      obtain ⟨a1, a2, a3⟩ := K.advanceTo (CIter.ofContainer c) (n % 65536) k1 hidx
      refine ⟨?_, ?_⟩
      · rw [hrem_split]
        simp only [Iter.rem, orem_some, List.filter_append]
        rw [hdrop_pre, hkeep_tail, hb_keep, a1, k2]
        have : (CIter.ofContainer c).key * 65536 + n % 65536 = n := by
          show c.key * 65536 + n % 65536 = n
          omega
        rw [this]; simp
      · refine ⟨hsorted_drop _, hcok_drop _, ?_, hi.bi, ?_, ?_, ?_⟩
        · intro f hf'; simp only [Option.some.injEq] at hf'; subst hf'; exact a2
        · intro f hf' d hd
          simp only [Option.some.injEq] at hf'
          subst hf'
          rw [a3]; exact htail d hd
        · intro b hb d hd
          exact hi.bk b hb d (List.mem_of_mem_drop hd)
        · intro f b hf' hb
          simp only [Option.some.injEq] at hf'
          subst hf'
          rw [a3]
          exact hi.bk b hb c hcmem
    · -- Err(loc) with chunks of larger keys still ahead: nothing more to trim
      have hk' : n / 65536 < c.key := by omega
      have hne : (c.key == n / 65536) = false := by simp [hk]
      have hlne : loc ≠ it.containers.length := by omega
      simp only [hne, hlne, ne_eq, not_false_eq_true, ↓reduceIte]
      refine ⟨?_, ?_⟩
      · simp only [Iter.rem, hf, orem_none, List.nil_append]
        rw [mid_split it.containers loc]
        simp only [List.filter_append]
        rw [hdrop_pre, hb_keep]
        have h1 : (mid (it.containers.drop loc)).filter (fun x => decide (n ≤ x)) = mid (it.containers.drop loc) := by
          apply filterGE_keep
          intro x hx
          obtain ⟨d, hd, hxd⟩ := mid_hi K _ (hcok_drop _) x hx
          have : c.key ≤ d.key := by
            rw [hdropc] at hd
            rcases List.mem_cons.mp hd with rfl | hd
            · omega
            · have := htail d hd; omega
          omega
        rw [h1]; simp
      · refine ⟨hsorted_drop _, hcok_drop _, by simp [hf], hi.bi, by simp [hf], ?_, by simp [hf]⟩
        intro b hb d hd
        exact hi.bk b hb d (List.mem_of_mem_drop hd)

theorem advanceTo_spec (K : CKernel) (it : Iter) (hi : it.Inv) (n : Nat) :
    (it.advanceTo n).rem = it.rem.filter (fun x => decide (n ≤ x)) ∧ (it.advanceTo n).Inv := by
  have hidx : n % 65536 < 65536 := Nat.mod_lt _ (by omega)
  unfold advanceTo Bitmap.hi16 Bitmap.lo16
  simp only []
  cases hf : it.front with
  | none => exact advanceToRest_spec K it hi n hf
  | some f =>
    simp only []
    have hfi := hi.fi f hf
    -- everything after the front iterator has a larger high part than the front iterator
    have hrest : ∀ x ∈ mid it.containers ++ orem it.back, f.key < x / 65536 := by
      intro x hx
      rcases List.mem_append.mp hx with hx | hx
      · obtain ⟨c, hc, hxc⟩ := mid_hi K _ hi.cok x hx
        have := hi.fr f hf c hc; omega
      · obtain ⟨b, hb, hxb⟩ := orem_hi K it.back hi.bi x hx
        have := hi.fb f b hf hb; omega
    have hsplit : it.rem = f.rem ++ (mid it.containers ++ orem it.back) := by
      simp [Iter.rem, hf, orem_some, List.append_assoc]
    by_cases c1 : n / 65536 < f.key
    · simp only [c1, ↓reduceIte]
      refine ⟨?_, hi⟩
      symm; apply filterGE_keep
      intro x hx
      rw [hsplit] at hx
      rcases List.mem_append.mp hx with hx | hx
      · have := K.rem_hi f hfi x hx; omega
      · have := hrest x hx; omega
    · simp only [c1, ↓reduceIte]
      by_cases c2 : n / 65536 = f.key
      · simp only [c2, ↓reduceIte]
        obtain ⟨a1, a2, a3⟩ := K.advanceTo f (n % 65536) hfi hidx
        refine ⟨?_, ?_⟩
        · rw [hsplit]
          simp only [Iter.rem, orem_some, List.filter_append, List.append_assoc]
          rw [a1]
          have : f.key * 65536 + n % 65536 = n := by omega
          rw [this]
          congr 1
          rw [← List.filter_append]
          symm; apply filterGE_keep
          intro x hx; have := hrest x hx; omega
        · exact hi.setFront (some (f.advanceTo (n % 65536))) (by
            intro c' hc'; simp only [Option.some.injEq] at hc'; subst hc'
            exact ⟨a2, f, hf, a3⟩)
      · simp only [c2, ↓reduceIte]
        have hinv' : Iter.Inv { it with front := none } := hi.clearFront
        have := advanceToRest_spec K { it with front := none } hinv' n rfl
        refine ⟨?_, this.2⟩
        rw [this.1, hsplit]
        simp only [Iter.rem, orem_none, List.nil_append, List.filter_append]
        rw [filterGE_drop f.rem n (by intro x hx; have := K.rem_hi f hfi x hx; omega)]
        simp

end Iter
end Roaring
