import RoaringModel.Lemmas.MultiTop
import RoaringModel.Props.C02
/-!
# C09: the hypothesis structure `Multi.Kernel` holds

`Multi.Kernel` (`Lemmas/MultiKernel.lean`) bundles the facts about code that multiops.rs merely calls.  Here it
is discharged — `Multi.kernel : Kernel` — from

* the core library (`Lemmas/StoreFacts.lean`: `Store.sorted_elems`, `Store.elems_lt`, `Store.isEmpty_spec`,
  `Container.ensureCorrectStore_spec`, `Store.wf_of_canon`; `BStore.arrToBitmap_spec`),
* the algebra family's store-level theorems (`Store.orAssignOwned_spec` … `Store.xorAssignRef_spec`,
  `Lemmas/StoreOps.lean`, instantiated with `bKernel`), and
* the whole-bitmap theorems of C02 (`C02_and_ao`, `C02_and_ar`, `C02_sub_ar`), after showing that the local
  duplicates `Multi.andAssignOwned / andAssignRef / subAssignRef` of `MultiOps.lean` *are* the functions
  `Bitmap.andAO / andAR / subAR` of `Ops.lean` (`andAssignOwned_eq`, `andAssignRef_eq`, `subAssignRef_eq`).

The family's local invariants coincide with the shared ones of `Inv.lean`: `storeValid_iff`, `storeWF_iff`,
`wf_iff : Multi.WF b ↔ Bitmap.WF b`.
-/
namespace Roaring.Multi
open Roaring

/-! ## the local invariants are the shared ones -/

theorem storeValid_iff (s : Store) : StoreValid s ↔ s.Inv := by
  cases s with
  | array v => exact Iff.rfl
  | bitmap b =>
    show (b.bits.length = 1024 ∧ (∀ w ∈ b.bits, w < W) ∧ b.len = BStore.popSum b.bits) ↔ b.Inv
    constructor
    · rintro ⟨h1, h2, h3⟩; exact ⟨h1, fun w hw => by have := h2 w hw; rwa [Mask.W_eq] at this, h3⟩
    · rintro ⟨h1, h2, h3⟩; exact ⟨h1, fun w hw => by rw [Mask.W_eq]; exact h2 w hw, h3⟩

theorem storeWF_iff (s : Store) : StoreWF s ↔ s.WF := by
  unfold StoreWF
  rw [storeValid_iff]
  cases s with
  | array v => exact Iff.rfl
  | bitmap b => exact Iff.rfl

/-- the multi family's well-formedness is `Bitmap.WF` of `Inv.lean` -/
theorem wf_iff (b : Bitmap) : WF b ↔ Bitmap.WF b := by
  unfold WF Bitmap.WF Container.WF
  constructor
  · rintro ⟨h1, h2⟩; exact ⟨h1, fun c hc => ⟨(h2 c hc).1, (storeWF_iff _).1 (h2 c hc).2⟩⟩
  · rintro ⟨h1, h2⟩; exact ⟨h1, fun c hc => ⟨(h2 c hc).1, (storeWF_iff _).2 (h2 c hc).2⟩⟩

theorem wf_of_all {l : List Bitmap} (h : ∀ b ∈ l, Bitmap.WF b) : ∀ b ∈ l, WF b :=
  fun b hb => (wf_iff b).2 (h b hb)

/-! ## the local duplicates of the three whole-bitmap operators are the ones of `Ops.lean` -/

theorem andAssignRef_eq : andAssignRef = Bitmap.andAR := rfl

theorem subAssignRef_eq : subAssignRef = Bitmap.subAR := rfl

theorem subAssignOwned_eq : subAssignOwned = Bitmap.subAO := rfl

/-- the `foldl` over `(kept-so-far reversed, rhs)` of `MultiOps.lean` is the recursion `andAOLoop` of `Ops.lean` -/
theorem andAssignOwned_loop (s : List Container) : ∀ (acc r : List Container),
    (s.foldl (fun (st : List Container × List Container) cont =>
      match Bitmap.search st.2 cont.key with
      | (true, loc) =>
        match st.2[loc]? with
        | some rc =>
          let rhs' := st.2.set loc (Container.new rc.key)
          let c := cont.andAssignOwned rc
          if !c.isEmpty then (c :: st.1, rhs') else (st.1, rhs')
        | none => st
      | (false, _) => st) (acc, r)).1.reverse = acc.reverse ++ Bitmap.andAOLoop s r := by
  induction s with
  | nil => intro acc r; simp [Bitmap.andAOLoop]
  | cons cont cs ih =>
    intro acc r
    rw [List.foldl_cons]
    unfold Bitmap.andAOLoop
    rcases hs : Bitmap.search r cont.key with ⟨f, loc⟩
    cases f
    · simp only; exact ih acc r
    · simp only
      cases hl : r[loc]? with
      | none => simp only []; exact ih acc r
      | some rc =>
        simp only []
        by_cases he : (cont.andAssignOwned rc).isEmpty = true
        · simp only [he, Bool.not_true, Bool.false_eq_true, if_false]; exact ih _ _
        · have he' : (cont.andAssignOwned rc).isEmpty = false := by simpa using he
          simp only [he', Bool.not_false, if_true]
          rw [ih]; simp

theorem andAssignOwned_eq (a b : Bitmap) : andAssignOwned a b = Bitmap.andAO a b := by
  unfold andAssignOwned Bitmap.andAO
  refine (andAssignOwned_loop _ [] _).trans ?_
  by_cases h : b.length < a.length <;> simp [h]

/-! ## the kernel -/

theorem opLaw_of_opSpec {P Q : Prop → Prop → Prop} {op : Store → Store → Store} (h : Store.OpSpec Q op)
    (hPQ : ∀ p q, Q p q ↔ P p q) : OpLaw P op := by
  intro a b ha hb
  have := h a b ((storeValid_iff a).1 ha) ((storeValid_iff b).1 hb)
  exact ⟨(storeValid_iff _).2 this.1, fun i => (this.2 i).trans (hPQ _ _)⟩

theorem por_iff (p q : Prop) : Store.POr p q ↔ POr p q := Iff.rfl

theorem pxor_iff (p q : Prop) : Store.PXor p q ↔ PXor p q := by
  unfold Store.PXor
  show _ ↔ ¬ (p ↔ q)
  by_cases hp : p <;> by_cases hq : q <;> simp [hp, hq]

/-- **`Multi.Kernel` holds.** -/
theorem kernel : Kernel where
  elems_sorted := fun s hs => Store.sorted_elems s ((storeValid_iff s).1 hs)
  elems_lt := fun s hs => Store.elems_lt s ((storeValid_iff s).1 hs)
  isEmpty_iff := fun s hs => by
    rw [Store.isEmpty_spec s ((storeValid_iff s).1 hs), List.isEmpty_iff]
  toBitmap := fun s hs => by
    cases s with
    | array v =>
      have h := BStore.arrToBitmap_spec v hs
      refine ⟨(storeValid_iff _).2 h.1, fun i => ?_⟩
      show i ∈ (Store.arrToBitmap v).toArray ↔ i ∈ v
      rw [h.2]
    | bitmap b => exact ⟨hs, fun i => Iff.rfl⟩
  orOwned := opLaw_of_opSpec (Store.orAssignOwned_spec bKernel) por_iff
  orRef := opLaw_of_opSpec (Store.orAssignRef_spec bKernel) por_iff
  xorOwned := opLaw_of_opSpec (Store.xorAssignOwned_spec bKernel) pxor_iff
  xorRef := opLaw_of_opSpec (Store.xorAssignRef_spec bKernel) pxor_iff
  ensure := fun c hc hne => by
    have hi := (storeValid_iff _).1 hc
    obtain ⟨h1, h2, _⟩ := Container.ensureCorrectStore_spec c hi
    refine ⟨(storeWF_iff _).2 (Store.wf_of_canon _ h1 ?_), fun i => by rw [h2]⟩
    rw [h2]
    intro hnil
    have : c.isEmpty = true := by
      show c.store.isEmpty = true
      rw [Store.isEmpty_spec _ hi, hnil]; rfl
    rw [this] at hne; exact Bool.noConfusion hne
  andOwned := fun a b ha hb => by
    have := C02.C02_and_ao a b ((wf_iff a).1 ha) ((wf_iff b).1 hb)
    rw [andAssignOwned_eq]
    exact ⟨(wf_iff _).2 this.1, this.2⟩
  andRef := fun a b ha hb => by
    have := C02.C02_and_ar a b ((wf_iff a).1 ha) ((wf_iff b).1 hb)
    rw [andAssignRef_eq]
    exact ⟨(wf_iff _).2 this.1, this.2⟩
  subRef := fun a b ha hb => by
    have := C02.C02_sub_ar a b ((wf_iff a).1 ha) ((wf_iff b).1 hb)
    rw [subAssignRef_eq]
    exact ⟨(wf_iff _).2 this.1, this.2⟩

end Roaring.Multi
