import RoaringModel.Lemmas.CodecWF
import RoaringModel.Lemmas.Parser
/-!
# Decoding what `serialize` wrote gives the value back (C05_decode)
-/
namespace Roaring
open Parser

theorem readN_append (xs ys : List Nat) (n : Nat) (h : xs.length = n) : readN n (xs ++ ys) = .ok (xs, ys) := by
  subst h
  unfold readN
  simp

theorem bind_ok {σ α β : Type} (p : Parser σ α) (f : α → Parser σ β) (s s' : σ) (a : α)
    (h : p s = .ok (a, s')) : (p >>= f) s = f a s' := by
  simp only [bind, Parser.bind, h]

/-! ### `leWords` inverts the little-endian encoders -/

theorem leWordsN_flatMap (n : Nat) (enc : Nat → List Nat) (hlen : ∀ x, (enc x).length = n) :
    ∀ (v : List Nat) (rest : List Nat), (∀ x ∈ v, leVal (enc x) = x) →
      leWordsN n v.length (v.flatMap enc ++ rest) = v
  | [], _, _ => rfl
  | x :: xs, rest, h => by
    simp only [List.length_cons, leWordsN, List.flatMap_cons, List.append_assoc]
    rw [List.take_append_of_le_length (by rw [hlen]; exact Nat.le_refl _), List.take_of_length_le (by rw [hlen]; exact Nat.le_refl _)]
    rw [h x (List.mem_cons_self)]
    congr 1
    rw [List.drop_append_of_le_length (by rw [hlen]; exact Nat.le_refl _), List.drop_of_length_le (by rw [hlen]; exact Nat.le_refl _)]
    simp only [List.nil_append]
    exact leWordsN_flatMap n enc hlen xs rest (fun y hy => h y (List.mem_cons_of_mem _ hy))

theorem leWords_flatMap_u16le (v : List Nat) (h : ∀ x ∈ v, x < 65536) : leWords 2 (v.flatMap u16le) = v := by
  unfold leWords
  rw [flatMap_u16le_length, Nat.mul_div_cancel _ (by decide : 0 < 2)]
  have := leWordsN_flatMap 2 u16le u16le_length v [] (fun x hx => leVal_u16le x (h x hx))
  simpa using this

theorem leWords_flatMap_u64le (v : List Nat) (h : ∀ x ∈ v, x < W) : leWords 8 (v.flatMap u64le) = v := by
  unfold leWords
  rw [flatMap_u64le_length, Nat.mul_div_cancel _ (by decide : 0 < 8)]
  have := leWordsN_flatMap 8 u64le u64le_length v [] (fun x hx => leVal_u64le x (h x hx))
  simpa using this

/-! ### cached cardinalities are at most 65536 -/

theorem popcount_le : ∀ (k w : Nat), w < 2 ^ k → popcount w ≤ k
  | 0, w, h => by
    have : w = 0 := by simpa using h
    subst this; simp [popcount_zero]
  | k+1, w, h => by
    rw [popcount_step]
    have : w / 2 < 2 ^ k := by rw [Nat.pow_succ] at h; omega
    have := popcount_le k (w / 2) this
    omega

theorem popSum_le (bits : List Nat) (h : ∀ w ∈ bits, w < W) : BStore.popSum bits ≤ 64 * bits.length := by
  unfold BStore.popSum
  rw [foldl_add_eq]
  induction bits with
  | nil => simp
  | cons w ws ih =>
    have h1 := popcount_le 64 w (by have := h w (List.mem_cons_self); simpa [W] using this)
    have h2 := ih (fun x hx => h x (List.mem_cons_of_mem _ hx))
    simp only [List.map_cons, List.sum_cons, List.length_cons] at h2 ⊢
    omega

theorem StoreWF.len_bounds {s : Store} (h : StoreWF s) : 1 ≤ s.len ∧ s.len ≤ 65536 := by
  cases s with
  | array v => obtain ⟨_, _, h3, h4⟩ := h; simp only [Store.len]; omega
  | bitmap b =>
    obtain ⟨h1, h2, h3, h4⟩ := h
    have := popSum_le b.bits h2
    simp only [Store.len]; omega

end Roaring
