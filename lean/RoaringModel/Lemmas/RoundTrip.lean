import RoaringModel.Lemmas.CodecWF
import RoaringModel.Lemmas.Parser
/-!
# Decoding what `serialize` wrote gives the value back (C05_decode)
-/
namespace Roaring
open Parser

theorem readN_append (xs ys : List Nat) (n : Nat) (h : xs.length = n) : readN n (xs ++ ys) = .ok (xs, ys) := by
  subst h
  unfold readN
  simp

theorem bind_ok {σ α β : Type} (p : Parser σ α) (f : α → Parser σ β) (s s' : σ) (a : α)
    (h : p s = .ok (a, s')) : (p >>= f) s = f a s' := by
  simp only [bind, Parser.bind, h]

/-! ### `leWords` inverts the little-endian encoders -/

theorem leWordsN_flatMap (n : Nat) (enc : Nat → List Nat) (hlen : ∀ x, (enc x).length = n) :
    ∀ (v : List Nat) (rest : List Nat), (∀ x ∈ v, leVal (enc x) = x) →
      leWordsN n v.length (v.flatMap enc ++ rest) = v
  | [], _, _ => rfl
  | x :: xs, rest, h => by
    simp only [List.length_cons, leWordsN, List.flatMap_cons, List.append_assoc]
    rw [List.take_append_of_le_length (by rw [hlen]; exact Nat.le_refl _), List.take_of_length_le (by rw [hlen]; exact Nat.le_refl _)]
    rw [h x (List.mem_cons_self)]
    congr 1
    rw [List.drop_append_of_le_length (by rw [hlen]; exact Nat.le_refl _), List.drop_of_length_le (by rw [hlen]; exact Nat.le_refl _)]
    simp only [List.nil_append]
    exact leWordsN_flatMap n enc hlen xs rest (fun y hy => h y (List.mem_cons_of_mem _ hy))

theorem leWords_flatMap_u16le (v : List Nat) (h : ∀ x ∈ v, x < 65536) : leWords 2 (v.flatMap u16le) = v := by
  unfold leWords
  rw [flatMap_u16le_length, Nat.mul_div_cancel _ (by decide : 0 < 2)]
  have := leWordsN_flatMap 2 u16le u16le_length v [] (fun x hx => leVal_u16le x (h x hx))
  simpa using this

theorem leWords_flatMap_u64le (v : List Nat) (h : ∀ x ∈ v, x < W) : leWords 8 (v.flatMap u64le) = v := by
  unfold leWords
  rw [flatMap_u64le_length, Nat.mul_div_cancel _ (by decide : 0 < 8)]
  have := leWordsN_flatMap 8 u64le u64le_length v [] (fun x hx => leVal_u64le x (h x hx))
  simpa using this

/-! ### cached cardinalities are at most 65536 -/

theorem popcount_le : ∀ (k w : Nat), w < 2 ^ k → popcount w ≤ k
  | 0, w, h => by
    have : w = 0 := by simpa using h
    subst this; simp [popcount_zero]
  | k+1, w, h => by
    rw [popcount_step]
    have : w / 2 < 2 ^ k := by rw [Nat.pow_succ] at h; omega
    have := popcount_le k (w / 2) this
    omega

theorem popSum_le (bits : List Nat) (h : ∀ w ∈ bits, w < W) : BStore.popSum bits ≤ 64 * bits.length := by
  unfold BStore.popSum
  rw [foldl_add_eq]
  induction bits with
  | nil => simp
  | cons w ws ih =>
    have h1 := popcount_le 64 w (by have := h w (List.mem_cons_self); simpa [W] using this)
    have h2 := ih (fun x hx => h x (List.mem_cons_of_mem _ hx))
    simp only [List.map_cons, List.sum_cons, List.length_cons] at h2 ⊢
    omega

theorem StoreWF.len_bounds {s : Store} (h : StoreWF s) : 1 ≤ s.len ∧ s.len ≤ 65536 := by
  cases s with
  | array v => obtain ⟨_, _, h3, h4⟩ := h; simp only [Store.len]; omega
  | bitmap b =>
    obtain ⟨h1, h2, h3, h4⟩ := h
    have := popSum_le b.bits h2
    simp only [Store.len]; omega

/-! ### one container -/

/-- payload bytes of one container (the summand of `payloadBytes`) -/
def payloadOf (c : Container) : List Nat := match c.store with
  | .array v => v.flatMap u16le
  | .bitmap bs => bs.bits.flatMap u64le

theorem payloadBytes_cons (c : Container) (cs : Bitmap) :
    Bitmap.payloadBytes (c :: cs) = payloadOf c ++ Bitmap.payloadBytes cs := by
  simp only [Bitmap.payloadBytes, List.flatMap_cons, payloadOf]
  congr 1

theorem card_roundtrip {s : Store} (h : StoreWF s) : (s.len - 1) % 65536 + 1 = s.len := by
  have := h.len_bounds; omega

theorem decodeStore_payload (chk dbg : Bool) (c : Container) (h : StoreWF c.store) (rest : List Nat) :
    decodeStore readN chk dbg ((c.len - 1) % 65536 + 1) false (payloadOf c ++ rest) = .ok (c.store, rest) := by
  have hcard : (c.len - 1) % 65536 + 1 = c.store.len := card_roundtrip h
  rw [hcard]
  unfold decodeStore
  simp only [Bool.false_eq_true, ↓reduceIte]
  cases hs : c.store with
  | array v =>
    rw [hs] at h
    obtain ⟨h1, h2, h3, h4⟩ := h
    have hle : (Store.array v).len ≤ ARRAY_LIMIT := by simp only [Store.len, ARRAY_LIMIT]; exact h4
    rw [if_pos hle]
    unfold decodeArrayStore
    have hp : payloadOf c = v.flatMap u16le := by unfold payloadOf; rw [hs]
    rw [hp, bind_ok _ _ _ _ _ (readN_append _ rest _ (by simp only [Store.len]; exact flatMap_u16le_length v))]
    simp only [leWords_flatMap_u16le v h2]
    have hsorted : Arr.isStrictlySorted v = true := (isStrictlySorted_iff v).mpr h1
    cases chk with
    | true => simp [hsorted, pure, Parser.pure]
    | false =>
      simp only [Bool.false_eq_true, ↓reduceIte, Arr.fromVecUnchecked, hsorted]
      cases dbg <;> simp [ofOption, Parser.pure]
  | bitmap b =>
    rw [hs] at h
    obtain ⟨h1, h2, h3, h4⟩ := h
    have hgt : ¬ (Store.bitmap b).len ≤ ARRAY_LIMIT := by simp only [Store.len, ARRAY_LIMIT]; omega
    rw [if_neg hgt]
    unfold decodeBitmapStore
    have hp : payloadOf c = b.bits.flatMap u64le := by unfold payloadOf; rw [hs]
    rw [hp, bind_ok _ _ _ _ _ (readN_append _ rest _ (by rw [flatMap_u64le_length, h1]))]
    simp only [leWords_flatMap_u64le b.bits h2]
    have htf : BStore.tryFrom (Store.bitmap b).len b.bits = some b := by
      simp only [BStore.tryFrom, Store.len, h3, bne_self_eq_false, Bool.false_eq_true, ↓reduceIte]
      rw [← h3]
    cases chk with
    | true => simp [htf, ofOption, Parser.pure]
    | false =>
      simp only [Bool.false_eq_true, ↓reduceIte, BStore.fromUnchecked, htf]
      cases dbg
      · simp [ofOption, Parser.pure, Store.len]
      · simp [ofOption, Parser.pure]

/-! ### all containers -/

def descrOf (b : Bitmap) : List (Nat × Nat) := b.map fun c => (c.key, (c.len - 1) % 65536)

theorem decodeContainers_payload (chk dbg : Bool) : ∀ (b : Bitmap) (i : Nat) (rest : List Nat),
    (∀ c ∈ b, StoreWF c.store) →
    decodeContainers readN chk dbg none (descrOf b) i (Bitmap.payloadBytes b ++ rest) = .ok (b, rest)
  | [], i, rest, _ => by
    simp [descrOf, decodeContainers, Bitmap.payloadBytes, pure, Parser.pure]
  | c :: cs, i, rest, h => by
    have hc := h c (List.mem_cons_self)
    have ih := decodeContainers_payload chk dbg cs (i + 1) rest (fun d hd => h d (List.mem_cons_of_mem _ hd))
    simp only [descrOf, List.map_cons, decodeContainers]
    rw [payloadBytes_cons, List.append_assoc]
    have h1 := decodeStore_payload chk dbg c hc (Bitmap.payloadBytes cs ++ rest)
    have hrun : isRunAt none i = false := rfl
    rw [hrun, bind_ok _ _ _ _ _ h1]
    simp only [descrOf] at ih
    rw [bind_ok _ _ _ _ _ ih]
    simp [pure, Parser.pure]

/-! ### the header -/

theorem pairs_flatMap {α : Type} (f g : α → Nat) : ∀ l : List α,
    pairs (l.flatMap fun c => [f c, g c]) = l.map fun c => (f c, g c)
  | [] => rfl
  | x :: xs => by simp [pairs, pairs_flatMap f g xs]

theorem descrBytes_eq (b : Bitmap) :
    Bitmap.descrBytes b = (b.flatMap fun c => [c.key, (c.len - 1) % 65536]).flatMap u16le := by
  unfold Bitmap.descrBytes
  induction b with
  | nil => rfl
  | cons c cs ih => simp only [List.flatMap_cons, List.flatMap_append, ih]; simp

theorem pairs_leWords_descrBytes (b : Bitmap) (hk : ∀ c ∈ b, c.key < 65536) :
    pairs (leWords 2 (Bitmap.descrBytes b)) = descrOf b := by
  rw [descrBytes_eq, leWords_flatMap_u16le, pairs_flatMap]
  · rfl
  · intro x hx
    simp only [List.mem_flatMap, List.mem_cons, List.not_mem_nil, or_false] at hx
    obtain ⟨c, hc, rfl | rfl⟩ := hx
    · exact hk c hc
    · omega

/-- strictly ascending naturals below `n` are at most `n` many -/
theorem pairwise_lt_length : ∀ (l : List Nat) (lo n : Nat), l.Pairwise (· < ·) → (∀ x ∈ l, lo ≤ x ∧ x < n) →
    l.length ≤ n - lo
  | [], _, _, _, _ => by simp
  | x :: xs, lo, n, hp, hb => by
    have hx := hb x (List.mem_cons_self)
    have hp' := List.pairwise_cons.mp hp
    have := pairwise_lt_length xs (x + 1) n hp'.2 (fun y hy =>
      ⟨hp'.1 y hy, (hb y (List.mem_cons_of_mem _ hy)).2⟩)
    simp only [List.length_cons]; omega

theorem BitmapWF.length_le {b : Bitmap} (h : BitmapWF b) : b.length ≤ 65536 := by
  have := pairwise_lt_length (b.map (·.key)) 0 65536 h.1 (by
    intro x hx
    obtain ⟨c, hc, rfl⟩ := List.mem_map.mp hx
    exact ⟨Nat.zero_le _, (h.2 c hc).1⟩)
  simpa using this

theorem decodeHeader_serialize (b : Bitmap) (h : BitmapWF b) (rest : List Nat) :
    decodeHeader readN (Bitmap.serialize b ++ rest) =
      .ok ({ size := b.length, hasOffsets := true, runBitmap := none, descr := descrOf b,
             offsets := leWords 4 (Bitmap.offsetBytes b (8 + 8 * b.length)) },
           Bitmap.payloadBytes b ++ rest) := by
  have hlen := h.length_le
  unfold decodeHeader Bitmap.serialize
  simp only [List.append_assoc]
  rw [bind_ok _ _ _ _ _ (readN_append _ _ 4 (u32le_length _))]
  have hc : leVal (u32le 12346) = 12346 := by decide
  simp only [hc, ↓reduceIte]
  rw [bind_ok _ _ _ _ _ (bind_ok _ _ _ _ _ (readN_append _ _ 4 (u32le_length _)))]
  have hn : leVal (u32le (b.length % 4294967296)) = b.length := by
    rw [leVal_u32le _ (Nat.mod_lt _ (by decide))]; omega
  simp only [hn, pure, Parser.pure, Bool.false_eq_true, ↓reduceIte]
  rw [bind_ok _ _ _ _ _ (rfl : Parser.pure (none : Option (List Nat)) _ = .ok (none, _))]
  have hsz : ¬ b.length > 65536 := by omega
  simp only [hsz, ↓reduceIte]
  rw [bind_ok _ _ _ _ _ (readN_append _ _ _ (by rw [descrBytes_length]; omega))]
  rw [bind_ok _ _ _ _ _ (readN_append _ _ _ (by rw [offsetBytes_length]; omega))]
  rw [pairs_leWords_descrBytes b (fun c hc => (h.2 c hc).1)]
  rfl

/-! ### the whole stream -/

theorem storeWF_not_empty {s : Store} (h : StoreWF s) : s.isEmpty = false := by
  cases s with
  | array v =>
    obtain ⟨_, _, h3, _⟩ := h
    cases v with
    | nil => simp at h3
    | cons => rfl
  | bitmap b =>
    obtain ⟨_, _, _, h4⟩ := h
    simp only [Store.isEmpty, beq_eq_false_iff_ne, ne_eq]; omega

/-- decoding (either decoder, either build configuration) what `serialize` wrote, followed by anything,
    returns the value and leaves exactly what followed -/
theorem deserialize_serialize (chk dbg : Bool) (b : Bitmap) (h : BitmapWF b) (rest : List Nat) :
    deserialize chk dbg (Bitmap.serialize b ++ rest) = .ok (b, rest) := by
  unfold deserialize deserializeG
  rw [bind_ok _ _ _ _ _ (decodeHeader_serialize b h rest)]
  simp only
  rw [bind_ok _ _ _ _ _ (decodeContainers_payload chk dbg b 0 rest (fun c hc => (h.2 c hc).2))]
  cases chk with
  | false => simp [pure, Parser.pure]
  | true =>
    have h1 : b.any Container.isEmpty = false := by
      rw [List.any_eq_false]
      intro c hc
      simp [Container.isEmpty, storeWF_not_empty (h.2 c hc).2]
    have h2 : keysStrictlyAscending b = true := (keysStrictlyAscending_iff b).mpr h.1
    simp [h1, h2, pure, Parser.pure]

end Roaring
