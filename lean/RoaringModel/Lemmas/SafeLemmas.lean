import RoaringModel.Safe
import RoaringModel.Lemmas.BStoreRange
import RoaringModel.Lemmas.ArrFacts
import RoaringModel.Lemmas.StoreFacts
import RoaringModel.Lemmas.BitmapQuery
import RoaringModel.Lemmas.BitmapMut2
import RoaringModel.Lemmas.SpecFacts
import RoaringModel.Lemmas.BIterLemmas
import RoaringModel.Lemmas.ContainerFacts
/-!
# The `Safe_*` side conditions follow from well-formedness (C16)

For every predicate of `RoaringModel/Safe.lean`: a theorem `safe_…` deriving it from the structural invariant of the
receiver (`BStore.Inv`, `Arr.Inv`, `Store.WF`, `Bitmap.WF`) and the range of the arguments (`u16` index, `s ≤ e`, …).
-/
namespace Roaring

/-! ## word level -/

theorem popcount_popLow (w : Nat) (hw : w < 2^64) : popcount (popLow w) = popcount w - 1 := by
  rw [BStore.popcount_eq _ (BStore.popLow_lt hw), BStore.popcount_eq w hw, BStore.bitPos_popLow w hw, List.length_tail]

theorem popcount_popHigh (w : Nat) (hw : w < 2^64) : popcount (popHigh w) = popcount w - 1 := by
  rw [BStore.popcount_eq _ (BStore.popHigh_lt hw), BStore.popcount_eq w hw, BStore.bitPos_popHigh w hw,
    List.length_dropLast]

/-- `value &= value - 1` may run `popcount value` times -/
theorem safe_popLowN (n : Nat) : ∀ (w : Nat), w < 2^64 → n ≤ popcount w → Safe_popLowN w n := by
  induction n with
  | zero => intro w _ _; trivial
  | succ n ih =>
    intro w hw hn
    refine ⟨?_, ih (popLow w) (BStore.popLow_lt hw) ?_⟩
    · intro h0; subst h0; rw [popcount_zero] at hn; omega
    · rw [popcount_popLow w hw]; omega

/-- clearing the highest set bit may run `popcount word` times -/
theorem safe_popHighN (n : Nat) : ∀ (w : Nat), w < 2^64 → n ≤ popcount w → Safe_popHighN w n := by
  induction n with
  | zero => intro w _ _; trivial
  | succ n ih =>
    intro w hw hn
    have h0 : w ≠ 0 := by intro h0; subst h0; rw [popcount_zero] at hn; omega
    refine ⟨h0, BStore.hiBit_lt w h0 hw, ih (popHigh w) (BStore.popHigh_lt hw) ?_⟩
    rw [popcount_popHigh w hw]; omega

namespace BStore
open Mask

/-! ## BitmapStore -/

theorem len_le (b : BStore) (hb : b.Inv) : b.len ≤ 65536 := by
  rw [len_eq_countP b hb]
  have := List.countP_le_length (p := fun x => b.test x) (l := List.range 65536)
  simpa using this

theorem popSum_le (bits : List Nat) (hl : bits.length = 1024) (hw : ∀ w ∈ bits, w < 2^64) : popSum bits ≤ 65536 :=
  len_le { len := popSum bits, bits := bits } ⟨hl, hw, rfl⟩

theorem safe_insert (b : BStore) (hb : b.Inv) (i : Nat) (hi : i < 65536) : b.Safe_insert i := by
  have hle := len_le b hb
  unfold Safe_insert wkey wbit
  simp only [Word.xor_setBit_shiftRight]
  refine ⟨by rw [hb.length]; omega, by omega, ?_⟩
  show _ < 2^64
  split <;> omega

theorem safe_remove (b : BStore) (hb : b.Inv) (i : Nat) (hi : i < 65536) : b.Safe_remove i := by
  have hk : i / 64 < b.bits.length := by rw [hb.length]; omega
  have hbit : i % 64 < 64 := by omega
  have hold : word b.bits (i / 64) < 2^64 := word_lt hb.words _
  unfold Safe_remove wkey wbit
  simp only [Word.xor_clearBit_shiftRight _ _ hold]
  refine ⟨hk, hbit, ?_⟩
  split
  · rename_i ht
    rw [hb.len]
    exact Nat.le_trans (one_le_popcount_of_testBit hold hbit ht) (popcount_word_le_popSum _ _ hk)
  · omega

theorem safe_contains (b : BStore) (hb : b.Inv) (i : Nat) (hi : i < 65536) : b.Safe_contains i := by
  unfold Safe_contains wkey wbit
  exact ⟨by rw [hb.length]; omega, by omega⟩

/-! ### ranges -/

theorem countIn_le_len (b : BStore) (hb : b.Inv) (s e : Nat) : b.countIn s e ≤ b.len := by
  unfold countIn
  rw [← length_toArray b hb]
  exact List.length_filter_le _ _

theorem countIn_le_range (b : BStore) (hb : b.Inv) (s e : Nat) (he : e < 65536) : b.countIn s e ≤ e - s + 1 := by
  rw [countIn_eq_countP b hb]
  have h4 : (List.range 65536).countP (fun x => (decide (s ≤ x) && decide (x ≤ e)) && b.test x)
      ≤ (List.range 65536).countP (fun x => decide (s ≤ x) && decide (x ≤ e)) := by
    apply List.countP_mono_left
    intro x _ h; simp only [Bool.and_eq_true] at h ⊢; exact h.1
  have h2 := countP_interval s e 65536
  omega

theorem insertRangeExisted_eq (b : BStore) (hb : b.Inv) (s e : Nat) (hse : s ≤ e) (he : e < 65536) :
    insertRangeExisted b s e = b.countIn s e := by
  have hl := hb.length
  have hsk : s / 64 < 1024 := by omega
  have hek : e / 64 < 1024 := by omega
  rw [countIn_eq_maskedSum b hb]
  unfold insertRangeExisted wkey wbit
  by_cases h : s / 64 = e / 64
  · simp only [if_pos h]
    rw [maskedSum_range_same b.bits s e h (by omega)]
  · simp only [if_neg h]
    have hlt : s / 64 < e / 64 := by
      have : s / 64 ≤ e / 64 := Nat.div_le_div_right hse
      omega
    rw [maskedSum_range_span b.bits hb.words s e hlt (by omega)]
    rw [List.drop_set_of_lt (by omega), word_fillWords _ _ _ _ _ (by omega) (by simp; omega),
      if_neg (by omega), word_set _ _ _ _ (by omega), if_neg (by omega)]

theorem safe_insertRange (b : BStore) (hb : b.Inv) (s e : Nat) (hse : s ≤ e) (he : e < 65536) :
    b.Safe_insertRange s e := by
  have hle := len_le b hb
  have h1 := countIn_le_range b hb s e he
  have h2 := countIn_le_len b hb s e
  unfold Safe_insertRange wkey wbit
  simp only [insertRangeExisted_eq b hb s e hse he]
  refine ⟨by rw [hb.length]; omega, by rw [hb.length]; omega, by omega, by omega, hse, ?_, ?_, h1, ?_⟩
  · intro h; show _ < 2^16; omega
  · show _ < 2^32; omega
  · show _ < 2^64; omega

theorem safe_removeRange (b : BStore) (hb : b.Inv) (s e : Nat) (hse : s ≤ e) (he : e < 65536) :
    b.Safe_removeRange s e := by
  have hle := len_le b hb
  have h2 := countIn_le_len b hb s e
  have hle' : s / 64 ≤ e / 64 := Nat.div_le_div_right hse
  unfold Safe_removeRange wkey wbit
  simp only [(removeRange_spec b hb s e hse he).2.2]
  refine ⟨by rw [hb.length]; omega, by rw [hb.length]; omega, by omega, by omega, by omega, ?_, h2⟩
  show _ < 2^32; omega

theorem safe_containsRange (b : BStore) (hb : b.Inv) (s e : Nat) (hse : s ≤ e) (he : e < 65536) :
    b.Safe_containsRange s e := by
  have hle' : s / 64 ≤ e / 64 := Nat.div_le_div_right hse
  unfold Safe_containsRange wkey wbit
  refine ⟨hse, fun _ => ⟨by omega, by omega, by omega, hle', by rw [hb.length]; omega⟩⟩

/-! ### min / max / to_array_store / rank / select -/

theorem safe_toArray (b : BStore) (hb : b.Inv) : b.Safe_toArray := fun x hx => toArray_lt b hb x hx

theorem safe_min (b : BStore) (hb : b.Inv) : b.Safe_min := by
  unfold Safe_min
  split
  · rename_i w i h
    have hp := List.find?_some h
    have hm := List.mem_of_find?_eq_some h
    rw [List.mem_zipIdx_iff_getElem?] at hm
    simp only [bne_iff_ne, ne_eq] at hp
    obtain ⟨hi, hwe⟩ := List.getElem?_eq_some_iff.1 hm
    simp only [] at hi hwe
    have hw : w < 2^64 := hb.words w (by rw [← hwe]; exact List.getElem_mem hi)
    have := tz_lt w hp hw
    rw [hb.length] at hi
    show _ < 2^16
    omega
  · trivial

theorem safe_max (b : BStore) (hb : b.Inv) : b.Safe_max := by
  unfold Safe_max
  split
  · rename_i w i h
    have hp := List.find?_some h
    have hm := List.mem_of_find?_eq_some h
    rw [List.mem_reverse, List.mem_zipIdx_iff_getElem?] at hm
    simp only [bne_iff_ne, ne_eq] at hp
    obtain ⟨hi, hwe⟩ := List.getElem?_eq_some_iff.1 hm
    simp only [] at hi hwe
    have hw : w < 2^64 := hb.words w (by rw [← hwe]; exact List.getElem_mem hi)
    have := hiBit_lt w hp hw
    rw [hb.length] at hi
    refine ⟨hp, ?_⟩
    show _ < 2^16
    omega
  · trivial
theorem safe_rank (b : BStore) (hb : b.Inv) (i : Nat) (hi : i < 65536) : b.Safe_rank i := by
  have hk : i / 64 < b.bits.length := by rw [hb.length]; omega
  unfold Safe_rank wkey wbit
  refine ⟨hk, by omega, ?_⟩
  show _ < 2^64
  have h1 : popSum (b.bits.take (i / 64)) ≤ popSum b.bits := by
    have := congrArg popSum (List.take_append_drop (i / 64) b.bits)
    rw [popSum_append] at this; omega
  have h2 : popcount ((word b.bits (i / 64) <<< (63 - i % 64)) % W) ≤ 64 :=
    Word.popcount_le_64 _ (by rw [W_eq]; exact Nat.mod_lt _ (by decide))
  have := popSum_le b.bits hb.length hb.words
  omega

theorem safe_selectFrom (ws : List Nat) : ∀ (k n : Nat), (∀ w ∈ ws, w < 2^64) → k + ws.length ≤ 1024 →
    Safe_selectFrom k ws n := by
  induction ws with
  | nil => intro k n _ _; trivial
  | cons w ws ih =>
    intro k n hws hk
    have hw : w < 2^64 := hws w (by simp)
    unfold Safe_selectFrom
    split
    · rename_i hn
      refine ⟨safe_popLowN n w hw (by omega), ?_⟩
      -- the selected bit is a bit position of `w`
      have hsel : (bitPos w)[n]? = some (selectBit w n) :=
        bitPos_getElem?_selectBit n w hw (by rw [← popcount_eq w hw]; exact hn)
      have hmem : selectBit w n ∈ bitPos w := List.mem_of_getElem? hsel
      have := ((mem_bitPos w _).1 hmem).1
      simp only [List.length_cons] at hk
      show _ < 2^16
      omega
    · rename_i hn
      refine ⟨by omega, ih (k + 1) _ (fun x hx => hws x (by simp [hx])) ?_⟩
      simp only [List.length_cons] at hk
      omega

theorem safe_select (b : BStore) (hb : b.Inv) (n : Nat) : b.Safe_select n :=
  safe_selectFrom b.bits 0 n hb.words (by rw [hb.length]; omega)

/-! ### remove_smallest / remove_biggest -/

theorem safe_rsLoop (ws : List Nat) : ∀ n, (∀ w ∈ ws, w < 2^64) → Safe_rsLoop ws n := by
  induction ws with
  | nil => intro n _; trivial
  | cons w ws ih =>
    intro n hws
    have hw : w < 2^64 := hws w (by simp)
    unfold Safe_rsLoop
    split
    · rename_i hn; exact safe_popLowN n w hw (by omega)
    · rename_i hn
      exact ⟨by omega, Or.inr (ih _ (fun x hx => hws x (by simp [hx])))⟩

theorem safe_removeSmallest (b : BStore) (hb : b.Inv) (n : Nat) : b.Safe_removeSmallest n := by
  intro hn
  exact ⟨by omega, safe_rsLoop b.bits n hb.words⟩

theorem safe_rbLoop (ws : List Nat) : ∀ n, (∀ w ∈ ws, w < 2^64) → Safe_rbLoop ws n := by
  induction ws with
  | nil => intro n _; trivial
  | cons w ws ih =>
    intro n hws
    have hw : w < 2^64 := hws w (by simp)
    unfold Safe_rbLoop
    split
    · rename_i hn; exact safe_popHighN n w hw (by omega)
    · rename_i hn
      exact ⟨by omega, Or.inr (ih _ (fun x hx => hws x (by simp [hx])))⟩

theorem safe_removeBiggest (b : BStore) (hb : b.Inv) (n : Nat) : b.Safe_removeBiggest n := by
  intro hn
  exact ⟨by omega, safe_rbLoop b.bits.reverse n (fun w hw => hb.words w (List.mem_reverse.1 hw))⟩

/-! ### assign operators with an array on the right -/

theorem safe_orArr (v : List Nat) : ∀ (b : BStore), b.Inv → (∀ x ∈ v, x < 65536) → Safe_orArr b v := by
  induction v with
  | nil => intro b _ _; trivial
  | cons i v ih =>
    intro b hb hv
    have hi : i < 65536 := hv i (by simp)
    exact ⟨safe_insert b hb i hi, ih _ (insert_spec b hb i hi).1 (fun x hx => hv x (by simp [hx]))⟩

theorem safe_subArr (v : List Nat) : ∀ (b : BStore), b.Inv → (∀ x ∈ v, x < 65536) → Safe_subArr b v := by
  induction v with
  | nil => intro b _ _; trivial
  | cons i v ih =>
    intro b hb hv
    have hi : i < 65536 := hv i (by simp)
    exact ⟨safe_remove b hb i hi, ih _ (remove_spec b hb i hi).1 (fun x hx => hv x (by simp [hx]))⟩

theorem safe_xorArrLoop (v : List Nat) : ∀ (b : BStore), b.Inv → (∀ x ∈ v, x < 65536) →
    Safe_xorArrLoop ((b.len : Int), b.bits) v := by
  induction v with
  | nil => intro b _ _; trivial
  | cons i v ih =>
    intro b hb hv
    have hi : i < 65536 := hv i (by simp)
    obtain ⟨b', hb', e, _⟩ := xorArrStep_spec b hb i hi
    have hle' := len_le b' hb'
    have hk : wkey i < b.bits.length := by rw [hb.length]; unfold wkey; omega
    have hbit : wbit i < 64 := Nat.mod_lt _ (by decide)
    unfold xorArrStep at e
    simp only [Prod.mk.injEq] at e
    obtain ⟨e1, e2⟩ := e
    have e1' : (b.len : Int) + (1 - 2 * ((((1 <<< wbit i) &&& word b.bits (wkey i)) >>> wbit i : Nat) : Int)) = (b'.len : Int) := by
      rw [← e1]; omega
    unfold Safe_xorArrLoop
    simp only [e1', e2]
    refine ⟨hk, hbit, ?_, ?_, by omega, ih b' hb' (fun x hx => hv x (by simp [hx]))⟩
    · rw [bit_and_shr_eq]
      cases (word b.bits (wkey i)).testBit (wbit i) <;> simp <;> omega
    · constructor <;> omega

theorem safe_xorArr (b : BStore) (hb : b.Inv) (v : List Nat) (hv : ∀ x ∈ v, x < 65536) : b.Safe_xorArr v := by
  have hle := len_le b hb
  exact ⟨by constructor <;> omega, safe_xorArrLoop v b hb hv⟩

theorem safe_opBitmaps (f : Nat → Nat → Nat) (hf : ∀ x y, x < 2^64 → y < 2^64 → f x y < 2^64)
    (a b : BStore) (ha : a.Inv) (hb : b.Inv) : Safe_opBitmaps f a b := by
  unfold Safe_opBitmaps
  have : popSum (List.zipWith f a.bits b.bits) ≤ 65536 := by
    apply popSum_le
    · simp [ha.length, hb.length]
    · intro w hw
      obtain ⟨k, hk, rfl⟩ := List.getElem_of_mem hw
      rw [List.getElem_zipWith]
      exact hf _ _ (ha.words _ (List.getElem_mem _)) (hb.words _ (List.getElem_mem _))
  show _ < 2^64
  omega

theorem safe_interLenArray (b : BStore) (hb : b.Inv) (v : List Nat) (hv : Arr.Inv v) : b.Safe_interLenArray v := by
  refine ⟨fun i hi => ?_, ?_⟩
  · have := hv.2 i hi
    unfold wkey wbit
    exact ⟨by rw [hb.length]; omega, by omega⟩
  · rw [interLenArray_spec b hb v hv.2]
    have h1 : (v.filter fun x => b.test x).length ≤ v.length := List.length_filter_le _ _
    have h2 := (Arr.sorted_bounded_length v hv.1 0 65536 (fun x hx => ⟨Nat.zero_le _, by have := hv.2 x hx; omega⟩)).1
    show _ < 2^64
    omega

theorem safe_interLenBitmap (a b : BStore) (ha : a.Inv) (hb : b.Inv) : a.Safe_interLenBitmap b := by
  unfold Safe_interLenBitmap
  rw [interLenBitmap_spec a b ha hb]
  have h1 : (a.toArray.filter fun x => b.test x).length ≤ a.toArray.length := List.length_filter_le _ _
  rw [length_toArray a ha] at h1
  have := len_le a ha
  show _ < 2^64
  omega

end BStore

/-! ## BitmapIter -/
namespace BIter

theorem safe_next (it : BIter) (hi : it.Inv) : it.Safe_next := by
  refine ⟨fun _ hk => by have := hi.kb; show _ < 2^16; omega, ?_⟩
  obtain ⟨h1, _, _⟩ := next_cursor it hi
  split
  · rename_i x hx
    rw [h1] at hx
    exact Nat.lt_of_lt_of_le (rem_lt it hi x (List.mem_of_mem_head? hx)) (by decide)
  · trivial

theorem safe_nextBack (it : BIter) (hi : it.Inv) : it.Safe_nextBack := by
  obtain ⟨h1, _, _⟩ := nextBack_cursor it hi
  unfold Safe_nextBack
  split
  · rename_i x hx
    rw [h1] at hx
    exact Nat.lt_of_lt_of_le (rem_lt it hi x (List.mem_of_getLast? hx)) (by decide)
  · trivial

theorem safe_advance (index : Nat) : Safe_advance index := by
  unfold Safe_advance wbit; omega

end BIter

/-! ## ArrayStore -/
namespace Arr

theorem length_le (v : List Nat) (hv : Arr.Inv v) : v.length ≤ 65536 :=
  (sorted_bounded_length v hv.1 0 65536 (fun x hx => ⟨Nat.zero_le _, by have := hv.2 x hx; omega⟩)).1

/-- std's `binary_search` contract holds for the model's `bsearch` (any vector) -/
theorem safe_bsearch (v : List Nat) (x : Nat) : Safe_bsearch v x := by
  unfold Safe_bsearch bsearch lowerBound
  refine ⟨(List.takeWhile_sublist _).length_le, ?_⟩
  intro h
  simp only [beq_iff_eq] at h
  exact (List.getElem?_eq_some_iff.1 h).1

theorem filter_disjoint_length (v : List Nat) (p q : Nat → Bool) (h : ∀ x, ¬ (p x = true ∧ q x = true)) :
    (v.filter p).length + (v.filter q).length ≤ v.length := by
  induction v with
  | nil => simp
  | cons a v ih =>
    have := h a
    simp only [List.filter_cons, List.length_cons]
    cases hp : p a <;> cases hq : q a <;> simp_all <;> omega

theorem rangePos_eq (v : List Nat) (hs : Sorted v) (s e : Nat) :
    rangePos v s e = ((v.filter (· < s)).length,
      (v.filter (· < s)).length + (v.filter (fun x => decide (s ≤ x) && decide (x ≤ e))).length) := by
  have hw : Sorted (v.filter (s ≤ ·)) := sorted_filter hs _
  unfold rangePos
  simp only [bsearch_eq v hs s, drop_filter_lt v hs, bsearch_eq _ hw]
  rw [← rangeCount_eq, filter_le_length _ hw]
  by_cases hm : e ∈ v.filter (s ≤ ·) <;>
    simp only [hm, decide_true, decide_false, if_true, if_false, Nat.add_zero]

theorem rangeCount_le (v : List Nat) (hs : Sorted v) (s e : Nat) (hse : s ≤ e) :
    (v.filter (fun x => decide (s ≤ x) && decide (x ≤ e))).length ≤ e - s + 1 :=
  (sorted_bounded_length _ (sorted_filter hs _) s (e - s + 1) (by
    intro x hx
    have := (List.mem_filter.mp hx).2
    simp only [Bool.and_eq_true, decide_eq_true_eq] at this
    omega)).1

theorem rangePos_le (v : List Nat) (s e : Nat) :
    (v.filter (· < s)).length + (v.filter (fun x => decide (s ≤ x) && decide (x ≤ e))).length ≤ v.length := by
  apply filter_disjoint_length
  intro x ⟨h1, h2⟩
  simp only [Bool.and_eq_true, decide_eq_true_eq] at h1 h2
  omega

theorem safe_insertRange (v : List Nat) (hv : Arr.Inv v) (s e : Nat) (hse : s ≤ e) : Safe_insertRange v s e := by
  unfold Safe_insertRange
  rw [rangePos_eq v hv.1]
  have h1 := rangePos_le v s e
  have h2 := rangeCount_le v hv.1 s e hse
  simp only []
  refine ⟨by omega, by omega, h1, hse, by omega⟩

theorem safe_removeRange (v : List Nat) (hv : Arr.Inv v) (s e : Nat) : Safe_removeRange v s e := by
  unfold Safe_removeRange
  rw [rangePos_eq v hv.1]
  have h1 := rangePos_le v s e
  simp only []
  refine ⟨by omega, by omega, h1⟩

theorem safe_containsRange (v : List Nat) (s e : Nat) (hse : s ≤ e) : Safe_containsRange v s e :=
  ⟨hse, by omega⟩

theorem safe_toBitmap (v : List Nat) (hv : Arr.Inv v) : Safe_toBitmap v := by
  refine ⟨fun i hi => ?_, ?_⟩
  · have := hv.2 i hi
    unfold wkey wbit
    exact ⟨by omega, by omega⟩
  · have h : v.length = BStore.popSum (Store.arrToBitmapBits v) := (BStore.arrToBitmap_spec v hv).1.len
    rw [BStore.tryFrom_spec, if_pos h]; rfl

end Arr

/-! ## Store / Container -/
namespace Store

theorem len_le (st : Store) (h : st.Inv) : st.len ≤ 65536 := by
  cases st with
  | array v => exact Arr.length_le v h
  | bitmap b => exact BStore.len_le b h

theorem safe_insert (st : Store) (h : st.Inv) (i : Nat) (hi : i < 65536) : st.Safe_insert i := by
  cases st with
  | array v => exact Arr.safe_bsearch v i
  | bitmap b => exact BStore.safe_insert b h i hi

theorem safe_remove (st : Store) (h : st.Inv) (i : Nat) (hi : i < 65536) : st.Safe_remove i := by
  cases st with
  | array v => exact Arr.safe_bsearch v i
  | bitmap b => exact BStore.safe_remove b h i hi

theorem safe_insertRange (st : Store) (h : st.Inv) (s e : Nat) (hse : s ≤ e) (he : e < 65536) :
    st.Safe_insertRange s e := by
  cases st with
  | array v => exact Arr.safe_insertRange v h s e hse
  | bitmap b => exact BStore.safe_insertRange b h s e hse he

theorem safe_removeRange (st : Store) (h : st.Inv) (s e : Nat) (hse : s ≤ e) (he : e < 65536) :
    st.Safe_removeRange s e := by
  cases st with
  | array v => exact Arr.safe_removeRange v h s e
  | bitmap b => exact BStore.safe_removeRange b h s e hse he

theorem safe_containsRange (st : Store) (h : st.Inv) (s e : Nat) (hse : s ≤ e) (he : e < 65536) :
    st.Safe_containsRange s e := by
  cases st with
  | array v => exact Arr.safe_containsRange v s e hse
  | bitmap b => exact BStore.safe_containsRange b h s e hse he

theorem safe_rank (st : Store) (h : st.Inv) (i : Nat) (hi : i < 65536) : st.Safe_rank i := by
  cases st with
  | array v => trivial
  | bitmap b => exact BStore.safe_rank b h i hi

theorem safe_select (st : Store) (h : st.Inv) (n : Nat) : st.Safe_select n := by
  cases st with
  | array v => trivial
  | bitmap b => exact BStore.safe_select b h n

theorem rank_le_len (st : Store) (h : st.Inv) (i : Nat) (hi : i < 65536) : st.rank i ≤ st.len := by
  rw [rank_spec st h i hi, len_eq st h]
  exact List.length_filter_le _ _

theorem rank_mono (st : Store) (h : st.Inv) (i j : Nat) (hij : i ≤ j) (hj : j < 65536) : st.rank i ≤ st.rank j := by
  rw [rank_spec st h i (by omega), rank_spec st h j hj, ← List.countP_eq_length_filter, ← List.countP_eq_length_filter]
  apply List.countP_mono_left
  intro x _ hx
  simp only [decide_eq_true_eq] at hx ⊢
  omega

end Store

namespace Container

theorem safe_insertRange (c : Container) (h : c.store.Inv) (s e : Nat) (hse : s ≤ e) (he : e < 65536) :
    c.Safe_insertRange s e := by
  unfold Safe_insertRange
  refine ⟨hse, by omega, ?_⟩
  cases hs : c.store with
  | array v =>
    rw [hs] at h
    simp only []
    split
    · exact ⟨Arr.safe_toBitmap v h, BStore.safe_insertRange _ (BStore.arrToBitmap_spec v h).1 s e hse he⟩
    · exact Arr.safe_insertRange v h s e hse
  | bitmap b =>
    rw [hs] at h
    exact BStore.safe_insertRange b h s e hse he

theorem safe_removeSmallest (c : Container) (h : c.store.Inv) (n : Nat) (hn : n ≤ c.len) :
    c.Safe_removeSmallest n := by
  unfold Safe_removeSmallest
  unfold Container.len at hn
  cases hs : c.store with
  | array v => rw [hs] at hn; exact hn
  | bitmap b =>
    rw [hs] at h hn
    simp only []
    refine ⟨hn, ?_⟩
    split
    · exact BStore.safe_toArray b h
    · exact BStore.safe_removeSmallest b h n

theorem safe_removeBiggest (c : Container) (h : c.store.Inv) (n : Nat) (hn : n ≤ c.len) :
    c.Safe_removeBiggest n := by
  unfold Safe_removeBiggest
  unfold Container.len at hn
  cases hs : c.store with
  | array v => rw [hs] at hn; exact hn
  | bitmap b =>
    rw [hs] at h hn
    simp only []
    refine ⟨hn, ?_⟩
    split
    · exact BStore.safe_toArray b h
    · exact BStore.safe_removeBiggest b h n

theorem safe_ensureCorrectStore (c : Container) (h : c.store.Inv) : c.Safe_ensureCorrectStore := by
  unfold Safe_ensureCorrectStore
  cases hs : c.store with
  | array v => rw [hs] at h; exact fun _ => Arr.safe_toBitmap v h
  | bitmap b => rw [hs] at h; exact fun _ => BStore.safe_toArray b h

end Container

/-! ## RoaringBitmap -/
namespace Bitmap

/-- the stores of a bitmap satisfy the structural invariant (all that the arithmetic needs) -/
def StoresInv (b : Bitmap) : Prop := ∀ c ∈ b, c.store.Inv

theorem WF.storesInv {b : Bitmap} (h : b.WF) : StoresInv b := fun c hc => Store.wf_inv _ (h.2 c hc).2

theorem wf_length_le (b : Bitmap) (h : b.WF) : b.length ≤ 65536 := by
  have := (Arr.sorted_bounded_length (b.map Container.key) h.1 0 65536 (by
    intro k hk
    obtain ⟨c, hc, rfl⟩ := List.mem_map.mp hk
    have := (h.2 c hc).1
    omega)).1
  simpa using this

theorem len_le_mul : ∀ (b : Bitmap), StoresInv b → len b ≤ 65536 * b.length
  | [], _ => by simp [len_nil]
  | c :: cs, h => by
    rw [len_cons, List.length_cons]
    have h1 := Store.len_le c.store (h c (by simp))
    have h2 := len_le_mul cs (fun d hd => h d (by simp [hd]))
    unfold Container.len
    omega

theorem storesInv_take {b : Bitmap} (h : StoresInv b) (i : Nat) : StoresInv (b.take i) :=
  fun c hc => h c (List.mem_of_mem_take hc)

theorem storesInv_drop {b : Bitmap} (h : StoresInv b) (i : Nat) : StoresInv (b.drop i) :=
  fun c hc => h c (List.mem_of_mem_drop hc)

theorem wf_len_le (b : Bitmap) (h : b.WF) : len b ≤ 4294967296 := by
  have h1 := len_le_mul b h.storesInv
  have h2 := wf_length_le b h
  omega

theorem safe_split (v : Nat) (hv : v < 4294967296) : Safe_split v := by
  unfold Safe_split hi16; show _ < 2^16; omega

theorem safe_join (k i : Nat) (hk : k < 65536) (hi : i < 65536) : Safe_join k i := by
  unfold Safe_join join
  rw [Nat.shiftLeft_eq]
  constructor <;> (show _ < 2^32) <;> omega

/-- std's `binary_search_by_key` contract holds for the model's `search` (any container vector) -/
theorem safe_search (b : Bitmap) (key : Nat) : Safe_search b key := by
  unfold Safe_search search
  refine ⟨(List.takeWhile_sublist _).length_le, ?_⟩
  simp only []
  intro h
  split at h
  · rename_i c hc; exact (List.getElem?_eq_some_iff.1 hc).1
  · cases h

theorem safe_findContainerByKey (b : Bitmap) (key : Nat) : Safe_findContainerByKey b key := by
  obtain ⟨h1, h2⟩ := safe_search b key
  refine ⟨h1, ?_⟩
  unfold findContainerByKey
  cases hs : search b key with
  | mk f loc =>
    rw [hs] at h1 h2
    cases f with
    | true => exact h2 rfl
    | false =>
      simp only [List.length_append, List.length_cons, List.length_take, List.length_drop]
      simp only [] at h1
      omega

theorem safe_len (b : Bitmap) (h : b.WF) : Safe_len b := by
  have := wf_len_le b h
  unfold Safe_len; show _ < 2^64; omega

theorem safe_select : ∀ (b : Bitmap) (n : Nat), StoresInv b → Safe_select b n
  | [], _, _ => trivial
  | c :: cs, n, h => by
    have hc := h c (by simp)
    have hle := Store.len_le c.store hc
    unfold Safe_select
    split
    · rename_i hn
      unfold Container.len at hn
      exact ⟨by show n < 2^16; omega, Store.safe_select _ hc n⟩
    · exact ⟨by omega, safe_select cs _ (fun d hd => h d (by simp [hd]))⟩

theorem safe_removeSmallest : ∀ (b : Bitmap) (n : Nat), StoresInv b → Safe_removeSmallest b n
  | [], _, _ => trivial
  | c :: cs, n, h => by
    unfold Safe_removeSmallest
    split
    · exact safe_removeSmallest cs _ (fun d hd => h d (by simp [hd]))
    · intro _; exact Container.safe_removeSmallest c (h c (by simp)) n (by omega)

theorem safe_removeBiggestRev : ∀ (b : List Container) (n : Nat), StoresInv b → Safe_removeBiggestRev b n
  | [], _, _ => trivial
  | c :: cs, n, h => by
    unfold Safe_removeBiggestRev
    split
    · exact safe_removeBiggestRev cs _ (fun d hd => h d (by simp [hd]))
    · intro _; exact Container.safe_removeBiggest c (h c (by simp)) n (by omega)

theorem safe_removeBiggest (b : Bitmap) (n : Nat) (h : StoresInv b) : Safe_removeBiggest b n :=
  safe_removeBiggestRev b.reverse n (fun c hc => h c (List.mem_reverse.1 hc))

theorem safe_rank (b : Bitmap) (h : b.WF) (v : Nat) (hv : v < 4294967296) : Safe_rank b v := by
  have hs := safe_search b (hi16 v)
  have hlen := wf_length_le b h
  have hlo : lo16 v < 65536 := by unfold lo16; omega
  refine ⟨safe_split v hv, hs, ?_⟩
  have htake : ∀ i, len (b.take i) ≤ 4294967296 := by
    intro i
    have h1 := len_le_mul (b.take i) (storesInv_take h.storesInv i)
    have h2 : (b.take i).length ≤ b.length := by simp [List.length_take]; omega
    omega
  cases hsr : search b (hi16 v) with
  | mk f i =>
    unfold Safe_search at hs; rw [hsr] at hs
    cases f with
    | false => simp only []; have := htake i; show _ < 2^64; omega
    | true =>
      have hi : i < b.length := hs.2 rfl
      simp only [List.getElem?_eq_getElem hi]
      have hc : b[i].store.Inv := h.storesInv _ (List.getElem_mem hi)
      refine ⟨Store.safe_rank _ hc _ hlo, ?_⟩
      have h1 := Store.rank_le_len _ hc _ hlo
      have h2 := Store.len_le _ hc
      have := htake i
      unfold Container.rank
      show _ < 2^64; omega

theorem safe_rangeCardLoop (ek el : Nat) (hel : el < 65536) : ∀ (cs : List Container) (acc : Nat),
    StoresInv cs → acc + 65536 * cs.length < 2^64 → Safe_rangeCardLoop ek el cs acc
  | [], _, _, _ => trivial
  | c :: cs, acc, h, hacc => by
    have hc := h c (by simp)
    have h2 := Store.len_le _ hc
    have h1 := Store.rank_le_len _ hc _ hel
    simp only [List.length_cons] at hacc
    unfold Safe_rangeCardLoop
    unfold Container.len Container.rank
    split
    · refine ⟨by show _ < 2^64; omega, safe_rangeCardLoop ek el hel cs _ (fun d hd => h d (by simp [hd])) (by omega)⟩
    · split
      · exact ⟨Store.safe_rank _ hc _ hel, by show _ < 2^64; omega⟩
      · trivial

theorem convertRange_bounds (lo hi : Bound) (hlo : Bound.le u32Max lo) (hhi : Bound.le u32Max hi) (st en : Nat)
    (h : convertRange u32Max lo hi = .ok (st, en)) : st ≤ en ∧ en < 4294967296 := by
  have := Spec.interval_some u32Max lo hi st en (convertRange_ok u32Max lo hi hlo hhi st en h)
  have hm : u32Max = 4294967295 := rfl
  omega

theorem safe_rangeCardinality (b : Bitmap) (h : b.WF) (lo hi : Bound)
    (hlo : Bound.le u32Max lo) (hhi : Bound.le u32Max hi) : Safe_rangeCardinality b lo hi := by
  unfold Safe_rangeCardinality
  cases hc : convertRange u32Max lo hi with
  | error e => trivial
  | ok r =>
    obtain ⟨st, en⟩ := r
    obtain ⟨hse, hen⟩ := convertRange_bounds lo hi hlo hhi st en hc
    have hlen := wf_length_le b h
    have hs := safe_search b (hi16 st)
    have hel : lo16 en < 65536 := by unfold lo16; omega
    simp only []
    refine ⟨hs, ?_⟩
    cases hsr : search b (hi16 st) with
    | mk f i =>
      unfold Safe_search at hs; rw [hsr] at hs
      cases f with
      | false =>
        simp only []
        apply safe_rangeCardLoop _ _ hel _ _ (storesInv_drop h.storesInv i)
        simp only [List.length_drop]; omega
      | true =>
        have hi : i < b.length := hs.2 rfl
        simp only [List.getElem?_eq_getElem hi]
        have hcI : b[i].store.Inv := h.storesInv _ (List.getElem_mem hi)
        have h2 := Store.len_le _ hcI
        have hr1 := Store.rank_le_len _ hcI _ hel
        refine ⟨fun _ => Store.safe_rank _ hcI _ hel, ?_, by omega, ?_⟩
        · intro hsl
          have hsl1 : lo16 st - 1 < 65536 := by unfold lo16; omega
          refine ⟨by omega, Store.safe_rank _ hcI _ hsl1, ?_⟩
          unfold Container.rank Container.len
          split
          · rename_i hk
            apply Store.rank_mono _ hcI _ _ _ hel
            unfold hi16 at hk; unfold lo16; omega
          · exact Store.rank_le_len _ hcI _ hsl1
        · apply safe_rangeCardLoop _ _ hel _ _ (storesInv_drop h.storesInv _)
          simp only [List.length_drop]
          unfold Container.rank Container.len
          split <;> split <;> omega

theorem safe_containsRange (b : Bitmap) (h : b.WF) (lo hi : Bound)
    (hlo : Bound.le u32Max lo) (hhi : Bound.le u32Max hi) : Safe_containsRange b lo hi := by
  unfold Safe_containsRange
  cases hc : convertRange u32Max lo hi with
  | error e => trivial
  | ok r =>
    obtain ⟨st, en⟩ := r
    obtain ⟨hse, hen⟩ := convertRange_bounds lo hi hlo hhi st en hc
    have hs := safe_search b (hi16 st)
    have hel : lo16 en < 65536 := by unfold lo16; omega
    have hsl : lo16 st < 65536 := by unfold lo16; omega
    have hhh : hi16 st ≤ hi16 en := by unfold hi16; exact Nat.div_le_div_right hse
    simp only []
    refine ⟨hhh, hs, ?_⟩
    cases hsr : search b (hi16 st) with
    | mk f i =>
      unfold Safe_search at hs; rw [hsr] at hs
      cases f with
      | false => trivial
      | true =>
        have hi : i < b.length := hs.2 rfl
        simp only []
        cases hd : b.drop i with
        | nil =>
          have := congrArg List.length hd
          simp only [List.length_drop, List.length_nil] at this
          omega
        | cons first rest =>
          have hfirst : first ∈ b := List.mem_of_mem_drop (by rw [hd]; simp)
          have hfI := h.storesInv first hfirst
          simp only []
          split
          · rename_i hk
            apply Store.safe_containsRange _ hfI _ _ _ hel
            unfold hi16 at hk; unfold lo16; omega
          · rename_i hk
            refine ⟨Store.safe_containsRange _ hfI _ _ (by omega) (by omega), by omega, ?_⟩
            split
            · rename_i last hl
              have hlast : last ∈ b := by
                have : last ∈ first :: rest := List.mem_of_getElem? hl
                rw [← hd] at this
                exact List.mem_of_mem_drop this
              exact Store.safe_containsRange _ (h.storesInv last hlast) _ _ (by omega) hel
            · trivial

/-! ### `insert_range`, the whole method -/

theorem storesInv_findContainerByKey {b : Bitmap} (h : StoresInv b) (key : Nat) :
    StoresInv (findContainerByKey b key).1 := by
  unfold findContainerByKey
  cases hs : search b key with
  | mk f loc =>
    cases f with
    | true => exact h
    | false =>
      intro c hc
      simp only [List.mem_append, List.mem_cons] at hc
      rcases hc with hc | rfl | hc
      · exact h c (List.mem_of_mem_take hc)
      · exact Store.new_inv
      · exact h c (List.mem_of_mem_drop hc)

theorem safe_insertRangeAt (b : Bitmap) (h : StoresInv b) (key s e : Nat) (hse : s ≤ e) (he : e < 65536) :
    Safe_insertRangeAt b key s e := by
  have hf := safe_findContainerByKey b key
  refine ⟨hf, ?_⟩
  rw [List.getElem?_eq_getElem hf.2]
  exact Container.safe_insertRange _ (storesInv_findContainerByKey h key _ (List.getElem_mem hf.2)) s e hse he

theorem modifyAt_insertRange {b : Bitmap} (h : StoresInv b) (loc s e : Nat) (hse : s ≤ e) (he : e < 65536) :
    StoresInv (modifyAt b loc (fun c => c.insertRange s e) 0).1 ∧
    (modifyAt b loc (fun c => c.insertRange s e) 0).2 ≤ 65536 := by
  unfold modifyAt
  cases hc : b[loc]? with
  | none => exact ⟨h, by simp⟩
  | some c =>
    have hcI : c.store.Inv := h c (List.mem_of_getElem? hc)
    obtain ⟨_, h2, _, h4⟩ := Container.insertRange_spec c hcI s e hse he
    simp only []
    refine ⟨?_, by rw [h4]; omega⟩
    intro d hd
    rcases List.mem_or_eq_of_mem_set hd with hd | rfl
    · exact h d hd
    · exact Store.canon_inv _ h2

theorem safe_insertRangeLoop (ek ei : Nat) (hei : ei < 65536) (ks : List Nat) : ∀ (st : Bitmap × Nat × Nat),
    StoresInv st.1 → st.2.1 ≤ 65535 → st.2.2 + 65536 * (ks.length + 1) < 18446744073709551616 →
    Safe_insertRangeLoop ek ei ks st := by
  induction ks with
  | nil =>
    intro st h _ hacc
    unfold Safe_insertRangeLoop
    refine ⟨safe_insertRangeAt st.1 h ek 0 ei (Nat.zero_le _) hei, ?_⟩
    have := (modifyAt_insertRange (storesInv_findContainerByKey h ek) (findContainerByKey st.1 ek).2 0 ei
      (Nat.zero_le _) hei).2
    simp only [List.length_nil] at hacc
    show _ < 2^64
    simp only []
    omega
  | cons i ks ih =>
    intro st h hlow hacc
    unfold Safe_insertRangeLoop
    have h65 : (65535 : Nat) < 65536 := by decide
    have hm := modifyAt_insertRange (storesInv_findContainerByKey h i) (findContainerByKey st.1 i).2 st.2.1 65535
      hlow h65
    simp only [List.length_cons, Nat.mul_add, Nat.mul_one] at hacc
    simp only []
    refine ⟨safe_insertRangeAt st.1 h i st.2.1 65535 hlow h65, ?_, ?_⟩
    · show _ < 2^64
      generalize 65536 * ks.length = m at hacc
      omega
    · apply ih _ hm.1 (Nat.zero_le _)
      simp only [Nat.mul_add, Nat.mul_one]
      generalize 65536 * ks.length = m at hacc ⊢
      simp only [← Nat.add_assoc] at hacc ⊢
      omega

theorem safe_insertRange (b : Bitmap) (h : b.WF) (lo hi : Bound)
    (hlo : Bound.le u32Max lo) (hhi : Bound.le u32Max hi) : Safe_insertRange b lo hi := by
  unfold Safe_insertRange
  cases hc : convertRange u32Max lo hi with
  | error e => trivial
  | ok r =>
    obtain ⟨st, en⟩ := r
    obtain ⟨hse, hen⟩ := convertRange_bounds lo hi hlo hhi st en hc
    have hel : lo16 en < 65536 := by unfold lo16; omega
    have hsl : lo16 st < 65536 := by unfold lo16; omega
    have hhh : hi16 st ≤ hi16 en := by unfold hi16; exact Nat.div_le_div_right hse
    have hek : hi16 en < 65536 := by unfold hi16; omega
    simp only []
    refine ⟨safe_split st (by omega), safe_split en hen, ?_⟩
    split
    · rename_i hk
      apply safe_insertRangeAt b h.storesInv _ _ _ _ hel
      unfold hi16 at hk; unfold lo16; omega
    · refine ⟨hhh, safe_findContainerByKey b _, ?_⟩
      apply safe_insertRangeLoop _ _ hel _ _ (storesInv_findContainerByKey h.storesInv _) (by simp only []; omega)
      simp only [List.length_range', Nat.mul_add, Nat.mul_one]
      have : 65536 * (hi16 en - hi16 st) ≤ 65536 * 65536 := Nat.mul_le_mul_left _ (by omega)
      generalize 65536 * (hi16 en - hi16 st) = m at this
      omega

theorem safe_insertRangeCount (b : Bitmap) (h : b.WF) (lo hi : Bound)
    (hlo : Bound.le u32Max lo) (hhi : Bound.le u32Max hi) : Safe_insertRangeCount b lo hi := by
  unfold Safe_insertRangeCount
  rw [(insertRange_spec b h lo hi hlo hhi).2.2]
  unfold Spec.insertRange
  cases hi' : Spec.interval u32Max lo hi with
  | none => show 0 < 2^64; omega
  | some p =>
    obtain ⟨a, c⟩ := p
    have := Spec.interval_some u32Max lo hi a c hi'
    have hm : u32Max = 4294967295 := rfl
    unfold Spec.insertIv
    show _ < 2^64
    simp only []
    omega

theorem safe_removeRangeCount (b : Bitmap) (h : b.WF) (lo hi : Bound)
    (hlo : Bound.le u32Max lo) (hhi : Bound.le u32Max hi) : Safe_removeRangeCount b lo hi := by
  unfold Safe_removeRangeCount
  rw [(removeRange_spec b h lo hi hlo hhi).2.2]
  unfold Spec.removeRange
  cases hi' : Spec.interval u32Max lo hi with
  | none => show 0 < 2^64; omega
  | some p =>
    obtain ⟨a, c⟩ := p
    unfold Spec.removeIv
    have h1 : ((elems b).filter (fun x => decide (a ≤ x) && decide (x ≤ c))).length ≤ (elems b).length :=
      List.length_filter_le _ _
    have h2 := wf_len_le b h
    rw [len_spec b h] at h2
    show _ < 2^64
    simp only []
    omega

end Bitmap

/-! ## serialization / statistics -/
namespace Bitmap

/-- payload size of one container in the offset table -/
def cSize (c : Container) : Nat := match c.store with
  | .array v => v.length * 2
  | .bitmap _ => 8 * 1024

theorem cSize_le (c : Container) (h : c.store.WF) : cSize c ≤ 8192 := by
  unfold cSize
  cases hs : c.store with
  | array v => rw [hs] at h; have := h.2.2; simp only []; omega
  | bitmap b => simp only []; omega

theorem safe_offsetLoop : ∀ (b : Bitmap) (off : Nat), (∀ c ∈ b, c.store.WF) → off + 8192 * b.length < 2^32 →
    Safe_offsetLoop b off
  | [], _, _, _ => trivial
  | c :: cs, off, h, hoff => by
    have hc := h c (by simp)
    have hsz := cSize_le c hc
    simp only [List.length_cons, Nat.mul_add, Nat.mul_one] at hoff
    have key : ∀ sz, sz ≤ 8192 → off + sz < 4294967296 ∧ off + sz + 8192 * cs.length < 2^32 := by
      intro sz hsz'
      generalize 8192 * cs.length = m at hoff ⊢
      omega
    unfold Safe_offsetLoop
    unfold cSize at hsz
    cases hs : c.store with
    | array v =>
      rw [hs] at hsz hc
      have := hc.2.2
      simp only [] at hsz ⊢
      have h1 : v.length < 4294967296 := by omega
      have h2 : v.length * 2 < 4294967296 := by omega
      exact ⟨⟨h1, h2⟩, (key _ hsz).1, safe_offsetLoop cs _ (fun d hd => h d (by simp [hd])) (key _ hsz).2⟩
    | bitmap bs =>
      rw [hs] at hsz
      simp only [] at hsz ⊢
      exact ⟨trivial, (key _ hsz).1, safe_offsetLoop cs _ (fun d hd => h d (by simp [hd])) (key _ hsz).2⟩

theorem wf_clen (c : Container) (h : c.store.WF) : 1 ≤ c.len ∧ c.len ≤ 65536 := by
  have h2 := Store.len_le c.store (Store.wf_inv _ h)
  unfold Container.len
  refine ⟨?_, h2⟩
  cases hs : c.store with
  | array v => rw [hs] at h; exact h.2.1
  | bitmap b => rw [hs] at h; have := h.2; show 1 ≤ b.len; omega

theorem safe_serialize (b : Bitmap) (h : b.WF) : Safe_serialize b := by
  have hlen := wf_length_le b h
  refine ⟨by show _ < 2^32; omega, by show _ < 2^32; omega, ?_, ?_⟩
  · intro c hc
    have := wf_clen c (h.2 c hc).2
    exact ⟨this.1, by show _ < 2^16; omega⟩
  · exact safe_offsetLoop b _ (fun c hc => (h.2 c hc).2) (by omega)

theorem foldl_add_le (f : Container → Nat) (B : Nat) : ∀ (b : Bitmap) (acc : Nat), (∀ c ∈ b, f c ≤ B) →
    b.foldl (fun acc c => acc + f c) acc ≤ acc + B * b.length
  | [], acc, _ => by simp
  | c :: cs, acc, h => by
    have hc := h c (by simp)
    rw [List.foldl_cons]
    refine Nat.le_trans (foldl_add_le f B cs _ (fun d hd => h d (by simp [hd]))) ?_
    simp only [List.length_cons, Nat.mul_add]
    omega

theorem safe_serializedSize (b : Bitmap) (h : b.WF) : Safe_serializedSize b := by
  have hlen := wf_length_le b h
  unfold Safe_serializedSize serializedSize
  have h2 : 8200 * b.length ≤ 8200 * 65536 := Nat.mul_le_mul_left _ hlen
  refine Nat.lt_of_le_of_lt (Nat.add_le_add_left (foldl_add_le _ 8200 b 0 ?_) 8) ?_
  · intro c hc
    have hsz := cSize_le c (h.2 c hc).2
    unfold cSize at hsz
    cases hs : c.store with
    | array v => rw [hs] at hsz; simp only [] at hsz ⊢; omega
    | bitmap bs => simp only []; omega
  · generalize 8200 * b.length = m at h2 ⊢
    omega

theorem len_filter_le : ∀ (b : Bitmap) (p : Container → Bool), len (b.filter p) ≤ len b
  | [], _ => by simp
  | c :: cs, p => by
    have ih := len_filter_le cs p
    rw [List.filter_cons]
    split
    · rw [len_cons, len_cons]; omega
    · rw [len_cons]; omega

theorem len_filter_le_mul (p : Container → Bool) (B : Nat) : ∀ (b : Bitmap), (∀ c ∈ b, p c = true → c.len ≤ B) →
    len (b.filter p) ≤ B * b.length
  | [], _ => by simp [len_nil]
  | c :: cs, h => by
    have ih := len_filter_le_mul p B cs (fun d hd => h d (by simp [hd]))
    have hc := h c (by simp)
    rw [List.filter_cons]
    simp only [List.length_cons, Nat.mul_add]
    split
    · rename_i hp
      rw [len_cons]
      have := hc hp
      omega
    · omega

theorem safe_statistics (b : Bitmap) (h : b.WF) : Safe_statistics b := by
  have hlen := wf_length_le b h
  have hl := wf_len_le b h
  unfold Safe_statistics Bitmap.statistics
  simp only []
  refine ⟨by show _ < 2^32; omega,
    Nat.lt_of_le_of_lt (List.length_filter_le _ _) (by omega),
    Nat.lt_of_le_of_lt (List.length_filter_le _ _) (by omega), ?_,
    Nat.lt_of_le_of_lt (len_filter_le_mul _ 4096 b ?_) ?_,
    Nat.lt_of_le_of_lt (len_filter_le b _) (by omega), by show _ < 2^64; omega⟩
  · intro c hc
    cases hs : c.store with
    | array v =>
      have := (h.2 c hc).2
      rw [hs] at this
      have := this.2.2
      show _ < 2^32; omega
    | bitmap bs => trivial
  · intro c hc hp
    cases hs : c.store with
    | array v =>
      have := (h.2 c hc).2
      rw [hs] at this
      unfold Container.len; rw [hs]
      exact this.2.2
    | bitmap bs => rw [hs] at hp; simp at hp
  · have : 4096 * b.length ≤ 4096 * 65536 := Nat.mul_le_mul_left _ hlen
    omega

end Bitmap

/-! ## RoaringTreemap -/
namespace Treemap

/-- the partitions of a treemap are well-formed 32-bit bitmaps under `u32` keys (part of `TWF`) -/
def PartsWF (t : Treemap) : Prop := ∀ p ∈ t, p.1 < 4294967296 ∧ p.2.WF

theorem foldl_len (t : Treemap) (acc : Nat) :
    t.foldl (fun acc p => acc + Bitmap.len p.2) acc = acc + Treemap.len t := by
  unfold Treemap.len
  induction t generalizing acc with
  | nil => simp
  | cons p t ih => rw [List.foldl_cons, List.foldl_cons, ih (acc + _), ih (0 + _)]; omega

theorem len_cons (p : Nat × Bitmap) (t : Treemap) : Treemap.len (p :: t) = Bitmap.len p.2 + Treemap.len t := by
  show List.foldl _ 0 (p :: t) = _
  rw [List.foldl_cons, foldl_len]; omega

theorem len_le_mul : ∀ (t : Treemap), PartsWF t → Treemap.len t ≤ 4294967296 * t.length
  | [], _ => by simp [Treemap.len]
  | p :: t, h => by
    rw [len_cons, List.length_cons]
    have h1 := Bitmap.wf_len_le p.2 (h p (by simp)).2
    have h2 := len_le_mul t (fun q hq => h q (by simp [hq]))
    omega

theorem safe_split (v : Nat) (hv : v < 2^64) : Safe_split v := by
  unfold Safe_split
  rw [Nat.shiftRight_eq_div_pow]
  show _ < 2^32
  omega

theorem safe_join (hi lo : Nat) (hhi : hi < 4294967296) (hlo : lo < 4294967296) : Safe_join hi lo := by
  unfold Safe_join join
  have h1 : hi <<< 32 < 2^64 := by rw [Nat.shiftLeft_eq]; omega
  exact ⟨h1, Nat.or_lt_two_pow h1 (by omega)⟩

theorem len_map_full : ∀ (l : List Nat), Bitmap.len (l.map Container.full) = 65536 * l.length
  | [] => rfl
  | k :: l => by
    rw [List.map_cons, Bitmap.len_cons, len_map_full l, List.length_cons]
    show 65536 + _ = _
    omega

theorem len_fullBitmap : Bitmap.len fullBitmap = 4294967296 := by
  unfold fullBitmap; rw [len_map_full, List.length_range]

theorem safe_insertRangeFull (old : Bitmap) (h : old.WF) : Safe_insertRangeFull old := by
  unfold Safe_insertRangeFull; rw [len_fullBitmap]; exact Bitmap.wf_len_le old h

/-- `len()` cannot overflow on a treemap with fewer than 2^32 partitions -/
theorem safe_len (t : Treemap) (h : PartsWF t) (hl : t.length < 4294967296) : Safe_len t := by
  have := len_le_mul t h
  unfold Safe_len
  show _ < 2^64
  have : 4294967296 * t.length ≤ 4294967296 * 4294967295 := Nat.mul_le_mul_left _ (by omega)
  omega

/-- … and in general exactly when the treemap holds fewer than 2^64 values -/
theorem len_eq_elems : ∀ (t : Treemap), PartsWF t → Treemap.len t = (Treemap.elems t).length
  | [], _ => by simp [Treemap.len, Treemap.elems]
  | p :: t, h => by
    rw [len_cons, len_eq_elems t (fun q hq => h q (by simp [hq])), Bitmap.len_spec p.2 (h p (by simp)).2]
    simp [Treemap.elems]

theorem safe_len_iff (t : Treemap) (h : PartsWF t) : Safe_len t ↔ (Treemap.elems t).length < 2^64 := by
  unfold Safe_len; rw [len_eq_elems t h]

theorem safe_select : ∀ (t : Treemap) (n : Nat), PartsWF t → Safe_select t n
  | [], _, _ => trivial
  | (key, b) :: t, n, h => by
    have hp := h (key, b) (by simp)
    have hb : b.WF := hp.2
    have hle := Bitmap.wf_len_le b hb
    unfold Safe_select
    split
    · rename_i hn
      have hlt : n < (Bitmap.elems b).length := by rw [← Bitmap.len_spec b hb]; omega
      have hsel : Bitmap.select b n = some (Bitmap.elems b)[n] := by
        rw [Bitmap.select_spec b hb n]; unfold Spec.select; exact List.getElem?_eq_getElem hlt
      refine ⟨by show _ < 2^32; omega, by rw [hsel]; rfl, ?_⟩
      rw [hsel]
      exact safe_join key _ hp.1 (Bitmap.elems_lt b hb.dir _ (List.getElem_mem hlt))
    · exact ⟨by omega, safe_select t _ (fun q hq => h q (by simp [hq]))⟩

theorem safe_rank (t : Treemap) (h : PartsWF t) (hl : t.length < 4294967296) (v : Nat) (hv : v < 2^64) :
    Safe_rank t v := by
  refine ⟨safe_split v hv, ?_⟩
  unfold Treemap.rank
  simp only []
  have hsub : ∀ q ∈ (range t .unb (.incl (split v).1)).reverse, q ∈ t := by
    intro q hq
    rw [List.mem_reverse] at hq
    unfold range at hq
    exact (List.mem_filter.mp hq).1
  have hlen : (range t .unb (.incl (split v).1)).reverse.length ≤ t.length := by
    rw [List.length_reverse]; unfold range; exact List.length_filter_le _ _
  show _ < 2^64
  cases hr : (range t .unb (.incl (split v).1)).reverse with
  | nil => simp only []; omega
  | cons p rest =>
    obtain ⟨k, bm⟩ := p
    rw [hr] at hsub hlen
    simp only [List.length_cons] at hlen
    have hb : bm.WF := (h _ (hsub (k, bm) (by simp))).2
    have hrest := len_le_mul rest (fun q hq => h q (hsub q (by simp [hq])))
    have h1 := Bitmap.wf_len_le bm hb
    have hlo : (split v).2 < 4294967296 := by unfold split; simp only []; omega
    have h2 : Bitmap.rank bm (split v).2 ≤ 4294967296 := by
      rw [Bitmap.rank_spec bm hb _ hlo]
      unfold Spec.rank
      have := List.length_filter_le (fun x => decide (x ≤ (split v).2)) (Bitmap.elems bm)
      rw [← Bitmap.len_spec bm hb] at this
      omega
    have : 4294967296 * rest.length ≤ 4294967296 * 4294967294 := Nat.mul_le_mul_left _ (by omega)
    simp only []
    split <;> omega

end Treemap
end Roaring
