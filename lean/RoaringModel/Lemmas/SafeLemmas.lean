import RoaringModel.Safe
import RoaringModel.Lemmas.BStoreRange
import RoaringModel.Lemmas.ArrFacts
/-!
# The `Safe_*` side conditions follow from well-formedness (C16)

For every predicate of `RoaringModel/Safe.lean`: a theorem `safe_…` deriving it from the structural invariant of the
receiver (`BStore.Inv`, `Arr.Inv`, `Store.WF`, `Bitmap.WF`) and the range of the arguments (`u16` index, `s ≤ e`, …).
-/
namespace Roaring

/-! ## word level -/

theorem popcount_popLow (w : Nat) (hw : w < 2^64) : popcount (popLow w) = popcount w - 1 := by
  rw [BStore.popcount_eq _ (BStore.popLow_lt hw), BStore.popcount_eq w hw, BStore.bitPos_popLow w hw, List.length_tail]

theorem popcount_popHigh (w : Nat) (hw : w < 2^64) : popcount (popHigh w) = popcount w - 1 := by
  rw [BStore.popcount_eq _ (BStore.popHigh_lt hw), BStore.popcount_eq w hw, BStore.bitPos_popHigh w hw,
    List.length_dropLast]

/-- `value &= value - 1` may run `popcount value` times -/
theorem safe_popLowN (n : Nat) : ∀ (w : Nat), w < 2^64 → n ≤ popcount w → Safe_popLowN w n := by
  induction n with
  | zero => intro w _ _; trivial
  | succ n ih =>
    intro w hw hn
    refine ⟨?_, ih (popLow w) (BStore.popLow_lt hw) ?_⟩
    · intro h0; subst h0; rw [popcount_zero] at hn; omega
    · rw [popcount_popLow w hw]; omega

/-- clearing the highest set bit may run `popcount word` times -/
theorem safe_popHighN (n : Nat) : ∀ (w : Nat), w < 2^64 → n ≤ popcount w → Safe_popHighN w n := by
  induction n with
  | zero => intro w _ _; trivial
  | succ n ih =>
    intro w hw hn
    have h0 : w ≠ 0 := by intro h0; subst h0; rw [popcount_zero] at hn; omega
    refine ⟨h0, BStore.hiBit_lt w h0 hw, ih (popHigh w) (BStore.popHigh_lt hw) ?_⟩
    rw [popcount_popHigh w hw]; omega

namespace BStore
open Mask

/-! ## BitmapStore -/

theorem len_le (b : BStore) (hb : b.Inv) : b.len ≤ 65536 := by
  rw [len_eq_countP b hb]
  have := List.countP_le_length (p := fun x => b.test x) (l := List.range 65536)
  simpa using this

theorem popSum_le (bits : List Nat) (hl : bits.length = 1024) (hw : ∀ w ∈ bits, w < 2^64) : popSum bits ≤ 65536 :=
  len_le { len := popSum bits, bits := bits } ⟨hl, hw, rfl⟩

theorem safe_insert (b : BStore) (hb : b.Inv) (i : Nat) (hi : i < 65536) : b.Safe_insert i := by
  have hle := len_le b hb
  unfold Safe_insert wkey wbit
  simp only [Word.xor_setBit_shiftRight]
  refine ⟨by rw [hb.length]; omega, by omega, ?_⟩
  show _ < 2^64
  split <;> omega

theorem safe_remove (b : BStore) (hb : b.Inv) (i : Nat) (hi : i < 65536) : b.Safe_remove i := by
  have hk : i / 64 < b.bits.length := by rw [hb.length]; omega
  have hbit : i % 64 < 64 := by omega
  have hold : word b.bits (i / 64) < 2^64 := word_lt hb.words _
  unfold Safe_remove wkey wbit
  simp only [Word.xor_clearBit_shiftRight _ _ hold]
  refine ⟨hk, hbit, ?_⟩
  split
  · rename_i ht
    rw [hb.len]
    exact Nat.le_trans (one_le_popcount_of_testBit hold hbit ht) (popcount_word_le_popSum _ _ hk)
  · omega

theorem safe_contains (b : BStore) (hb : b.Inv) (i : Nat) (hi : i < 65536) : b.Safe_contains i := by
  unfold Safe_contains wkey wbit
  exact ⟨by rw [hb.length]; omega, by omega⟩

/-! ### ranges -/

theorem countIn_le_len (b : BStore) (hb : b.Inv) (s e : Nat) : b.countIn s e ≤ b.len := by
  unfold countIn
  rw [← length_toArray b hb]
  exact List.length_filter_le _ _

theorem countIn_le_range (b : BStore) (hb : b.Inv) (s e : Nat) (he : e < 65536) : b.countIn s e ≤ e - s + 1 := by
  rw [countIn_eq_countP b hb]
  have h4 : (List.range 65536).countP (fun x => (decide (s ≤ x) && decide (x ≤ e)) && b.test x)
      ≤ (List.range 65536).countP (fun x => decide (s ≤ x) && decide (x ≤ e)) := by
    apply List.countP_mono_left
    intro x _ h; simp only [Bool.and_eq_true] at h ⊢; exact h.1
  have h2 := countP_interval s e 65536
  omega

theorem insertRangeExisted_eq (b : BStore) (hb : b.Inv) (s e : Nat) (hse : s ≤ e) (he : e < 65536) :
    insertRangeExisted b s e = b.countIn s e := by
  have hl := hb.length
  have hsk : s / 64 < 1024 := by omega
  have hek : e / 64 < 1024 := by omega
  rw [countIn_eq_maskedSum b hb]
  unfold insertRangeExisted wkey wbit
  by_cases h : s / 64 = e / 64
  · simp only [if_pos h]
    rw [maskedSum_range_same b.bits s e h (by omega)]
  · simp only [if_neg h]
    have hlt : s / 64 < e / 64 := by
      have : s / 64 ≤ e / 64 := Nat.div_le_div_right hse
      omega
    rw [maskedSum_range_span b.bits hb.words s e hlt (by omega)]
    rw [List.drop_set_of_lt (by omega), word_fillWords _ _ _ _ _ (by omega) (by simp; omega),
      if_neg (by omega), word_set _ _ _ _ (by omega), if_neg (by omega)]

theorem safe_insertRange (b : BStore) (hb : b.Inv) (s e : Nat) (hse : s ≤ e) (he : e < 65536) :
    b.Safe_insertRange s e := by
  have hle := len_le b hb
  have h1 := countIn_le_range b hb s e he
  have h2 := countIn_le_len b hb s e
  unfold Safe_insertRange wkey wbit
  simp only [insertRangeExisted_eq b hb s e hse he]
  refine ⟨by rw [hb.length]; omega, by rw [hb.length]; omega, by omega, by omega, hse, ?_, ?_, h1, ?_⟩
  · intro h; show _ < 2^16; omega
  · show _ < 2^32; omega
  · show _ < 2^64; omega

theorem safe_removeRange (b : BStore) (hb : b.Inv) (s e : Nat) (hse : s ≤ e) (he : e < 65536) :
    b.Safe_removeRange s e := by
  have hle := len_le b hb
  have h2 := countIn_le_len b hb s e
  have hle' : s / 64 ≤ e / 64 := Nat.div_le_div_right hse
  unfold Safe_removeRange wkey wbit
  simp only [(removeRange_spec b hb s e hse he).2.2]
  refine ⟨by rw [hb.length]; omega, by rw [hb.length]; omega, by omega, by omega, by omega, ?_, h2⟩
  show _ < 2^32; omega

theorem safe_containsRange (b : BStore) (hb : b.Inv) (s e : Nat) (hse : s ≤ e) (he : e < 65536) :
    b.Safe_containsRange s e := by
  have hle' : s / 64 ≤ e / 64 := Nat.div_le_div_right hse
  unfold Safe_containsRange wkey wbit
  refine ⟨hse, fun _ => ⟨by omega, by omega, by omega, hle', by rw [hb.length]; omega⟩⟩

/-! ### min / max / to_array_store / rank / select -/

theorem safe_toArray (b : BStore) (hb : b.Inv) : b.Safe_toArray := fun x hx => toArray_lt b hb x hx

theorem safe_rank (b : BStore) (hb : b.Inv) (i : Nat) (hi : i < 65536) : b.Safe_rank i := by
  have hk : i / 64 < b.bits.length := by rw [hb.length]; omega
  unfold Safe_rank wkey wbit
  refine ⟨hk, by omega, ?_⟩
  show _ < 2^64
  have h1 : popSum (b.bits.take (i / 64)) ≤ popSum b.bits := by
    have := congrArg popSum (List.take_append_drop (i / 64) b.bits)
    rw [popSum_append] at this; omega
  have h2 : popcount ((word b.bits (i / 64) <<< (63 - i % 64)) % W) ≤ 64 :=
    Word.popcount_le_64 _ (by rw [W_eq]; exact Nat.mod_lt _ (by decide))
  have := popSum_le b.bits hb.length hb.words
  omega

theorem safe_selectFrom (ws : List Nat) : ∀ (k n : Nat), (∀ w ∈ ws, w < 2^64) → k + ws.length ≤ 1024 →
    Safe_selectFrom k ws n := by
  induction ws with
  | nil => intro k n _ _; trivial
  | cons w ws ih =>
    intro k n hws hk
    have hw : w < 2^64 := hws w (by simp)
    unfold Safe_selectFrom
    split
    · rename_i hn
      refine ⟨safe_popLowN n w hw (by omega), ?_⟩
      -- the selected bit is a bit position of `w`
      have hsel : (bitPos w)[n]? = some (selectBit w n) :=
        bitPos_getElem?_selectBit n w hw (by rw [← popcount_eq w hw]; exact hn)
      have hmem : selectBit w n ∈ bitPos w := List.mem_of_getElem? hsel
      have := ((mem_bitPos w _).1 hmem).1
      simp only [List.length_cons] at hk
      show _ < 2^16
      omega
    · rename_i hn
      refine ⟨by omega, ih (k + 1) _ (fun x hx => hws x (by simp [hx])) ?_⟩
      simp only [List.length_cons] at hk
      omega

theorem safe_select (b : BStore) (hb : b.Inv) (n : Nat) : b.Safe_select n :=
  safe_selectFrom b.bits 0 n hb.words (by rw [hb.length]; omega)

/-! ### remove_smallest / remove_biggest -/

theorem safe_rsLoop (ws : List Nat) : ∀ n, (∀ w ∈ ws, w < 2^64) → Safe_rsLoop ws n := by
  induction ws with
  | nil => intro n _; trivial
  | cons w ws ih =>
    intro n hws
    have hw : w < 2^64 := hws w (by simp)
    unfold Safe_rsLoop
    split
    · rename_i hn; exact safe_popLowN n w hw (by omega)
    · rename_i hn
      exact ⟨by omega, Or.inr (ih _ (fun x hx => hws x (by simp [hx])))⟩

theorem safe_removeSmallest (b : BStore) (hb : b.Inv) (n : Nat) : b.Safe_removeSmallest n := by
  intro hn
  exact ⟨by omega, safe_rsLoop b.bits n hb.words⟩

theorem safe_rbLoop (ws : List Nat) : ∀ n, (∀ w ∈ ws, w < 2^64) → Safe_rbLoop ws n := by
  induction ws with
  | nil => intro n _; trivial
  | cons w ws ih =>
    intro n hws
    have hw : w < 2^64 := hws w (by simp)
    unfold Safe_rbLoop
    split
    · rename_i hn; exact safe_popHighN n w hw (by omega)
    · rename_i hn
      exact ⟨by omega, Or.inr (ih _ (fun x hx => hws x (by simp [hx])))⟩

theorem safe_removeBiggest (b : BStore) (hb : b.Inv) (n : Nat) : b.Safe_removeBiggest n := by
  intro hn
  exact ⟨by omega, safe_rbLoop b.bits.reverse n (fun w hw => hb.words w (List.mem_reverse.1 hw))⟩

/-! ### assign operators with an array on the right -/

theorem safe_orArr (v : List Nat) : ∀ (b : BStore), b.Inv → (∀ x ∈ v, x < 65536) → Safe_orArr b v := by
  induction v with
  | nil => intro b _ _; trivial
  | cons i v ih =>
    intro b hb hv
    have hi : i < 65536 := hv i (by simp)
    exact ⟨safe_insert b hb i hi, ih _ (insert_spec b hb i hi).1 (fun x hx => hv x (by simp [hx]))⟩

theorem safe_subArr (v : List Nat) : ∀ (b : BStore), b.Inv → (∀ x ∈ v, x < 65536) → Safe_subArr b v := by
  induction v with
  | nil => intro b _ _; trivial
  | cons i v ih =>
    intro b hb hv
    have hi : i < 65536 := hv i (by simp)
    exact ⟨safe_remove b hb i hi, ih _ (remove_spec b hb i hi).1 (fun x hx => hv x (by simp [hx]))⟩

theorem safe_xorArrLoop (v : List Nat) : ∀ (b : BStore), b.Inv → (∀ x ∈ v, x < 65536) →
    Safe_xorArrLoop ((b.len : Int), b.bits) v := by
  induction v with
  | nil => intro b _ _; trivial
  | cons i v ih =>
    intro b hb hv
    have hi : i < 65536 := hv i (by simp)
    obtain ⟨b', hb', e, _⟩ := xorArrStep_spec b hb i hi
    have hle' := len_le b' hb'
    have hk : wkey i < b.bits.length := by rw [hb.length]; unfold wkey; omega
    have hbit : wbit i < 64 := Nat.mod_lt _ (by decide)
    unfold xorArrStep at e
    simp only [Prod.mk.injEq] at e
    obtain ⟨e1, e2⟩ := e
    have e1' : (b.len : Int) + (1 - 2 * ((((1 <<< wbit i) &&& word b.bits (wkey i)) >>> wbit i : Nat) : Int)) = (b'.len : Int) := by
      rw [← e1]; omega
    unfold Safe_xorArrLoop
    simp only [e1', e2]
    refine ⟨hk, hbit, ?_, ?_, by omega, ih b' hb' (fun x hx => hv x (by simp [hx]))⟩
    · rw [bit_and_shr_eq]
      cases (word b.bits (wkey i)).testBit (wbit i) <;> simp <;> omega
    · constructor <;> omega

theorem safe_xorArr (b : BStore) (hb : b.Inv) (v : List Nat) (hv : ∀ x ∈ v, x < 65536) : b.Safe_xorArr v := by
  have hle := len_le b hb
  exact ⟨by constructor <;> omega, safe_xorArrLoop v b hb hv⟩

theorem safe_opBitmaps (f : Nat → Nat → Nat) (hf : ∀ x y, x < 2^64 → y < 2^64 → f x y < 2^64)
    (a b : BStore) (ha : a.Inv) (hb : b.Inv) : Safe_opBitmaps f a b := by
  unfold Safe_opBitmaps
  have : popSum (List.zipWith f a.bits b.bits) ≤ 65536 := by
    apply popSum_le
    · simp [ha.length, hb.length]
    · intro w hw
      obtain ⟨k, hk, rfl⟩ := List.getElem_of_mem hw
      rw [List.getElem_zipWith]
      exact hf _ _ (ha.words _ (List.getElem_mem _)) (hb.words _ (List.getElem_mem _))
  show _ < 2^64
  omega

theorem safe_interLenArray (b : BStore) (hb : b.Inv) (v : List Nat) (hv : Arr.Inv v) : b.Safe_interLenArray v := by
  refine ⟨fun i hi => ?_, ?_⟩
  · have := hv.2 i hi
    unfold wkey wbit
    exact ⟨by rw [hb.length]; omega, by omega⟩
  · rw [interLenArray_spec b hb v hv.2]
    have h1 : (v.filter fun x => b.test x).length ≤ v.length := List.length_filter_le _ _
    have h2 := (Arr.sorted_bounded_length v hv.1 0 65536 (fun x hx => ⟨Nat.zero_le _, by have := hv.2 x hx; omega⟩)).1
    show _ < 2^64
    omega

theorem safe_interLenBitmap (a b : BStore) (ha : a.Inv) (hb : b.Inv) : a.Safe_interLenBitmap b := by
  unfold Safe_interLenBitmap
  rw [interLenBitmap_spec a b ha hb]
  have h1 : (a.toArray.filter fun x => b.test x).length ≤ a.toArray.length := List.length_filter_le _ _
  rw [length_toArray a ha] at h1
  have := len_le a ha
  show _ < 2^64
  omega

end BStore
end Roaring
