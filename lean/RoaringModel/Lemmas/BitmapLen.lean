import RoaringModel.Lemmas.BitmapCmp
/-!
# Cardinality-only operations (ops.rs:29-104): `intersection_len` over `Pairs`, `len`, and the
inclusion–exclusion arithmetic (the `wrapping_*` never wrap)
-/
namespace Roaring

/-! ### counting facts on the SPEC merges -/
namespace Spec

theorem sAnd_nil_right (l : List Nat) : sAnd l [] = [] := by cases l <;> simp [sAnd]
theorem sSub_nil_right (l : List Nat) : sSub l [] = l := by cases l <;> simp [sSub]

theorem length_sOr_add_sAnd (l r : List Nat) :
    (sOr l r).length + (sAnd l r).length = l.length + r.length := by
  fun_induction sOr l r <;> grind [sAnd, sAnd_nil_right]

theorem length_sSub_add_sAnd (l r : List Nat) : (sSub l r).length + (sAnd l r).length = l.length := by
  fun_induction sSub l r <;> grind [sAnd, sAnd_nil_right]

theorem sAnd_eq_filter (l r : List Nat) (hl : Roaring.Sorted l) (hr : Roaring.Sorted r) :
    sAnd l r = l.filter (fun x => decide (x ∈ r)) := by
  apply Arr.sorted_ext _ _ (sorted_sAnd l r hl hr) (List.Pairwise.sublist List.filter_sublist hl)
  intro x; rw [mem_sAnd l r hl hr]; simp

theorem sAnd_comm (l r : List Nat) (hl : Roaring.Sorted l) (hr : Roaring.Sorted r) : sAnd l r = sAnd r l := by
  apply Arr.sorted_ext _ _ (sorted_sAnd l r hl hr) (sorted_sAnd r l hr hl)
  intro x; rw [mem_sAnd l r hl hr, mem_sAnd r l hr hl]; exact And.comm

theorem length_sXor (l r : List Nat) (hl : Roaring.Sorted l) (hr : Roaring.Sorted r) :
    (sXor l r).length + 2 * (sAnd l r).length = l.length + r.length := by
  have h1 := length_sOr_add_sAnd (sSub l r) (sSub r l)
  have hdis : sAnd (sSub l r) (sSub r l) = [] := by
    apply List.eq_nil_iff_forall_not_mem.mpr
    intro x hx
    rw [mem_sAnd _ _ (sorted_sSub l r hl hr) (sorted_sSub r l hr hl), mem_sSub l r hl hr,
      mem_sSub r l hr hl] at hx
    exact hx.1.2 hx.2.1
  rw [hdis] at h1
  have h2 := length_sSub_add_sAnd l r
  have h3 := length_sSub_add_sAnd r l
  rw [sAnd_comm r l hr hl] at h3
  unfold sXor
  simp only [List.length_nil, Nat.add_zero] at h1
  omega

end Spec

/-- a strictly ascending list of naturals below `n` has at most `n` entries -/
theorem sorted_length_le : ∀ (l : List Nat) (n : Nat), Sorted l → (∀ x ∈ l, x < n) → l.length ≤ n
  | [], _, _, _ => by simp
  | [a], n, _, h => by have := h a (by simp); simp; omega
  | a :: b :: l, n, hs, h => by
    have hs' := List.pairwise_cons.mp hs
    have hab : a < b := hs'.1 b (by simp)
    -- shift: the tail is a sorted list below `n`, and all of it is above `a`, so compare with `n - 1`
    have ih := sorted_length_le (b :: l) n hs'.2 (fun x hx => h x (List.mem_cons_of_mem _ hx))
    -- stronger: length (b :: l) + b ≤ n  is what is needed; prove it separately
    have key : ∀ (l : List Nat) (a : Nat), Sorted (a :: l) → (∀ x ∈ a :: l, x < n) → (a :: l).length + a ≤ n := by
      intro l
      induction l with
      | nil => intro a _ h; have := h a (by simp); simp; omega
      | cons b l ih =>
        intro a hs h
        have hs' := List.pairwise_cons.mp hs
        have hab : a < b := hs'.1 b (by simp)
        have := ih b hs'.2 (fun x hx => h x (List.mem_cons_of_mem _ hx))
        simp only [List.length_cons] at this ⊢
        omega
    have := key (b :: l) a hs h
    simp only [List.length_cons] at this ⊢
    omega

namespace Bitmap

theorem foldl_add_init (xs : List Nat) (n : Nat) : xs.foldl (· + ·) n = n + xs.foldl (· + ·) 0 := by
  induction xs generalizing n with
  | nil => simp
  | cons x xs ih => simp only [List.foldl_cons]; rw [ih (n + x), ih (0 + x)]; omega

/-- the number of elements of `a` that are also in `b` -/
def cnt (a b : Bitmap) : Nat := ((elems a).filter (fun y => decide (y ∈ elems b))).length

theorem cnt_nil_left (b : Bitmap) : cnt [] b = 0 := by simp [cnt, elems]

theorem cntL (K : BKernel) (l : Container) (ls bs : Bitmap) (hl : l.store.Inv) (hbsi : StoresInv bs)
    (hbs : ∀ d ∈ bs, l.key < d.key) : cnt (l :: ls) bs = cnt ls bs := by
  unfold cnt
  rw [elems_cons, List.filter_append, List.length_append]
  have : l.elems.filter (fun y => decide (y ∈ elems bs)) = [] := by
    rw [List.filter_eq_nil_iff]
    intro y hy
    have := (mem_celems l (Store.elems_ltK K _ hl) y).mp hy
    simpa using not_mem_elems_of_key_lt K bs hbsi l.key y hbs this.1
  rw [this]; simp

theorem cnt_congr_above (K : BKernel) (r : Container) (as rs : Bitmap) (hr : r.store.Inv) (hrsi : StoresInv rs)
    (hrs : ∀ d ∈ rs, r.key < d.key) (hasi : StoresInv as) (has : ∀ d ∈ as, r.key < d.key) :
    cnt as (r :: rs) = cnt as rs := by
  unfold cnt
  congr 1
  apply List.filter_congr
  intro y hy
  obtain ⟨c, hc, hck⟩ := key_of_mem_elems K as hasi y hy
  have hne : ¬ y / 65536 = r.key := by have := has c hc; omega
  have := mem_elems_head K r rs hr hrsi hrs y
  simp only [hne, false_and, not_false_eq_true, true_and, false_or] at this
  simp [this]

theorem cntB (K : BKernel) (l r : Container) (ls rs : Bitmap) (hl : l.store.Inv) (hr : r.store.Inv)
    (hkey : l.key = r.key) (hlsi : StoresInv ls) (hrsi : StoresInv rs)
    (hls : ∀ d ∈ ls, l.key < d.key) (hrs : ∀ d ∈ rs, r.key < d.key) :
    cnt (l :: ls) (r :: rs) = l.interLen r + cnt ls rs := by
  have h2 : cnt ls (r :: rs) = cnt ls rs :=
    cnt_congr_above K r ls rs hr hrsi hrs hlsi (fun d hd => hkey ▸ hls d hd)
  unfold cnt at *
  rw [elems_cons l ls, List.filter_append, List.length_append, h2]
  congr 1
  rw [Container.interLen_spec K l r hl hr]
  unfold Container.elems
  rw [List.filter_map, List.length_map]
  congr 1
  apply List.filter_congr
  intro i hi
  have hlt := Store.elems_ltK K _ hl i hi
  have := mem_elems_head K r rs hr hrsi hrs (l.key * 65536 + i)
  have e1 : (l.key * 65536 + i) / 65536 = r.key := by omega
  have e2 : (l.key * 65536 + i) % 65536 = i := by omega
  simp only [e1, e2, true_and, not_true_eq_false, false_and, or_false] at this
  simp [this]

/-- ops.rs:29 `intersection_len` counts the common elements -/
theorem interLen_eq_cnt (K : BKernel) : ∀ (a b : Bitmap), WF a → WF b → interLen a b = cnt a b
  | [], [], _, _ => by simp [interLen, pairs, cnt, elems]
  | l :: ls, [], ha, hb => by
    obtain ⟨hl, hls, hlsw⟩ := wf_cons l ls ha
    have ih := interLen_eq_cnt K ls [] hlsw hb
    rw [cntL K l ls [] (Store.wf_inv _ hl.2) (by intro c hc; simp at hc) (by simp), ← ih]
    simp only [interLen, pairs, List.map_cons, List.foldl_cons, Nat.add_zero]
  | [], r :: rs, ha, hb => by
    obtain ⟨hr, hrs, hrsw⟩ := wf_cons r rs hb
    have ih := interLen_eq_cnt K [] rs ha hrsw
    rw [cnt_nil_left] at ih ⊢
    rw [← ih]
    simp only [interLen, pairs, List.map_cons, List.foldl_cons, Nat.add_zero]
  | l :: ls, r :: rs, ha, hb => by
    obtain ⟨hl, hls, hlsw⟩ := wf_cons l ls ha
    obtain ⟨hr, hrs, hrsw⟩ := wf_cons r rs hb
    by_cases h1 : l.key = r.key
    · have ih := interLen_eq_cnt K ls rs hlsw hrsw
      rw [cntB K l r ls rs (Store.wf_inv _ hl.2) (Store.wf_inv _ hr.2) h1 (storesInv_of_wf ls hlsw)
        (storesInv_of_wf rs hrsw) hls hrs, ← ih]
      simp only [interLen, pairs, h1, if_true, List.map_cons, List.foldl_cons, Nat.zero_add]
      rw [foldl_add_init]
    · by_cases h2 : l.key < r.key
      · have ih := interLen_eq_cnt K ls (r :: rs) hlsw hb
        have hbs : ∀ d ∈ r :: rs, l.key < d.key := by
          intro d hd
          rcases List.mem_cons.mp hd with rfl | hd
          · exact h2
          · exact Nat.lt_trans h2 (hrs d hd)
        rw [cntL K l ls (r :: rs) (Store.wf_inv _ hl.2) (storesInv_of_wf _ hb) hbs, ← ih]
        simp only [interLen, pairs, h1, h2, if_true, if_false, List.map_cons, List.foldl_cons, Nat.add_zero]
      · have ih := interLen_eq_cnt K (l :: ls) rs ha hrsw
        have h3 : r.key < l.key := by omega
        have has : ∀ d ∈ l :: ls, r.key < d.key := by
          intro d hd
          rcases List.mem_cons.mp hd with rfl | hd
          · exact h3
          · exact Nat.lt_trans h3 (hls d hd)
        rw [cnt_congr_above K r (l :: ls) rs (Store.wf_inv _ hr.2) (storesInv_of_wf rs hrsw) hrs
          (storesInv_of_wf _ ha) has, ← ih]
        simp only [interLen, pairs, h1, h2, if_false, List.map_cons, List.foldl_cons, Nat.add_zero]
termination_by a b => a.length + b.length

theorem foldl_len_init (cs : List Container) (n : Nat) :
    cs.foldl (fun acc c => acc + c.len) n = n + cs.foldl (fun acc c => acc + c.len) 0 := by
  induction cs generalizing n with
  | nil => simp
  | cons x xs ih => simp only [List.foldl_cons]; rw [ih (n + x.len), ih (0 + x.len)]; omega

/-- inherent.rs `len` is the number of elements -/
theorem len_eq_lengthK (K : BKernel) (b : Bitmap) (hb : StoresInv b) : len b = (elems b).length := by
  unfold len
  induction b with
  | nil => simp [elems]
  | cons c cs ih =>
    have hc := hb c (by simp)
    have ih' := ih (fun d hd => hb d (List.mem_cons_of_mem _ hd))
    simp only [List.foldl_cons, Nat.zero_add]
    rw [foldl_len_init, ih', elems_cons, List.length_append]
    simp only [Container.elems, List.length_map, Container.len]
    rw [Store.length_elems K _ hc]

/-- every element of a well-formed bitmap is a `u32` -/
theorem elems_ltK (K : BKernel) (b : Bitmap) (hb : WF b) : ∀ y ∈ elems b, y < 4294967296 := by
  intro y hy
  simp only [elems, List.mem_flatMap] at hy
  obtain ⟨c, hc, hyc⟩ := hy
  have hci := Store.wf_inv _ (hb.2 c hc).2
  have := (mem_celems c (Store.elems_ltK K _ hci) y).mp hyc
  have hk := (hb.2 c hc).1
  have h3 := Nat.mod_lt y (show 65536 > 0 by omega)
  have h1 := Nat.div_add_mod y 65536
  omega

theorem length_elems_le (K : BKernel) (b : Bitmap) (hb : WF b) : (elems b).length ≤ 4294967296 :=
  sorted_length_le _ _ (sorted_elemsK K b hb) (elems_ltK K b hb)

end Bitmap
end Roaring
