import RoaringModel.Lemmas.TreemapKernel32
import RoaringModel.Lemmas.TreemapRangeConv
import RoaringModel.Lemmas.SpecFacts
import RoaringModel.Lemmas.BitmapMut2
/-!
# `RoaringTreemap::insert_range` (treemap/inherent.rs:70) refines `Spec.insertRange u64Max`

The span `[start, en]` touches the partitions `start / 2^32 ..= en / 2^32`.  Each iteration of the loop
(`insertRangeStep`) inserts the part of the span that lies in one partition; whole middle partitions are replaced
by `RoaringBitmap::full()`.  The fold is handled by peeling the *last* partition and `Bitmap.insertIv_comp`
(`[a, m]` then `[m+1, b]` is `[a, b]`, for the set and for the count).
Everything is relative to a bundle `K : Kernel32` of 32-bit facts (named hypotheses, no axioms).
-/
namespace Roaring
namespace Treemap
open TL

/-- the values of partition `k` as seen through `entry(k).or_default()` -/
abbrev irPart (t : Treemap) (k : Nat) : List Nat := Bitmap.elems ((get t k).getD Bitmap.new)

/-- the values of `t` inside the window `[k·2^32 + a, k·2^32 + b]` are those of partition `k` inside `[a, b]` -/
theorem insertRange_filter_part (K : Kernel32) {t : Treemap} (hw : WF K t) {k a b : Nat} (hb : b < P32) :
    (elems t).filter (fun x => decide (k * P32 + a ≤ x) && decide (x ≤ k * P32 + b)) =
      ((irPart t k).filter (fun y => decide (a ≤ y) && decide (y ≤ b))).map (fun y => k * P32 + y) := by
  apply sorted_ext (sorted_filter _ (sorted_elems (kE K) hw))
    (sorted_map_add _ (sorted_filter _ (K.elems_sorted _ (wf_getD K hw k))))
  intro x
  simp only [List.mem_filter, List.mem_map, Bool.and_eq_true, decide_eq_true_eq]
  rw [mem_elems_getD K hw x]
  constructor
  · rintro ⟨hm, h1, h2⟩
    have hx : x / P32 = k := by omega
    rw [hx] at hm
    exact ⟨x % P32, ⟨hm, by omega, by omega⟩, by omega⟩
  · rintro ⟨y, ⟨hy, h1, h2⟩, rfl⟩
    have e1 : (k * P32 + y) / P32 = k := by omega
    have e2 : (k * P32 + y) % P32 = y := by omega
    rw [e1, e2]
    exact ⟨hy, by omega, by omega⟩

/-- (a) one partition: replacing partition `k` by a bitmap holding `part k ∪ [a, b]` is inserting
    `[k·2^32 + a, k·2^32 + b]` into the treemap, and the two counts of new values agree -/
theorem insertRange_part (K : Kernel32) {t : Treemap} (hw : WF K t) {k a b : Nat} {nb : Bitmap}
    (hk : k < P32) (hab : a ≤ b) (hb : b < P32) (hnb : K.WF nb)
    (he : Bitmap.elems nb = (Spec.insertIv (irPart t k) a b).1) :
    WF K (insertKV t k nb) ∧
    elems (insertKV t k nb) = (Spec.insertIv (elems t) (k * P32 + a) (k * P32 + b)).1 ∧
    (Spec.insertIv (irPart t k) a b).2 = (Spec.insertIv (elems t) (k * P32 + a) (k * P32 + b)).2 := by
  have hsort := sorted_elems (kE K) hw
  have hne : Bitmap.elems nb ≠ [] := by
    rw [he]; intro h
    have := (Spec.mem_insertIv (irPart t k) a b a hab).2 (Or.inl ⟨Nat.le_refl _, hab⟩)
    rw [h] at this; simp at this
  obtain ⟨hw', hm⟩ := insertKV_spec K hw hk hnb hne
  refine ⟨hw', ?_, ?_⟩
  · apply sorted_ext (sorted_elems (kE K) hw') (Spec.sorted_insertIv _ hsort _ _ (by omega))
    intro x
    rw [hm, Spec.mem_insertIv _ _ _ _ (by omega)]
    by_cases hx : x / P32 = k
    · rw [if_pos hx, he, Spec.mem_insertIv _ _ _ _ hab, mem_elems_getD K hw x, hx]
      constructor
      · rintro (h | h)
        · left; omega
        · right; exact h
      · rintro (h | h)
        · left; omega
        · right; exact h
    · rw [if_neg hx]
      constructor
      · exact Or.inr
      · rintro (h | h)
        · exfalso; apply hx; omega
        · exact h
  · simp only [Spec.insertIv]
    rw [insertRange_filter_part K hw hb, List.length_map]
    omega

/-- (b1) the three `entry(hi).or_default().insert_range(a..=b)` branches -/
theorem insertRange_entry (K : Kernel32) {t : Treemap} (hw : WF K t) {k a b : Nat}
    (hk : k < P32) (hab : a ≤ b) (hb : b < P32) :
    WF K (entryOrDefault t k (fun bm => Bitmap.insertRange bm (.incl a) (.incl b))).1 ∧
    elems (entryOrDefault t k (fun bm => Bitmap.insertRange bm (.incl a) (.incl b))).1 =
      (Spec.insertIv (elems t) (k * P32 + a) (k * P32 + b)).1 ∧
    (entryOrDefault t k (fun bm => Bitmap.insertRange bm (.incl a) (.incl b))).2 =
      (Spec.insertIv (elems t) (k * P32 + a) (k * P32 + b)).2 := by
  obtain ⟨h1, h2, h3⟩ := K.insertRange_spec _ a b (wf_getD K hw k) hab hb
  obtain ⟨g1, g2, g3⟩ := insertRange_part K hw hk hab hb h1 h2
  exact ⟨g1, g2, h3.trans g3⟩

/-- (b2) a whole partition: `RoaringBitmap::full()` replaces partition `k`; the counter grows by
    `full.len()` (vacant entry) or `full.len() - old.len()` (occupied entry) -/
theorem insertRange_full (K : Kernel32) {t : Treemap} (hw : WF K t) {k : Nat} (hk : k < P32) :
    WF K (insertKV t k fullBitmap) ∧
    elems (insertKV t k fullBitmap) = (Spec.insertIv (elems t) (k * P32 + 0) (k * P32 + u32Max)).1 ∧
    (match get t k with
      | none => Bitmap.len fullBitmap
      | some old => Bitmap.len fullBitmap - Bitmap.len old) =
      (Spec.insertIv (elems t) (k * P32 + 0) (k * P32 + u32Max)).2 := by
  obtain ⟨hfw, hfe⟩ := K.full_spec
  have hu : u32Max = 4294967295 := rfl
  have hpw := wf_getD K hw k
  have hsub : ∀ y ∈ irPart t k, y < P32 := K.elems_lt _ hpw
  have he : Bitmap.elems fullBitmap = (Spec.insertIv (irPart t k) 0 u32Max).1 := by
    rw [hfe]
    apply sorted_ext List.pairwise_lt_range'
      (Spec.sorted_insertIv _ (K.elems_sorted _ hpw) _ _ (Nat.zero_le _))
    intro x
    rw [List.mem_range'_1, Spec.mem_insertIv _ _ _ _ (Nat.zero_le _), hu]
    constructor
    · intro h; left; omega
    · rintro (h | h)
      · omega
      · have := hsub x h; omega
  obtain ⟨g1, g2, g3⟩ := insertRange_part K hw hk (Nat.zero_le _) (by rw [hu]; omega) hfw he
  refine ⟨g1, g2, ?_⟩
  rw [← g3]
  have hlen : Bitmap.len fullBitmap = P32 := by
    rw [K.len_spec _ hfw, hfe, List.length_range']
  have hid : (irPart t k).filter (fun x => decide (0 ≤ x) && decide (x ≤ u32Max)) = irPart t k := by
    apply List.filter_eq_self.mpr
    intro y hy
    have := hsub y hy
    simp only [Bool.and_eq_true, decide_eq_true_eq, hu]; omega
  simp only [Spec.insertIv]
  rw [hid, hlen, hu]
  cases hg : get t k with
  | none => simp only [irPart, hg, Option.getD_none, Bitmap.new, Bitmap.elems]; rfl
  | some old =>
    simp only [irPart, hg, Option.getD_some]
    rw [K.len_spec _ (hw.get hg).2.1]

/-- lower end of the sub-range handled in partition `hi` -/
def irLo (sh sl hi : Nat) : Nat := if hi = sh then sl else 0
/-- upper end of the sub-range handled in partition `hi` -/
def irHi (eh el hi : Nat) : Nat := if hi = eh then el else u32Max

/-- (b) one iteration of the loop inserts `[hi·2^32 + lo, hi·2^32 + up]` -/
theorem insertRangeStep_spec (K : Kernel32) {t : Treemap} (hw : WF K t) {sh sl eh el hi : Nat}
    (hsl : sl < P32) (hel : el < P32) (hhi : hi < P32) (hse : hi = sh → hi = eh → sl ≤ el) :
    WF K (insertRangeStep sh sl eh el t hi).1 ∧
    elems (insertRangeStep sh sl eh el t hi).1 =
      (Spec.insertIv (elems t) (hi * P32 + irLo sh sl hi) (hi * P32 + irHi eh el hi)).1 ∧
    (insertRangeStep sh sl eh el t hi).2 =
      (Spec.insertIv (elems t) (hi * P32 + irLo sh sl hi) (hi * P32 + irHi eh el hi)).2 := by
  have hu : u32Max = 4294967295 := rfl
  unfold insertRangeStep irLo irHi
  by_cases h1 : hi = sh
  · by_cases h2 : hi = eh
    · have hc : (decide (hi = eh) && decide (hi = sh)) = true := by
        rw [Bool.and_eq_true]; exact ⟨decide_eq_true h2, decide_eq_true h1⟩
      rw [if_pos hc, if_pos h1, if_pos h2]
      exact insertRange_entry K hw hhi (hse h1 h2) hel
    · have hc : ¬ (decide (hi = eh) && decide (hi = sh)) = true := by simp [h2]
      rw [if_neg hc, if_pos h1, if_pos h1, if_neg h2]
      exact insertRange_entry K hw hhi (by rw [hu]; omega) (by rw [hu]; omega)
  · have hc : ¬ (decide (hi = eh) && decide (hi = sh)) = true := by simp [h1]
    rw [if_neg hc, if_neg h1, if_neg h1]
    by_cases h2 : hi = eh
    · rw [if_pos h2, if_pos h2]
      exact insertRange_entry K hw hhi (Nat.zero_le _) hel
    · rw [if_neg h2, if_neg h2]
      obtain ⟨g1, g2, g3⟩ := insertRange_full K hw hhi
      cases hg : get t hi with
      | none =>
        rw [hg] at g3
        simp only [] at g3 ⊢
        exact ⟨g1, g2, g3⟩
      | some old =>
        rw [hg] at g3
        simp only [] at g3 ⊢
        exact ⟨g1, g2, g3⟩

/-- the loop of `insert_range` over the first `m` partitions of the span -/
def irFold (sh sl eh el : Nat) (t : Treemap) (m : Nat) : Treemap × Nat :=
  (List.range' sh m).foldl (fun (st : Treemap × Nat) hi =>
    let r := insertRangeStep sh sl eh el st.1 hi
    (r.1, st.2 + r.2)) (t, 0)

theorem irFold_succ (sh sl eh el : Nat) (t : Treemap) (m : Nat) :
    irFold sh sl eh el t (m + 1) =
      ((insertRangeStep sh sl eh el (irFold sh sl eh el t m).1 (sh + m)).1,
       (irFold sh sl eh el t m).2 + (insertRangeStep sh sl eh el (irFold sh sl eh el t m).1 (sh + m)).2) := by
  unfold irFold
  rw [List.range'_concat, List.foldl_append, Nat.one_mul]
  rfl

/-- (c) after the partitions `sh ..= sh + n` the state is `insertIv` of the span cut at the end of
    partition `sh + n` (or at `en` if that is the last partition) -/
theorem irFold_spec (K : Kernel32) (t : Treemap) (hw : WF K t) (sh sl eh el : Nat)
    (hsl : sl < P32) (hel : el < P32) (heh : eh < P32) (hse : sh = eh → sl ≤ el) :
    ∀ n, sh + n ≤ eh →
      WF K (irFold sh sl eh el t (n + 1)).1 ∧
      elems (irFold sh sl eh el t (n + 1)).1 =
        (Spec.insertIv (elems t) (sh * P32 + sl) ((sh + n) * P32 + irHi eh el (sh + n))).1 ∧
      (irFold sh sl eh el t (n + 1)).2 =
        (Spec.insertIv (elems t) (sh * P32 + sl) ((sh + n) * P32 + irHi eh el (sh + n))).2 := by
  have hu : u32Max = 4294967295 := rfl
  have hsort := sorted_elems (kE K) hw
  intro n
  induction n with
  | zero =>
    intro _
    rw [irFold_succ]
    have h0 : irFold sh sl eh el t 0 = (t, 0) := rfl
    rw [h0]
    obtain ⟨g1, g2, g3⟩ := insertRangeStep_spec K hw (sh := sh) (eh := eh) (hi := sh + 0) hsl hel
      (by omega) (fun _ h => hse (by omega))
    have hlo : irLo sh sl (sh + 0) = sl := by simp [irLo]
    rw [hlo] at g2 g3
    refine ⟨g1, g2, ?_⟩
    simp only [Nat.zero_add]; exact g3
  | succ n ih =>
    intro hn
    obtain ⟨i1, i2, i3⟩ := ih (by omega)
    rw [irFold_succ]
    generalize irFold sh sl eh el t (n + 1) = st at i1 i2 i3 ⊢
    have hne : ¬ sh + n = eh := by omega
    have hM : irHi eh el (sh + n) = 4294967295 := by simp [irHi, hne, hu]
    rw [hM] at i2 i3
    obtain ⟨g1, g2, g3⟩ := insertRangeStep_spec K i1 (sh := sh) (eh := eh) (hi := sh + (n + 1)) hsl hel
      (by omega) (fun h => by omega)
    have hlo : irLo sh sl (sh + (n + 1)) = 0 := by simp [irLo]
    have hup : irHi eh el (sh + (n + 1)) ≤ 4294967295 := by
      unfold irHi; split <;> omega
    rw [hlo] at g2 g3
    have hstart : (sh + (n + 1)) * P32 + 0 = ((sh + n) * P32 + 4294967295) + 1 := by omega
    rw [i2, hstart] at g2 g3
    obtain ⟨c1, c2⟩ := Bitmap.insertIv_comp (elems t) hsort (sh * P32 + sl) ((sh + n) * P32 + 4294967295)
      ((sh + (n + 1)) * P32 + irHi eh el (sh + (n + 1))) (by omega) (by omega)
    refine ⟨g1, g2.trans c1, ?_⟩
    simp only []
    rw [i3, g3]; exact c2

private theorem insertRange_eq (t : Treemap) (lo hi : Bound) :
    insertRange t lo hi = match convertRange64 lo hi with
      | none => (t, 0)
      | some (start, en) =>
        irFold (split start).1 (split start).2 (split en).1 (split en).2 t ((split en).1 + 1 - (split start).1) :=
  rfl

/-- (d) `insert_range` refines `Spec.insertRange u64Max`: well-formedness is preserved, the set becomes
    `s ∪ range`, the result is the number of new values (as a `Nat`: the model's counter does not wrap) -/
theorem insertRange_spec (K : Kernel32) (t : Treemap) (hw : WF K t) (lo hi : Bound)
    (hlo : Bound.le u64Max lo) (hhi : Bound.le u64Max hi) :
    WF K (insertRange t lo hi).1 ∧
    elems (insertRange t lo hi).1 = (Spec.insertRange u64Max (elems t) lo hi).1 ∧
    (insertRange t lo hi).2 = (Spec.insertRange u64Max (elems t) lo hi).2 := by
  rw [insertRange_eq, convertRange64_interval lo hi hlo hhi]
  unfold Spec.insertRange
  cases hi' : Spec.interval u64Max lo hi with
  | none => exact ⟨hw, rfl, rfl⟩
  | some p =>
    obtain ⟨start, en⟩ := p
    obtain ⟨hse, hen⟩ := interval64_bounds hi'
    have hu64 : u64Max = 18446744073709551615 := rfl
    rw [hu64] at hen
    simp only []
    rw [split_fst_of_lt (v := start) (by omega), split_fst_of_lt (v := en) (by omega), split_snd, split_snd]
    have hdiv : start / P32 ≤ en / P32 := Nat.div_le_div_right hse
    have hm : en / P32 + 1 - start / P32 = (en / P32 - start / P32) + 1 := by omega
    rw [hm]
    have e1 : start / P32 * P32 + start % P32 = start := Nat.div_add_mod' start P32
    have e2 : (start / P32 + (en / P32 - start / P32)) * P32 +
        irHi (en / P32) (en % P32) (start / P32 + (en / P32 - start / P32)) = en := by
      have : start / P32 + (en / P32 - start / P32) = en / P32 := by omega
      rw [this, irHi, if_pos rfl]; exact Nat.div_add_mod' en P32
    have h := irFold_spec K t hw (start / P32) (start % P32) (en / P32) (en % P32)
      (Nat.mod_lt _ (by decide)) (Nat.mod_lt _ (by decide)) (by omega) (by omega)
      (en / P32 - start / P32) (by omega)
    rw [e1, e2] at h
    exact h

end Treemap
end Roaring
