import RoaringModel.SpecCodec
import RoaringModel.Lemmas.CodecKernel
/-!
# The model's decoders accept every conformant stream and return exactly its set (C06)

`decode_spec`: whenever the strict reference decoder `Spec.decode` accepts a byte string with set `S` and
unread rest `rest`, `deserialize chk dbg` (either decoder, either build configuration) returns a `Bitmap.WF`
value `b` with `elems b = S` and the same `rest`.  The proof walks the two decoders through the same layout:
cookie/size/run-bitset, descriptions, offsets (`decodeHeader_spec`), the container loop
(`decodeContainers_spec`) and one payload (`decodeStore_spec`: run / array / bitset chunk).
-/
namespace Roaring
open Parser

theorem guard_some_iff (p : Prop) [Decidable p] (u : Unit) : (guard p : Option Unit) = some u ↔ p := by
  by_cases h : p <;> simp [guard, h, failure]

theorem leNat_eq : ∀ l : List Nat, Spec.leNat l = leVal l
  | [] => rfl
  | b :: bs => by simp only [Spec.leNat, leVal, leNat_eq bs]

theorem leInts_eq (k : Nat) : ∀ (cnt : Nat) (bs : List Nat), Spec.leInts k cnt bs = leWordsN k cnt bs
  | 0, _ => rfl
  | cnt+1, bs => by simp only [Spec.leInts, leWordsN, leNat_eq, leInts_eq k cnt]

theorem toPairs_eq : ∀ l : List Nat, Spec.toPairs l = pairs l
  | [] => rfl
  | [_] => rfl
  | a :: b :: l => by simp only [Spec.toPairs, pairs, toPairs_eq l]

theorem strictAsc_eq : ∀ l : List Nat, Spec.strictAsc l = Arr.isStrictlySorted l
  | [] => rfl
  | [_] => rfl
  | a :: b :: l => by simp only [Spec.strictAsc, Arr.isStrictlySorted, strictAsc_eq (b :: l)]

theorem takeN_some {n : Nat} {bs a r : List Nat} (h : Spec.takeN n bs = some (a, r)) :
    readN n bs = .ok (a, r) ∧ a.length = n ∧ a = bs.take n ∧ r = bs.drop n ∧ n ≤ bs.length := by
  unfold Spec.takeN at h
  split at h
  · rename_i hn
    simp only [Option.some.injEq, Prod.mk.injEq] at h
    obtain ⟨rfl, rfl⟩ := h
    refine ⟨?_, by simp; omega, rfl, rfl, hn⟩
    unfold readN
    rw [if_neg (by omega)]
  · simp at h

theorem leWords_of_length (n cnt : Nat) (bs : List Nat) (hn : 0 < n) (h : bs.length = n * cnt) :
    leWords n bs = leWordsN n cnt bs := by
  unfold leWords
  rw [h, Nat.mul_div_cancel_left _ hn]

theorem bitsetVals_eq_aux : ∀ (ws : List Nat) (k : Nat), (∀ w ∈ ws, w < 2 ^ 64) →
    ((ws.zipIdx k).flatMap fun (w, i) => ((List.range 64).filter (fun j => w.testBit j)).map (64 * i + ·))
      = BStore.toArrayFrom k ws
  | [], _, _ => rfl
  | w :: ws, k, h => by
    have hw : w < 2 ^ 64 := h w List.mem_cons_self
    have hws : ∀ w ∈ ws, w < 2 ^ 64 := fun v hv => h v (List.mem_cons_of_mem _ hv)
    rw [List.zipIdx_cons, List.flatMap_cons, BStore.toArrayFrom_cons k w ws hw, bitsetVals_eq_aux ws (k + 1) hws]
    rfl

theorem bitsetVals_eq (ws : List Nat) (h : ∀ w ∈ ws, w < 2 ^ 64) : Spec.bitsetVals ws = BStore.toArrayFrom 0 ws :=
  bitsetVals_eq_aux ws 0 h

/-- the values of a run list -/
def runVals (runs : List (Nat × Nat)) : List Nat := runs.flatMap fun r => List.range' r.1 (r.2 + 1)

theorem runVals_cons (r : Nat × Nat) (rs : List (Nat × Nat)) :
    runVals (r :: rs) = List.range' r.1 (r.2 + 1) ++ runVals rs := by
  simp [runVals]

theorem mem_runVals (runs : List (Nat × Nat)) (x : Nat) :
    x ∈ runVals runs ↔ ∃ r ∈ runs, r.1 ≤ x ∧ x ≤ r.1 + r.2 := by
  simp only [runVals, List.mem_flatMap, List.mem_range'_1]
  constructor
  · rintro ⟨r, hr, h1, h2⟩; exact ⟨r, hr, h1, by omega⟩
  · rintro ⟨r, hr, h1, h2⟩; exact ⟨r, hr, h1, by omega⟩

theorem runsOK_bound : ∀ (runs : List (Nat × Nat)), Spec.runsOK runs = true → ∀ r ∈ runs, r.1 + r.2 ≤ 65535
  | [], _, r, hr => by simp at hr
  | [(s, l)], h, r, hr => by
    simp only [List.mem_cons, List.not_mem_nil, or_false] at hr
    subst hr
    simpa [Spec.runsOK] using h
  | (s, l) :: (s', l') :: rs, h, r, hr => by
    simp only [Spec.runsOK, Bool.and_eq_true, decide_eq_true_eq] at h
    rcases List.mem_cons.mp hr with rfl | hr
    · exact h.1.1
    · exact runsOK_bound _ h.2 r hr

theorem runsOK_tail : ∀ (r : Nat × Nat) (rs : List (Nat × Nat)), Spec.runsOK (r :: rs) = true → Spec.runsOK rs = true
  | _, [], _ => rfl
  | (s, l), (s', l') :: rs, h => by
    simp only [Spec.runsOK, Bool.and_eq_true, decide_eq_true_eq] at h
    exact h.2

theorem runsOK_gt : ∀ (rs : List (Nat × Nat)) (s l : Nat), Spec.runsOK ((s, l) :: rs) = true →
    ∀ x ∈ runVals rs, s + l < x
  | [], _, _, _, x, hx => by simp [runVals] at hx
  | (s', l') :: rs, s, l, h, x, hx => by
    simp only [Spec.runsOK, Bool.and_eq_true, decide_eq_true_eq] at h
    rw [runVals_cons, List.mem_append, List.mem_range'_1] at hx
    rcases hx with hx | hx
    · simp only at hx; omega
    · have := runsOK_gt rs s' l' h.2 x hx
      omega

theorem runsOK_sorted : ∀ (runs : List (Nat × Nat)), Spec.runsOK runs = true → Sorted (runVals runs)
  | [], _ => by simp [runVals, Sorted]
  | (s, l) :: rs, h => by
    rw [runVals_cons, Sorted, List.pairwise_append]
    refine ⟨List.pairwise_lt_range', runsOK_sorted rs (runsOK_tail _ _ h), ?_⟩
    intro a ha b hb
    rw [List.mem_range'_1] at ha
    have := runsOK_gt rs s l h b hb
    simp only at ha; omega

theorem replayRuns_ok : ∀ (runs : List (Nat × Nat)) (st : Store), (∀ r ∈ runs, r.1 + r.2 ≤ 65535) →
    ∃ st', replayRuns st runs = .ok st'
  | [], st, _ => ⟨st, rfl⟩
  | (s, l) :: rs, st, h => by
    have h1 := h (s, l) List.mem_cons_self
    unfold replayRuns
    rw [if_neg (by simp only at h1; omega)]
    exact replayRuns_ok rs _ (fun r hr => h r (List.mem_cons_of_mem _ hr))

/-- a conformant run list replays (from any `Store::with_capacity`) to a structurally valid store holding
    exactly its values (not yet normalised: `ensure_correct_store` comes later, or — in
    `intersection_with_serialized` — only after the `&=`) -/
theorem runStore_conformant (cap : Nat) (runs : List (Nat × Nat)) (hok : Spec.runsOK runs = true) :
    ∃ st, replayRuns (Store.withCapacity cap) runs = .ok st ∧ st.Inv ∧ st.elems = runVals runs := by
  obtain ⟨st, hst⟩ := replayRuns_ok runs (Store.withCapacity cap) (runsOK_bound runs hok)
  obtain ⟨e1, _, e3⟩ := replayRuns_spec runs _ st (withCapacity_inv cap) hst
  refine ⟨st, hst, e1, ?_⟩
  apply Arr.sorted_ext _ _ (Store.sorted_elems _ e1) (runsOK_sorted runs hok)
  intro x
  rw [e3 x, mem_runVals, withCapacity_elems]
  simp

theorem isBytes_take {bs : List Nat} (n : Nat) (h : IsBytes bs) : IsBytes (bs.take n) :=
  fun x hx => h x (List.mem_of_mem_take hx)
theorem isBytes_drop {bs : List Nat} (n : Nat) (h : IsBytes bs) : IsBytes (bs.drop n) :=
  fun x hx => h x (List.mem_of_mem_drop hx)

/-- a run chunk: the model's `decodeRunStore` returns a structurally valid store with the reference values -/
theorem decodeRunStore_spec (card : Nat) (bs vals rest : List Nat) (hb : IsBytes bs) (hcard : 1 ≤ card)
    (h : Spec.decodeChunk true card bs = some (vals, rest)) :
    ∃ st, decodeRunStore readN bs = .ok (st, rest) ∧ st.Inv ∧ st.elems = vals ∧ vals ≠ [] ∧ IsBytes rest := by
  unfold Spec.decodeChunk at h
  simp only [↓reduceIte, bind, Option.bind_eq_some_iff, Prod.exists, guard_some_iff, pure,
    Option.some.injEq, Prod.mk.injEq] at h
  obtain ⟨nb, r1, h1, ib, r2, h2, _, hok, _, hlen, hv, hr⟩ := h
  obtain ⟨t1, l1, e1, d1, _⟩ := takeN_some h1
  obtain ⟨t2, l2, e2, d2, _⟩ := takeN_some h2
  subst hr
  have hrest : IsBytes r2 := by rw [d2, d1]; exact isBytes_drop _ (isBytes_drop _ hb)
  have hruns : pairs (leWords 2 ib) = Spec.toPairs (Spec.leInts 2 (2 * Spec.leNat nb) ib) := by
    rw [toPairs_eq, leInts_eq, leWords_of_length 2 (2 * Spec.leNat nb) ib (by decide) (by rw [l2]; omega)]
  have hne : vals ≠ [] := by
    intro hc
    rw [hv, hc] at hlen; simp at hlen; omega
  obtain ⟨st, hst, hinv, hel⟩ := runStore_conformant
    ((List.map (·.2) (pairs (leWords 2 ib))).foldl (· + ·) 0) _ hok
  refine ⟨st, ?_, hinv, by rw [hel, ← hv]; rfl, hne, hrest⟩
  unfold decodeRunStore
  rw [bind_ok _ _ _ _ _ t1]
  simp only [← leNat_eq]
  rw [Nat.mul_comm, bind_ok _ _ _ _ _ t2]
  rw [← hruns] at hst
  rw [hst]; rfl

/-- one chunk: whenever the reference decoder accepts a payload, the model's chunk decoder (either decoder,
    either build configuration) returns the well-formed store holding exactly the reference values, and
    leaves the same rest -/
theorem decodeStore_spec (chk dbg : Bool) (card : Nat) (isRun : Bool) (bs vals rest : List Nat)
    (hb : IsBytes bs) (hcard : 1 ≤ card)
    (h : Spec.decodeChunk isRun card bs = some (vals, rest)) :
    ∃ st, decodeStore readN chk dbg card isRun bs = .ok (st, rest) ∧ st.WF ∧ st.elems = vals ∧ IsBytes rest := by
  cases isRun with
  | true =>
    obtain ⟨st, hrun, hinv, hel, hne, hrest⟩ := decodeRunStore_spec card bs vals rest hb hcard h
    obtain ⟨e1, e2, _⟩ := Container.ensureCorrectStore_spec { key := 0, store := st } hinv
    refine ⟨_, ?_, Store.wf_of_canon _ e1 (by rw [e2, hel]; exact hne), by rw [e2, hel], hrest⟩
    unfold decodeStore
    simp only [↓reduceIte]
    rw [bind_ok _ _ _ _ _ hrun]
    rfl
  | false =>
    unfold Spec.decodeChunk at h
    unfold decodeStore
    simp only [Bool.false_eq_true, ↓reduceIte] at h ⊢
    by_cases hc : card ≤ 4096
    · have hc' : card ≤ ARRAY_LIMIT := hc
      simp only [hc, hc', ↓reduceIte, bind, Option.bind_eq_some_iff, Prod.exists, guard_some_iff, pure,
        Option.some.injEq, Prod.mk.injEq] at h ⊢
      obtain ⟨vb, r1, h1, _, hasc, hv, hr⟩ := h
      obtain ⟨t1, l1, e1, d1, _⟩ := takeN_some h1
      subst hr
      have hvb : IsBytes vb := by rw [e1]; exact isBytes_take _ hb
      have hrest : IsBytes r1 := by rw [d1]; exact isBytes_drop _ hb
      have hvals : leWords 2 vb = vals := by
        rw [← hv, leInts_eq, leWords_of_length 2 card vb (by decide) l1]
      have hsorted : Arr.isStrictlySorted vals = true := by rw [← strictAsc_eq, ← hv]; exact hasc
      have hlen : vals.length = card := by rw [← hv, leInts_eq, leWordsN_length]
      refine ⟨.array vals, ?_, ⟨⟨(isStrictlySorted_iff _).mp hsorted, ?_⟩, by omega, by omega⟩, rfl, hrest⟩
      · unfold decodeArrayStore
        rw [Nat.mul_comm, bind_ok _ _ _ _ _ t1]
        simp only [hvals]
        cases chk with
        | true => simp [hsorted, pure, Parser.pure]
        | false =>
          simp only [Bool.false_eq_true, ↓reduceIte, Arr.fromVecUnchecked, hsorted]
          cases dbg <;> simp [ofOption, Parser.pure]
      · intro x hx
        rw [← hvals] at hx
        have := leWords_lt 2 vb hvb x hx
        simpa using this
    · have hc' : ¬ card ≤ ARRAY_LIMIT := hc
      simp only [hc, hc', ↓reduceIte, bind, Option.bind_eq_some_iff, Prod.exists, guard_some_iff, pure,
        Option.some.injEq, Prod.mk.injEq] at h ⊢
      obtain ⟨wb, r1, h1, _, hlen, hv, hr⟩ := h
      obtain ⟨t1, l1, e1, d1, _⟩ := takeN_some h1
      subst hr
      have hwb : IsBytes wb := by rw [e1]; exact isBytes_take _ hb
      have hrest : IsBytes r1 := by rw [d1]; exact isBytes_drop _ hb
      have hwords : leWords 8 wb = Spec.leInts 8 1024 wb := by
        rw [leInts_eq, leWords_of_length 8 1024 wb (by decide) l1]
      have hlt : ∀ w ∈ leWords 8 wb, w < 2 ^ 64 := by
        intro w hw
        have := leWords_lt 8 wb hwb w hw
        simpa using this
      have hwl : (leWords 8 wb).length = 1024 := by rw [leWords_length, l1]
      have hvals : BStore.toArrayFrom 0 (leWords 8 wb) = vals := by
        rw [← hv, ← hwords, bitsetVals_eq _ hlt]
      have hpop : card = BStore.popSum (leWords 8 wb) := by
        rw [← BStore.length_toArrayFrom _ hlt 0, hvals, ← hv]; exact hlen.symm
      have hinv : BStore.Inv { len := card, bits := leWords 8 wb } := ⟨hwl, hlt, hpop⟩
      refine ⟨.bitmap { len := card, bits := leWords 8 wb }, ?_, ⟨hinv, by show 4096 < card; omega⟩, hvals, hrest⟩
      unfold decodeBitmapStore
      rw [bind_ok _ _ _ _ _ t1]
      have htf : BStore.tryFrom card (leWords 8 wb) = some { len := card, bits := leWords 8 wb } := by
        rw [BStore.tryFrom_spec, if_pos hpop]
      cases chk with
      | true => simp [htf, ofOption, Parser.pure]
      | false =>
        simp only [Bool.false_eq_true, ↓reduceIte, BStore.fromUnchecked, htf]
        cases dbg <;> simp [ofOption, Parser.pure]


theorem isRunAt_eq (flags : Option (List Nat)) (i : Nat) :
    isRunAt flags i = (match flags with
      | some f => (f.getD (i / 8) 0).testBit (i % 8)
      | none => false) := by
  cases flags with
  | none => rfl
  | some f => exact Word.and_one_shiftLeft_ne_zero _ _

theorem decodeChunks_cons_inv {flags : Option (List Nat)} {key cardM1 : Nat} {ds : List (Nat × Nat)}
    {i pos : Nat} {offs : Option (List Nat)} {bs S rest : List Nat}
    (h : Spec.decodeChunks flags ((key, cardM1) :: ds) i pos offs bs = some (S, rest)) :
    ∃ offs' vals r1 more,
      (∀ os, offs = some os → ∃ tl, os = pos :: tl ∧ offs' = some tl) ∧
      Spec.decodeChunk (isRunAt flags i) (cardM1 + 1) bs = some (vals, r1) ∧
      Spec.decodeChunks flags ds (i + 1) (pos + (bs.length - r1.length)) offs' r1 = some (more, rest) ∧
      S = vals.map (key * 65536 + ·) ++ more := by
  have key_step : ∀ (r : Bool) (offs' : Option (List Nat)),
      ((Spec.decodeChunk r (cardM1 + 1) bs).bind fun x =>
        (Spec.decodeChunks flags ds (i + 1) (pos + (bs.length - x.snd.length)) offs' x.snd).bind fun y =>
          some (List.map (fun v => key * 65536 + v) x.fst ++ y.fst, y.snd)) = some (S, rest) →
      ∃ vals r1 more,
        Spec.decodeChunk r (cardM1 + 1) bs = some (vals, r1) ∧
        Spec.decodeChunks flags ds (i + 1) (pos + (bs.length - r1.length)) offs' r1 = some (more, rest) ∧
        S = vals.map (key * 65536 + ·) ++ more := by
    intro r offs' h
    simp only [Option.bind_eq_some_iff, Prod.exists, Option.some.injEq, Prod.mk.injEq] at h
    obtain ⟨vals, r1, h1, more, r2, h2, hS, hr⟩ := h
    subst hr
    exact ⟨vals, r1, more, h1, h2, hS.symm⟩
  have e := isRunAt_eq flags i
  cases flags with
  | none =>
    simp only [Spec.decodeChunks, bind, pure] at h
    simp only at e
    rw [e]
    split at h
    · obtain ⟨vals, r1, more, h1, h2, h3⟩ := key_step _ _ (by simpa only [Option.bind_some] using h)
      exact ⟨_, vals, r1, more, (by intro os hos; cases hos), h1, h2, h3⟩
    · simp at h
    · split at h
      · rename_i o os ho
        obtain ⟨vals, r1, more, h1, h2, h3⟩ := key_step _ _ (by simpa only [Option.bind_some] using h)
        refine ⟨_, vals, r1, more, ?_, h1, h2, h3⟩
        intro os' hos
        simp only [Option.some.injEq] at hos
        exact ⟨os, by rw [← hos, ho], rfl⟩
      · simp at h
  | some f =>
    simp only [Spec.decodeChunks, bind, pure] at h
    simp only at e
    rw [e]
    split at h
    · obtain ⟨vals, r1, more, h1, h2, h3⟩ := key_step _ _ (by simpa only [Option.bind_some] using h)
      exact ⟨_, vals, r1, more, (by intro os hos; cases hos), h1, h2, h3⟩
    · simp at h
    · split at h
      · rename_i o os ho
        obtain ⟨vals, r1, more, h1, h2, h3⟩ := key_step _ _ (by simpa only [Option.bind_some] using h)
        refine ⟨_, vals, r1, more, ?_, h1, h2, h3⟩
        intro os' hos
        simp only [Option.some.injEq] at hos
        exact ⟨os, by rw [← hos, ho], rfl⟩
      · simp at h

/-- the container loop: the model decodes what the reference decoder decodes, chunk by chunk -/
theorem decodeContainers_spec (chk dbg : Bool) (flags : Option (List Nat)) :
    ∀ (ds : List (Nat × Nat)) (i pos : Nat) (offs : Option (List Nat)) (bs S rest : List Nat),
      IsBytes bs → Spec.decodeChunks flags ds i pos offs bs = some (S, rest) →
      ∃ cs, decodeContainers readN chk dbg flags ds i bs = .ok (cs, rest) ∧
        cs.map (·.key) = ds.map (·.1) ∧ (∀ c ∈ cs, c.store.WF) ∧ Bitmap.elems cs = S ∧ IsBytes rest
  | [], i, pos, offs, bs, S, rest, hb, h => by
    simp only [Spec.decodeChunks, Option.some.injEq, Prod.mk.injEq] at h
    obtain ⟨rfl, rfl⟩ := h
    exact ⟨[], rfl, rfl, by simp, rfl, hb⟩
  | (key, cardM1) :: ds, i, pos, offs, bs, S, rest, hb, h => by
    obtain ⟨offs', vals, r1, more, _, h1, h2, hS⟩ := decodeChunks_cons_inv h
    obtain ⟨st, hst, hwf, hel, hr1⟩ := decodeStore_spec chk dbg (cardM1 + 1) (isRunAt flags i) bs vals r1 hb
      (by omega) h1
    obtain ⟨cs, hcs, hk, hw, he, hr2⟩ := decodeContainers_spec chk dbg flags ds (i + 1) _ offs' r1 more rest hr1 h2
    refine ⟨{ key := key, store := st } :: cs, ?_, by simp [hk], ?_, ?_, hr2⟩
    · unfold decodeContainers
      rw [bind_ok _ _ _ _ _ hst, bind_ok _ _ _ _ _ hcs]
      rfl
    · intro c hc
      rcases List.mem_cons.mp hc with rfl | hc
      · exact hwf
      · exact hw c hc
    · rw [hS, ← he, ← hel]
      simp [Bitmap.elems, Container.elems]


theorem decodeHeader_spec (bs cb r1 : List Nat) (n : Nat) (flags : Option (List Nat)) (r2 db r3 : List Nat)
    (offs : Option (List Nat)) (r4 : List Nat) (hb : IsBytes bs)
    (h1 : Spec.takeN 4 bs = some (cb, r1))
    (hcase : (if Spec.leNat cb = 12346 then (Spec.takeN 4 r1).bind fun x => some (Spec.leNat x.fst, none, x.snd)
            else
              if Spec.leNat cb % 65536 = 12347 then
                (Spec.takeN ((Spec.leNat cb / 65536 + 1 + 7) / 8) r1).bind fun x =>
                  some (Spec.leNat cb / 65536 + 1, some x.fst, x.snd)
              else none) = some (n, flags, r2))
    (hn : n ≤ 65536)
    (h3 : Spec.takeN (4 * n) r2 = some (db, r3))
    (hoff : (if Spec.leNat cb = 12346 ∨ n ≥ 4 then
                (Spec.takeN (4 * n) r3).bind fun x => some (some (Spec.leInts 4 n x.fst), x.snd)
              else some (none, r3)) = some (offs, r4)) :
    ∃ hd, decodeHeader readN bs = .ok (hd, r4) ∧ hd.runBitmap = flags ∧
      hd.descr = Spec.toPairs (Spec.leInts 2 (2 * n) db) ∧ IsBytes db ∧ IsBytes r4 ∧
      hd.hasOffsets = offs.isSome ∧ (∀ os, offs = some os → hd.offsets = os) := by
  obtain ⟨t1, l1, e1, d1, _⟩ := takeN_some h1
  obtain ⟨t3, l3, e3, d3, _⟩ := takeN_some h3
  have hr1 : IsBytes r1 := by rw [d1]; exact isBytes_drop _ hb
  have hdescr : pairs (leWords 2 db) = Spec.toPairs (Spec.leInts 2 (2 * n) db) := by
    rw [toPairs_eq, leInts_eq, leWords_of_length 2 (2 * n) db (by decide) (by rw [l3]; omega)]
  have hsz : ¬ n > 65536 := by omega
  unfold decodeHeader
  rw [bind_ok _ _ _ _ _ t1]
  simp only [← leNat_eq]
  by_cases hck : Spec.leNat cb = 12346
  · simp only [hck, ↓reduceIte, true_or, Option.bind_eq_some_iff, Prod.exists, Option.some.injEq,
      Prod.mk.injEq] at hcase hoff ⊢
    obtain ⟨nb, rr, h2, hnn, hfl, hrr⟩ := hcase
    subst hrr
    obtain ⟨ob, rr4, h4, hofs, hr4⟩ := hoff
    subst hr4
    obtain ⟨t2, l2, e2, d2, _⟩ := takeN_some h2
    obtain ⟨t4, l4, e4, d4, _⟩ := takeN_some h4
    have hows : leWords 4 ob = Spec.leInts 4 n ob := by
      rw [leInts_eq, leWords_of_length 4 n ob (by decide) l4]
    have hr2 : IsBytes rr := by rw [d2]; exact isBytes_drop _ hr1
    have hdb : IsBytes db := by rw [e3]; exact isBytes_take _ hr2
    have hr3 : IsBytes r3 := by rw [d3]; exact isBytes_drop _ hr2
    have hr4 : IsBytes rr4 := by rw [d4]; exact isBytes_drop _ hr3
    rw [bind_ok _ _ _ _ _ (bind_ok _ _ _ _ _ t2)]
    simp only [hnn, Bool.false_eq_true, ↓reduceIte]
    rw [bind_ok _ _ _ _ _ (rfl : (pure none : Parser (List Nat) (Option (List Nat))) rr = .ok (none, rr))]
    simp only [hsz, ↓reduceIte]
    rw [Nat.mul_comm n 4, bind_ok _ _ _ _ _ t3, bind_ok _ _ _ _ _ t4]
    refine ⟨_, rfl, hfl, hdescr, hdb, hr4, by rw [← hofs]; rfl, ?_⟩
    intro os hos
    rw [← hofs] at hos
    simp only [Option.some.injEq] at hos
    rw [← hos]; exact hows
  · by_cases hck2 : Spec.leNat cb % 65536 = 12347
    · simp only [hck, hck2, ↓reduceIte, false_or, Option.bind_eq_some_iff, Prod.exists, Option.some.injEq,
        Prod.mk.injEq] at hcase hoff ⊢
      obtain ⟨fb, rr, h2, hnn, hfl, hrr⟩ := hcase
      subst hrr
      obtain ⟨t2, l2, e2, d2, _⟩ := takeN_some h2
      have hr2 : IsBytes rr := by rw [d2]; exact isBytes_drop _ hr1
      have hdb : IsBytes db := by rw [e3]; exact isBytes_take _ hr2
      have hr3 : IsBytes r3 := by rw [d3]; exact isBytes_drop _ hr2
      rw [bind_ok _ _ _ _ _ (rfl : (pure (Spec.leNat cb / 65536 + 1, decide (Spec.leNat cb / 65536 + 1 ≥ 4), true) :
        Parser (List Nat) (Nat × Bool × Bool)) r1 = .ok (_, r1))]
      rw [hnn] at t2
      simp only [hnn, ↓reduceIte]
      rw [bind_ok _ _ _ _ _ (bind_ok _ _ _ _ _ t2)]
      simp only [hsz, ↓reduceIte]
      rw [Nat.mul_comm n 4, bind_ok _ _ _ _ _ t3]
      by_cases h4n : n ≥ 4
      · simp only [h4n, ↓reduceIte, Option.bind_eq_some_iff, Prod.exists, Option.some.injEq, Prod.mk.injEq,
          decide_true] at hoff ⊢
        obtain ⟨ob, rr4, h4, hofs, hr4⟩ := hoff
        subst hr4
        obtain ⟨t4, l4, e4, d4, _⟩ := takeN_some h4
        have hr4 : IsBytes rr4 := by rw [d4]; exact isBytes_drop _ hr3
        have hows : leWords 4 ob = Spec.leInts 4 n ob := by
          rw [leInts_eq, leWords_of_length 4 n ob (by decide) l4]
        rw [bind_ok _ _ _ _ _ t4]
        refine ⟨_, rfl, hfl, hdescr, hdb, hr4, by rw [← hofs]; rfl, ?_⟩
        intro os hos
        rw [← hofs] at hos
        simp only [Option.some.injEq] at hos
        rw [← hos]; exact hows
      · simp only [h4n, ↓reduceIte, Option.some.injEq, Prod.mk.injEq, decide_false, Bool.false_eq_true] at hoff ⊢
        obtain ⟨hofs, hr4⟩ := hoff
        subst hr4
        rw [bind_ok _ _ _ _ _ (rfl : (pure [] : Parser (List Nat) (List Nat)) r3 = .ok ([], r3))]
        refine ⟨_, rfl, hfl, hdescr, hdb, hr3, by rw [← hofs]; rfl, ?_⟩
        intro os hos
        rw [← hofs] at hos
        cases hos
    · simp [hck, hck2] at hcase


/-- what acceptance by the reference decoder says about the header, in the model's terms -/
theorem decode_inv (bs S rest : List Nat) (hb : IsBytes bs) (h : Spec.decode bs = some (S, rest)) :
    ∃ (hd : Header) (r4 : List Nat) (offs : Option (List Nat)),
      decodeHeader readN bs = .ok (hd, r4) ∧ IsBytes r4 ∧
      hd.hasOffsets = offs.isSome ∧ (∀ os, offs = some os → hd.offsets = os) ∧
      (hd.descr.map (·.1)).Pairwise (· < ·) ∧ (∀ d ∈ hd.descr, d.1 < 65536) ∧
      Spec.decodeChunks hd.runBitmap hd.descr 0 (bs.length - r4.length) offs r4 = some (S, rest) := by
  unfold Spec.decode at h
  simp only [bind, Option.bind_eq_some_iff, Prod.exists, guard_some_iff, pure] at h
  obtain ⟨cb, r1, h1, n, flags, r2, hcase, _, hn, db, r3, h3, _, hasc, offs, r4, hoff, hchunks⟩ := h
  obtain ⟨hd, hhd, hrb, hdescr, hdb, hr4, hho, hofs⟩ :=
    decodeHeader_spec bs cb r1 n flags r2 db r3 offs r4 hb h1 hcase hn h3 hoff
  refine ⟨hd, r4, offs, hhd, hr4, hho, hofs, ?_, ?_, by rw [hrb, hdescr]; exact hchunks⟩
  · rw [hdescr]
    apply (isStrictlySorted_iff _).mp
    rw [← strictAsc_eq]; exact hasc
  · intro d hd'
    rw [hdescr, toPairs_eq, leInts_eq] at hd'
    have := leWordsN_lt 2 _ db hdb d.1 (mem_pairs _ d hd').1
    simpa using this

theorem decode_spec (chk dbg : Bool) (bs S rest : List Nat) (hb : IsBytes bs)
    (h : Spec.decode bs = some (S, rest)) :
    ∃ b, deserialize chk dbg bs = .ok (b, rest) ∧ Bitmap.WF b ∧ Bitmap.elems b = S := by
  obtain ⟨hd, r4, offs, hhd, hr4, _, _, hasc, hkd, hchunks⟩ := decode_inv bs S rest hb h
  obtain ⟨cs, hcs, hk, hw, he, _⟩ :=
    decodeContainers_spec chk dbg hd.runBitmap _ 0 _ offs r4 S rest hr4 hchunks
  have hkeys : (cs.map (·.key)).Pairwise (· < ·) := by rw [hk]; exact hasc
  have hkb : ∀ c ∈ cs, c.key < 65536 := by
    intro c hc
    have : c.key ∈ cs.map (·.key) := List.mem_map_of_mem hc
    rw [hk] at this
    obtain ⟨d, hd', hdk⟩ := List.mem_map.mp this
    rw [← hdk]; exact hkd d hd'
  have hwf : Bitmap.WF cs := ⟨hkeys, fun c hc => ⟨hkb c hc, hw c hc⟩⟩
  refine ⟨cs, ?_, hwf, he⟩
  unfold deserialize deserializeG
  rw [bind_ok _ _ _ _ _ hhd]
  rw [bind_ok _ _ _ _ _ hcs]
  cases chk with
  | false => simp [pure, Parser.pure]
  | true =>
    have h1 : cs.any Container.isEmpty = false := by
      rw [List.any_eq_false]
      intro c hc
      simp [Container.isEmpty, storeWF_not_empty ((storeWF_iff _).mpr (hw c hc))]
    have h2 : keysStrictlyAscending cs = true := (keysStrictlyAscending_iff cs).mpr hkeys
    simp [h1, h2, pure, Parser.pure]

end Roaring
