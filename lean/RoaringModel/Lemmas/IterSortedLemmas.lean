import RoaringModel.Lemmas.IterLemmas
/-!
# C03: the remaining values of an iterator are strictly ascending; counting bound
-/
namespace Roaring
namespace Iter

theorem lt_of_hi_lt {a b : Nat} (h : a / 65536 < b / 65536) : a < b := by omega

theorem mid_sorted (K : CKernel) : ∀ (cs : List Container), SortedLt (cs.map (·.key)) → (∀ c ∈ cs, c.IterOK) →
    SortedLt (mid cs) := by
  intro cs
  induction cs with
  | nil => intro _ _; simp [mid_nil, SortedLt]
  | cons c cs ih =>
    intro hs hok
    have hs2 : SortedLt (c.key :: cs.map (·.key)) := hs
    obtain ⟨k1, k2, _⟩ := K.ofContainer c (hok c List.mem_cons_self)
    have hok' : ∀ d ∈ cs, d.IterOK := fun d hd => hok d (List.mem_cons_of_mem _ hd)
    rw [mid_cons]
    refine List.pairwise_append.mpr ⟨?_, ih (List.pairwise_cons.mp hs2).2 hok', ?_⟩
    · rw [← k2]; exact K.rem_sorted _ k1
    · intro a ha b hb
      rw [← k2] at ha
      have h1 := K.rem_hi _ k1 a ha
      obtain ⟨d, hd, h2⟩ := mid_hi K cs hok' b hb
      have := (List.pairwise_cons.mp hs2).1 d.key (List.mem_map_of_mem hd)
      apply lt_of_hi_lt
      rw [h1, h2]; exact this

theorem orem_sorted (K : CKernel) (o : Option CIter) (ho : ∀ c, o = some c → c.Inv) : SortedLt (orem o) := by
  cases o with
  | none => simp [orem, SortedLt]
  | some c => exact K.rem_sorted c (ho c rfl)

/-- the remaining values are strictly ascending -/
theorem rem_sorted (K : CKernel) (it : Iter) (hi : it.Inv) : SortedLt it.rem := by
  unfold Iter.rem
  refine List.pairwise_append.mpr ⟨List.pairwise_append.mpr ⟨orem_sorted K _ hi.fi, mid_sorted K _ hi.sorted hi.cok, ?_⟩,
    orem_sorted K _ hi.bi, ?_⟩
  · intro a ha b hb
    obtain ⟨f, hf, h1⟩ := orem_hi K it.front hi.fi a ha
    obtain ⟨d, hd, h2⟩ := mid_hi K it.containers hi.cok b hb
    apply lt_of_hi_lt
    rw [h1, h2]; exact hi.fr f hf d hd
  · intro a ha b hb
    obtain ⟨g, hg, h2⟩ := orem_hi K it.back hi.bi b hb
    apply lt_of_hi_lt
    rw [h2]
    rcases List.mem_append.mp ha with ha | ha
    · obtain ⟨f, hf, h1⟩ := orem_hi K it.front hi.fi a ha
      rw [h1]; exact hi.fb f g hf hg
    · obtain ⟨d, hd, h1⟩ := mid_hi K it.containers hi.cok a ha
      rw [h1]; exact hi.bk g hg d hd

/-- a strictly ascending list of values in `[m, M]` has at most `M + 1 - m` elements -/
theorem length_le_of_sorted : ∀ (l : List Nat) (m M : Nat), SortedLt l → (∀ x ∈ l, m ≤ x) → (∀ x ∈ l, x ≤ M) →
    l.length ≤ M + 1 - m := by
  intro l
  induction l with
  | nil => intro m M _ _ _; simp
  | cons a l ih =>
    intro m M hs hm hM
    have hs' := List.pairwise_cons.mp hs
    have h1 := hm a List.mem_cons_self
    have h2 := hM a List.mem_cons_self
    have := ih (m + 1) M hs'.2 (fun x hx => by have := hs'.1 x hx; omega)
      (fun x hx => hM x (List.mem_cons_of_mem _ hx))
    simp only [List.length_cons]
    omega

end Iter
end Roaring
