import RoaringModel.Ser
import RoaringModel.IO
import RoaringModel.TreemapSer
/-!
# Fidelity audit, area "codecs and reporting": the mirrored definitions equal the proof-carrying ones

* `Bitmap.statisticsM` (the single accumulating loop of statistics.rs:73-89) `= Bitmap.statistics`, for every value;
* `Bitmap.serializeM ovf` (serialization.rs:66 with the `u64` arithmetic of `(container.len() - 1) as u16`)
  `= some (Bitmap.serialize b)` whenever no container is empty — in particular for `Bitmap.WF` values.
-/
namespace Roaring
namespace Fidelity

private theorem foldl_len_acc (cs : List Container) : ∀ n : Nat,
    cs.foldl (fun acc c => acc + c.len) n = n + cs.foldl (fun acc c => acc + c.len) 0 := by
  induction cs with
  | nil => intro n; rfl
  | cons c cs ih =>
    intro n
    simp only [List.foldl_cons, Nat.zero_add]
    rw [ih (n + c.len), ih c.len]; omega

theorem len_cons (c : Container) (cs : List Container) : Bitmap.len (c :: cs) = c.len + Bitmap.len cs := by
  unfold Bitmap.len
  simp only [List.foldl_cons, Nat.zero_add]
  exact foldl_len_acc cs c.len

/-- array chunks / bitset chunks, the two filters of `Bitmap.statistics` -/
def isArr (c : Container) : Bool := match c.store with | .array _ => true | .bitmap _ => false
def isBm (c : Container) : Bool := match c.store with | .array _ => false | .bitmap _ => true

/-- the loop invariant of statistics.rs:73-89: every counter is its start value plus the corresponding
    traversal of the containers visited -/
theorem stats_loop (cs : List Container) : ∀ a : StatsAcc,
    cs.foldl StatsAcc.step a =
      { nContainers := a.nContainers + cs.length
        nArray := a.nArray + (cs.filter isArr).length
        nBitset := a.nBitset + (cs.filter isBm).length
        valuesArray := a.valuesArray + Bitmap.len (cs.filter isArr)
        valuesBitset := a.valuesBitset + Bitmap.len (cs.filter isBm)
        cardinality := a.cardinality + Bitmap.len cs } := by
  induction cs with
  | nil => intro a; simp [Bitmap.len]
  | cons c cs ih =>
    intro a
    rw [List.foldl_cons, ih]
    cases hs : c.store with
    | array v =>
      have h1 : isArr c = true := by simp [isArr, hs]
      have h2 : isBm c = false := by simp [isBm, hs]
      have hl : c.len = v.length := by simp [Container.len, Store.len, hs]
      simp only [StatsAcc.step, hs, List.filter_cons, h1, h2, len_cons, hl, List.length_cons, if_true]
      simp only [Bool.false_eq_true, if_false, StatsAcc.mk.injEq]
      simp only [true_and]; omega
    | bitmap bs =>
      have h1 : isArr c = false := by simp [isArr, hs]
      have h2 : isBm c = true := by simp [isBm, hs]
      have hl : c.len = bs.len := by simp [Container.len, Store.len, hs]
      simp only [StatsAcc.step, hs, List.filter_cons, h1, h2, len_cons, hl, List.length_cons, if_true]
      simp only [Bool.false_eq_true, if_false, StatsAcc.mk.injEq]
      simp only [true_and]; omega

/-- **statistics.** The single loop computes exactly the per-field traversals of `Bitmap.statistics` — for every
    value (no well-formedness needed). -/
theorem statisticsM_eq (b : Bitmap) : Bitmap.statisticsM b = Bitmap.statistics b := by
  unfold Bitmap.statisticsM Bitmap.statistics
  rw [stats_loop]
  simp only [Nat.zero_add]
  rfl

/-! ### `serialize_into` -/

theorem cardField_pos (ovf : Bool) (len : Nat) (h : 1 ≤ len) : cardField ovf len = some ((len - 1) % 65536) := by
  unfold cardField
  rw [if_neg (by omega)]

theorem descrBytesM_eq (ovf : Bool) : ∀ (b : Bitmap), (∀ c ∈ b, 1 ≤ c.len) →
    Bitmap.descrBytesM ovf b = some (Bitmap.descrBytes b) := by
  intro b
  induction b with
  | nil => intro _; rfl
  | cons c cs ih =>
    intro h
    have hc := h c (by simp)
    have hcs := ih (fun c' hc' => h c' (by simp [hc']))
    simp only [Bitmap.descrBytesM, cardField_pos ovf c.len hc, hcs, Bitmap.descrBytes, List.flatMap_cons,
      List.append_assoc]

/-- **serialize_into.** With the exact `u64` arithmetic of the cardinality field the encoder emits the bytes of
    `Bitmap.serialize`, and does not panic, whenever no container is empty. -/
theorem serializeM_eq (ovf : Bool) (b : Bitmap) (h : ∀ c ∈ b, 1 ≤ c.len) :
    Bitmap.serializeM ovf b = some (Bitmap.serialize b) := by
  unfold Bitmap.serializeM Bitmap.serialize
  rw [descrBytesM_eq ovf b h]

/-- the empty container is where they differ: overflow checks on = panic, off = `0xFFFF`; `serialize` writes `0` -/
example : Bitmap.serializeM true [⟨0, .array []⟩] = none
    ∧ Bitmap.serializeM false [⟨0, .array []⟩] = some [58, 48, 0, 0, 1, 0, 0, 0, 0, 0, 255, 255, 16, 0, 0, 0]
    ∧ Bitmap.serialize [⟨0, .array []⟩] = [58, 48, 0, 0, 1, 0, 0, 0, 0, 0, 0, 0, 16, 0, 0, 0] := by decide

/-! ### the writer path (`ser_fail`) and the treemap encoder -/

theorem writeFieldsM_map_some : ∀ (fs : List (List Nat)) (w : SWriter),
    w.writeFieldsM (fs.map some) = some (w.writeFields fs)
  | [], w => rfl
  | f :: fs, w => by
    simp only [List.map_cons, SWriter.writeFieldsM, SWriter.writeFields]
    cases hw : w.writeAll f with
    | mk ok w' =>
      cases ok with
      | true => exact writeFieldsM_map_some fs w'
      | false => rfl

theorem descrFieldsM_eq (ovf : Bool) : ∀ (b : Bitmap), (∀ c ∈ b, 1 ≤ c.len) →
    Bitmap.descrFieldsM ovf b = (Bitmap.descrFields b).map some := by
  intro b
  induction b with
  | nil => intro _; rfl
  | cons c cs ih =>
    intro h
    have hc := h c (by simp)
    have hcs := ih (fun c' hc' => h c' (by simp [hc']))
    unfold Bitmap.descrFieldsM Bitmap.descrFields at hcs ⊢
    simp only [List.flatMap_cons, List.map_append, hcs, cardField_pos ovf c.len hc, Option.map_some,
      List.map_cons, List.map_nil]

theorem serializeFieldsM_eq (ovf : Bool) (b : Bitmap) (h : ∀ c ∈ b, 1 ≤ c.len) :
    Bitmap.serializeFieldsM ovf b = (Bitmap.serializeFields b).map some := by
  unfold Bitmap.serializeFieldsM Bitmap.serializeFields
  rw [descrFieldsM_eq ovf b h]
  simp only [List.map_append, List.map_cons, List.map_nil]

/-- **serialize_into on a faulty writer.** No panic and the same outcome as `Bitmap.serializeInto` whenever no
    container is empty. -/
theorem serializeIntoM_eq (ovf : Bool) (b : Bitmap) (h : ∀ c ∈ b, 1 ≤ c.len) (w : SWriter) :
    Bitmap.serializeIntoM ovf b w = some (Bitmap.serializeInto b w) := by
  unfold Bitmap.serializeIntoM Bitmap.serializeInto
  rw [serializeFieldsM_eq ovf b h, writeFieldsM_map_some]

theorem partsM_eq (ovf : Bool) : ∀ (t : Treemap), (∀ p ∈ t, ∀ c ∈ p.2, 1 ≤ c.len) →
    Treemap.partsM ovf t = some (t.flatMap fun p => u32le p.1 ++ Bitmap.serialize p.2) := by
  intro t
  induction t with
  | nil => intro _; rfl
  | cons p ps ih =>
    intro h
    have hp := serializeM_eq ovf p.2 (h p (by simp))
    have hps := ih (fun q hq => h q (by simp [hq]))
    simp only [Treemap.partsM, hp, hps, List.flatMap_cons, List.append_assoc]

/-- **treemap serialize_into.** -/
theorem tserializeM_eq (ovf : Bool) (t : Treemap) (h : ∀ p ∈ t, ∀ c ∈ p.2, 1 ≤ c.len) :
    Treemap.serializeM ovf t = some (Treemap.serialize t) := by
  unfold Treemap.serializeM Treemap.serialize
  rw [partsM_eq ovf t h]; rfl

theorem tserializeFieldsM_eq (ovf : Bool) : ∀ (t : Treemap), (∀ p ∈ t, ∀ c ∈ p.2, 1 ≤ c.len) →
    (t.flatMap fun p => some (u32le p.1) :: Bitmap.serializeFieldsM ovf p.2)
      = (t.flatMap fun p => u32le p.1 :: Bitmap.serializeFields p.2).map some := by
  intro t
  induction t with
  | nil => intro _; rfl
  | cons p ps ih =>
    intro h
    have hp := serializeFieldsM_eq ovf p.2 (h p (by simp))
    have hps := ih (fun q hq => h q (by simp [hq]))
    simp only [List.flatMap_cons, hp, hps, List.map_append, List.map_cons, List.cons_append]

theorem tserializeIntoM_eq (ovf : Bool) (t : Treemap) (h : ∀ p ∈ t, ∀ c ∈ p.2, 1 ≤ c.len) (w : SWriter) :
    Treemap.serializeIntoM ovf t w = some (Treemap.serializeInto t w) := by
  unfold Treemap.serializeIntoM Treemap.serializeInto Treemap.serializeFieldsM Treemap.serializeFields
  rw [tserializeFieldsM_eq ovf t h, ← List.map_cons, writeFieldsM_map_some]

end Fidelity
end Roaring
