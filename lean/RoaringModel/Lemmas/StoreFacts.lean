import RoaringModel.Lemmas.ArrFacts
import RoaringModel.Lemmas.BStoreRange
/-!
# Store-level facts, independent of the store kind

Everything is phrased through `Store.elems` (the ascending list of low 16-bit values) under `Store.Inv`.
-/
namespace Roaring
namespace Store

theorem inv_elems (st : Store) (h : st.Inv) : Arr.Inv st.elems := by
  cases st with
  | array v => exact h
  | bitmap b => exact BStore.inv_toArray b h

theorem len_eq (st : Store) (h : st.Inv) : st.len = st.elems.length := by
  cases st with
  | array v => rfl
  | bitmap b => exact (BStore.length_toArray b h).symm

theorem mem_elems_bitmap (b : BStore) (hb : b.Inv) (x : Nat) :
    x ∈ (Store.bitmap b).elems ↔ x < 65536 ∧ b.test x = true := BStore.mem_toArray b hb x

theorem elems_lt (st : Store) (h : st.Inv) : ∀ x ∈ st.elems, x < 65536 := (inv_elems st h).2

theorem sorted_elems (st : Store) (h : st.Inv) : Sorted st.elems := (inv_elems st h).1

theorem insert_spec (st : Store) (h : st.Inv) (i : Nat) (hi : i < 65536) :
    (st.insert i).1.Inv ∧ (∀ x, x ∈ (st.insert i).1.elems ↔ x = i ∨ x ∈ st.elems) ∧
    (st.insert i).2 = !decide (i ∈ st.elems) := by
  cases st with
  | array v => exact Arr.insert_spec v h i hi
  | bitmap b =>
    obtain ⟨h1, h2, h3⟩ := BStore.insert_spec b h i hi
    refine ⟨h1, ?_, ?_⟩
    · intro x
      show x ∈ (b.insert i).1.toArray ↔ x = i ∨ x ∈ b.toArray
      rw [BStore.mem_toArray _ h1, BStore.mem_toArray _ h]
      constructor
      · rintro ⟨hx, ht⟩
        rw [h2 x hx] at ht
        simp only [Bool.or_eq_true, decide_eq_true_eq] at ht
        rcases ht with ht | ht
        · left; exact ht
        · right; exact ⟨hx, ht⟩
      · rintro (hx | ⟨hx, ht⟩)
        · subst hx; refine ⟨hi, ?_⟩; rw [h2 x hi]; simp
        · refine ⟨hx, ?_⟩; rw [h2 x hx]; simp [ht]
    · show (b.insert i).2 = !decide (i ∈ b.toArray)
      rw [h3]
      congr 1
      rw [Bool.eq_iff_iff]
      simp only [decide_eq_true_eq]
      rw [BStore.mem_toArray _ h]
      constructor
      · intro ht; exact ⟨hi, ht⟩
      · intro ht; exact ht.2

theorem remove_spec (st : Store) (h : st.Inv) (i : Nat) (hi : i < 65536) :
    (st.remove i).1.Inv ∧ (∀ x, x ∈ (st.remove i).1.elems ↔ x ∈ st.elems ∧ x ≠ i) ∧
    (st.remove i).2 = decide (i ∈ st.elems) := by
  cases st with
  | array v => exact Arr.remove_spec v h i
  | bitmap b =>
    obtain ⟨h1, h2, h3⟩ := BStore.remove_spec b h i hi
    refine ⟨h1, ?_, ?_⟩
    · intro x
      show x ∈ (b.remove i).1.toArray ↔ x ∈ b.toArray ∧ x ≠ i
      rw [BStore.mem_toArray _ h1, BStore.mem_toArray _ h]
      constructor
      · rintro ⟨hx, ht⟩
        rw [h2 x hx] at ht
        simp only [Bool.and_eq_true, decide_eq_true_eq] at ht
        exact ⟨⟨hx, ht.2⟩, ht.1⟩
      · rintro ⟨⟨hx, ht⟩, hne⟩
        refine ⟨hx, ?_⟩; rw [h2 x hx]; simp [ht, hne]
    · show (b.remove i).2 = decide (i ∈ b.toArray)
      rw [h3, Bool.eq_iff_iff]
      simp only [decide_eq_true_eq]
      rw [BStore.mem_toArray _ h]
      constructor
      · intro ht; exact ⟨hi, ht⟩
      · intro ht; exact ht.2

/-- number of elements of a sorted list inside `[s, e]` -/
def countIn (l : List Nat) (s e : Nat) : Nat := (l.filter (fun x => decide (s ≤ x) && decide (x ≤ e))).length

theorem insertRange_empty (st : Store) (s e : Nat) (h : s > e) : st.insertRange s e = (st, 0) := by
  unfold Store.insertRange; simp [h]

theorem removeRange_empty (st : Store) (s e : Nat) (h : s > e) : st.removeRange s e = (st, 0) := by
  unfold Store.removeRange; simp [h]

theorem insertRange_spec (st : Store) (h : st.Inv) (s e : Nat) (hse : s ≤ e) (he : e < 65536) :
    (st.insertRange s e).1.Inv ∧
    (∀ x, x ∈ (st.insertRange s e).1.elems ↔ (s ≤ x ∧ x ≤ e) ∨ x ∈ st.elems) ∧
    (st.insertRange s e).2 = (e - s + 1) - countIn st.elems s e := by
  have hns : ¬ s > e := by omega
  cases st with
  | array v =>
    simp only [Store.insertRange, hns, if_false]
    exact Arr.insertRange_spec v h s e hse he
  | bitmap b =>
    simp only [Store.insertRange, hns, if_false]
    obtain ⟨h1, h2, h3⟩ := BStore.insertRange_spec b h s e hse he
    refine ⟨h1, ?_, h3⟩
    intro x
    show x ∈ (b.insertRange s e).1.toArray ↔ (s ≤ x ∧ x ≤ e) ∨ x ∈ b.toArray
    rw [BStore.mem_toArray _ h1, BStore.mem_toArray _ h]
    constructor
    · rintro ⟨hx, ht⟩
      rw [h2 x hx] at ht
      simp only [Bool.or_eq_true, Bool.and_eq_true, decide_eq_true_eq] at ht
      rcases ht with ht | ht
      · left; exact ht
      · right; exact ⟨hx, ht⟩
    · rintro (⟨h1', h2'⟩ | ⟨hx, ht⟩)
      · have hx : x < 65536 := by omega
        refine ⟨hx, ?_⟩; rw [h2 x hx]; simp [h1', h2']
      · refine ⟨hx, ?_⟩; rw [h2 x hx]; simp [ht]

theorem removeRange_spec (st : Store) (h : st.Inv) (s e : Nat) (hse : s ≤ e) (he : e < 65536) :
    (st.removeRange s e).1.Inv ∧
    (∀ x, x ∈ (st.removeRange s e).1.elems ↔ x ∈ st.elems ∧ ¬ (s ≤ x ∧ x ≤ e)) ∧
    (st.removeRange s e).2 = countIn st.elems s e := by
  have hns : ¬ s > e := by omega
  cases st with
  | array v =>
    simp only [Store.removeRange, hns, if_false]
    exact Arr.removeRange_spec v h s e hse
  | bitmap b =>
    simp only [Store.removeRange, hns, if_false]
    obtain ⟨h1, h2, h3⟩ := BStore.removeRange_spec b h s e hse he
    refine ⟨h1, ?_, h3⟩
    intro x
    show x ∈ (b.removeRange s e).1.toArray ↔ x ∈ b.toArray ∧ ¬ (s ≤ x ∧ x ≤ e)
    rw [BStore.mem_toArray _ h1, BStore.mem_toArray _ h]
    constructor
    · rintro ⟨hx, ht⟩
      rw [h2 x hx] at ht
      simp only [Bool.and_eq_true, Bool.not_eq_true', Bool.and_eq_false_imp, decide_eq_true_eq,
        decide_eq_false_iff_not] at ht
      exact ⟨⟨hx, ht.2⟩, fun hc => ht.1 hc.1 hc.2⟩
    · rintro ⟨⟨hx, ht⟩, hn⟩
      refine ⟨hx, ?_⟩; rw [h2 x hx]
      simp only [ht, Bool.and_true, Bool.not_eq_true', Bool.and_eq_false_imp, decide_eq_true_eq,
        decide_eq_false_iff_not]
      intro h1'; exact fun h2' => hn ⟨h1', h2'⟩

theorem contains_spec (st : Store) (h : st.Inv) (i : Nat) (hi : i < 65536) :
    st.contains i = decide (i ∈ st.elems) := by
  cases st with
  | array v => exact Arr.contains_spec v h.1 i
  | bitmap b =>
    show b.contains i = decide (i ∈ b.toArray)
    rw [BStore.contains_eq_test, Bool.eq_iff_iff]
    simp only [decide_eq_true_eq]
    rw [BStore.mem_toArray _ h]
    exact ⟨fun ht => ⟨hi, ht⟩, fun ht => ht.2⟩

theorem containsRange_spec (st : Store) (h : st.Inv) (s e : Nat) (hse : s ≤ e) (he : e < 65536) :
    st.containsRange s e = true ↔ ∀ x, s ≤ x → x ≤ e → x ∈ st.elems := by
  cases st with
  | array v => exact Arr.containsRange_spec v h s e hse
  | bitmap b =>
    show b.containsRange s e = true ↔ ∀ x, s ≤ x → x ≤ e → x ∈ b.toArray
    rw [BStore.containsRange_spec b h s e hse he]
    constructor
    · intro hh x h1 h2; rw [BStore.mem_toArray _ h]; exact ⟨by omega, hh x h1 h2⟩
    · intro hh x h1 h2; exact ((BStore.mem_toArray _ h x).mp (hh x h1 h2)).2

theorem rank_spec (st : Store) (h : st.Inv) (i : Nat) (hi : i < 65536) :
    st.rank i = (st.elems.filter (· ≤ i)).length := by
  cases st with
  | array v => exact Arr.rank_spec v h.1 i
  | bitmap b => exact BStore.rank_spec b h i hi

theorem select_spec (st : Store) (h : st.Inv) (n : Nat) : st.select n = st.elems[n]? := by
  cases st with
  | array v => rfl
  | bitmap b => exact BStore.select_spec b h n

theorem min?_spec (st : Store) (h : st.Inv) : st.min? = st.elems.head? := by
  cases st with
  | array v => rfl
  | bitmap b => exact BStore.min?_spec b h

theorem max?_spec (st : Store) (h : st.Inv) : st.max? = st.elems.getLast? := by
  cases st with
  | array v => rfl
  | bitmap b => exact BStore.max?_spec b h

theorem isEmpty_spec (st : Store) (h : st.Inv) : st.isEmpty = st.elems.isEmpty := by
  cases st with
  | array v => rfl
  | bitmap b =>
    show (b.len == 0) = b.toArray.isEmpty
    rw [← BStore.length_toArray b h]
    cases b.toArray <;> simp

theorem push_spec (st : Store) (h : st.Inv) (i : Nat) (hi : i < 65536) :
    (st.push i).1.Inv ∧
    ((st.push i).2 = decide (∀ x ∈ st.elems, x < i)) ∧
    ((st.push i).1.elems = if (∀ x ∈ st.elems, x < i) then st.elems ++ [i] else st.elems) := by
  cases st with
  | array v =>
    obtain ⟨h1, h2⟩ := Arr.push_spec v h i hi
    have e : Store.push (.array v) i = (.array (Arr.push v i).1, (Arr.push v i).2) := rfl
    rw [e]
    by_cases hc : ∀ x ∈ v, x < i
    · rw [if_pos hc] at h2
      have hc' : ∀ x ∈ (Store.array v).elems, x < i := hc
      rw [if_pos hc', h2]
      refine ⟨?_, by simpa using hc', rfl⟩
      rw [h2] at h1; exact h1
    · rw [if_neg hc] at h2
      have hc' : ¬ ∀ x ∈ (Store.array v).elems, x < i := hc
      rw [if_neg hc', h2]
      exact ⟨h, by simp [hc'], rfl⟩
  | bitmap b =>
    have hp := BStore.push_spec b h i hi
    obtain ⟨i1, i2, _⟩ := BStore.insert_spec b h i hi
    have e : Store.push (.bitmap b) i = (.bitmap (b.push i).1, (b.push i).2) := rfl
    rw [e]
    by_cases hc : ∀ x ∈ b.toArray, x < i
    · rw [if_pos hc] at hp
      have hc' : ∀ x ∈ (Store.bitmap b).elems, x < i := hc
      rw [if_pos hc', hp]
      refine ⟨i1, by simpa using hc', ?_⟩
      -- the new element is larger than all: the sorted list of the result is `toArray ++ [i]`
      show (b.insert i).1.toArray = b.toArray ++ [i]
      apply Arr.sorted_ext _ _ (BStore.sorted_toArray _ i1)
      · have hs := BStore.sorted_toArray b h
        rw [Sorted, List.pairwise_append]
        refine ⟨hs, by simp, ?_⟩
        intro a ha c hc2; simp at hc2; subst hc2; exact hc a ha
      · intro x
        rw [BStore.mem_toArray _ i1, List.mem_append, BStore.mem_toArray _ h]
        constructor
        · rintro ⟨hx, ht⟩
          rw [i2 x hx] at ht
          simp only [Bool.or_eq_true, decide_eq_true_eq] at ht
          rcases ht with ht | ht
          · right; simp [ht]
          · left; exact ⟨hx, ht⟩
        · rintro (⟨hx, ht⟩ | hx)
          · refine ⟨hx, ?_⟩; rw [i2 x hx]; simp [ht]
          · simp at hx; subst hx; refine ⟨hi, ?_⟩; rw [i2 x hi]; simp
    · rw [if_neg hc] at hp
      have hc' : ¬ ∀ x ∈ (Store.bitmap b).elems, x < i := hc
      rw [if_neg hc', hp]
      exact ⟨h, by simp [hc'], rfl⟩

theorem pushUnchecked_spec (dbg : Bool) (st : Store) (h : st.Inv) (i : Nat) (hi : i < 65536)
    (hmax : ∀ x ∈ st.elems, x < i) :
    ∃ st', st.pushUnchecked dbg i = some st' ∧ st'.Inv ∧ st'.elems = st.elems ++ [i] := by
  cases st with
  | array v =>
    obtain ⟨h1, h2⟩ := Arr.pushUnchecked_spec dbg v h i hi hmax
    exact ⟨.array (v ++ [i]), by simp [Store.pushUnchecked, h1], h2, rfl⟩
  | bitmap b =>
    have hp := BStore.pushUnchecked_spec dbg b h i hi hmax
    have hq := push_spec (.bitmap b) h i hi
    have hb := BStore.push_spec b h i hi
    have hm : ∀ x ∈ b.toArray, x < i := hmax
    rw [if_pos hm] at hb
    have e : Store.push (.bitmap b) i = (.bitmap (b.insert i).1, true) := by
      show (Store.bitmap (b.push i).1, (b.push i).2) = _
      rw [hb]
    rw [e, if_pos hmax] at hq
    exact ⟨.bitmap (b.insert i).1, by simp [Store.pushUnchecked, hp], hq.1, hq.2.2⟩

theorem removeSmallest_spec (st : Store) (h : st.Inv) (n : Nat) (hn : n ≤ st.len) :
    (st.removeSmallest n).Inv ∧ (st.removeSmallest n).elems = st.elems.drop n := by
  cases st with
  | array v =>
    obtain ⟨h1, h2⟩ := Arr.removeSmallest_spec v h n hn
    exact ⟨by simpa [Store.removeSmallest, Store.Inv, h1] using h2, by simp [Store.removeSmallest, Store.elems, h1]⟩
  | bitmap b => exact BStore.removeSmallest_spec b h n

theorem removeBiggest_spec (st : Store) (h : st.Inv) (n : Nat) :
    (st.removeBiggest n).Inv ∧ (st.removeBiggest n).elems = st.elems.take (st.elems.length - n) := by
  cases st with
  | array v =>
    obtain ⟨h1, h2⟩ := Arr.removeBiggest_spec v h n
    exact ⟨by simpa [Store.removeBiggest, Store.Inv, h1] using h2, by simp [Store.removeBiggest, Store.elems, h1]⟩
  | bitmap b => exact BStore.removeBiggest_spec b h n

theorem new_inv : Store.new.Inv := ⟨List.Pairwise.nil, by simp⟩
theorem new_elems : Store.new.elems = [] := rfl

theorem canon_inv (st : Store) (h : st.Canon) : st.Inv := by
  cases st with
  | array v => exact h.1
  | bitmap b => exact h.1

theorem wf_canon (st : Store) (h : st.WF) : st.Canon := by
  cases st with
  | array v => exact ⟨h.1, h.2.2⟩
  | bitmap b => exact h

theorem wf_inv (st : Store) (h : st.WF) : st.Inv := canon_inv st (wf_canon st h)

theorem wf_of_canon (st : Store) (h : st.Canon) (hne : st.elems ≠ []) : st.WF := by
  cases st with
  | array v =>
    refine ⟨h.1, ?_, h.2⟩
    cases v with
    | nil => exact absurd rfl hne
    | cons a l => simp
  | bitmap b => exact h

theorem wf_elems_ne (st : Store) (h : st.WF) : st.elems ≠ [] := by
  cases st with
  | array v =>
    intro hc
    have : v = [] := hc
    have h2 := h.2.1
    rw [this] at h2; simp at h2
  | bitmap b =>
    intro hc
    have h1 := BStore.length_toArray b h.1
    have : b.toArray = [] := hc
    rw [this] at h1
    have := h.2
    simp at h1; omega

theorem new_canon : Store.new.Canon := ⟨new_inv, by simp [Store.new]⟩

end Store

namespace Container

/-- `ensure_correct_store` keeps the elements and establishes the kind invariant -/
theorem ensureCorrectStore_spec (c : Container) (h : c.store.Inv) :
    (ensureCorrectStore c).store.Canon ∧ (ensureCorrectStore c).store.elems = c.store.elems ∧
    (ensureCorrectStore c).key = c.key := by
  unfold ensureCorrectStore
  cases hs : c.store with
  | array v =>
    rw [hs] at h
    simp only []
    by_cases hl : v.length > ARRAY_LIMIT
    · simp only [hl, if_true]
      obtain ⟨h1, h2⟩ := BStore.arrToBitmap_spec v h
      refine ⟨⟨h1, ?_⟩, h2, trivial⟩
      show 4096 < (Store.arrToBitmap v).len
      simpa [Store.arrToBitmap, ARRAY_LIMIT] using hl
    · simp only [hl, if_false, hs]
      exact ⟨⟨h, by simpa [ARRAY_LIMIT] using hl⟩, trivial, trivial⟩
  | bitmap b =>
    rw [hs] at h
    simp only []
    by_cases hl : b.len ≤ ARRAY_LIMIT
    · simp only [hl, if_true]
      refine ⟨⟨BStore.inv_toArray b h, ?_⟩, rfl, trivial⟩
      rw [BStore.length_toArray b h]; simpa [ARRAY_LIMIT] using hl
    · simp only [hl, if_false, hs]
      exact ⟨⟨h, by simpa [ARRAY_LIMIT] using hl⟩, trivial, trivial⟩

end Container
end Roaring
