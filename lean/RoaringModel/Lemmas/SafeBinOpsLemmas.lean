import RoaringModel.SafeBinOps
import RoaringModel.Lemmas.SafeLemmas
import RoaringModel.Lemmas.StoreOps
import RoaringModel.Lemmas.MultiList

/-!
Proofs of the `Safe_*` predicates of `SafeBinOps.lean` from `Store.Inv` of the operands' stores (`Bitmap.StoresInv`, a
consequence of `Bitmap.WF` that also holds on the not-yet-canonical values inside a fold).
-/

namespace Roaring

namespace Store

theorem safe_andAssignRef (s t : Store) (hs : s.Inv) (ht : t.Inv) : Safe_andAssignRef s t := by
  cases s with
  | array v =>
    cases t with
    | array w => trivial
    | bitmap b => exact fun x hx => BStore.safe_contains b ht x (hs.2 x hx)
  | bitmap a =>
    cases t with
    | array w => exact fun x hx => BStore.safe_contains a hs x (ht.2 x hx)
    | bitmap b =>
      exact BStore.safe_opBitmaps _ (fun x y hx _ => Nat.lt_of_le_of_lt Nat.and_le_left hx) a b hs ht

theorem safe_subAssignRef (s t : Store) (hs : s.Inv) (ht : t.Inv) : Safe_subAssignRef s t := by
  cases s with
  | array v =>
    cases t with
    | array w => trivial
    | bitmap b => exact fun x hx => BStore.safe_contains b ht x (hs.2 x hx)
  | bitmap a =>
    cases t with
    | array w => exact BStore.safe_subArr w a hs ht.2
    | bitmap b =>
      exact BStore.safe_opBitmaps _ (fun x y hx _ => Nat.lt_of_le_of_lt Nat.and_le_left hx) a b hs ht

theorem safe_orAssignRef (s t : Store) (hs : s.Inv) (ht : t.Inv) : Safe_orAssignRef s t := by
  cases s with
  | array v =>
    cases t with
    | array w => trivial
    | bitmap b => exact BStore.safe_orArr v b ht hs.2
  | bitmap a =>
    cases t with
    | array w => exact BStore.safe_orArr w a hs ht.2
    | bitmap b => exact BStore.safe_opBitmaps _ (fun _ _ hx hy => Nat.or_lt_two_pow hx hy) a b hs ht

end Store

namespace Container

theorem safe_orAssignRef (a b : Container) (ha : a.store.Inv) (hb : b.store.Inv) : Safe_orAssignRef a b :=
  ⟨Store.safe_orAssignRef _ _ ha hb,
   safe_ensureCorrectStore _ (Store.orAssignRef_spec bKernel a.store b.store ha hb).1⟩

theorem inv_orAssignRef (a b : Container) (ha : a.store.Inv) (hb : b.store.Inv) : (a.orAssignRef b).store.Inv :=
  Store.canon_inv _ (ensureCorrectStore_spec _ (Store.orAssignRef_spec bKernel a.store b.store ha hb).1).1

theorem safe_andAssignRef (a b : Container) (ha : a.store.Inv) (hb : b.store.Inv) : Safe_andAssignRef a b :=
  ⟨Store.safe_andAssignRef _ _ ha hb,
   safe_ensureCorrectStore _ (Store.andAssignRef_spec bKernel a.store b.store ha hb).1⟩

theorem safe_subAssignRef (a b : Container) (ha : a.store.Inv) (hb : b.store.Inv) : Safe_subAssignRef a b :=
  ⟨Store.safe_subAssignRef _ _ ha hb,
   safe_ensureCorrectStore _ (Store.subAssignRef_spec bKernel a.store b.store ha hb).1⟩

theorem safe_andAssignOwned (a b : Container) (ha : a.store.Inv) (hb : b.store.Inv) : Safe_andAssignOwned a b :=
  ⟨Store.safe_andAssignRef _ _ ha hb,
   safe_ensureCorrectStore _ (Store.andAssignOwned_spec bKernel a.store b.store ha hb).1⟩

theorem inv_andAssignOwned (a b : Container) (ha : a.store.Inv) (hb : b.store.Inv) : (a.andAssignOwned b).store.Inv :=
  Store.canon_inv _ (ensureCorrectStore_spec _ (Store.andAssignOwned_spec bKernel a.store b.store ha hb).1).1

theorem inv_new (k : Nat) : (Container.new k).store.Inv := ⟨List.Pairwise.nil, fun _ h => by cases h⟩

theorem inv_andAssignRef (a b : Container) (ha : a.store.Inv) (hb : b.store.Inv) : (a.andAssignRef b).store.Inv :=
  Store.canon_inv _ (ensureCorrectStore_spec _ (Store.andAssignRef_spec bKernel a.store b.store ha hb).1).1

theorem inv_subAssignRef (a b : Container) (ha : a.store.Inv) (hb : b.store.Inv) : (a.subAssignRef b).store.Inv :=
  Store.canon_inv _ (ensureCorrectStore_spec _ (Store.subAssignRef_spec bKernel a.store b.store ha hb).1).1

end Container

namespace Bitmap

theorem safe_searchStep {S : Container → Container → Prop} (rhs : Bitmap) (cont : Container)
    (hS : ∀ rc ∈ rhs, S cont rc) : Safe_searchStep S rhs cont := by
  refine ⟨safe_search rhs cont.key, ?_⟩
  split
  · split
    · next loc _ rc h => exact hS rc (List.mem_of_getElem? h)
    · trivial
  · trivial

theorem safe_andAR (a b : Bitmap) (ha : StoresInv a) (hb : StoresInv b) : Safe_andAR a b :=
  fun cont hc => safe_searchStep b cont fun rc hrc => Container.safe_andAssignRef cont rc (ha cont hc) (hb rc hrc)

theorem safe_subAR (a b : Bitmap) (ha : StoresInv a) (hb : StoresInv b) : Safe_subAR a b :=
  fun cont hc => safe_searchStep b cont fun rc hrc => Container.safe_subAssignRef cont rc (ha cont hc) (hb rc hrc)

theorem storesInv_orStep (self : Bitmap) (c : Container) (hs : StoresInv self) (hc : c.store.Inv) :
    StoresInv (orStep Container.orAssignRef self c) := by
  unfold orStep
  rcases hsr : search self c.key with ⟨found, loc⟩
  cases found with
  | false =>
    intro d hd
    rcases List.mem_append.1 hd with h | h
    · exact hs d ((List.take_sublist _ _).subset h)
    · rcases List.mem_cons.1 h with h | h
      · exact h ▸ hc
      · exact hs d ((List.drop_sublist _ _).subset h)
  | true =>
    show StoresInv (match self[loc]? with
      | some x => self.set loc (x.orAssignRef c)
      | none => self)
    cases hx : self[loc]? with
    | none => exact hs
    | some x =>
      intro d hd
      rcases List.mem_or_eq_of_mem_set hd with h | h
      · exact hs d h
      · exact h ▸ Container.inv_orAssignRef x c (hs x (List.mem_of_getElem? hx)) hc

theorem safe_orAR : ∀ (cs : List Container) (self : Bitmap), StoresInv self → StoresInv cs → Safe_orAR self cs
  | [], _, _, _ => by unfold Safe_orAR; trivial
  | c :: cs, self, hs, hcs => by
    have hc := hcs c (List.mem_cons_self ..)
    unfold Safe_orAR
    refine ⟨safe_search self c.key, ?_,
      safe_orAR cs _ (storesInv_orStep self c hs hc) (fun d h => hcs d (List.mem_cons_of_mem _ h))⟩
    split
    · split
      · next h => exact Container.safe_orAssignRef _ c (hs _ (List.mem_of_getElem? h)) hc
      · trivial
    · trivial

end Bitmap

namespace Multi
open Bitmap Roaring.Spec

theorem storesInv_andAssignRef (a b : Bitmap) (ha : StoresInv a) (hb : StoresInv b) : StoresInv (andAssignRef a b) := by
  intro c hc
  unfold andAssignRef at hc
  rw [List.mem_filterMap] at hc
  obtain ⟨cont, hcont, h⟩ := hc
  split at h
  · split at h
    · next loc _ rc hrc =>
      simp only [] at h
      split at h
      · cases h; exact Container.inv_andAssignRef cont rc (ha cont hcont) (hb rc (List.mem_of_getElem? hrc))
      · cases h
    · cases h
  · cases h

theorem storesInv_subAssignRef (a b : Bitmap) (ha : StoresInv a) (hb : StoresInv b) : StoresInv (subAssignRef a b) := by
  intro c hc
  unfold subAssignRef at hc
  rw [List.mem_filterMap] at hc
  obtain ⟨cont, hcont, h⟩ := hc
  split at h
  · split at h
    · next loc _ rc hrc =>
      simp only [] at h
      split at h
      · cases h; exact Container.inv_subAssignRef cont rc (ha cont hcont) (hb rc (List.mem_of_getElem? hrc))
      · cases h
    · cases h; exact ha _ hcont
  · cases h; exact ha _ hcont

/-- the loop invariant is `StoresInv` of the accumulator; the items only need it when they are `Ok` -/
theorem safe_assignLoop {ε : Type} {S : Bitmap → Bitmap → Prop} {f : Bitmap → Bitmap → Bitmap}
    (hS : ∀ a b, StoresInv a → StoresInv b → S a b)
    (hf : ∀ a b, StoresInv a → StoresInv b → StoresInv (f a b)) :
    ∀ (rest : List (Except ε Bitmap)) (lhs : Bitmap), StoresInv lhs → (∀ r, Except.ok r ∈ rest → StoresInv r) →
      Safe_assignLoop S f lhs rest
  | [], _, _, _ => by unfold Safe_assignLoop; trivial
  | rhs :: rest, lhs, hl, hr => by
    unfold Safe_assignLoop
    split
    · trivial
    · cases rhs with
      | error e => trivial
      | ok r =>
        have hrI : StoresInv r := hr r (List.mem_cons_self ..)
        exact ⟨hS lhs r hl hrI,
          safe_assignLoop hS hf rest (f lhs r) (hf lhs r hl hrI) (fun r' h' => hr r' (List.mem_cons_of_mem _ h'))⟩

theorem safe_tryMultiSub {ε : Type} (xs : List (Except ε Bitmap)) (hx : ∀ r, Except.ok r ∈ xs → StoresInv r) :
    Safe_tryMultiSub xs := by
  unfold Safe_tryMultiSub
  split
  · trivial
  · trivial
  · next lhs iter =>
    exact safe_assignLoop safe_subAR storesInv_subAssignRef iter lhs (hx lhs (List.mem_cons_self ..))
      (fun r h => hx r (List.mem_cons_of_mem _ h))

theorem storesInv_andOwnedStep (st : List Container × List Container) (cont : Container)
    (h1 : StoresInv st.1) (h2 : StoresInv st.2) (hc : cont.store.Inv) :
    StoresInv (andOwnedStep st cont).1 ∧ StoresInv (andOwnedStep st cont).2 := by
  unfold andOwnedStep
  rcases hsr : Bitmap.search st.2 cont.key with ⟨found, loc⟩
  cases found with
  | false => exact ⟨h1, h2⟩
  | true =>
    show StoresInv (match st.2[loc]? with
      | some rc =>
        if (!(cont.andAssignOwned rc).isEmpty) = true then
          (cont.andAssignOwned rc :: st.1, st.2.set loc (Container.new rc.key))
        else (st.1, st.2.set loc (Container.new rc.key))
      | none => st).1 ∧ StoresInv (match st.2[loc]? with
      | some rc =>
        if (!(cont.andAssignOwned rc).isEmpty) = true then
          (cont.andAssignOwned rc :: st.1, st.2.set loc (Container.new rc.key))
        else (st.1, st.2.set loc (Container.new rc.key))
      | none => st).2
    cases hrc : st.2[loc]? with
    | none => exact ⟨h1, h2⟩
    | some rc =>
      have hrcI := h2 rc (List.mem_of_getElem? hrc)
      have hset : StoresInv (st.2.set loc (Container.new rc.key)) := by
        intro c hc'
        rcases List.mem_or_eq_of_mem_set hc' with h | h
        · exact h2 c h
        · exact h ▸ Container.inv_new _
      simp only []
      by_cases hemp : (!(cont.andAssignOwned rc).isEmpty) = true
      · rw [if_pos hemp]
        refine ⟨?_, hset⟩
        intro c hc'
        rcases List.mem_cons.1 hc' with h | h
        · exact h ▸ Container.inv_andAssignOwned cont rc hc hrcI
        · exact h1 c h
      · rw [if_neg hemp]
        exact ⟨h1, hset⟩

theorem safe_andOwnedLoop : ∀ (cs : List Container) (st : List Container × List Container),
    StoresInv cs → StoresInv st.1 → StoresInv st.2 →
      Safe_andOwnedLoop cs st ∧ StoresInv (cs.foldl andOwnedStep st).1
  | [], st, _, h1, _ => ⟨by unfold Safe_andOwnedLoop; trivial, h1⟩
  | cont :: cs, st, hcs, h1, h2 => by
    have hc := hcs cont (List.mem_cons_self ..)
    have hstep := storesInv_andOwnedStep st cont h1 h2 hc
    have ih := safe_andOwnedLoop cs (andOwnedStep st cont) (fun c h => hcs c (List.mem_cons_of_mem _ h)) hstep.1 hstep.2
    unfold Safe_andOwnedLoop
    exact ⟨⟨safe_searchStep st.2 cont fun rc hrc => Container.safe_andAssignOwned cont rc hc (h2 rc hrc), ih.1⟩, ih.2⟩

theorem safe_andAO (a b : Bitmap) (ha : StoresInv a) (hb : StoresInv b) : Safe_andAO a b := by
  unfold Safe_andAO
  split
  · exact (safe_andOwnedLoop b ([], a) hb (fun _ h => by cases h) ha).1
  · exact (safe_andOwnedLoop a ([], b) ha (fun _ h => by cases h) hb).1

theorem storesInv_andAssignOwned (a b : Bitmap) (ha : StoresInv a) (hb : StoresInv b) : StoresInv (andAssignOwned a b) := by
  rw [andAssignOwned_eq_fold]
  intro c hc
  rw [List.mem_reverse] at hc
  split at hc
  · exact (safe_andOwnedLoop b ([], a) hb (fun _ h => by cases h) ha).2 c hc
  · exact (safe_andOwnedLoop a ([], b) ha (fun _ h => by cases h) hb).2 c hc

theorem mem_okValues {ε α : Type} {r : α} : ∀ {xs : List (Except ε α)}, Except.ok r ∈ xs → r ∈ okValues xs
  | [], h => by cases h
  | .error e :: rest, h => by
    simp only [okValues]
    rcases List.mem_cons.1 h with h | h
    · cases h
    · exact mem_okValues h
  | .ok a :: rest, h => by
    simp only [okValues]
    rcases List.mem_cons.1 h with h | h
    · cases h; exact List.mem_cons_self ..
    · exact List.mem_cons_of_mem _ (mem_okValues h)

/-- what `andStartWith` hands to the loop comes from the `Ok` items of the input -/
theorem andStartWith_mem {ε : Type} {sort : List Bitmap → List Bitmap} (hs : ∀ l, (sort l).Perm l) {h : Hint}
    {xs : List (Except ε Bitmap)} {c : Bitmap} {rest : List (Except ε Bitmap)}
    (he : andStartWith sort h xs = .ok (some (c, rest))) :
    c ∈ okValues xs ∧ ∀ b ∈ okValues rest, b ∈ okValues xs := by
  unfold andStartWith at he
  rw [collectStart_eq] at he
  generalize hn : toCollect h xs.length = n at he
  have hsplit : okValues xs = okValues (xs.take n) ++ okValues (xs.drop n) := by
    rw [← okValues_append, List.take_append_drop]
  cases hfe : firstError (xs.take n) with
  | some e => rw [hfe] at he; simp at he
  | none =>
    rw [hfe] at he
    simp only [] at he
    cases hso : sort (okValues (xs.take n)) with
    | nil => rw [hso] at he; simp at he
    | cons c' st =>
      rw [hso] at he
      simp only [Except.ok.injEq, Option.some.injEq, Prod.mk.injEq] at he
      obtain ⟨rfl, rfl⟩ := he
      have hsub : ∀ b ∈ c' :: st, b ∈ okValues (xs.take n) := by
        intro b hb
        rw [← hso] at hb
        exact (hs _).subset hb
      refine ⟨?_, ?_⟩
      · rw [hsplit]; exact List.mem_append_left _ (hsub c' (List.mem_cons_self ..))
      · intro b hb
        rw [okValues_append, okValues_map_ok] at hb
        rw [hsplit]
        rcases List.mem_append.1 hb with hb | hb
        · exact List.mem_append_left _ (hsub b (List.mem_cons_of_mem _ hb))
        · exact List.mem_append_right _ hb

theorem safe_tryMultiAndRefWith {ε : Type} {sort : List Bitmap → List Bitmap} (hs : ∀ l, (sort l).Perm l) (h : Hint)
    (xs : List (Except ε Bitmap)) (hx : ∀ b ∈ okValues xs, StoresInv b) : Safe_tryMultiAndRefWith sort h xs := by
  unfold Safe_tryMultiAndRefWith
  split
  · trivial
  · next lhs rest he =>
    have hm := andStartWith_mem hs he
    exact safe_assignLoop safe_andAR storesInv_andAssignRef rest lhs (hx lhs hm.1)
      (fun r hr => hx r (hm.2 r (mem_okValues hr)))
  · trivial

theorem safe_tryMultiAndOwnedWith {ε : Type} {sort : List Bitmap → List Bitmap} (hs : ∀ l, (sort l).Perm l) (h : Hint)
    (xs : List (Except ε Bitmap)) (hx : ∀ b ∈ okValues xs, StoresInv b) : Safe_tryMultiAndOwnedWith sort h xs := by
  unfold Safe_tryMultiAndOwnedWith
  split
  · trivial
  · next lhs rest he =>
    have hm := andStartWith_mem hs he
    exact safe_assignLoop safe_andAO storesInv_andAssignOwned rest lhs (hx lhs hm.1)
      (fun r hr => hx r (hm.2 r (mem_okValues hr)))
  · trivial

end Multi
end Roaring
