import RoaringModel.Lemmas.IterLemmas
/-!
# C03: `advance_back_to` (iter.rs:95-151) — the mirror image of `Iter.advanceToRest_spec`
-/
namespace Roaring
namespace Iter

/-! ### the result of the binary search -/

theorem search_snd (cs : List Container) (key : Nat) :
    (Bitmap.search cs key).2 = (cs.takeWhile (fun c => decide (c.key < key))).length := rfl

theorem search_true (cs : List Container) (key : Nat) (h : (Bitmap.search cs key).1 = true) :
    ∃ c, cs[(cs.takeWhile (fun c => decide (c.key < key))).length]? = some c ∧ c.key = key := by
  unfold Bitmap.search at h
  simp only [] at h
  cases hget : cs[(cs.takeWhile (fun c => decide (c.key < key))).length]? with
  | none => rw [hget] at h; simp at h
  | some c =>
    rw [hget] at h
    simp only [beq_iff_eq] at h
    exact ⟨c, rfl, h⟩

theorem search_false (cs : List Container) (key : Nat) (h : (Bitmap.search cs key).1 = false) :
    ∀ c, cs[(cs.takeWhile (fun c => decide (c.key < key))).length]? = some c → c.key ≠ key := by
  intro c hget
  unfold Bitmap.search at h
  simp only [] at h
  rw [hget] at h
  simpa using h

theorem advanceBackToRest_spec (K : CKernel) (it : Iter) (hi : it.Inv) (n : Nat) (hb : it.back = none) :
    (advanceBackToRest it (n / 65536) (n % 65536)).rem = it.rem.filter (fun x => decide (x ≤ n)) ∧
    (advanceBackToRest it (n / 65536) (n % 65536)).Inv := by
  have hidx : n % 65536 < 65536 := Nat.mod_lt _ (by omega)
  obtain ⟨hlt, hge⟩ := split_at_search it.containers (n / 65536) hi.sorted
  have hcok_take : ∀ k, ∀ c ∈ it.containers.take k, c.IterOK := fun k c hc => hi.cok c (List.mem_of_mem_take hc)
  have hcok_drop : ∀ k, ∀ c ∈ it.containers.drop k, c.IterOK := fun k c hc => hi.cok c (List.mem_of_mem_drop hc)
  -- the chunks before the search position are entirely below n
  have hkeep_pre : (mid (it.containers.take (it.containers.takeWhile (fun c => decide (c.key < n / 65536))).length)).filter
      (fun x => decide (x ≤ n)) =
      mid (it.containers.take (it.containers.takeWhile (fun c => decide (c.key < n / 65536))).length) := by
    apply filterLE_keep
    intro x hx
    obtain ⟨c, hc, hxc⟩ := mid_hi K _ (hcok_take _) x hx
    have := hlt c hc; omega
  have hsorted_take : ∀ k, SortedLt ((it.containers.take k).map (·.key)) := by
    intro k; rw [List.map_take]; exact List.Pairwise.sublist (List.take_sublist _ _) hi.sorted
  have hsorted_drop : ∀ k, SortedLt ((it.containers.drop k).map (·.key)) := by
    intro k; rw [List.map_drop]; exact List.Pairwise.sublist (List.drop_sublist _ _) hi.sorted
  have hinv_take : ∀ k, Iter.Inv ⟨it.front, it.containers.take k, it.back⟩ := by
    intro k
    exact ⟨hsorted_take k, hcok_take k, hi.fi, hi.bi,
      fun f hf c hc => hi.fr f hf c (List.mem_of_mem_take hc),
      fun b hb' c hc => hi.bk b hb' c (List.mem_of_mem_take hc), hi.fb⟩
  have hstrue := search_true it.containers (n / 65536)
  have hsfalse := search_false it.containers (n / 65536)
  have hssnd := search_snd it.containers (n / 65536)
  unfold advanceBackToRest
  simp only []
  generalize hloc : (it.containers.takeWhile (fun c => decide (c.key < n / 65536))).length = loc at *
  have hloc_le : loc ≤ it.containers.length := by
    rw [← hloc]; exact (List.takeWhile_sublist _).length_le
  have hrem_split : it.rem = orem it.front ++ mid (it.containers.take loc) ++ mid (it.containers.drop loc) := by
    simp only [Iter.rem, hb, orem_none, List.append_nil]
    rw [mid_split it.containers loc, List.append_assoc]
  -- the front iterator survives whenever a chunk with key ≤ n / 65536 exists
  have hfront_keep : ∀ c ∈ it.containers, c.key ≤ n / 65536 →
      (orem it.front).filter (fun x => decide (x ≤ n)) = orem it.front := by
    intro c hc hck
    apply filterLE_keep
    intro x hx
    obtain ⟨f, hf, hxf⟩ := orem_hi K it.front hi.fi x hx
    have := hi.fr f hf c hc
    omega
  cases hs : Bitmap.search it.containers (n / 65536) with
  | mk found loc' =>
    have hl : loc' = loc := by rw [← hssnd, hs]
    subst hl
    cases found with
    | true =>
      obtain ⟨c, hget, hk⟩ := hstrue (by rw [hs])
      simp only [hget]
      have hlen : loc' < it.containers.length := by
        rcases Nat.lt_or_ge loc' it.containers.length with h | h
        · exact h
        · rw [List.getElem?_eq_none h] at hget; cases hget
      have hcmem : c ∈ it.containers := List.mem_of_getElem? hget
      have hdropc : it.containers.drop loc' = c :: it.containers.drop (loc' + 1) := by
        rw [List.drop_eq_getElem_cons hlen]
        congr 1
        rw [List.getElem?_eq_getElem hlen] at hget; exact Option.some.inj hget
      have htail : ∀ d ∈ it.containers.drop (loc' + 1), c.key < d.key := by
        intro d hd
        have := hsorted_drop loc'
        rw [hdropc] at this
        have hs2 : SortedLt (c.key :: (it.containers.drop (loc' + 1)).map (·.key)) := this
        exact (List.pairwise_cons.mp hs2).1 d.key (List.mem_map_of_mem hd)
      have hdrop_tail : (mid (it.containers.drop (loc' + 1))).filter (fun x => decide (x ≤ n)) = [] := by
        apply filterLE_drop
        intro x hx
        obtain ⟨d, hd, hxd⟩ := mid_hi K _ (hcok_drop _) x hx
        have := htail d hd; omega
      obtain ⟨k1, k2, _⟩ := K.ofContainer c (hi.cok c hcmem)
      obtain ⟨a1, a2, a3⟩ := K.advanceBackTo (CIter.ofContainer c) (n % 65536) k1 hidx
      have a3' : ((CIter.ofContainer c).advanceBackTo (n % 65536)).key = c.key := a3
      refine ⟨?_, ?_⟩
      · rw [hrem_split, hdropc, mid_cons]
        simp only [Iter.rem, orem_some, List.filter_append]
        rw [hfront_keep c hcmem (by omega), hkeep_pre, hdrop_tail, a1, k2]
        have : (CIter.ofContainer c).key * 65536 + n % 65536 = n := by
          show c.key * 65536 + n % 65536 = n
          omega
        rw [this]; simp
      · have ht := hinv_take loc'
        refine ⟨ht.sorted, ht.cok, ht.fi, ?_, ht.fr, ?_, ?_⟩
        · intro b hb'; simp only [Option.some.injEq] at hb'; subst hb'; exact a2
        · intro b hb' d hd
          simp only [Option.some.injEq] at hb'
          subst hb'
          rw [a3']
          have := hlt d hd; omega
        · intro f b hf' hb'
          simp only [Option.some.injEq] at hb'
          subst hb'
          rw [a3']
          exact hi.fr f hf' c hcmem
    | false =>
      have hne := hsfalse (by rw [hs])
      -- every chunk from the search position on is entirely above n
      have hgt : ∀ d ∈ it.containers.drop loc', n / 65536 < d.key := by
        intro d hd
        rcases Nat.lt_or_ge loc' it.containers.length with hlen | hlen
        · have hdropc : it.containers.drop loc' = it.containers[loc'] :: it.containers.drop (loc' + 1) :=
            List.drop_eq_getElem_cons hlen
          have h0 : n / 65536 < (it.containers[loc']).key := by
            have h1 := hge (it.containers[loc']) (by rw [hdropc]; exact List.mem_cons_self)
            have h2 := hne (it.containers[loc']) (List.getElem?_eq_getElem hlen)
            omega
          rw [hdropc] at hd
          rcases List.mem_cons.mp hd with rfl | hd
          · exact h0
          · have := hsorted_drop loc'
            rw [hdropc] at this
            have hs2 : SortedLt ((it.containers[loc']).key :: (it.containers.drop (loc' + 1)).map (·.key)) := this
            have := (List.pairwise_cons.mp hs2).1 d.key (List.mem_map_of_mem hd)
            omega
        · rw [List.drop_eq_nil_of_le hlen] at hd; simp at hd
      have hdrop_post : (mid (it.containers.drop loc')).filter (fun x => decide (x ≤ n)) = [] := by
        apply filterLE_drop
        intro x hx
        obtain ⟨d, hd, hxd⟩ := mid_hi K _ (hcok_drop _) x hx
        have := hgt d hd; omega
      have htk : it.containers.length - (it.containers.length - loc') = loc' := by omega
      simp only [htk]
      by_cases hz : it.containers.length - loc' = it.containers.length
      · -- no middle chunk remains: trim the front iterator
        have hnil : it.containers.take loc' = [] := by
          rcases Nat.eq_zero_or_pos loc' with h0 | h0
          · rw [h0]; rfl
          · have : it.containers.length = 0 := by omega
            rw [List.length_eq_zero_iff.mp this]; simp
        simp only [hz, ne_eq, not_true_eq_false, ↓reduceIte, hnil]
        rw [hnil] at hrem_split
        cases hf : it.front with
        | none =>
          simp only []
          rw [hrem_split]
          simp only [Iter.rem, hf, hb, orem_none, mid_nil, List.append_nil, List.nil_append]
          rw [hdrop_post]
          exact ⟨by simp, ⟨by simp [SortedLt], by simp, by simp, by simp, by simp, by simp, by simp⟩⟩
        | some f =>
          simp only []
          have hfi := hi.fi f hf
          have hfront_hi : ∀ x ∈ f.rem, x / 65536 = f.key := fun x hx => K.rem_hi f hfi x hx
          rw [hrem_split]
          by_cases c1 : n / 65536 > f.key
          · simp only [c1, ↓reduceIte, Iter.rem, hf, hb, orem_none, orem_some, mid_nil, List.append_nil,
              List.filter_append]
            rw [hdrop_post]
            refine ⟨?_, ⟨by simp [SortedLt], by simp, ?_, by simp, by simp, by simp, by simp⟩⟩
            · simp only [List.append_nil]
              symm; apply filterLE_keep
              intro x hx; have := hfront_hi x hx; omega
            · intro f' hf'; simp only [Option.some.injEq] at hf'; subst hf'; exact hfi
          · simp only [c1, ↓reduceIte]
            obtain ⟨a1, a2, a3⟩ := K.advanceBackTo f (n % 65536) hfi hidx
            by_cases c2 : n / 65536 = f.key
            · simp only [c2, ↓reduceIte, Iter.rem, hf, hb, orem_none, orem_some, mid_nil, List.append_nil,
                List.filter_append]
              rw [hdrop_post, a1]
              have : f.key * 65536 + n % 65536 = n := by omega
              rw [this]
              refine ⟨by simp, ⟨by simp [SortedLt], by simp, ?_, by simp, by simp, by simp, by simp⟩⟩
              intro f' hf'; simp only [Option.some.injEq] at hf'; subst hf'; exact a2
            · simp only [c2, ↓reduceIte, Iter.rem, hf, hb, orem_none, orem_some, mid_nil, List.append_nil,
                List.filter_append]
              rw [hdrop_post]
              refine ⟨?_, ⟨by simp [SortedLt], by simp, by simp, by simp, by simp, by simp, by simp⟩⟩
              simp only [List.append_nil]
              symm; apply filterLE_drop
              intro x hx; have := hfront_hi x hx; omega
      · -- chunks with smaller keys remain behind the search position: nothing more to trim
        simp only [hz, ne_eq, not_false_eq_true, ↓reduceIte]
        have hlt0 : 0 < (it.containers.take loc').length := by rw [List.length_take]; omega
        have hmem : (it.containers.take loc')[0] ∈ it.containers.take loc' := List.getElem_mem hlt0
        have hfk := hfront_keep _ (List.mem_of_mem_take hmem) (by have := hlt _ hmem; omega)
        refine ⟨?_, hinv_take loc'⟩
        rw [hrem_split]
        simp only [Iter.rem, hb, orem_none, List.append_nil, List.filter_append]
        rw [hfk, hkeep_pre, hdrop_post]
        simp

theorem advanceBackTo_spec (K : CKernel) (it : Iter) (hi : it.Inv) (n : Nat) :
    (it.advanceBackTo n).rem = it.rem.filter (fun x => decide (x ≤ n)) ∧ (it.advanceBackTo n).Inv := by
  have hidx : n % 65536 < 65536 := Nat.mod_lt _ (by omega)
  unfold Iter.advanceBackTo Bitmap.hi16 Bitmap.lo16
  simp only []
  cases hb : it.back with
  | none =>
    simp only []
    exact advanceBackToRest_spec K it hi n hb
  | some b =>
    simp only []
    have hbi := hi.bi b hb
    have hback_hi : ∀ x ∈ b.rem, x / 65536 = b.key := fun x hx => K.rem_hi b hbi x hx
    -- everything in front of the back iterator has a smaller high part
    have hpre : ∀ x ∈ orem it.front ++ mid it.containers, x / 65536 < b.key := by
      intro x hx
      rcases List.mem_append.mp hx with hx | hx
      · obtain ⟨f, hf, hxf⟩ := orem_hi K it.front hi.fi x hx
        have := hi.fb f b hf hb; omega
      · obtain ⟨c, hc, hxc⟩ := mid_hi K _ hi.cok x hx
        have := hi.bk b hb c hc; omega
    have hrem : it.rem = (orem it.front ++ mid it.containers) ++ b.rem := by
      simp only [Iter.rem, hb, orem_some]
    by_cases c1 : n / 65536 > b.key
    · simp only [c1, ↓reduceIte]
      refine ⟨?_, hi⟩
      symm; apply filterLE_keep
      intro x hx
      rw [hrem] at hx
      rcases List.mem_append.mp hx with hx | hx
      · have := hpre x hx; omega
      · have := hback_hi x hx; omega
    · simp only [c1, ↓reduceIte]
      by_cases c2 : n / 65536 = b.key
      · simp only [c2, ↓reduceIte]
        have hpre_keep : (orem it.front ++ mid it.containers).filter (fun x => decide (x ≤ n)) =
            orem it.front ++ mid it.containers := by
          apply filterLE_keep
          intro x hx
          have := hpre x hx; omega
        obtain ⟨a1, a2, a3⟩ := K.advanceBackTo b (n % 65536) hbi hidx
        refine ⟨?_, ?_⟩
        · rw [hrem, List.filter_append, hpre_keep, rem_mk, orem_some, a1]
          have : b.key * 65536 + n % 65536 = n := by omega
          rw [this]
        · exact hi.setBack (some (b.advanceBackTo (n % 65536))) (by
            intro c' hc'; simp only [Option.some.injEq] at hc'; subst hc'
            exact ⟨a2, b, hb, a3⟩)
      · simp only [c2, ↓reduceIte]
        obtain ⟨r1, r2⟩ := advanceBackToRest_spec K ⟨it.front, it.containers, none⟩ hi.clearBack n rfl
        refine ⟨?_, r2⟩
        rw [r1, hrem, rem_mk, orem_none, List.append_nil, List.filter_append (orem it.front ++ mid it.containers) b.rem]
        have : b.rem.filter (fun x => decide (x ≤ n)) = [] := by
          apply filterLE_drop
          intro x hx
          have := hback_hi x hx; omega
        rw [this, List.append_nil]

end Iter
end Roaring

#print axioms Roaring.Iter.advanceBackTo_spec
