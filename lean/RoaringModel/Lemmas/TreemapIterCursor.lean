import RoaringModel.Lemmas.TreemapIterBase
/-!
# Treemap iterator proofs, part 2: `treemap::Iter` is a cursor over `rem` — `new`, `next`, `next_back`,
  `size_hint` (advance_to / advance_back_to are in part 3).  Import-free.
-/
namespace Roaring
namespace TIter
open TL Treemap

variable {K : Inner} (S : InnerSpec K)

/-- the untouched partitions form a contiguous segment of the map -/
def Seg (tm r : Treemap) : Prop := ∃ pre post, tm = pre ++ r ++ post

theorem Seg.nil (tm : Treemap) : Seg tm [] := ⟨tm, [], by simp⟩
theorem Seg.tail {tm : Treemap} {p : Nat × Bitmap} {r : Treemap} (h : Seg tm (p :: r)) : Seg tm r := by
  obtain ⟨pre, post, rfl⟩ := h; exact ⟨pre ++ [p], post, by simp⟩
theorem Seg.init {tm : Treemap} {p : Nat × Bitmap} {r : Treemap} (h : Seg tm (r ++ [p])) : Seg tm r := by
  obtain ⟨pre, post, rfl⟩ := h; exact ⟨pre, p :: post, by simp⟩

/-- the abstraction: values not yet yielded, ascending -/
def Iter.rem (it : Iter K) : List Nat := orem S it.front ++ elems it.outer.range ++ orem S it.back

structure Iter.Inv (it : Iter K) : Prop where
  tmSorted : KeysSorted it.outer.treemap
  seg : Seg it.outer.treemap it.outer.range
  range : RInv S it.outer.range
  fr : ∀ f, it.front = some f → CInv S f ∧ ∀ p ∈ it.outer.range, f.hi < p.1
  bk : ∀ b, it.back = some b → CInv S b ∧ ∀ p ∈ it.outer.range, p.1 < b.hi
  fb : ∀ f b, it.front = some f → it.back = some b → f.hi < b.hi

theorem range_unb (t : Treemap) : Treemap.range t .unb .unb = t := by
  simp [Treemap.range, Bound.memB]

/-- `iter()`: the cursor starts on all values -/
theorem Iter.new_spec {t : Treemap} (h : WFd S.WF t) :
    (Iter.new (K := K) t).Inv S ∧ (Iter.new (K := K) t).rem S = elems t := by
  refine ⟨⟨h.sorted, ?_, ?_, by simp [Iter.new], by simp [Iter.new], by simp [Iter.new]⟩, ?_⟩
  · simp only [Iter.new, PIter.new, range_unb]; exact ⟨[], [], by simp⟩
  · simp only [Iter.new, PIter.new, range_unb]
    exact ⟨h.sorted, fun p hp => ⟨(h.parts p hp).1, (h.parts p hp).2.1⟩⟩
  · simp [Iter.rem, Iter.new, PIter.new, range_unb]

/-! ### `next` -/
theorem nextOuter_spec (tm : Treemap) (htm : KeysSorted tm) (back : Option (To64 K))
    (hb : ∀ b, back = some b → CInv S b) :
    ∀ (range : Treemap) (front : Option (To64 K)), Seg tm range → RInv S range →
      (∀ b, back = some b → ∀ p ∈ range, p.1 < b.hi) →
      (∀ f, front = some f → CInv S f ∧ crem S f = [] ∧ (∀ p ∈ range, f.hi < p.1) ∧ ∀ b, back = some b → f.hi < b.hi) →
      (Iter.nextOuter tm back range front).1.Inv S ∧
      (Iter.nextOuter tm back range front).1.rem S = (elems range ++ orem S back).tail ∧
      (Iter.nextOuter tm back range front).2 = (elems range ++ orem S back).head?
  | [], front, _, _, _, hf => by
    unfold Iter.nextOuter
    have hfr : orem S front = [] := by
      cases front with
      | none => rfl
      | some f => exact (hf f rfl).2.1
    cases back with
    | none =>
      refine ⟨⟨htm, Seg.nil _, RInv.nil S, ?_, by simp, by simp⟩, by simp [Iter.rem, hfr, elems], by simp [elems]⟩
      intro f hf'; exact ⟨(hf f hf').1, by simp⟩
    | some b =>
      obtain ⟨h1, h2, h3⟩ := To64.next_spec S (hb b rfl)
      refine ⟨⟨htm, Seg.nil _, RInv.nil S, ?_, ?_, ?_⟩, ?_, ?_⟩
      · intro f hf'; exact ⟨(hf f hf').1, by simp⟩
      · intro b' hb'; simp only [Option.some.injEq] at hb'; subst hb'; exact ⟨h1, by simp⟩
      · intro f b' hf' hb'; simp only [Option.some.injEq] at hb'; subst hb'
        exact (hf f hf').2.2.2 b rfl
      · simp [Iter.rem, hfr, elems, h2]
      · simp [elems, h3]
  | p :: rest, front, hseg, hr, hbk, hf => by
    unfold Iter.nextOuter
    obtain ⟨hc, hcrem⟩ := to64_inv S (hr.parts p (by simp))
    obtain ⟨h1, h2, h3⟩ := To64.next_spec S hc
    have hlt := (keysSorted_cons.mp hr.sorted).1
    have hel : elems (p :: rest) = crem S (to64 K p) ++ elems rest := by rw [elems_cons, hcrem]
    cases hv : (to64 K p).next.2 with
    | some v =>
      simp only [hv]
      have hne : crem S (to64 K p) ≠ [] := by
        intro h; rw [hv, h] at h3; simp at h3
      refine ⟨⟨htm, hseg.tail, hr.tail, ?_, ?_, ?_⟩, ?_, ?_⟩
      · intro f hf'; simp only [Option.some.injEq] at hf'; subst hf'
        exact ⟨h1, fun q hq => hlt q hq⟩
      · intro b hb'; exact ⟨hb b hb', fun q hq => hbk b hb' q (List.mem_cons_of_mem _ hq)⟩
      · intro f b hf' hb'; simp only [Option.some.injEq] at hf'; subst hf'
        exact hbk b hb' p (by simp)
      · simp only [Iter.rem, orem_some, h2, hel, List.append_assoc]
        rw [List.tail_append_of_ne_nil hne]
      · rw [← hv, h3, hel, List.append_assoc, head?_append_ne hne]
    | none =>
      simp only [hv]
      have hnil : crem S (to64 K p) = [] := by
        rw [hv] at h3; exact List.head?_eq_none_iff.mp h3.symm
      have ih := nextOuter_spec tm htm back hb rest (some (to64 K p).next.1) hseg.tail hr.tail
        (fun b hb' q hq => hbk b hb' q (List.mem_cons_of_mem _ hq))
        (by
          intro f hf'; simp only [Option.some.injEq] at hf'; subst hf'
          exact ⟨h1, by rw [h2, hnil]; rfl, fun q hq => hlt q hq, fun b hb' => hbk b hb' p (by simp)⟩)
      rw [hel, hnil, List.nil_append]
      exact ih

theorem Iter.next_spec (it : Iter K) (h : it.Inv S) :
    it.next.1.Inv S ∧ it.next.1.rem S = (it.rem S).tail ∧ it.next.2 = (it.rem S).head? := by
  unfold Iter.next
  have hb : ∀ b, it.back = some b → CInv S b := fun b hb => (h.bk b hb).1
  cases hf : it.front with
  | none =>
    simp only []
    have := nextOuter_spec S it.outer.treemap h.tmSorted it.back hb it.outer.range none h.seg h.range
      (fun b hb' => (h.bk b hb').2) (by simp)
    simpa [Iter.rem, hf, List.append_assoc] using this
  | some f =>
    simp only []
    obtain ⟨hcf, hfl⟩ := h.fr f hf
    obtain ⟨h1, h2, h3⟩ := To64.next_spec S hcf
    cases hv : f.next.2 with
    | some v =>
      simp only [hv]
      have hne : crem S f ≠ [] := by intro h'; rw [hv, h'] at h3; simp at h3
      refine ⟨⟨h.tmSorted, h.seg, h.range, ?_, h.bk, ?_⟩, ?_, ?_⟩
      · intro g hg; simp only [Option.some.injEq] at hg; subst hg; exact ⟨h1, hfl⟩
      · intro g b hg hb'; simp only [Option.some.injEq] at hg; subst hg; exact h.fb f b hf hb'
      · simp only [Iter.rem, orem_some, h2, hf, List.append_assoc]
        rw [List.tail_append_of_ne_nil hne]
      · rw [← hv, h3]; simp only [Iter.rem, hf, orem_some, List.append_assoc]
        rw [head?_append_ne hne]
    | none =>
      simp only [hv]
      have hnil : crem S f = [] := by rw [hv] at h3; exact List.head?_eq_none_iff.mp h3.symm
      have := nextOuter_spec S it.outer.treemap h.tmSorted it.back hb it.outer.range (some f.next.1) h.seg h.range
        (fun b hb' => (h.bk b hb').2)
        (by
          intro g hg; simp only [Option.some.injEq] at hg; subst hg
          exact ⟨h1, by rw [h2, hnil]; rfl, hfl, fun b hb' => h.fb f b hf hb'⟩)
      simpa [Iter.rem, hf, hnil, List.append_assoc] using this

/-! ### `next_back` -/
theorem elems_append (a b : Treemap) : elems (a ++ b) = elems a ++ elems b := by simp [elems]

theorem RInv.snoc_lt {r : Treemap} {p : Nat × Bitmap} (h : RInv S (r ++ [p])) : ∀ q ∈ r, q.1 < p.1 := by
  have := h.sorted
  simp only [KeysSorted, keys, List.map_append, Sorted, List.pairwise_append] at this
  intro q hq
  exact this.2.2 q.1 (List.mem_map_of_mem hq) p.1 (by simp)

theorem nextBackOuter_spec (tm : Treemap) (htm : KeysSorted tm) (front : Option (To64 K))
    (hfr : ∀ f, front = some f → CInv S f) :
    ∀ (rrange : Treemap) (back : Option (To64 K)), Seg tm rrange.reverse → RInv S rrange.reverse →
      (∀ f, front = some f → ∀ p ∈ rrange, f.hi < p.1) →
      (∀ b, back = some b → CInv S b ∧ crem S b = [] ∧ (∀ p ∈ rrange, p.1 < b.hi) ∧ ∀ f, front = some f → f.hi < b.hi) →
      (Iter.nextBackOuter tm front rrange back).1.Inv S ∧
      (Iter.nextBackOuter tm front rrange back).1.rem S = (orem S front ++ elems rrange.reverse).dropLast ∧
      (Iter.nextBackOuter tm front rrange back).2 = (orem S front ++ elems rrange.reverse).getLast?
  | [], back, _, _, _, hb => by
    unfold Iter.nextBackOuter
    have hbk : orem S back = [] := by
      cases back with
      | none => rfl
      | some b => exact (hb b rfl).2.1
    cases front with
    | none =>
      refine ⟨⟨htm, Seg.nil _, RInv.nil S, by simp, ?_, by simp⟩, by simp [Iter.rem, hbk, elems], by simp [elems]⟩
      intro b hb'; exact ⟨(hb b hb').1, by simp⟩
    | some f =>
      obtain ⟨h1, h2, h3⟩ := To64.nextBack_spec S (hfr f rfl)
      refine ⟨⟨htm, Seg.nil _, RInv.nil S, ?_, ?_, ?_⟩, ?_, ?_⟩
      · intro f' hf'; simp only [Option.some.injEq] at hf'; subst hf'; exact ⟨h1, by simp⟩
      · intro b hb'; exact ⟨(hb b hb').1, by simp⟩
      · intro f' b hf' hb'; simp only [Option.some.injEq] at hf'; subst hf'
        exact (hb b hb').2.2.2 f rfl
      · simp [Iter.rem, hbk, elems, h2]
      · simp [elems, h3]
  | p :: rrest, back, hseg, hr, hfl, hb => by
    unfold Iter.nextBackOuter
    rw [List.reverse_cons] at hseg hr ⊢
    obtain ⟨hc, hcrem⟩ := to64_inv S (hr.parts p (by simp))
    obtain ⟨h1, h2, h3⟩ := To64.nextBack_spec S hc
    have hlt := hr.snoc_lt S
    have hr' : RInv S rrest.reverse := hr.sublist S (List.sublist_append_left _ _)
    have hel : elems (rrest.reverse ++ [p]) = elems rrest.reverse ++ crem S (to64 K p) := by
      rw [elems_append, hcrem]; simp [elems]
    cases hv : (to64 K p).nextBack.2 with
    | some v =>
      simp only [hv]
      have hne : crem S (to64 K p) ≠ [] := by
        intro h; rw [hv, h] at h3; simp at h3
      refine ⟨⟨htm, hseg.init, hr', ?_, ?_, ?_⟩, ?_, ?_⟩
      · intro f hf'; exact ⟨hfr f hf', fun q hq => hfl f hf' q (by simp at hq ⊢; exact Or.inr hq)⟩
      · intro b hb'; simp only [Option.some.injEq] at hb'; subst hb'
        exact ⟨h1, fun q hq => hlt q hq⟩
      · intro f b hf' hb'; simp only [Option.some.injEq] at hb'; subst hb'
        exact hfl f hf' p (by simp)
      · simp only [Iter.rem, orem_some, h2, hel]
        rw [← List.append_assoc, dropLast_append_ne hne]
      · rw [← hv, h3, hel, ← List.append_assoc, getLast?_append_ne hne]
    | none =>
      simp only [hv]
      have hnil : crem S (to64 K p) = [] := by
        rw [hv] at h3; exact List.getLast?_eq_none_iff.mp h3.symm
      have ih := nextBackOuter_spec tm htm front hfr rrest (some (to64 K p).nextBack.1) hseg.init hr'
        (fun f hf' q hq => hfl f hf' q (List.mem_cons_of_mem _ hq))
        (by
          intro b hb'; simp only [Option.some.injEq] at hb'; subst hb'
          exact ⟨h1, by rw [h2, hnil]; rfl, fun q hq => hlt q (by simpa using hq), fun f hf' => hfl f hf' p (by simp)⟩)
      rw [hel, hnil, List.append_nil]
      exact ih

theorem Iter.nextBack_spec (it : Iter K) (h : it.Inv S) :
    it.nextBack.1.Inv S ∧ it.nextBack.1.rem S = (it.rem S).dropLast ∧ it.nextBack.2 = (it.rem S).getLast? := by
  unfold Iter.nextBack
  have hfr : ∀ f, it.front = some f → CInv S f := fun f hf => (h.fr f hf).1
  have hrr : it.outer.range.reverse.reverse = it.outer.range := List.reverse_reverse _
  cases hb : it.back with
  | none =>
    simp only []
    have := nextBackOuter_spec S it.outer.treemap h.tmSorted it.front hfr it.outer.range.reverse none
      (by rw [hrr]; exact h.seg) (by rw [hrr]; exact h.range)
      (fun f hf' q hq => (h.fr f hf').2 q (by simpa using hq)) (by simp)
    rw [hrr] at this
    simpa [Iter.rem, hb] using this
  | some b =>
    simp only []
    obtain ⟨hcb, hbl⟩ := h.bk b hb
    obtain ⟨h1, h2, h3⟩ := To64.nextBack_spec S hcb
    cases hv : b.nextBack.2 with
    | some v =>
      simp only [hv]
      have hne : crem S b ≠ [] := by intro h'; rw [hv, h'] at h3; simp at h3
      refine ⟨⟨h.tmSorted, h.seg, h.range, h.fr, ?_, ?_⟩, ?_, ?_⟩
      · intro g hg; simp only [Option.some.injEq] at hg; subst hg; exact ⟨h1, hbl⟩
      · intro f g hf' hg; simp only [Option.some.injEq] at hg; subst hg; exact h.fb f b hf' hb
      · simp only [Iter.rem, orem_some, h2, hb]
        rw [dropLast_append_ne hne]
      · rw [← hv, h3]; simp only [Iter.rem, hb, orem_some]
        rw [getLast?_append_ne hne]
    | none =>
      simp only [hv]
      have hnil : crem S b = [] := by rw [hv] at h3; exact List.getLast?_eq_none_iff.mp h3.symm
      have := nextBackOuter_spec S it.outer.treemap h.tmSorted it.front hfr it.outer.range.reverse (some b.nextBack.1)
        (by rw [hrr]; exact h.seg) (by rw [hrr]; exact h.range)
        (fun f hf' q hq => (h.fr f hf').2 q (by simpa using hq))
        (by
          intro g hg; simp only [Option.some.injEq] at hg; subst hg
          exact ⟨h1, by rw [h2, hnil]; rfl, fun q hq => hbl q (by simpa using hq), fun f hf' => h.fb f b hf' hb⟩)
      rw [hrr] at this
      simpa [Iter.rem, hb, hnil] using this

/-! ### `size_hint` -/
theorem remaining_eq {r : Treemap} (h : RInv S r) : ∀ acc,
    r.foldl (fun acc q => acc + Bitmap.len q.2) acc = acc + (elems r).length := by
  induction r with
  | nil => intro acc; simp [elems]
  | cons p r ih =>
    intro acc
    rw [List.foldl_cons, ih h.tail, elems_cons, S.len_spec p.2 (h.parts p (by simp)).2]
    simp [Nat.add_assoc]

/-- `size_hint` is exact (both components) as long as the count fits `usize` -/
theorem Iter.sizeHint_spec (it : Iter K) (h : it.Inv S) (hfit : (it.rem S).length ≤ usizeMax) :
    it.sizeHint = (it.rem S).length := by
  have h1 : (match it.front with | some f => f.sizeHint | none => 0) = (orem S it.front).length := by
    cases hf : it.front with
    | none => rfl
    | some f => simp [To64.sizeHint, S.sizeHint_spec _ (h.fr f hf).1.1, crem]
  have h2 : (match it.back with | some b => b.sizeHint | none => 0) = (orem S it.back).length := by
    cases hb : it.back with
    | none => rfl
    | some b => simp [To64.sizeHint, S.sizeHint_spec _ (h.bk b hb).1.1, crem]
  have h3 : it.outer.remaining = (elems it.outer.range).length := by
    unfold PIter.remaining; rw [remaining_eq S h.range]; simp
  have h0 : it.sizeHint = min (min ((match it.front with | some f => f.sizeHint | none => 0) +
      (match it.back with | some b => b.sizeHint | none => 0)) usizeMax + it.outer.remaining) usizeMax := rfl
  rw [h0, h1, h2, h3]
  simp only [Iter.rem, List.length_append] at hfit ⊢
  omega

end TIter
end Roaring
