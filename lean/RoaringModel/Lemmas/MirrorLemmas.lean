import RoaringModel.Lemmas.ArrMerge
import RoaringModel.Lemmas.ArrFacts
import RoaringModel.Lemmas.BStoreBasic
import RoaringModel.Lemmas.StoreFacts
/-!
# Fidelity audit, area "stores and 32-bit iterators": the mirrored definitions equal the model definitions

The mirrored definitions themselves (quoting the Rust next to them) live next to the definitions they mirror:

* `Arr.scalarOr/And/Sub/Xor V` (ArrayStore.lean) — `scalar.rs`, ONE generic function per operator, parameterised by
  the `BinaryOperationVisitor`; `Arr.vecWriter`, `Arr.cardCounter` — the two visitors of `visitor.rs`;
  `Arr.orVisit …`, `Arr.interLenVisit` — the operator impls / `intersection_len` up to `visitor.into_inner()`;
  `Arr.orOp dbg …` — including the closing `from_vec_unchecked`.
  Unconditional equalities + `@[csimp]` (the compiled driver runs the generic code): ArrayStore.lean.
* `BStore.opBitmapsMirror` (`op_bitmaps` as one loop with the running `len`), `BStore.insertRangeMirror` (the fused
  count-and-fill loop over the middle words): BitmapStore.lean, with `opBitmaps_mirror_eq` (unconditional, csimp) and
  `insertRange_mirror_eq` (needs the last word index inside the list; guarded csimp `insertRange_eq_exec`).
* `BStore.toArrayOp dbg`, `Store.arrToBitmapOp dbg` — the two conversions with the debug validation of the
  `*_unchecked` constructor they end in.
* `Unsafe.retain` (Unsafe.lean) — `ArrayStore::retain` at index level (`pos` write cursor, `truncate(pos)`); its
  equalities (`retain_eq`, `retainList_and/sub`, `retain_filter`) are in `Lemmas/UnsafeLemmas.lean` (that file cannot be
  imported together with `Lemmas/BIterDefs.lean`, so it is kept apart).

This file states the equalities under the shared invariants (`Sorted` / `Arr.Inv` / `BStore.Inv`, i.e. what `Store.Inv`
— hence `Bitmap.WF` — gives for every chunk) in the form the `Props/*.lean` corollaries use.
-/
namespace Roaring

namespace Arr

theorem orVisit_eq (a b : List Nat) : orVisit a b = or a b := (congrFun (congrFun or_eq_visit a) b).symm
theorem andVisit_eq (a b : List Nat) : andVisit a b = and a b := (congrFun (congrFun and_eq_visit a) b).symm
theorem subVisit_eq (a b : List Nat) : subVisit a b = sub a b := (congrFun (congrFun sub_eq_visit a) b).symm
theorem xorVisit_eq (a b : List Nat) : xorVisit a b = xor a b := (congrFun (congrFun xor_eq_visit a) b).symm
theorem interLenVisit_eq (a b : List Nat) : interLenVisit a b = interLen a b :=
  (congrFun (congrFun interLen_eq_visit a) b).symm

/-- the counting visitor counts what the writing visitor writes: `intersection_len` = `len` of `&` on arrays,
    for arbitrary (also ill-formed) operands -/
theorem interLenVisit_eq_length (a b : List Nat) : interLenVisit a b = (andVisit a b).length := by
  rw [interLenVisit_eq, andVisit_eq, interLen_eq]

/-- `&a | &b` on arrays: the debug validation of `from_vec_unchecked` never fires on strictly ascending operands -/
theorem orOp_eq (dbg : Bool) (a b : List Nat) (ha : Sorted a) (hb : Sorted b) : orOp dbg a b = some (or a b) := by
  unfold orOp; rw [orVisit_eq]; exact fromVecUnchecked_spec dbg _ (sorted_or a b ha hb)
theorem andOp_eq (dbg : Bool) (a b : List Nat) (ha : Sorted a) (hb : Sorted b) : andOp dbg a b = some (and a b) := by
  unfold andOp; rw [andVisit_eq]; exact fromVecUnchecked_spec dbg _ (sorted_and a b ha hb)
theorem subOp_eq (dbg : Bool) (a b : List Nat) (ha : Sorted a) (hb : Sorted b) : subOp dbg a b = some (sub a b) := by
  unfold subOp; rw [subVisit_eq]; exact fromVecUnchecked_spec dbg _ (sorted_sub a b ha hb)
theorem xorOp_eq (dbg : Bool) (a b : List Nat) (ha : Sorted a) (hb : Sorted b) : xorOp dbg a b = some (xor a b) := by
  unfold xorOp; rw [xorVisit_eq]; exact fromVecUnchecked_spec dbg _ (sorted_xor a b ha hb)

end Arr

namespace BStore

/-- `to_array_store`: the debug validation of `from_vec_unchecked` never fires -/
theorem toArrayOp_eq (dbg : Bool) (b : BStore) (hb : b.Inv) : toArrayOp dbg b = some b.toArray :=
  Arr.fromVecUnchecked_spec dbg _ (sorted_toArray b hb)

/-- `insert_range`: under the store invariant and for a `u16` range the fused loop is the model definition -/
theorem insertRange_mirror_eq_of_inv (b : BStore) (hb : b.Inv) (s e : Nat) (hse : s ≤ e) (he : e < 65536) :
    insertRangeMirror b s e = insertRange b s e :=
  insertRange_mirror_eq b s e hse (by rw [hb.length]; unfold wkey; omega)

/-- … and so is what the compiled driver runs -/
theorem insertRangeExec_eq_mirror (b : BStore) (hb : b.Inv) (s e : Nat) (hse : s ≤ e) (he : e < 65536) :
    insertRangeExec b s e = insertRangeMirror b s e := by
  unfold insertRangeExec
  rw [if_pos ⟨hse, by rw [hb.length]; unfold wkey; omega⟩]

end BStore

namespace Store

/-- `to_bitmap_store`: the debug `try_from(len, bits).unwrap()` of `from_unchecked` never fires -/
theorem arrToBitmapOp_eq (dbg : Bool) (v : List Nat) (hv : Arr.Inv v) : arrToBitmapOp dbg v = some (arrToBitmap v) := by
  have h : v.length = BStore.popSum (arrToBitmapBits v) := (BStore.arrToBitmap_spec v hv).1.len
  unfold arrToBitmapOp BStore.fromUnchecked
  cases dbg
  · rfl
  · simp only [if_true]
    rw [BStore.tryFrom_spec, if_pos h]; rfl

end Store

end Roaring
