import RoaringModel.Lemmas.InterSer
import RoaringModel.Lemmas.DecodeSpec
import RoaringModel.Lemmas.BitmapSearchOps
import RoaringModel.Lemmas.Dir
/-!
# `intersection_with_serialized_unchecked` on conformant streams (C18)

`interSer_spec`: for a well-formed left operand `a` and a byte string accepted by the strict reference decoder
`Spec.decode` with set `S`, `Bitmap.interSer dbg a bytes` (both build configurations) returns a `Bitmap.WF`
value whose elements are exactly those of `a` that are in `S`.

Structure: the cursor reader simulates the slice reader and never changes the data (`cursor_of_slice`); the
reference container loop yields the decoded containers *with their positions* (`Layout`,
`decodeChunks_layout`); reading one chunk at such a position gives a structurally valid store with the
reference values (`interReadStore_spec` — run chunks are not normalised here, the `&=` that follows does it:
`interPush_spec`, from the algebra family's `Store.andAssignRef_spec` / `Container.op_spec`); then the two
loops (`interOffsets_spec` over `self.containers` with seeks into the offset table, `interSequential_spec` over
the descriptions with skipping) are characterised chunk by chunk (`Bitmap.chunk`).
-/
namespace Roaring
open Parser

/-! ### cursor parsers never change the underlying data -/

def Keeps {α : Type} (p : Parser Cursor α) : Prop := ∀ c a c', p c = .ok (a, c') → c'.data = c.data

theorem keeps_pure {α : Type} (a : α) : Keeps (pure a : Parser Cursor α) := by
  intro c a' c' h
  simp only [pure, Parser.pure, Except.ok.injEq, Prod.mk.injEq] at h
  rw [← h.2]

theorem keeps_fail {α : Type} (e : DecErr) : Keeps (fail e : Parser Cursor α) := by
  intro c a c' h; simp [fail] at h

theorem keeps_bind {α β : Type} (p : Parser Cursor α) (f : α → Parser Cursor β) (hp : Keeps p)
    (hf : ∀ a, Keeps (f a)) : Keeps (p >>= f) := by
  intro c b c' h
  simp only [bind, Parser.bind] at h
  split at h
  · rename_i a c1 hpa
    rw [hf a c1 b c' h, hp c a c1 hpa]
  · simp at h

theorem keeps_ofOption {α : Type} (e : DecErr) (x : Option α) : Keeps (ofOption e x : Parser Cursor α) := by
  cases x with
  | some a => exact keeps_pure a
  | none => exact keeps_fail e

theorem keeps_ofExcept {α : Type} (x : Except DecErr α) : Keeps (ofExcept x : Parser Cursor α) := by
  cases x with
  | ok a => exact keeps_pure a
  | error e => exact keeps_fail e

theorem keeps_readExact (n : Nat) : Keeps (Cursor.readExact n) := by
  intro c a c' h
  unfold Cursor.readExact at h
  split at h
  · simp only [Except.ok.injEq, Prod.mk.injEq] at h; rw [← h.2]
  · split at h
    · simp only [Except.ok.injEq, Prod.mk.injEq] at h; rw [← h.2]
    · simp at h

theorem keeps_seekStart (off : Nat) : Keeps (Cursor.seekStart off) := by
  intro c a c' h
  simp only [Cursor.seekStart, Except.ok.injEq, Prod.mk.injEq] at h; rw [← h.2]

theorem keeps_seekCur (n : Nat) : Keeps (Cursor.seekCur n) := by
  intro c a c' h
  simp only [Cursor.seekCur, Except.ok.injEq, Prod.mk.injEq] at h; rw [← h.2]

theorem keeps_decodeRunStore : Keeps (decodeRunStore Cursor.readExact) := by
  unfold decodeRunStore
  apply keeps_bind _ _ (keeps_readExact _); intro rb
  apply keeps_bind _ _ (keeps_readExact _); intro ib
  exact keeps_ofExcept _

theorem keeps_decodeArrayStore (chk dbg : Bool) (card : Nat) :
    Keeps (decodeArrayStore Cursor.readExact chk dbg card) := by
  unfold decodeArrayStore
  apply keeps_bind _ _ (keeps_readExact _); intro vb
  dsimp only
  split
  · split
    · exact keeps_pure _
    · exact keeps_fail _
  · exact keeps_ofOption _ _

theorem keeps_decodeBitmapStore (chk dbg : Bool) (card : Nat) :
    Keeps (decodeBitmapStore Cursor.readExact chk dbg card) := by
  unfold decodeBitmapStore
  apply keeps_bind _ _ (keeps_readExact _); intro wb
  dsimp only
  split <;> exact keeps_ofOption _ _

theorem keeps_interReadStore (dbg : Bool) (card : Nat) (isRun : Bool) : Keeps (interReadStore dbg card isRun) := by
  unfold interReadStore
  split
  · exact keeps_decodeRunStore
  · split
    · exact keeps_decodeArrayStore _ _ _
    · exact keeps_decodeBitmapStore _ _ _

theorem keeps_decodeHeader : Keeps (decodeHeader Cursor.readExact) := by
  unfold decodeHeader
  apply keeps_bind _ _ (keeps_readExact _); intro cb
  apply keeps_bind
  · split
    · apply keeps_bind _ _ (keeps_readExact _); intro sb
      exact keeps_pure _
    · split
      · exact keeps_pure _
      · exact keeps_fail _
  · rintro ⟨size, hasOffsets, hasRun⟩
    apply keeps_bind
    · split
      · apply keeps_bind _ _ (keeps_readExact _); intro bm
        exact keeps_pure _
      · exact keeps_pure _
    · intro runBitmap
      split
      · exact keeps_fail _
      · apply keeps_bind _ _ (keeps_readExact _); intro db
        apply keeps_bind
        · split
          · exact keeps_readExact _
          · exact keeps_pure _
        · intro ob
          exact keeps_pure _

/-- transfer: what the slice parser does on the bytes from the cursor position on, the cursor parser does on
    the cursor -/
theorem cursor_of_slice {α : Type} (p' : Parser Cursor α) (p : Parser Bytes α)
    (hs : Sim (fun c : Cursor => c.data.drop c.pos) p' p) (hk : Keeps p')
    (c : Cursor) (a : α) (rest : Bytes) (h : p (c.data.drop c.pos) = .ok (a, rest)) :
    ∃ c', p' c = .ok (a, c') ∧ c'.data = c.data ∧ c.data.drop c'.pos = rest := by
  have h1 := hs c
  rw [h] at h1
  cases hp : p' c with
  | error e => rw [hp] at h1; simp [Except.map] at h1
  | ok r =>
    obtain ⟨a', c'⟩ := r
    rw [hp] at h1
    simp only [Except.map, Except.ok.injEq, Prod.mk.injEq] at h1
    have hd := hk c a' c' hp
    refine ⟨c', by rw [h1.1], hd, ?_⟩
    rw [← hd]; exact h1.2

/-! ### reading one chunk for the intersection -/

/-- `interReadStore` over an arbitrary reader -/
def readStoreG {σ : Type} (R : Nat → Parser σ (List Nat)) (dbg : Bool) (card : Nat) (isRun : Bool) : Parser σ Store :=
  if isRun then decodeRunStore R
  else if card ≤ ARRAY_LIMIT then decodeArrayStore R false dbg card
  else decodeBitmapStore R false dbg card

theorem interReadStore_eq (dbg : Bool) (card : Nat) (isRun : Bool) :
    interReadStore dbg card isRun = readStoreG Cursor.readExact dbg card isRun := rfl

theorem sim_readStoreG {σ' σ : Type} {π : σ' → σ} {R' : Nat → Parser σ' (List Nat)} {R : Nat → Parser σ (List Nat)}
    (hR : ∀ n, Sim π (R' n) (R n)) (dbg : Bool) (card : Nat) (isRun : Bool) :
    Sim π (readStoreG R' dbg card isRun) (readStoreG R dbg card isRun) := by
  unfold readStoreG
  split
  · exact sim_decodeRunStore hR
  · split
    · exact sim_decodeArrayStore hR _ _ _
    · exact sim_decodeBitmapStore hR _ _ _

theorem readStore_spec (dbg : Bool) (card : Nat) (isRun : Bool) (bs vals rest : List Nat)
    (hb : IsBytes bs) (hcard : 1 ≤ card) (h : Spec.decodeChunk isRun card bs = some (vals, rest)) :
    ∃ st, readStoreG readN dbg card isRun bs = .ok (st, rest) ∧ st.Inv ∧ st.elems = vals := by
  cases isRun with
  | true =>
    obtain ⟨st, hrun, hinv, hel, _, _⟩ := decodeRunStore_spec card bs vals rest hb hcard h
    exact ⟨st, by simpa [readStoreG] using hrun, hinv, hel⟩
  | false =>
    obtain ⟨st, hst, hwf, hel, _⟩ := decodeStore_spec false dbg card false bs vals rest hb hcard h
    refine ⟨st, ?_, Store.wf_inv _ hwf, hel⟩
    simpa [readStoreG, decodeStore] using hst

/-- reading a chunk at a cursor positioned on a conformant payload -/
theorem interReadStore_spec (dbg : Bool) (card : Nat) (isRun : Bool) (c : Cursor) (vals rest : List Nat)
    (hb : IsBytes c.data) (hcard : 1 ≤ card)
    (h : Spec.decodeChunk isRun card (c.data.drop c.pos) = some (vals, rest)) :
    ∃ st c', interReadStore dbg card isRun c = .ok (st, c') ∧ st.Inv ∧ st.elems = vals ∧
      c'.data = c.data ∧ c.data.drop c'.pos = rest := by
  obtain ⟨st, hst, hinv, hel⟩ := readStore_spec dbg card isRun _ vals rest (isBytes_drop _ hb) hcard h
  obtain ⟨c', h1, h2, h3⟩ := cursor_of_slice _ _ (sim_readStoreG sim_cursor dbg card isRun)
    (keeps_interReadStore dbg card isRun) c st rest hst
  exact ⟨st, c', h1, hinv, hel, h2, h3⟩


/-! ### the layout of a conformant stream: where each chunk lies -/

/-- `Layout whole flags ds i pos offs cs`: chunk `j` of the descriptions `ds` (stream index `i + j`) lies at a
    position `p_j` of `whole` (`p_0 = pos`), the reference decoder reads there exactly the values of the
    container `cs[j]`, and — when the stream has an offset table — `offs[j] = p_j` -/
def Layout (whole : List Nat) (flags : Option (List Nat)) :
    List (Nat × Nat) → Nat → Nat → Option (List Nat) → List Container → Prop
  | [], _, _, _, cs => cs = []
  | (key, cardM1) :: ds, i, pos, offs, cs =>
    ∃ c cs' pos' offs', cs = c :: cs' ∧ c.key = key ∧
      (∀ os, offs = some os → ∃ tl, os = pos :: tl ∧ offs' = some tl) ∧
      Spec.decodeChunk (isRunAt flags i) (cardM1 + 1) (whole.drop pos) = some (c.store.elems, whole.drop pos') ∧
      Layout whole flags ds (i + 1) pos' offs' cs'

theorem decodeChunk_rest {isRun : Bool} {card : Nat} {bs vals rest : List Nat}
    (h : Spec.decodeChunk isRun card bs = some (vals, rest)) : ∃ m, m ≤ bs.length ∧ rest = bs.drop m := by
  unfold Spec.decodeChunk at h
  split at h
  · simp only [bind, Option.bind_eq_some_iff, Prod.exists, guard_some_iff, pure,
      Option.some.injEq, Prod.mk.injEq] at h
    obtain ⟨nb, r1, h1, ib, r2, h2, _, _, _, _, _, hr⟩ := h
    obtain ⟨_, _, _, d1, l1⟩ := takeN_some h1
    obtain ⟨_, _, _, d2, l2⟩ := takeN_some h2
    subst hr
    refine ⟨2 + 4 * Spec.leNat nb, ?_, by rw [d2, d1, List.drop_drop]⟩
    rw [d1, List.length_drop] at l2; omega
  · split at h
    · simp only [bind, Option.bind_eq_some_iff, Prod.exists, guard_some_iff, pure,
        Option.some.injEq, Prod.mk.injEq] at h
      obtain ⟨vb, r1, h1, _, _, _, hr⟩ := h
      obtain ⟨_, _, _, d1, l1⟩ := takeN_some h1
      subst hr
      exact ⟨_, l1, d1⟩
    · simp only [bind, Option.bind_eq_some_iff, Prod.exists, guard_some_iff, pure,
        Option.some.injEq, Prod.mk.injEq] at h
      obtain ⟨vb, r1, h1, _, _, _, hr⟩ := h
      obtain ⟨_, _, _, d1, l1⟩ := takeN_some h1
      subst hr
      exact ⟨_, l1, d1⟩

/-- the reference container loop yields the decoded containers together with their layout -/
theorem decodeChunks_layout (whole : List Nat) (flags : Option (List Nat)) :
    ∀ (ds : List (Nat × Nat)) (i pos : Nat) (offs : Option (List Nat)) (cur S rest : List Nat),
      IsBytes cur → whole.drop pos = cur → Spec.decodeChunks flags ds i pos offs cur = some (S, rest) →
      ∃ cs : List Container, cs.map (·.key) = ds.map (·.1) ∧ (∀ c ∈ cs, c.store.WF) ∧ Bitmap.elems cs = S ∧
        Layout whole flags ds i pos offs cs
  | [], i, pos, offs, cur, S, rest, hb, hpos, h => by
    simp only [Spec.decodeChunks, Option.some.injEq, Prod.mk.injEq] at h
    obtain ⟨rfl, rfl⟩ := h
    exact ⟨[], rfl, by simp, rfl, rfl⟩
  | (key, cardM1) :: ds, i, pos, offs, cur, S, rest, hb, hpos, h => by
    obtain ⟨offs', vals, r1, more, hofs, h1, h2, hS⟩ := decodeChunks_cons_inv h
    obtain ⟨st, _, hwf, hel, hr1⟩ := decodeStore_spec false false (cardM1 + 1) (isRunAt flags i) cur vals r1 hb
      (by omega) h1
    obtain ⟨m, hm, hdrop⟩ := decodeChunk_rest h1
    have hpos' : whole.drop (pos + (cur.length - r1.length)) = r1 := by
      rw [hdrop, List.length_drop]
      have : cur.length - (cur.length - m) = m := by omega
      rw [this, ← hpos, List.drop_drop]
    obtain ⟨cs, hk, hw, he, hl⟩ := decodeChunks_layout whole flags ds (i + 1) _ offs' r1 more rest hr1 hpos' h2
    refine ⟨{ key := key, store := st } :: cs, by simp [hk], ?_, ?_, ?_⟩
    · intro c hc
      rcases List.mem_cons.mp hc with rfl | hc
      · exact hwf
      · exact hw c hc
    · rw [hS, ← he, ← hel]
      simp [Bitmap.elems, Container.elems]
    · refine ⟨_, cs, _, offs', rfl, rfl, hofs, ?_, hl⟩
      rw [hpos, hpos', hel]; exact h1


/-- random access into the layout -/
theorem Layout.get {whole : List Nat} {flags : Option (List Nat)} :
    ∀ {ds : List (Nat × Nat)} {i pos : Nat} {offs : Option (List Nat)} {cs : List Container},
      Layout whole flags ds i pos offs cs → ∀ (j : Nat) (d : Nat × Nat), ds[j]? = some d →
      ∃ bc p p', cs[j]? = some bc ∧ bc.key = d.1 ∧ (∀ os, offs = some os → os[j]? = some p) ∧
        Spec.decodeChunk (isRunAt flags (i + j)) (d.2 + 1) (whole.drop p) = some (bc.store.elems, whole.drop p')
  | [], _, _, _, _, _, j, d, hd => by simp at hd
  | (key, cardM1) :: ds, i, pos, offs, cs, hl, j, d, hd => by
    obtain ⟨c, cs', pos', offs', rfl, hk, hofs, hch, hl'⟩ := hl
    cases j with
    | zero =>
      simp only [List.getElem?_cons_zero, Option.some.injEq] at hd
      subst hd
      refine ⟨c, pos, pos', rfl, hk, ?_, hch⟩
      intro os hos
      obtain ⟨tl, rfl, _⟩ := hofs os hos
      rfl
    | succ j =>
      simp only [List.getElem?_cons_succ] at hd
      obtain ⟨bc, p, p', h1, h2, h3, h4⟩ := Layout.get hl' j d hd
      refine ⟨bc, p, p', by simpa using h1, h2, ?_, by rw [← Nat.add_assoc, Nat.add_right_comm]; exact h4⟩
      intro os hos
      obtain ⟨tl, rfl, htl⟩ := hofs os hos
      simpa using h3 tl htl

/-! ### directory lookups -/

theorem find_eq (a : Bitmap) (key : Nat) :
    (match Bitmap.search a key with
      | (true, index) => a[index]?
      | (false, _) => none) = Bitmap.find a key := rfl

theorem find_some {a : Bitmap} {k : Nat} {c : Container} : Bitmap.find a k = some c → c ∈ a ∧ c.key = k := by
  induction a with
  | nil => simp [Bitmap.find_nil]
  | cons r rs ih =>
    rw [Bitmap.find_cons]
    split
    · intro h; exact ⟨List.mem_cons_of_mem _ (ih h).1, (ih h).2⟩
    · split
      · rename_i hk
        intro h
        simp only [Option.some.injEq] at h
        subst h
        exact ⟨List.mem_cons_self, hk⟩
      · simp

/-- `chunk` through the binary search -/
theorem chunk_eq_find : ∀ (a : Bitmap), a.Dir → ∀ k,
    Bitmap.chunk a k = match Bitmap.find a k with
      | some c => c.store.elems
      | none => []
  | [], _, k => by simp [Bitmap.chunk, Bitmap.find_nil]
  | r :: rs, h, k => by
    rw [Bitmap.find_cons]
    simp only [Bitmap.chunk]
    by_cases h1 : r.key < k
    · rw [if_pos h1, if_neg (by omega)]
      exact chunk_eq_find rs h.tail k
    · rw [if_neg h1]
      by_cases h2 : r.key = k
      · rw [if_pos h2, if_pos h2]
      · rw [if_neg h2, if_neg h2]
        exact Bitmap.chunk_nil_of_lt (fun d hd => by have := h.head_lt d hd; omega)

theorem descrSearch_cons (d : Nat × Nat) (ds : List (Nat × Nat)) (k : Nat) :
    descrSearch (d :: ds) k =
      if d.1 < k then (descrSearch ds k).map (· + 1) else if d.1 = k then some 0 else none := by
  unfold descrSearch
  by_cases h : d.1 < k
  · simp only [List.takeWhile_cons, h, decide_true, if_true, List.length_cons, List.getElem?_cons_succ]
    generalize (List.takeWhile (fun d => decide (d.1 < k)) ds).length = i
    cases hi : ds[i]? with
    | none => simp
    | some c => simp only []; split <;> simp
  · simp only [List.takeWhile_cons, h, decide_false, Bool.false_eq_true, if_false, List.length_nil,
      List.getElem?_cons_zero]

/-- `chunk` of a directory through the binary search in its key list -/
theorem chunk_descrSearch : ∀ (b : Bitmap) (ds : List (Nat × Nat)), b.map (·.key) = ds.map (·.1) → b.Dir → ∀ k,
    match descrSearch ds k with
    | some i => ∃ d, ds[i]? = some d ∧ d.1 = k ∧ ∀ bc, b[i]? = some bc → Bitmap.chunk b k = bc.store.elems
    | none => Bitmap.chunk b k = []
  | [], [], _, _, k => by simp [descrSearch, Bitmap.chunk]
  | [], _ :: _, h, _, _ => by simp at h
  | _ :: _, [], h, _, _ => by simp at h
  | r :: rs, d :: ds, h, hdir, k => by
    simp only [List.map_cons, List.cons.injEq] at h
    obtain ⟨hk, hrest⟩ := h
    have ih := chunk_descrSearch rs ds hrest hdir.tail k
    rw [descrSearch_cons]
    simp only [Bitmap.chunk]
    by_cases h1 : d.1 < k
    · rw [if_pos h1, if_neg (by omega)]
      cases hs : descrSearch ds k with
      | none => rw [hs] at ih; simpa using ih
      | some i =>
        rw [hs] at ih
        obtain ⟨d', hd', hdk, hch⟩ := ih
        simp only [Option.map_some]
        exact ⟨d', by simpa using hd', hdk, fun bc hbc => hch bc (by simpa using hbc)⟩
    · rw [if_neg h1]
      by_cases h2 : d.1 = k
      · rw [if_pos h2, if_pos (by omega)]
        refine ⟨d, rfl, h2, ?_⟩
        intro bc hbc
        simp only [List.getElem?_cons_zero, Option.some.injEq] at hbc
        rw [hbc]
      · rw [if_neg h2, if_neg (by omega)]
        exact Bitmap.chunk_nil_of_lt (fun c hc => by have := hdir.head_lt c hc; omega)


/-! ### `other &= container; if !other.is_empty() { push }` -/

theorem interPush_spec (key : Nat) (st : Store) (c : Container) (acc : List Container)
    (hst : st.Inv) (hc : c.store.Inv) :
    (interPush key st c acc = acc ∧ ∀ v, ¬ (v ∈ st.elems ∧ v ∈ c.store.elems)) ∨
    (∃ oc, interPush key st c acc = acc ++ [oc] ∧ oc.key = key ∧ oc.store.WF ∧
      ∀ v, v ∈ oc.store.elems ↔ v ∈ st.elems ∧ v ∈ c.store.elems) := by
  have h := Container.op_spec bKernel (Store.andAssignRef_spec bKernel) { key := key, store := st } c hst hc
  simp only at h
  obtain ⟨h1, h2, h3⟩ := h
  have hoc : Container.andAssignRef { key := key, store := st } c =
      Container.ensureCorrectStore { key := key, store := st.andAssignRef c.store } := rfl
  unfold interPush
  simp only [hoc]
  by_cases he : (Container.ensureCorrectStore { key := key, store := st.andAssignRef c.store }).isEmpty = true
  · left
    rw [if_pos he]
    refine ⟨rfl, ?_⟩
    intro v hv
    have hnil := (Container.isEmpty_iff bKernel _ h2).mp he
    have := (h3 v).mpr hv
    rw [hnil] at this; simp at this
  · right
    rw [if_neg he]
    refine ⟨_, rfl, h1, Store.wf_of_canon _ h2 ?_, fun v => h3 v⟩
    intro hnil
    exact he ((Container.isEmpty_iff bKernel _ h2).mpr hnil)

theorem chunk_nil_of_sublist_gt {R : List Container} {keys : List Nat} {k : Nat}
    (hs : (R.map (·.key)).Sublist keys) (hk : ∀ x ∈ keys, k < x) : Bitmap.chunk R k = [] :=
  Bitmap.chunk_nil_of_lt (fun d hd => hk d.key (hs.subset (List.mem_map_of_mem hd)))

/-! ### the loop over `self.containers` (streams with an offset table) -/

theorem interOffsets_spec (dbg : Bool) (hd : Header) (whole : List Nat) (b : Bitmap) (pos0 : Nat)
    (hbytes : IsBytes whole)
    (hlay : Layout whole hd.runBitmap hd.descr 0 pos0 (some hd.offsets) b)
    (hbdir : b.Dir) (hbkeys : b.map (·.key) = hd.descr.map (·.1)) :
    ∀ (cs acc : List Container) (c0 : Cursor), c0.data = whole → Bitmap.Dir cs →
      ∃ R c1, interOffsets dbg hd cs acc c0 = .ok (acc ++ R, c1) ∧
        (R.map (·.key)).Sublist (cs.map (·.key)) ∧ (∀ oc ∈ R, oc.store.WF) ∧
        ∀ k v, v ∈ Bitmap.chunk R k ↔ v ∈ Bitmap.chunk cs k ∧ v ∈ Bitmap.chunk b k
  | [], acc, c0, _, _ => by
    refine ⟨[], c0, by simp [interOffsets, pure, Parser.pure], List.Sublist.refl _, by simp, ?_⟩
    intro k v; simp [Bitmap.chunk]
  | c :: cs, acc, c0, hc0, hdir => by
    have hcinv : c.store.Inv := Store.canon_inv _ (hdir.2 c List.mem_cons_self).2
    have hgt : ∀ x ∈ cs.map (·.key), c.key < x := by
      intro x hx
      obtain ⟨d, hd', rfl⟩ := List.mem_map.mp hx
      exact hdir.head_lt d hd'
    have hch := chunk_descrSearch b hd.descr hbkeys hbdir c.key
    unfold interOffsets
    cases hs : descrSearch hd.descr c.key with
    | none =>
      rw [hs] at hch
      simp only at hch ⊢
      obtain ⟨R, c1, h1, h2, h3, h4⟩ := interOffsets_spec dbg hd whole b pos0 hbytes hlay hbdir hbkeys cs acc c0 hc0 hdir.tail
      refine ⟨R, c1, h1, by simpa using List.Sublist.cons _ h2, h3, ?_⟩
      intro k v
      simp only [Bitmap.chunk]
      by_cases hk : c.key = k
      · subst hk
        rw [if_pos rfl, chunk_nil_of_sublist_gt h2 hgt, hch]; simp
      · rw [if_neg hk]; exact h4 k v
    | some i =>
      rw [hs] at hch
      simp only at hch ⊢
      obtain ⟨d, hdi, hdk, hchunk⟩ := hch
      obtain ⟨bc, p, p', hbi, hbk, hofs, hdec⟩ := hlay.get i d hdi
      have hoff : hd.offsets.getD i 0 = p := by
        have := hofs _ rfl
        simp [List.getD, this]
      have hdd : hd.descr.getD i (0, 0) = d := by simp [List.getD, hdi]
      rw [bind_ok _ _ _ _ _ (rfl : Cursor.seekStart (hd.offsets.getD i 0) c0 = .ok ((), { c0 with pos := hd.offsets.getD i 0 }))]
      simp only [hdd, hoff, Nat.zero_add] at hdec ⊢
      obtain ⟨st, c', hr, hinv, hel, hdata, _⟩ := interReadStore_spec dbg (d.2 + 1) (isRunAt hd.runBitmap i)
        { c0 with pos := p } bc.store.elems (whole.drop p') (by simpa [hc0] using hbytes) (by omega)
        (by simpa [hc0] using hdec)
      rw [bind_ok _ _ _ _ _ hr]
      have hc' : c'.data = whole := by rw [hdata]; exact hc0
      have hcb : Bitmap.chunk b c.key = bc.store.elems := hchunk bc hbi
      rcases interPush_spec d.1 st c acc hinv hcinv with ⟨hp, hempty⟩ | ⟨oc, hp, hock, hocwf, hocel⟩
      · rw [hp]
        obtain ⟨R, c1, h1, h2, h3, h4⟩ := interOffsets_spec dbg hd whole b pos0 hbytes hlay hbdir hbkeys cs acc c' hc' hdir.tail
        refine ⟨R, c1, h1, by simpa using List.Sublist.cons _ h2, h3, ?_⟩
        intro k v
        simp only [Bitmap.chunk]
        by_cases hk : c.key = k
        · subst hk
          rw [if_pos rfl, chunk_nil_of_sublist_gt h2 hgt, hcb, ← hel]
          have := hempty v
          constructor
          · simp
          · intro h; exact absurd ⟨h.2, h.1⟩ this
        · rw [if_neg hk]; exact h4 k v
      · rw [hp]
        obtain ⟨R, c1, h1, h2, h3, h4⟩ := interOffsets_spec dbg hd whole b pos0 hbytes hlay hbdir hbkeys cs (acc ++ [oc]) c' hc' hdir.tail
        refine ⟨oc :: R, c1, by rw [h1]; simp, ?_, ?_, ?_⟩
        · simp only [List.map_cons, hock, hdk]
          exact List.Sublist.cons_cons _ h2
        · intro x hx
          rcases List.mem_cons.mp hx with rfl | hx
          · exact hocwf
          · exact h3 x hx
        · intro k v
          simp only [Bitmap.chunk, hock, hdk]
          by_cases hk : c.key = k
          · subst hk
            rw [if_pos rfl, if_pos rfl, hcb, ← hel, hocel v]
            exact And.comm
          · rw [if_neg hk, if_neg hk]; exact h4 k v


/-! ### the sequential loop (streams without offset table) -/

/-- how far the reference decoder advances over a payload: what the skipping branches of the sequential
    loop compute -/
theorem decodeChunk_skip {isRun : Bool} {card : Nat} {bs vals rest : List Nat}
    (h : Spec.decodeChunk isRun card bs = some (vals, rest)) :
    if isRun then ∃ nb, readN 2 bs = .ok (nb, bs.drop 2) ∧ rest = (bs.drop 2).drop (2 * 2 * leVal nb)
    else if card ≤ ARRAY_LIMIT then rest = bs.drop (2 * card)
    else rest = bs.drop (8 * 1024) := by
  unfold Spec.decodeChunk at h
  cases isRun with
  | true =>
    simp only [↓reduceIte, bind, Option.bind_eq_some_iff, Prod.exists, guard_some_iff, pure,
      Option.some.injEq, Prod.mk.injEq] at h ⊢
    obtain ⟨nb, r1, h1, ib, r2, h2, _, _, _, _, _, hr⟩ := h
    obtain ⟨t1, _, _, d1, _⟩ := takeN_some h1
    obtain ⟨_, _, _, d2, _⟩ := takeN_some h2
    subst hr
    refine ⟨nb, by rw [← d1]; exact t1, ?_⟩
    rw [d2, d1, ← leNat_eq]
  | false =>
    simp only [Bool.false_eq_true, ↓reduceIte] at h ⊢
    by_cases hc : card ≤ 4096
    · have hc' : card ≤ ARRAY_LIMIT := hc
      simp only [hc, hc', ↓reduceIte, bind, Option.bind_eq_some_iff, Prod.exists, guard_some_iff, pure,
        Option.some.injEq, Prod.mk.injEq] at h ⊢
      obtain ⟨vb, r1, h1, _, _, _, hr⟩ := h
      obtain ⟨_, _, _, d1, _⟩ := takeN_some h1
      rw [← hr, d1]
    · have hc' : ¬ card ≤ ARRAY_LIMIT := hc
      simp only [hc, hc', ↓reduceIte, bind, Option.bind_eq_some_iff, Prod.exists, guard_some_iff, pure,
        Option.some.injEq, Prod.mk.injEq] at h ⊢
      obtain ⟨vb, r1, h1, _, _, _, hr⟩ := h
      obtain ⟨_, _, _, d1, _⟩ := takeN_some h1
      rw [← hr, d1]

theorem interSequential_cons (dbg : Bool) (a : Bitmap) (rb : Option (List Nat)) (key cardM1 : Nat)
    (ds : List (Nat × Nat)) (i : Nat) (acc : List Container) :
    interSequential dbg a rb ((key, cardM1) :: ds) i acc =
      (match Bitmap.find a key with
      | some c => do
        let st ← interReadStore dbg (cardM1 + 1) (isRunAt rb i)
        interSequential dbg a rb ds (i + 1) (interPush key st c acc)
      | none =>
        if isRunAt rb i = true then do
          let rbs ← Cursor.readExact 2
          Cursor.seekCur (2 * 2 * leVal rbs)
          interSequential dbg a rb ds (i + 1) acc
        else if cardM1 + 1 ≤ ARRAY_LIMIT then do
          Cursor.seekCur (2 * (cardM1 + 1))
          interSequential dbg a rb ds (i + 1) acc
        else do
          Cursor.seekCur (8 * 1024)
          interSequential dbg a rb ds (i + 1) acc) := rfl

theorem interSequential_spec (dbg : Bool) (a : Bitmap) (ha : a.Dir) (flags : Option (List Nat))
    (whole : List Nat) (hbytes : IsBytes whole) :
    ∀ (ds : List (Nat × Nat)) (i pos : Nat) (offs : Option (List Nat)) (bsuf acc : List Container) (c0 : Cursor),
      Layout whole flags ds i pos offs bsuf → Bitmap.Dir bsuf → bsuf.map (·.key) = ds.map (·.1) →
      c0.data = whole → whole.drop c0.pos = whole.drop pos →
      ∃ R c1, interSequential dbg a flags ds i acc c0 = .ok (acc ++ R, c1) ∧
        (R.map (·.key)).Sublist (ds.map (·.1)) ∧ (∀ oc ∈ R, oc.store.WF) ∧
        ∀ k v, v ∈ Bitmap.chunk R k ↔ v ∈ Bitmap.chunk a k ∧ v ∈ Bitmap.chunk bsuf k
  | [], i, pos, offs, bsuf, acc, c0, hl, _, _, _, _ => by
    have : bsuf = [] := hl
    subst this
    refine ⟨[], c0, by simp [interSequential, pure, Parser.pure], List.Sublist.refl _, by simp, ?_⟩
    intro k v; simp [Bitmap.chunk]
  | (key, cardM1) :: ds, i, pos, offs, bsuf, acc, c0, hl, hdir, hkeys, hc0, hpos => by
    obtain ⟨bc, bsuf', pos', offs', rfl, hbk, _, hdec, hl'⟩ := hl
    simp only [List.map_cons, List.cons.injEq] at hkeys
    have hgt : ∀ x ∈ ds.map (·.1), key < x := by
      intro x hx
      rw [← hkeys.2] at hx
      obtain ⟨d, hd', rfl⟩ := List.mem_map.mp hx
      have := hdir.head_lt d hd'
      omega
    have hca := chunk_eq_find a ha key
    have hdec0 : Spec.decodeChunk (isRunAt flags i) (cardM1 + 1) (c0.data.drop c0.pos)
        = some (bc.store.elems, whole.drop pos') := by rw [hc0, hpos]; exact hdec
    rw [interSequential_cons]
    cases hf : Bitmap.find a key with
    | some c =>
      rw [hf] at hca
      simp only at hca ⊢
      obtain ⟨hmem, hck⟩ := find_some hf
      have hcinv : c.store.Inv := Store.canon_inv _ (ha.2 c hmem).2
      obtain ⟨st, c', hr, hinv, hel, hdata, hrest⟩ := interReadStore_spec dbg (cardM1 + 1) (isRunAt flags i)
        c0 bc.store.elems (whole.drop pos') (by rw [hc0]; exact hbytes) (by omega) hdec0
      rw [bind_ok _ _ _ _ _ hr]
      have hc' : c'.data = whole := by rw [hdata]; exact hc0
      have hpos' : whole.drop c'.pos = whole.drop pos' := by rw [hc0] at hrest; exact hrest
      rcases interPush_spec key st c acc hinv hcinv with ⟨hp, hempty⟩ | ⟨oc, hp, hock, hocwf, hocel⟩
      · rw [hp]
        obtain ⟨R, c1, h1, h2, h3, h4⟩ := interSequential_spec dbg a ha flags whole hbytes ds (i + 1) pos' offs'
          bsuf' acc c' hl' hdir.tail hkeys.2 hc' hpos'
        refine ⟨R, c1, h1, by simpa using List.Sublist.cons _ h2, h3, ?_⟩
        intro k v
        simp only [Bitmap.chunk, hbk]
        by_cases hk : key = k
        · subst hk
          rw [if_pos rfl, chunk_nil_of_sublist_gt h2 hgt, hca, ← hel]
          have := hempty v
          constructor
          · simp
          · intro h; exact absurd ⟨h.2, h.1⟩ this
        · rw [if_neg hk]; exact h4 k v
      · rw [hp]
        obtain ⟨R, c1, h1, h2, h3, h4⟩ := interSequential_spec dbg a ha flags whole hbytes ds (i + 1) pos' offs'
          bsuf' (acc ++ [oc]) c' hl' hdir.tail hkeys.2 hc' hpos'
        refine ⟨oc :: R, c1, by rw [h1]; simp, ?_, ?_, ?_⟩
        · simp only [List.map_cons, hock]
          exact List.Sublist.cons_cons _ h2
        · intro x hx
          rcases List.mem_cons.mp hx with rfl | hx
          · exact hocwf
          · exact h3 x hx
        · intro k v
          simp only [Bitmap.chunk, hock, hbk]
          by_cases hk : key = k
          · subst hk
            rw [if_pos rfl, if_pos rfl, hca, ← hel, hocel v]
            exact And.comm
          · rw [if_neg hk, if_neg hk]; exact h4 k v
    | none =>
      rw [hf] at hca
      simp only at hca ⊢
      -- the chunk is skipped: the cursor lands where the reference decoder continues
      have hskip : ∃ c' : Cursor, (∀ {β : Type} (k : Parser Cursor β),
          (if isRunAt flags i = true then do
              let rb ← Cursor.readExact 2
              Cursor.seekCur (2 * 2 * leVal rb)
              k
            else if cardM1 + 1 ≤ ARRAY_LIMIT then do
              Cursor.seekCur (2 * (cardM1 + 1))
              k
            else do
              Cursor.seekCur (8 * 1024)
              k) c0 = k c') ∧ c'.data = whole ∧ whole.drop c'.pos = whole.drop pos' := by
        have hsk := decodeChunk_skip hdec0
        by_cases hrun : isRunAt flags i = true
        · rw [if_pos hrun] at hsk
          obtain ⟨nb, hread, hrest⟩ := hsk
          obtain ⟨c'', hr, hdata, hdrop⟩ := cursor_of_slice _ _ (sim_cursor 2) (keeps_readExact 2) c0 nb _ hread
          refine ⟨{ c'' with pos := c''.pos + 2 * 2 * leVal nb }, ?_, by simpa [hc0] using hdata, ?_⟩
          · intro β k
            rw [if_pos hrun, bind_ok _ _ _ _ _ hr]
            rfl
          · show whole.drop (c''.pos + 2 * 2 * leVal nb) = _
            rw [hrest, ← hdrop, hc0, List.drop_drop]
        · rw [if_neg hrun] at hsk
          by_cases hcard : cardM1 + 1 ≤ ARRAY_LIMIT
          · rw [if_pos hcard] at hsk
            refine ⟨{ c0 with pos := c0.pos + 2 * (cardM1 + 1) }, ?_, hc0, ?_⟩
            · intro β k
              rw [if_neg hrun, if_pos hcard]
              rfl
            · show whole.drop (c0.pos + 2 * (cardM1 + 1)) = _
              rw [hsk, hc0, List.drop_drop]
          · rw [if_neg hcard] at hsk
            refine ⟨{ c0 with pos := c0.pos + 8 * 1024 }, ?_, hc0, ?_⟩
            · intro β k
              rw [if_neg hrun, if_neg hcard]
              rfl
            · show whole.drop (c0.pos + 8 * 1024) = _
              rw [hsk, hc0, List.drop_drop]
      obtain ⟨c', hk', hc', hpos'⟩ := hskip
      rw [hk']
      obtain ⟨R, c1, h1, h2, h3, h4⟩ := interSequential_spec dbg a ha flags whole hbytes ds (i + 1) pos' offs'
        bsuf' acc c' hl' hdir.tail hkeys.2 hc' hpos'
      refine ⟨R, c1, h1, by simpa using List.Sublist.cons _ h2, h3, ?_⟩
      intro k v
      simp only [Bitmap.chunk, hbk]
      by_cases hk : key = k
      · subst hk
        rw [if_pos rfl, chunk_nil_of_sublist_gt h2 hgt, hca]; simp
      · rw [if_neg hk]; exact h4 k v


/-! ### the whole call -/

theorem wf_of_result {R : List Container} {keys : List Nat} (hs : (R.map (·.key)).Sublist keys)
    (hk : keys.Pairwise (· < ·)) (hlt : ∀ x ∈ keys, x < 65536) (hw : ∀ oc ∈ R, oc.store.WF) : Bitmap.WF R :=
  ⟨List.Pairwise.sublist hs hk, fun c hc => ⟨hlt _ (hs.subset (List.mem_map_of_mem hc)), hw c hc⟩⟩

theorem mem_elems_of_chunks {r a b : Bitmap} (hr : r.Dir) (ha : a.Dir) (hb : b.Dir)
    (h : ∀ k v, v ∈ Bitmap.chunk r k ↔ v ∈ Bitmap.chunk a k ∧ v ∈ Bitmap.chunk b k) (x : Nat) :
    x ∈ Bitmap.elems r ↔ x ∈ Bitmap.elems a ∧ x ∈ Bitmap.elems b := by
  rw [Bitmap.mem_elems r hr, Bitmap.mem_elems a ha, Bitmap.mem_elems b hb]
  exact h _ _

/-- **C18, main part.**  For a well-formed left operand and a conformant stream, the call returns a well-formed
    value holding exactly the elements of `a` that are in the stream's set. -/
theorem interSer_spec (dbg : Bool) (a : Bitmap) (bs S rest : List Nat) (ha : Bitmap.WF a) (hb : IsBytes bs)
    (h : Spec.decode bs = some (S, rest)) :
    ∃ r, Bitmap.interSer dbg a bs = .ok r ∧ Bitmap.WF r ∧
      ∀ x, x ∈ Bitmap.elems r ↔ x ∈ Bitmap.elems a ∧ x ∈ S := by
  obtain ⟨hd, r4, offs, hhd, hr4, hho, hofs, hasc, hkd, hchunks⟩ := decode_inv bs S rest hb h
  have hsuf : r4 <:+ bs := rest_suffix _ mono_decodeHeader bs hd r4 hhd
  have hdrop : bs.drop (bs.length - r4.length) = r4 := by
    obtain ⟨used, hu⟩ := hsuf
    rw [← hu]; simp
  obtain ⟨b, hbkeys, hbw, hbe, hlay⟩ :=
    decodeChunks_layout bs hd.runBitmap hd.descr 0 _ offs r4 S rest hr4 hdrop hchunks
  have hbwf : Bitmap.WF b := by
    refine ⟨by rw [hbkeys]; exact hasc, fun c hc => ⟨?_, hbw c hc⟩⟩
    have : c.key ∈ b.map (·.key) := List.mem_map_of_mem hc
    rw [hbkeys] at this
    obtain ⟨d, hd', hdk⟩ := List.mem_map.mp this
    rw [← hdk]; exact hkd d hd'
  obtain ⟨c1, hc1, hdata, hpos⟩ := cursor_of_slice _ _ (sim_decodeHeader sim_cursor) keeps_decodeHeader
    ⟨bs, 0⟩ hd r4 (by simpa using hhd)
  simp only at hdata hpos
  have hakeys : ∀ x ∈ a.map (·.key), x < 65536 := by
    intro x hx
    obtain ⟨c, hc, rfl⟩ := List.mem_map.mp hx
    exact (ha.2 c hc).1
  have hdkeys : ∀ x ∈ hd.descr.map (·.1), x < 65536 := by
    intro x hx
    obtain ⟨d, hd', rfl⟩ := List.mem_map.mp hx
    exact hkd d hd'
  unfold Bitmap.interSer interSerG
  rw [bind_ok _ _ _ _ _ hc1]
  cases hoff : hd.hasOffsets with
  | true =>
    rw [hoff] at hho
    cases offs with
    | none => simp at hho
    | some os =>
      rw [← hofs os rfl] at hlay
      obtain ⟨R, c2, h1, h2, h3, h4⟩ := interOffsets_spec dbg hd bs b _ hb hlay hbwf.dir hbkeys a [] c1 hdata ha.dir
      have hrwf : Bitmap.WF R := wf_of_result h2 ha.1 hakeys h3
      refine ⟨R, ?_, hrwf, ?_⟩
      · simp only [↓reduceIte, h1, List.nil_append]
      · intro x
        rw [← hbe]
        exact mem_elems_of_chunks hrwf.dir ha.dir hbwf.dir h4 x
  | false =>
    rw [hoff] at hho
    cases offs with
    | some os => simp at hho
    | none =>
      obtain ⟨R, c2, h1, h2, h3, h4⟩ := interSequential_spec dbg a ha.dir hd.runBitmap bs hb hd.descr 0 _ none b []
        c1 hlay hbwf.dir hbkeys hdata (by rw [hpos, hdrop])
      have hrwf : Bitmap.WF R := wf_of_result h2 hasc hdkeys h3
      refine ⟨R, ?_, hrwf, ?_⟩
      · simp only [Bool.false_eq_true, ↓reduceIte, h1, List.nil_append]
      · intro x
        rw [← hbe]
        exact mem_elems_of_chunks hrwf.dir ha.dir hbwf.dir h4 x

end Roaring
