import RoaringModel.Lemmas.StoreOps
import RoaringModel.Lemmas.AlgebraSpec
/-!
# Container level: `ensure_correct_store`, the eleven operator impls (container.rs:193-284), and the
store/container relations `is_disjoint`, `is_subset` (with the `len` short-cut and the
`(Bitmap, Array) => false` early-out) and `intersection_len`.
-/
namespace Roaring

/-! ### sorted-list counting facts -/

/-- on sorted lists the `and` merge is the filter by membership -/
theorem Arr.and_eq_filter (l r : List Nat) (hl : Sorted l) (hr : Sorted r) :
    Arr.and l r = l.filter (fun x => decide (x ∈ r)) := by
  apply Arr.sorted_ext _ _ (Arr.sorted_and l r hl hr) (List.Pairwise.sublist List.filter_sublist hl)
  intro x; rw [Arr.mem_and l r hl hr]; simp

theorem Arr.and_comm (l r : List Nat) (hl : Sorted l) (hr : Sorted r) : Arr.and l r = Arr.and r l := by
  apply Arr.sorted_ext _ _ (Arr.sorted_and l r hl hr) (Arr.sorted_and r l hr hl)
  intro x; rw [Arr.mem_and l r hl hr, Arr.mem_and r l hr hl]; exact And.comm

/-- `|{x ∈ l | x ∈ r}| = |{x ∈ r | x ∈ l}|` for sorted lists -/
theorem filter_mem_length_comm (l r : List Nat) (hl : Sorted l) (hr : Sorted r) :
    (l.filter (fun x => decide (x ∈ r))).length = (r.filter (fun x => decide (x ∈ l))).length := by
  rw [← Arr.and_eq_filter l r hl hr, ← Arr.and_eq_filter r l hr hl, Arr.and_comm l r hl hr]

/-- a sorted list contained in another is not longer -/
theorem Arr.length_le_of_isSubset (l r : List Nat) (h : Arr.isSubset l r = true) : l.length ≤ r.length := by
  fun_induction Arr.isSubset l r <;> simp_all <;> omega

theorem sorted_subset_length_le (l r : List Nat) (hl : Sorted l) (hr : Sorted r) (h : ∀ x ∈ l, x ∈ r) :
    l.length ≤ r.length :=
  Arr.length_le_of_isSubset l r ((Arr.isSubset_spec l r hl hr).mpr h)

namespace Store

/-! `Store.canon_inv`, `Store.wf_canon`, `Store.wf_inv` are the core library's (`Lemmas/StoreFacts.lean`). -/

/-- store/mod.rs:176 `is_disjoint` -/
theorem isDisjoint_spec (K : BKernel) (s t : Store) (hs : s.Inv) (ht : t.Inv) :
    s.isDisjoint t = true ↔ ∀ x ∈ s.elems, x ∉ t.elems := by
  cases s with
  | array a => cases t with
    | array b => exact Arr.isDisjoint_spec a b hs.1 ht.1
    | bitmap b =>
      simp only [isDisjoint, elems, List.all_eq_true, K.contains_eq_test, K.mem_toArray b ht]
      constructor
      · intro h x hx hc; have := h x hx; simp [hc.2] at this
      · intro h x hx
        have := h x hx
        have hlt := hs.2 x hx
        cases hb : b.test x <;> simp_all
  | bitmap a => cases t with
    | array v =>
      simp only [isDisjoint, elems, List.all_eq_true, K.contains_eq_test, K.mem_toArray a hs]
      constructor
      · intro h x hx hc; have := h x hc; simp [hx.2] at this
      · intro h x hx
        have hlt := ht.2 x hx
        cases hb : a.test x
        · rfl
        · exact absurd hx (h x ⟨hlt, hb⟩)
    | bitmap b =>
      simp only [isDisjoint, elems, K.isDisjoint_spec a b hs ht, K.mem_toArray a hs, K.mem_toArray b ht]
      constructor
      · intro h x hx hc; exact h x hx.1 ⟨hx.2, hc.2⟩
      · intro h x hlt hc; exact h x ⟨hlt, hc.1⟩ ⟨hlt, hc.2⟩

/-- store/mod.rs:196 `intersection_len` counts the common elements -/
theorem interLen_spec (K : BKernel) (s t : Store) (hs : s.Inv) (ht : t.Inv) :
    s.interLen t = (s.elems.filter (fun x => decide (x ∈ t.elems))).length := by
  cases s with
  | array a => cases t with
    | array b =>
      show Arr.interLen a b = _
      rw [Arr.interLen_eq, Arr.and_eq_filter a b hs.1 ht.1]; rfl
    | bitmap b =>
      show b.interLenArray a = _
      rw [K.interLenArray_spec b ht a hs.2]
      congr 1; apply List.filter_congr
      intro x hx
      have := K.mem_toArray b ht x
      have hlt := hs.2 x hx
      simp only [elems]
      cases hb : b.test x <;> simp_all
  | bitmap a => cases t with
    | array v =>
      show a.interLenArray v = _
      rw [K.interLenArray_spec a hs v ht.2]
      have e : v.filter (fun x => a.test x) = v.filter (fun x => decide (x ∈ a.toArray)) := by
        apply List.filter_congr
        intro x hx
        have := K.mem_toArray a hs x
        have hlt := ht.2 x hx
        cases hb : a.test x <;> simp_all
      rw [e]
      exact filter_mem_length_comm v a.toArray ht.1 (K.sorted_toArray a hs)
    | bitmap b =>
      show a.interLenBitmap b = _
      rw [K.interLenBitmap_spec a b hs ht]
      congr 1; apply List.filter_congr
      intro x hx
      have := K.mem_toArray b ht x
      have hlt := ((K.mem_toArray a hs x).mp hx).1
      simp only [elems]
      cases hb : b.test x <;> simp_all

end Store

namespace Container

/-- container.rs:177 `ensure_correct_store`: same key, same elements, canonical kind -/
theorem ensureCorrectStore_specK (K : BKernel) (c : Container) (hc : c.store.Inv) :
    (ensureCorrectStore c).key = c.key ∧ (ensureCorrectStore c).store.Canon ∧
      (ensureCorrectStore c).store.elems = c.store.elems := by
  obtain ⟨key, store⟩ := c
  cases store with
  | array v =>
    simp only [ensureCorrectStore]
    split
    · rename_i h
      have := K.arrToBitmap_spec v hc
      refine ⟨rfl, ⟨this.1, ?_⟩, this.2⟩
      show 4096 < v.length
      simpa [ARRAY_LIMIT] using h
    · rename_i h
      exact ⟨rfl, ⟨hc, by simpa [ARRAY_LIMIT] using h⟩, rfl⟩
  | bitmap b =>
    simp only [ensureCorrectStore]
    split
    · rename_i h
      refine ⟨rfl, ⟨K.inv_toArray b hc, ?_⟩, rfl⟩
      rw [K.length_toArray b hc]; simpa [ARRAY_LIMIT] using h
    · rename_i h
      exact ⟨rfl, ⟨hc, by simpa [ARRAY_LIMIT] using h⟩, rfl⟩

/-- every container-level operator impl is `ensure_correct_store` after the store-level one -/
theorem op_spec (K : BKernel) {P : Prop → Prop → Prop} {op : Store → Store → Store}
    (h : Store.OpSpec P op) (a b : Container) (ha : a.store.Inv) (hb : b.store.Inv) :
    let c := ensureCorrectStore { key := a.key, store := op a.store b.store }
    c.key = a.key ∧ c.store.Canon ∧ ∀ x, x ∈ c.store.elems ↔ P (x ∈ a.store.elems) (x ∈ b.store.elems) := by
  intro c
  have hop := h a.store b.store ha hb
  have he := ensureCorrectStore_specK K { key := a.key, store := op a.store b.store } hop.1
  exact ⟨he.1, he.2.1, fun x => by rw [he.2.2]; exact hop.2 x⟩

/-- `x.isEmpty` of a canonical store ⇔ no elements -/
theorem isEmpty_iff (K : BKernel) (c : Container) (hc : c.store.Canon) :
    c.isEmpty = true ↔ c.store.elems = [] := by
  obtain ⟨key, store⟩ := c
  cases store with
  | array v => simp [isEmpty, Store.isEmpty, Store.elems]
  | bitmap b =>
    have hlen := K.length_toArray b hc.1
    have : 4096 < b.len := hc.2
    simp only [isEmpty, Store.isEmpty, Store.elems]
    constructor
    · intro h; simp at h; omega
    · intro h; rw [h] at hlen; simp at hlen; omega

/-- container.rs:152 -/
theorem isDisjoint_spec (K : BKernel) (a b : Container) (ha : a.store.Inv) (hb : b.store.Inv) :
    a.isDisjoint b = true ↔ ∀ x ∈ a.store.elems, x ∉ b.store.elems :=
  Store.isDisjoint_spec K a.store b.store ha hb

/-- container.rs:156 `is_subset` with the `len` short-cut; store/mod.rs:187 with `(Bitmap, Array) => false`:
    both early-outs are sound for stores in canonical kind -/
theorem isSubset_spec (K : BKernel) (a b : Container) (ha : a.store.Canon) (hb : b.store.Canon) :
    a.isSubset b = true ↔ ∀ x ∈ a.store.elems, x ∈ b.store.elems := by
  have hai := Store.canon_inv _ ha
  have hbi := Store.canon_inv _ hb
  have hlen : (∀ x ∈ a.store.elems, x ∈ b.store.elems) → a.len ≤ b.len := by
    intro h
    have := sorted_subset_length_le _ _ (Store.sorted_elemsK K _ hai) (Store.sorted_elemsK K _ hbi) h
    rwa [Store.length_elems K _ hai, Store.length_elems K _ hbi] at this
  have core : a.store.isSubset b.store = true ↔ ∀ x ∈ a.store.elems, x ∈ b.store.elems := by
    obtain ⟨ka, sa⟩ := a
    obtain ⟨kb, sb⟩ := b
    cases sa with
    | array v => cases sb with
      | array w => exact Arr.isSubset_spec v w ha.1.1 hb.1.1
      | bitmap w =>
        simp only [Store.isSubset, Store.elems, List.all_eq_true, K.contains_eq_test, K.mem_toArray w hb.1]
        constructor
        · intro h x hx; exact ⟨ha.1.2 x hx, h x hx⟩
        · intro h x hx; exact (h x hx).2
    | bitmap v => cases sb with
      | array w =>
        simp only [Store.isSubset]
        constructor
        · intro h; cases h
        · intro h
          have h1 := hlen h
          have h2 : 4096 < v.len := ha.2
          have h3 : w.length ≤ 4096 := hb.2
          simp only [len, Store.len] at h1
          omega
      | bitmap w =>
        simp only [Store.isSubset, Store.elems, K.isSubset_spec v w ha.1 hb.1, K.mem_toArray v ha.1,
          K.mem_toArray w hb.1]
        constructor
        · intro h x hx; exact ⟨hx.1, h x hx.1 hx.2⟩
        · intro h x hlt hx; exact (h x ⟨hlt, hx⟩).2
  simp only [isSubset, Bool.and_eq_true, decide_eq_true_eq]
  constructor
  · intro h; exact core.mp h.2
  · intro h; exact ⟨hlen h, core.mpr h⟩

theorem interLen_spec (K : BKernel) (a b : Container) (ha : a.store.Inv) (hb : b.store.Inv) :
    a.interLen b = (a.store.elems.filter (fun x => decide (x ∈ b.store.elems))).length :=
  Store.interLen_spec K a.store b.store ha hb

end Container
end Roaring
