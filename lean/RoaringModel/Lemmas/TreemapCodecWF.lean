import RoaringModel.Lemmas.TreemapCodec
import RoaringModel.Lemmas.TreemapEncodeSpec
import RoaringModel.Lemmas.CodecKernel
import RoaringModel.Lemmas.DecodeSpec
import RoaringModel.Lemmas.SpecRoundTrip
import RoaringModel.Lemmas.TreemapCanonical
import RoaringModel.Lemmas.TreemapWF
/-!
# The treemap codec lemmas instantiated at the shared invariant `Bitmap.WF` (`Treemap.WFd Bitmap.WF` = `TWF`)

`Lemmas/TreemapCodec.lean` / `TreemapEncodeSpec.lean` are generic in the 32-bit invariant and in the 32-bit
facts.  Here the 32-bit facts are supplied — all unconditional by now (`deserialize_serialize`,
`serialize_eq_encode bitmap_toArray`, `post_deserialize runStore_wf`, `decode_spec`) — and the codec's
`SerWF` is replaced by the directory invariant `WFd Bitmap.WF` used by every other treemap family
(the two are equivalent for `Bitmap.WF`: a well-formed non-empty bitmap has an element).

Last section: the strict reference decoder of the portable format, `Spec.decode64`, is followed by both treemap
decoders through the bucket loop (`decode64_spec`, the 64-bit C06).
-/
namespace Roaring
namespace Treemap
open Parser TL

/-! ### `SerWF Bitmap.WF` = `WFd Bitmap.WF` -/

theorem SerWF.mono {P Q : Bitmap → Prop} (hPQ : ∀ b, P b → Q b) {t : Treemap} (h : SerWF P t) : SerWF Q t :=
  ⟨h.sorted, fun p hp => ⟨(h.parts p hp).1, hPQ _ (h.parts p hp).2.1, (h.parts p hp).2.2⟩⟩

/-- a well-formed 32-bit bitmap with a chunk has an element -/
theorem wf_elems_ne_nil {b : Bitmap} (h : Bitmap.WF b) (hne : b ≠ []) : Bitmap.elems b ≠ [] := by
  cases b with
  | nil => exact absurd rfl hne
  | cons c cs =>
    rw [Roaring.elems_cons]
    intro he
    exact containerElems_ne_nil bitmap_toArray (h.toCodec.head).2 (List.append_eq_nil_iff.mp he).1

theorem serWF_iff (t : Treemap) : SerWF Bitmap.WF t ↔ WFd Bitmap.WF t :=
  ⟨fun h => h.to_WFd (fun _ hb hne => wf_elems_ne_nil hb hne), SerWF.of_WFd⟩

theorem WFd.toSer {t : Treemap} (h : WFd Bitmap.WF t) : SerWF Bitmap.WF t := SerWF.of_WFd h

/-- … and in the flat form used inside the codec lemmas -/
theorem WFd.toCodec {t : Treemap} (h : WFd Bitmap.WF t) : SerWF BitmapWF t :=
  (SerWF.of_WFd h).mono (fun _ hb => hb.toCodec)

theorem WFd.length_le {t : Treemap} (h : WFd Bitmap.WF t) : t.length ≤ 4294967296 := h.toSer.length_lt

theorem WFd.insertKV {t : Treemap} (h : WFd Bitmap.WF t) {k : Nat} {b : Bitmap}
    (hk : k < 4294967296) (hb : Bitmap.WF b) (hne : b ≠ []) : WFd Bitmap.WF (insertKV t k b) :=
  (serWF_iff _).mp (h.toSer.insertKV hk hb hne)

theorem WFd.partsOK {t : Treemap} (h : WFd Bitmap.WF t) : PartsOK t :=
  fun p hp => ⟨(h.parts p hp).1, (h.parts p hp).2.2, elems32.lt p.2 (h.parts p hp).2.1⟩

/-! ### the 32-bit facts supplied -/

/-- `serialize_into` writes exactly `serialized_size()` bytes -/
theorem serialize_length_wf (t : Treemap) (h : WFd Bitmap.WF t) :
    (serialize t).length = serializedSize t := by
  apply serialize_length
  intro p hp
  have hc := (h.parts p hp).2.1.toCodec
  unfold Bitmap.serialize
  simp only [List.length_append, u32le_length, descrBytes_length, offsetBytes_length,
    payloadBytes_length p.2 (fun c hc' => (hc.2 c hc').2), serializedSize_eq]
  omega

/-- both decoders, both build configurations, invert the writer and leave what follows -/
theorem deserialize_serialize_wf (chk dbg : Bool) (t : Treemap) (h : WFd Bitmap.WF t) (rest : List Nat) :
    Treemap.deserialize chk dbg (serialize t ++ rest) = .ok (t, rest) :=
  deserialize_serialize chk dbg (fun b hb r => Roaring.deserialize_serialize chk dbg b hb r) t h.toCodec rest

/-- the writer emits the reference encoding of the element set -/
theorem serialize_eq_encode64_wf (t : Treemap) (h : WFd Bitmap.WF t) :
    serialize t = Spec.encode64 (elems t) :=
  serialize_eq_encode64 t h.partsOK h.sorted
    (fun p hp => serialize_eq_encode bitmap_toArray p.2 (h.parts p hp).2.1.toCodec)

/-- whatever the checked decoder accepts is a well-formed treemap -/
theorem post_deserialize_wf (dbg : Bool) : Post (WFd Bitmap.WF) (Treemap.deserializeG readN true dbg) :=
  post_weaken _ (post_deserializeG true dbg (post_deserialize runStore_wf dbg))
    (fun _ h => (serWF_iff _).mp (h.mono (fun _ hb => hb.toWF)))

/-! ### the writer's output is conformant: `Spec.decode64` accepts it and reads back the elements -/

theorem decodeBuckets_bucketBytes : ∀ (t : Treemap) (prev : Option Nat) (rest : List Nat),
    WFd Bitmap.WF t → (∀ pk, prev = some pk → ∀ q ∈ t, pk < q.1) →
    Spec.decodeBuckets t.length prev (bucketBytes t ++ rest) = some (elems t, rest)
  | [], _, _, _, _ => by simp [Spec.decodeBuckets, bucketBytes, elems]
  | p :: t, prev, rest, h, hprev => by
    obtain ⟨hk, hwf, _⟩ := h.parts p List.mem_cons_self
    simp only [List.length_cons, bucketBytes, List.flatMap_cons, List.append_assoc]
    unfold Spec.decodeBuckets
    have hg : (guard (prev.all (· < p.1) = true) : Option Unit) = some () := by
      apply guard_true
      cases hp : prev with
      | none => rfl
      | some pk => simpa using hprev pk hp p List.mem_cons_self
    have hrec := decodeBuckets_bucketBytes t (some p.1) rest h.tail
      (fun pk hpk q hq => by
        simp only [Option.some.injEq] at hpk
        rw [← hpk]
        exact (keysSorted_cons.mp h.sorted).1 q hq)
    simp only [bucketBytes] at hrec
    have hel : (Bitmap.elems p.2).map (fun x => p.1 * 4294967296 + x) ++ elems t = elems (p :: t) := by
      rw [elems_cons]
      congr 1
      apply List.map_congr_left
      intro x hx
      exact (join_eq (elems32.lt p.2 hwf x hx)).symm
    simp only [bind, Option.bind, takeN_append _ _ 4 (u32le_length _), leNat_eq, leVal_u32le _ hk, hg,
      specDecode_serialize p.2 hwf.toCodec, hrec, pure, hel]

/-- the strict reference decoder of the portable format accepts what the treemap writer emits, reads back
    exactly the elements and leaves what follows -/
theorem specDecode64_serialize (t : Treemap) (h : WFd Bitmap.WF t) (rest : List Nat) :
    Spec.decode64 (serialize t ++ rest) = some (elems t, rest) := by
  unfold Spec.decode64
  rw [serialize_eq, List.append_assoc]
  have hn : leVal (u64le t.length) = t.length := leVal_u64le _ (by have := h.length_le; omega)
  simp only [bind, Option.bind, takeN_append _ _ 8 (u64le_length _), leNat_eq, hn]
  exact decodeBuckets_bucketBytes t none rest h (by simp)

/-! ### the strict reference decoder `Spec.decode64` is followed by both decoders -/

theorem elems_append (a b : Treemap) : elems (a ++ b) = elems a ++ elems b := by
  simp [elems]

theorem isBytes_suffix {a b : List Nat} (h : a <:+ b) (hb : IsBytes b) : IsBytes a :=
  fun x hx => hb x (h.subset hx)

/-- the bucket loop: `prev` bounds the keys collected so far -/
theorem decodeBuckets_spec (chk dbg : Bool) : ∀ (n : Nat) (prev : Option Nat) (bs S rest : List Nat)
    (acc : Treemap), IsBytes bs → Spec.decodeBuckets n prev bs = some (S, rest) →
    WFd Bitmap.WF acc → (∀ q ∈ acc, ∃ pk, prev = some pk ∧ q.1 ≤ pk) →
    ∃ t, decodeParts readN chk dbg n acc bs = .ok (t, rest) ∧ WFd Bitmap.WF t ∧ elems t = elems acc ++ S
  | 0, prev, bs, S, rest, acc, _, h, hacc, _ => by
    simp only [Spec.decodeBuckets, Option.some.injEq, Prod.mk.injEq] at h
    obtain ⟨rfl, rfl⟩ := h
    exact ⟨acc, rfl, hacc, by simp⟩
  | n + 1, prev, bs, S, rest, acc, hb, h, hacc, hprev => by
    unfold Spec.decodeBuckets at h
    simp only [bind, Option.bind_eq_some_iff, Prod.exists, guard_some_iff, pure] at h
    obtain ⟨kb, r1, h1, _, hg, lows, r2, h2, more, r3, h3, h4⟩ := h
    simp only [Option.some.injEq, Prod.mk.injEq] at h4
    obtain ⟨rfl, rfl⟩ := h4
    obtain ⟨hrd, hlen, hkb, hr1, _⟩ := takeN_some h1
    have hkbB : IsBytes kb := by rw [hkb]; exact isBytes_take 4 hb
    have hr1B : IsBytes r1 := by rw [hr1]; exact isBytes_drop 4 hb
    rw [leNat_eq] at hg h3
    have hk : leVal kb < 4294967296 := by
      have := leVal_lt kb hkbB
      rw [hlen] at this
      exact this
    obtain ⟨b, hd, hwf, hel⟩ := decode_spec chk dbg r1 lows r2 hr1B h2
    have hr2B : IsBytes r2 :=
      isBytes_suffix (rest_suffix _ (Parser.mono_deserializeG chk dbg) r1 b r2 hd) hr1B
    have hlt : ∀ q ∈ acc, q.1 < leVal kb := by
      intro q hq
      obtain ⟨pk, hpk, hle⟩ := hprev q hq
      rw [hpk] at hg
      simp only [Option.all_some, decide_eq_true_eq] at hg
      omega
    unfold decodeParts
    rw [bind_ok _ _ _ _ _ hrd]
    unfold Roaring.deserialize at hd
    rw [bind_ok _ _ _ _ _ hd]
    cases hbe : b with
    | nil =>
      subst hbe
      have hl : lows = [] := by rw [← hel]; rfl
      obtain ⟨t, ht, htw, hte⟩ := decodeBuckets_spec chk dbg n (some (leVal kb)) r2 more r3 acc hr2B h3 hacc
        (fun q hq => ⟨_, rfl, Nat.le_of_lt (hlt q hq)⟩)
      refine ⟨t, ?_, htw, ?_⟩
      · simpa [Bitmap.isEmpty] using ht
      · rw [hte, hl]; simp
    | cons c cs =>
      rw [← hbe]
      have hne : b ≠ [] := by rw [hbe]; simp
      have hie : Bitmap.isEmpty b = false := by rw [hbe]; rfl
      simp only [hie, Bool.false_eq_true, ↓reduceIte]
      rw [insertKV_append_last acc (leVal kb) b hlt]
      have hacc' : WFd Bitmap.WF (acc ++ [(leVal kb, b)]) := by
        rw [← insertKV_append_last acc (leVal kb) b hlt]
        exact hacc.insertKV hk hwf hne
      obtain ⟨t, ht, htw, hte⟩ := decodeBuckets_spec chk dbg n (some (leVal kb)) r2 more r3
        (acc ++ [(leVal kb, b)]) hr2B h3 hacc' (by
          intro q hq
          refine ⟨_, rfl, ?_⟩
          rcases List.mem_append.mp hq with hq | hq
          · exact Nat.le_of_lt (hlt q hq)
          · simp only [List.mem_cons, List.not_mem_nil, or_false] at hq
            rw [hq]; exact Nat.le_refl _)
      refine ⟨t, ht, htw, ?_⟩
      rw [hte, elems_append, List.append_assoc]
      congr 1
      have : elems [(leVal kb, b)] = lows.map (leVal kb * 4294967296 + ·) := by
        rw [elems_cons, ← hel]
        simp only [elems, List.flatMap_nil, List.append_nil]
        apply List.map_congr_left
        intro x hx
        exact join_eq (elems32.lt b hwf x hx)
      rw [this, leNat_eq]

/-- **64-bit C06.**  Every stream accepted by the strict reference decoder of the portable format is decoded —
    by either decoder, with and without debug assertions — to a well-formed treemap holding exactly the set the
    format assigns to the stream, leaving the same unread rest. -/
theorem decode64_spec (chk dbg : Bool) (bs S rest : List Nat) (hb : IsBytes bs)
    (h : Spec.decode64 bs = some (S, rest)) :
    ∃ t, Treemap.deserialize chk dbg bs = .ok (t, rest) ∧ WFd Bitmap.WF t ∧ elems t = S := by
  unfold Spec.decode64 at h
  simp only [bind, Option.bind_eq_some_iff, Prod.exists] at h
  obtain ⟨cb, r, h1, h2⟩ := h
  obtain ⟨hrd, _, _, hr, _⟩ := takeN_some h1
  have hrB : IsBytes r := by rw [hr]; exact isBytes_drop 8 hb
  rw [leNat_eq] at h2
  obtain ⟨t, ht, htw, hte⟩ := decodeBuckets_spec chk dbg (leVal cb) none r S rest [] hrB h2 WFd.nil (by simp)
  refine ⟨t, ?_, htw, by simpa [elems] using hte⟩
  unfold Treemap.deserialize Treemap.deserializeG
  rw [bind_ok _ _ _ _ _ hrd]
  exact ht

end Treemap
end Roaring
