import RoaringModel.Lemmas.TreemapIterCursor
/-!
# Treemap iterator proofs, part 4: `treemap::IntoIter` (`FlatMap` + decremented size counter).  Import-free.
-/
namespace Roaring
namespace TIter
open TL Treemap

variable {K : Inner} (S : InnerSpec K)

def IntoIter.rem (it : IntoIter K) : List Nat := orem S it.front ++ elems it.iter ++ orem S it.back

structure IntoIter.Inv (it : IntoIter K) : Prop where
  range : RInv S it.iter
  fr : ∀ f, it.front = some f → CInv S f
  bk : ∀ b, it.back = some b → CInv S b
  size : it.sizeHint = (it.rem S).length

theorem len_eq_elems {t : Treemap} (h : RInv S t) : Treemap.len t = (elems t).length := by
  unfold Treemap.len; rw [remaining_eq S h]; simp

theorem IntoIter.new_spec {t : Treemap} (h : WFd S.WF t) :
    (IntoIter.new (K := K) t).Inv S ∧ (IntoIter.new (K := K) t).rem S = elems t := by
  have hr : RInv S t := ⟨h.sorted, fun p hp => ⟨(h.parts p hp).1, (h.parts p hp).2.1⟩⟩
  refine ⟨⟨hr, by simp [IntoIter.new], by simp [IntoIter.new], ?_⟩, by simp [IntoIter.rem, IntoIter.new]⟩
  simp [IntoIter.rem, IntoIter.new, len_eq_elems S hr]

theorem flatNext_spec (back : Option (To64 K)) (hb : ∀ b, back = some b → CInv S b) (sh : Nat) :
    ∀ (iter : Treemap), RInv S iter →
      RInv S (IntoIter.flatNext back sh iter).1.iter ∧
      (∀ f, (IntoIter.flatNext back sh iter).1.front = some f → CInv S f) ∧
      (∀ b, (IntoIter.flatNext back sh iter).1.back = some b → CInv S b) ∧
      (IntoIter.flatNext back sh iter).1.sizeHint = sh ∧
      (IntoIter.flatNext back sh iter).1.rem S = (elems iter ++ orem S back).tail ∧
      (IntoIter.flatNext back sh iter).2 = (elems iter ++ orem S back).head?
  | [], _ => by
    unfold IntoIter.flatNext
    cases back with
    | none => exact ⟨RInv.nil S, by simp, by simp, rfl, by simp [IntoIter.rem, elems], by simp [elems]⟩
    | some b =>
      obtain ⟨h1, h2, h3⟩ := To64.next_spec S (hb b rfl)
      simp only []
      cases hv : b.next.2 with
      | none =>
        have hnil : crem S b = [] := by rw [hv] at h3; exact List.head?_eq_none_iff.mp h3.symm
        simp only [Option.isSome_none, Bool.false_eq_true, ↓reduceIte]
        exact ⟨RInv.nil S, by simp, by simp, trivial, by simp [IntoIter.rem, elems, hnil], by simp [elems, hnil]⟩
      | some v =>
        simp only [Option.isSome_some, ↓reduceIte]
        refine ⟨RInv.nil S, by simp, ?_, trivial, by simp [IntoIter.rem, elems, h2], by rw [← hv, h3]; simp [elems]⟩
        intro b' hb'; simp only [Option.some.injEq] at hb'; subst hb'; exact h1
  | p :: rest, hr => by
    unfold IntoIter.flatNext
    obtain ⟨hc, hcrem⟩ := to64_inv S (hr.parts p (by simp))
    obtain ⟨h1, h2, h3⟩ := To64.next_spec S hc
    have hel : elems (p :: rest) = crem S (to64 K p) ++ elems rest := by rw [elems_cons, hcrem]
    cases hv : (to64 K p).next.2 with
    | some v =>
      simp only [hv]
      have hne : crem S (to64 K p) ≠ [] := by intro h; rw [hv, h] at h3; simp at h3
      refine ⟨hr.tail, ?_, hb, trivial, ?_, ?_⟩
      · intro f hf; simp only [Option.some.injEq] at hf; subst hf; exact h1
      · simp only [IntoIter.rem, orem_some, h2, hel, List.append_assoc]
        rw [List.tail_append_of_ne_nil hne]
      · rw [← hv, h3, hel, List.append_assoc, head?_append_ne hne]
    | none =>
      simp only [hv]
      have hnil : crem S (to64 K p) = [] := by rw [hv] at h3; exact List.head?_eq_none_iff.mp h3.symm
      rw [hel, hnil, List.nil_append]
      exact flatNext_spec back hb sh rest hr.tail

/-- `into_iter().next()` pops the smallest remaining value and keeps the size counter exact -/
theorem IntoIter.next_spec (it : IntoIter K) (h : it.Inv S) :
    it.next.1.Inv S ∧ it.next.1.rem S = (it.rem S).tail ∧ it.next.2 = (it.rem S).head? := by
  unfold IntoIter.next
  have hsz : it.sizeHint - 1 = (it.rem S).tail.length := by rw [h.size]; simp
  cases hf : it.front with
  | none =>
    simp only []
    obtain ⟨a1, a2, a3, a4, a5, a6⟩ := flatNext_spec S it.back h.bk (it.sizeHint - 1) it.iter h.range
    have hrem : it.rem S = elems it.iter ++ orem S it.back := by simp [IntoIter.rem, hf]
    rw [hrem] at hsz ⊢
    exact ⟨⟨a1, a2, a3, by rw [a4, a5, hsz]⟩, a5, a6⟩
  | some f =>
    simp only []
    obtain ⟨h1, h2, h3⟩ := To64.next_spec S (h.fr f hf)
    cases hv : f.next.2 with
    | some v =>
      simp only [hv]
      have hne : crem S f ≠ [] := by intro h'; rw [hv, h'] at h3; simp at h3
      have hrem' : IntoIter.rem S { it with front := some f.next.1, sizeHint := it.sizeHint - 1 } = (it.rem S).tail := by
        simp only [IntoIter.rem, orem_some, h2, hf, List.append_assoc]
        rw [List.tail_append_of_ne_nil hne]
      refine ⟨⟨h.range, ?_, h.bk, by rw [hrem']; exact hsz⟩, hrem', ?_⟩
      · intro g hg; simp only [Option.some.injEq] at hg; subst hg; exact h1
      · rw [← hv, h3]; simp only [IntoIter.rem, hf, orem_some, List.append_assoc]
        rw [head?_append_ne hne]
    | none =>
      simp only [hv]
      have hnil : crem S f = [] := by rw [hv] at h3; exact List.head?_eq_none_iff.mp h3.symm
      obtain ⟨a1, a2, a3, a4, a5, a6⟩ := flatNext_spec S it.back h.bk (it.sizeHint - 1) it.iter h.range
      have hrem : it.rem S = elems it.iter ++ orem S it.back := by simp [IntoIter.rem, hf, hnil]
      rw [hrem] at hsz ⊢
      exact ⟨⟨a1, a2, a3, by rw [a4, a5, hsz]⟩, a5, a6⟩

theorem flatNextBack_spec (front : Option (To64 K)) (hfr : ∀ f, front = some f → CInv S f) (sh : Nat) :
    ∀ (riter : Treemap), RInv S riter.reverse →
      RInv S (IntoIter.flatNextBack front sh riter).1.iter ∧
      (∀ f, (IntoIter.flatNextBack front sh riter).1.front = some f → CInv S f) ∧
      (∀ b, (IntoIter.flatNextBack front sh riter).1.back = some b → CInv S b) ∧
      (IntoIter.flatNextBack front sh riter).1.sizeHint = sh ∧
      (IntoIter.flatNextBack front sh riter).1.rem S = (orem S front ++ elems riter.reverse).dropLast ∧
      (IntoIter.flatNextBack front sh riter).2 = (orem S front ++ elems riter.reverse).getLast?
  | [], _ => by
    unfold IntoIter.flatNextBack
    cases front with
    | none => exact ⟨RInv.nil S, by simp, by simp, rfl, by simp [IntoIter.rem, elems], by simp [elems]⟩
    | some f =>
      obtain ⟨h1, h2, h3⟩ := To64.nextBack_spec S (hfr f rfl)
      simp only []
      cases hv : f.nextBack.2 with
      | none =>
        have hnil : crem S f = [] := by rw [hv] at h3; exact List.getLast?_eq_none_iff.mp h3.symm
        simp only [Option.isSome_none, Bool.false_eq_true, ↓reduceIte]
        exact ⟨RInv.nil S, by simp, by simp, trivial, by simp [IntoIter.rem, elems, hnil], by simp [elems, hnil]⟩
      | some v =>
        simp only [Option.isSome_some, ↓reduceIte]
        refine ⟨RInv.nil S, ?_, by simp, trivial, by simp [IntoIter.rem, elems, h2], by rw [← hv, h3]; simp [elems]⟩
        intro f' hf'; simp only [Option.some.injEq] at hf'; subst hf'; exact h1
  | p :: rrest, hr => by
    unfold IntoIter.flatNextBack
    rw [List.reverse_cons] at hr ⊢
    obtain ⟨hc, hcrem⟩ := to64_inv S (hr.parts p (by simp))
    obtain ⟨h1, h2, h3⟩ := To64.nextBack_spec S hc
    have hr' : RInv S rrest.reverse := hr.sublist S (List.sublist_append_left _ _)
    have hel : elems (rrest.reverse ++ [p]) = elems rrest.reverse ++ crem S (to64 K p) := by
      rw [elems_append, hcrem]; simp [elems]
    cases hv : (to64 K p).nextBack.2 with
    | some v =>
      simp only [hv]
      have hne : crem S (to64 K p) ≠ [] := by intro h; rw [hv, h] at h3; simp at h3
      refine ⟨hr', hfr, ?_, trivial, ?_, ?_⟩
      · intro b hb; simp only [Option.some.injEq] at hb; subst hb; exact h1
      · simp only [IntoIter.rem, orem_some, h2, hel]
        rw [← List.append_assoc, dropLast_append_ne hne]
      · rw [← hv, h3, hel, ← List.append_assoc, getLast?_append_ne hne]
    | none =>
      simp only [hv]
      have hnil : crem S (to64 K p) = [] := by rw [hv] at h3; exact List.getLast?_eq_none_iff.mp h3.symm
      rw [hel, hnil, List.append_nil]
      exact flatNextBack_spec front hfr sh rrest hr'

/-- `into_iter().next_back()` pops the largest remaining value and keeps the size counter exact -/
theorem IntoIter.nextBack_spec (it : IntoIter K) (h : it.Inv S) :
    it.nextBack.1.Inv S ∧ it.nextBack.1.rem S = (it.rem S).dropLast ∧ it.nextBack.2 = (it.rem S).getLast? := by
  unfold IntoIter.nextBack
  have hsz : it.sizeHint - 1 = (it.rem S).dropLast.length := by rw [h.size]; simp
  have hrr : it.iter.reverse.reverse = it.iter := List.reverse_reverse _
  cases hb : it.back with
  | none =>
    simp only []
    obtain ⟨a1, a2, a3, a4, a5, a6⟩ := flatNextBack_spec S it.front h.fr (it.sizeHint - 1) it.iter.reverse
      (by rw [hrr]; exact h.range)
    rw [hrr] at a5 a6
    have hrem : it.rem S = orem S it.front ++ elems it.iter := by simp [IntoIter.rem, hb]
    rw [hrem] at hsz ⊢
    exact ⟨⟨a1, a2, a3, by rw [a4, a5, hsz]⟩, a5, a6⟩
  | some b =>
    simp only []
    obtain ⟨h1, h2, h3⟩ := To64.nextBack_spec S (h.bk b hb)
    cases hv : b.nextBack.2 with
    | some v =>
      simp only [hv]
      have hne : crem S b ≠ [] := by intro h'; rw [hv, h'] at h3; simp at h3
      have hrem' : IntoIter.rem S { it with back := some b.nextBack.1, sizeHint := it.sizeHint - 1 } = (it.rem S).dropLast := by
        simp only [IntoIter.rem, orem_some, h2, hb]
        rw [dropLast_append_ne hne]
      refine ⟨⟨h.range, h.fr, ?_, by rw [hrem']; exact hsz⟩, hrem', ?_⟩
      · intro g hg; simp only [Option.some.injEq] at hg; subst hg; exact h1
      · rw [← hv, h3]; simp only [IntoIter.rem, hb, orem_some]
        rw [getLast?_append_ne hne]
    | none =>
      simp only [hv]
      have hnil : crem S b = [] := by rw [hv] at h3; exact List.getLast?_eq_none_iff.mp h3.symm
      obtain ⟨a1, a2, a3, a4, a5, a6⟩ := flatNextBack_spec S it.front h.fr (it.sizeHint - 1) it.iter.reverse
        (by rw [hrr]; exact h.range)
      rw [hrr] at a5 a6
      have hrem : it.rem S = orem S it.front ++ elems it.iter := by simp [IntoIter.rem, hb, hnil]
      rw [hrem] at hsz ⊢
      exact ⟨⟨a1, a2, a3, by rw [a4, a5, hsz]⟩, a5, a6⟩

/-- `into_iter().size_hint()` is exact (both components) while the count is below `usize::MAX` -/
theorem IntoIter.sizeHint_spec (it : IntoIter K) (h : it.Inv S) (hfit : (it.rem S).length < usizeMax) :
    it.sizeHintPair = ((it.rem S).length, some (it.rem S).length) := by
  unfold IntoIter.sizeHintPair; rw [h.size]; simp [hfit]

end TIter
end Roaring
