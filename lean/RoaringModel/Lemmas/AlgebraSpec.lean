import RoaringModel.Spec
import RoaringModel.Inv
import RoaringModel.Lemmas.ArrFacts
/-!
# The membership laws of the SPEC set algebra (`Spec.sOr / sAnd / sSub / sXor`)

These laws *are* the specification of C02 (see the comment in `Spec.lean`); the executable merge forms are shown to satisfy them here.  (Sorted-list extensionality is `Arr.sorted_ext`,
`Lemmas/ArrFacts.lean`.)
-/
namespace Roaring

namespace Spec

theorem mem_sOr (l r : List Nat) (x : Nat) : x ∈ sOr l r ↔ x ∈ l ∨ x ∈ r := by
  fun_induction sOr l r <;> grind
theorem sorted_sOr (l r : List Nat) (hl : Roaring.Sorted l) (hr : Roaring.Sorted r) : Roaring.Sorted (sOr l r) := by
  unfold Roaring.Sorted at *
  fun_induction sOr l r <;> grind [List.pairwise_cons, mem_sOr]

theorem mem_sAnd (l r : List Nat) (hl : Roaring.Sorted l) (hr : Roaring.Sorted r) (x : Nat) :
    x ∈ sAnd l r ↔ x ∈ l ∧ x ∈ r := by
  unfold Roaring.Sorted at *
  fun_induction sAnd l r <;> grind [List.pairwise_cons]
theorem sorted_sAnd (l r : List Nat) (hl : Roaring.Sorted l) (hr : Roaring.Sorted r) : Roaring.Sorted (sAnd l r) := by
  have hm := fun l r hl hr x => mem_sAnd l r hl hr x
  unfold Roaring.Sorted at *
  fun_induction sAnd l r <;> grind [List.pairwise_cons]

theorem mem_sSub (l r : List Nat) (hl : Roaring.Sorted l) (hr : Roaring.Sorted r) (x : Nat) :
    x ∈ sSub l r ↔ x ∈ l ∧ x ∉ r := by
  unfold Roaring.Sorted at *
  fun_induction sSub l r <;> grind [List.pairwise_cons]
theorem sorted_sSub (l r : List Nat) (hl : Roaring.Sorted l) (hr : Roaring.Sorted r) : Roaring.Sorted (sSub l r) := by
  have hm := fun l r hl hr x => mem_sSub l r hl hr x
  unfold Roaring.Sorted at *
  fun_induction sSub l r <;> grind [List.pairwise_cons]

theorem mem_sXor (l r : List Nat) (hl : Roaring.Sorted l) (hr : Roaring.Sorted r) (x : Nat) :
    x ∈ sXor l r ↔ (x ∈ l ∧ x ∉ r) ∨ (x ∉ l ∧ x ∈ r) := by
  unfold sXor
  rw [mem_sOr, mem_sSub l r hl hr, mem_sSub r l hr hl]
  constructor <;> (intro h; rcases h with h | h) <;> simp [h.1, h.2]
theorem sorted_sXor (l r : List Nat) (hl : Roaring.Sorted l) (hr : Roaring.Sorted r) : Roaring.Sorted (sXor l r) :=
  sorted_sOr _ _ (sorted_sSub l r hl hr) (sorted_sSub r l hr hl)

end Spec
end Roaring
