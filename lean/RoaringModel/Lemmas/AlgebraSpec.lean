import RoaringModel.Spec
import RoaringModel.Inv
/-!
# The membership laws of the SPEC set algebra (`Spec.sOr / sAnd / sSub / sXor`) and sorted-list
extensionality.  These laws *are* the specification of C02 (see the comment in `Spec.lean`); the
executable merge forms are shown to satisfy them here.  Import-free.
-/
namespace Roaring

/-- two strictly ascending lists with the same members are equal
    (local copy; the core library has the same fact as `Arr.sorted_ext` — unify after the merge) -/
theorem sorted_ext_local : ∀ (l r : List Nat), Sorted l → Sorted r → (∀ x, x ∈ l ↔ x ∈ r) → l = r
  | [], [], _, _, _ => rfl
  | [], b :: r, _, _, h => by have := (h b).mpr (by simp); simp at this
  | a :: l, [], _, _, h => by have := (h a).mp (by simp); simp at this
  | a :: l, b :: r, hl, hr, h => by
    have hl' := List.pairwise_cons.mp hl
    have hr' := List.pairwise_cons.mp hr
    have hab : a = b := by
      have h1 := (h a).mp (by simp)
      have h2 := (h b).mpr (by simp)
      rcases List.mem_cons.mp h1 with h1 | h1
      · exact h1
      · rcases List.mem_cons.mp h2 with h2 | h2
        · exact h2.symm
        · have := hl'.1 b h2; have := hr'.1 a h1; omega
    subst hab
    congr 1
    apply sorted_ext_local l r hl'.2 hr'.2
    intro x
    constructor
    · intro hx
      have := (h x).mp (List.mem_cons_of_mem _ hx)
      rcases List.mem_cons.mp this with rfl | h3
      · have := hl'.1 x hx; omega
      · exact h3
    · intro hx
      have := (h x).mpr (List.mem_cons_of_mem _ hx)
      rcases List.mem_cons.mp this with rfl | h3
      · have := hr'.1 x hx; omega
      · exact h3

namespace Spec

theorem mem_sOr (l r : List Nat) (x : Nat) : x ∈ sOr l r ↔ x ∈ l ∨ x ∈ r := by
  fun_induction sOr l r <;> grind
theorem sorted_sOr (l r : List Nat) (hl : Roaring.Sorted l) (hr : Roaring.Sorted r) : Roaring.Sorted (sOr l r) := by
  unfold Roaring.Sorted at *
  fun_induction sOr l r <;> grind [List.pairwise_cons, mem_sOr]

theorem mem_sAnd (l r : List Nat) (hl : Roaring.Sorted l) (hr : Roaring.Sorted r) (x : Nat) :
    x ∈ sAnd l r ↔ x ∈ l ∧ x ∈ r := by
  unfold Roaring.Sorted at *
  fun_induction sAnd l r <;> grind [List.pairwise_cons]
theorem sorted_sAnd (l r : List Nat) (hl : Roaring.Sorted l) (hr : Roaring.Sorted r) : Roaring.Sorted (sAnd l r) := by
  have hm := fun l r hl hr x => mem_sAnd l r hl hr x
  unfold Roaring.Sorted at *
  fun_induction sAnd l r <;> grind [List.pairwise_cons]

theorem mem_sSub (l r : List Nat) (hl : Roaring.Sorted l) (hr : Roaring.Sorted r) (x : Nat) :
    x ∈ sSub l r ↔ x ∈ l ∧ x ∉ r := by
  unfold Roaring.Sorted at *
  fun_induction sSub l r <;> grind [List.pairwise_cons]
theorem sorted_sSub (l r : List Nat) (hl : Roaring.Sorted l) (hr : Roaring.Sorted r) : Roaring.Sorted (sSub l r) := by
  have hm := fun l r hl hr x => mem_sSub l r hl hr x
  unfold Roaring.Sorted at *
  fun_induction sSub l r <;> grind [List.pairwise_cons]

theorem mem_sXor (l r : List Nat) (hl : Roaring.Sorted l) (hr : Roaring.Sorted r) (x : Nat) :
    x ∈ sXor l r ↔ (x ∈ l ∧ x ∉ r) ∨ (x ∉ l ∧ x ∈ r) := by
  unfold sXor
  rw [mem_sOr, mem_sSub l r hl hr, mem_sSub r l hr hl]
  constructor <;> (intro h; rcases h with h | h) <;> simp [h.1, h.2]
theorem sorted_sXor (l r : List Nat) (hl : Roaring.Sorted l) (hr : Roaring.Sorted r) : Roaring.Sorted (sXor l r) :=
  sorted_sOr _ _ (sorted_sSub l r hl hr) (sorted_sSub r l hr hl)

end Spec
end Roaring
