import RoaringModel.Lemmas.CodecWF
import RoaringModel.Lemmas.RoundTrip
import RoaringModel.SpecCodec
/-!
# `serialize b = Spec.encode (elems b)` (C05_bytes): bridge between the model's writer and the reference encoder
-/
namespace Roaring

/-- Kernel fact (statement; **proved** as `bitmap_toArray` in `Lemmas/CodecKernel.lean` from the shared
    BitmapStore library): the values listed by `to_array_store`'s loop for a well-formed bitset
    are as many as the cached cardinality, are 16-bit values, and re-assemble into exactly the stored words. -/
def Kernel.bitmap_toArray : Prop := ∀ b : BStore, StoreWF (.bitmap b) →
  b.toArray.length = b.len ∧ (∀ x ∈ b.toArray, x < 65536) ∧ Spec.wordsOf 0 1024 b.toArray = b.bits

theorem leBytes2_eq (x : Nat) : Spec.leBytes 2 x = u16le x := by
  simp only [Spec.leBytes, u16le]
theorem leBytes2_mod (x : Nat) : Spec.leBytes 2 x = u16le (x % 65536) := by
  simp only [Spec.leBytes, u16le, List.cons.injEq, and_true]; omega
theorem leBytes4_eq (x : Nat) : Spec.leBytes 4 x = u32le (x % 4294967296) := by
  simp only [Spec.leBytes, u32le, List.cons.injEq, and_true]; omega
theorem leBytes8_eq (x : Nat) : Spec.leBytes 8 x = u64le x := by
  simp only [Spec.leBytes, u64le, u32le, List.cons_append, List.nil_append, List.cons.injEq, and_true]; omega

theorem storeElems_facts (hK : Kernel.bitmap_toArray) {s : Store} (h : StoreWF s) :
    s.elems ≠ [] ∧ (∀ x ∈ s.elems, x < 65536) ∧ s.elems.length = s.len := by
  cases s with
  | array v =>
    obtain ⟨_, h2, h3, _⟩ := h
    refine ⟨?_, h2, rfl⟩
    intro he; simp only [Store.elems] at he; subst he; simp at h3
  | bitmap b =>
    obtain ⟨k1, k2, _⟩ := hK b h
    obtain ⟨_, _, _, h4⟩ := h
    refine ⟨?_, k2, k1⟩
    intro he; simp only [Store.elems] at he; rw [he] at k1; simp at k1; omega

/-! ### keys and chunks of `elems b` -/

theorem mem_containerElems {c : Container} {x : Nat} (hx : x ∈ c.elems) (hb : ∀ i ∈ c.store.elems, i < 65536) :
    x / 65536 = c.key ∧ x % 65536 ∈ c.store.elems := by
  simp only [Container.elems, List.mem_map] at hx
  obtain ⟨i, hi, rfl⟩ := hx
  have := hb i hi
  constructor
  · omega
  · have : (c.key * 65536 + i) % 65536 = i := by omega
    rw [this]; exact hi

theorem keysOf_append (k : Nat) : ∀ (l1 l2 : List Nat), l1 ≠ [] → (∀ x ∈ l1, x / 65536 = k) →
    (∀ y ∈ l2, y / 65536 ≠ k) → Spec.keysOf (l1 ++ l2) = k :: Spec.keysOf l2
  | [], _, h, _, _ => absurd rfl h
  | [x], l2, _, h1, h2 => by
    have hx := h1 x (List.mem_cons_self)
    cases l2 with
    | nil => simp [Spec.keysOf, hx]
    | cons y l =>
      have hy := h2 y (List.mem_cons_self)
      simp only [List.cons_append, List.nil_append, Spec.keysOf, hx]
      rw [if_neg (fun h => hy h.symm)]
  | x :: x' :: l, l2, _, h1, h2 => by
    have hx := h1 x (List.mem_cons_self)
    have hx' := h1 x' (List.mem_cons_of_mem _ List.mem_cons_self)
    simp only [List.cons_append, Spec.keysOf, hx, hx', ↓reduceIte]
    exact keysOf_append k (x' :: l) l2 (by simp) (fun y hy => h1 y (List.mem_cons_of_mem _ hy)) h2

theorem elems_cons (c : Container) (cs : Bitmap) : Bitmap.elems (c :: cs) = c.elems ++ Bitmap.elems cs := by
  simp [Bitmap.elems]

theorem mem_elems_key (hK : Kernel.bitmap_toArray) : ∀ (b : Bitmap), (∀ c ∈ b, StoreWF c.store) →
    ∀ x ∈ Bitmap.elems b, ∃ e ∈ b, x / 65536 = e.key
  | [], _, x, hx => by simp [Bitmap.elems] at hx
  | c :: cs, h, x, hx => by
    rw [elems_cons, List.mem_append] at hx
    rcases hx with hx | hx
    · exact ⟨c, List.mem_cons_self,
        (mem_containerElems hx (storeElems_facts hK (h c List.mem_cons_self)).2.1).1⟩
    · obtain ⟨e, he, hk⟩ := mem_elems_key hK cs (fun d hd => h d (List.mem_cons_of_mem _ hd)) x hx
      exact ⟨e, List.mem_cons_of_mem _ he, hk⟩

theorem tail_keys_ne (hK : Kernel.bitmap_toArray) {c : Container} {cs : Bitmap} (h : BitmapWF (c :: cs)) :
    ∀ y ∈ Bitmap.elems cs, y / 65536 ≠ c.key := by
  intro y hy
  obtain ⟨e, he, hk⟩ := mem_elems_key hK cs (fun d hd => (h.tail.2 d hd).2) y hy
  have := (List.pairwise_cons.mp h.1).1 e.key (List.mem_map_of_mem he)
  simp only [List.map_cons] at this
  omega

theorem containerElems_ne_nil (hK : Kernel.bitmap_toArray) {c : Container} (h : StoreWF c.store) : c.elems ≠ [] := by
  have := (storeElems_facts hK h).1
  simp only [Container.elems, ne_eq, List.map_eq_nil_iff]; exact this

theorem keysOf_elems (hK : Kernel.bitmap_toArray) : ∀ (b : Bitmap), BitmapWF b →
    Spec.keysOf (Bitmap.elems b) = b.map (·.key)
  | [], _ => rfl
  | c :: cs, h => by
    rw [elems_cons, keysOf_append c.key _ _ (containerElems_ne_nil hK h.head.2)
      (fun x hx => (mem_containerElems hx (storeElems_facts hK h.head.2).2.1).1) (tail_keys_ne hK h)]
    rw [keysOf_elems hK cs h.tail]; rfl

theorem chunkOf_container (hK : Kernel.bitmap_toArray) {c : Container} (h : StoreWF c.store) :
    Spec.chunkOf c.elems c.key = c.store.elems := by
  have hb := (storeElems_facts hK h).2.1
  unfold Spec.chunkOf
  have hf : c.elems.filter (fun x => decide (x / 65536 = c.key)) = c.elems := by
    rw [List.filter_eq_self]
    intro x hx
    simp [(mem_containerElems hx hb).1]
  rw [hf]
  simp only [Container.elems, List.map_map]
  conv => rhs; rw [← List.map_id c.store.elems]
  apply List.map_congr_left
  intro i hi
  have := hb i hi
  simp only [Function.comp, id]; omega

theorem chunkOf_other {l : List Nat} {k : Nat} (h : ∀ y ∈ l, y / 65536 ≠ k) : Spec.chunkOf l k = [] := by
  unfold Spec.chunkOf
  have : l.filter (fun x => decide (x / 65536 = k)) = [] := by
    rw [List.filter_eq_nil_iff]
    intro x hx; simp [h x hx]
  rw [this]; rfl

theorem chunkOf_append (l1 l2 : List Nat) (k : Nat) :
    Spec.chunkOf (l1 ++ l2) k = Spec.chunkOf l1 k ++ Spec.chunkOf l2 k := by
  simp [Spec.chunkOf]

theorem chunkOf_elems (hK : Kernel.bitmap_toArray) : ∀ (b : Bitmap), BitmapWF b → ∀ c ∈ b,
    Spec.chunkOf (Bitmap.elems b) c.key = c.store.elems
  | [], _, c, hc => by simp at hc
  | d :: ds, h, c, hc => by
    rw [elems_cons, chunkOf_append]
    rcases List.mem_cons.mp hc with rfl | hc
    · rw [chunkOf_container hK h.head.2, chunkOf_other (tail_keys_ne hK h)]; simp
    · have hlt : d.key < c.key := by
        have := (List.pairwise_cons.mp h.1).1 c.key (List.mem_map_of_mem hc)
        simpa using this
      have h1 : ∀ y ∈ d.elems, y / 65536 ≠ c.key := by
        intro y hy
        have := (mem_containerElems hy (storeElems_facts hK h.head.2).2.1).1
        omega
      rw [chunkOf_other h1, chunkOf_elems hK ds h.tail c hc]; simp

/-! ### assembling the stream -/

theorem payloadSize_elems (hK : Kernel.bitmap_toArray) {c : Container} (h : StoreWF c.store) :
    Spec.payloadSize c.store.elems = psize c := by
  unfold Spec.payloadSize psize
  cases hs : c.store with
  | array v =>
    rw [hs] at h
    obtain ⟨_, _, _, h4⟩ := h
    simp only [Store.elems, h4, ↓reduceIte]; omega
  | bitmap b =>
    rw [hs] at h
    obtain ⟨k1, _, _⟩ := hK b h
    obtain ⟨_, _, _, h4⟩ := h
    simp only [Store.elems, k1]
    rw [if_neg (by omega)]

theorem encodeChunk_elems (hK : Kernel.bitmap_toArray) {c : Container} (h : StoreWF c.store) :
    Spec.encodeChunk c.store.elems = payloadOf c := by
  unfold Spec.encodeChunk payloadOf
  cases hs : c.store with
  | array v =>
    rw [hs] at h
    obtain ⟨_, _, _, h4⟩ := h
    simp only [Store.elems, h4, ↓reduceIte]
    congr 1
  | bitmap b =>
    rw [hs] at h
    obtain ⟨k1, _, k3⟩ := hK b h
    obtain ⟨_, _, _, h4⟩ := h
    simp only [Store.elems, k1]
    rw [if_neg (by omega), k3]
    congr 1; funext x; exact leBytes8_eq x

theorem encodeOffsets_eq (hK : Kernel.bitmap_toArray) : ∀ (b : Bitmap) (pos : Nat), (∀ c ∈ b, StoreWF c.store) →
    Spec.encodeOffsets pos (b.map (·.store.elems)) = Bitmap.offsetBytes b pos
  | [], _, _ => rfl
  | c :: cs, pos, h => by
    simp only [List.map_cons, Spec.encodeOffsets, Bitmap.offsetBytes]
    rw [leBytes4_eq, payloadSize_elems hK (h c List.mem_cons_self),
      encodeOffsets_eq hK cs _ (fun d hd => h d (List.mem_cons_of_mem _ hd))]
    congr 2

theorem payload_eq (hK : Kernel.bitmap_toArray) : ∀ (b : Bitmap), (∀ c ∈ b, StoreWF c.store) →
    (b.map (·.store.elems)).flatMap Spec.encodeChunk = Bitmap.payloadBytes b
  | [], _ => rfl
  | c :: cs, h => by
    rw [payloadBytes_cons]
    simp only [List.map_cons, List.flatMap_cons]
    rw [encodeChunk_elems hK (h c List.mem_cons_self),
      payload_eq hK cs (fun d hd => h d (List.mem_cons_of_mem _ hd))]

theorem descr_eq (hK : Kernel.bitmap_toArray) : ∀ (b : Bitmap), (∀ c ∈ b, StoreWF c.store) →
    ((b.map (·.key)).zip (b.map (·.store.elems))).flatMap
        (fun kc => Spec.leBytes 2 kc.1 ++ Spec.leBytes 2 (kc.2.length - 1)) = Bitmap.descrBytes b
  | [], _ => rfl
  | c :: cs, h => by
    have ih := descr_eq hK cs (fun d hd => h d (List.mem_cons_of_mem _ hd))
    simp only [List.map_cons, List.zip_cons_cons, List.flatMap_cons, Bitmap.descrBytes] at ih ⊢
    rw [ih, leBytes2_eq, leBytes2_mod, (storeElems_facts hK (h c List.mem_cons_self)).2.2]
    rfl

/-- the model's writer produces the reference encoding of the value's element list -/
theorem serialize_eq_encode (hK : Kernel.bitmap_toArray) (b : Bitmap) (h : BitmapWF b) :
    Bitmap.serialize b = Spec.encode (Bitmap.elems b) := by
  have hs : ∀ c ∈ b, StoreWF c.store := fun c hc => (h.2 c hc).2
  have hks : Spec.keysOf (Bitmap.elems b) = b.map (·.key) := keysOf_elems hK b h
  have hcs : (b.map (·.key)).map (Spec.chunkOf (Bitmap.elems b)) = b.map (·.store.elems) := by
    rw [List.map_map]
    apply List.map_congr_left
    intro c hc
    exact chunkOf_elems hK b h c hc
  unfold Spec.encode Bitmap.serialize
  simp only [hks, hcs, List.length_map]
  rw [descr_eq hK b hs, encodeOffsets_eq hK b _ hs, payload_eq hK b hs, leBytes4_eq, leBytes4_eq]

end Roaring
