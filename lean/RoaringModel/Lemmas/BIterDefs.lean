import RoaringModel.Iter
/-!
# `BitmapIter`: abstraction (`rem`) and invariant (`Inv`) used by the C03 proofs

`rem it` = the values the iterator has still to yield, ascending:
the set bits of the live front word, of the words strictly between `key` and `key_back`, and of the live back
word.  When `key_back ≤ key` the only live word is `value` (bitmap_store.rs:460).
-/
namespace Roaring
namespace BIter
open BStore (word)

/-- the values of the words strictly between word `k` and word `kb` -/
def between (bits : List Nat) (k kb : Nat) : List Nat :=
  (List.range' (k+1) (kb - k - 1)).flatMap (fun j => bitsOf j (word bits j))

/-- remaining values of a `BitmapIter`, ascending -/
def rem (it : BIter) : List Nat :=
  if it.key < it.keyBack then
    bitsOf it.key it.value ++ between it.bits it.key it.keyBack ++ bitsOf it.keyBack it.valueBack
  else bitsOf it.key it.value

/-- invariant of a `BitmapIter` (established by `new` on 1024 words `< 2^64`, preserved by every method) -/
structure Inv (it : BIter) : Prop where
  v : it.value < 2^64
  vb : it.valueBack < 2^64
  ws : ∀ k, word it.bits k < 2^64
  /-- "if key_back <= key, current back value is actually in `value`" -/
  live : it.keyBack ≤ it.key → it.keyBack = it.key ∨ it.value = 0
  kb : it.keyBack ≤ 1023

end BIter
end Roaring
