import RoaringModel.Lemmas.MultiMerge
/-!
# C09: the eight `try_multi_*` functions against the fold of the spec operation

The owned and the copy-on-write versions share their control flow; it is proved once over an abstract
accumulator (`Engine`), the two instances are built from `merge_container_owned/ref` + clean-up.
-/
namespace Roaring.Multi
open Roaring Roaring.Spec Roaring.Multi.SpecL

variable {ε : Type}

/-! ### small facts -/

theorem okValues_length_of_none : ∀ (ys : List (Except ε Bitmap)), firstError ys = none →
    (okValues ys).length = ys.length
  | [], _ => rfl
  | .error _ :: _, h => by simp [firstError] at h
  | .ok _ :: r, h => by
    simp only [firstError] at h
    simp [okValues, okValues_length_of_none r h]

theorem take_ne_nil_of_admissible {h : Hint} {xs : List (Except ε Bitmap)} (hh : Hint.Admissible h xs.length)
    (hx : xs ≠ []) : xs.take (toCollect h xs.length) ≠ [] := by
  rcases hh with hh | hh
  · cases xs with
    | nil => exact absurd rfl hx
    | cons x r =>
      obtain ⟨n, hn⟩ : ∃ n, toCollect h (x :: r).length = n + 1 := ⟨_, (Nat.succ_pred_eq_of_pos hh).symm⟩
      rw [hn]; simp
  · exact absurd (List.length_eq_zero_iff.1 hh) hx

theorem okValues_split (n : Nat) (xs : List (Except ε Bitmap)) :
    okValues xs = okValues (xs.take n) ++ okValues (xs.drop n) := by
  rw [← okValues_append, List.take_append_drop]

@[simp] theorem map_ok {α β : Type} (f : α → β) (a : α) : Except.map f (Except.ok a : Except ε α) = .ok (f a) := rfl
@[simp] theorem map_error {α β : Type} (f : α → β) (e : ε) : Except.map f (Except.error e : Except ε α) = .error e := rfl

/-- membership in some operand -/
def anyMem (l : List Bitmap) (x : Nat) : Prop := ∃ b ∈ l, x ∈ Bitmap.elems b

theorem anyMem_map (l : List Bitmap) (x : Nat) : (∃ s ∈ l.map Bitmap.elems, x ∈ s) ↔ anyMem l x := by
  simp only [anyMem, List.mem_map]
  constructor
  · rintro ⟨s, ⟨b, hb, rfl⟩, hx⟩; exact ⟨b, hb, hx⟩
  · rintro ⟨b, hb, hx⟩; exact ⟨_, ⟨b, hb, rfl⟩, hx⟩

theorem anyMem_append (a b : List Bitmap) (x : Nat) : anyMem (a ++ b) x ↔ anyMem a x ∨ anyMem b x := by
  simp only [anyMem, List.mem_append]
  constructor
  · rintro ⟨c, hc | hc, hx⟩
    · exact Or.inl ⟨c, hc, hx⟩
    · exact Or.inr ⟨c, hc, hx⟩
  · rintro (⟨c, hc, hx⟩ | ⟨c, hc, hx⟩)
    · exact ⟨c, Or.inl hc, hx⟩
    · exact ⟨c, Or.inr hc, hx⟩

theorem anyMem_perm {a b : List Bitmap} (hp : a.Perm b) (x : Nat) : anyMem a x ↔ anyMem b x := by
  simp only [anyMem]
  exact ⟨fun ⟨c, hc, hx⟩ => ⟨c, hp.mem_iff.1 hc, hx⟩, fun ⟨c, hc, hx⟩ => ⟨c, hp.mem_iff.2 hc, hx⟩⟩

/-! ### the abstract merge engine -/

/-- what a membership connective `P` means for a spec-level set operation -/
def SopLaw (P : Prop → Prop → Prop) (sop : List Nat → List Nat → List Nat) : Prop :=
  ∀ a b, SpecL.Sorted a → SpecL.Sorted b → SpecL.Sorted (sop a b) ∧ ∀ y, y ∈ sop a b ↔ P (y ∈ a) (y ∈ b)

theorem sopLaw_or : SopLaw POr sOr := fun a b ha hb => ⟨sorted_sOr a b ha hb, mem_sOr a b⟩
theorem sopLaw_xor : SopLaw PXor sXor := fun a b ha hb => ⟨sorted_sXor a b ha hb, mem_sXor a b ha hb⟩

structure Engine (ε : Type) (β : Type) (sop : List Nat → List Nat → List Nat) where
  init : Bitmap → β
  loop : β → List (Except ε Bitmap) → Except ε β
  clean : β → Bitmap
  π : β → List Container
  m : β → Bitmap → β
  loop_eq : ∀ cs xs, loop cs xs = match firstError xs with
    | some e => .error e
    | none => .ok ((okValues xs).foldl m cs)
  init_π : ∀ b, π (init b) = b
  m_spec : ∀ cs rhs, Acc (π cs) → Acc rhs →
    Acc (π (m cs rhs)) ∧ Bitmap.elems (π (m cs rhs)) = sop (Bitmap.elems (π cs)) (Bitmap.elems rhs)
  clean_spec : ∀ cs, Acc (π cs) → WF (clean cs) ∧ Bitmap.elems (clean cs) = Bitmap.elems (π cs)

def ownedEngine (K : Kernel) (ε : Type) {P : Prop → Prop → Prop} (hP : PLaw P) {op : Store → Store → Store}
    (hop : OpLaw P op) {sop : List Nat → List Nat → List Nat} (hs : SopLaw P sop) :
    Engine ε (List Container) sop where
  init := id
  loop := mergeLoopOwned op
  clean := cleanupOwned
  π := id
  m := mergeContainerOwned op
  loop_eq := mergeLoopOwned_eq op
  init_π := fun _ => rfl
  m_spec := fun cs rhs hcs hrhs => by
    have h := mergeContainerOwned_spec K hP hop hcs hrhs
    have hl := hs _ _ (hcs.elems_sorted K) (hrhs.elems_sorted K)
    exact ⟨h.1, sorted_ext (h.1.elems_sorted K) hl.1 (fun y => (h.2 y).trans (hl.2 y).symm)⟩
  clean_spec := fun cs h => ⟨(cleanupOwned_spec K h).1, (cleanupOwned_spec K h).2.1⟩

def refEngine (K : Kernel) (ε : Type) {P : Prop → Prop → Prop} (hP : PLaw P) {op : Store → Store → Store}
    (hop : OpLaw P op) {sop : List Nat → List Nat → List Nat} (hs : SopLaw P sop) :
    Engine ε (List Cow) sop where
  init := fun b => b.map Cow.borrowed
  loop := mergeLoopRef op
  clean := cleanupRef
  π := fun cs => cs.map Cow.get
  m := mergeContainerRef op
  loop_eq := mergeLoopRef_eq op
  init_π := map_get_map_borrowed
  m_spec := fun cs rhs hcs hrhs => by
    have h := mergeContainerRef_spec K hP hop hcs hrhs
    have hl := hs _ _ (hcs.elems_sorted K) (hrhs.elems_sorted K)
    exact ⟨h.1, sorted_ext (h.1.elems_sorted K) hl.1 (fun y => (h.2 y).trans (hl.2 y).symm)⟩
  clean_spec := fun cs h => by
    rw [cleanupRef_eq]
    exact ⟨(cleanupOwned_spec K h).1, (cleanupOwned_spec K h).2.1⟩

theorem Engine.foldl_spec {β : Type} {sop : List Nat → List Nat → List Nat} (G : Engine ε β sop) :
    ∀ (l : List Bitmap) (cs : β), Acc (G.π cs) → (∀ b ∈ l, WF b) →
      Acc (G.π (l.foldl G.m cs)) ∧
      Bitmap.elems (G.π (l.foldl G.m cs)) = (l.map Bitmap.elems).foldl sop (Bitmap.elems (G.π cs))
  | [], _, hcs, _ => ⟨hcs, rfl⟩
  | b :: l, cs, hcs, hl => by
    have hb := hl b (List.mem_cons_self ..)
    have h1 := G.m_spec cs b hcs hb.acc
    have ih := G.foldl_spec l (G.m cs b) h1.1 (fun b' hb' => hl b' (List.mem_cons_of_mem _ hb'))
    simp only [List.foldl_cons, List.map_cons]
    rw [← h1.2]; exact ih

/-- run the engine from a first bitmap over a list of `Result`s -/
theorem Engine.run_spec {β : Type} {sop : List Nat → List Nat → List Nat} (G : Engine ε β sop)
    (c : Bitmap) (hc : WF c) (rest : List (Except ε Bitmap)) (hr : ∀ b ∈ okValues rest, WF b) :
    (match G.loop (G.init c) rest with
      | .error e => Except.error e
      | .ok cs => .ok (Bitmap.elems (G.clean cs)))
    = match firstError rest with
      | some e => .error e
      | none => .ok (((okValues rest).map Bitmap.elems).foldl sop (Bitmap.elems c)) := by
  rw [G.loop_eq]
  cases firstError rest with
  | some e => rfl
  | none =>
    have hacc : Acc (G.π (G.init c)) := by rw [G.init_π]; exact hc.acc
    have h := G.foldl_spec (okValues rest) (G.init c) hacc hr
    simp only
    rw [(G.clean_spec _ h.1).2, h.2, G.init_π]

/-! ### union -/

def orWith {β : Type} (G : Engine ε β sOr) (sort : List Bitmap → List Bitmap) (h : Hint)
    (xs : List (Except ε Bitmap)) : Except ε Bitmap :=
  match orStartWith sort h xs with
  | .error e => .error e
  | .ok none => .ok Bitmap.new
  | .ok (some (c, rest)) =>
    match G.loop (G.init c) rest with
    | .error e => .error e
    | .ok cs => .ok (G.clean cs)

theorem nil_of_perm_nil {α : Type} {l : List α} (h : ([] : List α).Perm l) : l = [] :=
  List.Perm.nil_eq h |>.symm

/-- if the largest collected operand is empty, so are all the others -/
theorem all_empty_of_desc {c : Bitmap} {st : List Bitmap}
    (hs : (c :: st).Pairwise (fun a b => nContainers b ≤ nContainers a)) (hc : Bitmap.isEmpty c = true) :
    ∀ b ∈ st, b = [] := by
  intro b hb
  have := (List.pairwise_cons.1 hs).1 b hb
  rw [(isEmpty_iff_nil c).1 hc] at this
  simp only [nContainers, List.length_nil, Nat.le_zero] at this
  exact List.length_eq_zero_iff.1 this

theorem orWith_spec (K : Kernel) {β : Type} (G : Engine ε β sOr) {sort : List Bitmap → List Bitmap}
    (hs : IsSortDesc nContainers sort) {h : Hint} {xs : List (Except ε Bitmap)}
    (hh : Hint.Admissible h xs.length) (hwf : ∀ b ∈ okValues xs, WF b) :
    (orWith G sort h xs).map Bitmap.elems = match firstError xs with
      | some e => .error e
      | none => .ok (((okValues xs).map Bitmap.elems).foldl sOr []) := by
  have hfe := firstError_take_drop (toCollect h xs.length) xs
  have hov := okValues_split (toCollect h xs.length) xs
  unfold orWith orStartWith
  rw [collectStart_eq]
  have htk := fun hne => take_ne_nil_of_admissible hh hne
  generalize toCollect h xs.length = t at *
  cases hfe1 : firstError (xs.take t) with
  | some e => rw [hfe, hfe1]; rfl
  | none =>
    rw [hfe1] at hfe
    simp only [Option.none_or] at hfe  -- firstError xs = firstError (drop)
    simp only
    have hperm := hs.perm (okValues (xs.take t))
    have hsorted := hs.sorted (okValues (xs.take t))
    cases hsort : sort (okValues (xs.take t)) with
    | nil =>
      rw [hsort] at hperm
      have h0 : okValues (xs.take t) = [] := nil_of_perm_nil hperm
      have hx : xs = [] := by
        apply Classical.byContradiction
        intro hne
        have := htk hne
        have hl := okValues_length_of_none _ hfe1
        rw [h0] at hl
        exact this (List.length_eq_zero_iff.1 hl.symm)
      subst hx
      simp [firstError, okValues, Bitmap.new, Bitmap.elems]
    | cons c st =>
      rw [hsort] at hperm hsorted
      simp only
      -- well-formedness of everything in sight
      have hwf_start : ∀ b ∈ okValues (xs.take t), WF b := fun b hb => hwf b (by rw [hov]; exact List.mem_append_left _ hb)
      have hwf_iter : ∀ b ∈ okValues (xs.drop t), WF b := fun b hb => hwf b (by rw [hov]; exact List.mem_append_right _ hb)
      have hwf_c : WF c := hwf_start c (hperm.mem_iff.1 (List.mem_cons_self ..))
      have hwf_st : ∀ b ∈ st, WF b := fun b hb => hwf_start b (hperm.mem_iff.1 (List.mem_cons_of_mem _ hb))
      generalize hst' : (if Bitmap.isEmpty c = true then st.drop ((okValues (xs.take t)).length + 1) else st) = st'
      have hsub : ∀ b ∈ st', b ∈ st := by
        intro b hb
        rw [← hst'] at hb
        split at hb
        · exact List.mem_of_mem_drop hb
        · exact hb
      have hrest_fe : firstError (st'.map Except.ok ++ xs.drop t) = firstError (xs.drop t) := by
        rw [firstError_append, firstError_map_ok]; simp
      have hrest_ov : okValues (st'.map (Except.ok (ε := ε)) ++ xs.drop t) = st' ++ okValues (xs.drop t) := by
        rw [okValues_append, okValues_map_ok]
      have hrun := G.run_spec c hwf_c (st'.map Except.ok ++ xs.drop t) (by
        rw [hrest_ov]
        intro b hb
        rcases List.mem_append.1 hb with hb | hb
        · exact hwf_st b (hsub b hb)
        · exact hwf_iter b hb)
      rw [hrest_fe, hrest_ov] at hrun
      -- push `.map elems` through the inner match
      have hmap : ∀ r : Except ε β,
          Except.map Bitmap.elems (match r with
            | .error e => (Except.error e : Except ε Bitmap)
            | .ok cs => .ok (G.clean cs))
          = (match r with
            | .error e => Except.error e
            | .ok cs => .ok (Bitmap.elems (G.clean cs))) := by
        intro r; cases r <;> rfl
      rw [hmap, hrun, hfe]
      cases hfe2 : firstError (xs.drop t) with
      | some e => rfl
      | none =>
        simp only
        congr 1
        rw [hov]
        -- both sides are sorted lists with the same members
        have hsrt : ∀ l : List Bitmap, (∀ b ∈ l, WF b) → ∀ s ∈ l.map Bitmap.elems, SpecL.Sorted s := by
          intro l hl s hs'
          rcases List.mem_map.1 hs' with ⟨b, hb, rfl⟩
          exact (hl b hb).elems_sorted K
        apply sorted_ext
        · apply sorted_foldl_sOr _ _ (hwf_c.elems_sorted K)
          apply hsrt
          intro b hb
          rcases List.mem_append.1 hb with hb | hb
          · exact hwf_st b (hsub b hb)
          · exact hwf_iter b hb
        · apply sorted_foldl_sOr _ _ (by simp)
          apply hsrt
          intro b hb
          rcases List.mem_append.1 hb with hb | hb
          · exact hwf_start b hb
          · exact hwf_iter b hb
        · intro x
          rw [mem_foldl_sOr, mem_foldl_sOr, anyMem_map, anyMem_map, anyMem_append, anyMem_append,
            ← anyMem_perm hperm]
          have hcons : anyMem (c :: st) x ↔ x ∈ Bitmap.elems c ∨ anyMem st x := by
            simp [anyMem]
          rw [hcons]
          have hskip : anyMem st' x ↔ anyMem st x := by
            rw [← hst']
            split
            · rename_i hce
              have hall := all_empty_of_desc hsorted hce
              constructor
              · rintro ⟨b, hb, hx⟩
                exact ⟨b, List.mem_of_mem_drop hb, hx⟩
              · rintro ⟨b, hb, hx⟩
                rw [hall b hb] at hx
                simp [Bitmap.elems] at hx
            · exact Iff.rfl
          rw [hskip]
          simp only [List.not_mem_nil, false_or]
          exact or_assoc.symm

/-! ### symmetric difference (sequential: no collection, no sort) -/

def xorWith {β : Type} (G : Engine ε β sXor) (xs : List (Except ε Bitmap)) : Except ε Bitmap :=
  match xs with
  | [] => .ok (G.clean (G.init []))
  | .error e :: _ => .error e
  | .ok v :: iter =>
    match G.loop (G.init v) iter with
    | .error e => .error e
    | .ok cs => .ok (G.clean cs)

theorem xorWith_spec {β : Type} (G : Engine ε β sXor) {xs : List (Except ε Bitmap)}
    (hwf : ∀ b ∈ okValues xs, WF b) :
    (xorWith G xs).map Bitmap.elems = match firstError xs with
      | some e => .error e
      | none => .ok (((okValues xs).map Bitmap.elems).foldl sXor []) := by
  unfold xorWith
  match xs, hwf with
  | [], _ =>
    have hacc : Acc (G.π (G.init [])) := by rw [G.init_π]; exact wf_nil.acc
    simp only [firstError, okValues, List.map_nil, List.foldl_nil, map_ok]
    rw [(G.clean_spec _ hacc).2, G.init_π]; rfl
  | .error e :: _, _ => rfl
  | .ok v :: iter, hwf =>
    have hv : WF v := hwf v (by simp [okValues])
    have hrun := G.run_spec v hv iter (fun b hb => hwf b (by simp [okValues, hb]))
    have hmap : ∀ r : Except ε β,
        Except.map Bitmap.elems (match r with
          | .error e => (Except.error e : Except ε Bitmap)
          | .ok cs => .ok (G.clean cs))
        = (match r with
          | .error e => Except.error e
          | .ok cs => .ok (Bitmap.elems (G.clean cs))) := by
      intro r; cases r <;> rfl
    simp only [firstError, okValues, List.map_cons, List.foldl_cons, sXor_nil_left]
    rw [hmap, hrun]

/-! ### intersection and difference -/

structure AssignLaw (f : Bitmap → Bitmap → Bitmap) (sop : List Nat → List Nat → List Nat) : Prop where
  nil : ∀ r, f [] r = []
  spec : ∀ a b, WF a → WF b → WF (f a b) ∧ Bitmap.elems (f a b) = sop (Bitmap.elems a) (Bitmap.elems b)

theorem AssignLaw.foldl_spec {f : Bitmap → Bitmap → Bitmap} {sop : List Nat → List Nat → List Nat}
    (L : AssignLaw f sop) : ∀ (l : List Bitmap) (a : Bitmap), WF a → (∀ b ∈ l, WF b) →
      WF (l.foldl f a) ∧ Bitmap.elems (l.foldl f a) = (l.map Bitmap.elems).foldl sop (Bitmap.elems a)
  | [], _, ha, _ => ⟨ha, rfl⟩
  | b :: l, a, ha, hl => by
    have h1 := L.spec a b ha (hl b (List.mem_cons_self ..))
    have ih := L.foldl_spec l (f a b) h1.1 (fun b' hb' => hl b' (List.mem_cons_of_mem _ hb'))
    simp only [List.foldl_cons, List.map_cons]
    rw [← h1.2]; exact ih

def andWith (f : Bitmap → Bitmap → Bitmap) (sort : List Bitmap → List Bitmap) (h : Hint)
    (xs : List (Except ε Bitmap)) : Except ε Bitmap :=
  match andStartWith sort h xs with
  | .error e => .error e
  | .ok (some (lhs, rest)) => assignLoop f lhs rest
  | .ok none => .ok Bitmap.new

/-- all-`Ok`: the fold, for every admissible sort and `size_hint` -/
theorem andWith_ok (K : Kernel) {f : Bitmap → Bitmap → Bitmap} (L : AssignLaw f sAnd)
    {sort : List Bitmap → List Bitmap} (hs : IsSortAsc nContainers sort) {h : Hint}
    {xs : List (Except ε Bitmap)} (hh : Hint.Admissible h xs.length) (hwf : ∀ b ∈ okValues xs, WF b)
    (hfe : firstError xs = none) :
    (andWith f sort h xs).map Bitmap.elems = .ok (Spec.multi .and ((okValues xs).map Bitmap.elems)) := by
  have hfe' := firstError_take_drop (toCollect h xs.length) xs
  have hov := okValues_split (toCollect h xs.length) xs
  unfold andWith andStartWith
  rw [collectStart_eq]
  have htk := fun hne => take_ne_nil_of_admissible hh hne
  generalize toCollect h xs.length = t at *
  rw [hfe] at hfe'
  have hfe1 : firstError (xs.take t) = none := by
    cases h1 : firstError (xs.take t) with
    | none => rfl
    | some e' => rw [h1] at hfe'; simp at hfe'
  have hfe2 : firstError (xs.drop t) = none := by
    rw [hfe1] at hfe'; simp only [Option.none_or] at hfe'; exact hfe'.symm
  rw [hfe1]
  simp only
  have hperm := hs.perm (okValues (xs.take t))
  cases hsort : sort (okValues (xs.take t)) with
  | nil =>
    rw [hsort] at hperm
    have h0 : okValues (xs.take t) = [] := nil_of_perm_nil hperm
    have hx : xs = [] := by
      apply Classical.byContradiction
      intro hne
      have := htk hne
      have hl := okValues_length_of_none _ hfe1
      rw [h0] at hl
      exact this (List.length_eq_zero_iff.1 hl.symm)
    subst hx
    simp [okValues, Bitmap.new, Bitmap.elems, Spec.multi]
  | cons a st =>
    rw [hsort] at hperm
    simp only
    have hwf_start : ∀ b ∈ okValues (xs.take t), WF b := fun b hb => hwf b (by rw [hov]; exact List.mem_append_left _ hb)
    have hwf_iter : ∀ b ∈ okValues (xs.drop t), WF b := fun b hb => hwf b (by rw [hov]; exact List.mem_append_right _ hb)
    have hwf_a : WF a := hwf_start a (hperm.mem_iff.1 (List.mem_cons_self ..))
    have hwf_st : ∀ b ∈ st, WF b := fun b hb => hwf_start b (hperm.mem_iff.1 (List.mem_cons_of_mem _ hb))
    have hrest_fe : firstError (st.map Except.ok ++ xs.drop t) = none := by
      rw [firstError_append, firstError_map_ok, hfe2]; rfl
    have hrest_ov : okValues (st.map (Except.ok (ε := ε)) ++ xs.drop t) = st ++ okValues (xs.drop t) := by
      rw [okValues_append, okValues_map_ok]
    rw [assignLoop_ok f L.nil a _ hrest_fe, hrest_ov, map_ok]
    have hwf_rest : ∀ b ∈ st ++ okValues (xs.drop t), WF b := by
      intro b hb
      rcases List.mem_append.1 hb with hb | hb
      · exact hwf_st b hb
      · exact hwf_iter b hb
    rw [(L.foldl_spec _ a hwf_a hwf_rest).2]
    congr 1
    -- the spec fold over `okValues xs`, which is a permutation of `a :: st ++ rest`
    have hp : (a :: (st ++ okValues (xs.drop t))).Perm (okValues xs) := by
      rw [hov]; exact List.Perm.append_right _ hperm
    cases hl : okValues xs with
    | nil => rw [hl] at hp; exact absurd hp.length_eq (by simp)
    | cons l0 ltail =>
      rw [hl] at hp
      simp only [Spec.multi, List.map_cons]
      apply foldl_sAnd_perm (a := Bitmap.elems a) (a' := Bitmap.elems l0)
      · have := hp.map Bitmap.elems
        simpa using this
      · intro s hs'
        have : s ∈ (a :: (st ++ okValues (xs.drop t))).map Bitmap.elems := by simpa using hs'
        rcases List.mem_map.1 this with ⟨b, hb, rfl⟩
        rcases List.mem_cons.1 hb with rfl | hb
        · exact hwf_a.elems_sorted K
        · exact (hwf_rest b hb).elems_sorted K

/-- an error in the first item is returned -/
theorem andWith_err_first {f : Bitmap → Bitmap → Bitmap} {sort : List Bitmap → List Bitmap} {h : Hint}
    {e : ε} {r : List (Except ε Bitmap)} (hh : Hint.Admissible h (Except.error e :: r).length) :
    andWith f sort h (Except.error e :: r) = .error e := by
  unfold andWith andStartWith
  rw [collectStart_eq]
  rcases hh with hh | hh
  · obtain ⟨n, hn⟩ : ∃ n, toCollect h (Except.error e :: r : List (Except ε Bitmap)).length = n + 1 :=
      ⟨_, (Nat.succ_pred_eq_of_pos hh).symm⟩
    rw [hn]
    simp [firstError]
  · simp at hh

/-- an error anywhere: either the *first* error is returned, or the early exit fired first and the value is `∅` -/
theorem andWith_err {f : Bitmap → Bitmap → Bitmap} {sort : List Bitmap → List Bitmap}
    (hs : ∀ l, (sort l).Perm l) {h : Hint} {xs : List (Except ε Bitmap)} {e : ε}
    (hh : Hint.Admissible h xs.length) (hfe : firstError xs = some e) :
    andWith f sort h xs = .error e ∨ andWith f sort h xs = .ok [] := by
  have hfe' := firstError_take_drop (toCollect h xs.length) xs
  unfold andWith andStartWith
  rw [collectStart_eq]
  have hne : xs ≠ [] := by rintro rfl; simp [firstError] at hfe
  have htk := take_ne_nil_of_admissible hh hne
  generalize toCollect h xs.length = t at *
  rw [hfe] at hfe'
  cases hfe1 : firstError (xs.take t) with
  | some e' =>
    rw [hfe1] at hfe'
    simp only [Option.some_or, Option.some.injEq] at hfe'
    subst hfe'
    left; rfl
  | none =>
    rw [hfe1] at hfe'
    simp only [Option.none_or] at hfe'
    simp only
    have hperm := hs (okValues (xs.take t))
    cases hsort : sort (okValues (xs.take t)) with
    | nil =>
      rw [hsort] at hperm
      have h0 : okValues (xs.take t) = [] := nil_of_perm_nil hperm
      have hl := okValues_length_of_none _ hfe1
      rw [h0] at hl
      exact absurd (List.length_eq_zero_iff.1 hl.symm) htk
    | cons a st =>
      simp only
      apply assignLoop_err
      rw [firstError_append, firstError_map_ok, ← hfe']; rfl

def subWith (f : Bitmap → Bitmap → Bitmap) (xs : List (Except ε Bitmap)) : Except ε Bitmap :=
  match xs with
  | [] => .ok Bitmap.new
  | .error e :: _ => .error e
  | .ok lhs :: iter => assignLoop f lhs iter

theorem subWith_ok {f : Bitmap → Bitmap → Bitmap} (L : AssignLaw f sSub)
    {xs : List (Except ε Bitmap)} (hwf : ∀ b ∈ okValues xs, WF b) (hfe : firstError xs = none) :
    (subWith f xs).map Bitmap.elems = .ok (Spec.multi .sub ((okValues xs).map Bitmap.elems)) := by
  unfold subWith
  match xs, hwf, hfe with
  | [], _, _ => simp [okValues, Bitmap.new, Bitmap.elems, Spec.multi]
  | .error e :: _, _, hfe => simp [firstError] at hfe
  | .ok lhs :: iter, hwf, hfe =>
    simp only [firstError] at hfe
    simp only
    rw [assignLoop_ok f L.nil lhs iter hfe, map_ok]
    have hl : WF lhs := hwf lhs (by simp [okValues])
    rw [(L.foldl_spec _ lhs hl (fun b hb => hwf b (by simp [okValues, hb]))).2]
    simp [okValues, Spec.multi]

theorem subWith_err_first {f : Bitmap → Bitmap → Bitmap} {e : ε} {r : List (Except ε Bitmap)} :
    subWith f (Except.error e :: r) = .error e := rfl

theorem subWith_err {f : Bitmap → Bitmap → Bitmap} {xs : List (Except ε Bitmap)} {e : ε}
    (hfe : firstError xs = some e) : subWith f xs = .error e ∨ subWith f xs = .ok [] := by
  unfold subWith
  match xs, hfe with
  | [], hfe => simp [firstError] at hfe
  | .error e' :: _, hfe =>
    simp only [firstError, Option.some.injEq] at hfe
    subst hfe; left; rfl
  | .ok lhs :: iter, hfe =>
    simp only [firstError] at hfe
    exact assignLoop_err f lhs iter e hfe

end Roaring.Multi

namespace Roaring.Multi
open Roaring Roaring.Spec Roaring.Multi.SpecL

variable {ε : Type}

/-! ### error propagation of ∪ (kernel-free: only the control skeleton is involved) -/

theorem orStartWith_err {sort : List Bitmap → List Bitmap} (hs : ∀ l, (sort l).Perm l) {h : Hint}
    {xs : List (Except ε Bitmap)} {e : ε} (hh : Hint.Admissible h xs.length) (hfe : firstError xs = some e) :
    orStartWith sort h xs = .error e ∨
      ∃ c rest, orStartWith sort h xs = .ok (some (c, rest)) ∧ firstError rest = some e := by
  have hfe' := firstError_take_drop (toCollect h xs.length) xs
  unfold orStartWith
  rw [collectStart_eq]
  have hne : xs ≠ [] := by rintro rfl; simp [firstError] at hfe
  have htk := take_ne_nil_of_admissible hh hne
  generalize toCollect h xs.length = t at *
  rw [hfe] at hfe'
  cases hfe1 : firstError (xs.take t) with
  | some e' =>
    rw [hfe1] at hfe'
    simp only [Option.some_or, Option.some.injEq] at hfe'
    subst hfe'
    left; rfl
  | none =>
    rw [hfe1] at hfe'
    simp only [Option.none_or] at hfe'
    simp only
    have hperm := hs (okValues (xs.take t))
    cases hsort : sort (okValues (xs.take t)) with
    | nil =>
      rw [hsort] at hperm
      have h0 : okValues (xs.take t) = [] := nil_of_perm_nil hperm
      have hl := okValues_length_of_none _ hfe1
      rw [h0] at hl
      exact absurd (List.length_eq_zero_iff.1 hl.symm) htk
    | cons c st =>
      right
      refine ⟨c, _, rfl, ?_⟩
      rw [firstError_append, firstError_map_ok, ← hfe']; rfl

theorem tryMultiOrOwnedWith_err {sort : List Bitmap → List Bitmap} (hs : ∀ l, (sort l).Perm l) {h : Hint}
    {xs : List (Except ε Bitmap)} {e : ε} (hh : Hint.Admissible h xs.length) (hfe : firstError xs = some e) :
    tryMultiOrOwnedWith sort h xs = .error e := by
  unfold tryMultiOrOwnedWith
  rcases orStartWith_err hs hh hfe with h1 | ⟨c, rest, h1, h2⟩
  · rw [h1]
  · rw [h1]; simp only; rw [mergeLoopOwned_eq, h2]

theorem tryMultiOrRefWith_err {sort : List Bitmap → List Bitmap} (hs : ∀ l, (sort l).Perm l) {h : Hint}
    {xs : List (Except ε Bitmap)} {e : ε} (hh : Hint.Admissible h xs.length) (hfe : firstError xs = some e) :
    tryMultiOrRefWith sort h xs = .error e := by
  unfold tryMultiOrRefWith
  rcases orStartWith_err hs hh hfe with h1 | ⟨c, rest, h1, h2⟩
  · rw [h1]
  · rw [h1]; simp only; rw [mergeLoopRef_eq, h2]

theorem tryMultiXorOwned_err {xs : List (Except ε Bitmap)} {e : ε} (hfe : firstError xs = some e) :
    tryMultiXorOwned xs = .error e := by
  unfold tryMultiXorOwned
  match xs, hfe with
  | [], hfe => simp [firstError] at hfe
  | .error e' :: _, hfe => simp only [firstError, Option.some.injEq] at hfe; subst hfe; rfl
  | .ok v :: iter, hfe =>
    simp only [firstError] at hfe
    simp only; rw [mergeLoopOwned_eq, hfe]

theorem tryMultiXorRef_err {xs : List (Except ε Bitmap)} {e : ε} (hfe : firstError xs = some e) :
    tryMultiXorRef xs = .error e := by
  unfold tryMultiXorRef
  match xs, hfe with
  | [], hfe => simp [firstError] at hfe
  | .error e' :: _, hfe => simp only [firstError, Option.some.injEq] at hfe; subst hfe; rfl
  | .ok v :: iter, hfe =>
    simp only [firstError] at hfe
    simp only; rw [mergeLoopRef_eq, hfe]

/-! ### the model's functions are the generic ones at the two engines -/

theorem xorOwned_bridge (K : Kernel) (xs : List (Except ε Bitmap)) : tryMultiXorOwned xs = xorWith (ownedEngine K ε plaw_xor K.xorOwned sopLaw_xor) xs := by
  unfold tryMultiXorOwned xorWith
  simp only [ownedEngine, id_eq]
  rcases xs with _ | ⟨e | v, r⟩
  · rfl
  · rfl
  · dsimp only
    generalize mergeLoopOwned Store.xorAssignOwned v r = r2
    cases r2 <;> rfl
theorem xorRef_bridge (K : Kernel) (xs : List (Except ε Bitmap)) : tryMultiXorRef xs = xorWith (refEngine K ε plaw_xor K.xorRef sopLaw_xor) xs := by
  unfold tryMultiXorRef xorWith
  simp only [refEngine, List.map_nil]
  rcases xs with _ | ⟨e | v, r⟩
  · rfl
  · rfl
  · dsimp only
    generalize mergeLoopRef Store.xorAssignRef (v.map Cow.borrowed) r = r2
    cases r2 <;> rfl
theorem orOwned_bridge (K : Kernel) sort h (xs : List (Except ε Bitmap)) : tryMultiOrOwnedWith sort h xs = orWith (ownedEngine K ε plaw_or K.orOwned sopLaw_or) sort h xs := by
  unfold tryMultiOrOwnedWith orWith
  simp only [ownedEngine, id_eq]
  generalize orStartWith sort h xs = r0
  rcases r0 with e | _ | ⟨c, rest⟩
  · rfl
  · rfl
  · dsimp only
    generalize mergeLoopOwned Store.orAssignOwned c rest = r2
    cases r2 <;> rfl
theorem orRef_bridge (K : Kernel) sort h (xs : List (Except ε Bitmap)) : tryMultiOrRefWith sort h xs = orWith (refEngine K ε plaw_or K.orRef sopLaw_or) sort h xs := by
  unfold tryMultiOrRefWith orWith
  simp only [refEngine]
  generalize orStartWith sort h xs = r0
  rcases r0 with e | _ | ⟨c, rest⟩
  · rfl
  · rfl
  · dsimp only
    generalize mergeLoopRef Store.orAssignRef (c.map Cow.borrowed) rest = r2
    cases r2 <;> rfl

/-! ### glue for the property statements -/

def specOp : Op → MOp
  | .or => .or
  | .and => .and
  | .sub => .sub
  | .xor => .xor

/-- the items seen through the abstraction -/
def elemsItems (xs : List (Except ε Bitmap)) : List (Except ε Spec.Set) := xs.map (Except.map Bitmap.elems)

theorem firstError_elemsItems : ∀ xs : List (Except ε Bitmap), firstError (elemsItems xs) = firstError xs
  | [] => rfl
  | .error _ :: _ => rfl
  | .ok _ :: r => by
    have := firstError_elemsItems r
    simpa [elemsItems, firstError, Except.map] using this

theorem okValues_elemsItems : ∀ xs : List (Except ε Bitmap),
    okValues (elemsItems xs) = (okValues xs).map Bitmap.elems
  | [] => rfl
  | .error _ :: r => by
    have := okValues_elemsItems r
    simpa [elemsItems, okValues, Except.map] using this
  | .ok _ :: r => by
    have := okValues_elemsItems r
    simpa [elemsItems, okValues, Except.map] using this

theorem andOwnedLaw (K : Kernel) : AssignLaw andAssignOwned sAnd := ⟨andAssignOwned_nil, K.andOwned⟩
theorem andRefLaw (K : Kernel) : AssignLaw andAssignRef sAnd := ⟨andAssignRef_nil, K.andRef⟩
theorem subRefLaw (K : Kernel) : AssignLaw subAssignRef sSub := ⟨subAssignRef_nil, K.subRef⟩
theorem subOwnedLaw (K : Kernel) : AssignLaw subAssignOwned sSub := ⟨subAssignOwned_nil, K.subRef⟩

theorem mem_multiRes_of {op : MOp} {xs : List (Except ε Spec.Set)} {r : Except ε Spec.Set}
    (hok : firstError xs = none → r = .ok (Spec.multi op (okValues xs)))
    (herr0 : ∀ e t, xs = Except.error e :: t → r = .error e)
    (herr : ∀ e, firstError xs = some e → r = .error e ∨ ((op = .and ∨ op = .sub) ∧ r = .ok []))
    : r ∈ Spec.multiRes op xs := by
  unfold Spec.multiRes
  cases hfe : firstError xs with
  | none => simp [hok hfe]
  | some e =>
    simp only
    cases op with
    | or => rcases herr e hfe with h | ⟨h, _⟩ <;> simp_all
    | xor => rcases herr e hfe with h | ⟨h, _⟩ <;> simp_all
    | and =>
      match xs, hfe, herr0, herr with
      | [], hfe, _, _ => simp [firstError] at hfe
      | .error e' :: t, hfe, herr0, _ =>
        simp only [firstError, Option.some.injEq] at hfe
        subst hfe
        simp [herr0 e' t rfl]
      | .ok a :: t, hfe, _, herr =>
        rcases herr e hfe with h | ⟨_, h⟩ <;> simp [h]
    | sub =>
      match xs, hfe, herr0, herr with
      | [], hfe, _, _ => simp [firstError] at hfe
      | .error e' :: t, hfe, herr0, _ =>
        simp only [firstError, Option.some.injEq] at hfe
        subst hfe
        simp [herr0 e' t rfl]
      | .ok a :: t, hfe, _, herr =>
        rcases herr e hfe with h | ⟨_, h⟩ <;> simp [h]


end Roaring.Multi
