import RoaringModel.Lemmas.Dir
import RoaringModel.Lemmas.SpecFacts
/-!
# The `RoaringBitmap` mutators refine the set operations (inherent.rs)
-/
namespace Roaring
namespace Bitmap

theorem split_lt (v : Nat) (hv : v < 4294967296) : hi16 v < 65536 ∧ lo16 v < 65536 := by
  unfold hi16 lo16; omega

theorem join_split (v : Nat) : hi16 v * 65536 + lo16 v = v := by unfold hi16 lo16; omega

/-- from "chunk `key` became `L`, all others unchanged" to membership in the abstraction -/
theorem mem_of_chunk_update (b b' : Bitmap) (hb : b.Dir) (hb' : b'.Dir) (key : Nat) (L : List Nat)
    (h : ∀ k, chunk b' k = if k = key then L else chunk b k) (y : Nat) :
    y ∈ elems b' ↔ (y / 65536 = key ∧ y % 65536 ∈ L) ∨ (y / 65536 ≠ key ∧ y ∈ elems b) := by
  rw [mem_elems b' hb', mem_elems b hb, h]
  by_cases hk : y / 65536 = key
  · rw [if_pos hk]; simp [hk]
  · rw [if_neg hk]; simp [hk]

/-! ### insert -/
theorem insert_eq_upsert (b : Bitmap) (v : Nat) :
    insert b v = upsert (hi16 v) (fun c => c.insert (lo16 v)) b := by
  unfold insert
  exact findModify_eq_upsert b (hi16 v) _ false

theorem insert_spec (b : Bitmap) (h : b.WF) (v : Nat) (hv : v < 4294967296) :
    (insert b v).1.WF ∧ elems (insert b v).1 = (Spec.insert (elems b) v).1 ∧
    (insert b v).2 = (Spec.insert (elems b) v).2 := by
  obtain ⟨hk, hl⟩ := split_lt v hv
  have hdir := h.dir
  rw [insert_eq_upsert]
  obtain ⟨c0, k0, cn0, e0, r0, d0, ch0, m0⟩ :=
    upsert_spec (hi16 v) hk (fun c => c.insert (lo16 v))
      (fun c hck hc => ⟨hck ▸ (Container.insert_spec c hc _ hl).1, (Container.insert_spec c hc _ hl).2.1⟩) b hdir
  obtain ⟨_, i2, i3, i4⟩ := Container.insert_spec c0 cn0 (lo16 v) hl
  have hmem : ∀ y, y ∈ elems (upsert (hi16 v) (fun c => c.insert (lo16 v)) b).1 ↔ y = v ∨ y ∈ elems b := by
    intro y
    rw [mem_of_chunk_update b _ hdir d0 (hi16 v) _ ch0 y]
    simp only [i3, e0]
    rw [mem_elems b hdir]
    have := join_split v
    unfold hi16 lo16 at *
    constructor
    · rintro (⟨h1, h2 | h2⟩ | ⟨h1, h2⟩)
      · left; omega
      · right; rw [h1]; exact h2
      · right; exact h2
    · rintro (h1 | h2)
      · left; subst h1; exact ⟨rfl, Or.inl rfl⟩
      · by_cases hc : y / 65536 = v / 65536
        · left; exact ⟨hc, Or.inr (hc ▸ h2)⟩
        · right; exact ⟨hc, h2⟩
  refine ⟨?_, ?_, ?_⟩
  · apply wf_of_dir _ d0
    intro d hd
    rcases m0 d hd with hd' | hd'
    · rw [hd']
      intro hc
      have := (i3 (lo16 v)).mpr (Or.inl rfl)
      rw [hc] at this; simp at this
    · exact h.ne d hd'
  · apply Arr.sorted_ext _ _ (sorted_elems _ d0) (Spec.sorted_insert _ (sorted_elems b hdir) v)
    intro y; rw [hmem, Spec.mem_insert]
  · rw [r0, Spec.insert_ret]
    simp only [i4, e0]
    congr 2
    rw [mem_elems b hdir]
    have := join_split v
    unfold hi16 lo16 at *
    exact propext Iff.rfl

/-! ### pointwise transformation of the chunks, dropping the ones that became empty -/

def mapDrop (f : Container → Container) (b : Bitmap) : Bitmap := (b.map f).filter (fun c => !c.isEmpty)

theorem mem_elems_iff_exists (b : Bitmap) (y : Nat) : y ∈ elems b ↔ ∃ c ∈ b, y ∈ c.elems := by
  simp [elems, List.mem_flatMap]

theorem cElems_nil_of_isEmpty (c : Container) (hc : c.store.Inv) (h : c.isEmpty = true) : c.elems = [] := by
  have := Store.isEmpty_spec c.store hc
  unfold Container.isEmpty at h
  rw [this] at h
  simp only [Container.elems]
  rw [List.isEmpty_iff.mp h]; rfl

theorem mapDrop_spec (f : Container → Container) :
    ∀ (b : Bitmap), b.Dir → (∀ c ∈ b, (f c).key = c.key ∧ (f c).store.Canon) →
      (mapDrop f b).WF ∧ (∀ y, y ∈ elems (mapDrop f b) ↔ ∃ c ∈ b, y ∈ (f c).elems) ∧
      (∀ d ∈ mapDrop f b, ∃ c ∈ b, d.key = c.key) := by
  intro b
  induction b with
  | nil => intro _ _; simp [mapDrop, Bitmap.WF, elems]
  | cons c cs ih =>
    intro hdir hf
    obtain ⟨ih1, ih2, ih3⟩ := ih hdir.tail (fun d hd => hf d (List.mem_cons_of_mem _ hd))
    obtain ⟨fk, fc⟩ := hf c (List.mem_cons_self ..)
    have hck := (hdir.2 c (List.mem_cons_self ..)).1
    have hlt := hdir.head_lt
    have e : mapDrop f (c :: cs) = if (f c).isEmpty then mapDrop f cs else f c :: mapDrop f cs := by
      simp only [mapDrop, List.map_cons, List.filter_cons]
      cases (f c).isEmpty <;> simp
    rw [e]
    by_cases hem : (f c).isEmpty = true
    · rw [if_pos hem]
      refine ⟨ih1, ?_, ?_⟩
      · intro y; rw [ih2 y]
        have hnil := cElems_nil_of_isEmpty (f c) (Store.canon_inv _ fc) hem
        constructor
        · rintro ⟨d, hd, hy⟩; exact ⟨d, List.mem_cons_of_mem _ hd, hy⟩
        · rintro ⟨d, hd, hy⟩
          rcases List.mem_cons.mp hd with h | h
          · subst h; rw [hnil] at hy; simp at hy
          · exact ⟨d, h, hy⟩
      · intro d hd; obtain ⟨c', hc', hk⟩ := ih3 d hd; exact ⟨c', List.mem_cons_of_mem _ hc', hk⟩
    · rw [if_neg hem]
      have hne : (f c).store.elems ≠ [] := by
        intro hc
        apply hem
        unfold Container.isEmpty
        rw [Store.isEmpty_spec _ (Store.canon_inv _ fc), hc]; rfl
      refine ⟨?_, ?_, ?_⟩
      · apply wf_of_dir
        · apply Dir.cons ih1.dir (by rw [fk]; exact hck) fc
          intro d hd
          obtain ⟨c', hc', hk⟩ := ih3 d hd
          rw [fk, hk]; exact hlt c' hc'
        · intro d hd
          rcases List.mem_cons.mp hd with h | h
          · rw [h]; exact hne
          · exact ih1.ne d h
      · intro y
        simp only [elems, List.flatMap_cons, List.mem_append]
        have := ih2 y
        simp only [elems] at this
        rw [this]
        constructor
        · rintro (hy | ⟨d, hd, hy⟩)
          · exact ⟨c, List.mem_cons_self .., hy⟩
          · exact ⟨d, List.mem_cons_of_mem _ hd, hy⟩
        · rintro ⟨d, hd, hy⟩
          rcases List.mem_cons.mp hd with h | h
          · subst h; exact Or.inl hy
          · exact Or.inr ⟨d, h, hy⟩
      · intro d hd
        rcases List.mem_cons.mp hd with h | h
        · exact ⟨c, List.mem_cons_self .., by rw [h, fk]⟩
        · obtain ⟨c', hc', hk⟩ := ih3 d h; exact ⟨c', List.mem_cons_of_mem _ hc', hk⟩

theorem mapDrop_id (f : Container → Container) (b : Bitmap) (hne : ∀ c ∈ b, c.isEmpty = false)
    (hf : ∀ c ∈ b, f c = c) : mapDrop f b = b := by
  induction b with
  | nil => rfl
  | cons c cs ih =>
    have h1 := hf c (List.mem_cons_self ..)
    have h2 := hne c (List.mem_cons_self ..)
    simp only [mapDrop, List.map_cons, List.filter_cons, h1, h2]
    simp only [Bool.not_false, if_true]
    congr 1
    exact ih (fun d hd => hne d (List.mem_cons_of_mem _ hd)) (fun d hd => hf d (List.mem_cons_of_mem _ hd))

theorem WF.isEmpty_false {b : Bitmap} (h : b.WF) : ∀ c ∈ b, c.isEmpty = false := by
  intro c hc
  have hcan := (h.dir.2 c hc).2
  have := h.ne c hc
  unfold Container.isEmpty
  rw [Store.isEmpty_spec _ (Store.canon_inv _ hcan)]
  cases hl : c.store.elems with
  | nil => exact absurd hl this
  | cons a l => rfl

/-! ### remove -/
theorem remove_eq_mapDrop (v : Nat) : ∀ (b : Bitmap), b.WF →
    (remove b v).1 = mapDrop (fun c => if c.key = hi16 v then (c.remove (lo16 v)).1 else c) b := by
  intro b
  induction b with
  | nil => intro _; simp [remove, search_nil, mapDrop]
  | cons c cs ih =>
    intro hwf
    have hdir := hwf.dir
    have hwf' : Bitmap.WF cs := wf_of_dir _ hdir.tail (fun d hd => hwf.ne d (List.mem_cons_of_mem _ hd))
    have hlt := hdir.head_lt
    have hne := hwf.isEmpty_false
    have e : ∀ f, mapDrop f (c :: cs) = if (f c).isEmpty then mapDrop f cs else f c :: mapDrop f cs := by
      intro f
      simp only [mapDrop, List.map_cons, List.filter_cons]
      cases (f c).isEmpty <;> simp
    rw [e]
    unfold remove
    rw [search_cons]
    by_cases h1 : c.key < hi16 v
    · have hk : ¬ c.key = hi16 v := by omega
      simp only [h1, if_true, hk, if_false, hne c (List.mem_cons_self ..)]
      have ih' := ih hwf'
      unfold remove at ih'
      rw [← ih']
      cases hs : search cs (hi16 v) with
      | mk f loc =>
        cases f with
        | false => simp
        | true =>
          simp only [List.getElem?_cons_succ]
          cases hcl : cs[loc]? with
          | none => simp
          | some d =>
            simp only []
            by_cases hr : (d.remove (lo16 v)).2 = true
            · by_cases hr2 : (d.remove (lo16 v)).1.isEmpty = true
              · simp [hr, hr2]
              · simp [hr, hr2]
            · simp [hr]
    · simp only [h1, if_false]
      by_cases h2 : c.key = hi16 v
      · have h2' : (c.key == hi16 v) = true := by simp [h2]
        have hid : mapDrop (fun c => if c.key = hi16 v then (c.remove (lo16 v)).1 else c) cs = cs := by
          apply mapDrop_id _ _ (fun d hd => hne d (List.mem_cons_of_mem _ hd))
          intro d hd; have := hlt d hd; rw [if_neg (by omega)]
        rw [hid]
        simp only [h2', h2, if_true, List.getElem?_cons_zero]
        by_cases hr : (c.remove (lo16 v)).2 = true
        · by_cases hr2 : (c.remove (lo16 v)).1.isEmpty = true
          · simp [hr, hr2]
          · simp [hr, hr2]
        · -- nothing removed: the container keeps its (non-empty) contents
          have hcan := (hdir.2 c (List.mem_cons_self ..)).2
          have hl : lo16 v < 65536 := by unfold lo16; omega
          obtain ⟨_, r2, r3, r4⟩ := Container.remove_spec c hcan (lo16 v) hl
          have hr' : (c.remove (lo16 v)).2 = false := by simpa using hr
          have hnm : lo16 v ∉ c.store.elems := by rw [r4] at hr'; simpa using hr'
          have hne2 : (c.remove (lo16 v)).1.isEmpty = false := by
            unfold Container.isEmpty
            rw [Store.isEmpty_spec _ (Store.canon_inv _ r2)]
            have hcne := hwf.ne c (List.mem_cons_self ..)
            cases hl2 : c.store.elems with
            | nil => exact absurd hl2 hcne
            | cons a l =>
              have : a ∈ (c.remove (lo16 v)).1.store.elems := by
                rw [r3]; rw [hl2] at hnm ⊢
                exact ⟨List.mem_cons_self .., fun hc => hnm (hc ▸ List.mem_cons_self ..)⟩
              cases hl3 : (c.remove (lo16 v)).1.store.elems with
              | nil => rw [hl3] at this; simp at this
              | cons _ _ => rfl
          simp [hr, hne2]
      · have h2' : (c.key == hi16 v) = false := by simp [h2]
        have hid : mapDrop (fun c => if c.key = hi16 v then (c.remove (lo16 v)).1 else c) cs = cs := by
          apply mapDrop_id _ _ (fun d hd => hne d (List.mem_cons_of_mem _ hd))
          intro d hd; have := hlt d hd; rw [if_neg (by omega)]
        rw [hid]
        simp [h2', h2, hne c (List.mem_cons_self ..)]

theorem remove_cons_lt (c : Container) (cs : Bitmap) (v : Nat) (h1 : c.key < hi16 v) :
    remove (c :: cs) v = (c :: (remove cs v).1, (remove cs v).2) := by
  unfold remove
  rw [search_cons]
  simp only [h1, if_true]
  cases hs : search cs (hi16 v) with
  | mk f loc =>
    cases f with
    | false => simp
    | true =>
      simp only [List.getElem?_cons_succ]
      cases hcl : cs[loc]? with
      | none => simp
      | some d =>
        simp only []
        by_cases hr : (d.remove (lo16 v)).2 = true
        · by_cases hr2 : (d.remove (lo16 v)).1.isEmpty = true
          · simp [hr, hr2]
          · simp [hr, hr2]
        · simp [hr]

theorem remove_cons_eq (c : Container) (cs : Bitmap) (v : Nat) (h2 : c.key = hi16 v) :
    (remove (c :: cs) v).2 = (c.remove (lo16 v)).2 := by
  unfold remove
  rw [search_cons]
  have h1 : ¬ c.key < hi16 v := by omega
  have h2' : (c.key == hi16 v) = true := by simp [h2]
  simp only [h1, if_false, h2', List.getElem?_cons_zero]
  by_cases hr : (c.remove (lo16 v)).2 = true
  · by_cases hr2 : (c.remove (lo16 v)).1.isEmpty = true
    · simp [hr, hr2]
    · simp [hr, hr2]
  · simp [hr]

theorem remove_cons_gt (c : Container) (cs : Bitmap) (v : Nat) (h3 : hi16 v < c.key) :
    (remove (c :: cs) v).2 = false := by
  unfold remove
  rw [search_cons]
  have h1 : ¬ c.key < hi16 v := by omega
  have h2' : (c.key == hi16 v) = false := by simp; omega
  simp [h1, h2']

theorem chunk_cons_eq (c : Container) (cs : Bitmap) (k : Nat) (h : c.key = k) :
    chunk (c :: cs) k = c.store.elems := by simp [chunk, h]
theorem chunk_cons_ne (c : Container) (cs : Bitmap) (k : Nat) (h : c.key ≠ k) :
    chunk (c :: cs) k = chunk cs k := by simp [chunk, h]

theorem remove_ret (v : Nat) : ∀ (b : Bitmap), b.Dir →
    ((remove b v).2 = true ↔ lo16 v ∈ chunk b (hi16 v)) := by
  intro b
  induction b with
  | nil => intro _; simp [remove, search_nil, chunk]
  | cons c cs ih =>
    intro hdir
    have hcan := (hdir.2 c (List.mem_cons_self ..)).2
    have hl : lo16 v < 65536 := by unfold lo16; omega
    by_cases h1 : c.key < hi16 v
    · rw [remove_cons_lt c cs v h1, chunk_cons_ne c cs _ (by omega)]
      exact ih hdir.tail
    · by_cases h2 : c.key = hi16 v
      · rw [remove_cons_eq c cs v h2, chunk_cons_eq c cs _ h2,
          (Container.remove_spec c hcan (lo16 v) hl).2.2.2]
        simp
      · rw [remove_cons_gt c cs v (by omega)]
        have : chunk (c :: cs) (hi16 v) = [] :=
          chunk_nil_of_lt (fun d hd => by
            rcases List.mem_cons.mp hd with h | h
            · rw [h]; omega
            · have := hdir.head_lt d h; omega)
        rw [this]; simp

theorem remove_spec (b : Bitmap) (h : b.WF) (v : Nat) :
    (remove b v).1.WF ∧ elems (remove b v).1 = (Spec.remove (elems b) v).1 ∧
    (remove b v).2 = (Spec.remove (elems b) v).2 := by
  have hdir := h.dir
  have hl : lo16 v < 65536 := by unfold lo16; omega
  have hjs := join_split v
  rw [remove_eq_mapDrop v b h]
  have hf : ∀ c ∈ b, ((fun c : Container => if c.key = hi16 v then (c.remove (lo16 v)).1 else c) c).key = c.key ∧
      ((fun c : Container => if c.key = hi16 v then (c.remove (lo16 v)).1 else c) c).store.Canon := by
    intro c hc
    have hcan := (hdir.2 c hc).2
    simp only []
    split
    · exact ⟨(Container.remove_spec c hcan _ hl).1, (Container.remove_spec c hcan _ hl).2.1⟩
    · exact ⟨rfl, hcan⟩
  obtain ⟨m1, m2, _⟩ := mapDrop_spec _ b hdir hf
  refine ⟨m1, ?_, ?_⟩
  · apply Arr.sorted_ext _ _ (sorted_elems _ m1.dir) (Spec.sorted_remove _ (sorted_elems b hdir) v)
    intro y
    rw [m2 y, Spec.mem_remove, mem_elems_iff_exists]
    constructor
    · rintro ⟨c, hc, hy⟩
      have hcan := (hdir.2 c hc).2
      have hinv := Store.canon_inv _ hcan
      by_cases hk : c.key = hi16 v
      · rw [if_pos hk] at hy
        obtain ⟨r1, r2, r3, _⟩ := Container.remove_spec c hcan _ hl
        rw [mem_cElems _ (Store.canon_inv _ r2), r1, r3] at hy
        refine ⟨⟨c, hc, (mem_cElems c hinv y).mpr ⟨hy.1, hy.2.1⟩⟩, ?_⟩
        intro hyv; subst hyv; exact hy.2.2 rfl
      · rw [if_neg hk] at hy
        refine ⟨⟨c, hc, hy⟩, ?_⟩
        rw [mem_cElems c hinv] at hy
        intro hyv; subst hyv; exact hk hy.1.symm
    · rintro ⟨⟨c, hc, hy⟩, hne⟩
      have hcan := (hdir.2 c hc).2
      have hinv := Store.canon_inv _ hcan
      refine ⟨c, hc, ?_⟩
      by_cases hk : c.key = hi16 v
      · rw [if_pos hk]
        obtain ⟨r1, r2, r3, _⟩ := Container.remove_spec c hcan _ hl
        rw [mem_cElems c hinv] at hy
        rw [mem_cElems _ (Store.canon_inv _ r2), r1, r3]
        refine ⟨hy.1, hy.2, ?_⟩
        intro hc2
        apply hne
        unfold hi16 lo16 at *
        omega
      · rw [if_neg hk]; exact hy
  · rw [Spec.remove_ret, Bool.eq_iff_iff, remove_ret v b hdir, decide_eq_true_eq, mem_elems b hdir]
    unfold hi16 lo16 at *
    exact Iff.rfl

/-! ### remove_range -/

/-- the per-container transformation of the `remove_range` loop -/
def rrF (sk si ek ei : Nat) (c : Container) : Container :=
  if c.key ≥ sk && c.key ≤ ek then
    (c.removeRange (if c.key = sk then si else 0) (if c.key = ek then ei else 65535)).1
  else c

def rrCnt (sk si ek ei : Nat) (c : Container) : Nat :=
  if c.key ≥ sk && c.key ≤ ek then
    (c.removeRange (if c.key = sk then si else 0) (if c.key = ek then ei else 65535)).2
  else 0

theorem removeRangeLoop_eq (sk si ek ei : Nat) : ∀ (b : Bitmap), b.WF →
    removeRangeLoop sk si ek ei b = (mapDrop (rrF sk si ek ei) b, (b.map (rrCnt sk si ek ei)).sum) := by
  intro b
  induction b with
  | nil => intro _; simp [removeRangeLoop, mapDrop]
  | cons c cs ih =>
    intro hwf
    have hwf' : Bitmap.WF cs := wf_of_dir _ hwf.dir.tail (fun d hd => hwf.ne d (List.mem_cons_of_mem _ hd))
    have e : ∀ f, mapDrop f (c :: cs) = if (f c).isEmpty then mapDrop f cs else f c :: mapDrop f cs := by
      intro f
      simp only [mapDrop, List.map_cons, List.filter_cons]
      cases (f c).isEmpty <;> simp
    rw [e]
    unfold removeRangeLoop
    rw [ih hwf']
    simp only [rrF, rrCnt, List.map_cons, List.sum_cons]
    by_cases hin : (c.key ≥ sk && c.key ≤ ek) = true
    · simp only [hin, if_true]
      by_cases hem : (c.removeRange (if c.key = sk then si else 0) (if c.key = ek then ei else 65535)).1.isEmpty = true
      · simp [hem, rrF, rrCnt]
      · simp [hem, rrF, rrCnt]
    · simp only [hin]
      have := hwf.isEmpty_false c (List.mem_cons_self ..)
      simp [this, rrF, rrCnt]

def sumLen (b : Bitmap) : Nat := (b.map (fun c => c.store.elems.length)).sum

theorem length_elems (b : Bitmap) : (elems b).length = sumLen b := by
  induction b with
  | nil => rfl
  | cons c cs ih =>
    simp only [elems, List.flatMap_cons, List.length_append, sumLen, List.map_cons, List.sum_cons]
    have : (elems cs).length = sumLen cs := ih
    simp only [elems, sumLen] at this
    rw [this]; simp [Container.elems]

theorem length_elems_mapDrop (f : Container → Container) (b : Bitmap)
    (hinv : ∀ c ∈ b, (f c).store.Inv) :
    (elems (mapDrop f b)).length = (b.map (fun c => (f c).store.elems.length)).sum := by
  induction b with
  | nil => rfl
  | cons c cs ih =>
    have e : mapDrop f (c :: cs) = if (f c).isEmpty then mapDrop f cs else f c :: mapDrop f cs := by
      simp only [mapDrop, List.map_cons, List.filter_cons]
      cases (f c).isEmpty <;> simp
    rw [e]
    have ih' := ih (fun d hd => hinv d (List.mem_cons_of_mem _ hd))
    by_cases hem : (f c).isEmpty = true
    · rw [if_pos hem, ih']
      have hi := hinv c (List.mem_cons_self ..)
      have : (f c).store.elems = [] := by
        unfold Container.isEmpty at hem
        rw [Store.isEmpty_spec _ hi] at hem
        exact List.isEmpty_iff.mp hem
      simp [this]
    · rw [if_neg hem]
      simp only [elems, List.flatMap_cons, List.length_append, List.map_cons, List.sum_cons]
      have : (elems (mapDrop f cs)).length = _ := ih'
      simp only [elems] at this
      rw [this]; simp [Container.elems]

theorem sum_map_add (b : Bitmap) (f g h : Container → Nat) (H : ∀ c ∈ b, f c + g c = h c) :
    (b.map f).sum + (b.map g).sum = (b.map h).sum := by
  induction b with
  | nil => rfl
  | cons c cs ih =>
    simp only [List.map_cons, List.sum_cons]
    have h1 := H c (List.mem_cons_self ..)
    have := ih (fun d hd => H d (List.mem_cons_of_mem _ hd))
    omega

theorem filter_split (l : List Nat) (p : Nat → Bool) :
    (l.filter p).length + (l.filter (fun x => !p x)).length = l.length := by
  induction l with
  | nil => rfl
  | cons a l ih => simp only [List.filter_cons]; cases p a <;> simp <;> omega

theorem Spec_removeIv_count (s : List Nat) (a b : Nat) :
    (Spec.removeIv s a b).2 + (Spec.removeIv s a b).1.length = s.length := by
  simp only [Spec.removeIv]
  have : (fun x => decide (x < a) || decide (b < x)) = (fun x => !(decide (a ≤ x) && decide (x ≤ b))) := by
    funext x; by_cases h1 : a ≤ x <;> by_cases h2 : x ≤ b <;> simp [h1, h2] <;> omega
  rw [this]; exact filter_split _ _

/-- `remove_range` on one container, with the bounds the bitmap-level loop passes for key `c.key` -/
theorem rr_container (c : Container) (hcan : c.store.Canon) (hk : c.key < 65536) (st en : Nat) (hse : st ≤ en)
    (hen : en < 4294967296) :
    (rrF (hi16 st) (lo16 st) (hi16 en) (lo16 en) c).key = c.key ∧
    (rrF (hi16 st) (lo16 st) (hi16 en) (lo16 en) c).store.Canon ∧
    (∀ x, x ∈ (rrF (hi16 st) (lo16 st) (hi16 en) (lo16 en) c).store.elems ↔
      x ∈ c.store.elems ∧ ¬ (st ≤ c.key * 65536 + x ∧ c.key * 65536 + x ≤ en)) ∧
    rrCnt (hi16 st) (lo16 st) (hi16 en) (lo16 en) c +
      (rrF (hi16 st) (lo16 st) (hi16 en) (lo16 en) c).store.elems.length = c.store.elems.length := by
  have hinv := Store.canon_inv _ hcan
  have hlt := Store.elems_lt _ hinv
  unfold rrF rrCnt
  by_cases hin : (c.key ≥ hi16 st && c.key ≤ hi16 en) = true
  · simp only [hin, if_true]
    have hin' : hi16 st ≤ c.key ∧ c.key ≤ hi16 en := by simpa using hin
    -- the bounds passed to the container
    obtain ⟨a, ha⟩ : ∃ a, a = (if c.key = hi16 st then lo16 st else 0) := ⟨_, rfl⟩
    obtain ⟨z, hz⟩ : ∃ z, z = (if c.key = hi16 en then lo16 en else 65535) := ⟨_, rfl⟩
    rw [← ha, ← hz]
    have hrange : a ≤ z ∧ z < 65536 ∧
        ∀ x, x < 65536 → ((a ≤ x ∧ x ≤ z) ↔ (st ≤ c.key * 65536 + x ∧ c.key * 65536 + x ≤ en)) := by
      unfold hi16 lo16 at *
      by_cases k1 : c.key = st / 65536
      · rw [if_pos k1] at ha
        by_cases k2 : c.key = en / 65536
        · rw [if_pos k2] at hz; subst ha; subst hz
          exact ⟨by omega, by omega, fun x hx => by omega⟩
        · rw [if_neg k2] at hz; subst ha; subst hz
          exact ⟨by omega, by omega, fun x hx => by omega⟩
      · rw [if_neg k1] at ha
        by_cases k2 : c.key = en / 65536
        · rw [if_pos k2] at hz; subst ha; subst hz
          exact ⟨by omega, by omega, fun x hx => by omega⟩
        · rw [if_neg k2] at hz; subst ha; subst hz
          exact ⟨by omega, by omega, fun x hx => by omega⟩
    obtain ⟨r1, r2, r3, r4⟩ := Container.removeRange_spec c hinv a z hrange.1 hrange.2.1
    refine ⟨r1, r2, ?_, ?_⟩
    · intro x; rw [r3]
      constructor
      · rintro ⟨hx, hn⟩; exact ⟨hx, fun hc => hn ((hrange.2.2 x (hlt x hx)).mpr hc)⟩
      · rintro ⟨hx, hn⟩; exact ⟨hx, fun hc => hn ((hrange.2.2 x (hlt x hx)).mp hc)⟩
    · rw [r4]
      have hrem : (c.removeRange a z).1.store.elems =
          c.store.elems.filter (fun x => !(decide (a ≤ x) && decide (x ≤ z))) := by
        apply Arr.sorted_ext _ _ (Store.sorted_elems _ (Store.canon_inv _ r2))
          (Spec.sorted_filter _ (Store.sorted_elems _ hinv) _)
        intro x; rw [r3]; simp only [List.mem_filter, Bool.not_eq_true', Bool.and_eq_false_imp,
          decide_eq_true_eq, decide_eq_false_iff_not]
        constructor
        · rintro ⟨hx, hn⟩; exact ⟨hx, fun h1 h2 => hn ⟨h1, h2⟩⟩
        · rintro ⟨hx, hn⟩; exact ⟨hx, fun hc => hn hc.1 hc.2⟩
      rw [hrem]
      show Store.countIn c.store.elems a z + _ = _
      exact filter_split _ _
  · simp only [hin]
    have hin' : ¬ (hi16 st ≤ c.key ∧ c.key ≤ hi16 en) := by simpa using hin
    refine ⟨rfl, hcan, ?_, by simp⟩
    intro x
    constructor
    · intro hx
      refine ⟨hx, fun hc => hin' ?_⟩
      have := hlt x hx
      unfold hi16 at *; omega
    · intro hx; exact hx.1

theorem removeRange_spec (b : Bitmap) (h : b.WF) (lo hi : Bound)
    (hlo : Bound.le u32Max lo) (hhi : Bound.le u32Max hi) :
    (removeRange b lo hi).1.WF ∧ elems (removeRange b lo hi).1 = (Spec.removeRange u32Max (elems b) lo hi).1 ∧
    (removeRange b lo hi).2 = (Spec.removeRange u32Max (elems b) lo hi).2 := by
  have hdir := h.dir
  unfold removeRange Spec.removeRange
  cases hc : convertRange u32Max lo hi with
  | error e =>
    rw [convertRange_error u32Max lo hi hlo hhi e hc]
    exact ⟨h, rfl, rfl⟩
  | ok r =>
    obtain ⟨st, en⟩ := r
    rw [convertRange_ok u32Max lo hi hlo hhi st en hc]
    obtain ⟨hse, hen, _⟩ := Spec.interval_some u32Max lo hi st en (convertRange_ok u32Max lo hi hlo hhi st en hc)
    simp only []
    rw [removeRangeLoop_eq _ _ _ _ b h]
    -- per-container facts
    have hen' : en < 4294967296 := by unfold u32Max at hen; omega
    have hst' : st < 4294967296 := by omega
    have hcf := fun c (hcb : c ∈ b) =>
      rr_container c (hdir.2 c hcb).2 (hdir.2 c hcb).1 st en hse hen'
    obtain ⟨m1, m2, _⟩ := mapDrop_spec _ b hdir (fun c hcb => ⟨(hcf c hcb).1, (hcf c hcb).2.1⟩)
    have helems : elems (mapDrop (rrF (hi16 st) (lo16 st) (hi16 en) (lo16 en)) b) =
        (Spec.removeIv (elems b) st en).1 := by
      apply Arr.sorted_ext _ _ (sorted_elems _ m1.dir) (Spec.sorted_removeIv _ (sorted_elems b hdir) _ _)
      intro y
      rw [m2 y, Spec.mem_removeIv, mem_elems_iff_exists]
      constructor
      · rintro ⟨c, hcb, hy⟩
        obtain ⟨f1, f2, f3, _⟩ := hcf c hcb
        have hinv := Store.canon_inv _ (hdir.2 c hcb).2
        rw [mem_cElems _ (Store.canon_inv _ f2), f1, f3] at hy
        refine ⟨⟨c, hcb, (mem_cElems c hinv y).mpr ⟨hy.1, hy.2.1⟩⟩, ?_⟩
        intro hc; apply hy.2.2
        have : c.key * 65536 + y % 65536 = y := by omega
        rw [this]; exact hc
      · rintro ⟨⟨c, hcb, hy⟩, hn⟩
        obtain ⟨f1, f2, f3, _⟩ := hcf c hcb
        have hinv := Store.canon_inv _ (hdir.2 c hcb).2
        rw [mem_cElems c hinv] at hy
        refine ⟨c, hcb, ?_⟩
        rw [mem_cElems _ (Store.canon_inv _ f2), f1, f3]
        refine ⟨hy.1, hy.2, ?_⟩
        have : c.key * 65536 + y % 65536 = y := by omega
        rw [this]; exact hn
    refine ⟨m1, helems, ?_⟩
    -- the count: Σ removed = |before| - |after|
    have hsum : (b.map (rrCnt (hi16 st) (lo16 st) (hi16 en) (lo16 en))).sum +
        (elems (mapDrop (rrF (hi16 st) (lo16 st) (hi16 en) (lo16 en)) b)).length = (elems b).length := by
      rw [length_elems_mapDrop _ b (fun c hcb => Store.canon_inv _ (hcf c hcb).2.1), length_elems, sumLen]
      exact sum_map_add b _ _ _ (fun c hcb => (hcf c hcb).2.2.2)
    have hspec := Spec_removeIv_count (elems b) st en
    rw [helems] at hsum
    show (b.map (rrCnt (hi16 st) (lo16 st) (hi16 en) (lo16 en))).sum = (Spec.removeIv (elems b) st en).2
    omega

end Bitmap
end Roaring
