import RoaringModel.Lemmas.Dir
import RoaringModel.Lemmas.SpecFacts
/-!
# The `RoaringBitmap` mutators refine the set operations (inherent.rs)
-/
namespace Roaring
namespace Bitmap

theorem split_lt (v : Nat) (hv : v < 4294967296) : hi16 v < 65536 ∧ lo16 v < 65536 := by
  unfold hi16 lo16; omega

theorem join_split (v : Nat) : hi16 v * 65536 + lo16 v = v := by unfold hi16 lo16; omega

/-- from "chunk `key` became `L`, all others unchanged" to membership in the abstraction -/
theorem mem_of_chunk_update (b b' : Bitmap) (hb : b.Dir) (hb' : b'.Dir) (key : Nat) (L : List Nat)
    (h : ∀ k, chunk b' k = if k = key then L else chunk b k) (y : Nat) :
    y ∈ elems b' ↔ (y / 65536 = key ∧ y % 65536 ∈ L) ∨ (y / 65536 ≠ key ∧ y ∈ elems b) := by
  rw [mem_elems b' hb', mem_elems b hb, h]
  by_cases hk : y / 65536 = key
  · rw [if_pos hk]; simp [hk]
  · rw [if_neg hk]; simp [hk]

/-! ### insert -/
theorem insert_eq_upsert (b : Bitmap) (v : Nat) :
    insert b v = upsert (hi16 v) (fun c => c.insert (lo16 v)) b := by
  unfold insert
  exact findModify_eq_upsert b (hi16 v) _ false

theorem insert_spec (b : Bitmap) (h : b.WF) (v : Nat) (hv : v < 4294967296) :
    (insert b v).1.WF ∧ elems (insert b v).1 = (Spec.insert (elems b) v).1 ∧
    (insert b v).2 = (Spec.insert (elems b) v).2 := by
  obtain ⟨hk, hl⟩ := split_lt v hv
  have hdir := h.dir
  rw [insert_eq_upsert]
  obtain ⟨c0, k0, cn0, e0, r0, d0, ch0, m0⟩ :=
    upsert_spec (hi16 v) hk (fun c => c.insert (lo16 v))
      (fun c hck hc => ⟨hck ▸ (Container.insert_spec c hc _ hl).1, (Container.insert_spec c hc _ hl).2.1⟩) b hdir
  obtain ⟨_, i2, i3, i4⟩ := Container.insert_spec c0 cn0 (lo16 v) hl
  have hmem : ∀ y, y ∈ elems (upsert (hi16 v) (fun c => c.insert (lo16 v)) b).1 ↔ y = v ∨ y ∈ elems b := by
    intro y
    rw [mem_of_chunk_update b _ hdir d0 (hi16 v) _ ch0 y]
    simp only [i3, e0]
    rw [mem_elems b hdir]
    have := join_split v
    unfold hi16 lo16 at *
    constructor
    · rintro (⟨h1, h2 | h2⟩ | ⟨h1, h2⟩)
      · left; omega
      · right; rw [h1]; exact h2
      · right; exact h2
    · rintro (h1 | h2)
      · left; subst h1; exact ⟨rfl, Or.inl rfl⟩
      · by_cases hc : y / 65536 = v / 65536
        · left; exact ⟨hc, Or.inr (hc ▸ h2)⟩
        · right; exact ⟨hc, h2⟩
  refine ⟨?_, ?_, ?_⟩
  · apply wf_of_dir _ d0
    intro d hd
    rcases m0 d hd with hd' | hd'
    · rw [hd']
      intro hc
      have := (i3 (lo16 v)).mpr (Or.inl rfl)
      rw [hc] at this; simp at this
    · exact h.ne d hd'
  · apply Arr.sorted_ext _ _ (sorted_elems _ d0) (Spec.sorted_insert _ (sorted_elems b hdir) v)
    intro y; rw [hmem, Spec.mem_insert]
  · rw [r0, Spec.insert_ret]
    simp only [i4, e0]
    congr 2
    rw [mem_elems b hdir]
    have := join_split v
    unfold hi16 lo16 at *
    exact propext Iff.rfl

end Bitmap
end Roaring
