import RoaringModel.Lemmas.TreemapDir
/-!
# `Kernel32`: the 32-bit refinement facts the treemap theorems (C10) are lifted from, as *named
  hypotheses* (never axioms).  The coordinator proves them for the 32-bit core (C01 / C07) and discharges
  the bundle at merge.  Plus the two "update one partition" lemmas every C10 mutator proof goes through.
-/
namespace Roaring
open TL

/-- 32-bit facts about `RoaringBitmap` (model `Bitmap.*`) assumed by the `C10_*_partial` theorems -/
structure Kernel32 where
  /-- the 32-bit well-formedness invariant (`Bitmap.WF` of DESIGN §4) -/
  WF : Bitmap → Prop
  new_WF : WF Bitmap.new
  elems_sorted : ∀ b, WF b → Sorted (Bitmap.elems b)
  elems_lt : ∀ b, WF b → ∀ x ∈ Bitmap.elems b, x < 4294967296
  isEmpty_spec : ∀ b, WF b → (Bitmap.isEmpty b = true ↔ Bitmap.elems b = [])
  insert_spec : ∀ b v, WF b → v < 4294967296 →
    WF (Bitmap.insert b v).1 ∧ Bitmap.elems (Bitmap.insert b v).1 = (Spec.insert (Bitmap.elems b) v).1 ∧
      (Bitmap.insert b v).2 = (Spec.insert (Bitmap.elems b) v).2
  remove_spec : ∀ b v, WF b → v < 4294967296 →
    WF (Bitmap.remove b v).1 ∧ Bitmap.elems (Bitmap.remove b v).1 = (Spec.remove (Bitmap.elems b) v).1 ∧
      (Bitmap.remove b v).2 = (Spec.remove (Bitmap.elems b) v).2
  insertRange_spec : ∀ b s e, WF b → s ≤ e → e < 4294967296 →
    WF (Bitmap.insertRange b (.incl s) (.incl e)).1 ∧
      Bitmap.elems (Bitmap.insertRange b (.incl s) (.incl e)).1 = (Spec.insertIv (Bitmap.elems b) s e).1 ∧
      (Bitmap.insertRange b (.incl s) (.incl e)).2 = (Spec.insertIv (Bitmap.elems b) s e).2
  removeRange_spec : ∀ b s e, WF b → s ≤ e → e < 4294967296 →
    WF (Bitmap.removeRange b (.incl s) (.incl e)).1 ∧
      Bitmap.elems (Bitmap.removeRange b (.incl s) (.incl e)).1 = (Spec.removeIv (Bitmap.elems b) s e).1 ∧
      (Bitmap.removeRange b (.incl s) (.incl e)).2 = (Spec.removeIv (Bitmap.elems b) s e).2
  push_spec : ∀ b v, WF b → v < 4294967296 →
    WF (Bitmap.push b v).1 ∧ Bitmap.elems (Bitmap.push b v).1 = (Spec.push (Bitmap.elems b) v).1 ∧
      (Bitmap.push b v).2 = (Spec.push (Bitmap.elems b) v).2
  /-- `push_unchecked` of a value above the maximum appends it (no debug assertion fires) -/
  pushUnchecked_spec : ∀ dbg b v, WF b → v < 4294967296 → (∀ x ∈ Bitmap.elems b, x < v) →
    ∃ b', Bitmap.pushUnchecked dbg b v = some b' ∧ WF b' ∧ Bitmap.elems b' = Bitmap.elems b ++ [v]
  contains_spec : ∀ b v, WF b → v < 4294967296 → Bitmap.contains b v = Spec.contains (Bitmap.elems b) v
  len_spec : ∀ b, WF b → Bitmap.len b = (Bitmap.elems b).length
  min_spec : ∀ b, WF b → Bitmap.min? b = Spec.min? (Bitmap.elems b)
  max_spec : ∀ b, WF b → Bitmap.max? b = Spec.max? (Bitmap.elems b)
  rank_spec : ∀ b v, WF b → v < 4294967296 → Bitmap.rank b v = Spec.rank (Bitmap.elems b) v
  select_spec : ∀ b n, WF b → n < 4294967296 → Bitmap.select b n = Spec.select (Bitmap.elems b) n
  /-- `RoaringBitmap::full()` -/
  full_spec : WF Treemap.fullBitmap ∧ Bitmap.elems Treemap.fullBitmap = List.range' 0 4294967296

namespace Treemap

/-- `Treemap.WF` of DESIGN §4, relative to the 32-bit invariant of `K` -/
abbrev WF (K : Kernel32) (t : Treemap) : Prop := WFd K.WF t

variable (K : Kernel32)

theorem kE : Elems32 K.WF := ⟨K.elems_sorted, K.elems_lt⟩

theorem wf_getD {t : Treemap} (h : WF K t) (k : Nat) : K.WF ((get t k).getD Bitmap.new) := by
  cases hg : get t k with
  | none => exact K.new_WF
  | some b => exact (h.get hg).2.1

/-- membership through `entry(k).or_default()` -/
theorem mem_elems_getD {t : Treemap} (h : WF K t) (x : Nat) :
    x ∈ elems t ↔ x % P32 ∈ Bitmap.elems ((get t (x / P32)).getD Bitmap.new) := by
  rw [mem_elems (kE K) h]
  cases hg : get t (x / P32) with
  | none => simp [Bitmap.new, Bitmap.elems]
  | some b => simp

/-- replacing (or creating) partition `k` by a non-empty well-formed bitmap -/
theorem insertKV_spec {t : Treemap} (h : WF K t) {k : Nat} {b : Bitmap} (hk : k < P32) (hb : K.WF b)
    (hne : Bitmap.elems b ≠ []) :
    WF K (insertKV t k b) ∧
    ∀ x, x ∈ elems (insertKV t k b) ↔ if x / P32 = k then x % P32 ∈ Bitmap.elems b else x ∈ elems t := by
  have hw : WF K (insertKV t k b) := by
    refine ⟨keysSorted_insertKV k b h.sorted, ?_⟩
    intro p hp
    rcases mem_insertKV hp with rfl | hp
    · exact ⟨hk, hb, hne⟩
    · exact h.parts p hp
  refine ⟨hw, ?_⟩
  intro x
  rw [mem_elems_getD K hw, get_insertKV]
  by_cases hx : x / P32 = k
  · simp [hx]
  · simp only [hx, ↓reduceIte]
    exact (mem_elems_getD K h x).symm

/-- dropping partition `k` -/
theorem removeK_spec {t : Treemap} (h : WF K t) (k : Nat) :
    WF K (removeK t k) ∧ ∀ x, x ∈ elems (removeK t k) ↔ x / P32 ≠ k ∧ x ∈ elems t := by
  have hw : WF K (removeK t k) :=
    ⟨keysSorted_removeK k h.sorted, fun p hp => h.parts p (mem_removeK hp).1⟩
  refine ⟨hw, ?_⟩
  intro x
  rw [mem_elems_getD K hw, get_removeK]
  by_cases hx : x / P32 = k
  · simp [hx, Bitmap.new, Bitmap.elems]
  · simp only [hx, ↓reduceIte, ne_eq, not_false_eq_true, true_and]
    exact (mem_elems_getD K h x).symm

end Treemap
end Roaring
