import RoaringModel.Inv
/-!
# Word-level lemmas (Word.lean) and list-of-words helpers (`BStore.word`, `BStore.popSum`)

Everything here is about `Nat` words (mostly `< 2^64`), `testBit`, `tz`, `popLow`, `hiBit`, `popHigh`,
`popcount`, `bitPos`, `bitsOf`, `drainWord`, and about `BStore.word`/`BStore.popSum` of `List.set`.
Namespace `Roaring.Word` (the interface copies of the headline facts are restated in
`BStoreBasic.lean` under `Roaring.BStore`).
-/
namespace Roaring
namespace Word

/-! ### sorted lists -/

theorem sorted_ext : ∀ (l r : List Nat), Sorted l → Sorted r → (∀ x, x ∈ l ↔ x ∈ r) → l = r := by
  intro l
  induction l with
  | nil => intro r _ _ h; cases r with
    | nil => rfl
    | cons b r => have := (h b).2 (by simp); simp at this
  | cons a l ih =>
    intro r hl hr h
    cases r with
    | nil => have := (h a).1 (by simp); simp at this
    | cons b r =>
      have hab : a = b := by
        have h1 := (h a).1 (by simp)
        have h2 := (h b).2 (by simp)
        simp [Sorted, List.pairwise_cons] at hl hr h1 h2
        rcases h1 with h1 | h1
        · exact h1
        · rcases h2 with h2 | h2
          · exact h2.symm
          · have := hl.1 b h2; have := hr.1 a h1; omega
      subst hab
      congr 1
      apply ih r (List.Pairwise.of_cons hl) (List.Pairwise.of_cons hr)
      intro x
      have hx := h x
      simp [Sorted, List.pairwise_cons] at hl hr hx
      constructor
      · intro hm; have := hl.1 x hm; rcases hx.1 (Or.inr hm) with h' | h'; omega; exact h'
      · intro hm; have := hr.1 x hm; rcases hx.2 (Or.inr hm) with h' | h'; omega; exact h'

theorem sorted_range (n : Nat) : Sorted (List.range n) := by
  unfold Sorted
  rw [List.pairwise_iff_getElem]
  intro i j hi hj hij
  simp [hij]

/-- in a strictly ascending list the last element is the (unique) maximum -/
theorem sorted_getLast? (l : List Nat) (hl : Sorted l) (m : Nat) (hm : m ∈ l) (hmax : ∀ x ∈ l, x ≤ m) :
    l.getLast? = some m := by
  have hne : l ≠ [] := by intro h; subst h; simp at hm
  rw [List.getLast?_eq_some_getLast hne]
  congr 1
  have hsplit := List.dropLast_concat_getLast hne
  have hlast : l.getLast hne ∈ l := List.getLast_mem hne
  have h1 := hmax _ hlast
  rw [← hsplit] at hl hm
  unfold Sorted at hl
  rw [List.pairwise_append] at hl
  simp only [List.mem_append, List.mem_singleton] at hm
  rcases hm with hm | hm
  · have := hl.2.2 m hm (l.getLast hne) (by simp); omega
  · exact hm.symm

/-- in a strictly ascending list every element is `≤` the last -/
theorem sorted_le_getLast (l : List Nat) (hl : Sorted l) (m : Nat) (hm : l.getLast? = some m) :
    m ∈ l ∧ ∀ x ∈ l, x ≤ m := by
  have hne : l ≠ [] := by intro h; subst h; simp at hm
  rw [List.getLast?_eq_some_getLast hne] at hm
  have hm' : l.getLast hne = m := by simpa using hm
  have hsplit := List.dropLast_concat_getLast hne
  refine ⟨hm' ▸ List.getLast_mem hne, ?_⟩
  intro x hx
  rw [← hsplit] at hl hx
  unfold Sorted at hl
  rw [List.pairwise_append] at hl
  simp only [List.mem_append, List.mem_singleton] at hx
  rcases hx with hx | hx
  · have := hl.2.2 x hx (l.getLast hne) (by simp); omega
  · omega

/-! ### constants -/

theorem wMax_eq : wMax = 2^64 - 1 := by decide
theorem W_eq : W = 2^64 := by decide
theorem wMax_lt : wMax < 2^64 := by decide

/-! ### `testBit` of single-bit masks, `not64` -/

theorem lt_two_pow_of_lt {w i : Nat} (h : w < 2^64) (hi : 64 ≤ i) : w < 2^i :=
  Nat.lt_of_lt_of_le h (Nat.pow_le_pow_right (by omega) hi)

/-- bits at positions `≥ 64` of a `u64` are clear -/
theorem testBit_ge64 {w i : Nat} (h : w < 2^64) (hi : 64 ≤ i) : w.testBit i = false :=
  Nat.testBit_lt_two_pow (lt_two_pow_of_lt h hi)

/-- word extensionality below 2^64 from the 64 tested bits -/
theorem word_ext (a b : Nat) (ha : a < 2^64) (hb : b < 2^64)
    (h : ∀ i, i < 64 → a.testBit i = b.testBit i) : a = b := by
  apply Nat.eq_of_testBit_eq
  intro i
  by_cases hi : i < 64
  · exact h i hi
  · rw [testBit_ge64 ha (by omega), testBit_ge64 hb (by omega)]

theorem testBit_one_shiftLeft (i j : Nat) : (1 <<< i).testBit j = decide (i = j) := by
  rw [Nat.one_shiftLeft, Nat.testBit_two_pow]

theorem one_shiftLeft_lt {i : Nat} (hi : i < 64) : 1 <<< i < 2^64 := by
  rw [Nat.one_shiftLeft]; exact Nat.pow_lt_pow_right (by omega) hi

theorem testBit_not64 (w j : Nat) : (not64 w).testBit j = (decide (j < 64) ^^ w.testBit j) := by
  unfold not64; rw [wMax_eq, Nat.testBit_xor, Nat.testBit_two_pow_sub_one]

theorem not64_lt {w : Nat} (h : w < 2^64) : not64 w < 2^64 := by
  unfold not64; exact Nat.xor_lt_two_pow wMax_lt h

/-- `w | (1 << i)` -/
theorem testBit_setBit (w i j : Nat) : (w ||| (1 <<< i)).testBit j = (w.testBit j || decide (i = j)) := by
  rw [Nat.testBit_or, testBit_one_shiftLeft]

theorem setBit_lt {w i : Nat} (h : w < 2^64) (hi : i < 64) : w ||| (1 <<< i) < 2^64 :=
  Nat.or_lt_two_pow h (one_shiftLeft_lt hi)

/-- `w & !(1 << i)` -/
theorem testBit_clearBit (w i j : Nat) (hj : j < 64) :
    (w &&& not64 (1 <<< i)).testBit j = (w.testBit j && !decide (i = j)) := by
  rw [Nat.testBit_and, testBit_not64, testBit_one_shiftLeft]; simp [hj]

theorem clearBit_lt {w : Nat} (i : Nat) (h : w < 2^64) : w &&& not64 (1 <<< i) < 2^64 :=
  Nat.lt_of_le_of_lt Nat.and_le_left h

/-- `w & (1 << i) != 0` is `testBit` -/
theorem and_one_shiftLeft_ne_zero (w i : Nat) : (w &&& (1 <<< i) != 0) = w.testBit i := by
  cases h : w.testBit i
  · have : w &&& (1 <<< i) = 0 := by
      apply Nat.eq_of_testBit_eq; intro j
      rw [Nat.testBit_and, testBit_one_shiftLeft, Nat.zero_testBit]
      by_cases hc : i = j
      · subst hc; simp [h]
      · simp [hc]
    simp [this]
  · have : (w &&& (1 <<< i)).testBit i = true := by
      rw [Nat.testBit_and, testBit_one_shiftLeft]; simp [h]
    have hne : w &&& (1 <<< i) ≠ 0 := by
      intro h0; rw [h0, Nat.zero_testBit] at this; contradiction
    simp [hne]

/-- the `inserted` flag of `insert`: `(old ^ (old | 1<<bit)) >> bit` -/
theorem xor_setBit_shiftRight (w i : Nat) :
    (w ^^^ (w ||| (1 <<< i))) >>> i = if w.testBit i then 0 else 1 := by
  apply Nat.eq_of_testBit_eq; intro j
  rw [Nat.testBit_shiftRight, Nat.testBit_xor, testBit_setBit]
  cases j with
  | zero =>
    cases h : w.testBit i <;> simp
  | succ j =>
    cases h : w.testBit i <;> simp [Nat.testBit_succ]

/-- the `removed` flag of `remove`: `(old ^ (old & !(1<<bit))) >> bit` -/
theorem xor_clearBit_shiftRight (w i : Nat) (hw : w < 2^64) :
    (w ^^^ (w &&& not64 (1 <<< i))) >>> i = if w.testBit i then 1 else 0 := by
  apply Nat.eq_of_testBit_eq; intro j
  rw [Nat.testBit_shiftRight, Nat.testBit_xor, Nat.testBit_and, testBit_not64, testBit_one_shiftLeft]
  by_cases h64 : i + j < 64
  · cases j with
    | zero =>
      have : i < 64 := by omega
      cases h : w.testBit i <;> simp [this]
    | succ j =>
      cases h : w.testBit i <;> simp [h64, Nat.testBit_succ]
  · rw [testBit_ge64 hw (by omega)]
    cases j with
    | zero =>
      have h' : w.testBit i = false := testBit_ge64 hw (by omega)
      simp [h']
    | succ j => cases h : w.testBit i <;> simp [Nat.testBit_succ]

/-! ### `tz`, `popLow` -/

theorem tz_testBit (w : Nat) (h : w ≠ 0) : w.testBit (tz w) = true ∧ ∀ i, i < tz w → w.testBit i = false := by
  induction w using Nat.strongRecOn with
  | _ w ih =>
    cases w with
    | zero => contradiction
    | succ n =>
      unfold tz
      split
      · rename_i hodd
        refine ⟨?_, by intro i hi; omega⟩
        simp [Nat.testBit_zero, hodd]
      · rename_i heven
        have hne : (n+1)/2 ≠ 0 := by omega
        have := ih ((n+1)/2) (by omega) hne
        refine ⟨?_, ?_⟩
        · rw [Nat.testBit_succ]; exact this.1
        · intro i hi
          cases i with
          | zero => simp [Nat.testBit_zero]; omega
          | succ j => rw [Nat.testBit_succ]; exact this.2 j (by omega)

theorem popLow_testBit (w : Nat) (h : w ≠ 0) (i : Nat) :
    (popLow w).testBit i = (w.testBit i && decide (i ≠ tz w)) := by
  induction w using Nat.strongRecOn generalizing i with
  | _ w ih =>
    cases w with
    | zero => contradiction
    | succ n =>
      by_cases hodd : (n+1) % 2 = 1
      · have htz : tz (n+1) = 0 := by unfold tz; simp [hodd]
        rw [htz]
        unfold popLow
        rw [Nat.testBit_and]
        cases i with
        | zero => simp [Nat.testBit_zero]; omega
        | succ j =>
          simp only [Nat.testBit_succ, Nat.add_sub_cancel]
          have : n / 2 = (n+1)/2 := by omega
          rw [this]; simp
      · have hne : (n+1)/2 ≠ 0 := by omega
        have htz : tz (n+1) = tz ((n+1)/2) + 1 := by
          conv => lhs; unfold tz
          simp [hodd]
        rw [htz]
        unfold popLow
        rw [Nat.testBit_and]
        cases i with
        | zero => simp [Nat.testBit_zero]; omega
        | succ j =>
          simp only [Nat.testBit_succ, Nat.add_sub_cancel]
          have h2 := ih ((n+1)/2) (by omega) hne j
          unfold popLow at h2
          rw [Nat.testBit_and] at h2
          have : n / 2 = (n+1)/2 - 1 := by omega
          rw [this, h2]
          simp

theorem tz_lt (w : Nat) (h : w ≠ 0) (hlt : w < 2^64) : tz w < 64 := by
  have h1 := (tz_testBit w h).1
  by_cases hc : tz w < 64
  · exact hc
  · rw [testBit_ge64 hlt (by omega)] at h1
    contradiction

theorem popLow_le (w : Nat) : popLow w ≤ w := Nat.and_le_left
theorem popLow_lt (w : Nat) (h : w < 2^64) : popLow w < 2^64 := Nat.lt_of_le_of_lt (popLow_le w) h

/-! ### `hiBit`, `popHigh` -/

theorem hiBit_testBit (w : Nat) (h : w ≠ 0) :
    w.testBit (hiBit w) = true ∧ ∀ i, hiBit w < i → w.testBit i = false := by
  unfold hiBit
  refine ⟨Nat.testBit_log2 h, ?_⟩
  intro i hi
  apply Nat.testBit_lt_two_pow
  exact Nat.lt_of_lt_of_le Nat.lt_log2_self (Nat.pow_le_pow_right (by omega) (by omega))

theorem hiBit_lt (w : Nat) (h : w ≠ 0) (hlt : w < 2^64) : hiBit w < 64 := by
  unfold hiBit
  rw [Nat.log2_lt h]; exact hlt

theorem popHigh_testBit (w : Nat) (i : Nat) (hi : i < 64) :
    (popHigh w).testBit i = (w.testBit i && decide (i ≠ hiBit w)) := by
  unfold popHigh
  rw [testBit_clearBit _ _ _ hi]
  by_cases hc : hiBit w = i
  · simp [hc]
  · have hc' : ¬ i = hiBit w := fun h => hc h.symm
    simp [hc, hc']

theorem popHigh_le (w : Nat) : popHigh w ≤ w := Nat.and_le_left
theorem popHigh_lt (w : Nat) (h : w < 2^64) : popHigh w < 2^64 := Nat.lt_of_le_of_lt (popHigh_le w) h

/-! ### `bitPos`, `bitsOf` -/

theorem mem_bitPos (w i : Nat) : i ∈ bitPos w ↔ i < 64 ∧ w.testBit i = true := by
  simp [bitPos, List.mem_filter, List.mem_range]

theorem sorted_bitPos (w : Nat) : Sorted (bitPos w) :=
  List.Pairwise.sublist List.filter_sublist (sorted_range 64)

theorem bitPos_zero : bitPos 0 = [] := by simp [bitPos]

theorem length_bitPos_le (w : Nat) : (bitPos w).length ≤ 64 := by
  unfold bitPos
  have := List.length_filter_le (fun i => w.testBit i) (List.range 64)
  simpa using this

theorem bitPos_eq_nil_iff (w : Nat) (h : w < 2^64) : bitPos w = [] ↔ w = 0 := by
  constructor
  · intro hnil
    apply word_ext w 0 h (by decide)
    intro i hi
    rw [Nat.zero_testBit]
    cases hb : w.testBit i
    · rfl
    · have : i ∈ bitPos w := (mem_bitPos w i).2 ⟨hi, hb⟩
      rw [hnil] at this; simp at this
  · intro h0; subst h0; exact bitPos_zero

theorem bitPos_step (w : Nat) (hw : w ≠ 0) (hlt : w < 2^64) : bitPos w = tz w :: bitPos (popLow w) := by
  apply sorted_ext _ _ (sorted_bitPos w)
  · simp only [Sorted, List.pairwise_cons]
    refine ⟨?_, sorted_bitPos _⟩
    intro i hi
    rw [mem_bitPos, popLow_testBit w hw] at hi
    simp at hi
    have := (tz_testBit w hw).2 i
    by_cases hc : i < tz w
    · have := this hc; simp [this] at hi
    · omega
  · intro i
    simp only [List.mem_cons, mem_bitPos, popLow_testBit w hw]
    constructor
    · intro ⟨h1, h2⟩
      by_cases hc : i = tz w
      · left; exact hc
      · right; simp [h1, h2, hc]
    · intro h
      rcases h with h | h
      · subst h; exact ⟨tz_lt w hw hlt, (tz_testBit w hw).1⟩
      · simp at h; exact ⟨h.1, h.2.1⟩

theorem bitPos_step_back (w : Nat) (hw : w ≠ 0) (hlt : w < 2^64) :
    bitPos w = bitPos (popHigh w) ++ [hiBit w] := by
  apply sorted_ext _ _ (sorted_bitPos w)
  · rw [Sorted, List.pairwise_append]
    refine ⟨sorted_bitPos _, by simp, ?_⟩
    intro a ha b hb
    simp at hb; subst hb
    rw [mem_bitPos] at ha
    rw [popHigh_testBit w a ha.1] at ha
    simp at ha
    have := (hiBit_testBit w hw).2 a
    by_cases hc : hiBit w < a
    · have := this hc; simp [this] at ha
    · omega
  · intro i
    simp only [List.mem_append, List.mem_singleton, mem_bitPos]
    constructor
    · intro ⟨h1, h2⟩
      by_cases hc : i = hiBit w
      · right; exact hc
      · left; refine ⟨h1, ?_⟩; rw [popHigh_testBit w i h1]; simp [h2, hc]
    · intro h
      rcases h with ⟨h1, h2⟩ | h
      · rw [popHigh_testBit w i h1] at h2; simp at h2; exact ⟨h1, h2.1⟩
      · subst h; exact ⟨hiBit_lt w hw hlt, (hiBit_testBit w hw).1⟩

theorem bitPos_and (w m : Nat) : bitPos (w &&& m) = (bitPos w).filter (fun i => m.testBit i) := by
  simp [bitPos, List.filter_filter, Nat.testBit_and, Bool.and_comm]

theorem head?_bitPos (w : Nat) (hw : w ≠ 0) (hlt : w < 2^64) : (bitPos w).head? = some (tz w) := by
  rw [bitPos_step w hw hlt]; rfl

theorem getLast?_bitPos (w : Nat) (hw : w ≠ 0) (hlt : w < 2^64) : (bitPos w).getLast? = some (hiBit w) := by
  rw [bitPos_step_back w hw hlt]; simp

theorem mem_bitsOf (k w x : Nat) : x ∈ bitsOf k w ↔ x / 64 = k ∧ w.testBit (x % 64) = true := by
  unfold bitsOf
  simp only [List.mem_map, mem_bitPos]
  constructor
  · rintro ⟨i, ⟨hi, hb⟩, rfl⟩
    have h1 : (64 * k + i) / 64 = k := by omega
    have h2 : (64 * k + i) % 64 = i := by omega
    rw [h1, h2]; exact ⟨rfl, hb⟩
  · rintro ⟨hk, hb⟩
    exact ⟨x % 64, ⟨by omega, hb⟩, by omega⟩

theorem sorted_bitsOf (k w : Nat) : Sorted (bitsOf k w) := by
  unfold bitsOf Sorted
  rw [List.pairwise_map]
  exact List.Pairwise.imp (by intro a b h; omega) (sorted_bitPos w)

theorem bitsOf_zero (k : Nat) : bitsOf k 0 = [] := by simp [bitsOf, bitPos_zero]

theorem length_bitsOf (k w : Nat) : (bitsOf k w).length = (bitPos w).length := by simp [bitsOf]

/-- the `while word != 0 { push(tz); word &= word - 1 }` loop, any sufficient fuel -/
theorem drainWord_eq_of_le (base : Nat) : ∀ (fuel w : Nat), w < 2^64 → (bitPos w).length ≤ fuel →
    drainWord base fuel w = (bitPos w).map (base + ·) := by
  intro fuel
  induction fuel with
  | zero =>
    intro w _ hlen
    have : bitPos w = [] := List.eq_nil_of_length_eq_zero (by omega)
    simp [drainWord, this]
  | succ fuel ih =>
    intro w hlt hlen
    unfold drainWord
    by_cases h0 : w = 0
    · subst h0; simp [bitPos_zero]
    · simp only [h0, if_false]
      have hstep := bitPos_step w h0 hlt
      rw [hstep] at hlen ⊢
      simp only [List.length_cons] at hlen
      rw [ih (popLow w) (popLow_lt w hlt) (by omega)]
      simp

theorem drainWord_eq (base w : Nat) (h : w < 2^64) : drainWord base 64 w = (bitPos w).map (base + ·) :=
  drainWord_eq_of_le base 64 w h (length_bitPos_le w)

theorem drainWord_eq_bitsOf (k w : Nat) (h : w < 2^64) : drainWord (64 * k) 64 w = bitsOf k w := by
  rw [drainWord_eq _ _ h]; rfl

/-! ### `popcount` -/

theorem length_filter_range_testBit : ∀ (n w : Nat),
    ((List.range n).filter (fun i => w.testBit i)).length = popcount (w % 2^n) := by
  intro n
  induction n with
  | zero => intro w; simp [Nat.mod_one, popcount_zero]
  | succ n ih =>
    intro w
    rw [List.range_succ_eq_map, List.filter_cons, popcount_step]
    have h1 : w % 2^(n+1) % 2 = w % 2 := by
      rw [Nat.pow_succ, Nat.mul_comm]; exact Nat.mod_mul_right_mod w 2 (2^n)
    have h2 : w % 2^(n+1) / 2 = w / 2 % 2^n := by
      rw [Nat.pow_succ, Nat.mul_comm, Nat.mod_mul_right_div_self]
    rw [h1, h2, ← ih (w / 2), List.filter_map]
    have hf : ((fun i => w.testBit i) ∘ Nat.succ) = (fun i => (w / 2).testBit i) := by
      funext i; simp [Nat.testBit_succ]
    rw [hf]
    by_cases hodd : w % 2 = 1
    · have : w.testBit 0 = true := by simp [Nat.testBit_zero, hodd]
      simp [this, hodd]; omega
    · have : w.testBit 0 = false := by simp [Nat.testBit_zero, hodd]
      have h0 : w % 2 = 0 := by omega
      simp [this, h0]

theorem popcount_eq (w : Nat) (h : w < 2^64) : popcount w = (bitPos w).length := by
  unfold bitPos
  rw [length_filter_range_testBit 64 w, Nat.mod_eq_of_lt h]

theorem popcount_eq_countP (w : Nat) (h : w < 2^64) :
    popcount w = (List.range 64).countP (fun i => w.testBit i) := by
  rw [popcount_eq w h, bitPos, List.countP_eq_length_filter]

theorem popcount_le_64 (w : Nat) (h : w < 2^64) : popcount w ≤ 64 := by
  rw [popcount_eq w h]; exact length_bitPos_le w

theorem popcount_eq_zero_iff (w : Nat) (h : w < 2^64) : popcount w = 0 ↔ w = 0 := by
  rw [popcount_eq w h, ← bitPos_eq_nil_iff w h]
  exact List.length_eq_zero_iff

theorem popcount_two_pow_sub_one (n : Nat) : popcount (2^n - 1) = n := by
  induction n with
  | zero => simp [popcount_zero]
  | succ n ih =>
    rw [popcount_step]
    have hp : 0 < 2^n := Nat.two_pow_pos n
    have h1 : (2^(n+1) - 1) % 2 = 1 := by rw [Nat.pow_succ]; omega
    have h2 : (2^(n+1) - 1) / 2 = 2^n - 1 := by rw [Nat.pow_succ]; omega
    rw [h1, h2, ih]; omega

theorem popcount_wMax : popcount wMax = 64 := by rw [wMax_eq]; exact popcount_two_pow_sub_one 64

theorem popcount_two_pow (n : Nat) : popcount (2^n) = 1 := by
  induction n with
  | zero => rw [popcount_step]; simp [popcount_zero]
  | succ n ih =>
    rw [popcount_step]
    have h1 : (2^(n+1)) % 2 = 0 := by rw [Nat.pow_succ]; omega
    have h2 : (2^(n+1)) / 2 = 2^n := by rw [Nat.pow_succ]; omega
    rw [h1, h2, ih]

theorem countP_or_and {α} (l : List α) (p q : α → Bool) :
    l.countP (fun x => p x || q x) + l.countP (fun x => p x && q x) = l.countP p + l.countP q := by
  induction l with
  | nil => simp
  | cons a l ih =>
    simp only [List.countP_cons]
    cases hp : p a <;> cases hq : q a <;> simp <;> omega

/-- inclusion–exclusion for `count_ones` -/
theorem popcount_or_and (w m : Nat) (hw : w < 2^64) (hm : m < 2^64) :
    popcount (w ||| m) + popcount (w &&& m) = popcount w + popcount m := by
  rw [popcount_eq_countP _ (Nat.or_lt_two_pow hw hm), popcount_eq_countP _ (Nat.and_lt_two_pow w hm),
    popcount_eq_countP _ hw, popcount_eq_countP _ hm]
  have := countP_or_and (List.range 64) (fun i => w.testBit i) (fun i => m.testBit i)
  simpa [Nat.testBit_or, Nat.testBit_and] using this

theorem popcount_and_le (w m : Nat) (hm : m < 2^64) : popcount (w &&& m) ≤ popcount m := by
  rw [popcount_eq_countP _ (Nat.and_lt_two_pow w hm), popcount_eq_countP _ hm]
  apply List.countP_mono_left
  intro i _ hi
  simp [Nat.testBit_and] at hi
  exact hi.2

/-- `|w| = |w & m| + |w & !m|` -/
theorem popcount_and_not64 (w m : Nat) (hw : w < 2^64) :
    popcount w = popcount (w &&& m) + popcount (w &&& not64 m) := by
  have ha : w &&& m < 2^64 := Nat.lt_of_le_of_lt Nat.and_le_left hw
  have hb : w &&& not64 m < 2^64 := Nat.lt_of_le_of_lt Nat.and_le_left hw
  have h := popcount_or_and _ _ ha hb
  have h1 : (w &&& m) ||| (w &&& not64 m) = w := by
    apply word_ext _ _ (Nat.or_lt_two_pow ha hb) hw
    intro i hi
    rw [Nat.testBit_or, Nat.testBit_and, Nat.testBit_and, testBit_not64]
    cases w.testBit i <;> cases m.testBit i <;> simp [hi]
  have h2 : (w &&& m) &&& (w &&& not64 m) = 0 := by
    apply Nat.eq_of_testBit_eq; intro i
    rw [Nat.testBit_and, Nat.testBit_and, Nat.testBit_and, testBit_not64, Nat.zero_testBit]
    by_cases hi : i < 64
    · cases w.testBit i <;> cases m.testBit i <;> simp [hi]
    · simp [testBit_ge64 hw (Nat.le_of_not_lt hi)]
  rw [h1, h2, popcount_zero] at h
  omega

/-- one more bit -/
theorem popcount_setBit (w i : Nat) (hw : w < 2^64) (hi : i < 64) :
    popcount (w ||| (1 <<< i)) = popcount w + (if w.testBit i then 0 else 1) := by
  have hm := one_shiftLeft_lt hi
  have h := popcount_or_and w (1 <<< i) hw hm
  have hp : popcount (1 <<< i) = 1 := by rw [Nat.one_shiftLeft]; exact popcount_two_pow i
  cases hb : w.testBit i
  · have : w &&& (1 <<< i) = 0 := by
      have := and_one_shiftLeft_ne_zero w i
      rw [hb] at this; simpa using this
    rw [this, popcount_zero, hp] at h
    simp; omega
  · have : w ||| (1 <<< i) = w := by
      apply Nat.eq_of_testBit_eq; intro j
      rw [testBit_setBit]
      by_cases hc : i = j
      · subst hc; simp [hb]
      · simp [hc]
    rw [this]; simp

/-- one bit less -/
theorem popcount_clearBit (w i : Nat) (hw : w < 2^64) :
    popcount (w &&& not64 (1 <<< i)) + (if w.testBit i then 1 else 0) = popcount w := by
  have h := popcount_and_not64 w (1 <<< i) hw
  cases hb : w.testBit i
  · have : w &&& (1 <<< i) = 0 := by
      have := and_one_shiftLeft_ne_zero w i
      rw [hb] at this; simpa using this
    rw [this, popcount_zero] at h
    simp; omega
  · have : w &&& (1 <<< i) = 1 <<< i := by
      apply Nat.eq_of_testBit_eq; intro j
      rw [Nat.testBit_and, testBit_one_shiftLeft]
      by_cases hc : i = j
      · subst hc; simp [hb]
      · simp [hc]
    have hp : popcount (1 <<< i) = 1 := by rw [Nat.one_shiftLeft]; exact popcount_two_pow i
    rw [this, hp] at h
    simp; omega

/-! ### `BStore.word`, `BStore.popSum` -/
open BStore (word popSum)

theorem word_eq_getElem (l : List Nat) (k : Nat) (h : k < l.length) : word l k = l[k] := by
  simp [word, List.getD_eq_getElem?_getD, List.getElem?_eq_getElem h]

theorem word_of_le (l : List Nat) (k : Nat) (h : l.length ≤ k) : word l k = 0 := by
  simp [word, List.getD_eq_getElem?_getD, List.getElem?_eq_none h]

theorem word_lt (l : List Nat) (hl : ∀ w ∈ l, w < 2^64) (k : Nat) : word l k < 2^64 := by
  by_cases h : k < l.length
  · rw [word_eq_getElem l k h]; exact hl _ (List.getElem_mem h)
  · rw [word_of_le l k (by omega)]; decide

theorem word_set (l : List Nat) (k v j : Nat) :
    word (l.set k v) j = if j = k ∧ k < l.length then v else word l j := by
  unfold word
  simp only [List.getD_eq_getElem?_getD, List.getElem?_set]
  by_cases h : k = j
  · subst h
    by_cases hk : k < l.length
    · simp [hk]
    · simp [hk]
  · have h' : ¬ j = k := fun e => h e.symm
    simp [h, h']

theorem word_set_self (l : List Nat) (k v : Nat) (h : k < l.length) : word (l.set k v) k = v := by
  rw [word_set]; simp [h]

theorem word_set_ne (l : List Nat) (k v j : Nat) (h : j ≠ k) : word (l.set k v) j = word l j := by
  rw [word_set]; simp [h]

theorem word_cons_zero (w : Nat) (ws : List Nat) : word (w :: ws) 0 = w := by simp [word]
theorem word_cons_succ (w : Nat) (ws : List Nat) (k : Nat) : word (w :: ws) (k+1) = word ws k := by
  simp [word]

theorem word_replicate (n v k : Nat) (h : k < n) : word (List.replicate n v) k = v := by
  rw [word_eq_getElem _ _ (by simpa using h)]; simp

theorem mem_set_lt (l : List Nat) (k v : Nat) (hl : ∀ w ∈ l, w < 2^64) (hv : v < 2^64) :
    ∀ w ∈ l.set k v, w < 2^64 := by
  intro w hw
  rcases List.mem_or_eq_of_mem_set hw with h | h
  · exact hl w h
  · subst h; exact hv

theorem popSum_foldl (ws : List Nat) (a : Nat) :
    ws.foldl (fun acc w => acc + popcount w) a = a + popSum ws := by
  unfold popSum
  induction ws generalizing a with
  | nil => simp
  | cons w ws ih => simp only [List.foldl_cons]; rw [ih (a + popcount w), ih (0 + popcount w)]; omega

theorem popSum_nil : popSum [] = 0 := rfl
theorem popSum_cons (w : Nat) (ws : List Nat) : popSum (w :: ws) = popcount w + popSum ws := by
  show List.foldl _ _ _ = _
  rw [List.foldl_cons, popSum_foldl]; omega

theorem popSum_append (l r : List Nat) : popSum (l ++ r) = popSum l + popSum r := by
  induction l with
  | nil => simp [popSum_nil]
  | cons w ws ih => simp only [List.cons_append, popSum_cons, ih]; omega

theorem popSum_replicate (n v : Nat) : popSum (List.replicate n v) = n * popcount v := by
  induction n with
  | zero => simp [popSum_nil]
  | succ n ih => rw [List.replicate_succ, popSum_cons, ih, Nat.succ_mul]; omega

/-- replacing word `k` : `popSum` loses the old count and gains the new one -/
theorem popSum_set (l : List Nat) (k v : Nat) (h : k < l.length) :
    popSum (l.set k v) + popcount (word l k) = popSum l + popcount v := by
  induction l generalizing k with
  | nil => simp at h
  | cons w ws ih =>
    cases k with
    | zero => simp only [List.set_cons_zero, popSum_cons, word_cons_zero]; omega
    | succ k =>
      simp only [List.set_cons_succ, popSum_cons, word_cons_succ]
      have := ih k (by simpa using h)
      omega

theorem popcount_word_le_popSum (l : List Nat) (k : Nat) : popcount (word l k) ≤ popSum l := by
  induction l generalizing k with
  | nil => simp [word, popcount_zero]
  | cons w ws ih =>
    cases k with
    | zero => rw [word_cons_zero, popSum_cons]; omega
    | succ k => rw [word_cons_succ, popSum_cons]; have := ih k; omega

/-- equal length, bounded words, equal bits ⇒ equal word lists -/
theorem bits_ext (a b : List Nat) (hl : a.length = b.length)
    (ha : ∀ x ∈ a, x < 2^64) (hb : ∀ x ∈ b, x < 2^64)
    (h : ∀ i, i < 64 * a.length → (word a (i / 64)).testBit (i % 64) = (word b (i / 64)).testBit (i % 64)) :
    a = b := by
  apply List.ext_getElem hl
  intro k hk1 hk2
  apply word_ext _ _ (ha _ (List.getElem_mem hk1)) (hb _ (List.getElem_mem hk2))
  intro j hj
  have := h (64 * k + j) (by omega)
  have h1 : (64 * k + j) / 64 = k := by omega
  have h2 : (64 * k + j) % 64 = j := by omega
  rw [h1, h2, word_eq_getElem a k hk1, word_eq_getElem b k hk2] at this
  exact this

end Word
end Roaring
