import RoaringModel.Lemmas.BStoreBasic
import RoaringModel.Lemmas.MaskLemmas
/-!
# BitmapStore range operations, rank/select, remove_smallest/biggest (bitmap_store.rs)

Statements are about `Roaring.BStore.*` under `BStore.Inv b`; `b.test i` is bit `i`, `b.toArray` the ascending list of
set bits (facts about it: `Lemmas/BStoreBasic.lean`, proved in parallel by another agent — use them freely).
-/
namespace Roaring
namespace BStore

open Mask

/-! ## Infrastructure: the structure of `toArray`, counting -/

theorem popSum_foldl (ws : List Nat) (a : Nat) :
    ws.foldl (fun acc w => acc + popcount w) a = a + popSum ws := by
  unfold popSum
  induction ws generalizing a with
  | nil => simp
  | cons w ws ih => simp only [List.foldl_cons]; rw [ih, ih (0 + popcount w)]; omega

theorem popSum_nil : popSum [] = 0 := rfl
theorem popSum_cons (w : Nat) (ws : List Nat) : popSum (w :: ws) = popcount w + popSum ws := by
  show (w :: ws).foldl (fun acc w => acc + popcount w) 0 = _
  rw [List.foldl_cons, popSum_foldl]; omega
theorem popSum_append (a b : List Nat) : popSum (a ++ b) = popSum a + popSum b := by
  induction a with
  | nil => simp [popSum_nil]
  | cons w a ih => simp only [List.cons_append, popSum_cons, ih]; omega

theorem bitsOf_eq (k w : Nat) (hw : w < 2^64) : drainWord (64 * k) 64 w = bitsOf k w := by
  rw [drainWord_eq _ _ hw]; rfl

-- `toArrayFrom_nil`, `toArrayFrom_cons` : BStoreBasic.lean

theorem toArrayFrom_append (k : Nat) (a b : List Nat) :
    toArrayFrom k (a ++ b) = toArrayFrom k a ++ toArrayFrom (k + a.length) b := by
  induction a generalizing k with
  | nil => simp [toArrayFrom]
  | cons w a ih =>
    simp only [List.cons_append, toArrayFrom, ih, List.append_assoc, List.length_cons]
    congr 3; omega

theorem length_bitsOf (k w : Nat) (hw : w < 2^64) : (bitsOf k w).length = popcount w := by
  unfold bitsOf; rw [List.length_map, popcount_eq w hw]

theorem mem_bitsOf (k w x : Nat) : x ∈ bitsOf k w ↔ ∃ i, i < 64 ∧ w.testBit i = true ∧ x = 64 * k + i := by
  unfold bitsOf
  simp only [List.mem_map, mem_bitPos]
  constructor
  · rintro ⟨i, ⟨h1, h2⟩, h3⟩; exact ⟨i, h1, h2, h3.symm⟩
  · rintro ⟨i, h1, h2, h3⟩; exact ⟨i, ⟨h1, h2⟩, h3.symm⟩

theorem bitsOf_zero (k : Nat) : bitsOf k 0 = [] := by
  apply List.eq_nil_iff_forall_not_mem.mpr
  intro x hx
  rw [mem_bitsOf] at hx
  obtain ⟨i, _, h, _⟩ := hx
  simp at h

theorem toArrayFrom_length (k : Nat) (ws : List Nat) (hw : ∀ w ∈ ws, w < 2^64) :
    (toArrayFrom k ws).length = popSum ws := by
  induction ws generalizing k with
  | nil => rfl
  | cons w ws ih =>
    have h1 : w < 2^64 := hw w (by simp)
    rw [toArrayFrom_cons k w ws h1, List.length_append, length_bitsOf k w h1, popSum_cons,
      ih (k+1) (fun x hx => hw x (by simp [hx]))]

theorem mem_toArrayFrom_bounds (k : Nat) (ws : List Nat) (hw : ∀ w ∈ ws, w < 2^64) (x : Nat)
    (hx : x ∈ toArrayFrom k ws) : 64 * k ≤ x ∧ x < 64 * (k + ws.length) := by
  induction ws generalizing k with
  | nil => simp [toArrayFrom] at hx
  | cons w ws ih =>
    have h1 : w < 2^64 := hw w (by simp)
    rw [toArrayFrom_cons k w ws h1, List.mem_append] at hx
    rcases hx with hx | hx
    · rw [mem_bitsOf] at hx
      obtain ⟨i, hi, _, rfl⟩ := hx
      simp only [List.length_cons]; omega
    · have := ih (k+1) (fun x hx => hw x (by simp [hx])) hx
      simp only [List.length_cons]; omega

/-- counting the members of one word that satisfy `p`, when `p` is given on that word by a mask -/
theorem filter_bitsOf_length (k w m : Nat) (p : Nat → Bool) (hw : w < 2^64)
    (hm : ∀ i, i < 64 → m.testBit i = p (64 * k + i)) :
    ((bitsOf k w).filter p).length = popcount (w &&& m) := by
  rw [popcount_eq _ (and_lt_left m hw)]
  unfold bitsOf bitPos
  rw [List.filter_map, List.length_map, List.filter_filter]
  congr 1
  apply List.filter_congr
  intro i hi
  have hi' : i < 64 := by simpa using hi
  simp only [Function.comp, Nat.testBit_and, hm i hi']
  rw [Bool.and_comm]

/-- `Σ_k popcount (w_k &&& M k)` over the words from index `k` on -/
def maskedSum (M : Nat → Nat) : Nat → List Nat → Nat
  | _, [] => 0
  | k, w :: ws => popcount (w &&& M k) + maskedSum M (k + 1) ws

theorem maskedSum_append (M : Nat → Nat) (k : Nat) (a b : List Nat) :
    maskedSum M k (a ++ b) = maskedSum M k a + maskedSum M (k + a.length) b := by
  induction a generalizing k with
  | nil => simp [maskedSum]
  | cons w a ih =>
    simp only [List.cons_append, maskedSum, ih, List.length_cons]
    have : k + 1 + a.length = k + (a.length + 1) := by omega
    rw [this]; omega

theorem maskedSum_zero (M : Nat → Nat) (k : Nat) (ws : List Nat)
    (h : ∀ j, j < ws.length → M (k + j) = 0) : maskedSum M k ws = 0 := by
  induction ws generalizing k with
  | nil => rfl
  | cons w ws ih =>
    simp only [maskedSum]
    have h0 := h 0 (by simp)
    simp only [Nat.add_zero] at h0
    rw [h0, Nat.and_zero, popcount_zero, ih (k+1)]
    intro j hj
    have := h (j+1) (by simp; omega)
    rw [← this]; congr 1; omega

theorem maskedSum_full (M : Nat → Nat) (k : Nat) (ws : List Nat) (hw : ∀ w ∈ ws, w < 2^64)
    (h : ∀ j, j < ws.length → M (k + j) = wMax) : maskedSum M k ws = popSum ws := by
  induction ws generalizing k with
  | nil => rfl
  | cons w ws ih =>
    simp only [maskedSum, popSum_cons]
    have h0 := h 0 (by simp)
    simp only [Nat.add_zero] at h0
    rw [h0, and_wMax (hw w (by simp)), ih (k+1) (fun x hx => hw x (by simp [hx]))]
    intro j hj
    have := h (j+1) (by simp; omega)
    rw [← this]; congr 1; omega

/-- counting the members satisfying `p`, when `p` is given word by word by the masks `M k` -/
theorem filter_toArrayFrom_length (M : Nat → Nat) (p : Nat → Bool) (k : Nat) (ws : List Nat)
    (hw : ∀ w ∈ ws, w < 2^64)
    (hm : ∀ j i, j < ws.length → i < 64 → (M (k + j)).testBit i = p (64 * (k + j) + i)) :
    ((toArrayFrom k ws).filter p).length = maskedSum M k ws := by
  induction ws generalizing k with
  | nil => rfl
  | cons w ws ih =>
    have h1 : w < 2^64 := hw w (by simp)
    rw [toArrayFrom_cons k w ws h1, List.filter_append, List.length_append, maskedSum,
      filter_bitsOf_length k w (M k) p h1 (fun i hi => by simpa using hm 0 i (by simp) hi),
      ih (k+1) (fun x hx => hw x (by simp [hx]))]
    intro j i hj hi
    have := hm (j+1) i (by simp; omega) hi
    have e : k + (j + 1) = k + 1 + j := by omega
    rw [e] at this; exact this

/-! ### counting over `List.range 65536` -/

theorem sorted_ext : ∀ (l1 l2 : List Nat), Sorted l1 → Sorted l2 → (∀ x, x ∈ l1 ↔ x ∈ l2) → l1 = l2 := by
  intro l1
  induction l1 with
  | nil =>
    intro l2 _ _ h
    cases l2 with
    | nil => rfl
    | cons b l2 => exact absurd ((h b).mpr (by simp)) (by simp)
  | cons a l1 ih =>
    intro l2 h1 h2 h
    cases l2 with
    | nil => exact absurd ((h a).mp (by simp)) (by simp)
    | cons b l2 =>
      unfold Sorted at h1 h2
      rw [List.pairwise_cons] at h1 h2
      have hab : a = b := by
        have ha := (h a).mp (by simp)
        have hb := (h b).mpr (by simp)
        rw [List.mem_cons] at ha hb
        rcases ha with ha | ha
        · exact ha
        · rcases hb with hb | hb
          · exact hb.symm
          · have := h1.1 b hb; have := h2.1 a ha; omega
      subst hab
      congr 1
      apply ih l2 h1.2 h2.2
      intro x
      have hx := h x
      rw [List.mem_cons, List.mem_cons] at hx
      constructor
      · intro hm
        rcases hx.mp (Or.inr hm) with e | e
        · have := h1.1 x hm; omega
        · exact e
      · intro hm
        rcases hx.mpr (Or.inr hm) with e | e
        · have := h2.1 x hm; omega
        · exact e

theorem toArray_eq_filter (b : BStore) (hb : b.Inv) :
    b.toArray = (List.range 65536).filter (fun x => b.test x) := by
  apply sorted_ext _ _ (sorted_toArray b hb) (List.Pairwise.filter _ List.pairwise_lt_range)
  intro x
  rw [mem_toArray b hb, List.mem_filter, List.mem_range]

theorem len_eq_countP (b : BStore) (hb : b.Inv) :
    b.len = (List.range 65536).countP (fun x => b.test x) := by
  rw [← length_toArray b hb, toArray_eq_filter b hb, List.countP_eq_length_filter]

/-- cardinality of a well-shaped word list, as a count over all 65536 positions -/
theorem popSum_eq_countP (bits : List Nat) (hl : bits.length = 1024) (hw : ∀ w ∈ bits, w < 2^64) :
    popSum bits = (List.range 65536).countP (fun x => (word bits (x / 64)).testBit (x % 64)) :=
  len_eq_countP { len := popSum bits, bits := bits } ⟨hl, hw, rfl⟩

theorem countP_or_and {α} (l : List α) (p q : α → Bool) :
    l.countP (fun x => p x || q x) + l.countP (fun x => p x && q x) = l.countP p + l.countP q := by
  induction l with
  | nil => simp
  | cons a l ih =>
    simp only [List.countP_cons]
    cases hp : p a <;> cases hq : q a <;> simp <;> omega

theorem countP_not_and {α} (l : List α) (p q : α → Bool) :
    l.countP (fun x => !p x && q x) + l.countP (fun x => p x && q x) = l.countP q := by
  induction l with
  | nil => simp
  | cons a l ih =>
    simp only [List.countP_cons]
    cases hp : p a <;> cases hq : q a <;> simp <;> omega

theorem countP_interval (s e n : Nat) :
    (List.range n).countP (fun x => decide (s ≤ x) && decide (x ≤ e)) = min n (e + 1) - s := by
  induction n with
  | zero => simp
  | succ n ih =>
    rw [List.range_succ, List.countP_append, ih]
    simp only [List.countP_cons, List.countP_nil]
    by_cases h1 : s ≤ n <;> by_cases h2 : n ≤ e <;> simp [h1, h2] <;> omega

/-- number of set bits inside `[s, e]` -/
def countIn (b : BStore) (s e : Nat) : Nat := (b.toArray.filter (fun x => decide (s ≤ x) && decide (x ≤ e))).length

/-! ## Range operations (`insert_range`, `remove_range`, `contains_range`) and `rank` -/

/-- the masked sum for a range inside a single word -/
theorem maskedSum_range_same (bits : List Nat) (s e : Nat) (h : s / 64 = e / 64) (hk : s / 64 < bits.length) :
    maskedSum (rangeMask s e) 0 bits = popcount (word bits (s / 64) &&& (maskLE (e % 64) &&& maskGE (s % 64))) := by
  have hd := split_at bits (s / 64) hk
  have hlen : (bits.take (s / 64)).length = s / 64 := by simp; omega
  calc maskedSum (rangeMask s e) 0 bits
      = maskedSum (rangeMask s e) 0 (bits.take (s / 64) ++ word bits (s / 64) :: bits.drop (s / 64 + 1)) := by rw [← hd]
    _ = _ := by
      rw [maskedSum_append, maskedSum, hlen, Nat.zero_add, rangeMask_same s e h,
        maskedSum_zero _ 0, maskedSum_zero _ (s / 64 + 1)]
      · omega
      · intro j _; apply rangeMask_out; omega
      · intro j hj; apply rangeMask_out; rw [hlen] at hj; omega

/-- the masked sum for a range spanning several words: first word, full middle words, last word -/
theorem maskedSum_range_span (bits : List Nat) (hw : ∀ w ∈ bits, w < 2^64) (s e : Nat) (h : s / 64 < e / 64)
    (hk : e / 64 < bits.length) :
    maskedSum (rangeMask s e) 0 bits =
      popcount (word bits (s / 64) &&& maskGE (s % 64))
      + popSum ((bits.drop (s / 64 + 1)).take (e / 64 - (s / 64 + 1)))
      + popcount (word bits (e / 64) &&& maskLE (e % 64)) := by
  have hd := split_range bits (s / 64) (e / 64) h hk
  have hlen : (bits.take (s / 64)).length = s / 64 := by simp; omega
  have hlen2 : ((bits.drop (s / 64 + 1)).take (e / 64 - (s / 64 + 1))).length = e / 64 - (s / 64 + 1) := by
    simp; omega
  calc maskedSum (rangeMask s e) 0 bits
      = maskedSum (rangeMask s e) 0 (bits.take (s / 64) ++ word bits (s / 64) ::
          (((bits.drop (s / 64 + 1)).take (e / 64 - (s / 64 + 1))) ++ word bits (e / 64) :: bits.drop (e / 64 + 1))) := by
        rw [← hd]
    _ = _ := by
      rw [maskedSum_append, maskedSum, maskedSum_append, maskedSum, hlen, hlen2, Nat.zero_add,
        rangeMask_first s e h]
      have e1 : s / 64 + 1 + (e / 64 - (s / 64 + 1)) = e / 64 := by omega
      rw [e1, rangeMask_last s e h, maskedSum_zero _ 0, maskedSum_zero _ (e / 64 + 1),
        maskedSum_full _ (s / 64 + 1)]
      · omega
      · intro w hm; exact hw w (List.mem_of_mem_drop (List.mem_of_mem_take hm))
      · intro j hj; rw [hlen2] at hj; apply rangeMask_mid <;> omega
      · intro j _; apply rangeMask_out; omega
      · intro j hj; rw [hlen] at hj; apply rangeMask_out; omega

theorem countIn_eq_maskedSum (b : BStore) (hb : b.Inv) (s e : Nat) :
    b.countIn s e = maskedSum (rangeMask s e) 0 b.bits := by
  unfold countIn toArray
  apply filter_toArrayFrom_length (rangeMask s e) _ 0 b.bits hb.words
  intro j i _ hi
  rw [rangeMask_testBit s e (0 + j) i hi]

/-! ### insert_range -/

theorem insertRange_same (b : BStore) (s e : Nat) (h : s / 64 = e / 64) :
    b.insertRange s e =
      ({ len := b.len + (e - s + 1 - popcount (word b.bits (s / 64) &&& (maskLE (e % 64) &&& maskGE (s % 64)))),
         bits := b.bits.set (s / 64) (word b.bits (s / 64) ||| (maskLE (e % 64) &&& maskGE (s % 64))) },
       e - s + 1 - popcount (word b.bits (s / 64) &&& (maskLE (e % 64) &&& maskGE (s % 64)))) := by
  have h' : wkey s = wkey e := h
  unfold insertRange
  rw [if_pos h']
  rfl

theorem insertRange_span (b : BStore) (s e : Nat) (h : ¬ s / 64 = e / 64) :
    b.insertRange s e =
      (let sk := s / 64; let sb := s % 64; let ek := e / 64; let eb := e % 64
       let bits1 := b.bits.set sk (word b.bits sk ||| maskGE sb)
       let bits2 := fillWords bits1 (sk + 1) ek wMax
       let existed := popcount (word b.bits sk &&& maskGE sb) + popSum ((bits1.drop (sk + 1)).take (ek - (sk + 1)))
         + popcount (word bits2 ek &&& maskLE eb)
       ({ len := b.len + (e - s + 1 - existed), bits := bits2.set ek (word bits2 ek ||| maskLE eb) },
        e - s + 1 - existed)) := by
  have h' : ¬ wkey s = wkey e := h
  unfold insertRange
  rw [if_neg h']
  rfl

theorem insertRange_len (b : BStore) (s e : Nat) :
    (b.insertRange s e).1.len = b.len + (b.insertRange s e).2 := by
  unfold insertRange; simp only []; split <;> rfl

theorem insertRange_snd (b : BStore) (hl : b.bits.length = 1024) (hw : ∀ w ∈ b.bits, w < 2^64)
    (s e : Nat) (hse : s ≤ e) (he : e < 65536) :
    (b.insertRange s e).2 = e - s + 1 - maskedSum (rangeMask s e) 0 b.bits := by
  have hsk : s / 64 < 1024 := by omega
  have hek : e / 64 < 1024 := by omega
  by_cases h : s / 64 = e / 64
  · rw [insertRange_same b s e h]
    rw [maskedSum_range_same b.bits s e h (by omega)]
  · rw [insertRange_span b s e h]
    have hlt : s / 64 < e / 64 := by
      have : s / 64 ≤ e / 64 := Nat.div_le_div_right hse
      omega
    rw [maskedSum_range_span b.bits hw s e hlt (by omega)]
    simp only []
    rw [List.drop_set_of_lt (by omega), word_fillWords _ _ _ _ _ (by omega) (by simp; omega),
      if_neg (by omega), word_set _ _ _ _ (by omega), if_neg (by omega)]

theorem insertRange_length (b : BStore) (hl : b.bits.length = 1024) (s e : Nat) (hse : s ≤ e) (he : e < 65536) :
    (b.insertRange s e).1.bits.length = 1024 := by
  have hsk : s / 64 < 1024 := by omega
  have hek : e / 64 < 1024 := by omega
  have hle : s / 64 ≤ e / 64 := Nat.div_le_div_right hse
  by_cases h : s / 64 = e / 64
  · rw [insertRange_same b s e h]; simp [hl]
  · rw [insertRange_span b s e h]; simp only [List.length_set]
    rw [length_fillWords _ _ _ _ (by omega) (by simp; omega)]
    simp [hl]

theorem insertRange_word (b : BStore) (hl : b.bits.length = 1024) (hw : ∀ w ∈ b.bits, w < 2^64)
    (s e : Nat) (hse : s ≤ e) (he : e < 65536) (k : Nat) (hk : k < 1024) :
    word (b.insertRange s e).1.bits k = word b.bits k ||| rangeMask s e k := by
  have hsk : s / 64 < 1024 := by omega
  have hek : e / 64 < 1024 := by omega
  have hle : s / 64 ≤ e / 64 := Nat.div_le_div_right hse
  by_cases h : s / 64 = e / 64
  · rw [insertRange_same b s e h]
    simp only []
    rw [word_set _ _ _ _ (by omega)]
    by_cases c : k = s / 64
    · subst c; rw [if_pos rfl, rangeMask_same s e h]
    · rw [if_neg c, rangeMask_out s e k (by omega), Nat.or_zero]
  · rw [insertRange_span b s e h]
    simp only []
    have hfl : (fillWords (b.bits.set (s / 64) (word b.bits (s / 64) ||| maskGE (s % 64))) (s / 64 + 1) (e / 64) wMax).length
        = 1024 := by
      rw [length_fillWords _ _ _ _ (by omega) (by simp; omega)]; simp [hl]
    rw [word_set _ _ _ _ (by omega), word_fillWords _ _ _ _ _ (by omega) (by simp; omega),
      word_fillWords _ _ _ _ _ (by omega) (by simp; omega), word_set _ _ _ _ (by omega),
      word_set _ _ _ _ (by omega)]
    by_cases c1 : k = e / 64
    · subst c1
      rw [if_pos rfl, if_neg (by omega), if_neg (by omega), rangeMask_last s e (by omega)]
    · rw [if_neg c1]
      by_cases c2 : s / 64 + 1 ≤ k ∧ k < e / 64
      · rw [if_pos c2, rangeMask_mid s e k (by omega) (by omega), or_wMax (word_lt hw k)]
      · rw [if_neg c2]
        by_cases c3 : k = s / 64
        · subst c3; rw [if_pos rfl, rangeMask_first s e (by omega)]
        · rw [if_neg c3, rangeMask_out s e k (by omega), Nat.or_zero]

/-- `test` read through `word` -/
theorem test_eq (b : BStore) (x : Nat) : b.test x = (word b.bits (x / 64)).testBit (x % 64) := rfl

theorem words_of_word (bits : List Nat) (h : ∀ k, k < bits.length → word bits k < 2^64) :
    ∀ w ∈ bits, w < 2^64 := by
  intro w hm
  obtain ⟨k, hk, rfl⟩ := List.getElem_of_mem hm
  rw [← word_eq_getElem hk]; exact h k hk

theorem countIn_eq_countP (b : BStore) (hb : b.Inv) (s e : Nat) :
    b.countIn s e = (List.range 65536).countP (fun x => (decide (s ≤ x) && decide (x ≤ e)) && b.test x) := by
  unfold countIn
  rw [toArray_eq_filter b hb, List.filter_filter, List.countP_eq_length_filter]

theorem insertRange_spec (b : BStore) (hb : b.Inv) (s e : Nat) (hse : s ≤ e) (he : e < 65536) :
    (b.insertRange s e).1.Inv ∧
    (∀ x, x < 65536 → (b.insertRange s e).1.test x = ((decide (s ≤ x) && decide (x ≤ e)) || b.test x)) ∧
    (b.insertRange s e).2 = (e - s + 1) - b.countIn s e := by
  have hlen := insertRange_length b hb.length s e hse he
  have hword := insertRange_word b hb.length hb.words s e hse he
  have hsnd : (b.insertRange s e).2 = (e - s + 1) - b.countIn s e := by
    rw [insertRange_snd b hb.length hb.words s e hse he, countIn_eq_maskedSum b hb]
  have htest : ∀ x, x < 65536 →
      (b.insertRange s e).1.test x = ((decide (s ≤ x) && decide (x ≤ e)) || b.test x) := by
    intro x hx
    rw [test_eq, hword (x / 64) (by omega), Nat.testBit_or, rangeMask_testBit s e (x / 64) (x % 64) (by omega),
      test_eq, Bool.or_comm]
    have : 64 * (x / 64) + x % 64 = x := by omega
    rw [this]
  have hwords : ∀ w ∈ (b.insertRange s e).1.bits, w < 2^64 := by
    apply words_of_word
    intro k hk
    rw [hword k (by omega)]
    exact or_lt (word_lt hb.words k) (rangeMask_lt s e k)
  refine ⟨⟨hlen, hwords, ?_⟩, htest, hsnd⟩
  -- the cached cardinality
  rw [insertRange_len, hsnd, popSum_eq_countP _ hlen hwords, len_eq_countP b hb, countIn_eq_countP b hb]
  have h1 := countP_or_and (List.range 65536) (fun x => decide (s ≤ x) && decide (x ≤ e)) (fun x => b.test x)
  have h2 := countP_interval s e 65536
  have h3 : (List.range 65536).countP (fun x => (b.insertRange s e).1.test x)
      = (List.range 65536).countP (fun x => (decide (s ≤ x) && decide (x ≤ e)) || b.test x) := by
    apply List.countP_congr
    intro x hx
    rw [htest x (by simpa using hx)]
  have h4 : (List.range 65536).countP (fun x => (decide (s ≤ x) && decide (x ≤ e)) && b.test x)
      ≤ (List.range 65536).countP (fun x => decide (s ≤ x) && decide (x ≤ e)) := by
    apply List.countP_mono_left
    intro x _ h; simp only [Bool.and_eq_true] at h ⊢; exact h.1
  show _ = (List.range 65536).countP (fun x => (b.insertRange s e).1.test x)
  rw [h3]
  omega

/-! ### remove_range -/

theorem removeRange_same (b : BStore) (s e : Nat) (h : s / 64 = e / 64) :
    b.removeRange s e =
      ({ len := b.len - popcount (word b.bits (s / 64) &&& (shlMax (s % 64) &&& shrMax (e % 64))),
         bits := b.bits.set (s / 64) (word b.bits (s / 64) &&& not64 (shlMax (s % 64) &&& shrMax (e % 64))) },
       popcount (word b.bits (s / 64) &&& (shlMax (s % 64) &&& shrMax (e % 64)))) := by
  have h' : wkey s = wkey e := h
  unfold removeRange
  rw [if_pos h']
  rfl

theorem removeRange_span (b : BStore) (s e : Nat) (h : ¬ s / 64 = e / 64) :
    b.removeRange s e =
      (let sk := s / 64; let sb := s % 64; let ek := e / 64; let eb := e % 64
       let bits1 := b.bits.set sk (word b.bits sk &&& not64 (shlMax sb))
       let bits2 := fillWords bits1 (sk + 1) ek 0
       let removed := popcount (word b.bits sk &&& shlMax sb) + popSum ((bits1.drop (sk + 1)).take (ek - (sk + 1)))
         + popcount (word bits2 ek &&& shrMax eb)
       ({ len := b.len - removed, bits := bits2.set ek (word bits2 ek &&& not64 (shrMax eb)) }, removed)) := by
  have h' : ¬ wkey s = wkey e := h
  unfold removeRange
  rw [if_neg h']
  rfl

theorem removeRange_len (b : BStore) (s e : Nat) :
    (b.removeRange s e).1.len = b.len - (b.removeRange s e).2 := by
  by_cases h : s / 64 = e / 64
  · rw [removeRange_same b s e h]
  · rw [removeRange_span b s e h]

theorem removeRange_snd (b : BStore) (hl : b.bits.length = 1024) (hw : ∀ w ∈ b.bits, w < 2^64)
    (s e : Nat) (hse : s ≤ e) (he : e < 65536) :
    (b.removeRange s e).2 = maskedSum (rangeMask s e) 0 b.bits := by
  have hsk : s / 64 < 1024 := by omega
  have hek : e / 64 < 1024 := by omega
  have hsb : s % 64 < 64 := by omega
  have heb : e % 64 < 64 := by omega
  by_cases h : s / 64 = e / 64
  · rw [removeRange_same b s e h]
    rw [maskedSum_range_same b.bits s e h (by omega), shlMax_eq hsb, shrMax_eq heb,
      Nat.and_comm (maskGE (s % 64))]
  · rw [removeRange_span b s e h]
    have hlt : s / 64 < e / 64 := by
      have : s / 64 ≤ e / 64 := Nat.div_le_div_right hse
      omega
    rw [maskedSum_range_span b.bits hw s e hlt (by omega)]
    simp only []
    rw [List.drop_set_of_lt (by omega), word_fillWords _ _ _ _ _ (by omega) (by simp; omega),
      if_neg (by omega), word_set _ _ _ _ (by omega), if_neg (by omega), shlMax_eq hsb, shrMax_eq heb]

theorem removeRange_length (b : BStore) (hl : b.bits.length = 1024) (s e : Nat) (hse : s ≤ e) (he : e < 65536) :
    (b.removeRange s e).1.bits.length = 1024 := by
  have hsk : s / 64 < 1024 := by omega
  have hek : e / 64 < 1024 := by omega
  have hle : s / 64 ≤ e / 64 := Nat.div_le_div_right hse
  by_cases h : s / 64 = e / 64
  · rw [removeRange_same b s e h]; simp [hl]
  · rw [removeRange_span b s e h]; simp only [List.length_set]
    rw [length_fillWords _ _ _ _ (by omega) (by simp; omega)]
    simp [hl]

theorem removeRange_word (b : BStore) (hl : b.bits.length = 1024) (hw : ∀ w ∈ b.bits, w < 2^64)
    (s e : Nat) (hse : s ≤ e) (he : e < 65536) (k : Nat) (hk : k < 1024) :
    word (b.removeRange s e).1.bits k = word b.bits k &&& not64 (rangeMask s e k) := by
  have hsk : s / 64 < 1024 := by omega
  have hek : e / 64 < 1024 := by omega
  have hsb : s % 64 < 64 := by omega
  have heb : e % 64 < 64 := by omega
  have hle : s / 64 ≤ e / 64 := Nat.div_le_div_right hse
  by_cases h : s / 64 = e / 64
  · rw [removeRange_same b s e h]
    simp only []
    rw [word_set _ _ _ _ (by omega)]
    by_cases c : k = s / 64
    · subst c; rw [if_pos rfl, rangeMask_same s e h, shlMax_eq hsb, shrMax_eq heb, Nat.and_comm (maskGE (s % 64))]
    · rw [if_neg c, rangeMask_out s e k (by omega), and_not64_zero (word_lt hw k)]
  · rw [removeRange_span b s e h]
    simp only []
    have hfl : (fillWords (b.bits.set (s / 64) (word b.bits (s / 64) &&& not64 (shlMax (s % 64)))) (s / 64 + 1) (e / 64) 0).length
        = 1024 := by
      rw [length_fillWords _ _ _ _ (by omega) (by simp; omega)]; simp [hl]
    rw [word_set _ _ _ _ (by omega), word_fillWords _ _ _ _ _ (by omega) (by simp; omega),
      word_fillWords _ _ _ _ _ (by omega) (by simp; omega), word_set _ _ _ _ (by omega),
      word_set _ _ _ _ (by omega)]
    by_cases c1 : k = e / 64
    · subst c1
      rw [if_pos rfl, if_neg (by omega), if_neg (by omega), rangeMask_last s e (by omega), shrMax_eq heb]
    · rw [if_neg c1]
      by_cases c2 : s / 64 + 1 ≤ k ∧ k < e / 64
      · rw [if_pos c2, rangeMask_mid s e k (by omega) (by omega), not64_wMax, Nat.and_zero]
      · rw [if_neg c2]
        by_cases c3 : k = s / 64
        · subst c3; rw [if_pos rfl, rangeMask_first s e (by omega), shlMax_eq hsb]
        · rw [if_neg c3, rangeMask_out s e k (by omega), and_not64_zero (word_lt hw k)]

theorem removeRange_spec (b : BStore) (hb : b.Inv) (s e : Nat) (hse : s ≤ e) (he : e < 65536) :
    (b.removeRange s e).1.Inv ∧
    (∀ x, x < 65536 → (b.removeRange s e).1.test x = (!(decide (s ≤ x) && decide (x ≤ e)) && b.test x)) ∧
    (b.removeRange s e).2 = b.countIn s e := by
  have hlen := removeRange_length b hb.length s e hse he
  have hword := removeRange_word b hb.length hb.words s e hse he
  have hsnd : (b.removeRange s e).2 = b.countIn s e := by
    rw [removeRange_snd b hb.length hb.words s e hse he, countIn_eq_maskedSum b hb]
  have htest : ∀ x, x < 65536 →
      (b.removeRange s e).1.test x = (!(decide (s ≤ x) && decide (x ≤ e)) && b.test x) := by
    intro x hx
    have hx64 : x % 64 < 64 := by omega
    rw [test_eq, hword (x / 64) (by omega), Nat.testBit_and, not64_testBit_of_lt (rangeMask_lt s e _),
      rangeMask_testBit s e (x / 64) (x % 64) hx64, test_eq, Bool.and_comm]
    have : 64 * (x / 64) + x % 64 = x := by omega
    rw [this]
    simp [hx64]
  have hwords : ∀ w ∈ (b.removeRange s e).1.bits, w < 2^64 := by
    apply words_of_word
    intro k hk
    rw [hword k (by omega)]
    exact and_lt_left _ (word_lt hb.words k)
  refine ⟨⟨hlen, hwords, ?_⟩, htest, hsnd⟩
  rw [removeRange_len, hsnd, popSum_eq_countP _ hlen hwords, len_eq_countP b hb, countIn_eq_countP b hb]
  have h1 := countP_not_and (List.range 65536) (fun x => decide (s ≤ x) && decide (x ≤ e)) (fun x => b.test x)
  have h3 : (List.range 65536).countP (fun x => (b.removeRange s e).1.test x)
      = (List.range 65536).countP (fun x => !(decide (s ≤ x) && decide (x ≤ e)) && b.test x) := by
    apply List.countP_congr
    intro x hx
    rw [htest x (by simpa using hx)]
  show _ = (List.range 65536).countP (fun x => (b.removeRange s e).1.test x)
  rw [h3]
  omega

/-! ### contains_range -/

theorem containsRange_small (b : BStore) (s e : Nat) (h : b.len < e - s + 1) : b.containsRange s e = false := by
  unfold containsRange; rw [if_pos h]

theorem containsRange_same (b : BStore) (s e : Nat) (hlen : ¬ b.len < e - s + 1) (h : s / 64 = e / 64) :
    b.containsRange s e = (word b.bits (s / 64) &&& (maskGE (s % 64) &&& shrMax' (e % 64))
      == (maskGE (s % 64) &&& shrMax' (e % 64))) := by
  have h' : wkey s = wkey e := h
  unfold containsRange
  rw [if_neg hlen]; simp only []; rw [if_pos h']; rfl

theorem containsRange_span (b : BStore) (s e : Nat) (hlen : ¬ b.len < e - s + 1) (h : ¬ s / 64 = e / 64) :
    b.containsRange s e = ((word b.bits (s / 64) &&& maskGE (s % 64) == maskGE (s % 64))
        && ((b.bits.drop (s / 64 + 1)).take (e / 64 - (s / 64 + 1))).all (· == wMax)
        && (word b.bits (e / 64) &&& shrMax' (e % 64) == shrMax' (e % 64))) := by
  have h' : ¬ wkey s = wkey e := h
  unfold containsRange
  rw [if_neg hlen]; simp only []; rw [if_neg h']; rfl

/-- every word covers its part of the range -/
def Covers (b : BStore) (s e : Nat) : Prop :=
  ∀ k, k < 1024 → word b.bits k &&& rangeMask s e k = rangeMask s e k

theorem covers_iff (b : BStore) (hb : b.Inv) (s e : Nat) (he : e < 65536) :
    Covers b s e ↔ ∀ x, s ≤ x → x ≤ e → b.test x = true := by
  constructor
  · intro hc x h1 h2
    have hk : x / 64 < 1024 := by omega
    have hx64 : x % 64 < 64 := by omega
    have h3 : (rangeMask s e (x / 64)).testBit (x % 64) = true := by
      rw [rangeMask_testBit s e _ _ hx64]
      have : 64 * (x / 64) + x % 64 = x := by omega
      rw [this]; simp [h1, h2]
    rw [← hc (x / 64) hk, Nat.testBit_and] at h3
    rw [test_eq]
    simp only [Bool.and_eq_true] at h3; exact h3.1
  · intro ht k hk
    apply word_ext (and_lt_left _ (word_lt hb.words k)) (rangeMask_lt s e k)
    intro i hi
    rw [Nat.testBit_and]
    cases hm : (rangeMask s e k).testBit i
    · simp
    · rw [rangeMask_testBit s e k i hi] at hm
      simp only [Bool.and_eq_true, decide_eq_true_eq] at hm
      have := ht (64 * k + i) hm.1 hm.2
      rw [test_eq] at this
      have e1 : (64 * k + i) / 64 = k := by omega
      have e2 : (64 * k + i) % 64 = i := by omega
      rw [e1, e2] at this
      simp [this]

theorem len_ge_of_range (b : BStore) (hb : b.Inv) (s e : Nat) (hse : s ≤ e) (he : e < 65536)
    (h : ∀ x, s ≤ x → x ≤ e → b.test x = true) : e - s + 1 ≤ b.len := by
  rw [len_eq_countP b hb]
  have h2 := countP_interval s e 65536
  have h3 : (List.range 65536).countP (fun x => decide (s ≤ x) && decide (x ≤ e))
      ≤ (List.range 65536).countP (fun x => b.test x) := by
    apply List.countP_mono_left
    intro x _ hx
    simp only [Bool.and_eq_true, decide_eq_true_eq] at hx
    exact h x hx.1 hx.2
  omega

theorem containsRange_spec (b : BStore) (hb : b.Inv) (s e : Nat) (hse : s ≤ e) (he : e < 65536) :
    b.containsRange s e = true ↔ ∀ x, s ≤ x → x ≤ e → b.test x = true := by
  have hsk : s / 64 < 1024 := by omega
  have hek : e / 64 < 1024 := by omega
  have hsb : s % 64 < 64 := by omega
  have heb : e % 64 < 64 := by omega
  have hle : s / 64 ≤ e / 64 := Nat.div_le_div_right hse
  have hl := hb.length
  by_cases hlen : b.len < e - s + 1
  · rw [containsRange_small b s e hlen]
    constructor
    · intro h; exact absurd h (by simp)
    · intro h; have := len_ge_of_range b hb s e hse he h; omega
  · rw [← covers_iff b hb s e he]
    by_cases h : s / 64 = e / 64
    · rw [containsRange_same b s e hlen h, shrMax'_eq heb, Nat.and_comm (maskGE (s % 64)), beq_iff_eq,
        ← rangeMask_same s e h]
      constructor
      · intro h1 k hk
        by_cases c : k = s / 64
        · subst c; exact h1
        · rw [rangeMask_out s e k (by omega), Nat.and_zero]
      · intro h1; exact h1 _ hsk
    · rw [containsRange_span b s e hlen h, shrMax'_eq heb]
      simp only [Bool.and_eq_true, beq_iff_eq]
      rw [all_drop_take _ _ _ _ (by omega)]
      have hlt : s / 64 < e / 64 := by omega
      rw [← rangeMask_first s e hlt, ← rangeMask_last s e hlt]
      constructor
      · rintro ⟨⟨h1, h2⟩, h3⟩ k hk
        by_cases c1 : k = e / 64
        · subst c1; exact h3
        · by_cases c2 : s / 64 + 1 ≤ k ∧ k < e / 64
          · have := h2 k c2.1 (by omega)
            rw [beq_iff_eq] at this
            rw [this, rangeMask_mid s e k (by omega) (by omega), Nat.and_self]
          · by_cases c3 : k = s / 64
            · subst c3; exact h1
            · rw [rangeMask_out s e k (by omega), Nat.and_zero]
      · intro hc
        refine ⟨⟨hc _ hsk, ?_⟩, hc _ hek⟩
        intro k h1 h2
        have := hc k (by omega)
        rw [rangeMask_mid s e k (by omega) (by omega), and_wMax (word_lt hb.words k)] at this
        rw [beq_iff_eq]; exact this

/-! ### rank -/

theorem rank_spec (b : BStore) (hb : b.Inv) (i : Nat) (hi : i < 65536) :
    b.rank i = (b.toArray.filter (· ≤ i)).length := by
  have hk : i / 64 < b.bits.length := by rw [hb.length]; omega
  have hlen : (b.bits.take (i / 64)).length = i / 64 := by simp; omega
  have h1 : (b.toArray.filter (· ≤ i)).length = maskedSum (rankMask i) 0 b.bits := by
    unfold toArray
    apply filter_toArrayFrom_length (rankMask i) _ 0 b.bits hb.words
    intro j i' _ hi'
    rw [rankMask_testBit i (0 + j) i' hi']
  rw [h1]
  have hd := split_at b.bits (i / 64) hk
  calc b.rank i
      = popSum (b.bits.take (i / 64)) + popcount (word b.bits (i / 64) &&& maskLE (i % 64)) := by
        unfold rank; simp only [wkey, wbit]; rw [popcount_shl_rank _ _ (by omega)]
    _ = maskedSum (rankMask i) 0 (b.bits.take (i / 64) ++ word b.bits (i / 64) :: b.bits.drop (i / 64 + 1)) := by
        rw [maskedSum_append, maskedSum, hlen, Nat.zero_add, maskedSum_full _ 0, maskedSum_zero _ (i / 64 + 1)]
        · have : rankMask i (i / 64) = maskLE (i % 64) := by
            unfold rankMask; rw [if_neg (by omega), if_pos rfl]
          rw [this]; omega
        · intro j _; unfold rankMask; rw [if_neg (by omega), if_neg (by omega)]
        · intro w hm; exact hb.words w (List.mem_of_mem_take hm)
        · intro j hj; rw [hlen] at hj; unfold rankMask; rw [if_pos (by omega)]
    _ = maskedSum (rankMask i) 0 b.bits := by rw [← hd]


/-! ## `select`, `remove_smallest`, `remove_biggest` -/

/-! ### word level: `popLow`, `popLowN`, `selectBit` on `bitPos` -/

theorem bitPos_zero : bitPos 0 = [] := by
  apply List.eq_nil_iff_forall_not_mem.mpr
  intro x hx
  rw [mem_bitPos] at hx
  simp at hx

theorem popLow_zero : popLow 0 = 0 := by simp [popLow]

theorem popLow_lt {w : Nat} (hw : w < 2^64) : popLow w < 2^64 := and_lt_left _ hw

theorem bitPos_eq_cons_popLow (w : Nat) (h0 : w ≠ 0) (hw : w < 2^64) :
    bitPos w = tz w :: bitPos (popLow w) := by
  have htz := tz_testBit w h0
  have hlt := tz_lt w h0 hw
  apply sorted_ext _ _ (sorted_bitPos w)
  · unfold Sorted
    rw [List.pairwise_cons]
    refine ⟨?_, sorted_bitPos _⟩
    intro x hx
    rw [mem_bitPos, popLow_testBit w h0] at hx
    simp only [Bool.and_eq_true, decide_eq_true_eq] at hx
    have h1 : ¬ x < tz w := by
      intro hc
      have := htz.2 x hc
      rw [this] at hx
      simp at hx
    omega
  · intro x
    rw [List.mem_cons, mem_bitPos, mem_bitPos, popLow_testBit w h0]
    simp only [Bool.and_eq_true, decide_eq_true_eq]
    constructor
    · rintro ⟨h1, h2⟩
      by_cases hx : x = tz w
      · exact Or.inl hx
      · exact Or.inr ⟨h1, h2, hx⟩
    · rintro (rfl | ⟨h1, h2, _⟩)
      · exact ⟨hlt, htz.1⟩
      · exact ⟨h1, h2⟩

theorem bitPos_popLow (w : Nat) (hw : w < 2^64) : bitPos (popLow w) = (bitPos w).tail := by
  by_cases h0 : w = 0
  · subst h0; rw [popLow_zero, bitPos_zero]; rfl
  · rw [bitPos_eq_cons_popLow w h0 hw]; rfl

theorem popLowN_lt (n : Nat) : ∀ {w : Nat}, w < 2^64 → popLowN w n < 2^64 := by
  induction n with
  | zero => intro w hw; exact hw
  | succ n ih => intro w hw; exact ih (popLow_lt hw)

theorem bitPos_popLowN (n : Nat) : ∀ (w : Nat), w < 2^64 → bitPos (popLowN w n) = (bitPos w).drop n := by
  induction n with
  | zero => intro w _; rfl
  | succ n ih =>
    intro w hw
    show bitPos (popLowN (popLow w) n) = _
    rw [ih _ (popLow_lt hw), bitPos_popLow w hw, List.drop_tail]

theorem bitPos_getElem?_selectBit (n : Nat) :
    ∀ (w : Nat), w < 2^64 → n < (bitPos w).length → (bitPos w)[n]? = some (selectBit w n) := by
  induction n with
  | zero =>
    intro w hw hn
    have h0 : w ≠ 0 := by
      intro h; subst h; rw [bitPos_zero] at hn; simp at hn
    rw [bitPos_eq_cons_popLow w h0 hw]; rfl
  | succ n ih =>
    intro w hw hn
    show _ = some (selectBit (popLow w) n)
    have hl : n < (bitPos (popLow w)).length := by
      rw [bitPos_popLow w hw, List.length_tail]; omega
    rw [← ih _ (popLow_lt hw) hl, bitPos_popLow w hw, List.getElem?_tail]

theorem bitsOf_popLowN (k w n : Nat) (hw : w < 2^64) : bitsOf k (popLowN w n) = (bitsOf k w).drop n := by
  unfold bitsOf
  rw [bitPos_popLowN n w hw, List.map_drop]

/-! ### `select` -/

theorem selectFrom_eq (ws : List Nat) : ∀ (k n : Nat), (∀ w ∈ ws, w < 2^64) →
    selectFrom k ws n = (toArrayFrom k ws)[n]? := by
  induction ws with
  | nil => intro k n _; simp [selectFrom, toArrayFrom]
  | cons w ws ih =>
    intro k n hws
    have hw : w < 2^64 := hws w (by simp)
    have hlen := length_bitsOf k w hw
    rw [toArrayFrom_cons k w ws hw]
    simp only [selectFrom]
    by_cases hn : n < popcount w
    · rw [if_pos hn, List.getElem?_append_left (by omega)]
      unfold bitsOf
      rw [List.getElem?_map, bitPos_getElem?_selectBit n w hw (by rw [← popcount_eq w hw]; exact hn)]
      rfl
    · rw [if_neg hn, List.getElem?_append_right (by omega), hlen]
      exact ih (k+1) (n - popcount w) (fun x hx => hws x (by simp [hx]))

theorem select_spec (b : BStore) (hb : b.Inv) (n : Nat) : b.select n = b.toArray[n]? :=
  selectFrom_eq b.bits 0 n hb.words

/-! ### `remove_smallest` -/

theorem length_rsLoop (ws : List Nat) : ∀ n, (rsLoop ws n).length = ws.length := by
  induction ws with
  | nil => intro n; rfl
  | cons w ws ih =>
    intro n
    simp only [rsLoop]
    split
    · rfl
    · split
      · rfl
      · simp [ih]

theorem rsLoop_lt (ws : List Nat) : ∀ n, (∀ w ∈ ws, w < 2^64) → ∀ w ∈ rsLoop ws n, w < 2^64 := by
  induction ws with
  | nil => intro n _ w hw; simp [rsLoop] at hw
  | cons w ws ih =>
    intro n hws
    have hw : w < 2^64 := hws w (by simp)
    have hws' : ∀ x ∈ ws, x < 2^64 := fun x hx => hws x (by simp [hx])
    simp only [rsLoop]
    split
    · intro x hx
      rw [List.mem_cons] at hx
      rcases hx with rfl | hx
      · exact popLowN_lt n hw
      · exact hws' x hx
    · split
      · intro x hx
        rw [List.mem_cons] at hx
        rcases hx with rfl | hx
        · decide
        · exact hws' x hx
      · intro x hx
        rw [List.mem_cons] at hx
        rcases hx with rfl | hx
        · decide
        · exact ih _ hws' x hx

theorem toArrayFrom_rsLoop (ws : List Nat) : ∀ (k n : Nat), (∀ w ∈ ws, w < 2^64) →
    toArrayFrom k (rsLoop ws n) = (toArrayFrom k ws).drop n := by
  induction ws with
  | nil => intro k n _; simp [rsLoop, toArrayFrom]
  | cons w ws ih =>
    intro k n hws
    have hw : w < 2^64 := hws w (by simp)
    have hws' : ∀ x ∈ ws, x < 2^64 := fun x hx => hws x (by simp [hx])
    have hlen := length_bitsOf k w hw
    have h0 : (0 : Nat) < 2^64 := by decide
    rw [toArrayFrom_cons k w ws hw]
    simp only [rsLoop]
    split
    · rename_i hn
      rw [toArrayFrom_cons _ _ _ (popLowN_lt n hw), bitsOf_popLowN k w n hw,
        List.drop_append_of_le_length (by omega)]
    · rename_i hn
      split
      · rename_i hn'
        rw [toArrayFrom_cons _ _ _ h0, bitsOf_zero, List.nil_append, List.drop_append, hlen,
          List.drop_eq_nil_of_le (by omega), List.nil_append, hn', List.drop_zero]
      · rw [toArrayFrom_cons _ _ _ h0, bitsOf_zero, List.nil_append, List.drop_append, hlen,
          List.drop_eq_nil_of_le (by omega), List.nil_append]
        exact ih (k+1) _ hws'

theorem removeSmallest_spec (b : BStore) (hb : b.Inv) (n : Nat) :
    (b.removeSmallest n).Inv ∧ (b.removeSmallest n).toArray = b.toArray.drop n := by
  unfold removeSmallest
  split
  · rename_i hn
    refine ⟨inv_new, ?_⟩
    rw [toArray_new, List.drop_eq_nil_of_le]
    rw [length_toArray b hb]; omega
  · rename_i hn
    have hlt := rsLoop_lt b.bits n hb.words
    have harr : toArrayFrom 0 (rsLoop b.bits n) = (toArrayFrom 0 b.bits).drop n :=
      toArrayFrom_rsLoop b.bits 0 n hb.words
    refine ⟨⟨?_, hlt, ?_⟩, harr⟩
    · show (rsLoop b.bits n).length = 1024
      rw [length_rsLoop]; exact hb.length
    · show b.len - n = popSum (rsLoop b.bits n)
      rw [← toArrayFrom_length 0 _ hlt, harr, List.length_drop, toArrayFrom_length 0 _ hb.words, hb.len]

/-! ### word level: `popHigh`, `popHighN` on `bitPos` -/

theorem popHigh_zero : popHigh 0 = 0 := by simp [popHigh]

theorem popHigh_lt {w : Nat} (hw : w < 2^64) : popHigh w < 2^64 := and_lt_left _ hw

theorem hiBit_lt (w : Nat) (h0 : w ≠ 0) (hw : w < 2^64) : hiBit w < 64 :=
  (Nat.log2_lt h0).mpr hw

theorem popHigh_testBit (w : Nat) (hw : w < 2^64) (i : Nat) :
    (popHigh w).testBit i = (w.testBit i && decide (i ≠ hiBit w)) := by
  unfold popHigh
  rw [Nat.testBit_and, not64_testBit, Nat.one_shiftLeft, Nat.testBit_two_pow]
  by_cases hi : i < 64
  · by_cases he : hiBit w = i
    · simp [hi, he]
    · have he' : i ≠ hiBit w := by omega
      simp [hi, he, he']
  · rw [testBit_ge64 hw (by omega)]; simp

/-- removing the maximum of a strictly ascending list drops its last element -/
theorem filter_ne_max_eq_dropLast (l : List Nat) (m : Nat) (hs : Sorted l) (hm : m ∈ l)
    (hmax : ∀ x ∈ l, x ≤ m) : l.filter (fun x => decide (x ≠ m)) = l.dropLast := by
  induction l with
  | nil => rfl
  | cons a l ih =>
    unfold Sorted at hs
    rw [List.pairwise_cons] at hs
    cases l with
    | nil =>
      have : m = a := by simpa using hm
      subst this
      simp
    | cons b l =>
      have hab : a < b := hs.1 b (by simp)
      have hbm : b ≤ m := hmax b (by simp)
      have ham : a ≠ m := by omega
      have hm' : m ∈ b :: l := by
        rw [List.mem_cons] at hm
        rcases hm with h | h
        · omega
        · exact h
      rw [List.dropLast_cons_cons, List.filter_cons_of_pos (by simpa using ham),
        ih hs.2 hm' (fun x hx => hmax x (by simp [hx]))]

theorem bitPos_popHigh (w : Nat) (hw : w < 2^64) : bitPos (popHigh w) = (bitPos w).dropLast := by
  by_cases h0 : w = 0
  · subst h0; rw [popHigh_zero, bitPos_zero]; rfl
  · have hhi := hiBit_testBit w h0
    have hlt := hiBit_lt w h0 hw
    rw [← filter_ne_max_eq_dropLast (bitPos w) (hiBit w) (sorted_bitPos w)]
    · unfold bitPos
      rw [List.filter_filter]
      apply List.filter_congr
      intro i _
      rw [popHigh_testBit w hw, Bool.and_comm]
    · rw [mem_bitPos]; exact ⟨hlt, hhi.1⟩
    · intro x hx
      rw [mem_bitPos] at hx
      apply Nat.le_of_not_lt
      intro hc
      have := hhi.2 x hc
      rw [this] at hx
      simp at hx

theorem popHighN_lt (n : Nat) : ∀ {w : Nat}, w < 2^64 → popHighN w n < 2^64 := by
  induction n with
  | zero => intro w hw; exact hw
  | succ n ih => intro w hw; exact ih (popHigh_lt hw)

theorem bitPos_popHighN (n : Nat) : ∀ (w : Nat), w < 2^64 →
    bitPos (popHighN w n) = (bitPos w).take ((bitPos w).length - n) := by
  induction n with
  | zero => intro w _; simp [popHighN]
  | succ n ih =>
    intro w hw
    show bitPos (popHighN (popHigh w) n) = _
    rw [ih _ (popHigh_lt hw), bitPos_popHigh w hw, List.length_dropLast, List.dropLast_eq_take,
      List.take_take]
    congr 1
    omega

theorem bitsOf_popHighN (k w n : Nat) (hw : w < 2^64) :
    bitsOf k (popHighN w n) = (bitsOf k w).take ((bitsOf k w).length - n) := by
  unfold bitsOf
  rw [bitPos_popHighN n w hw, List.map_take, List.length_map]

/-! ### `remove_biggest` -/

theorem toArrayFrom_snoc (k : Nat) (a : List Nat) (w : Nat) (hw : w < 2^64) :
    toArrayFrom k (a ++ [w]) = toArrayFrom k a ++ bitsOf (k + a.length) w := by
  rw [toArrayFrom_append, toArrayFrom_cons _ _ _ hw, toArrayFrom_nil, List.append_nil]

theorem length_rbLoop (ws : List Nat) : ∀ n, (rbLoop ws n).length = ws.length := by
  induction ws with
  | nil => intro n; rfl
  | cons w ws ih =>
    intro n
    simp only [rbLoop]
    split
    · rfl
    · split
      · rfl
      · simp [ih]

theorem rbLoop_lt (ws : List Nat) : ∀ n, (∀ w ∈ ws, w < 2^64) → ∀ w ∈ rbLoop ws n, w < 2^64 := by
  induction ws with
  | nil => intro n _ w hw; simp [rbLoop] at hw
  | cons w ws ih =>
    intro n hws
    have hw : w < 2^64 := hws w (by simp)
    have hws' : ∀ x ∈ ws, x < 2^64 := fun x hx => hws x (by simp [hx])
    simp only [rbLoop]
    split
    · intro x hx
      rw [List.mem_cons] at hx
      rcases hx with rfl | hx
      · exact popHighN_lt n hw
      · exact hws' x hx
    · split
      · intro x hx
        rw [List.mem_cons] at hx
        rcases hx with rfl | hx
        · decide
        · exact hws' x hx
      · intro x hx
        rw [List.mem_cons] at hx
        rcases hx with rfl | hx
        · decide
        · exact ih _ hws' x hx

theorem toArrayFrom_rbLoop (rs : List Nat) : ∀ (k n : Nat), (∀ w ∈ rs, w < 2^64) →
    toArrayFrom k (rbLoop rs n).reverse
      = (toArrayFrom k rs.reverse).take ((toArrayFrom k rs.reverse).length - n) := by
  induction rs with
  | nil => intro k n _; simp [rbLoop, toArrayFrom]
  | cons w rs ih =>
    intro k n hws
    have hw : w < 2^64 := hws w (by simp)
    have hws' : ∀ x ∈ rs, x < 2^64 := fun x hx => hws x (by simp [hx])
    have h0 : (0 : Nat) < 2^64 := by decide
    have hlen := length_bitsOf (k + rs.reverse.length) w hw
    rw [List.reverse_cons, toArrayFrom_snoc k _ w hw, List.length_append, List.take_append]
    simp only [rbLoop]
    split
    · rename_i hn
      have e1 : (toArrayFrom k rs.reverse).length + (bitsOf (k + rs.reverse.length) w).length - n
          - (toArrayFrom k rs.reverse).length = (bitsOf (k + rs.reverse.length) w).length - n := by omega
      have e2 : (toArrayFrom k rs.reverse).take ((toArrayFrom k rs.reverse).length
          + (bitsOf (k + rs.reverse.length) w).length - n) = toArrayFrom k rs.reverse :=
        List.take_of_length_le (by omega)
      rw [List.reverse_cons, toArrayFrom_snoc k _ _ (popHighN_lt n hw), bitsOf_popHighN _ w n hw, e1, e2]
    · rename_i hn
      have e1 : (toArrayFrom k rs.reverse).length + (bitsOf (k + rs.reverse.length) w).length - n
          - (toArrayFrom k rs.reverse).length = 0 := by omega
      rw [e1, List.take_zero, List.append_nil]
      split
      · rename_i hn'
        rw [List.reverse_cons, toArrayFrom_snoc k _ _ h0, bitsOf_zero, List.append_nil]
        exact (List.take_of_length_le (by omega)).symm
      · rw [List.reverse_cons, toArrayFrom_snoc k _ _ h0, bitsOf_zero, List.append_nil, ih k _ hws']
        congr 1
        omega

theorem removeBiggest_spec (b : BStore) (hb : b.Inv) (n : Nat) :
    (b.removeBiggest n).Inv ∧ (b.removeBiggest n).toArray = b.toArray.take (b.toArray.length - n) := by
  unfold removeBiggest
  split
  · rename_i hn
    refine ⟨inv_new, ?_⟩
    rw [toArray_new, length_toArray b hb]
    have : b.len - n = 0 := by omega
    rw [this, List.take_zero]
  · rename_i hn
    have hrev : ∀ w ∈ b.bits.reverse, w < 2^64 := fun w hw => hb.words w (by simpa using hw)
    have hlt : ∀ w ∈ (rbLoop b.bits.reverse n).reverse, w < 2^64 := fun w hw =>
      rbLoop_lt b.bits.reverse n hrev w (by simpa using hw)
    have harr : toArrayFrom 0 (rbLoop b.bits.reverse n).reverse
        = (toArrayFrom 0 b.bits).take ((toArrayFrom 0 b.bits).length - n) := by
      have := toArrayFrom_rbLoop b.bits.reverse 0 n hrev
      rw [List.reverse_reverse] at this
      exact this
    refine ⟨⟨?_, hlt, ?_⟩, harr⟩
    · show (rbLoop b.bits.reverse n).reverse.length = 1024
      rw [List.length_reverse, length_rbLoop, List.length_reverse]; exact hb.length
    · show b.len - n = popSum (rbLoop b.bits.reverse n).reverse
      rw [← toArrayFrom_length 0 _ hlt, harr, List.length_take, toArrayFrom_length 0 _ hb.words, hb.len]
      omega


/-! ### word-wise binary operations (`op_bitmaps`) and relations -/

theorem word_zipWith (f : Nat → Nat → Nat) (as bs : List Nat) (k : Nat)
    (h1 : k < as.length) (h2 : k < bs.length) :
    word (List.zipWith f as bs) k = f (word as k) (word bs k) := by
  rw [word_eq_getElem (by simp; omega), word_eq_getElem h1, word_eq_getElem h2, List.getElem_zipWith]

theorem test_div_lt {x : Nat} (hx : x < 65536) : x / 64 < 1024 := by omega

theorem opBitmaps_spec (f : Nat → Nat → Nat) (g : Bool → Bool → Bool)
    (hf : ∀ x y i, x < 2^64 → y < 2^64 → (f x y).testBit i = g (x.testBit i) (y.testBit i))
    (hlt : ∀ x y, x < 2^64 → y < 2^64 → f x y < 2^64)
    (a b : BStore) (ha : a.Inv) (hb : b.Inv) :
    (opBitmaps f a b).Inv ∧ ∀ x, x < 65536 → (opBitmaps f a b).test x = g (a.test x) (b.test x) := by
  refine ⟨⟨?_, ?_, rfl⟩, ?_⟩
  · show (List.zipWith f a.bits b.bits).length = 1024
    rw [List.length_zipWith, ha.length, hb.length]; rfl
  · intro w hw
    change w ∈ List.zipWith f a.bits b.bits at hw
    rw [List.mem_iff_getElem] at hw
    obtain ⟨k, hk, rfl⟩ := hw
    rw [List.getElem_zipWith]
    exact hlt _ _ (ha.words _ (List.getElem_mem _)) (hb.words _ (List.getElem_mem _))
  · intro x hx
    have hk := test_div_lt hx
    show (word (List.zipWith f a.bits b.bits) (x / 64)).testBit (x % 64) = _
    rw [word_zipWith f _ _ _ (by rw [ha.length]; exact hk) (by rw [hb.length]; exact hk),
      hf _ _ _ (word_lt ha.words _) (word_lt hb.words _)]
    rfl

theorem orB_spec (a b : BStore) (ha : a.Inv) (hb : b.Inv) :
    (orB a b).Inv ∧ ∀ x, x < 65536 → (orB a b).test x = (a.test x || b.test x) :=
  opBitmaps_spec (· ||| ·) (· || ·) (fun x y i _ _ => Nat.testBit_or x y i)
    (fun _ _ hx hy => or_lt hx hy) a b ha hb

theorem andB_spec (a b : BStore) (ha : a.Inv) (hb : b.Inv) :
    (andB a b).Inv ∧ ∀ x, x < 65536 → (andB a b).test x = (a.test x && b.test x) :=
  opBitmaps_spec (· &&& ·) (· && ·) (fun x y i _ _ => Nat.testBit_and x y i)
    (fun _ y hx _ => and_lt_left y hx) a b ha hb

theorem subB_spec (a b : BStore) (ha : a.Inv) (hb : b.Inv) :
    (subB a b).Inv ∧ ∀ x, x < 65536 → (subB a b).test x = (a.test x && !b.test x) :=
  opBitmaps_spec (fun l r => l &&& not64 r) (fun p q => p && !q)
    (fun x y i hx hy => by
      show (x &&& not64 y).testBit i = (x.testBit i && !y.testBit i)
      rw [Nat.testBit_and, not64_testBit_of_lt hy]
      by_cases hi : i < 64
      · simp [hi]
      · simp [hi, testBit_ge64 hx (Nat.le_of_not_lt hi)])
    (fun _ y hx _ => and_lt_left _ hx) a b ha hb

theorem xorB_spec (a b : BStore) (ha : a.Inv) (hb : b.Inv) :
    (xorB a b).Inv ∧ ∀ x, x < 65536 → (xorB a b).test x = (a.test x != b.test x) :=
  opBitmaps_spec (· ^^^ ·) (fun p q => p != q) (fun x y i _ _ => by
      show (x ^^^ y).testBit i = _
      rw [Nat.testBit_xor])
    (fun _ _ hx hy => xor_lt hx hy) a b ha hb

/-! ### relations -/

theorem all_zipWith_iff (f : Nat → Nat → Bool) (as bs : List Nat) (n : Nat)
    (h1 : as.length = n) (h2 : bs.length = n) :
    (List.zipWith f as bs).all id = true ↔ ∀ k, k < n → f (word as k) (word bs k) = true := by
  rw [List.all_eq_true]
  constructor
  · intro h k hk
    have hk1 : k < as.length := by omega
    have hk2 : k < bs.length := by omega
    have hk3 : k < (List.zipWith f as bs).length := by simp; omega
    have := h _ (List.getElem_mem hk3)
    rw [List.getElem_zipWith] at this
    rw [word_eq_getElem hk1, word_eq_getElem hk2]; exact this
  · intro h x hx
    rw [List.mem_iff_getElem] at hx
    obtain ⟨k, hk, rfl⟩ := hx
    have hk' : k < n := by simp at hk; omega
    have := h k hk'
    rw [word_eq_getElem (by omega), word_eq_getElem (by omega)] at this
    rw [List.getElem_zipWith]; exact this

theorem forall_pos_iff (P : Nat → Nat → Prop) :
    (∀ x, x < 65536 → P (x / 64) (x % 64)) ↔ ∀ k, k < 1024 → ∀ i, i < 64 → P k i := by
  constructor
  · intro h k hk i hi
    have := h (64 * k + i) (by omega)
    have e1 : (64 * k + i) / 64 = k := by omega
    have e2 : (64 * k + i) % 64 = i := by omega
    rw [e1, e2] at this; exact this
  · intro h x hx
    exact h _ (by omega) _ (Nat.mod_lt _ (by decide))

theorem and_eq_zero_iff_bits {x : Nat} (y : Nat) (hx : x < 2^64) :
    (x &&& y == 0) = true ↔ ∀ i, i < 64 → ¬ (x.testBit i = true ∧ y.testBit i = true) := by
  rw [beq_iff_eq]
  constructor
  · intro h i _ hc
    have : (x &&& y).testBit i = true := by rw [Nat.testBit_and, hc.1, hc.2]; rfl
    rw [h] at this; simp at this
  · intro h
    apply word_ext (and_lt_left y hx) (by decide)
    intro i hi
    rw [Nat.testBit_and, Nat.zero_testBit]
    have := h i hi
    cases hxi : x.testBit i <;> cases hyi : y.testBit i <;> simp_all

theorem and_eq_left_iff_bits {x : Nat} (y : Nat) (hx : x < 2^64) :
    (x &&& y == x) = true ↔ ∀ i, i < 64 → x.testBit i = true → y.testBit i = true := by
  rw [beq_iff_eq]
  constructor
  · intro h i _ hc
    rw [← h, Nat.testBit_and] at hc
    simp at hc; exact hc.2
  · intro h
    apply word_ext (and_lt_left y hx) hx
    intro i hi
    rw [Nat.testBit_and]
    have := h i hi
    cases hxi : x.testBit i <;> cases hyi : y.testBit i <;> simp_all

theorem isDisjoint_spec (a b : BStore) (ha : a.Inv) (hb : b.Inv) :
    a.isDisjoint b = true ↔ ∀ x, x < 65536 → ¬ (a.test x = true ∧ b.test x = true) := by
  unfold isDisjoint
  rw [all_zipWith_iff _ _ _ 1024 ha.length hb.length]
  show _ ↔ ∀ x, x < 65536 → ¬ ((word a.bits (x / 64)).testBit (x % 64) = true ∧
    (word b.bits (x / 64)).testBit (x % 64) = true)
  rw [forall_pos_iff (fun k i => ¬ ((word a.bits k).testBit i = true ∧ (word b.bits k).testBit i = true))]
  constructor
  · intro h k hk
    exact (and_eq_zero_iff_bits _ (word_lt ha.words k)).mp (h k hk)
  · intro h k hk
    exact (and_eq_zero_iff_bits _ (word_lt ha.words k)).mpr (h k hk)

theorem isSubset_spec (a b : BStore) (ha : a.Inv) (hb : b.Inv) :
    a.isSubset b = true ↔ ∀ x, x < 65536 → a.test x = true → b.test x = true := by
  unfold isSubset
  rw [all_zipWith_iff _ _ _ 1024 ha.length hb.length]
  show _ ↔ ∀ x, x < 65536 → (word a.bits (x / 64)).testBit (x % 64) = true →
    (word b.bits (x / 64)).testBit (x % 64) = true
  rw [forall_pos_iff (fun k i => (word a.bits k).testBit i = true → (word b.bits k).testBit i = true)]
  constructor
  · intro h k hk
    exact (and_eq_left_iff_bits _ (word_lt ha.words k)).mp (h k hk)
  · intro h k hk
    exact (and_eq_left_iff_bits _ (word_lt ha.words k)).mpr (h k hk)

/-! ### bitmap ⊕ array -/

theorem orArr_eq_foldl (b : BStore) (v : List Nat) :
    b.orArr v = v.foldl (fun b i => (b.insert i).1) b := rfl

theorem subArr_eq_foldl (b : BStore) (v : List Nat) :
    b.subArr v = v.foldl (fun b i => (b.remove i).1) b := rfl

theorem orArr_spec (b : BStore) (hb : b.Inv) (v : List Nat) (hv : ∀ x ∈ v, x < 65536) :
    (b.orArr v).Inv ∧ ∀ x, x < 65536 → (b.orArr v).test x = (b.test x || decide (x ∈ v)) := by
  rw [orArr_eq_foldl]
  induction v generalizing b with
  | nil => exact ⟨hb, fun x _ => by simp⟩
  | cons i v ih =>
    have hi : i < 65536 := hv i (by simp)
    obtain ⟨h1, h2, _⟩ := insert_spec b hb i hi
    obtain ⟨h3, h4⟩ := ih (b.insert i).1 h1 (fun x hx => hv x (by simp [hx]))
    rw [List.foldl_cons]
    refine ⟨h3, fun x hx => ?_⟩
    rw [h4 x hx, h2 x hx]
    by_cases e : x = i <;> simp [e]

theorem subArr_spec (b : BStore) (hb : b.Inv) (v : List Nat) (hv : ∀ x ∈ v, x < 65536) :
    (b.subArr v).Inv ∧ ∀ x, x < 65536 → (b.subArr v).test x = (b.test x && !decide (x ∈ v)) := by
  rw [subArr_eq_foldl]
  induction v generalizing b with
  | nil => exact ⟨hb, fun x _ => by simp⟩
  | cons i v ih =>
    have hi : i < 65536 := hv i (by simp)
    obtain ⟨h1, h2, _⟩ := remove_spec b hb i hi
    obtain ⟨h3, h4⟩ := ih (b.remove i).1 h1 (fun x hx => hv x (by simp [hx]))
    rw [List.foldl_cons]
    refine ⟨h3, fun x hx => ?_⟩
    rw [h4 x hx, h2 x hx]
    by_cases e : x = i <;> simp [e]

/-! ### intersection cardinalities -/

theorem and_shl_shr_eq (old bit : Nat) :
    (old &&& (1 <<< bit)) >>> bit = (old.testBit bit).toNat := by
  apply Nat.eq_of_testBit_eq
  intro j
  rw [Nat.testBit_shiftRight, Nat.testBit_and, Nat.one_shiftLeft, Nat.testBit_two_pow,
    Nat.testBit_bool_toNat]
  by_cases h : j = 0
  · subst h; simp
  · have : ¬ bit = bit + j := by omega
    simp [h]

theorem interLenArray_foldl (b : BStore) (v : List Nat) (acc : Nat) :
    v.foldl (fun acc i =>
      let old := word b.bits (wkey i)
      acc + ((old &&& (1 <<< wbit i)) >>> wbit i)) acc
      = acc + (v.filter (fun x => b.test x)).length := by
  induction v generalizing acc with
  | nil => simp
  | cons i v ih =>
    rw [List.foldl_cons, ih]
    simp only [and_shl_shr_eq, List.filter_cons]
    have e : (word b.bits (wkey i)).testBit (wbit i) = b.test i := rfl
    rw [e]
    cases b.test i <;> simp <;> omega

set_option linter.unusedVariables false in
theorem interLenArray_spec (b : BStore) (hb : b.Inv) (v : List Nat) (hv : ∀ x ∈ v, x < 65536) :
    b.interLenArray v = (v.filter (fun x => b.test x)).length := by
  unfold interLenArray
  rw [interLenArray_foldl]; omega

theorem word_cons_zero (y : Nat) (bs : List Nat) : word (y :: bs) 0 = y := rfl
theorem word_cons_succ (y : Nat) (bs : List Nat) (j : Nat) : word (y :: bs) (j + 1) = word bs j := by
  simp [word]

theorem foldl_zipWith_popcount_and (M : Nat → Nat) (as bs : List Nat) (k acc : Nat)
    (hl : as.length ≤ bs.length) (hM : ∀ j, j < bs.length → word bs j = M (k + j)) :
    (List.zipWith (fun x y => popcount (x &&& y)) as bs).foldl (· + ·) acc
      = acc + maskedSum M k as := by
  induction as generalizing bs k acc with
  | nil => simp [maskedSum]
  | cons x as ih =>
    cases bs with
    | nil => simp at hl
    | cons y bs =>
      rw [List.zipWith_cons_cons, List.foldl_cons, maskedSum,
        ih bs (k + 1) _ (by simpa using hl)]
      · have h0 := hM 0 (by simp)
        rw [word_cons_zero, Nat.add_zero] at h0
        rw [h0]; omega
      · intro j hj
        have := hM (j + 1) (by simp; omega)
        rw [word_cons_succ] at this
        rw [this]; congr 1; omega

theorem interLenBitmap_spec (a b : BStore) (ha : a.Inv) (hb : b.Inv) :
    a.interLenBitmap b = (a.toArray.filter (fun x => b.test x)).length := by
  unfold interLenBitmap toArray
  rw [filter_toArrayFrom_length (fun j => word b.bits j) (fun x => b.test x) 0 a.bits ha.words,
    foldl_zipWith_popcount_and (fun j => word b.bits j) a.bits b.bits 0 0
      (by rw [ha.length, hb.length]; exact Nat.le_refl _) (fun j _ => by simp)]
  · omega
  · intro j i _ hi
    show _ = (word b.bits ((64 * (0 + j) + i) / 64)).testBit ((64 * (0 + j) + i) % 64)
    have e1 : (64 * (0 + j) + i) / 64 = 0 + j := by omega
    have e2 : (64 * (0 + j) + i) % 64 = i := by omega
    rw [e1, e2]

/-! ### `bitxor_assign(&ArrayStore)` -/

theorem xor_bit_eq_or {old bit : Nat} (h : old.testBit bit = false) :
    old ^^^ (1 <<< bit) = old ||| (1 <<< bit) := by
  apply Nat.eq_of_testBit_eq
  intro j
  rw [Nat.testBit_xor, Nat.testBit_or, Nat.one_shiftLeft, Nat.testBit_two_pow]
  by_cases e : bit = j
  · subst e; simp [h]
  · simp [e]

theorem xor_bit_eq_and_not {old bit : Nat} (hold : old < 2^64) (hbit : bit < 64)
    (h : old.testBit bit = true) :
    old ^^^ (1 <<< bit) = old &&& not64 (1 <<< bit) := by
  apply Nat.eq_of_testBit_eq
  intro j
  rw [Nat.testBit_xor, Nat.testBit_and, not64_testBit, Nat.one_shiftLeft, Nat.testBit_two_pow]
  by_cases e : bit = j
  · subst e; simp [h, hbit]
  · by_cases hj : j < 64
    · simp [e, hj]
    · simp [e, hj, testBit_ge64 hold (Nat.le_of_not_lt hj)]

theorem xor_xor_bit_shr (old bit : Nat) : (old ^^^ (old ^^^ (1 <<< bit))) >>> bit = 1 := by
  rw [← Nat.xor_assoc, Nat.xor_self, Nat.zero_xor, Nat.shiftLeft_shiftRight]

theorem bit_and_shr_eq (old bit : Nat) :
    ((1 <<< bit) &&& old) >>> bit = (old.testBit bit).toNat := by
  rw [Nat.and_comm, and_shl_shr_eq]

/-- one iteration of the `bitxor_assign(&ArrayStore)` loop, on the pair (`i64` length, words) -/
def xorArrStep (p : Int × List Nat) (i : Nat) : Int × List Nat :=
  let k := wkey i; let bit := wbit i
  let old := word p.2 k
  let new := old ^^^ (1 <<< bit)
  (p.1 + 1 - 2 * (((1 <<< bit) &&& old) >>> bit : Nat), p.2.set k new)

theorem xorArr_eq_foldl (b : BStore) (v : List Nat) :
    b.xorArr v =
      { len := ((v.foldl xorArrStep ((b.len : Int), b.bits)).1 % (W : Int)).toNat,
        bits := (v.foldl xorArrStep ((b.len : Int), b.bits)).2 } := rfl

theorem one_le_popcount_of_testBit {w bit : Nat} (hw : w < 2^64) (hbit : bit < 64)
    (h : w.testBit bit = true) : 1 ≤ popcount w := by
  rw [popcount_eq w hw]
  exact List.length_pos_of_mem ((mem_bitPos w bit).mpr ⟨hbit, h⟩)

theorem popcount_word_le_popSum (bits : List Nat) (k : Nat) (hk : k < bits.length) :
    popcount (word bits k) ≤ popSum bits := by
  have := congrArg popSum (split_at bits k hk)
  rw [popSum_append, popSum_cons] at this
  omega

theorem xorArrStep_spec (b : BStore) (hb : b.Inv) (i : Nat) (hi : i < 65536) :
    ∃ b' : BStore, b'.Inv ∧ xorArrStep ((b.len : Int), b.bits) i = ((b'.len : Int), b'.bits) ∧
      ∀ x, x < 65536 → b'.test x = (b.test x != decide (x = i)) := by
  have hbit : wbit i < 64 := Nat.mod_lt _ (by decide)
  have hk : wkey i < b.bits.length := by rw [hb.length]; unfold wkey; omega
  have hold : word b.bits (wkey i) < 2^64 := word_lt hb.words _
  have ht : b.test i = (word b.bits (wkey i)).testBit (wbit i) := rfl
  cases hc : b.test i with
  | false =>
    obtain ⟨h1, h2, _⟩ := insert_spec b hb i hi
    rw [ht] at hc
    refine ⟨(b.insert i).1, h1, ?_, ?_⟩
    · simp only [xorArrStep, insert, bit_and_shr_eq, hc, ← xor_bit_eq_or hc, xor_xor_bit_shr]
      simp
    · intro x hx
      rw [h2 x hx]
      by_cases e : x = i
      · subst e; rw [ht, hc]; simp
      · simp [e]
  | true =>
    obtain ⟨h1, h2, _⟩ := remove_spec b hb i hi
    rw [ht] at hc
    have hlen : 1 ≤ b.len := by
      rw [hb.len]
      exact Nat.le_trans (one_le_popcount_of_testBit hold hbit hc) (popcount_word_le_popSum _ _ hk)
    refine ⟨(b.remove i).1, h1, ?_, ?_⟩
    · simp only [xorArrStep, remove, bit_and_shr_eq, hc, ← xor_bit_eq_and_not hold hbit hc,
        xor_xor_bit_shr]
      simp; omega
    · intro x hx
      rw [h2 x hx]
      by_cases e : x = i
      · subst e; rw [ht, hc]; simp
      · simp [e]

theorem xorArr_foldl_spec (v : List Nat) (hs : Sorted v) (hv : ∀ x ∈ v, x < 65536)
    (b : BStore) (hb : b.Inv) :
    ∃ b' : BStore, b'.Inv ∧ v.foldl xorArrStep ((b.len : Int), b.bits) = ((b'.len : Int), b'.bits) ∧
      ∀ x, x < 65536 → b'.test x = (b.test x != decide (x ∈ v)) := by
  induction v generalizing b with
  | nil => exact ⟨b, hb, rfl, fun x _ => by simp⟩
  | cons i v ih =>
    unfold Sorted at hs
    rw [List.pairwise_cons] at hs
    obtain ⟨b1, hb1, e1, t1⟩ := xorArrStep_spec b hb i (hv i (by simp))
    obtain ⟨b2, hb2, e2, t2⟩ := ih hs.2 (fun x hx => hv x (by simp [hx])) b1 hb1
    refine ⟨b2, hb2, ?_, ?_⟩
    · rw [List.foldl_cons, e1, e2]
    · intro x hx
      rw [t2 x hx, t1 x hx]
      by_cases e : x = i
      · subst e
        have : x ∉ v := fun hm => Nat.lt_irrefl _ (hs.1 x hm)
        simp [this]
      · simp [e]

theorem xorArr_spec (b : BStore) (hb : b.Inv) (v : List Nat) (hv : Arr.Inv v) :
    (b.xorArr v).Inv ∧ ∀ x, x < 65536 → (b.xorArr v).test x = (b.test x != decide (x ∈ v)) := by
  obtain ⟨b', hb', e, t⟩ := xorArr_foldl_spec v hv.1 hv.2 b hb
  have hle : b'.len ≤ 65536 := by
    rw [len_eq_countP b' hb']
    have := List.countP_le_length (p := fun x => b'.test x) (l := List.range 65536)
    simpa using this
  have hW : (W : Int) = 18446744073709551616 := rfl
  have : b.xorArr v = b' := by
    rw [xorArr_eq_foldl, e]
    show ({ len := ((b'.len : Int) % (W : Int)).toNat, bits := b'.bits } : BStore) = b'
    have : ((b'.len : Int) % (W : Int)).toNat = b'.len := by
      rw [hW]; omega
    rw [this]
  rw [this]
  exact ⟨hb', t⟩

end BStore
end Roaring
