import RoaringModel.Lemmas.BStoreBasic
/-!
# BitmapStore range operations, rank/select, remove_smallest/biggest (bitmap_store.rs)

Statements are about `Roaring.BStore.*` under `BStore.Inv b`; `b.test i` is bit `i`, `b.toArray` the ascending list of
set bits (facts about it: `Lemmas/BStoreBasic.lean`, proved in parallel by another agent — use them freely).
-/
namespace Roaring
namespace BStore

/-- number of set bits inside `[s, e]` -/
def countIn (b : BStore) (s e : Nat) : Nat := (b.toArray.filter (fun x => decide (s ≤ x) && decide (x ≤ e))).length

/-- guard `s ≤ e`: `Store::insert_range` returns early on an empty range -/
theorem insertRange_spec (b : BStore) (hb : b.Inv) (s e : Nat) (hse : s ≤ e) (he : e < 65536) :
    (b.insertRange s e).1.Inv ∧
    (∀ x, x < 65536 → (b.insertRange s e).1.test x = ((decide (s ≤ x) && decide (x ≤ e)) || b.test x)) ∧
    (b.insertRange s e).2 = (e - s + 1) - b.countIn s e := by sorry

theorem removeRange_spec (b : BStore) (hb : b.Inv) (s e : Nat) (hse : s ≤ e) (he : e < 65536) :
    (b.removeRange s e).1.Inv ∧
    (∀ x, x < 65536 → (b.removeRange s e).1.test x = (!(decide (s ≤ x) && decide (x ≤ e)) && b.test x)) ∧
    (b.removeRange s e).2 = b.countIn s e := by sorry

theorem containsRange_spec (b : BStore) (hb : b.Inv) (s e : Nat) (hse : s ≤ e) (he : e < 65536) :
    b.containsRange s e = true ↔ ∀ x, s ≤ x → x ≤ e → b.test x = true := by sorry

theorem rank_spec (b : BStore) (hb : b.Inv) (i : Nat) (hi : i < 65536) :
    b.rank i = (b.toArray.filter (· ≤ i)).length := by sorry

theorem select_spec (b : BStore) (hb : b.Inv) (n : Nat) : b.select n = b.toArray[n]? := by sorry

/-- `remove_smallest(n)` with `n ≤ len` drops the `n` smallest values; with `n > len` it clears -/
theorem removeSmallest_spec (b : BStore) (hb : b.Inv) (n : Nat) :
    (b.removeSmallest n).Inv ∧ (b.removeSmallest n).toArray = b.toArray.drop n := by sorry

theorem removeBiggest_spec (b : BStore) (hb : b.Inv) (n : Nat) :
    (b.removeBiggest n).Inv ∧ (b.removeBiggest n).toArray = b.toArray.take (b.toArray.length - n) := by sorry

/-! ### word-wise binary operations (`op_bitmaps`) and relations -/
theorem opBitmaps_spec (f : Nat → Nat → Nat) (g : Bool → Bool → Bool)
    (hf : ∀ x y i, x < 2^64 → y < 2^64 → (f x y).testBit i = g (x.testBit i) (y.testBit i))
    (hlt : ∀ x y, x < 2^64 → y < 2^64 → f x y < 2^64)
    (a b : BStore) (ha : a.Inv) (hb : b.Inv) :
    (opBitmaps f a b).Inv ∧ ∀ x, x < 65536 → (opBitmaps f a b).test x = g (a.test x) (b.test x) := by sorry

theorem orB_spec (a b : BStore) (ha : a.Inv) (hb : b.Inv) :
    (orB a b).Inv ∧ ∀ x, x < 65536 → (orB a b).test x = (a.test x || b.test x) := by sorry
theorem andB_spec (a b : BStore) (ha : a.Inv) (hb : b.Inv) :
    (andB a b).Inv ∧ ∀ x, x < 65536 → (andB a b).test x = (a.test x && b.test x) := by sorry
theorem subB_spec (a b : BStore) (ha : a.Inv) (hb : b.Inv) :
    (subB a b).Inv ∧ ∀ x, x < 65536 → (subB a b).test x = (a.test x && !b.test x) := by sorry
theorem xorB_spec (a b : BStore) (ha : a.Inv) (hb : b.Inv) :
    (xorB a b).Inv ∧ ∀ x, x < 65536 → (xorB a b).test x = (a.test x != b.test x) := by sorry

theorem orArr_spec (b : BStore) (hb : b.Inv) (v : List Nat) (hv : ∀ x ∈ v, x < 65536) :
    (b.orArr v).Inv ∧ ∀ x, x < 65536 → (b.orArr v).test x = (b.test x || decide (x ∈ v)) := by sorry
theorem subArr_spec (b : BStore) (hb : b.Inv) (v : List Nat) (hv : ∀ x ∈ v, x < 65536) :
    (b.subArr v).Inv ∧ ∀ x, x < 65536 → (b.subArr v).test x = (b.test x && !decide (x ∈ v)) := by sorry
/-- needs a duplicate-free `v`: a value occurring twice would be toggled twice -/
theorem xorArr_spec (b : BStore) (hb : b.Inv) (v : List Nat) (hv : Arr.Inv v) :
    (b.xorArr v).Inv ∧ ∀ x, x < 65536 → (b.xorArr v).test x = (b.test x != decide (x ∈ v)) := by sorry

theorem isDisjoint_spec (a b : BStore) (ha : a.Inv) (hb : b.Inv) :
    a.isDisjoint b = true ↔ ∀ x, x < 65536 → ¬ (a.test x = true ∧ b.test x = true) := by sorry
theorem isSubset_spec (a b : BStore) (ha : a.Inv) (hb : b.Inv) :
    a.isSubset b = true ↔ ∀ x, x < 65536 → a.test x = true → b.test x = true := by sorry
theorem interLenBitmap_spec (a b : BStore) (ha : a.Inv) (hb : b.Inv) :
    a.interLenBitmap b = (a.toArray.filter (fun x => b.test x)).length := by sorry
theorem interLenArray_spec (b : BStore) (hb : b.Inv) (v : List Nat) (hv : ∀ x ∈ v, x < 65536) :
    b.interLenArray v = (v.filter (fun x => b.test x)).length := by sorry

end BStore
end Roaring
