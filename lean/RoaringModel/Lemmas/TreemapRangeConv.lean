import RoaringModel.Treemap
import RoaringModel.Spec
import RoaringModel.Inv
/-!
# `convert_range_to_inclusive` on `u64` (treemap/util.rs) computes the specification's interval
-/
namespace Roaring
namespace Treemap

private theorem upper_excl (maxV e : Nat) :
    Spec.upper maxV (.excl e) = if e = 0 then none else some (min (e - 1) maxV) := by
  cases e with
  | zero => rfl
  | succ n => simp [Spec.upper]

/-- for `u64` bounds, `convert_range_to_inclusive` returns exactly the inclusive interval of the SPEC
    (`None` ⇔ the range is empty) -/
theorem convertRange64_interval (lo hi : Bound) (hlo : Bound.le u64Max lo) (hhi : Bound.le u64Max hi) :
    convertRange64 lo hi = Spec.interval u64Max lo hi := by
  cases lo with
  | incl s =>
    cases hi with
    | incl e =>
      simp only [Bound.le] at hlo hhi
      simp only [convertRange64, Spec.interval, Spec.upper, Spec.lower, Nat.min_eq_left hhi]
      by_cases h : e < s
      · have h' : ¬ s ≤ e := by omega
        simp [h, h']
      · have h' : s ≤ e := by omega
        simp [h, h']
    | excl e =>
      simp only [Bound.le] at hlo hhi
      simp only [convertRange64, Spec.interval, upper_excl, Spec.lower]
      by_cases h0 : e = 0
      · simp [h0]
      · have : min (e - 1) u64Max = e - 1 := Nat.min_eq_left (by omega)
        simp only [h0, ↓reduceIte, this]
        by_cases h : e - 1 < s
        · have h' : ¬ s ≤ e - 1 := by omega
          simp [h, h']
        · have h' : s ≤ e - 1 := by omega
          simp [h, h']
    | unb =>
      simp only [Bound.le] at hlo
      simp only [convertRange64, Spec.interval, Spec.upper, Spec.lower]
      have : ¬ u64Max < s := by omega
      simp [this, hlo]
  | excl s =>
    simp only [Bound.le] at hlo
    by_cases hs : s = u64Max
    · -- nothing is admitted above `u64::MAX`
      have hnone : convertRange64 (.excl s) hi = none := by simp [convertRange64, hs]
      rw [hnone]
      cases hi with
      | incl e =>
        simp only [Bound.le] at hhi
        simp only [Spec.interval, Spec.upper, Spec.lower, Nat.min_eq_left hhi]
        have : ¬ s + 1 ≤ e := by omega
        simp [this]
      | excl e =>
        simp only [Bound.le] at hhi
        simp only [Spec.interval, upper_excl, Spec.lower]
        by_cases h0 : e = 0
        · simp [h0]
        · have : min (e - 1) u64Max = e - 1 := Nat.min_eq_left (by omega)
          have h2 : ¬ s + 1 ≤ e - 1 := by omega
          simp [h0, this, h2]
      | unb =>
        simp only [Spec.interval, Spec.upper, Spec.lower]
        have : ¬ s + 1 ≤ u64Max := by omega
        simp [this]
    · cases hi with
      | incl e =>
        simp only [Bound.le] at hhi
        simp only [convertRange64, hs, ↓reduceIte, Spec.interval, Spec.upper, Spec.lower, Nat.min_eq_left hhi]
        by_cases h : e < s + 1
        · have h' : ¬ s + 1 ≤ e := by omega
          simp [h, h']
        · have h' : s + 1 ≤ e := by omega
          simp [h, h']
      | excl e =>
        simp only [Bound.le] at hhi
        simp only [convertRange64, hs, ↓reduceIte, Spec.interval, upper_excl, Spec.lower]
        by_cases h0 : e = 0
        · simp [h0]
        · have : min (e - 1) u64Max = e - 1 := Nat.min_eq_left (by omega)
          simp only [h0, ↓reduceIte, this]
          by_cases h : e - 1 < s + 1
          · have h' : ¬ s + 1 ≤ e - 1 := by omega
            simp [h, h']
          · have h' : s + 1 ≤ e - 1 := by omega
            simp [h, h']
      | unb =>
        simp only [convertRange64, hs, ↓reduceIte, Spec.interval, Spec.upper, Spec.lower]
        have h1 : ¬ u64Max < s + 1 := by omega
        have h2 : s + 1 ≤ u64Max := by omega
        simp [h1, h2]
  | unb =>
    cases hi with
    | incl e =>
      simp only [Bound.le] at hhi
      simp [convertRange64, Spec.interval, Spec.upper, Spec.lower, Nat.min_eq_left hhi]
    | excl e =>
      simp only [Bound.le] at hhi
      simp only [convertRange64, Spec.interval, upper_excl, Spec.lower]
      by_cases h0 : e = 0
      · simp [h0]
      · have : min (e - 1) u64Max = e - 1 := Nat.min_eq_left (by omega)
        simp [h0, this]
    | unb => simp [convertRange64, Spec.interval, Spec.upper, Spec.lower]

/-- what the interval says about its end points -/
theorem interval64_bounds {lo hi : Bound} {a b : Nat} (h : Spec.interval u64Max lo hi = some (a, b)) :
    a ≤ b ∧ b ≤ u64Max := by
  unfold Spec.interval at h
  cases hu : Spec.upper u64Max hi with
  | none => rw [hu] at h; cases h
  | some m =>
    rw [hu] at h
    simp only [] at h
    have hm : m ≤ u64Max := by
      cases hi with
      | incl e => simp only [Spec.upper, Option.some.injEq] at hu; omega
      | excl e =>
        rw [upper_excl] at hu
        by_cases h0 : e = 0
        · simp [h0] at hu
        · simp only [h0, ↓reduceIte, Option.some.injEq] at hu; omega
      | unb => simp only [Spec.upper, Option.some.injEq] at hu; omega
    by_cases hl : Spec.lower lo ≤ m
    · simp only [hl, ↓reduceIte, Option.some.injEq, Prod.mk.injEq] at h
      omega
    · simp [hl] at h

end Treemap
end Roaring
