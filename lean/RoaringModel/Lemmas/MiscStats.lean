import RoaringModel.Lemmas.MiscWF
/-! Helper lemmas for the C20 theorems (statistics / serialized_size of well-formed bitmaps) -/
namespace Roaring.MiscLemmas
open Roaring

theorem cards_eq (b : Bitmap) (h : BitmapWF b) :
    (Spec.groups (Bitmap.elems b)).map (·.2) = b.map Container.len := by
  rw [groups_elems b h, List.map_map]; rfl

theorem filter_arr (b : Bitmap) (h : BitmapWF b) :
    b.filter (fun c => match c.store with | .array _ => true | .bitmap _ => false)
      = b.filter (fun c => decide (c.len ≤ 4096)) := by
  apply List.filter_congr
  intro c hc
  have hw := (h.2 c hc).2
  cases hs : c.store with
  | array v => rw [hs] at hw; have := hw.2.2.2; simp [Container.len, hs, Store.len]; omega
  | bitmap bs => rw [hs] at hw; have := hw.2.2.2; simp [Container.len, hs, Store.len]; omega

theorem filter_bm (b : Bitmap) (h : BitmapWF b) :
    b.filter (fun c => match c.store with | .array _ => false | .bitmap _ => true)
      = b.filter (fun c => decide (4096 < c.len)) := by
  apply List.filter_congr
  intro c hc
  have hw := (h.2 c hc).2
  cases hs : c.store with
  | array v => rw [hs] at hw; have := hw.2.2.2; simp [Container.len, hs, Store.len]; omega
  | bitmap bs => rw [hs] at hw; have := hw.2.2.2; simp [Container.len, hs, Store.len]; omega

theorem foldl_add {α} (f : α → Nat) (l : List α) (acc : Nat) :
    l.foldl (fun acc c => acc + f c) acc = acc + Spec.sum (l.map f) := by
  induction l generalizing acc with
  | nil => simp [Spec.sum]
  | cons c cs ih =>
    simp only [List.foldl_cons, List.map_cons]; rw [ih]; simp [Spec.sum]; omega

/-- kernel facts about a bitset store's `min()` / `max()` (C07's order-statistics lemmas):
    they are the first / last element of its ascending element list -/
def BStoreMinMax (bs : BStore) : Prop :=
  bs.min? = bs.toArray.head? ∧ bs.max? = bs.toArray.getLast?

theorem store_min (c : Container) (hK : ∀ bs, c.store = .bitmap bs → BStoreMinMax bs) :
    c.min?.map (Bitmap.join c.key) = c.elems.head? := by
  simp only [Container.min?, Container.elems, List.head?_map]
  cases hs : c.store with
  | array v => simp [Store.min?, Store.elems, Arr.min?] <;> rfl
  | bitmap bs => simp [Store.min?, Store.elems, (hK bs hs).1] <;> rfl

theorem store_max (c : Container) (hK : ∀ bs, c.store = .bitmap bs → BStoreMinMax bs) :
    c.max?.map (Bitmap.join c.key) = c.elems.getLast? := by
  simp only [Container.max?, Container.elems, List.getLast?_map]
  cases hs : c.store with
  | array v => simp [Store.max?, Store.elems, Arr.max?] <;> rfl
  | bitmap bs => simp [Store.max?, Store.elems, (hK bs hs).2] <;> rfl

theorem container_elems_ne_nil (c : Container) (h : StoreWF c.store) : c.elems ≠ [] := by
  intro he
  have hl := container_elems_length c h
  have := store_len_pos c.store h
  rw [he] at hl; simp [Container.len] at hl; omega

end Roaring.MiscLemmas
