import RoaringModel.Lemmas.MiscWF
/-! Helper lemmas for the C20 theorems (statistics / serialized_size of well-formed bitmaps) -/
namespace Roaring.MiscLemmas
open Roaring

theorem cards_eq (b : Bitmap) (h : BitmapWF b) :
    (Spec.groups (Bitmap.elems b)).map (·.2) = b.map Container.len := by
  rw [groups_elems b h, List.map_map]; rfl

theorem filter_arr (b : Bitmap) (h : BitmapWF b) :
    b.filter (fun c => match c.store with | .array _ => true | .bitmap _ => false)
      = b.filter (fun c => decide (c.len ≤ 4096)) := by
  apply List.filter_congr
  intro c hc
  have hw := (h.2 c hc).2
  cases hs : c.store with
  | array v => rw [hs] at hw; have := hw.2.2.2; simp [Container.len, hs, Store.len]; omega
  | bitmap bs => rw [hs] at hw; have := hw.2.2.2; simp [Container.len, hs, Store.len]; omega

theorem filter_bm (b : Bitmap) (h : BitmapWF b) :
    b.filter (fun c => match c.store with | .array _ => false | .bitmap _ => true)
      = b.filter (fun c => decide (4096 < c.len)) := by
  apply List.filter_congr
  intro c hc
  have hw := (h.2 c hc).2
  cases hs : c.store with
  | array v => rw [hs] at hw; have := hw.2.2.2; simp [Container.len, hs, Store.len]; omega
  | bitmap bs => rw [hs] at hw; have := hw.2.2.2; simp [Container.len, hs, Store.len]; omega

theorem foldl_add {α} (f : α → Nat) (l : List α) (acc : Nat) :
    l.foldl (fun acc c => acc + f c) acc = acc + Spec.sum (l.map f) := by
  induction l generalizing acc with
  | nil => simp [Spec.sum]
  | cons c cs ih =>
    simp only [List.foldl_cons, List.map_cons]; rw [ih]; simp [Spec.sum]; omega

/-- kernel facts about a bitset store's `min()` / `max()` (C07's order-statistics lemmas):
    they are the first / last element of its ascending element list -/
def BStoreMinMax (bs : BStore) : Prop :=
  bs.min? = bs.toArray.head? ∧ bs.max? = bs.toArray.getLast?

theorem store_min (c : Container) (hK : ∀ bs, c.store = .bitmap bs → BStoreMinMax bs) :
    c.min?.map (Bitmap.join c.key) = c.elems.head? := by
  simp only [Container.min?, Container.elems, List.head?_map]
  cases hs : c.store with
  | array v => simp [Store.min?, Store.elems, Arr.min?] <;> rfl
  | bitmap bs => simp [Store.min?, Store.elems, (hK bs hs).1] <;> rfl

theorem store_max (c : Container) (hK : ∀ bs, c.store = .bitmap bs → BStoreMinMax bs) :
    c.max?.map (Bitmap.join c.key) = c.elems.getLast? := by
  simp only [Container.max?, Container.elems, List.getLast?_map]
  cases hs : c.store with
  | array v => simp [Store.max?, Store.elems, Arr.max?] <;> rfl
  | bitmap bs => simp [Store.max?, Store.elems, (hK bs hs).2] <;> rfl

theorem container_elems_ne_nil (c : Container) (h : StoreWF c.store) : c.elems ≠ [] := by
  intro he
  have hl := container_elems_length c h
  have := store_len_pos c.store h
  rw [he] at hl; simp [Container.len] at hl; omega

/-! ## what `Spec.groups` computes on a strictly ascending list -/

/-- number of elements of `s` under the 16-bit prefix `k` -/
def prefCount (s : List Nat) (k : Nat) : Nat := (s.filter (fun x => x / 65536 = k)).length

theorem prefCount_cons (x : Nat) (xs : List Nat) (k : Nat) :
    prefCount (x :: xs) k = (if x / 65536 = k then 1 else 0) + prefCount xs k := by
  unfold prefCount
  by_cases h : x / 65536 = k
  · simp [h]; omega
  · simp [h]

theorem prefCount_pos {s : List Nat} {k : Nat} (h : 0 < prefCount s k) : ∃ x ∈ s, x / 65536 = k := by
  unfold prefCount at h
  obtain ⟨x, hx⟩ := List.exists_mem_of_length_pos h
  rw [List.mem_filter] at hx
  exact ⟨x, hx.1, by simpa using hx.2⟩

/-- `Spec.groups` of a strictly ascending list: one group per distinct 16-bit prefix, prefixes strictly
    ascending, each with the (positive) number of elements under it -/
theorem groups_spec : ∀ (s : List Nat), s.Pairwise (· < ·) →
    ((Spec.groups s).map (·.1)).Pairwise (· < ·) ∧
    (∀ k n, (k, n) ∈ Spec.groups s → 0 < n ∧ n = prefCount s k) ∧
    (∀ x ∈ s, ∃ n, (x / 65536, n) ∈ Spec.groups s) := by
  intro s
  induction s with
  | nil => intro _; simp [Spec.groups]
  | cons x xs ih =>
    intro hs
    obtain ⟨hx, hxs⟩ := List.pairwise_cons.mp hs
    obtain ⟨i1, i2, i3⟩ := ih hxs
    -- every key of `groups xs` is at least the prefix of `x`
    have hge : ∀ k n, (k, n) ∈ Spec.groups xs → x / 65536 ≤ k := by
      intro k n hkn
      obtain ⟨hn, he⟩ := i2 k n hkn
      obtain ⟨y, hy, hyk⟩ := prefCount_pos (he ▸ hn)
      have := hx y hy
      omega
    rw [groups_cons]
    cases hg : Spec.groups xs with
    | nil =>
      have hxs0 : xs = [] := by
        cases xs with
        | nil => rfl
        | cons y ys =>
          obtain ⟨n, hn⟩ := i3 y (by simp)
          rw [hg] at hn; simp at hn
      subst hxs0
      simp [Spec.groupStep, prefCount]
    | cons g rest =>
      obtain ⟨k, n⟩ := g
      rw [hg] at i1 i2 i3 hge
      simp only [List.map_cons, List.pairwise_cons] at i1
      by_cases hk : k = x / 65536
      · subst hk
        simp only [Spec.groupStep, if_true]
        refine ⟨?_, ?_, ?_⟩
        · simp only [List.map_cons, List.pairwise_cons]; exact i1
        · intro k' n' hm
          rw [prefCount_cons]
          rcases List.mem_cons.mp hm with heq | hm'
          · obtain ⟨e1, e2⟩ := Prod.mk.inj heq
            subst e1 e2
            obtain ⟨h1, h2⟩ := i2 (x / 65536) n (List.mem_cons_self ..)
            simp only [if_true]; omega
          · have hlt := i1.1 k' (List.mem_map.mpr ⟨(k', n'), hm', rfl⟩)
            obtain ⟨h1, h2⟩ := i2 k' n' (List.mem_cons_of_mem _ hm')
            rw [if_neg (by omega)]; omega
        · intro y hy
          rcases List.mem_cons.mp hy with rfl | hy'
          · exact ⟨n + 1, by simp⟩
          · obtain ⟨n', hn'⟩ := i3 y hy'
            rcases List.mem_cons.mp hn' with heq | hm'
            · obtain ⟨e1, _⟩ := Prod.mk.inj heq
              rw [e1]; exact ⟨n + 1, List.mem_cons_self ..⟩
            · exact ⟨n', List.mem_cons_of_mem _ hm'⟩
      · have hlt : x / 65536 < k := by have := hge k n (by simp); omega
        simp only [Spec.groupStep, hk, if_false]
        have hkeys : ∀ k' n', (k', n') ∈ (k, n) :: rest → x / 65536 < k' := by
          intro k' n' hm
          rcases List.mem_cons.mp hm with heq | hm'
          · cases heq; exact hlt
          · have := i1.1 k' (List.mem_map.mpr ⟨(k', n'), hm', rfl⟩); omega
        have hnone : prefCount xs (x / 65536) = 0 := by
          by_cases h0 : prefCount xs (x / 65536) = 0
          · exact h0
          · obtain ⟨y, hy, hyk⟩ := prefCount_pos (Nat.pos_of_ne_zero h0)
            obtain ⟨n', hn'⟩ := i3 y hy
            rw [hyk] at hn'
            have := hkeys _ _ hn'
            omega
        refine ⟨?_, ?_, ?_⟩
        · simp only [List.map_cons, List.pairwise_cons]
          refine ⟨?_, i1⟩
          intro k' hk'
          rw [← List.map_cons (f := fun (g : Nat × Nat) => g.1) (a := (k, n))] at hk'
          obtain ⟨⟨k'', n''⟩, hm, rfl⟩ := List.mem_map.mp hk'
          exact hkeys k'' n'' hm
        · intro k' n' hm
          rw [prefCount_cons]
          rcases List.mem_cons.mp hm with heq | hm'
          · obtain ⟨e1, e2⟩ := Prod.mk.inj heq
            subst e1 e2
            simp [hnone]
          · have := hkeys k' n' hm'
            obtain ⟨h1, h2⟩ := i2 k' n' hm'
            rw [if_neg (by omega)]; omega
        · intro y hy
          rcases List.mem_cons.mp hy with rfl | hy'
          · exact ⟨1, by simp⟩
          · obtain ⟨n', hn'⟩ := i3 y hy'
            exact ⟨n', List.mem_cons_of_mem _ hn'⟩

end Roaring.MiscLemmas
