import RoaringModel.Lemmas.BitmapOps
/-!
# Bitmap level: `is_disjoint`, `is_subset` (cmp.rs) and `intersection_len` (ops.rs:29) over `Pairs`
-/
namespace Roaring
namespace Bitmap

/-- the per-pair predicate shared by `is_subset` (`gl = false`) and `is_disjoint` (`gl = true`) -/
def gAll (gl : Bool) (h : Container → Container → Bool) : Option Container × Option Container → Bool
  | (none, _) => true
  | (some _, none) => gl
  | (some l, some r) => h l r

/-- what the parameters must satisfy to decide `∀ y, R (y ∈ a) (y ∈ b)` -/
structure AllSpec (R : Prop → Prop → Prop) (gl : Bool) (h : Container → Container → Bool) : Prop where
  leftFalse : ∀ q : Prop, R False q
  rightFalse : ∀ p : Prop, R p False ↔ (gl = true ∨ ¬ p)
  both : ∀ l r : Container, l.store.Canon → r.store.Canon →
    (h l r = true ↔ ∀ i, R (i ∈ l.store.elems) (i ∈ r.store.elems))

theorem wf_nonempty (K : BKernel) (c : Container) (hc : c.WF) : ∃ i, i ∈ c.store.elems := by
  obtain ⟨key, store⟩ := c
  cases store with
  | array v =>
    have h0 : 0 < v.length := hc.2.2.1
    cases v with
    | nil => simp at h0
    | cons a v => exact ⟨a, by simp [Store.elems]⟩
  | bitmap b =>
    have h0 : 4096 < b.len := hc.2.2
    have := K.length_toArray b hc.2.1
    cases hb : b.toArray with
    | nil => rw [hb] at this; simp at this; omega
    | cons a v => exact ⟨a, by simp [Store.elems, hb]⟩

section steps
variable {R : Prop → Prop → Prop} {gl : Bool} {h : Container → Container → Bool}

theorem allL (K : BKernel) (S : AllSpec R gl h) (l : Container) (ls bs : Bitmap)
    (hl : l.WF) (hls : ∀ d ∈ ls, l.key < d.key) (hbs : ∀ d ∈ bs, l.key < d.key)
    (hlsi : StoresInv ls) (hbsi : StoresInv bs) :
    (∀ y, R (y ∈ elems (l :: ls)) (y ∈ elems bs)) ↔ (gl = true ∧ ∀ y, R (y ∈ elems ls) (y ∈ elems bs)) := by
  have hli := Store.wf_inv _ hl.2
  have key : ∀ y, R (y ∈ elems (l :: ls)) (y ∈ elems bs) ↔
      ((y / 65536 = l.key → (gl = true ∨ ¬ y % 65536 ∈ l.store.elems)) ∧
       (¬ y / 65536 = l.key → R (y ∈ elems ls) (y ∈ elems bs))) := by
    intro y
    rw [mem_elems_head K l ls hli hlsi hls y, mem_elems_above K bs hbsi l.key hbs y]
    by_cases hy : y / 65536 = l.key
    · simp only [hy, true_and, not_true_eq_false, false_and, or_false, and_false, forall_const,
        false_imp_iff, and_true]
      exact S.rightFalse _
    · simp only [hy, false_and, not_false_eq_true, true_and, false_or, false_imp_iff, forall_const]
  constructor
  · intro hall
    refine ⟨?_, fun y => ?_⟩
    · obtain ⟨i, hi⟩ := wf_nonempty K l hl
      have hlt := Store.elems_ltK K _ hli i hi
      have := ((key (l.key * 65536 + i)).mp (hall _)).1 (by omega)
      rcases this with h1 | h1
      · exact h1
      · exact absurd (by rw [show (l.key * 65536 + i) % 65536 = i by omega]; exact hi) h1
    · by_cases hy : y / 65536 = l.key
      · have h1 := not_mem_elems_of_key_lt K ls hlsi l.key y hls hy
        have : (y ∈ elems ls) = False := by simp [h1]
        rw [this]; exact S.leftFalse _
      · exact ((key y).mp (hall y)).2 hy
  · rintro ⟨hgl, hrest⟩ y
    exact (key y).mpr ⟨fun _ => Or.inl hgl, fun _ => hrest y⟩

theorem allR (K : BKernel) (S : AllSpec R gl h) (r : Container) (as rs : Bitmap)
    (hr : r.WF) (hrs : ∀ d ∈ rs, r.key < d.key) (has : ∀ d ∈ as, r.key < d.key)
    (hrsi : StoresInv rs) (hasi : StoresInv as) :
    (∀ y, R (y ∈ elems as) (y ∈ elems (r :: rs))) ↔ (∀ y, R (y ∈ elems as) (y ∈ elems rs)) := by
  have hri := Store.wf_inv _ hr.2
  have key : ∀ y, ¬ y / 65536 = r.key → (R (y ∈ elems as) (y ∈ elems (r :: rs)) ↔ R (y ∈ elems as) (y ∈ elems rs)) := by
    intro y hy
    rw [mem_elems_head K r rs hri hrsi hrs y]
    simp only [hy, false_and, not_false_eq_true, true_and, false_or]
  have low : ∀ y, y / 65536 = r.key → ∀ q : Prop, R (y ∈ elems as) q := by
    intro y hy q
    have h1 := not_mem_elems_of_key_lt K as hasi r.key y has hy
    have : (y ∈ elems as) = False := by simp [h1]
    rw [this]; exact S.leftFalse _
  constructor
  · intro hall y
    by_cases hy : y / 65536 = r.key
    · exact low y hy _
    · exact (key y hy).mp (hall y)
  · intro hall y
    by_cases hy : y / 65536 = r.key
    · exact low y hy _
    · exact (key y hy).mpr (hall y)

theorem allB (K : BKernel) (S : AllSpec R gl h) (l r : Container) (ls rs : Bitmap)
    (hl : l.WF) (hr : r.WF) (hkey : l.key = r.key)
    (hls : ∀ d ∈ ls, l.key < d.key) (hrs : ∀ d ∈ rs, r.key < d.key)
    (hlsi : StoresInv ls) (hrsi : StoresInv rs) :
    (∀ y, R (y ∈ elems (l :: ls)) (y ∈ elems (r :: rs))) ↔
      (h l r = true ∧ ∀ y, R (y ∈ elems ls) (y ∈ elems rs)) := by
  have hli := Store.wf_inv _ hl.2
  have hri := Store.wf_inv _ hr.2
  rw [S.both l r (Store.wf_canon _ hl.2) (Store.wf_canon _ hr.2)]
  have key : ∀ y, R (y ∈ elems (l :: ls)) (y ∈ elems (r :: rs)) ↔
      ((y / 65536 = l.key → R (y % 65536 ∈ l.store.elems) (y % 65536 ∈ r.store.elems)) ∧
       (¬ y / 65536 = l.key → R (y ∈ elems ls) (y ∈ elems rs))) := by
    intro y
    rw [mem_elems_head K l ls hli hlsi hls y, mem_elems_head K r rs hri hrsi hrs y, ← hkey]
    by_cases hy : y / 65536 = l.key
    · simp only [hy, true_and, not_true_eq_false, false_and, or_false, forall_const, false_imp_iff, and_true]
    · simp only [hy, false_and, not_false_eq_true, true_and, false_or, false_imp_iff, forall_const]
  constructor
  · intro hall
    refine ⟨fun i => ?_, fun y => ?_⟩
    · by_cases hi : i < 65536
      · have := ((key (l.key * 65536 + i)).mp (hall _)).1 (by omega)
        rwa [show (l.key * 65536 + i) % 65536 = i by omega] at this
      · have h1 : i ∉ l.store.elems := fun hc => hi (Store.elems_ltK K _ hli i hc)
        have : (i ∈ l.store.elems) = False := by simp [h1]
        rw [this]; exact S.leftFalse _
    · by_cases hy : y / 65536 = l.key
      · have h1 := not_mem_elems_of_key_lt K ls hlsi l.key y hls hy
        have : (y ∈ elems ls) = False := by simp [h1]
        rw [this]; exact S.leftFalse _
      · exact ((key y).mp (hall y)).2 hy
  · rintro ⟨h1, h2⟩ y
    exact (key y).mpr ⟨fun _ => h1 _, fun _ => h2 y⟩

end steps

/-- **the `Pairs`-based relation loops decide `∀ y, R (y ∈ a) (y ∈ b)`** -/
theorem pairs_all_spec (K : BKernel) {R : Prop → Prop → Prop} {gl : Bool} {h : Container → Container → Bool}
    (S : AllSpec R gl h) :
    ∀ (a b : Bitmap), WF a → WF b →
      ((pairs a b).all (gAll gl h) = true ↔ ∀ y, R (y ∈ elems a) (y ∈ elems b))
  | [], [], _, _ => by
    simp only [pairs, List.all_nil, elems_nil, List.not_mem_nil, true_iff]
    intro y; exact S.leftFalse _
  | l :: ls, [], ha, hb => by
    obtain ⟨hl, hls, hlsw⟩ := wf_cons l ls ha
    have ih := pairs_all_spec K S ls [] hlsw hb
    rw [allL K S l ls [] hl hls (by simp) (storesInv_of_wf ls hlsw) (by intro c hc; simp at hc), ← ih]
    simp only [pairs, List.all_cons, gAll, Bool.and_eq_true]
  | [], r :: rs, ha, hb => by
    obtain ⟨hr, hrs, hrsw⟩ := wf_cons r rs hb
    have ih := pairs_all_spec K S [] rs ha hrsw
    rw [allR K S r [] rs hr hrs (by simp) (storesInv_of_wf rs hrsw) (by intro c hc; simp at hc), ← ih]
    simp only [pairs, List.all_cons, gAll, Bool.true_and]
  | l :: ls, r :: rs, ha, hb => by
    obtain ⟨hl, hls, hlsw⟩ := wf_cons l ls ha
    obtain ⟨hr, hrs, hrsw⟩ := wf_cons r rs hb
    by_cases h1 : l.key = r.key
    · have ih := pairs_all_spec K S ls rs hlsw hrsw
      rw [allB K S l r ls rs hl hr h1 hls hrs (storesInv_of_wf ls hlsw) (storesInv_of_wf rs hrsw), ← ih]
      simp only [pairs, h1, if_true, List.all_cons, gAll, Bool.and_eq_true]
    · by_cases h2 : l.key < r.key
      · have ih := pairs_all_spec K S ls (r :: rs) hlsw hb
        have hbs : ∀ d ∈ r :: rs, l.key < d.key := by
          intro d hd
          rcases List.mem_cons.mp hd with rfl | hd
          · exact h2
          · exact Nat.lt_trans h2 (hrs d hd)
        rw [allL K S l ls (r :: rs) hl hls hbs (storesInv_of_wf ls hlsw) (storesInv_of_wf _ hb), ← ih]
        simp only [pairs, h1, h2, if_true, if_false, List.all_cons, gAll, Bool.and_eq_true]
      · have ih := pairs_all_spec K S (l :: ls) rs ha hrsw
        have h3 : r.key < l.key := by omega
        have has : ∀ d ∈ l :: ls, r.key < d.key := by
          intro d hd
          rcases List.mem_cons.mp hd with rfl | hd
          · exact h3
          · exact Nat.lt_trans h3 (hls d hd)
        rw [allR K S r (l :: ls) rs hr hrs has (storesInv_of_wf rs hrsw) (storesInv_of_wf _ ha), ← ih]
        simp only [pairs, h1, h2, if_false, List.all_cons, gAll, Bool.true_and]
termination_by a b => a.length + b.length

theorem allSpec_subset (K : BKernel) : AllSpec (fun p q => p → q) false Container.isSubset where
  leftFalse := fun _ h => h.elim
  rightFalse := by intro p; simp
  both := fun l r hl hr => Container.isSubset_spec K l r hl hr

theorem allSpec_disjoint (K : BKernel) : AllSpec (fun p q => p → ¬ q) true Container.isDisjoint where
  leftFalse := fun _ h => h.elim
  rightFalse := by intro p; simp
  both := fun l r hl hr => Container.isDisjoint_spec K l r (Store.canon_inv _ hl) (Store.canon_inv _ hr)

theorem isSubset_eq (a b : Bitmap) : isSubset a b = (pairs a b).all (gAll false Container.isSubset) := by
  unfold isSubset
  congr 1

theorem isDisjoint_eq (a b : Bitmap) : isDisjoint a b = (pairs a b).all (gAll true Container.isDisjoint) := by
  unfold isDisjoint
  congr 1; funext p
  rcases p with ⟨_ | l, _ | r⟩ <;> rfl

/-- cmp.rs:58 -/
theorem isSubset_spec (K : BKernel) (a b : Bitmap) (ha : WF a) (hb : WF b) :
    isSubset a b = true ↔ ∀ y, y ∈ elems a → y ∈ elems b := by
  rw [isSubset_eq]; exact pairs_all_spec K (allSpec_subset K) a b ha hb

/-- cmp.rs:29 -/
theorem isDisjoint_spec (K : BKernel) (a b : Bitmap) (ha : WF a) (hb : WF b) :
    isDisjoint a b = true ↔ ∀ y, y ∈ elems a → ¬ y ∈ elems b := by
  rw [isDisjoint_eq]; exact pairs_all_spec K (allSpec_disjoint K) a b ha hb

end Bitmap
end Roaring
