import RoaringModel.Lemmas.MiscWF
import RoaringModel.Fmt
/-! Lemmas for `C16_debug_total`: `min()` / `max()` of a well-formed, non-empty bitmap are `Some` -/
namespace Roaring.MiscLemmas
open Roaring

theorem popSum_zero_of_all_zero : ∀ ws : List Nat, (∀ w ∈ ws, w = 0) → BStore.popSum ws = 0 := by
  intro ws
  induction ws with
  | nil => intro _; rfl
  | cons w ws ih =>
    intro h
    rw [popSum_cons, h w (by simp), popcount_zero, ih (fun x hx => h x (by simp [hx]))]

theorem exists_nonzero_word (ws : List Nat) (h : 0 < BStore.popSum ws) : ∃ w ∈ ws, w ≠ 0 := by
  apply Classical.byContradiction
  intro hn
  have : ∀ w ∈ ws, w = 0 := by
    intro w hw
    apply Classical.byContradiction
    intro hw0
    exact hn ⟨w, hw, hw0⟩
  have := popSum_zero_of_all_zero ws this
  omega

theorem find_nonzero_isSome (l : List (Nat × Nat)) (h : ∃ p ∈ l, p.1 ≠ 0) :
    (l.find? (fun p => p.1 != 0)).isSome = true := by
  rw [List.find?_isSome]
  obtain ⟨p, hp, h0⟩ := h
  exact ⟨p, hp, by simpa using h0⟩

theorem zipIdx_has_nonzero (ws : List Nat) (h : ∃ w ∈ ws, w ≠ 0) : ∃ p ∈ ws.zipIdx, p.1 ≠ 0 := by
  obtain ⟨w, hw, h0⟩ := h
  obtain ⟨i, hi, rfl⟩ := List.mem_iff_getElem.1 hw
  exact ⟨(ws[i], i), by rw [List.mem_zipIdx_iff_getElem?]; simp [hi], h0⟩

theorem bstore_min_isSome (b : BStore) (h : 0 < BStore.popSum b.bits) : b.min?.isSome = true := by
  have := find_nonzero_isSome _ (zipIdx_has_nonzero b.bits (exists_nonzero_word b.bits h))
  unfold BStore.min?
  cases hf : b.bits.zipIdx.find? (fun p => p.1 != 0) with
  | none => rw [hf] at this; simp at this
  | some p => rfl

theorem bstore_max_isSome (b : BStore) (h : 0 < BStore.popSum b.bits) : b.max?.isSome = true := by
  have hz := zipIdx_has_nonzero b.bits (exists_nonzero_word b.bits h)
  have : ∃ p ∈ b.bits.zipIdx.reverse, p.1 ≠ 0 := by
    obtain ⟨p, hp, h0⟩ := hz; exact ⟨p, by simp [hp], h0⟩
  have := find_nonzero_isSome _ this
  unfold BStore.max?
  cases hf : b.bits.zipIdx.reverse.find? (fun p => p.1 != 0) with
  | none => rw [hf] at this; simp at this
  | some p => rfl

theorem store_minmax_isSome (s : Store) (h : StoreWF s) : s.min?.isSome = true ∧ s.max?.isSome = true := by
  cases s with
  | array v =>
    obtain ⟨_, _, hpos, _⟩ := h
    cases v with
    | nil => simp at hpos
    | cons a v => simp [Store.min?, Store.max?, Arr.min?, Arr.max?, List.getLast?_cons]
  | bitmap b =>
    obtain ⟨_, _, hlen, hbig⟩ := h
    have hp : 0 < BStore.popSum b.bits := by omega
    exact ⟨bstore_min_isSome b hp, bstore_max_isSome b hp⟩

end Roaring.MiscLemmas
