import RoaringModel.IterStep
import RoaringModel.Lemmas.BIterDefs
/-!
# C03: abstraction (`rem`), invariants and the container-level kernel interface

* `SIter.rem / CIter.rem / Iter.rem` — the values an iterator has still to yield, ascending.
* `Store.IterOK / Container.IterOK / Bitmap.IterOK` — the part of well-formedness that iteration relies on
  (implied by `Bitmap.WF`: no 4096 threshold and no non-emptiness is needed here).
* `Iter.Inv` — keys of front < middle chunks < back, every part well-formed.
* `CKernel` — the facts about one `container::Iter` that the bitmap-level proofs use (the "named kernel
  hypothesis" of DESIGN §5); it is *proved* in `Lemmas/CIterLemmas.lean` (`cKernel : CKernel`), so no theorem
  of `Props/C03.lean` keeps it as a hypothesis.
-/
namespace Roaring

abbrev SortedLt (l : List Nat) : Prop := l.Pairwise (· < ·)

/-! ### what iteration needs from a store / container / bitmap -/

def Store.IterOK : Store → Prop
  | .array v => SortedLt v ∧ ∀ x ∈ v, x < 65536
  | .bitmap b => b.bits.length = 1024 ∧ (∀ w ∈ b.bits, w < 2^64) ∧ b.len = BStore.popSum b.bits

def Container.IterOK (c : Container) : Prop := c.store.IterOK

def Bitmap.IterOK (b : Bitmap) : Prop :=
  SortedLt (b.map (·.key)) ∧ ∀ c ∈ b, c.IterOK

/-! ### remaining values -/

def SIter.rem : SIter → List Nat
  | .array w => w
  | .bitmap it => it.rem

def SIter.Inv : SIter → Prop
  | .array w => SortedLt w ∧ ∀ x ∈ w, x < 65536
  | .bitmap it => it.Inv

def CIter.rem (c : CIter) : List Nat := c.inner.rem.map (fun i => c.key * 65536 + i)
def CIter.Inv (c : CIter) : Prop := c.inner.Inv

/-- remaining values of an optional front / back iterator -/
def orem : Option CIter → List Nat
  | none => []
  | some c => c.rem

/-- the values of the untouched middle chunks -/
def mid (cs : List Container) : List Nat := cs.flatMap Container.elems

def Iter.rem (it : Iter) : List Nat := orem it.front ++ mid it.containers ++ orem it.back

structure Iter.Inv (it : Iter) : Prop where
  sorted : SortedLt (it.containers.map (·.key))
  cok : ∀ c ∈ it.containers, c.IterOK
  fi : ∀ f, it.front = some f → f.Inv
  bi : ∀ b, it.back = some b → b.Inv
  fr : ∀ f, it.front = some f → ∀ c ∈ it.containers, f.key < c.key
  bk : ∀ b, it.back = some b → ∀ c ∈ it.containers, c.key < b.key
  fb : ∀ f b, it.front = some f → it.back = some b → f.key < b.key

/-! ### container-level kernel interface -/

structure CKernel : Prop where
  next : ∀ c : CIter, c.Inv →
    c.next.2 = c.rem.head? ∧ c.next.1.rem = c.rem.tail ∧ c.next.1.Inv ∧ c.next.1.key = c.key
  nextBack : ∀ c : CIter, c.Inv →
    c.nextBack.2 = c.rem.getLast? ∧ c.nextBack.1.rem = c.rem.dropLast ∧ c.nextBack.1.Inv ∧ c.nextBack.1.key = c.key
  nth : ∀ (c : CIter) (n : Nat), c.Inv →
    (c.nth n).2 = c.rem[n]? ∧ (c.nth n).1.rem = c.rem.drop (n + 1) ∧ (c.nth n).1.Inv ∧ (c.nth n).1.key = c.key
  advanceTo : ∀ (c : CIter) (i : Nat), c.Inv → i < 65536 →
    (c.advanceTo i).rem = c.rem.filter (fun x => decide (c.key * 65536 + i ≤ x)) ∧ (c.advanceTo i).Inv
      ∧ (c.advanceTo i).key = c.key
  advanceBackTo : ∀ (c : CIter) (i : Nat), c.Inv → i < 65536 →
    (c.advanceBackTo i).rem = c.rem.filter (fun x => decide (x ≤ c.key * 65536 + i)) ∧ (c.advanceBackTo i).Inv
      ∧ (c.advanceBackTo i).key = c.key
  sizeHint : ∀ c : CIter, c.Inv → c.sizeHint = (c.rem.length, some c.rem.length)
  count : ∀ c : CIter, c.Inv → c.count = c.rem.length
  rem_hi : ∀ c : CIter, c.Inv → ∀ x ∈ c.rem, x / 65536 = c.key
  rem_sorted : ∀ c : CIter, c.Inv → SortedLt c.rem
  ofContainer : ∀ c : Container, c.IterOK →
    (CIter.ofContainer c).Inv ∧ (CIter.ofContainer c).rem = c.elems ∧ c.len = c.elems.length

end Roaring
