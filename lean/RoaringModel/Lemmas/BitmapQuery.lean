import RoaringModel.Lemmas.BitmapMut
/-!
# The `RoaringBitmap` queries agree with the sorted element list (inherent.rs) — property C07
-/
namespace Roaring
namespace Bitmap

/-! ### the abstraction, container by container -/

theorem elems_cons (c : Container) (cs : Bitmap) : elems (c :: cs) = c.elems ++ elems cs := by
  simp [elems]

theorem elems_append (a b : Bitmap) : elems (a ++ b) = elems a ++ elems b := by
  simp [elems]

theorem length_cElems (c : Container) : c.elems.length = c.store.elems.length := by
  simp [Container.elems]

theorem cLen_eq (c : Container) (hc : c.store.Inv) : c.len = c.store.elems.length :=
  Store.len_eq _ hc

theorem cLen_eq' (c : Container) (hc : c.store.Inv) : c.len = c.elems.length := by
  rw [length_cElems]; exact Store.len_eq _ hc

/-- the values of a container lie in its 2^16-aligned window -/
theorem cElems_bounds (c : Container) (hc : c.store.Inv) :
    ∀ y ∈ c.elems, c.key * 65536 ≤ y ∧ y < c.key * 65536 + 65536 := by
  intro y hy
  rw [mem_cElems c hc] at hy
  have := Store.elems_lt _ hc _ hy.2
  omega

/-- the values of the later containers lie above the window of the first one -/
theorem elems_tail_bounds {c : Container} {cs : Bitmap} (h : Dir (c :: cs)) :
    ∀ y ∈ elems cs, c.key * 65536 + 65536 ≤ y := by
  intro y hy
  rw [mem_elems_iff_exists] at hy
  obtain ⟨d, hd, hy⟩ := hy
  have h1 := h.head_lt d hd
  have h2 := cElems_bounds d (Store.canon_inv _ (h.2 d (List.mem_cons_of_mem _ hd)).2) y hy
  omega

theorem Dir.inv {b : Bitmap} (h : Dir b) {c : Container} (hc : c ∈ b) : c.store.Inv :=
  Store.canon_inv _ (h.2 c hc).2

theorem WF.tail {c : Container} {cs : Bitmap} (h : Bitmap.WF (c :: cs)) : Bitmap.WF cs :=
  wf_of_dir _ h.dir.tail (fun d hd => h.ne d (List.mem_cons_of_mem _ hd))

theorem cElems_ne (c : Container) (h : c.store.elems ≠ []) : c.elems ≠ [] := by
  unfold Container.elems
  intro hc
  exact h (List.map_eq_nil_iff.mp hc)

/-! ### `len` -/

theorem foldl_len (b : Bitmap) (a : Nat) :
    b.foldl (fun acc c => acc + c.len) a = a + len b := by
  unfold len
  induction b generalizing a with
  | nil => simp
  | cons c cs ih =>
    simp only [List.foldl_cons]
    rw [ih (a + c.len), ih (0 + c.len)]
    omega

theorem len_nil : len [] = 0 := rfl

theorem len_cons (c : Container) (cs : Bitmap) : len (c :: cs) = c.len + len cs := by
  show List.foldl (fun acc c => acc + c.len) 0 (c :: cs) = _
  rw [List.foldl_cons, foldl_len]
  omega

theorem len_eq_length (b : Bitmap) (h : b.Dir) : len b = (elems b).length := by
  induction b with
  | nil => rfl
  | cons c cs ih =>
    rw [len_cons, elems_cons, List.length_append, ih h.tail,
      cLen_eq' c (h.inv (List.mem_cons_self ..))]

theorem len_spec (b : Bitmap) (h : b.WF) : len b = (elems b).length :=
  len_eq_length b h.dir

/-! ### `is_empty` -/

theorem isEmpty_spec (b : Bitmap) (h : b.WF) : isEmpty b = (elems b).isEmpty := by
  cases b with
  | nil => rfl
  | cons c cs =>
    have hne := cElems_ne c (h.ne c (List.mem_cons_self ..))
    rw [elems_cons]
    cases hce : c.elems with
    | nil => exact absurd hce hne
    | cons a l => rfl

/-! ### `contains` -/

theorem contains_cons_lt (c : Container) (cs : Bitmap) (v : Nat) (h1 : c.key < hi16 v) :
    contains (c :: cs) v = contains cs v := by
  unfold contains
  rw [search_cons]
  simp only [h1, if_true]
  cases hs : search cs (hi16 v) with
  | mk f loc => cases f <;> simp

theorem contains_cons_eq (c : Container) (cs : Bitmap) (v : Nat) (h2 : c.key = hi16 v) :
    contains (c :: cs) v = c.contains (lo16 v) := by
  unfold contains
  rw [search_cons]
  have h1 : ¬ c.key < hi16 v := by omega
  simp [h2]

theorem contains_cons_gt (c : Container) (cs : Bitmap) (v : Nat) (h3 : hi16 v < c.key) :
    contains (c :: cs) v = false := by
  unfold contains
  rw [search_cons]
  have h1 : ¬ c.key < hi16 v := by omega
  have h2 : (c.key == hi16 v) = false := by simp; omega
  simp [h1, h2]

theorem contains_iff (v : Nat) : ∀ (b : Bitmap), b.Dir →
    (contains b v = true ↔ lo16 v ∈ chunk b (hi16 v)) := by
  intro b
  induction b with
  | nil => intro _; simp [contains, search_nil, chunk]
  | cons c cs ih =>
    intro hdir
    have hl : lo16 v < 65536 := by unfold lo16; omega
    by_cases h1 : c.key < hi16 v
    · rw [contains_cons_lt c cs v h1, chunk_cons_ne c cs _ (by omega)]
      exact ih hdir.tail
    · by_cases h2 : c.key = hi16 v
      · rw [contains_cons_eq c cs v h2, chunk_cons_eq c cs _ h2]
        unfold Container.contains
        rw [Store.contains_spec _ (hdir.inv (List.mem_cons_self ..)) _ hl]
        simp
      · rw [contains_cons_gt c cs v (by omega)]
        have : chunk (c :: cs) (hi16 v) = [] :=
          chunk_nil_of_lt (fun d hd => by
            rcases List.mem_cons.mp hd with h | h
            · rw [h]; omega
            · have := hdir.head_lt d h; omega)
        rw [this]; simp

theorem contains_spec (b : Bitmap) (h : b.WF) (v : Nat) :
    contains b v = Spec.contains (elems b) v := by
  unfold Spec.contains
  rw [Spec.contains_eq, Bool.eq_iff_iff, contains_iff v b h.dir, decide_eq_true_eq, mem_elems b h.dir]
  unfold hi16 lo16
  exact Iff.rfl

/-! ### `min` / `max` -/

theorem cElems_head? (c : Container) (hc : c.store.Inv) :
    c.elems.head? = (c.min?).map (join c.key) := by
  unfold Container.elems Container.min?
  rw [List.head?_map, Store.min?_spec _ hc]
  rfl

theorem cElems_getLast? (c : Container) (hc : c.store.Inv) :
    c.elems.getLast? = (c.max?).map (join c.key) := by
  unfold Container.elems Container.max?
  rw [List.getLast?_map, Store.max?_spec _ hc]
  rfl

theorem min?_spec (b : Bitmap) (h : b.WF) : min? b = Spec.min? (elems b) := by
  unfold min? Spec.min?
  cases b with
  | nil => rfl
  | cons c cs =>
    have hne := cElems_ne c (h.ne c (List.mem_cons_self ..))
    rw [elems_cons, List.head?_append, cElems_head? c (h.dir.inv (List.mem_cons_self ..))]
    simp only [List.head?_cons]
    rw [← cElems_head? c (h.dir.inv (List.mem_cons_self ..))]
    cases hce : c.elems with
    | nil => exact absurd hce hne
    | cons a l => rfl

theorem max?_spec (b : Bitmap) (h : b.WF) : max? b = Spec.max? (elems b) := by
  unfold max? Spec.max?
  cases hl : b.getLast? with
  | none =>
    have : b = [] := List.getLast?_eq_none_iff.mp hl
    subst this; rfl
  | some c =>
    obtain ⟨ys, rfl⟩ := List.getLast?_eq_some_iff.mp hl
    have hc : c ∈ ys ++ [c] := by simp
    have hne := cElems_ne c (h.ne c hc)
    rw [elems_append, List.getLast?_append]
    have e : elems [c] = c.elems := by simp [elems]
    rw [e]
    simp only []
    rw [← cElems_getLast? c (h.dir.inv hc)]
    cases hce : c.elems.getLast? with
    | none => exact absurd (List.getLast?_eq_none_iff.mp hce) hne
    | some a => rfl

/-! ### `select` -/

theorem select_eq (b : Bitmap) (h : b.Dir) (n : Nat) : select b n = (elems b)[n]? := by
  induction b generalizing n with
  | nil => simp [select, elems]
  | cons c cs ih =>
    have hinv := h.inv (List.mem_cons_self ..)
    rw [elems_cons, List.getElem?_append, select, ← cLen_eq' c hinv]
    by_cases hn : c.len > n
    · rw [if_pos hn, if_pos hn]
      unfold Container.elems
      rw [List.getElem?_map, Store.select_spec _ hinv]
      rfl
    · rw [if_neg hn, if_neg hn]
      exact ih h.tail _

theorem select_spec (b : Bitmap) (h : b.WF) (n : Nat) : select b n = Spec.select (elems b) n :=
  select_eq b h.dir n

/-! ### `rank` -/

theorem rank_cons_lt (c : Container) (cs : Bitmap) (v : Nat) (h1 : c.key < hi16 v) :
    rank (c :: cs) v = c.len + rank cs v := by
  unfold rank
  rw [search_cons]
  simp only [h1, if_true]
  cases hs : search cs (hi16 v) with
  | mk f loc => cases f <;> simp [len_cons] <;> omega

theorem rank_cons_eq (c : Container) (cs : Bitmap) (v : Nat) (h2 : c.key = hi16 v) :
    rank (c :: cs) v = c.rank (lo16 v) := by
  unfold rank
  rw [search_cons]
  simp [h2, len_nil]

theorem rank_cons_gt (c : Container) (cs : Bitmap) (v : Nat) (h3 : hi16 v < c.key) :
    rank (c :: cs) v = 0 := by
  unfold rank
  rw [search_cons]
  have h1 : ¬ c.key < hi16 v := by omega
  have h2 : (c.key == hi16 v) = false := by simp; omega
  simp [h1, h2, len_nil]

/-- rank inside the container that owns the window of `v` -/
theorem cRank_eq (c : Container) (hc : c.store.Inv) (v : Nat) (hk : c.key = hi16 v) :
    c.rank (lo16 v) = (c.elems.filter (· ≤ v)).length := by
  have hl : lo16 v < 65536 := by unfold lo16; omega
  unfold Container.rank Container.elems
  rw [Store.rank_spec _ hc _ hl, List.filter_map, List.length_map]
  congr 1
  apply List.filter_congr
  intro x _
  rw [Bool.eq_iff_iff]
  simp only [Function.comp, decide_eq_true_eq]
  unfold hi16 lo16 at *
  omega

theorem rank_eq (v : Nat) : ∀ (b : Bitmap), b.Dir → rank b v = ((elems b).filter (· ≤ v)).length := by
  intro b
  induction b with
  | nil => intro _; simp [rank, search_nil, elems, len_nil]
  | cons c cs ih =>
    intro hdir
    have hinv := hdir.inv (List.mem_cons_self ..)
    have hb1 := cElems_bounds c hinv
    have hb2 := elems_tail_bounds hdir
    rw [elems_cons, List.filter_append, List.length_append]
    by_cases h1 : c.key < hi16 v
    · rw [rank_cons_lt c cs v h1, ih hdir.tail, cLen_eq' c hinv]
      have : c.elems.filter (· ≤ v) = c.elems := by
        rw [List.filter_eq_self]
        intro y hy
        have := hb1 y hy
        simp only [decide_eq_true_eq]
        unfold hi16 at h1; omega
      rw [this]
    · by_cases h2 : c.key = hi16 v
      · rw [rank_cons_eq c cs v h2, cRank_eq c hinv v h2]
        have : (elems cs).filter (· ≤ v) = [] := by
          rw [List.filter_eq_nil_iff]
          intro y hy
          have := hb2 y hy
          simp only [decide_eq_true_eq]
          unfold hi16 at h2; omega
        rw [this]; rfl
      · rw [rank_cons_gt c cs v (by omega)]
        have e1 : c.elems.filter (· ≤ v) = [] := by
          rw [List.filter_eq_nil_iff]
          intro y hy
          have := hb1 y hy
          simp only [decide_eq_true_eq]
          unfold hi16 at h1 h2; omega
        have e2 : (elems cs).filter (· ≤ v) = [] := by
          rw [List.filter_eq_nil_iff]
          intro y hy
          have := hb2 y hy
          simp only [decide_eq_true_eq]
          unfold hi16 at h1 h2; omega
        rw [e1, e2]; rfl

theorem rank_spec (b : Bitmap) (h : b.WF) (v : Nat) (hv : v < 4294967296) :
    rank b v = Spec.rank (elems b) v := by
  have _ := hv
  exact rank_eq v b h.dir

/-! ### `range_cardinality` -/

/-- the loop of `range_cardinality` adds the rank of the end point in the remaining containers -/
theorem rangeCardLoop_rank (en : Nat) : ∀ (b : Bitmap) (acc : Nat),
    rangeCardLoop (hi16 en) (lo16 en) b acc = acc + rank b en := by
  intro b
  induction b with
  | nil => intro acc; simp [rangeCardLoop, rank, search_nil, len_nil]
  | cons c cs ih =>
    intro acc
    unfold rangeCardLoop
    by_cases h1 : c.key < hi16 en
    · rw [if_pos h1, ih, rank_cons_lt c cs en h1]; omega
    · rw [if_neg h1]
      by_cases h2 : c.key = hi16 en
      · rw [if_pos h2, rank_cons_eq c cs en h2]
      · rw [if_neg h2, rank_cons_gt c cs en (by omega)]; rfl

theorem count_split (l : List Nat) (a z : Nat) (h : a ≤ z) :
    (l.filter (fun x => decide (a ≤ x) && decide (x ≤ z))).length + (l.filter (· < a)).length
      = (l.filter (· ≤ z)).length := by
  induction l with
  | nil => rfl
  | cons y l ih =>
    simp only [List.filter_cons]
    by_cases h1 : y < a
    · have h2 : ¬ a ≤ y := by omega
      have h3 : y ≤ z := by omega
      simp [h1, h2, h3]; omega
    · have h2 : a ≤ y := by omega
      by_cases h3 : y ≤ z
      · simp [h1, h2, h3]; omega
      · simp [h1, h2, h3]; omega

/-- the body of `range_cardinality` once the range has been converted to `start ..= en` -/
def rcOk (b : Bitmap) (start en : Nat) : Nat :=
  let sk := hi16 start; let sl := lo16 start
  let ek := hi16 en; let el := lo16 en
  match search b sk with
  | (true, i) =>
    match b[i]? with
    | some c =>
      let card := if sk = ek then c.rank el else c.len
      let card := if sl ≠ 0 then card - c.rank (sl - 1) else card
      rangeCardLoop ek el (b.drop (i + 1)) card
    | none => 0
  | (false, i) => rangeCardLoop ek el (b.drop i) 0

theorem rangeCardinality_eq (b : Bitmap) (lo hi : Bound) :
    rangeCardinality b lo hi =
      match convertRange u32Max lo hi with
      | .error _ => 0
      | .ok (s, e) => rcOk b s e := rfl

/-- what the first container (the one holding `start`) contributes -/
def cCard (c : Container) (start en : Nat) : Nat :=
  let card := if hi16 start = hi16 en then c.rank (lo16 en) else c.len
  if lo16 start ≠ 0 then card - c.rank (lo16 start - 1) else card

theorem rcOk_cons_lt (c : Container) (cs : Bitmap) (st en : Nat) (h1 : c.key < hi16 st) :
    rcOk (c :: cs) st en = rcOk cs st en := by
  unfold rcOk
  simp only []
  rw [search_cons]
  simp only [h1, if_true]
  cases hs : search cs (hi16 st) with
  | mk f loc => cases f <;> simp

theorem rcOk_cons_eq (c : Container) (cs : Bitmap) (st en : Nat) (h2 : c.key = hi16 st) :
    rcOk (c :: cs) st en = rangeCardLoop (hi16 en) (lo16 en) cs (cCard c st en) := by
  unfold rcOk cCard
  simp only []
  rw [search_cons]
  simp [h2]

theorem rcOk_cons_gt (c : Container) (cs : Bitmap) (st en : Nat) (h3 : hi16 st < c.key) :
    rcOk (c :: cs) st en = rangeCardLoop (hi16 en) (lo16 en) (c :: cs) 0 := by
  unfold rcOk
  simp only []
  rw [search_cons]
  have h1 : ¬ c.key < hi16 st := by omega
  have h2 : (c.key == hi16 st) = false := by simp; omega
  simp [h1, h2]

theorem cCard_eq (c : Container) (hinv : c.store.Inv) (st en : Nat) (hse : st ≤ en)
    (hk : c.key = hi16 st) :
    cCard c st en = (c.elems.filter (fun x => decide (st ≤ x) && decide (x ≤ en))).length := by
  have hb := cElems_bounds c hinv
  -- the first summand is the number of values `≤ en`
  have hR : (if hi16 st = hi16 en then c.rank (lo16 en) else c.len)
      = (c.elems.filter (· ≤ en)).length := by
    by_cases he : hi16 st = hi16 en
    · rw [if_pos he, cRank_eq c hinv en (by omega)]
    · rw [if_neg he, cLen_eq' c hinv]
      have : c.elems.filter (· ≤ en) = c.elems := by
        rw [List.filter_eq_self]
        intro y hy
        have := hb y hy
        simp only [decide_eq_true_eq]
        unfold hi16 at hk he; omega
      rw [this]
  -- the subtracted one is the number of values `< st`
  have hL : (if lo16 st ≠ 0 then c.rank (lo16 st - 1) else 0) = (c.elems.filter (· < st)).length := by
    by_cases hz : lo16 st ≠ 0
    · rw [if_pos hz]
      have e1 : lo16 st - 1 = lo16 (st - 1) := by unfold lo16 at *; omega
      have e2 : c.key = hi16 (st - 1) := by unfold hi16 lo16 at *; omega
      rw [e1, cRank_eq c hinv (st - 1) e2]
      congr 1
      apply List.filter_congr
      intro y _
      rw [Bool.eq_iff_iff]
      simp only [decide_eq_true_eq]
      unfold lo16 at hz; omega
    · rw [if_neg hz]
      have : c.elems.filter (· < st) = [] := by
        rw [List.filter_eq_nil_iff]
        intro y hy
        have := hb y hy
        simp only [decide_eq_true_eq]
        unfold hi16 at hk; unfold lo16 at hz; omega
      rw [this]; rfl
  have hsplit := count_split c.elems st en hse
  unfold cCard
  simp only []
  by_cases hz : lo16 st ≠ 0
  · rw [if_pos hz] at hL ⊢
    rw [hR, hL]; omega
  · rw [if_neg hz] at hL ⊢
    rw [hR]; omega

theorem rcOk_eq (st en : Nat) (hse : st ≤ en) : ∀ (b : Bitmap), b.Dir →
    rcOk b st en = ((elems b).filter (fun x => decide (st ≤ x) && decide (x ≤ en))).length := by
  intro b
  induction b with
  | nil => intro _; simp [rcOk, search_nil, rangeCardLoop, elems]
  | cons c cs ih =>
    intro hdir
    have hinv := hdir.inv (List.mem_cons_self ..)
    have hb1 := cElems_bounds c hinv
    have hb2 := elems_tail_bounds hdir
    by_cases h1 : c.key < hi16 st
    · rw [rcOk_cons_lt c cs st en h1, ih hdir.tail, elems_cons, List.filter_append, List.length_append]
      have : c.elems.filter (fun x => decide (st ≤ x) && decide (x ≤ en)) = [] := by
        rw [List.filter_eq_nil_iff]
        intro y hy
        have := hb1 y hy
        simp only [Bool.and_eq_true, decide_eq_true_eq]
        unfold hi16 at h1; omega
      rw [this]; simp
    · by_cases h2 : c.key = hi16 st
      · rw [rcOk_cons_eq c cs st en h2, rangeCardLoop_rank, rank_eq en cs hdir.tail,
          cCard_eq c hinv st en hse h2, elems_cons, List.filter_append, List.length_append]
        congr 2
        apply List.filter_congr
        intro y hy
        have := hb2 y hy
        rw [Bool.eq_iff_iff]
        simp only [Bool.and_eq_true, decide_eq_true_eq]
        unfold hi16 at h2; omega
      · rw [rcOk_cons_gt c cs st en (by omega), rangeCardLoop_rank, rank_eq en _ hdir, Nat.zero_add]
        congr 1
        apply List.filter_congr
        intro y hy
        rw [elems_cons, List.mem_append] at hy
        rw [Bool.eq_iff_iff]
        simp only [Bool.and_eq_true, decide_eq_true_eq]
        unfold hi16 at h1 h2
        rcases hy with hy | hy
        · have := hb1 y hy; omega
        · have := hb2 y hy; omega

theorem rangeCardinality_spec (b : Bitmap) (h : b.WF) (lo hi : Bound)
    (hlo : Bound.le u32Max lo) (hhi : Bound.le u32Max hi) :
    rangeCardinality b lo hi = Spec.rangeCardinality u32Max (elems b) lo hi := by
  rw [rangeCardinality_eq]
  unfold Spec.rangeCardinality
  cases hc : convertRange u32Max lo hi with
  | error e =>
    rw [convertRange_error u32Max lo hi hlo hhi e hc]
  | ok r =>
    obtain ⟨st, en⟩ := r
    have hiv := convertRange_ok u32Max lo hi hlo hhi st en hc
    rw [hiv]
    obtain ⟨hse, _, _⟩ := Spec.interval_some u32Max lo hi st en hiv
    exact rcOk_eq st en hse b h.dir

theorem containsRange_spec (b : Bitmap) (h : b.WF) (lo hi : Bound)
    (hlo : Bound.le u32Max lo) (hhi : Bound.le u32Max hi) :
    containsRange b lo hi = Spec.containsRange u32Max (elems b) lo hi := by
  sorry

/-- `is_full` ⇔ the set is all of `0 ..= u32::MAX` -/
theorem isFull_spec (b : Bitmap) (h : b.WF) : isFull b = Spec.isFull u32Max (elems b) := by
  sorry

/-- corollaries stated in the property: rank/select are mutually inverse on members -/
theorem rank_select (b : Bitmap) (h : b.WF) (n : Nat) (hn : n < (elems b).length) :
    ∃ v, select b n = some v ∧ rank b v = n + 1 := by
  have hdir := h.dir
  have hs := sorted_elems b hdir
  have h1 : (elems b)[n]? = some (elems b)[n] := List.getElem?_eq_getElem hn
  refine ⟨(elems b)[n], ?_, ?_⟩
  · rw [select_eq b hdir]; exact h1
  · rw [rank_eq _ b hdir, Arr.filter_le_length _ hs]
    obtain ⟨hm, hidx⟩ := (Arr.getElem?_eq_some_iff_sorted _ hs n _).mp h1
    rw [if_pos hm, ← hidx]

theorem select_rank (b : Bitmap) (h : b.WF) (v : Nat) (hv : v ∈ elems b) :
    select b (rank b v - 1) = some v := by
  have hdir := h.dir
  have hs := sorted_elems b hdir
  rw [rank_eq _ b hdir, select_eq b hdir, Arr.filter_le_length _ hs, if_pos hv, Nat.add_sub_cancel]
  exact (Arr.getElem?_eq_some_iff_sorted _ hs _ _).mpr ⟨hv, rfl⟩

end Bitmap
end Roaring
