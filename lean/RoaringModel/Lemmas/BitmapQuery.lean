import RoaringModel.Lemmas.BitmapMut
/-!
# The `RoaringBitmap` queries agree with the sorted element list (inherent.rs) — property C07
-/
namespace Roaring
namespace Bitmap

/-! ### the abstraction, container by container -/

theorem elems_cons (c : Container) (cs : Bitmap) : elems (c :: cs) = c.elems ++ elems cs := by
  simp [elems]

theorem elems_append (a b : Bitmap) : elems (a ++ b) = elems a ++ elems b := by
  simp [elems]

theorem length_cElems (c : Container) : c.elems.length = c.store.elems.length := by
  simp [Container.elems]

theorem cLen_eq (c : Container) (hc : c.store.Inv) : c.len = c.store.elems.length :=
  Store.len_eq _ hc

theorem cLen_eq' (c : Container) (hc : c.store.Inv) : c.len = c.elems.length := by
  rw [length_cElems]; exact Store.len_eq _ hc

/-- the values of a container lie in its 2^16-aligned window -/
theorem cElems_bounds (c : Container) (hc : c.store.Inv) :
    ∀ y ∈ c.elems, c.key * 65536 ≤ y ∧ y < c.key * 65536 + 65536 := by
  intro y hy
  rw [mem_cElems c hc] at hy
  have := Store.elems_lt _ hc _ hy.2
  omega

/-- the values of the later containers lie above the window of the first one -/
theorem elems_tail_bounds {c : Container} {cs : Bitmap} (h : Dir (c :: cs)) :
    ∀ y ∈ elems cs, c.key * 65536 + 65536 ≤ y := by
  intro y hy
  rw [mem_elems_iff_exists] at hy
  obtain ⟨d, hd, hy⟩ := hy
  have h1 := h.head_lt d hd
  have h2 := cElems_bounds d (Store.canon_inv _ (h.2 d (List.mem_cons_of_mem _ hd)).2) y hy
  omega

theorem Dir.inv {b : Bitmap} (h : Dir b) {c : Container} (hc : c ∈ b) : c.store.Inv :=
  Store.canon_inv _ (h.2 c hc).2

theorem WF.tail {c : Container} {cs : Bitmap} (h : Bitmap.WF (c :: cs)) : Bitmap.WF cs :=
  wf_of_dir _ h.dir.tail (fun d hd => h.ne d (List.mem_cons_of_mem _ hd))

theorem cElems_ne (c : Container) (h : c.store.elems ≠ []) : c.elems ≠ [] := by
  unfold Container.elems
  intro hc
  exact h (List.map_eq_nil_iff.mp hc)

/-! ### `len` -/

theorem foldl_len (b : Bitmap) (a : Nat) :
    b.foldl (fun acc c => acc + c.len) a = a + len b := by
  unfold len
  induction b generalizing a with
  | nil => simp
  | cons c cs ih =>
    simp only [List.foldl_cons]
    rw [ih (a + c.len), ih (0 + c.len)]
    omega

theorem len_nil : len [] = 0 := rfl

theorem len_cons (c : Container) (cs : Bitmap) : len (c :: cs) = c.len + len cs := by
  show List.foldl (fun acc c => acc + c.len) 0 (c :: cs) = _
  rw [List.foldl_cons, foldl_len]
  omega

theorem len_eq_length (b : Bitmap) (h : b.Dir) : len b = (elems b).length := by
  induction b with
  | nil => rfl
  | cons c cs ih =>
    rw [len_cons, elems_cons, List.length_append, ih h.tail,
      cLen_eq' c (h.inv (List.mem_cons_self ..))]

theorem len_spec (b : Bitmap) (h : b.WF) : len b = (elems b).length :=
  len_eq_length b h.dir

/-! ### `is_empty` -/

theorem isEmpty_spec (b : Bitmap) (h : b.WF) : isEmpty b = (elems b).isEmpty := by
  cases b with
  | nil => rfl
  | cons c cs =>
    have hne := cElems_ne c (h.ne c (List.mem_cons_self ..))
    rw [elems_cons]
    cases hce : c.elems with
    | nil => exact absurd hce hne
    | cons a l => rfl

/-! ### `contains` -/

theorem contains_cons_lt (c : Container) (cs : Bitmap) (v : Nat) (h1 : c.key < hi16 v) :
    contains (c :: cs) v = contains cs v := by
  unfold contains
  rw [search_cons]
  simp only [h1, if_true]
  cases hs : search cs (hi16 v) with
  | mk f loc => cases f <;> simp

theorem contains_cons_eq (c : Container) (cs : Bitmap) (v : Nat) (h2 : c.key = hi16 v) :
    contains (c :: cs) v = c.contains (lo16 v) := by
  unfold contains
  rw [search_cons]
  have h1 : ¬ c.key < hi16 v := by omega
  simp [h2]

theorem contains_cons_gt (c : Container) (cs : Bitmap) (v : Nat) (h3 : hi16 v < c.key) :
    contains (c :: cs) v = false := by
  unfold contains
  rw [search_cons]
  have h1 : ¬ c.key < hi16 v := by omega
  have h2 : (c.key == hi16 v) = false := by simp; omega
  simp [h1, h2]

theorem contains_iff (v : Nat) : ∀ (b : Bitmap), b.Dir →
    (contains b v = true ↔ lo16 v ∈ chunk b (hi16 v)) := by
  intro b
  induction b with
  | nil => intro _; simp [contains, search_nil, chunk]
  | cons c cs ih =>
    intro hdir
    have hl : lo16 v < 65536 := by unfold lo16; omega
    by_cases h1 : c.key < hi16 v
    · rw [contains_cons_lt c cs v h1, chunk_cons_ne c cs _ (by omega)]
      exact ih hdir.tail
    · by_cases h2 : c.key = hi16 v
      · rw [contains_cons_eq c cs v h2, chunk_cons_eq c cs _ h2]
        unfold Container.contains
        rw [Store.contains_spec _ (hdir.inv (List.mem_cons_self ..)) _ hl]
        simp
      · rw [contains_cons_gt c cs v (by omega)]
        have : chunk (c :: cs) (hi16 v) = [] :=
          chunk_nil_of_lt (fun d hd => by
            rcases List.mem_cons.mp hd with h | h
            · rw [h]; omega
            · have := hdir.head_lt d h; omega)
        rw [this]; simp

theorem contains_spec (b : Bitmap) (h : b.WF) (v : Nat) :
    contains b v = Spec.contains (elems b) v := by
  unfold Spec.contains
  rw [Spec.contains_eq, Bool.eq_iff_iff, contains_iff v b h.dir, decide_eq_true_eq, mem_elems b h.dir]
  unfold hi16 lo16
  exact Iff.rfl

/-! ### `min` / `max` -/

theorem cElems_head? (c : Container) (hc : c.store.Inv) :
    c.elems.head? = (c.min?).map (join c.key) := by
  unfold Container.elems Container.min?
  rw [List.head?_map, Store.min?_spec _ hc]
  rfl

theorem cElems_getLast? (c : Container) (hc : c.store.Inv) :
    c.elems.getLast? = (c.max?).map (join c.key) := by
  unfold Container.elems Container.max?
  rw [List.getLast?_map, Store.max?_spec _ hc]
  rfl

theorem min?_spec (b : Bitmap) (h : b.WF) : min? b = Spec.min? (elems b) := by
  unfold min? Spec.min?
  cases b with
  | nil => rfl
  | cons c cs =>
    have hne := cElems_ne c (h.ne c (List.mem_cons_self ..))
    rw [elems_cons, List.head?_append, cElems_head? c (h.dir.inv (List.mem_cons_self ..))]
    simp only [List.head?_cons]
    rw [← cElems_head? c (h.dir.inv (List.mem_cons_self ..))]
    cases hce : c.elems with
    | nil => exact absurd hce hne
    | cons a l => rfl

theorem max?_spec (b : Bitmap) (h : b.WF) : max? b = Spec.max? (elems b) := by
  unfold max? Spec.max?
  cases hl : b.getLast? with
  | none =>
    have : b = [] := List.getLast?_eq_none_iff.mp hl
    subst this; rfl
  | some c =>
    obtain ⟨ys, rfl⟩ := List.getLast?_eq_some_iff.mp hl
    have hc : c ∈ ys ++ [c] := by simp
    have hne := cElems_ne c (h.ne c hc)
    rw [elems_append, List.getLast?_append]
    have e : elems [c] = c.elems := by simp [elems]
    rw [e]
    simp only []
    rw [← cElems_getLast? c (h.dir.inv hc)]
    cases hce : c.elems.getLast? with
    | none => exact absurd (List.getLast?_eq_none_iff.mp hce) hne
    | some a => rfl

/-! ### `select` -/

theorem select_eq (b : Bitmap) (h : b.Dir) (n : Nat) : select b n = (elems b)[n]? := by
  induction b generalizing n with
  | nil => simp [select, elems]
  | cons c cs ih =>
    have hinv := h.inv (List.mem_cons_self ..)
    rw [elems_cons, List.getElem?_append, select, ← cLen_eq' c hinv]
    by_cases hn : c.len > n
    · rw [if_pos hn, if_pos hn]
      unfold Container.elems
      rw [List.getElem?_map, Store.select_spec _ hinv]
      rfl
    · rw [if_neg hn, if_neg hn]
      exact ih h.tail _

theorem select_spec (b : Bitmap) (h : b.WF) (n : Nat) : select b n = Spec.select (elems b) n :=
  select_eq b h.dir n

/-! ### `rank` -/

theorem rank_cons_lt (c : Container) (cs : Bitmap) (v : Nat) (h1 : c.key < hi16 v) :
    rank (c :: cs) v = c.len + rank cs v := by
  unfold rank
  rw [search_cons]
  simp only [h1, if_true]
  cases hs : search cs (hi16 v) with
  | mk f loc => cases f <;> simp [len_cons] <;> omega

theorem rank_cons_eq (c : Container) (cs : Bitmap) (v : Nat) (h2 : c.key = hi16 v) :
    rank (c :: cs) v = c.rank (lo16 v) := by
  unfold rank
  rw [search_cons]
  simp [h2, len_nil]

theorem rank_cons_gt (c : Container) (cs : Bitmap) (v : Nat) (h3 : hi16 v < c.key) :
    rank (c :: cs) v = 0 := by
  unfold rank
  rw [search_cons]
  have h1 : ¬ c.key < hi16 v := by omega
  have h2 : (c.key == hi16 v) = false := by simp; omega
  simp [h1, h2, len_nil]

/-- rank inside the container that owns the window of `v` -/
theorem cRank_eq (c : Container) (hc : c.store.Inv) (v : Nat) (hk : c.key = hi16 v) :
    c.rank (lo16 v) = (c.elems.filter (· ≤ v)).length := by
  have hl : lo16 v < 65536 := by unfold lo16; omega
  unfold Container.rank Container.elems
  rw [Store.rank_spec _ hc _ hl, List.filter_map, List.length_map]
  congr 1
  apply List.filter_congr
  intro x _
  rw [Bool.eq_iff_iff]
  simp only [Function.comp, decide_eq_true_eq]
  unfold hi16 lo16 at *
  omega

theorem rank_eq (v : Nat) : ∀ (b : Bitmap), b.Dir → rank b v = ((elems b).filter (· ≤ v)).length := by
  intro b
  induction b with
  | nil => intro _; simp [rank, search_nil, elems, len_nil]
  | cons c cs ih =>
    intro hdir
    have hinv := hdir.inv (List.mem_cons_self ..)
    have hb1 := cElems_bounds c hinv
    have hb2 := elems_tail_bounds hdir
    rw [elems_cons, List.filter_append, List.length_append]
    by_cases h1 : c.key < hi16 v
    · rw [rank_cons_lt c cs v h1, ih hdir.tail, cLen_eq' c hinv]
      have : c.elems.filter (· ≤ v) = c.elems := by
        rw [List.filter_eq_self]
        intro y hy
        have := hb1 y hy
        simp only [decide_eq_true_eq]
        unfold hi16 at h1; omega
      rw [this]
    · by_cases h2 : c.key = hi16 v
      · rw [rank_cons_eq c cs v h2, cRank_eq c hinv v h2]
        have : (elems cs).filter (· ≤ v) = [] := by
          rw [List.filter_eq_nil_iff]
          intro y hy
          have := hb2 y hy
          simp only [decide_eq_true_eq]
          unfold hi16 at h2; omega
        rw [this]; rfl
      · rw [rank_cons_gt c cs v (by omega)]
        have e1 : c.elems.filter (· ≤ v) = [] := by
          rw [List.filter_eq_nil_iff]
          intro y hy
          have := hb1 y hy
          simp only [decide_eq_true_eq]
          unfold hi16 at h1 h2; omega
        have e2 : (elems cs).filter (· ≤ v) = [] := by
          rw [List.filter_eq_nil_iff]
          intro y hy
          have := hb2 y hy
          simp only [decide_eq_true_eq]
          unfold hi16 at h1 h2; omega
        rw [e1, e2]; rfl

theorem rank_spec (b : Bitmap) (h : b.WF) (v : Nat) (hv : v < 4294967296) :
    rank b v = Spec.rank (elems b) v := by
  have _ := hv
  exact rank_eq v b h.dir

/-! ### `range_cardinality` -/

/-- the loop of `range_cardinality` adds the rank of the end point in the remaining containers -/
theorem rangeCardLoop_rank (en : Nat) : ∀ (b : Bitmap) (acc : Nat),
    rangeCardLoop (hi16 en) (lo16 en) b acc = acc + rank b en := by
  intro b
  induction b with
  | nil => intro acc; simp [rangeCardLoop, rank, search_nil, len_nil]
  | cons c cs ih =>
    intro acc
    unfold rangeCardLoop
    by_cases h1 : c.key < hi16 en
    · rw [if_pos h1, ih, rank_cons_lt c cs en h1]; omega
    · rw [if_neg h1]
      by_cases h2 : c.key = hi16 en
      · rw [if_pos h2, rank_cons_eq c cs en h2]
      · rw [if_neg h2, rank_cons_gt c cs en (by omega)]; rfl

theorem count_split (l : List Nat) (a z : Nat) (h : a ≤ z) :
    (l.filter (fun x => decide (a ≤ x) && decide (x ≤ z))).length + (l.filter (· < a)).length
      = (l.filter (· ≤ z)).length := by
  induction l with
  | nil => rfl
  | cons y l ih =>
    simp only [List.filter_cons]
    by_cases h1 : y < a
    · have h2 : ¬ a ≤ y := by omega
      have h3 : y ≤ z := by omega
      simp [h1, h2, h3]; omega
    · have h2 : a ≤ y := by omega
      by_cases h3 : y ≤ z
      · simp [h1, h2, h3]; omega
      · simp [h1, h2, h3]; omega

/-- the body of `range_cardinality` once the range has been converted to `start ..= en` -/
def rcOk (b : Bitmap) (start en : Nat) : Nat :=
  let sk := hi16 start; let sl := lo16 start
  let ek := hi16 en; let el := lo16 en
  match search b sk with
  | (true, i) =>
    match b[i]? with
    | some c =>
      let card := if sk = ek then c.rank el else c.len
      let card := if sl ≠ 0 then card - c.rank (sl - 1) else card
      rangeCardLoop ek el (b.drop (i + 1)) card
    | none => 0
  | (false, i) => rangeCardLoop ek el (b.drop i) 0

theorem rangeCardinality_eq (b : Bitmap) (lo hi : Bound) :
    rangeCardinality b lo hi =
      match convertRange u32Max lo hi with
      | .error _ => 0
      | .ok (s, e) => rcOk b s e := rfl

/-- what the first container (the one holding `start`) contributes -/
def cCard (c : Container) (start en : Nat) : Nat :=
  let card := if hi16 start = hi16 en then c.rank (lo16 en) else c.len
  if lo16 start ≠ 0 then card - c.rank (lo16 start - 1) else card

theorem rcOk_cons_lt (c : Container) (cs : Bitmap) (st en : Nat) (h1 : c.key < hi16 st) :
    rcOk (c :: cs) st en = rcOk cs st en := by
  unfold rcOk
  simp only []
  rw [search_cons]
  simp only [h1, if_true]
  cases hs : search cs (hi16 st) with
  | mk f loc => cases f <;> simp

theorem rcOk_cons_eq (c : Container) (cs : Bitmap) (st en : Nat) (h2 : c.key = hi16 st) :
    rcOk (c :: cs) st en = rangeCardLoop (hi16 en) (lo16 en) cs (cCard c st en) := by
  unfold rcOk cCard
  simp only []
  rw [search_cons]
  simp [h2]

theorem rcOk_cons_gt (c : Container) (cs : Bitmap) (st en : Nat) (h3 : hi16 st < c.key) :
    rcOk (c :: cs) st en = rangeCardLoop (hi16 en) (lo16 en) (c :: cs) 0 := by
  unfold rcOk
  simp only []
  rw [search_cons]
  have h1 : ¬ c.key < hi16 st := by omega
  have h2 : (c.key == hi16 st) = false := by simp; omega
  simp [h1, h2]

theorem cCard_eq (c : Container) (hinv : c.store.Inv) (st en : Nat) (hse : st ≤ en)
    (hk : c.key = hi16 st) :
    cCard c st en = (c.elems.filter (fun x => decide (st ≤ x) && decide (x ≤ en))).length := by
  have hb := cElems_bounds c hinv
  -- the first summand is the number of values `≤ en`
  have hR : (if hi16 st = hi16 en then c.rank (lo16 en) else c.len)
      = (c.elems.filter (· ≤ en)).length := by
    by_cases he : hi16 st = hi16 en
    · rw [if_pos he, cRank_eq c hinv en (by omega)]
    · rw [if_neg he, cLen_eq' c hinv]
      have : c.elems.filter (· ≤ en) = c.elems := by
        rw [List.filter_eq_self]
        intro y hy
        have := hb y hy
        simp only [decide_eq_true_eq]
        unfold hi16 at hk he; omega
      rw [this]
  -- the subtracted one is the number of values `< st`
  have hL : (if lo16 st ≠ 0 then c.rank (lo16 st - 1) else 0) = (c.elems.filter (· < st)).length := by
    by_cases hz : lo16 st ≠ 0
    · rw [if_pos hz]
      have e1 : lo16 st - 1 = lo16 (st - 1) := by unfold lo16 at *; omega
      have e2 : c.key = hi16 (st - 1) := by unfold hi16 lo16 at *; omega
      rw [e1, cRank_eq c hinv (st - 1) e2]
      congr 1
      apply List.filter_congr
      intro y _
      rw [Bool.eq_iff_iff]
      simp only [decide_eq_true_eq]
      unfold lo16 at hz; omega
    · rw [if_neg hz]
      have : c.elems.filter (· < st) = [] := by
        rw [List.filter_eq_nil_iff]
        intro y hy
        have := hb y hy
        simp only [decide_eq_true_eq]
        unfold hi16 at hk; unfold lo16 at hz; omega
      rw [this]; rfl
  have hsplit := count_split c.elems st en hse
  unfold cCard
  simp only []
  by_cases hz : lo16 st ≠ 0
  · rw [if_pos hz] at hL ⊢
    rw [hR, hL]; omega
  · rw [if_neg hz] at hL ⊢
    rw [hR]; omega

theorem rcOk_eq (st en : Nat) (hse : st ≤ en) : ∀ (b : Bitmap), b.Dir →
    rcOk b st en = ((elems b).filter (fun x => decide (st ≤ x) && decide (x ≤ en))).length := by
  intro b
  induction b with
  | nil => intro _; simp [rcOk, search_nil, rangeCardLoop, elems]
  | cons c cs ih =>
    intro hdir
    have hinv := hdir.inv (List.mem_cons_self ..)
    have hb1 := cElems_bounds c hinv
    have hb2 := elems_tail_bounds hdir
    by_cases h1 : c.key < hi16 st
    · rw [rcOk_cons_lt c cs st en h1, ih hdir.tail, elems_cons, List.filter_append, List.length_append]
      have : c.elems.filter (fun x => decide (st ≤ x) && decide (x ≤ en)) = [] := by
        rw [List.filter_eq_nil_iff]
        intro y hy
        have := hb1 y hy
        simp only [Bool.and_eq_true, decide_eq_true_eq]
        unfold hi16 at h1; omega
      rw [this]; simp
    · by_cases h2 : c.key = hi16 st
      · rw [rcOk_cons_eq c cs st en h2, rangeCardLoop_rank, rank_eq en cs hdir.tail,
          cCard_eq c hinv st en hse h2, elems_cons, List.filter_append, List.length_append]
        congr 2
        apply List.filter_congr
        intro y hy
        have := hb2 y hy
        rw [Bool.eq_iff_iff]
        simp only [Bool.and_eq_true, decide_eq_true_eq]
        unfold hi16 at h2; omega
      · rw [rcOk_cons_gt c cs st en (by omega), rangeCardLoop_rank, rank_eq en _ hdir, Nat.zero_add]
        congr 1
        apply List.filter_congr
        intro y hy
        rw [elems_cons, List.mem_append] at hy
        rw [Bool.eq_iff_iff]
        simp only [Bool.and_eq_true, decide_eq_true_eq]
        unfold hi16 at h1 h2
        rcases hy with hy | hy
        · have := hb1 y hy; omega
        · have := hb2 y hy; omega

theorem rangeCardinality_spec (b : Bitmap) (h : b.WF) (lo hi : Bound)
    (hlo : Bound.le u32Max lo) (hhi : Bound.le u32Max hi) :
    rangeCardinality b lo hi = Spec.rangeCardinality u32Max (elems b) lo hi := by
  rw [rangeCardinality_eq]
  unfold Spec.rangeCardinality
  cases hc : convertRange u32Max lo hi with
  | error e =>
    rw [convertRange_error u32Max lo hi hlo hhi e hc]
  | ok r =>
    obtain ⟨st, en⟩ := r
    have hiv := convertRange_ok u32Max lo hi hlo hhi st en hc
    rw [hiv]
    obtain ⟨hse, _, _⟩ := Spec.interval_some u32Max lo hi st en hiv
    exact rcOk_eq st en hse b h.dir

/-! ### `contains_range` -/

/-- on a sorted list, "the interval `[a, b]` contributes `b - a + 1` elements" means "all of it is present" -/
theorem count_eq_iff (s : List Nat) (hs : Sorted s) (a b : Nat) (hab : a ≤ b) :
    (s.filter (fun x => decide (a ≤ x) && decide (x ≤ b))).length = b - a + 1 ↔
      ∀ x, a ≤ x → x ≤ b → x ∈ s := by
  have hcongr : s.filter (fun x => decide (a ≤ x) && decide (x ≤ b))
      = s.filter (fun x => decide (a ≤ x) && decide (x < a + (b - a + 1))) := by
    apply List.filter_congr
    intro x _
    rw [Bool.eq_iff_iff]
    simp only [Bool.and_eq_true, decide_eq_true_eq]
    omega
  constructor
  · intro hlen x h1 h2
    have hb := Arr.sorted_bounded_length _ (Arr.sorted_filter hs (fun x => decide (a ≤ x) && decide (x ≤ b)))
      a (b - a + 1) (by
        intro x hx
        have := (List.mem_filter.mp hx).2
        simp only [Bool.and_eq_true, decide_eq_true_eq] at this
        omega)
    exact (List.mem_filter.mp (hb.2 hlen x h1 (by omega))).1
  · intro hall
    rw [hcongr, Arr.filter_range_of_forall s hs a (b - a + 1) (fun x h1 h2 => hall x h1 (by omega)),
      List.length_range']

theorem cIsFull_iff (c : Container) (hc : c.store.Inv) :
    c.isFull = true ↔ ∀ x, x < 65536 → x ∈ c.store.elems := by
  unfold Container.isFull Store.isFull
  rw [beq_iff_eq, Store.len_eq _ hc]
  have hs := Store.sorted_elems _ hc
  have hb := Arr.sorted_bounded_length c.store.elems hs 0 65536 (by
    intro x hx
    have := Store.elems_lt _ hc x hx
    omega)
  constructor
  · intro hlen x hx
    exact hb.2 hlen x (by omega) (by omega)
  · intro hall
    have := Arr.filter_range_of_forall c.store.elems hs 0 65536 (fun x _ h2 => hall x (by omega))
    have h2 := List.length_filter_le (fun x => decide (0 ≤ x) && decide (x < 0 + 65536)) c.store.elems
    rw [this, List.length_range'] at h2
    have := hb.1
    omega

theorem mem_chunk_exists (b : Bitmap) (k x : Nat) (h : x ∈ chunk b k) :
    ∃ d ∈ b, d.key = k ∧ x ∈ d.store.elems := by
  induction b with
  | nil => simp [chunk] at h
  | cons c cs ih =>
    by_cases hk : c.key = k
    · rw [chunk_cons_eq c cs k hk] at h
      exact ⟨c, List.mem_cons_self .., hk, h⟩
    · rw [chunk_cons_ne c cs k hk] at h
      obtain ⟨d, hd, h1, h2⟩ := ih h
      exact ⟨d, List.mem_cons_of_mem _ hd, h1, h2⟩

theorem chunk_of_mem (b : Bitmap) (h : b.Dir) (d : Container) (hd : d ∈ b) :
    chunk b d.key = d.store.elems := by
  induction b with
  | nil => simp at hd
  | cons c cs ih =>
    rcases List.mem_cons.mp hd with hd' | hd'
    · subst hd'; exact chunk_cons_eq _ cs _ rfl
    · have := h.head_lt d hd'
      rw [chunk_cons_ne c cs _ (by omega)]
      exact ih h.tail hd'

/-- keys are strictly ascending: the `n`-th container after a key `k` has key at least `k + 1 + n` -/
theorem key_lower : ∀ (rest : Bitmap) (k n : Nat) (last : Container), rest.Dir →
    (∀ d ∈ rest, k < d.key) → rest[n]? = some last → k + 1 + n ≤ last.key := by
  intro rest
  induction rest with
  | nil => intro k n last _ _ h; simp at h
  | cons r0 rest' ih =>
    intro k n last hdir hk hget
    have hk0 := hk r0 (List.mem_cons_self ..)
    cases n with
    | zero =>
      simp only [List.getElem?_cons_zero, Option.some.injEq] at hget
      subst hget; omega
    | succ n =>
      simp only [List.getElem?_cons_succ] at hget
      have := ih r0.key n last hdir.tail hdir.head_lt hget
      omega

/-- `containers.get(span)` having the expected key forces the keys in between to be consecutive; the
    positional check of `contains_range` is therefore a statement about consecutive chunks -/
theorem run_iff (Q : Container → Prop) : ∀ (n k : Nat) (rest : Bitmap), rest.Dir →
    (∀ d ∈ rest, k < d.key) →
    ((∃ last, rest[n]? = some last ∧ last.key = k + 1 + n ∧
        (∀ d ∈ rest.take n, d.isFull = true) ∧ Q last) ↔
     ((∀ j, j < n → ∀ x, x < 65536 → x ∈ chunk rest (k + 1 + j)) ∧
        ∃ last ∈ rest, last.key = k + 1 + n ∧ Q last)) := by
  intro n
  induction n with
  | zero =>
    intro k rest hdir hk
    constructor
    · rintro ⟨last, hget, hkey, _, hQ⟩
      exact ⟨fun j hj => absurd hj (Nat.not_lt_zero _), last, List.mem_of_getElem? hget, hkey, hQ⟩
    · rintro ⟨_, last, hmem, hkey, hQ⟩
      cases rest with
      | nil => simp at hmem
      | cons r0 rest' =>
        have hk0 := hk r0 (List.mem_cons_self ..)
        rcases List.mem_cons.mp hmem with hl | hl
        · subst hl
          exact ⟨last, by simp, hkey, by simp, hQ⟩
        · have := hdir.head_lt last hl
          omega
  | succ n ih =>
    intro k rest hdir hk
    cases rest with
    | nil => simp
    | cons r0 rest' =>
      have hk0 := hk r0 (List.mem_cons_self ..)
      have hlt := hdir.head_lt
      have hinv0 := hdir.inv (List.mem_cons_self ..)
      have IH := ih (k + 1) rest' hdir.tail (fun d hd => by have := hlt d hd; omega)
      constructor
      · rintro ⟨last, hget, hkey, hfull, hQ⟩
        simp only [List.getElem?_cons_succ] at hget
        simp only [List.take_succ_cons, List.mem_cons, forall_eq_or_imp] at hfull
        have hlow := key_lower rest' r0.key n last hdir.tail hlt hget
        have hr0 : r0.key = k + 1 := by omega
        obtain ⟨hA, last', hmem', hkey', hQ'⟩ := IH.mp ⟨last, hget, by omega, hfull.2, hQ⟩
        refine ⟨?_, last', List.mem_cons_of_mem _ hmem', by omega, hQ'⟩
        intro j hj x hx
        cases j with
        | zero =>
          rw [chunk_cons_eq r0 rest' _ (by omega)]
          exact (cIsFull_iff r0 hinv0).mp hfull.1 x hx
        | succ j =>
          rw [chunk_cons_ne r0 rest' _ (by omega)]
          have e : k + 1 + (j + 1) = k + 1 + 1 + j := by omega
          rw [e]
          exact hA j (by omega) x hx
      · rintro ⟨hA, last, hmem, hkey, hQ⟩
        have h0 := hA 0 (by omega) 0 (by omega)
        have hr0 : r0.key = k + 1 := by
          by_cases hc : r0.key = k + 1
          · exact hc
          · rw [chunk_cons_ne r0 rest' _ (by omega)] at h0
            rw [chunk_nil_of_lt (fun d hd => by have := hlt d hd; omega)] at h0
            simp at h0
        have hfull0 : r0.isFull = true := by
          rw [cIsFull_iff r0 hinv0]
          intro x hx
          have := hA 0 (by omega) x hx
          rw [chunk_cons_eq r0 rest' _ (by omega)] at this
          exact this
        have hmem' : last ∈ rest' := by
          rcases List.mem_cons.mp hmem with hl | hl
          · subst hl; omega
          · exact hl
        obtain ⟨last', hget', hkey', hfull', hQ'⟩ := IH.mpr ⟨by
            intro j hj x hx
            have := hA (j + 1) (by omega) x hx
            rw [chunk_cons_ne r0 rest' _ (by omega)] at this
            have e : k + 1 + (j + 1) = k + 1 + 1 + j := by omega
            rw [e] at this
            exact this, last, hmem', by omega, hQ⟩
        refine ⟨last', by simpa using hget', by omega, ?_, hQ'⟩
        simp only [List.take_succ_cons, List.mem_cons, forall_eq_or_imp]
        exact ⟨hfull0, hfull'⟩

/-- the check on the last container, as a statement about its chunk -/
theorem last_iff (rest : Bitmap) (hdir : rest.Dir) (eh el : Nat) (hel : el < 65536) :
    (∃ last ∈ rest, last.key = eh ∧ last.containsRange 0 el = true) ↔
      ∀ x, x ≤ el → x ∈ chunk rest eh := by
  constructor
  · rintro ⟨last, hmem, hkey, hcr⟩ x hx
    rw [← hkey, chunk_of_mem rest hdir last hmem]
    exact (Store.containsRange_spec _ (hdir.inv hmem) 0 el (by omega) hel).mp hcr x (by omega) hx
  · intro hall
    obtain ⟨d, hd, hkey, _⟩ := mem_chunk_exists rest eh 0 (hall 0 (by omega))
    refine ⟨d, hd, hkey, ?_⟩
    unfold Container.containsRange
    rw [Store.containsRange_spec _ (hdir.inv hd) 0 el (by omega) hel]
    intro x _ hx
    have := hall x hx
    rw [← hkey, chunk_of_mem rest hdir d hd] at this
    exact this

/-- the body of `contains_range` once the range has been converted to `start ..= en` -/
def crOk (b : Bitmap) (start en : Nat) : Bool :=
  let sh := hi16 start; let sl := lo16 start
  let eh := hi16 en; let el := lo16 en
  match search b sh with
  | (false, _) => false
  | (true, i) =>
    let cs := b.drop i
    match cs with
    | [] => false
    | first :: _ =>
      if sh = eh then first.containsRange sl el
      else
        let span := eh - sh
        match cs[span]? with
        | some last =>
          if last.key = eh then
            first.containsRange sl 65535
              && ((cs.take span).drop 1).all Container.isFull
              && last.containsRange 0 el
          else false
        | none => false

theorem containsRange_eq (b : Bitmap) (lo hi : Bound) :
    containsRange b lo hi =
      match convertRange u32Max lo hi with
      | .error _ => true
      | .ok (s, e) => crOk b s e := rfl

theorem crOk_cons_lt (c : Container) (cs : Bitmap) (st en : Nat) (h1 : c.key < hi16 st) :
    crOk (c :: cs) st en = crOk cs st en := by
  unfold crOk
  simp only []
  rw [search_cons]
  simp only [h1, if_true]
  cases hs : search cs (hi16 st) with
  | mk f loc => cases f <;> simp

theorem crOk_cons_gt (c : Container) (cs : Bitmap) (st en : Nat) (h3 : hi16 st < c.key) :
    crOk (c :: cs) st en = false := by
  unfold crOk
  simp only []
  rw [search_cons]
  have h1 : ¬ c.key < hi16 st := by omega
  have h2 : (c.key == hi16 st) = false := by simp; omega
  simp [h1, h2]

theorem crOk_cons_same (c : Container) (rest : Bitmap) (st en : Nat) (h2 : c.key = hi16 st)
    (he : hi16 st = hi16 en) :
    crOk (c :: rest) st en = c.containsRange (lo16 st) (lo16 en) := by
  unfold crOk
  simp only []
  rw [search_cons]
  simp [h2, he]

theorem crOk_cons_span (c : Container) (rest : Bitmap) (st en : Nat) (h2 : c.key = hi16 st)
    (n : Nat) (he : hi16 en = hi16 st + 1 + n) :
    (crOk (c :: rest) st en = true ↔
      c.containsRange (lo16 st) 65535 = true ∧
      ∃ last, rest[n]? = some last ∧ last.key = c.key + 1 + n ∧
        (∀ d ∈ rest.take n, d.isFull = true) ∧ last.containsRange 0 (lo16 en) = true) := by
  unfold crOk
  simp only []
  rw [search_cons]
  have hne : ¬ hi16 st = hi16 en := by omega
  have hspan : hi16 en - hi16 st = n + 1 := by omega
  have h1 : ¬ c.key < hi16 st := by omega
  have hb : (c.key == hi16 st) = true := by simp [h2]
  rw [if_neg h1, hb]
  simp only [List.drop_zero, hne, if_false, hspan, List.getElem?_cons_succ,
    List.take_succ_cons, List.drop_succ_cons]
  cases hget : rest[n]? with
  | none => simp
  | some last =>
    by_cases hk : last.key = hi16 en
    · simp only [hk, if_true, Bool.and_eq_true, List.all_eq_true, Option.some.injEq]
      constructor
      · rintro ⟨⟨ha, hb⟩, hc⟩
        exact ⟨ha, last, rfl, by omega, hb, hc⟩
      · rintro ⟨ha, last', hl, _, hb, hc⟩
        subst hl
        exact ⟨⟨ha, hb⟩, hc⟩
    · simp only [hk, if_false, Option.some.injEq]
      constructor
      · intro hf; exact absurd hf (by simp)
      · rintro ⟨_, last', hl, hk', _, _⟩
        subst hl; omega

theorem crOk_head (c : Container) (rest : Bitmap) (hdir : Dir (c :: rest)) (st en : Nat)
    (hse : st ≤ en) (h2 : c.key = hi16 st) :
    (crOk (c :: rest) st en = true ↔ ∀ y, st ≤ y → y ≤ en → y ∈ elems (c :: rest)) := by
  have hinv := hdir.inv (List.mem_cons_self ..)
  have hsl : lo16 st < 65536 := by unfold lo16; omega
  have hel : lo16 en < 65536 := by unfold lo16; omega
  have hmem : ∀ y, y ∈ elems (c :: rest) ↔ y % 65536 ∈ chunk (c :: rest) (y / 65536) :=
    mem_elems _ hdir
  by_cases he : hi16 st = hi16 en
  · rw [crOk_cons_same c rest st en h2 he]
    unfold Container.containsRange
    rw [Store.containsRange_spec _ hinv _ _ (by unfold hi16 lo16 at *; omega) hel]
    constructor
    · intro hall y h1 h3
      rw [hmem, chunk_cons_eq c rest _ (by unfold hi16 at *; omega)]
      exact hall _ (by unfold hi16 lo16 at *; omega) (by unfold hi16 lo16 at *; omega)
    · intro hall x h1 h3
      have := hall (c.key * 65536 + x) (by unfold hi16 lo16 at *; omega)
        (by unfold hi16 lo16 at *; omega)
      rw [hmem, chunk_cons_eq c rest _ (by unfold lo16 at *; omega)] at this
      have e : (c.key * 65536 + x) % 65536 = x := by unfold lo16 at *; omega
      rw [e] at this; exact this
  · obtain ⟨n, hn⟩ : ∃ n, hi16 en = hi16 st + 1 + n :=
      ⟨hi16 en - hi16 st - 1, by unfold hi16 at *; omega⟩
    rw [crOk_cons_span c rest st en h2 n hn,
      run_iff (fun last => last.containsRange 0 (lo16 en) = true) n c.key rest hdir.tail hdir.head_lt]
    have hk : c.key + 1 + n = hi16 en := by omega
    rw [hk, last_iff rest hdir.tail _ _ hel]
    unfold Container.containsRange
    rw [Store.containsRange_spec _ hinv _ _ (by omega) (by omega)]
    constructor
    · rintro ⟨hA, hB, hC⟩ y h1 h3
      rw [hmem]
      by_cases k1 : y / 65536 = c.key
      · rw [chunk_cons_eq c rest _ k1.symm]
        exact hA _ (by unfold hi16 lo16 at *; omega) (by omega)
      · rw [chunk_cons_ne c rest _ (fun h => k1 h.symm)]
        by_cases k2 : y / 65536 = hi16 en
        · rw [k2]
          exact hC _ (by unfold hi16 lo16 at *; omega)
        · have e : y / 65536 = c.key + 1 + (y / 65536 - c.key - 1) := by
            unfold hi16 at *; omega
          rw [e]
          exact hB _ (by unfold hi16 at *; omega) _ (by omega)
    · intro hall
      refine ⟨?_, ?_, ?_⟩
      · intro x h1 h3
        have := hall (c.key * 65536 + x) (by unfold hi16 lo16 at *; omega)
          (by unfold hi16 lo16 at *; omega)
        rw [hmem, chunk_cons_eq c rest _ (by omega)] at this
        have e : (c.key * 65536 + x) % 65536 = x := by omega
        rw [e] at this; exact this
      · intro j hj x hx
        have := hall ((c.key + 1 + j) * 65536 + x) (by unfold hi16 lo16 at *; omega)
          (by unfold hi16 lo16 at *; omega)
        have e1 : ((c.key + 1 + j) * 65536 + x) / 65536 = c.key + 1 + j := by omega
        have e2 : ((c.key + 1 + j) * 65536 + x) % 65536 = x := by omega
        rw [hmem, e1, e2, chunk_cons_ne c rest _ (by omega)] at this
        exact this
      · intro x hx
        have := hall (hi16 en * 65536 + x) (by unfold hi16 lo16 at *; omega)
          (by unfold hi16 lo16 at *; omega)
        have e1 : (hi16 en * 65536 + x) / 65536 = hi16 en := by omega
        have e2 : (hi16 en * 65536 + x) % 65536 = x := by omega
        rw [hmem, e1, e2, chunk_cons_ne c rest _ (by omega)] at this
        exact this

theorem crOk_iff (st en : Nat) (hse : st ≤ en) : ∀ (b : Bitmap), b.Dir →
    (crOk b st en = true ↔ ∀ y, st ≤ y → y ≤ en → y ∈ elems b) := by
  intro b
  induction b with
  | nil =>
    intro _
    have : crOk [] st en = false := by simp [crOk, search_nil]
    rw [this]
    constructor
    · intro hf; exact absurd hf (by simp)
    · intro hall; have := hall st (Nat.le_refl _) hse; simp [elems] at this
  | cons c cs ih =>
    intro hdir
    have hinv := hdir.inv (List.mem_cons_self ..)
    have hb1 := cElems_bounds c hinv
    have hb2 := elems_tail_bounds hdir
    by_cases h1 : c.key < hi16 st
    · rw [crOk_cons_lt c cs st en h1, ih hdir.tail]
      constructor
      · intro hall y hy1 hy2
        rw [elems_cons, List.mem_append]; exact Or.inr (hall y hy1 hy2)
      · intro hall y hy1 hy2
        have := hall y hy1 hy2
        rw [elems_cons, List.mem_append] at this
        rcases this with hy | hy
        · have := hb1 y hy
          unfold hi16 at h1; omega
        · exact hy
    · by_cases h2 : c.key = hi16 st
      · exact crOk_head c cs hdir st en hse h2
      · rw [crOk_cons_gt c cs st en (by omega)]
        constructor
        · intro hf; exact absurd hf (by simp)
        · intro hall
          have := hall st (Nat.le_refl _) hse
          rw [elems_cons, List.mem_append] at this
          unfold hi16 at h1 h2
          rcases this with hy | hy
          · have := hb1 st hy; omega
          · have := hb2 st hy; omega

theorem containsRange_spec (b : Bitmap) (h : b.WF) (lo hi : Bound)
    (hlo : Bound.le u32Max lo) (hhi : Bound.le u32Max hi) :
    containsRange b lo hi = Spec.containsRange u32Max (elems b) lo hi := by
  rw [containsRange_eq]
  unfold Spec.containsRange
  cases hc : convertRange u32Max lo hi with
  | error e =>
    rw [convertRange_error u32Max lo hi hlo hhi e hc]
  | ok r =>
    obtain ⟨st, en⟩ := r
    have hiv := convertRange_ok u32Max lo hi hlo hhi st en hc
    rw [hiv]
    obtain ⟨hse, _, _⟩ := Spec.interval_some u32Max lo hi st en hiv
    simp only []
    rw [Bool.eq_iff_iff, crOk_iff st en hse b h.dir, beq_iff_eq,
      count_eq_iff _ (sorted_elems b h.dir) st en hse]

/-! ### `is_full` -/

theorem cStore_length_le (c : Container) (hc : c.store.Inv) : c.store.elems.length ≤ 65536 :=
  (Arr.sorted_bounded_length c.store.elems (Store.sorted_elems _ hc) 0 65536 (by
    intro x hx
    have := Store.elems_lt _ hc x hx
    omega)).1

theorem cIsFull_iff_length (c : Container) (hc : c.store.Inv) :
    c.isFull = true ↔ c.store.elems.length = 65536 := by
  unfold Container.isFull Store.isFull
  rw [beq_iff_eq, Store.len_eq _ hc]

theorem sumLen_cons (c : Container) (cs : Bitmap) :
    sumLen (c :: cs) = c.store.elems.length + sumLen cs := by
  simp [sumLen]

theorem sumLen_bound (b : Bitmap) (h : ∀ c ∈ b, c.store.elems.length ≤ 65536) :
    sumLen b ≤ 65536 * b.length ∧
      (sumLen b = 65536 * b.length → ∀ c ∈ b, c.store.elems.length = 65536) := by
  induction b with
  | nil => exact ⟨by simp [sumLen], by simp⟩
  | cons c cs ih =>
    have h0 := h c (List.mem_cons_self ..)
    obtain ⟨ih1, ih2⟩ := ih (fun d hd => h d (List.mem_cons_of_mem _ hd))
    rw [sumLen_cons, List.length_cons]
    refine ⟨by omega, ?_⟩
    intro heq d hd
    rcases List.mem_cons.mp hd with hd' | hd'
    · subst hd'; omega
    · exact ih2 (by omega) d hd'

theorem sumLen_full (b : Bitmap) (h : ∀ c ∈ b, c.store.elems.length = 65536) :
    sumLen b = 65536 * b.length := by
  induction b with
  | nil => simp [sumLen]
  | cons c cs ih =>
    have h0 := h c (List.mem_cons_self ..)
    have := ih (fun d hd => h d (List.mem_cons_of_mem _ hd))
    rw [sumLen_cons, List.length_cons]
    omega

/-- strictly ascending keys below 2^16: at most 2^16 containers -/
theorem dir_length_le (b : Bitmap) (h : b.Dir) : b.length ≤ 65536 := by
  have := (Arr.sorted_bounded_length (b.map Container.key) h.1 0 65536 (by
    intro k hk
    obtain ⟨d, hd, rfl⟩ := List.mem_map.mp hk
    have := (h.2 d hd).1
    omega)).1
  simpa using this

/-- `is_full` ⇔ the set is all of `0 ..= u32::MAX` -/
theorem isFull_spec (b : Bitmap) (h : b.WF) : isFull b = Spec.isFull u32Max (elems b) := by
  have hdir := h.dir
  have hcl : ∀ c ∈ b, c.store.elems.length ≤ 65536 := fun c hc => cStore_length_le c (hdir.inv hc)
  have hbound := sumLen_bound b hcl
  have hlen := dir_length_le b hdir
  rw [Bool.eq_iff_iff]
  simp only [isFull, Spec.isFull, Bool.and_eq_true, beq_iff_eq, List.all_eq_true]
  rw [length_elems]
  unfold u32Max
  constructor
  · rintro ⟨hl, hall⟩
    have := sumLen_full b (fun c hc => (cIsFull_iff_length c (hdir.inv hc)).mp (hall c hc))
    omega
  · intro hsum
    have hl : b.length = 65536 := by omega
    refine ⟨hl, fun c hc => ?_⟩
    rw [cIsFull_iff_length c (hdir.inv hc)]
    exact hbound.2 (by omega) c hc

/-- corollaries stated in the property: rank/select are mutually inverse on members -/
theorem rank_select (b : Bitmap) (h : b.WF) (n : Nat) (hn : n < (elems b).length) :
    ∃ v, select b n = some v ∧ rank b v = n + 1 := by
  have hdir := h.dir
  have hs := sorted_elems b hdir
  have h1 : (elems b)[n]? = some (elems b)[n] := List.getElem?_eq_getElem hn
  refine ⟨(elems b)[n], ?_, ?_⟩
  · rw [select_eq b hdir]; exact h1
  · rw [rank_eq _ b hdir, Arr.filter_le_length _ hs]
    obtain ⟨hm, hidx⟩ := (Arr.getElem?_eq_some_iff_sorted _ hs n _).mp h1
    rw [if_pos hm, ← hidx]

theorem select_rank (b : Bitmap) (h : b.WF) (v : Nat) (hv : v ∈ elems b) :
    select b (rank b v - 1) = some v := by
  have hdir := h.dir
  have hs := sorted_elems b hdir
  rw [rank_eq _ b hdir, select_eq b hdir, Arr.filter_le_length _ hs, if_pos hv, Nat.add_sub_cancel]
  exact (Arr.getElem?_eq_some_iff_sorted _ hs _ _).mpr ⟨hv, rfl⟩

end Bitmap
end Roaring
