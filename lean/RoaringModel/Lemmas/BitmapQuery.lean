import RoaringModel.Lemmas.BitmapMut
/-!
# The `RoaringBitmap` queries agree with the sorted element list (inherent.rs) — property C07
-/
namespace Roaring
namespace Bitmap

theorem contains_spec (b : Bitmap) (h : b.WF) (v : Nat) :
    contains b v = Spec.contains (elems b) v := by
  sorry

theorem len_spec (b : Bitmap) (h : b.WF) : len b = (elems b).length := by
  sorry

theorem isEmpty_spec (b : Bitmap) (h : b.WF) : isEmpty b = (elems b).isEmpty := by
  sorry

theorem min?_spec (b : Bitmap) (h : b.WF) : min? b = Spec.min? (elems b) := by
  sorry

theorem max?_spec (b : Bitmap) (h : b.WF) : max? b = Spec.max? (elems b) := by
  sorry

theorem rank_spec (b : Bitmap) (h : b.WF) (v : Nat) (hv : v < 4294967296) :
    rank b v = Spec.rank (elems b) v := by
  sorry

theorem select_spec (b : Bitmap) (h : b.WF) (n : Nat) : select b n = Spec.select (elems b) n := by
  sorry

theorem rangeCardinality_spec (b : Bitmap) (h : b.WF) (lo hi : Bound)
    (hlo : Bound.le u32Max lo) (hhi : Bound.le u32Max hi) :
    rangeCardinality b lo hi = Spec.rangeCardinality u32Max (elems b) lo hi := by
  sorry

theorem containsRange_spec (b : Bitmap) (h : b.WF) (lo hi : Bound)
    (hlo : Bound.le u32Max lo) (hhi : Bound.le u32Max hi) :
    containsRange b lo hi = Spec.containsRange u32Max (elems b) lo hi := by
  sorry

/-- `is_full` ⇔ the set is all of `0 ..= u32::MAX` -/
theorem isFull_spec (b : Bitmap) (h : b.WF) : isFull b = Spec.isFull u32Max (elems b) := by
  sorry

/-- corollaries stated in the property: rank/select are mutually inverse on members -/
theorem rank_select (b : Bitmap) (h : b.WF) (n : Nat) (hn : n < (elems b).length) :
    ∃ v, select b n = some v ∧ rank b v = n + 1 := by
  sorry

theorem select_rank (b : Bitmap) (h : b.WF) (v : Nat) (hv : v ∈ elems b) :
    select b (rank b v - 1) = some v := by
  sorry

end Bitmap
end Roaring
