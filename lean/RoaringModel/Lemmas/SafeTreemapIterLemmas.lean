import RoaringModel.SafeTreemapIter
import RoaringModel.Lemmas.SafeLemmas
/-!
# `TIter.Safe_advanceTo` / `Safe_advanceBackTo` hold at every iterator state, for every `u64` argument

The `BTreeMap::range` bounds are ordered because of the comparisons that guard the calls; `split` is lossless for a
`u64`.  No iterator invariant is needed.
-/
namespace Roaring
namespace TIter

theorem PIter.safe_advanceTo (p : PIter) (k : Nat) : p.Safe_advanceTo k := by
  unfold PIter.Safe_advanceTo
  split
  · split
    · exact Nat.le_refl _
    · split
      · rename_i h _; show k ≤ _; omega
      · trivial
  · trivial

theorem PIter.safe_advanceBackTo (p : PIter) (k : Nat) : p.Safe_advanceBackTo k := by
  unfold PIter.Safe_advanceBackTo
  split
  · split
    · exact Nat.le_refl _
    · split
      · rename_i h _; show _ ≤ k; omega
      · trivial
  · trivial

theorem Iter.safe_advanceTo {K : Inner} (it : Iter K) (n : Nat) (hn : n < 2^64) : it.Safe_advanceTo n := by
  unfold Iter.Safe_advanceTo
  refine ⟨Treemap.safe_split n hn, ?_⟩
  split
  · split
    · trivial
    · split
      · trivial
      · exact PIter.safe_advanceTo _ _
  · exact PIter.safe_advanceTo _ _

theorem Iter.safe_advanceBackTo {K : Inner} (it : Iter K) (n : Nat) (hn : n < 2^64) : it.Safe_advanceBackTo n := by
  unfold Iter.Safe_advanceBackTo
  refine ⟨Treemap.safe_split n hn, ?_⟩
  split
  · split
    · trivial
    · split
      · trivial
      · exact PIter.safe_advanceBackTo _ _
  · exact PIter.safe_advanceBackTo _ _

end TIter
end Roaring
