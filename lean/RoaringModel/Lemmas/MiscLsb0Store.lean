import RoaringModel.Lemmas.MiscLsb0
import RoaringModel.Lemmas.MiscWord
import RoaringModel.Lemmas.CodecWF
import RoaringModel.Lemmas.StoreFacts
/-!
# C17, per chunk: `Store::from_lsb0_bytes` (store/mod.rs:54), `ArrayStore::from_lsb0_bytes`
# (array_store/mod.rs:57) and `BitmapStore::from_lsb0_bytes_unchecked` (bitmap_store.rs:44)

For a piece of at most `8192 - byteOffset` bytes the store constructor does not panic (in either build
configuration), creates no store iff no bit is set, and otherwise creates a well-formed store (shared
`Store.WF`: array iff at most 4096 bits) whose values are exactly the SPEC set of the piece read from bit
`8 * byteOffset`.
-/
namespace Roaring.MiscLemmas
open Roaring Roaring.Lsb0

/-! ## counting bits: `count_ones` of words / bytes against the SPEC list -/

theorem foldl_popcount_sum (ws : List Nat) (acc : Nat) :
    ws.foldl (fun acc w => acc + popcount w) acc = acc + (ws.map popcount).sum := by
  induction ws generalizing acc with
  | nil => simp
  | cons w ws ih => simp only [List.foldl_cons, List.map_cons, List.sum_cons]; rw [ih]; omega

theorem popSum_eq_sum (ws : List Nat) : BStore.popSum ws = (ws.map popcount).sum := by
  unfold BStore.popSum; rw [foldl_popcount_sum]; omega

/-- `count_ones` of a little-endian value is the sum over its bytes -/
theorem popcount_leVal : ∀ (bs : List Nat), (∀ b ∈ bs, b < 256) → popcount (leVal bs) = (bs.map popcount).sum := by
  intro bs
  induction bs with
  | nil => intro _; simp [leVal, popcount_zero]
  | cons b bs ih =>
    intro h
    have hb : b < 256 := h b (by simp)
    have hs := popcount_split 8 (b + 256 * leVal bs)
    have h1 : (b + 256 * leVal bs) % 2 ^ 8 = b := by omega
    have h2 : (b + 256 * leVal bs) / 2 ^ 8 = leVal bs := by omega
    rw [h1, h2] at hs
    simp only [leVal, List.map_cons, List.sum_cons]
    rw [hs, ih (fun x hx => h x (by simp [hx]))]

theorem popSum_leWordsN : ∀ (cnt : Nat) (bs : List Nat), (∀ b ∈ bs, b < 256) →
    BStore.popSum (leWordsN 8 cnt bs) = ((bs.take (8 * cnt)).map popcount).sum := by
  intro cnt
  induction cnt with
  | zero => intro bs _; simp [leWordsN, popSum_nil]
  | succ cnt ih =>
    intro bs h
    have e : 8 * (cnt + 1) = 8 + 8 * cnt := by omega
    rw [e, List.take_add, List.map_append, List.sum_append]
    simp only [leWordsN, popSum_cons]
    rw [popcount_leVal _ (fun x hx => h x (List.mem_of_mem_take hx)),
      ih (bs.drop 8) (fun x hx => h x (List.mem_of_mem_drop hx))]

/-- store/mod.rs:59-72 `bits_set` counts the set bits of the piece -/
theorem bitsSet_eq_sum (bytes : List Nat) (h : ∀ b ∈ bytes, b < 256) :
    bitsSet bytes = (bytes.map popcount).sum := by
  unfold bitsSet chunkRem chunkWords
  rw [foldl_popcount_sum]
  have := popSum_leWordsN (bytes.length / 8) bytes h
  unfold BStore.popSum at this
  unfold leWords
  rw [this]
  have e : 8 * (bytes.length / 8) = bytes.length / 8 * 8 := by omega
  rw [e, ← List.sum_append, ← List.map_append, List.take_append_drop]

/-- the words of a buffer of whole 8-byte groups count the set bits of the buffer -/
theorem popSum_leWords (bs : List Nat) (h : ∀ b ∈ bs, b < 256) (hl : bs.length % 8 = 0) :
    BStore.popSum (leWords 8 bs) = (bs.map popcount).sum := by
  unfold leWords
  rw [popSum_leWordsN _ bs h]
  have e : 8 * (bs.length / 8) = bs.length := by omega
  rw [e, List.take_length]

/-- the generalisation of `Spec.bitsOfBytes` to a start index of the enumeration -/
theorem bitsOfBytes_length_aux (off : Nat) : ∀ (bs : List Nat) (k : Nat), (∀ b ∈ bs, b < 256) →
    ((bs.zipIdx k).flatMap fun (b, i) =>
      ((List.range 8).filter fun j => b.testBit j).map fun j => off + 8 * i + j).length
      = (bs.map popcount).sum := by
  intro bs
  induction bs with
  | nil => intro k _; simp
  | cons b bs ih =>
    intro k h
    have hb : b < 2 ^ 8 := h b (by simp)
    simp only [List.zipIdx_cons, List.flatMap_cons, List.length_append, List.length_map, List.map_cons,
      List.sum_cons]
    rw [ih (k + 1) (fun x hx => h x (by simp [hx])), popcount_eq_filter 8 b hb]

/-- the SPEC set has as many elements as bits are set in the bytes -/
theorem bitsOfBytes_length (off : Nat) (bs : List Nat) (h : ∀ b ∈ bs, b < 256) :
    (Spec.bitsOfBytes off bs).length = (bs.map popcount).sum :=
  bitsOfBytes_length_aux off bs 0 h

/-- membership in the SPEC set with a total byte access (`getD`: bytes past the end are zero) -/
theorem mem_bitsOfBytes_getD (off : Nat) (bs : List Nat) (x : Nat) :
    x ∈ Spec.bitsOfBytes off bs ↔ ∃ i j, j < 8 ∧ (bs.getD i 0).testBit j = true ∧ x = off + 8 * i + j := by
  rw [mem_bitsOfBytes]
  constructor
  · rintro ⟨i, j, b, hi, hj, ht, rfl⟩
    exact ⟨i, j, hj, by simp [List.getD, hi, ht], rfl⟩
  · rintro ⟨i, j, hj, ht, rfl⟩
    cases hg : bs[i]? with
    | none => simp [List.getD, hg] at ht
    | some b => exact ⟨i, j, b, hg, hj, by simpa [List.getD, hg] using ht, rfl⟩

theorem getD_testBit_lt (bs : List Nat) (i j : Nat) (h : (bs.getD i 0).testBit j = true) : i < bs.length := by
  by_cases hi : i < bs.length
  · exact hi
  · have : bs[i]? = none := by simp; omega
    simp [List.getD, this] at h

/-! ## bits of the 8-byte little-endian words -/

theorem getD_take (bs : List Nat) (n i : Nat) (h : i < n) : (bs.take n).getD i 0 = bs.getD i 0 := by
  simp [List.getD, h]

theorem getD_drop (bs : List Nat) (n i : Nat) : (bs.drop n).getD i 0 = bs.getD (n + i) 0 := by
  simp [List.getD, List.getElem?_drop]

/-- bit `p` of word `k` is bit `p % 8` of byte `8k + p / 8` -/
theorem leWordsN_testBit : ∀ (cnt : Nat) (bs : List Nat) (k p : Nat), (∀ b ∈ bs, b < 256) → k < cnt → p < 64 →
    ((leWordsN 8 cnt bs).getD k 0).testBit p = (bs.getD (8 * k + p / 8) 0).testBit (p % 8) := by
  intro cnt
  induction cnt with
  | zero => intro bs k p _ hk; omega
  | succ cnt ih =>
    intro bs k p h hk hp
    cases k with
    | zero =>
      simp only [leWordsN, List.getD_cons_zero]
      rw [leVal_testBit _ (fun x hx => h x (List.mem_of_mem_take hx)), getD_take _ _ _ (by omega)]
      simp
    | succ k =>
      simp only [leWordsN, List.getD_cons_succ]
      rw [ih (bs.drop 8) k p (fun x hx => h x (List.mem_of_mem_drop hx)) (by omega) hp, getD_drop]
      have e : 8 + (8 * k + p / 8) = 8 * (k + 1) + p / 8 := by omega
      rw [e]

theorem leWords8_lt (bs : List Nat) (h : ∀ b ∈ bs, b < 256) : ∀ w ∈ leWords 8 bs, w < 2 ^ 64 := by
  intro w hw
  have := leWords_lt 8 bs h w hw
  have e : (256 : Nat) ^ 8 = 2 ^ 64 := by decide
  omega

/-! ## strictly ascending lists inside an interval -/

def SortedIn (lo hi : Nat) (l : List Nat) : Prop := Roaring.Sorted l ∧ ∀ x ∈ l, lo ≤ x ∧ x < hi

theorem SortedIn.nil (lo hi : Nat) : SortedIn lo hi [] := ⟨List.Pairwise.nil, by simp⟩

theorem SortedIn.append {a b c : Nat} {l r : List Nat} (hab : a ≤ b) (hbc : b ≤ c)
    (hl : SortedIn a b l) (hr : SortedIn b c r) : SortedIn a c (l ++ r) := by
  refine ⟨?_, ?_⟩
  · unfold Roaring.Sorted
    rw [List.pairwise_append]
    refine ⟨hl.1, hr.1, ?_⟩
    intro x hx y hy
    have := hl.2 x hx; have := hr.2 y hy; omega
  · intro x hx
    rcases List.mem_append.mp hx with hx | hx
    · have := hl.2 x hx; omega
    · have := hr.2 x hx; omega

/-! ## `ArrayStore::from_lsb0_bytes` -/

/-- one `while word != 0` loop (a `u64` word, or a remainder byte widened to `u64`): `n` is the width -/
theorem drain_piece (base w n : Nat) (hn : n ≤ 64) (hw : w < 2 ^ n) (hb : base + n ≤ 65536) :
    SortedIn base (base + n) ((drainWord base 64 w).map (· % 65536)) ∧
    (∀ x, x ∈ (drainWord base 64 w).map (· % 65536) ↔ ∃ p, p < n ∧ w.testBit p = true ∧ x = base + p) ∧
    ((drainWord base 64 w).map (· % 65536)).length = popcount w := by
  have hw64 : w < 2 ^ 64 := Nat.lt_of_lt_of_le hw (Nat.pow_le_pow_right (by omega) hn)
  have hp : ∀ p, w.testBit p = true → p < n := by
    intro p ht
    by_cases hpn : p < n
    · exact hpn
    · have : w < 2 ^ p := Nat.lt_of_lt_of_le hw (Nat.pow_le_pow_right (by omega) (by omega))
      rw [Nat.testBit_lt_two_pow this] at ht
      contradiction
  have hmap : (drainWord base 64 w).map (· % 65536) = (bitPos w).map (fun i => base + i) := by
    rw [drainWord_eq base w hw64, List.map_map]
    apply List.map_congr_left
    intro p hpm
    have := hp p ((mem_bitPos w p).1 hpm).2
    simp only [Function.comp]
    omega
  rw [hmap]
  refine ⟨⟨?_, ?_⟩, ?_, ?_⟩
  · exact List.Pairwise.map _ (fun a b hab => by omega) (sorted_bitPos w)
  · intro x hx
    obtain ⟨p, hpm, rfl⟩ := List.mem_map.mp hx
    have := hp p ((mem_bitPos w p).1 hpm).2
    omega
  · intro x
    simp only [List.mem_map, mem_bitPos]
    constructor
    · rintro ⟨p, ⟨_, ht⟩, rfl⟩; exact ⟨p, hp p ht, ht, rfl⟩
    · rintro ⟨p, hpn, ht, rfl⟩; exact ⟨p, ⟨by omega, ht⟩, rfl⟩
  · rw [List.length_map, popcount_eq_bitPos w hw64]

theorem arrWords_spec (bo : Nat) : ∀ (ws : List Nat) (idx : Nat), (∀ w ∈ ws, w < 2 ^ 64) →
    (bo + (idx + ws.length) * 8) * 8 ≤ 65536 →
    SortedIn ((bo + idx * 8) * 8) ((bo + (idx + ws.length) * 8) * 8) (arrWords bo idx ws) ∧
    (∀ x, x ∈ arrWords bo idx ws ↔
      ∃ k p, k < ws.length ∧ p < 64 ∧ (ws.getD k 0).testBit p = true ∧ x = (bo + (idx + k) * 8) * 8 + p) ∧
    (arrWords bo idx ws).length = (ws.map popcount).sum := by
  intro ws
  induction ws with
  | nil => intro idx _ _; simp [arrWords, SortedIn.nil]
  | cons w ws ih =>
    intro idx hw hfit
    simp only [List.length_cons] at hfit ⊢
    obtain ⟨h1, h2, h3⟩ := drain_piece ((bo + idx * 8) * 8) w 64 (by omega) (hw w (by simp)) (by omega)
    obtain ⟨i1, i2, i3⟩ := ih (idx + 1) (fun x hx => hw x (by simp [hx])) (by omega)
    simp only [arrWords]
    refine ⟨?_, ?_, ?_⟩
    · have e1 : (bo + idx * 8) * 8 + 64 = (bo + (idx + 1) * 8) * 8 := by omega
      have e2 : (bo + (idx + 1 + ws.length) * 8) * 8 = (bo + (idx + (ws.length + 1)) * 8) * 8 := by omega
      rw [e1] at h1; rw [e2] at i1
      exact SortedIn.append (by omega) (by omega) h1 i1
    · intro x
      rw [List.mem_append, h2 x, i2 x]
      constructor
      · rintro (⟨p, hp, ht, rfl⟩ | ⟨k, p, hk, hp, ht, rfl⟩)
        · exact ⟨0, p, by omega, hp, by simpa using ht, by omega⟩
        · exact ⟨k + 1, p, by omega, hp, by simpa using ht, by omega⟩
      · rintro ⟨k, p, hk, hp, ht, rfl⟩
        cases k with
        | zero => exact Or.inl ⟨p, hp, by simpa using ht, by omega⟩
        | succ k => exact Or.inr ⟨k, p, by omega, hp, by simpa using ht, by omega⟩
    · rw [List.length_append, h3, i3]; simp

theorem arrRem_spec (bo done : Nat) : ∀ (bs : List Nat) (idx : Nat), (∀ b ∈ bs, b < 256) →
    (bo + done + idx + bs.length) * 8 ≤ 65536 →
    SortedIn ((bo + done + idx) * 8) ((bo + done + idx + bs.length) * 8) (arrRem bo done idx bs) ∧
    (∀ x, x ∈ arrRem bo done idx bs ↔
      ∃ k p, k < bs.length ∧ p < 8 ∧ (bs.getD k 0).testBit p = true ∧ x = (bo + done + (idx + k)) * 8 + p) ∧
    (arrRem bo done idx bs).length = (bs.map popcount).sum := by
  intro bs
  induction bs with
  | nil => intro idx _ _; simp [arrRem, SortedIn.nil]
  | cons b bs ih =>
    intro idx hb hfit
    simp only [List.length_cons] at hfit ⊢
    obtain ⟨h1, h2, h3⟩ := drain_piece ((bo + done + idx) * 8) b 8 (by omega) (hb b (by simp)) (by omega)
    obtain ⟨i1, i2, i3⟩ := ih (idx + 1) (fun x hx => hb x (by simp [hx])) (by omega)
    simp only [arrRem]
    refine ⟨?_, ?_, ?_⟩
    · have e1 : (bo + done + idx) * 8 + 8 = (bo + done + (idx + 1)) * 8 := by omega
      have e2 : (bo + done + (idx + 1) + bs.length) * 8 = (bo + done + idx + (bs.length + 1)) * 8 := by omega
      rw [e1] at h1; rw [e2] at i1
      exact SortedIn.append (by omega) (by omega) h1 i1
    · intro x
      rw [List.mem_append, h2 x, i2 x]
      constructor
      · rintro (⟨p, hp, ht, rfl⟩ | ⟨k, p, hk, hp, ht, rfl⟩)
        · exact ⟨0, p, by omega, hp, by simpa using ht, by omega⟩
        · exact ⟨k + 1, p, by omega, hp, by simpa using ht, by omega⟩
      · rintro ⟨k, p, hk, hp, ht, rfl⟩
        cases k with
        | zero => exact Or.inl ⟨p, hp, by simpa using ht, by omega⟩
        | succ k => exact Or.inr ⟨k, p, by omega, hp, by simpa using ht, by omega⟩
    · rw [List.length_append, h3, i3]; simp

/-- array_store/mod.rs:57: the pushed vector is strictly ascending, below `2^16`, holds exactly the SPEC set of
    the piece and has `bits_set` elements -/
theorem arrVec_spec (bytes : List Nat) (bo : Nat) (hb : ∀ b ∈ bytes, b < 256) (hfit : bo + bytes.length ≤ 8192) :
    let vec := arrWords bo 0 (chunkWords bytes) ++
      arrRem bo (bytes.length - (chunkRem bytes).length) 0 (chunkRem bytes)
    Arr.Inv vec ∧ (∀ x, x ∈ vec ↔ x ∈ Spec.bitsOfBytes (8 * bo) bytes) ∧ vec.length = bitsSet bytes := by
  intro vec
  have hwl : (chunkWords bytes).length = bytes.length / 8 := leWords_length 8 bytes
  have hrl : (chunkRem bytes).length = bytes.length - bytes.length / 8 * 8 := by simp [chunkRem]
  have hdone : bytes.length - (chunkRem bytes).length = bytes.length / 8 * 8 := by omega
  obtain ⟨w1, w2, w3⟩ := arrWords_spec bo (chunkWords bytes) 0 (leWords8_lt bytes hb) (by rw [hwl]; omega)
  obtain ⟨r1, r2, r3⟩ := arrRem_spec bo (bytes.length / 8 * 8) (chunkRem bytes) 0
    (fun x hx => hb x (List.mem_of_mem_drop hx)) (by rw [hrl]; omega)
  have hvec : vec = arrWords bo 0 (chunkWords bytes) ++ arrRem bo (bytes.length / 8 * 8) 0 (chunkRem bytes) := by
    show _ ++ arrRem bo (bytes.length - (chunkRem bytes).length) 0 (chunkRem bytes) = _
    rw [hdone]
  rw [hvec]
  have hs : SortedIn ((bo + 0 * 8) * 8) ((bo + bytes.length / 8 * 8 + 0 + (chunkRem bytes).length) * 8)
      (arrWords bo 0 (chunkWords bytes) ++ arrRem bo (bytes.length / 8 * 8) 0 (chunkRem bytes)) := by
    have e : (bo + (0 + (chunkWords bytes).length) * 8) * 8 = (bo + bytes.length / 8 * 8 + 0) * 8 := by
      rw [hwl]; omega
    rw [e] at w1
    exact SortedIn.append (by omega) (by omega) w1 r1
  refine ⟨⟨hs.1, fun x hx => by have := (hs.2 x hx).2; rw [hrl] at this; omega⟩, ?_, ?_⟩
  · intro x
    rw [List.mem_append, w2 x, r2 x, mem_bitsOfBytes_getD]
    constructor
    · rintro (⟨k, p, hk, hp, ht, rfl⟩ | ⟨k, p, hk, hp, ht, rfl⟩)
      · rw [hwl] at hk
        have := leWordsN_testBit (bytes.length / 8) bytes k p hb hk hp
        unfold chunkWords leWords at ht
        rw [this] at ht
        exact ⟨8 * k + p / 8, p % 8, by omega, ht, by omega⟩
      · unfold chunkRem at ht
        rw [getD_drop] at ht
        exact ⟨bytes.length / 8 * 8 + k, p, hp, ht, by omega⟩
    · rintro ⟨i, j, hj, ht, rfl⟩
      have hi := getD_testBit_lt bytes i j ht
      by_cases hlo : i < bytes.length / 8 * 8
      · left
        refine ⟨i / 8, 8 * (i % 8) + j, by rw [hwl]; omega, by omega, ?_, by omega⟩
        have := leWordsN_testBit (bytes.length / 8) bytes (i / 8) (8 * (i % 8) + j) hb (by omega) (by omega)
        unfold chunkWords leWords
        rw [this]
        have e1 : 8 * (i / 8) + (8 * (i % 8) + j) / 8 = i := by omega
        have e2 : (8 * (i % 8) + j) % 8 = j := by omega
        rw [e1, e2]; exact ht
      · right
        refine ⟨i - bytes.length / 8 * 8, j, by rw [hrl]; omega, hj, ?_, by omega⟩
        unfold chunkRem
        rw [getD_drop]
        have e : bytes.length / 8 * 8 + (i - bytes.length / 8 * 8) = i := by omega
        rw [e]; exact ht
  · rw [List.length_append, w3, r3, bitsSet_eq_sum bytes hb]
    have hp := popSum_leWordsN (bytes.length / 8) bytes hb
    rw [popSum_eq_sum] at hp
    unfold chunkWords leWords chunkRem
    rw [hp]
    have e : 8 * (bytes.length / 8) = bytes.length / 8 * 8 := by omega
    rw [e, ← List.sum_append, ← List.map_append, List.take_append_drop]

/-! ## `BitmapStore::from_lsb0_bytes_unchecked` -/

/-- the zeroed box with the slice copied at `byte_offset` -/
def padded (bo : Nat) (bytes : List Nat) : List Nat :=
  List.replicate bo 0 ++ bytes ++ List.replicate (BITMAP_BYTES - bo - bytes.length) 0

theorem padded_getD (bo : Nat) (bytes : List Nat) (i : Nat) :
    (padded bo bytes).getD i 0 = if bo ≤ i then bytes.getD (i - bo) 0 else 0 := by
  unfold padded
  simp only [List.getD, List.append_assoc, List.getElem?_append, List.length_replicate,
    List.getElem?_replicate]
  by_cases h1 : i < bo
  · have : ¬ bo ≤ i := by omega
    simp [h1, this]
  · have : bo ≤ i := by omega
    simp only [h1, if_false, this, if_true]
    by_cases h2 : i - bo < bytes.length
    · simp [h2]
    · have h3 : bytes[i - bo]? = none := by simp; omega
      simp only [h2, if_false, h3]
      split <;> rfl

theorem padded_bytes (bo : Nat) (bytes : List Nat) (hb : ∀ b ∈ bytes, b < 256) : ∀ b ∈ padded bo bytes, b < 256 := by
  intro b hbm
  unfold padded at hbm
  simp only [List.mem_append, List.mem_replicate] at hbm
  rcases hbm with (⟨_, rfl⟩ | h) | ⟨_, rfl⟩
  · omega
  · exact hb b h
  · omega

theorem padded_length (bo : Nat) (bytes : List Nat) (hfit : bo + bytes.length ≤ 8192) :
    (padded bo bytes).length = 8192 := by
  simp [padded, BITMAP_BYTES]; omega

theorem padded_sum (bo : Nat) (bytes : List Nat) :
    ((padded bo bytes).map popcount).sum = (bytes.map popcount).sum := by
  simp [padded, List.map_replicate, popcount_zero]

/-- bitmap_store.rs:44: with the cached cardinality `bits_set` the constructor does not panic (neither the
    `assert!` nor the debug `unwrap`), the store satisfies the structural invariant and bit `x` is bit `x % 8`
    of byte `x / 8 - byte_offset` -/
theorem bmFromLsb0_spec (dbg : Bool) (bytes : List Nat) (bo : Nat) (hb : ∀ b ∈ bytes, b < 256)
    (hfit : bo + bytes.length ≤ 8192) :
    ∃ b, bmFromLsb0 dbg bytes bo (bitsSet bytes) = some b ∧ b.Inv ∧ b.len = bitsSet bytes ∧
      ∀ x, x ∈ b.toArray ↔ x ∈ Spec.bitsOfBytes (8 * bo) bytes := by
  have hbuf : (if bytes.length = BITMAP_BYTES then bytes
      else List.replicate bo 0 ++ bytes ++ List.replicate (BITMAP_BYTES - bo - bytes.length) 0)
      = padded bo bytes := by
    split
    · rename_i h
      have h0 : bo = 0 := by simp only [BITMAP_BYTES] at h; omega
      simp [padded, h0, h]
    · rfl
  have hpb := padded_bytes bo bytes hb
  have hpl := padded_length bo bytes hfit
  have hsum : BStore.popSum (leWords 8 (padded bo bytes)) = bitsSet bytes := by
    rw [popSum_leWords _ hpb (by omega), padded_sum, bitsSet_eq_sum bytes hb]
  have hinv : BStore.Inv { len := bitsSet bytes, bits := leWords 8 (padded bo bytes) } :=
    ⟨by simp only [leWords_length, hpl], leWords8_lt _ hpb, hsum.symm⟩
  refine ⟨{ len := bitsSet bytes, bits := leWords 8 (padded bo bytes) }, ?_, hinv, rfl, ?_⟩
  · unfold bmFromLsb0
    have : bo + bytes.length ≤ BITMAP_BYTES := by simp only [BITMAP_BYTES]; exact hfit
    simp only [this, not_true_eq_false, if_false]
    rw [hbuf]
    cases dbg
    · simp [BStore.fromUnchecked]
    · simp [BStore.fromUnchecked, BStore.tryFrom, hsum]
  · intro x
    rw [BStore.mem_toArray _ hinv, mem_bitsOfBytes_getD]
    unfold BStore.test BStore.word
    simp only
    constructor
    · rintro ⟨hx, ht⟩
      have := leWordsN_testBit ((padded bo bytes).length / 8) (padded bo bytes) (x / 64) (x % 64) hpb
        (by rw [hpl]; omega) (by omega)
      unfold leWords at ht
      rw [this, padded_getD] at ht
      have e1 : 8 * (x / 64) + x % 64 / 8 = x / 8 := by omega
      have e2 : x % 64 % 8 = x % 8 := by omega
      rw [e1, e2] at ht
      by_cases hle : bo ≤ x / 8
      · rw [if_pos hle] at ht
        exact ⟨x / 8 - bo, x % 8, by omega, ht, by omega⟩
      · rw [if_neg hle] at ht; simp at ht
    · rintro ⟨i, j, hj, ht, rfl⟩
      have hi := getD_testBit_lt bytes i j ht
      refine ⟨by omega, ?_⟩
      have := leWordsN_testBit ((padded bo bytes).length / 8) (padded bo bytes) ((8 * bo + 8 * i + j) / 64)
        ((8 * bo + 8 * i + j) % 64) hpb (by rw [hpl]; omega) (by omega)
      unfold leWords
      rw [this, padded_getD]
      have e1 : 8 * ((8 * bo + 8 * i + j) / 64) + (8 * bo + 8 * i + j) % 64 / 8 = bo + i := by omega
      have e2 : (8 * bo + 8 * i + j) % 64 % 8 = j := by omega
      rw [e1, e2, if_pos (by omega)]
      have e3 : bo + i - bo = i := by omega
      rw [e3]; exact ht

/-! ## `Store::from_lsb0_bytes` -/

/-- store/mod.rs:54: no panic; no store iff the SPEC set of the piece is empty; otherwise a well-formed store
    (array iff at most 4096 bits are set) with exactly the SPEC set of the piece -/
theorem storeFromLsb0_spec (dbg : Bool) (bytes : List Nat) (bo : Nat) (hb : ∀ b ∈ bytes, b < 256)
    (hfit : bo + bytes.length ≤ 8192) :
    ∃ o, storeFromLsb0 dbg bytes bo = some o ∧
      match o with
      | none => Spec.bitsOfBytes (8 * bo) bytes = []
      | some st => st.WF ∧ ∀ x, x ∈ st.elems ↔ x ∈ Spec.bitsOfBytes (8 * bo) bytes := by
  have hlen := bitsOfBytes_length (8 * bo) bytes hb
  rw [← bitsSet_eq_sum bytes hb] at hlen
  unfold storeFromLsb0
  have hok : bo + bytes.length ≤ BITMAP_BYTES := by simp only [BITMAP_BYTES]; exact hfit
  simp only [hok, not_true_eq_false, if_false]
  by_cases h0 : bitsSet bytes = 0
  · refine ⟨none, by simp [h0], ?_⟩
    exact List.eq_nil_of_length_eq_zero (by omega)
  · by_cases h1 : bitsSet bytes ≤ ARRAY_LIMIT
    · obtain ⟨v1, v2, v3⟩ := arrVec_spec bytes bo hb hfit
      refine ⟨some (.array (arrWords bo 0 (chunkWords bytes) ++
        arrRem bo (bytes.length - (chunkRem bytes).length) 0 (chunkRem bytes))), ?_, ?_⟩
      · simp only [h0, h1, if_false, if_true, arrFromLsb0]
        rw [Arr.fromVecUnchecked_spec dbg _ v1.1]
        rfl
      · simp only [ARRAY_LIMIT] at h1
        exact ⟨⟨v1, by omega, by omega⟩, v2⟩
    · obtain ⟨b, b1, b2, b3, b4⟩ := bmFromLsb0_spec dbg bytes bo hb hfit
      refine ⟨some (.bitmap b), ?_, ?_⟩
      · simp [h0, h1, b1]
      · simp only [ARRAY_LIMIT] at h1
        exact ⟨⟨b2, by omega⟩, b4⟩

end Roaring.MiscLemmas
