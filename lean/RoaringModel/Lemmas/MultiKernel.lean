import RoaringModel.Lemmas.MultiSpec
import RoaringModel.Lemmas.MultiList
/-!
# C09: `merge_container_owned/ref`, promotion, copy-on-write and the final clean-up are correct
*given* the store-level kernel facts bundled in `Kernel`

`Kernel` is a record of facts about functions that `multiops.rs` merely calls
(`Store::{bitor,bitxor}_assign`, `Store::to_bitmap`, `Container::ensure_correct_store`, the element lists
of valid stores, and the three whole-bitmap operators of ops.rs).  Nothing here is an axiom: every theorem
takes `(K : Kernel)` as an argument, and the record is inhabited unconditionally by `Multi.kernel`
(`Lemmas/MultiKernelProof.lean`, from the core library and the algebra family), so Props/C09.lean carries no
hypothesis.
-/
namespace Roaring.Multi
open Roaring Roaring.Spec Roaring.Multi.SpecL

/-! ## invariants (DESIGN §4; local forms of the shared ones of `Inv.lean` — `storeValid_iff`, `storeWF_iff`,
    `wf_iff : Multi.WF b ↔ Bitmap.WF b` in `Lemmas/MultiKernelProof.lean`) -/

/-- a store whose representation is sound but not necessarily of the canonical *kind* (what the merge
    algorithms hold between the first merge and the final `ensure_correct_store`) -/
def StoreValid : Store → Prop
  | .array v => v.Pairwise (· < ·) ∧ ∀ x ∈ v, x < 65536
  | .bitmap b => b.bits.length = 1024 ∧ (∀ w ∈ b.bits, w < W) ∧ b.len = BStore.popSum b.bits

def StoreWF (s : Store) : Prop :=
  StoreValid s ∧ match s with
    | .array v => 0 < v.length ∧ v.length ≤ 4096
    | .bitmap b => 4096 < b.len

/-- reachable `RoaringBitmap` values -/
def WF (b : Bitmap) : Prop :=
  (b.map (·.key)).Pairwise (· < ·) ∧ ∀ c ∈ b, c.key < 65536 ∧ StoreWF c.store

/-- the accumulator of the merge algorithms: ascending keys, valid (possibly non-canonical, possibly
    empty) stores -/
def Acc (cs : List Container) : Prop :=
  (cs.map (·.key)).Pairwise (· < ·) ∧ ∀ c ∈ cs, c.key < 65536 ∧ StoreValid c.store

theorem WF.acc {b : Bitmap} (h : WF b) : Acc b := ⟨h.1, fun c hc => ⟨(h.2 c hc).1, (h.2 c hc).2.1⟩⟩

theorem wf_nil : WF [] := ⟨by simp, by simp⟩

/-- membership law of a store-level assignment operator -/
def OpLaw (P : Prop → Prop → Prop) (op : Store → Store → Store) : Prop :=
  ∀ a b, StoreValid a → StoreValid b →
    StoreValid (op a b) ∧ ∀ i, i ∈ (op a b).elems ↔ P (i ∈ a.elems) (i ∈ b.elems)

abbrev POr : Prop → Prop → Prop := fun p q => p ∨ q
abbrev PXor : Prop → Prop → Prop := fun p q => ¬ (p ↔ q)

/-- The kernel facts C09 rests on (each is a statement about code *outside* multiops.rs). -/
structure Kernel : Prop where
  /-- `iter()` of a valid store is strictly ascending … -/
  elems_sorted : ∀ s, StoreValid s → (Store.elems s).Pairwise (· < ·)
  /-- … and yields `u16`s -/
  elems_lt : ∀ s, StoreValid s → ∀ i ∈ Store.elems s, i < 65536
  /-- `is_empty()` (vector empty / cached `len == 0`) means "no elements" -/
  isEmpty_iff : ∀ s, StoreValid s → (s.isEmpty = true ↔ Store.elems s = [])
  /-- `Store::to_bitmap` keeps the elements -/
  toBitmap : ∀ s, StoreValid s → StoreValid (storeToBitmap s) ∧ ∀ i, i ∈ (storeToBitmap s).elems ↔ i ∈ s.elems
  /-- `BitOrAssign<Store> for Store` -/
  orOwned : OpLaw POr Store.orAssignOwned
  /-- `BitOrAssign<&Store> for Store` -/
  orRef : OpLaw POr Store.orAssignRef
  /-- `BitXorAssign<Store> for Store` -/
  xorOwned : OpLaw PXor Store.xorAssignOwned
  /-- `BitXorAssign<&Store> for Store` -/
  xorRef : OpLaw PXor Store.xorAssignRef
  /-- `ensure_correct_store` on a non-empty valid store: canonical kind, same elements -/
  ensure : ∀ c : Container, StoreValid c.store → c.isEmpty = false →
    StoreWF c.ensureCorrectStore.store ∧ ∀ i, i ∈ c.ensureCorrectStore.store.elems ↔ i ∈ c.store.elems
  /-- `BitAndAssign<RoaringBitmap>` (ops.rs:236) -/
  andOwned : ∀ a b, WF a → WF b → WF (andAssignOwned a b) ∧
    Bitmap.elems (andAssignOwned a b) = sAnd (Bitmap.elems a) (Bitmap.elems b)
  /-- `BitAndAssign<&RoaringBitmap>` (ops.rs:259) -/
  andRef : ∀ a b, WF a → WF b → WF (andAssignRef a b) ∧
    Bitmap.elems (andAssignRef a b) = sAnd (Bitmap.elems a) (Bitmap.elems b)
  /-- `SubAssign<&RoaringBitmap>` (ops.rs:336) -/
  subRef : ∀ a b, WF a → WF b → WF (subAssignRef a b) ∧
    Bitmap.elems (subAssignRef a b) = sSub (Bitmap.elems a) (Bitmap.elems b)

/-! ## the directory: `elems` through per-key membership -/

/-- "`i` is in the store of the container with key `k`" -/
def memAt (cs : List Container) (k i : Nat) : Prop := ∃ c ∈ cs, c.key = k ∧ i ∈ c.store.elems

theorem mem_elems_iff (cs : List Container) (y : Nat) :
    y ∈ Bitmap.elems cs ↔ ∃ c ∈ cs, ∃ i ∈ c.store.elems, y = c.key * 65536 + i := by
  simp only [Bitmap.elems, Container.elems, List.mem_flatMap, List.mem_map]
  constructor
  · rintro ⟨c, hc, i, hi, rfl⟩; exact ⟨c, hc, i, hi, rfl⟩
  · rintro ⟨c, hc, i, hi, rfl⟩; exact ⟨c, hc, i, hi, rfl⟩

theorem mem_elems_iff_memAt (K : Kernel) {cs : List Container} (h : Acc cs) (y : Nat) :
    y ∈ Bitmap.elems cs ↔ memAt cs (y / 65536) (y % 65536) := by
  rw [mem_elems_iff]
  constructor
  · rintro ⟨c, hc, i, hi, rfl⟩
    have hlt := K.elems_lt c.store (h.2 c hc).2 i hi
    refine ⟨c, hc, ?_, ?_⟩
    · omega
    · have : (c.key * 65536 + i) % 65536 = i := by omega
      rw [this]; exact hi
  · rintro ⟨c, hc, hk, hi⟩
    refine ⟨c, hc, y % 65536, hi, ?_⟩
    rw [hk]; omega

theorem memAt_nil (k i : Nat) : memAt [] k i ↔ False := by simp [memAt]

theorem memAt_cons (c : Container) (cs : List Container) (k i : Nat) :
    memAt (c :: cs) k i ↔ (c.key = k ∧ i ∈ c.store.elems) ∨ memAt cs k i := by
  simp [memAt]

theorem Acc.tail {c : Container} {cs : List Container} (h : Acc (c :: cs)) : Acc cs :=
  ⟨(List.pairwise_cons.1 h.1).2, fun d hd => h.2 d (List.mem_cons_of_mem _ hd)⟩

theorem Acc.head_lt {c : Container} {cs : List Container} (h : Acc (c :: cs)) : ∀ d ∈ cs, c.key < d.key := by
  intro d hd
  have := (List.pairwise_cons.1 h.1).1 d.key (List.mem_map_of_mem hd)
  exact this

theorem not_memAt_of_lt {cs : List Container} {k : Nat} (h : ∀ d ∈ cs, k < d.key) (i : Nat) : ¬ memAt cs k i := by
  rintro ⟨d, hd, hk, _⟩
  have := h d hd; omega

/-! ## `binary_search_by_key` + `insert` / in-place update = a recursive sorted insert -/

theorem search_nil (k : Nat) : Bitmap.search [] k = (false, 0) := rfl

theorem search_cons_lt {c : Container} {k : Nat} (cs : List Container) (h : c.key < k) :
    Bitmap.search (c :: cs) k = ((Bitmap.search cs k).1, (Bitmap.search cs k).2 + 1) := by
  simp [Bitmap.search, List.takeWhile_cons, h]

theorem search_cons_ge {c : Container} {k : Nat} (cs : List Container) (h : ¬ c.key < k) :
    Bitmap.search (c :: cs) k = (c.key == k, 0) := by
  simp [Bitmap.search, List.takeWhile_cons, h]

/-- the recursive form of one step of `merge_container_*` -/
def stepRec (g : Container → Container → Container) (r : Container) : List Container → List Container
  | [] => [r]
  | c :: cs =>
    if c.key < r.key then c :: stepRec g r cs
    else if c.key = r.key then g c r :: cs
    else r :: c :: cs

theorem mergeStepOwned_eq_rec (op : Store → Store → Store) (r : Container) :
    ∀ cs, mergeStepOwned op cs r = stepRec (mergeCombineOwned op) r cs
  | [] => by simp [mergeStepOwned, search_nil, stepRec]
  | c :: cs => by
    have ih := mergeStepOwned_eq_rec op r cs
    by_cases h : c.key < r.key
    · simp only [stepRec, h, if_true, ← ih]
      simp only [mergeStepOwned, search_cons_lt cs h]
      rcases hs : Bitmap.search cs r.key with ⟨f, loc⟩
      cases f
      · simp
      · simp only [List.getElem?_cons_succ]
        cases hl : cs[loc]? <;> simp
    · simp only [stepRec, h, if_false]
      simp only [mergeStepOwned, search_cons_ge cs h]
      by_cases he : c.key = r.key
      · simp [he]
      · have hb : (c.key == r.key) = false := by simp [he]
        simp [he, hb]

/-! ## one merge step -/

/-- what the `Ok(loc)` arm must satisfy -/
def GLaw (P : Prop → Prop → Prop) (g : Container → Container → Container) : Prop :=
  ∀ c r : Container, StoreValid c.store → StoreValid r.store → c.key = r.key →
    (g c r).key = c.key ∧ StoreValid (g c r).store ∧
      ∀ i, i ∈ (g c r).store.elems ↔ P (i ∈ c.store.elems) (i ∈ r.store.elems)

/-- algebraic facts about the membership connective (`∨` and `⊕` have them) -/
structure PLaw (P : Prop → Prop → Prop) : Prop where
  comm : ∀ p q, P p q ↔ P q p
  falseL : ∀ q, P False q ↔ q
  falseR : ∀ p, P p False ↔ p
  congr : ∀ {p p' q q'}, (p ↔ p') → (q ↔ q') → (P p q ↔ P p' q')

theorem plaw_or : PLaw POr :=
  ⟨fun p q => Or.comm, fun q => by simp [POr], fun p => by simp [POr], fun h1 h2 => by simp [POr, h1, h2]⟩

theorem plaw_xor : PLaw PXor :=
  ⟨fun p q => by simp only [PXor]; constructor <;> (intro h h'; exact h h'.symm),
   fun q => by simp [PXor], fun p => by simp [PXor],
   fun h1 h2 => by simp [PXor, h1, h2]⟩

theorem glaw_combineOwned (K : Kernel) {P : Prop → Prop → Prop} (hP : PLaw P) {op : Store → Store → Store}
    (hop : OpLaw P op) : GLaw P (mergeCombineOwned op) := by
  intro c r hc hr hk
  unfold mergeCombineOwned
  split
  · rename_i a b ha hb
    have ht := K.toBitmap c.store hc
    have := hop (storeToBitmap c.store) r.store ht.1 hr
    refine ⟨rfl, this.1, fun i => ?_⟩
    rw [this.2 i]
    exact hP.congr (ht.2 i) Iff.rfl
  · rename_i a b ha hb
    have := hop r.store c.store hr hc
    refine ⟨hk.symm, this.1, fun i => ?_⟩
    rw [this.2 i]
    exact hP.comm _ _
  · have := hop c.store r.store hc hr
    exact ⟨rfl, this.1, this.2⟩

theorem stepRec_acc {P : Prop → Prop → Prop} {g : Container → Container → Container} (hg : GLaw P g)
    {r : Container} (hr : r.key < 65536 ∧ StoreValid r.store) :
    ∀ {cs : List Container}, Acc cs → Acc (stepRec g r cs) ∧ ∀ d ∈ stepRec g r cs, d.key = r.key ∨ ∃ c ∈ cs, d.key = c.key
  | [], _ => by
    refine ⟨⟨by simp [stepRec], ?_⟩, ?_⟩
    · intro d hd; simp [stepRec] at hd; subst hd; exact hr
    · intro d hd; simp [stepRec] at hd; subst hd; exact Or.inl rfl
  | c :: cs, h => by
    have hc := h.2 c (List.mem_cons_self ..)
    unfold stepRec
    split
    · rename_i hlt
      have ih := stepRec_acc hg hr h.tail
      refine ⟨⟨?_, ?_⟩, ?_⟩
      · simp only [List.map_cons]
        refine List.pairwise_cons.2 ⟨?_, ih.1.1⟩
        intro k hk
        rcases List.mem_map.1 hk with ⟨d, hd, rfl⟩
        rcases ih.2 d hd with e | ⟨c', hc', e⟩
        · omega
        · rw [e]; exact h.head_lt c' hc'
      · intro d hd
        rcases List.mem_cons.1 hd with rfl | hd
        · exact hc
        · exact ih.1.2 d hd
      · intro d hd
        rcases List.mem_cons.1 hd with rfl | hd
        · exact Or.inr ⟨d, List.mem_cons_self .., rfl⟩
        · rcases ih.2 d hd with e | ⟨c', hc', e⟩
          · exact Or.inl e
          · exact Or.inr ⟨c', List.mem_cons_of_mem _ hc', e⟩
    · split
      · rename_i hnlt heq
        have hgl := hg c r hc.2 hr.2 heq
        refine ⟨⟨?_, ?_⟩, ?_⟩
        · simp only [List.map_cons]
          have := h.1
          simp only [List.map_cons] at this
          rw [hgl.1]; exact this
        · intro d hd
          rcases List.mem_cons.1 hd with rfl | hd
          · exact ⟨by rw [hgl.1]; exact hc.1, hgl.2.1⟩
          · exact h.2 d (List.mem_cons_of_mem _ hd)
        · intro d hd
          rcases List.mem_cons.1 hd with rfl | hd
          · exact Or.inl (by rw [hgl.1]; exact heq)
          · exact Or.inr ⟨d, List.mem_cons_of_mem _ hd, rfl⟩
      · rename_i hnlt hne
        have hlt : r.key < c.key := by omega
        refine ⟨⟨?_, ?_⟩, ?_⟩
        · simp only [List.map_cons]
          refine List.pairwise_cons.2 ⟨?_, by simpa using h.1⟩
          intro k hk
          rcases List.mem_cons.1 hk with rfl | hk
          · exact hlt
          · rcases List.mem_map.1 hk with ⟨d, hd, rfl⟩
            have := h.head_lt d hd; omega
        · intro d hd
          rcases List.mem_cons.1 hd with rfl | hd
          · exact hr
          · exact h.2 d hd
        · intro d hd
          rcases List.mem_cons.1 hd with rfl | hd
          · exact Or.inl rfl
          · exact Or.inr ⟨d, hd, rfl⟩

theorem stepRec_memAt {P : Prop → Prop → Prop} (hP : PLaw P) {g : Container → Container → Container}
    (hg : GLaw P g) {r : Container} (hr : StoreValid r.store) (k i : Nat) :
    ∀ {cs : List Container}, Acc cs →
      (memAt (stepRec g r cs) k i ↔ if k = r.key then P (memAt cs k i) (i ∈ r.store.elems) else memAt cs k i)
  | [], _ => by
    simp only [stepRec, memAt_cons, memAt_nil, or_false]
    split
    · rename_i hk; subst hk
      rw [hP.falseL]; simp
    · rename_i hk
      constructor
      · rintro ⟨e, _⟩; exact hk e.symm
      · exact False.elim
  | c :: cs, h => by
    have hc := h.2 c (List.mem_cons_self ..)
    unfold stepRec
    split
    · rename_i hlt
      rw [memAt_cons, stepRec_memAt hP hg hr k i h.tail, memAt_cons]
      split
      · rename_i hk
        have : ¬ (c.key = k ∧ i ∈ c.store.elems) := by rintro ⟨e, _⟩; omega
        simp only [this, false_or]
      · exact Iff.rfl
    · split
      · rename_i hnlt heq
        have hgl := hg c r hc.2 hr heq
        have hno : ∀ j, ¬ memAt cs c.key j := not_memAt_of_lt h.head_lt
        rw [memAt_cons, memAt_cons, hgl.1]
        split
        · rename_i hk
          have hk' : c.key = k := by omega
          subst hk'
          simp only [true_and, hno i, or_false]
          exact hgl.2.2 i
        · rename_i hk
          have : ¬ c.key = k := by omega
          simp [this]
      · rename_i hnlt hne
        have hlt : r.key < c.key := by omega
        rw [memAt_cons]
        split
        · rename_i hk
          subst hk
          have hno : ¬ memAt (c :: cs) r.key i := by
            apply not_memAt_of_lt
            intro d hd
            rcases List.mem_cons.1 hd with rfl | hd
            · exact hlt
            · have := h.head_lt d hd; omega
          simp only [true_and, hno, or_false]
          exact (hP.falseL _).symm
        · rename_i hk
          have : ¬ (r.key = k) := fun e => hk e.symm
          simp [this]

end Roaring.Multi
