import RoaringModel.Lemmas.InterSer
/-!
# `intersection_with_serialized_unchecked` on truncated input (C18_trunc)

`Trunc p`: run on a cursor whose data is cut after `k` bytes, `p` fails with `UnexpectedEof` or does exactly
what it does on the full data (same value, same error, and the cursors stay related).  The property holds for
`Cursor::read_exact` and the seeks and is preserved by every combinator, hence holds for the whole call — in
both build configurations, for every left operand and every byte string (`interSer_trunc`).
-/
namespace Roaring
open Parser

/-! ### truncating the data under a cursor: EOF, or the very same outcome -/

/-- `c'` is `c` with the data cut after `k` bytes -/
def TRel (k : Nat) (c c' : Cursor) : Prop := c'.data = c.data.take k ∧ c'.pos = c.pos

/-- on truncated data a parser fails with EOF, or does exactly what it does on the full data -/
def Trunc {α : Type} (p : Parser Cursor α) : Prop := ∀ k c c', TRel k c c' →
  p c' = .error .eof ∨ (∃ e, p c' = .error e ∧ p c = .error e) ∨
  (∃ a d d', p c' = .ok (a, d') ∧ p c = .ok (a, d) ∧ TRel k d d')

theorem trunc_pure {α : Type} (a : α) : Trunc (pure a : Parser Cursor α) := by
  intro k c c' h
  exact Or.inr (Or.inr ⟨a, c, c', rfl, rfl, h⟩)

theorem trunc_fail {α : Type} (e : DecErr) : Trunc (fail e : Parser Cursor α) := by
  intro k c c' _
  exact Or.inr (Or.inl ⟨e, rfl, rfl⟩)

theorem trunc_bind {α β : Type} (p : Parser Cursor α) (f : α → Parser Cursor β) (hp : Trunc p)
    (hf : ∀ a, Trunc (f a)) : Trunc (p >>= f) := by
  intro k c c' h
  simp only [bind, Parser.bind]
  rcases hp k c c' h with h1 | ⟨e, h1, h2⟩ | ⟨a, d, d', h1, h2, h3⟩
  · left; rw [h1]
  · right; left; exact ⟨e, by rw [h1], by rw [h2]⟩
  · rw [h1, h2]
    exact hf a k d d' h3

theorem trunc_ofOption {α : Type} (e : DecErr) (x : Option α) : Trunc (ofOption e x : Parser Cursor α) := by
  cases x with
  | some a => exact trunc_pure a
  | none => exact trunc_fail e

theorem trunc_ofExcept {α : Type} (x : Except DecErr α) : Trunc (ofExcept x : Parser Cursor α) := by
  cases x with
  | ok a => exact trunc_pure a
  | error e => exact trunc_fail e

theorem trunc_readExact (n : Nat) : Trunc (Cursor.readExact n) := by
  intro k c c' ⟨hd, hp⟩
  unfold Cursor.readExact
  by_cases hn : n = 0
  · right; right
    simp only [hn, ↓reduceIte]
    exact ⟨[], c, c', rfl, rfl, hd, hp⟩
  · simp only [hn, ↓reduceIte]
    by_cases hle : c'.pos + n ≤ c'.data.length
    · right; right
      have hlen : c'.data.length ≤ c.data.length := by rw [hd, List.length_take]; omega
      have hk : c.pos + n ≤ k := by rw [hd, List.length_take, hp] at hle; omega
      have hle2 : c.pos + n ≤ c.data.length := by omega
      rw [if_pos hle, if_pos hle2]
      refine ⟨(c'.data.drop c'.pos).take n, { c with pos := c.pos + n }, { c' with pos := c'.pos + n }, rfl, ?_, ?_⟩
      · rw [hd, hp, List.drop_take, List.take_take, Nat.min_eq_left (by omega)]
      · exact ⟨hd, by simp [hp]⟩
    · left
      rw [if_neg hle]

theorem trunc_seekStart (off : Nat) : Trunc (Cursor.seekStart off) := by
  intro k c c' ⟨hd, _⟩
  exact Or.inr (Or.inr ⟨(), _, _, rfl, rfl, hd, rfl⟩)

theorem trunc_seekCur (n : Nat) : Trunc (Cursor.seekCur n) := by
  intro k c c' ⟨hd, hp⟩
  exact Or.inr (Or.inr ⟨(), _, _, rfl, rfl, hd, by simp [hp]⟩)

theorem trunc_decodeRunStore : Trunc (decodeRunStore Cursor.readExact) := by
  unfold decodeRunStore
  apply trunc_bind _ _ (trunc_readExact _); intro rb
  apply trunc_bind _ _ (trunc_readExact _); intro ib
  exact trunc_ofExcept _

theorem trunc_decodeArrayStore (chk dbg : Bool) (card : Nat) :
    Trunc (decodeArrayStore Cursor.readExact chk dbg card) := by
  unfold decodeArrayStore
  apply trunc_bind _ _ (trunc_readExact _); intro vb
  dsimp only
  split
  · split
    · exact trunc_pure _
    · exact trunc_fail _
  · exact trunc_ofOption _ _

theorem trunc_decodeBitmapStore (chk dbg : Bool) (card : Nat) :
    Trunc (decodeBitmapStore Cursor.readExact chk dbg card) := by
  unfold decodeBitmapStore
  apply trunc_bind _ _ (trunc_readExact _); intro wb
  dsimp only
  split <;> exact trunc_ofOption _ _

theorem trunc_interReadStore (dbg : Bool) (card : Nat) (isRun : Bool) : Trunc (interReadStore dbg card isRun) := by
  unfold interReadStore
  split
  · exact trunc_decodeRunStore
  · split
    · exact trunc_decodeArrayStore _ _ _
    · exact trunc_decodeBitmapStore _ _ _

theorem trunc_decodeHeader : Trunc (decodeHeader Cursor.readExact) := by
  unfold decodeHeader
  apply trunc_bind _ _ (trunc_readExact _); intro cb
  apply trunc_bind
  · split
    · apply trunc_bind _ _ (trunc_readExact _); intro sb
      exact trunc_pure _
    · split
      · exact trunc_pure _
      · exact trunc_fail _
  · rintro ⟨size, hasOffsets, hasRun⟩
    apply trunc_bind
    · split
      · apply trunc_bind _ _ (trunc_readExact _); intro bm
        exact trunc_pure _
      · exact trunc_pure _
    · intro runBitmap
      split
      · exact trunc_fail _
      · apply trunc_bind _ _ (trunc_readExact _); intro db
        apply trunc_bind
        · split
          · exact trunc_readExact _
          · exact trunc_pure _
        · intro ob
          exact trunc_pure _

theorem trunc_interOffsets (dbg : Bool) (h : Header) : ∀ (cs acc : List Container), Trunc (interOffsets dbg h cs acc)
  | [], acc => by unfold interOffsets; exact trunc_pure _
  | c :: cs, acc => by
    unfold interOffsets
    split
    · exact trunc_interOffsets dbg h cs acc
    · apply trunc_bind _ _ (trunc_seekStart _); intro _
      apply trunc_bind _ _ (trunc_interReadStore _ _ _); intro st
      exact trunc_interOffsets dbg h cs _

theorem trunc_interSequential (dbg : Bool) (a : Bitmap) (rb : Option (List Nat)) :
    ∀ (ds : List (Nat × Nat)) (i : Nat) (acc : List Container), Trunc (interSequential dbg a rb ds i acc)
  | [], _, acc => by unfold interSequential; exact trunc_pure _
  | (key, cardM1) :: ds, i, acc => by
    unfold interSequential
    dsimp only
    split
    · apply trunc_bind _ _ (trunc_interReadStore _ _ _); intro st
      exact trunc_interSequential dbg a rb ds (i + 1) _
    · split
      · apply trunc_bind _ _ (trunc_readExact _); intro rbs
        apply trunc_bind _ _ (trunc_seekCur _); intro _
        exact trunc_interSequential dbg a rb ds (i + 1) acc
      · split
        · apply trunc_bind _ _ (trunc_seekCur _); intro _
          exact trunc_interSequential dbg a rb ds (i + 1) acc
        · apply trunc_bind _ _ (trunc_seekCur _); intro _
          exact trunc_interSequential dbg a rb ds (i + 1) acc

theorem trunc_interSerG (dbg : Bool) (a : Bitmap) : Trunc (interSerG dbg a) := by
  unfold interSerG
  apply trunc_bind _ _ trunc_decodeHeader; intro h
  split
  · exact trunc_interOffsets dbg h a []
  · exact trunc_interSequential dbg a h.runBitmap h.descr 0 []

/-- **Truncation.**  For every left operand, every byte string and every cut: on the truncated input the call
    fails with `UnexpectedEof`, or does exactly what it does on the whole input (same value / same error). -/
theorem interSer_trunc (dbg : Bool) (a : Bitmap) (bs : List Nat) (k : Nat) :
    Bitmap.interSer dbg a (bs.take k) = .error .eof ∨
    Bitmap.interSer dbg a (bs.take k) = Bitmap.interSer dbg a bs := by
  unfold Bitmap.interSer
  rcases trunc_interSerG dbg a k ⟨bs, 0⟩ ⟨bs.take k, 0⟩ ⟨rfl, rfl⟩ with h1 | ⟨e, h1, h2⟩ | ⟨r, d, d', h1, h2, _⟩
  · left; rw [h1]
  · right; rw [h1, h2]
  · right; rw [h1, h2]

end Roaring
