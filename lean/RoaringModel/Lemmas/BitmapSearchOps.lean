import RoaringModel.Lemmas.BitmapOps
/-!
# The binary-search based loops `a &= &b`, `a -= &b` (ops.rs:259-273, 336-349) are the `Pairs` loops

`retain_mut` over `self.containers` with a `binary_search_by_key` in `rhs.containers` visits the same
chunk pairs as the merge-join when both key lists are strictly ascending.
-/
namespace Roaring
namespace Bitmap

/-- the container of `b` with key `k`, as found by `binary_search_by_key` -/
def find (b : Bitmap) (k : Nat) : Option Container :=
  match search b k with
  | (true, loc) => b[loc]?
  | (false, _) => none

theorem find_nil (k : Nat) : find [] k = none := by simp [find, search]

theorem find_cons (r : Container) (rs : Bitmap) (k : Nat) :
    find (r :: rs) k = if r.key < k then find rs k else if r.key = k then some r else none := by
  unfold find search
  by_cases h : r.key < k
  · simp only [List.takeWhile_cons, h, decide_true, if_true, List.length_cons, List.getElem?_cons_succ]
    generalize (List.takeWhile (fun c => decide (c.key < k)) rs).length = i
    cases hi : rs[i]? with
    | none => simp
    | some c => simp only []; cases hk : (c.key == k) <;> simp
  · simp only [List.takeWhile_cons, h, decide_false, Bool.false_eq_true, if_false, List.length_nil,
      List.getElem?_cons_zero]
    by_cases h2 : r.key = k
    · simp [h2]
    · have : (r.key == k) = false := by simp [h2]
      simp [this, h2]

/-- the common shape of the two search-based loops -/
def searchOp (kl chk : Bool) (f : Container → Container → Container) (a b : Bitmap) : Bitmap :=
  a.filterMap fun cont =>
    match find b cont.key with
    | some rc => let c' := f cont rc; if chk && c'.isEmpty then none else some c'
    | none => if kl then some cont else none

theorem filterMap_congr_mem {α β} (l : List α) (f g : α → Option β) (h : ∀ x ∈ l, f x = g x) :
    l.filterMap f = l.filterMap g := by
  induction l with
  | nil => rfl
  | cons x xs ih =>
    simp only [List.filterMap_cons, h x (by simp)]
    rw [ih (fun y hy => h y (List.mem_cons_of_mem _ hy))]

theorem searchOp_drop_low (kl chk : Bool) (f : Container → Container → Container) (r : Container)
    (as rs : Bitmap) (has : ∀ d ∈ as, r.key < d.key) :
    searchOp kl chk f as (r :: rs) = searchOp kl chk f as rs := by
  unfold searchOp
  apply filterMap_congr_mem
  intro c hc
  have := has c hc
  rw [find_cons]; simp [this]

theorem searchOp_eq_pairsOp (kl chk : Bool) (f : Container → Container → Container) :
    ∀ (a b : Bitmap), WF a → WF b → searchOp kl chk f a b = pairsOp kl false chk f a b
  | [], [], _, _ => by simp [searchOp, pairsOp, pairs]
  | l :: ls, [], ha, hb => by
    obtain ⟨hl, hls, hlsw⟩ := wf_cons l ls ha
    have ih := searchOp_eq_pairsOp kl chk f ls [] hlsw hb
    simp only [pairsOp, pairs, filterMap_cons_consOpt, gOp] at ih ⊢
    rw [← ih]
    simp only [searchOp, filterMap_cons_consOpt, find_nil]
  | [], r :: rs, ha, hb => by
    obtain ⟨hr, hrs, hrsw⟩ := wf_cons r rs hb
    have ih := searchOp_eq_pairsOp kl chk f [] rs ha hrsw
    simp only [pairsOp, pairs, filterMap_cons_consOpt, gOp] at ih ⊢
    rw [← ih]
    simp [searchOp, consOpt]
  | l :: ls, r :: rs, ha, hb => by
    obtain ⟨hl, hls, hlsw⟩ := wf_cons l ls ha
    obtain ⟨hr, hrs, hrsw⟩ := wf_cons r rs hb
    by_cases h1 : l.key = r.key
    · have ih := searchOp_eq_pairsOp kl chk f ls rs hlsw hrsw
      have hd := searchOp_drop_low kl chk f r ls rs (fun d hd => h1 ▸ hls d hd)
      simp only [pairsOp, pairs, h1, if_true, filterMap_cons_consOpt, gOp] at ih ⊢
      rw [← ih, ← hd]
      simp only [searchOp, filterMap_cons_consOpt, find_cons, h1, Nat.lt_irrefl, if_false, if_true]
    · by_cases h2 : l.key < r.key
      · have ih := searchOp_eq_pairsOp kl chk f ls (r :: rs) hlsw hb
        simp only [pairsOp, pairs, h1, h2, if_true, if_false, filterMap_cons_consOpt, gOp] at ih ⊢
        rw [← ih]
        have h3 : ¬ r.key < l.key := by omega
        have h4 : ¬ r.key = l.key := fun h => h1 h.symm
        simp only [searchOp, filterMap_cons_consOpt, find_cons, h3, h4, if_false]
      · have ih := searchOp_eq_pairsOp kl chk f (l :: ls) rs ha hrsw
        have h3 : r.key < l.key := by omega
        have has : ∀ d ∈ l :: ls, r.key < d.key := by
          intro d hd
          rcases List.mem_cons.mp hd with rfl | hd
          · exact h3
          · exact Nat.lt_trans h3 (hls d hd)
        have hd := searchOp_drop_low kl chk f r (l :: ls) rs has
        simp only [pairsOp, pairs, h1, h2, if_false, filterMap_cons_consOpt, gOp] at ih ⊢
        rw [hd, ih]
        simp [consOpt]
termination_by a b => a.length + b.length

theorem andAR_eq (a b : Bitmap) : andAR a b = searchOp false true Container.andAssignRef a b := by
  unfold andAR searchOp find
  congr 1; funext cont
  rcases hs : search b cont.key with ⟨_ | _, loc⟩
  · simp
  · cases hb : b[loc]? with
    | none => simp [hb]
    | some rc => simp only [hb]; cases h : (cont.andAssignRef rc).isEmpty <;> simp

theorem subAR_eq (a b : Bitmap) : subAR a b = searchOp true true Container.subAssignRef a b := by
  unfold subAR searchOp find
  congr 1; funext cont
  rcases hs : search b cont.key with ⟨_ | _, loc⟩
  · simp
  · cases hb : b[loc]? with
    | none => simp [hb]
    | some rc => simp only [hb]; cases h : (cont.subAssignRef rc).isEmpty <;> simp

theorem pairSpec_andAR (K : BKernel) : PairSpec Store.PAnd false false true Container.andAssignRef where
  left := by intro p; simp [Store.PAnd]
  right := by intro q; simp [Store.PAnd]
  both := fun l r hl hr => Container.op_spec K (Store.andAssignRef_spec K) l r hl hr
  nonempty := by intro h; cases h

theorem pairSpec_subAR (K : BKernel) : PairSpec Store.PSub true false true Container.subAssignRef where
  left := by intro p; simp [Store.PSub]
  right := by intro q; simp [Store.PSub]
  both := fun l r hl hr => Container.op_spec K (Store.subAssignRef_spec K) l r hl hr
  nonempty := by intro h; cases h

end Bitmap
end Roaring
