import RoaringModel.Lemmas.WordLemmas
/-!
# BitmapStore basics (bitmap_store.rs): the abstraction `toArray`, single-bit operations, min/max, conversions

All statements are about `Roaring.BStore.*` (BitmapStore.lean) under `BStore.Inv b`
(1024 words < 2^64, cached `len` = number of set bits).  `BStore.test b i` is bit `i`.
-/
namespace Roaring
namespace BStore

/-! ### word level (Word.lean) — proofs in `WordLemmas.lean` (`Roaring.Word.*`) -/
theorem tz_testBit (w : Nat) (h : w ≠ 0) : w.testBit (tz w) = true ∧ ∀ i, i < tz w → w.testBit i = false :=
  Word.tz_testBit w h
theorem tz_lt (w : Nat) (h : w ≠ 0) (hlt : w < 2^64) : tz w < 64 := Word.tz_lt w h hlt
theorem popLow_testBit (w : Nat) (h : w ≠ 0) (i : Nat) :
    (popLow w).testBit i = (w.testBit i && decide (i ≠ tz w)) := Word.popLow_testBit w h i
theorem hiBit_testBit (w : Nat) (h : w ≠ 0) : w.testBit (hiBit w) = true ∧ ∀ i, hiBit w < i → w.testBit i = false :=
  Word.hiBit_testBit w h
theorem popcount_eq (w : Nat) (h : w < 2^64) : popcount w = (bitPos w).length := Word.popcount_eq w h
theorem mem_bitPos (w i : Nat) : i ∈ bitPos w ↔ i < 64 ∧ w.testBit i = true := Word.mem_bitPos w i
theorem sorted_bitPos (w : Nat) : Sorted (bitPos w) := Word.sorted_bitPos w
/-- the `while word != 0 { push(tz); word &= word - 1 }` loop lists exactly the set bits, ascending -/
theorem drainWord_eq (base w : Nat) (h : w < 2^64) : drainWord base 64 w = (bitPos w).map (base + ·) :=
  Word.drainWord_eq base w h

/-! ### the abstraction -/

theorem toArrayFrom_nil (k : Nat) : toArrayFrom k [] = [] := rfl

theorem toArrayFrom_cons (k w : Nat) (ws : List Nat) (h : w < 2^64) :
    toArrayFrom k (w :: ws) = bitsOf k w ++ toArrayFrom (k + 1) ws := by
  rw [toArrayFrom, Word.drainWord_eq_bitsOf k w h]

/-- membership in the listing of the words `ws` placed at word indices `k, k+1, …` -/
theorem mem_toArrayFrom (ws : List Nat) (h : ∀ w ∈ ws, w < 2^64) (k x : Nat) :
    x ∈ toArrayFrom k ws ↔
      k ≤ x / 64 ∧ x / 64 < k + ws.length ∧ (word ws (x / 64 - k)).testBit (x % 64) = true := by
  induction ws generalizing k with
  | nil => simp only [toArrayFrom_nil, List.not_mem_nil, List.length_nil, false_iff]; omega
  | cons w ws ih =>
    have hw : w < 2^64 := h w (by simp)
    have hws : ∀ w ∈ ws, w < 2^64 := fun v hv => h v (by simp [hv])
    rw [toArrayFrom_cons k w ws hw, List.mem_append, Word.mem_bitsOf, ih hws (k + 1), List.length_cons]
    by_cases hk : x / 64 = k
    · have h0 : x / 64 - k = 0 := by omega
      rw [h0, Word.word_cons_zero]
      constructor
      · rintro (⟨_, hb⟩ | ⟨h1, _⟩)
        · exact ⟨by omega, by omega, hb⟩
        · omega
      · rintro ⟨_, _, hb⟩; exact Or.inl ⟨hk, hb⟩
    · constructor
      · rintro (⟨h1, _⟩ | ⟨h1, h2, hb⟩)
        · exact absurd h1 hk
        · have h0 : x / 64 - k = (x / 64 - (k + 1)) + 1 := by omega
          rw [h0, Word.word_cons_succ]
          exact ⟨by omega, by omega, hb⟩
      · rintro ⟨h1, h2, hb⟩
        have h0 : x / 64 - k = (x / 64 - (k + 1)) + 1 := by omega
        rw [h0, Word.word_cons_succ] at hb
        exact Or.inr ⟨by omega, by omega, hb⟩

theorem sorted_toArrayFrom (ws : List Nat) (h : ∀ w ∈ ws, w < 2^64) (k : Nat) :
    Sorted (toArrayFrom k ws) := by
  induction ws generalizing k with
  | nil => simp [toArrayFrom_nil, Sorted]
  | cons w ws ih =>
    have hw : w < 2^64 := h w (by simp)
    have hws : ∀ w ∈ ws, w < 2^64 := fun v hv => h v (by simp [hv])
    rw [toArrayFrom_cons k w ws hw, Sorted, List.pairwise_append]
    refine ⟨Word.sorted_bitsOf k w, ih hws (k + 1), ?_⟩
    intro a ha b hb
    rw [Word.mem_bitsOf] at ha
    rw [mem_toArrayFrom ws hws] at hb
    omega

theorem length_toArrayFrom (ws : List Nat) (h : ∀ w ∈ ws, w < 2^64) (k : Nat) :
    (toArrayFrom k ws).length = popSum ws := by
  induction ws generalizing k with
  | nil => rfl
  | cons w ws ih =>
    have hw : w < 2^64 := h w (by simp)
    have hws : ∀ w ∈ ws, w < 2^64 := fun v hv => h v (by simp [hv])
    rw [toArrayFrom_cons k w ws hw, List.length_append, Word.length_bitsOf, ih hws, Word.popSum_cons,
      Word.popcount_eq w hw]

theorem mem_toArray (b : BStore) (hb : b.Inv) (x : Nat) : x ∈ b.toArray ↔ x < 65536 ∧ b.test x = true := by
  unfold toArray test
  rw [mem_toArrayFrom b.bits hb.words 0 x, hb.length]
  simp only [Nat.sub_zero]
  constructor
  · rintro ⟨_, h1, h2⟩; exact ⟨by omega, h2⟩
  · rintro ⟨h1, h2⟩; exact ⟨by omega, by omega, h2⟩

theorem sorted_toArray (b : BStore) (hb : b.Inv) : Sorted b.toArray :=
  sorted_toArrayFrom b.bits hb.words 0

theorem toArray_lt (b : BStore) (hb : b.Inv) : ∀ x ∈ b.toArray, x < 65536 :=
  fun x hx => ((mem_toArray b hb x).1 hx).1

theorem length_toArray (b : BStore) (hb : b.Inv) : b.toArray.length = b.len := by
  rw [hb.len]; exact length_toArrayFrom b.bits hb.words 0

theorem inv_toArray (b : BStore) (hb : b.Inv) : Arr.Inv b.toArray :=
  ⟨sorted_toArray b hb, toArray_lt b hb⟩

theorem inv_new : BStore.new.Inv := by
  refine ⟨List.length_replicate, ?_, ?_⟩
  · intro w hw
    have := (List.mem_replicate.1 hw).2
    rw [this]; decide
  · show 0 = popSum (List.replicate 1024 0)
    rw [Word.popSum_replicate, popcount_zero]

theorem test_new (x : Nat) : BStore.new.test x = false := by
  unfold test new zeros
  by_cases h : x / 64 < 1024
  · rw [Word.word_replicate _ _ _ h, Nat.zero_testBit]
  · rw [Word.word_of_le _ _ (by rw [List.length_replicate]; omega), Nat.zero_testBit]

theorem toArray_new : BStore.new.toArray = [] := by
  apply List.eq_nil_iff_forall_not_mem.2
  intro x hx
  have := ((mem_toArray _ inv_new x).1 hx).2
  rw [test_new] at this; exact Bool.false_ne_true this

theorem inv_full : BStore.full.Inv := by
  refine ⟨List.length_replicate, ?_, ?_⟩
  · intro w hw
    have := (List.mem_replicate.1 hw).2
    rw [this]; exact Word.wMax_lt
  · show 65536 = popSum (List.replicate 1024 wMax)
    rw [Word.popSum_replicate, Word.popcount_wMax]

theorem test_full (x : Nat) (h : x < 65536) : BStore.full.test x = true := by
  unfold test full
  rw [Word.word_replicate _ _ _ (by omega), Word.wMax_eq, Nat.testBit_two_pow_sub_one]
  simp; omega

theorem mem_toArray_full (x : Nat) : x ∈ BStore.full.toArray ↔ x < 65536 := by
  rw [mem_toArray _ inv_full]
  constructor
  · exact fun h => h.1
  · exact fun h => ⟨h, test_full x h⟩

/-- equal bits ⇒ equal stores (canonical form of a bitset) -/
theorem ext (a b : BStore) (ha : a.Inv) (hb : b.Inv) (h : ∀ x, x < 65536 → a.test x = b.test x) : a = b := by
  have hbits : a.bits = b.bits := by
    apply Word.bits_ext a.bits b.bits (by rw [ha.length, hb.length]) ha.words hb.words
    intro i hi
    rw [ha.length] at hi
    exact h i (by omega)
  have hlen : a.len = b.len := by rw [ha.len, hb.len, hbits]
  cases a; cases b; simp_all

/-! ### single-bit operations -/
theorem contains_eq_test (b : BStore) (i : Nat) : b.contains i = b.test i := by
  unfold contains test wkey wbit
  exact Word.and_one_shiftLeft_ne_zero _ _

/-- `insert` in closed form (no hypothesis needed) -/
theorem insert_eq (b : BStore) (i : Nat) :
    b.insert i = ({ len := b.len + (if b.test i then 0 else 1),
                    bits := b.bits.set (i / 64) (word b.bits (i / 64) ||| (1 <<< (i % 64))) }, !b.test i) := by
  unfold insert test wkey wbit
  simp only [Word.xor_setBit_shiftRight]
  cases h : (word b.bits (i / 64)).testBit (i % 64) <;> simp

/-- `remove` in closed form -/
theorem remove_eq (b : BStore) (hw : ∀ w ∈ b.bits, w < 2^64) (i : Nat) :
    b.remove i = ({ len := b.len - (if b.test i then 1 else 0),
                    bits := b.bits.set (i / 64) (word b.bits (i / 64) &&& not64 (1 <<< (i % 64))) }, b.test i) := by
  unfold remove test wkey wbit
  simp only [Word.xor_clearBit_shiftRight _ _ (Word.word_lt b.bits hw (i / 64))]
  cases h : (word b.bits (i / 64)).testBit (i % 64) <;> simp

theorem insert_spec (b : BStore) (hb : b.Inv) (i : Nat) (hi : i < 65536) :
    (b.insert i).1.Inv ∧ (∀ x, x < 65536 → (b.insert i).1.test x = (decide (x = i) || b.test x)) ∧
    (b.insert i).2 = !b.test i := by
  have hk : i / 64 < b.bits.length := by rw [hb.length]; omega
  have hbit : i % 64 < 64 := by omega
  have hold : word b.bits (i / 64) < 2^64 := Word.word_lt _ hb.words _
  rw [insert_eq]
  refine ⟨⟨?_, ?_, ?_⟩, ?_, rfl⟩
  · simp [hb.length]
  · exact Word.mem_set_lt _ _ _ hb.words (Word.setBit_lt hold hbit)
  · have := Word.popSum_set b.bits (i / 64) (word b.bits (i / 64) ||| (1 <<< (i % 64))) hk
    rw [Word.popcount_setBit _ _ hold hbit] at this
    simp only [hb.len]
    by_cases htb : b.test i = true
    · have htb' : (word b.bits (i / 64)).testBit (i % 64) = true := htb
      rw [if_pos htb]; rw [if_pos htb'] at this; omega
    · have htb' : ¬ (word b.bits (i / 64)).testBit (i % 64) = true := htb
      rw [if_neg htb]; rw [if_neg htb'] at this; omega
  · intro x _
    simp only [test]
    rw [Word.word_set]
    by_cases hc : x / 64 = i / 64
    · rw [if_pos ⟨hc, hk⟩, Word.testBit_setBit, hc]
      by_cases hm : i % 64 = x % 64
      · have : x = i := by omega
        subst this; simp
      · have : ¬ x = i := by intro h; subst h; exact hm rfl
        simp [hm, this]
    · have : ¬ x = i := by intro h; subst h; exact hc rfl
      simp [hc, this]

theorem remove_spec (b : BStore) (hb : b.Inv) (i : Nat) (hi : i < 65536) :
    (b.remove i).1.Inv ∧ (∀ x, x < 65536 → (b.remove i).1.test x = (decide (x ≠ i) && b.test x)) ∧
    (b.remove i).2 = b.test i := by
  have hk : i / 64 < b.bits.length := by rw [hb.length]; omega
  have hold : word b.bits (i / 64) < 2^64 := Word.word_lt _ hb.words _
  rw [remove_eq b hb.words]
  refine ⟨⟨?_, ?_, ?_⟩, ?_, rfl⟩
  · simp [hb.length]
  · exact Word.mem_set_lt _ _ _ hb.words (Word.clearBit_lt _ hold)
  · have := Word.popSum_set b.bits (i / 64) (word b.bits (i / 64) &&& not64 (1 <<< (i % 64))) hk
    have h2 := Word.popcount_clearBit (word b.bits (i / 64)) (i % 64) hold
    have h3 := Word.popcount_word_le_popSum b.bits (i / 64)
    simp only [hb.len]
    by_cases htb : b.test i = true
    · have htb' : (word b.bits (i / 64)).testBit (i % 64) = true := htb
      rw [if_pos htb]; rw [if_pos htb'] at h2; omega
    · have htb' : ¬ (word b.bits (i / 64)).testBit (i % 64) = true := htb
      rw [if_neg htb]; rw [if_neg htb'] at h2; omega
  · intro x _
    simp only [test]
    rw [Word.word_set]
    by_cases hc : x / 64 = i / 64
    · rw [if_pos ⟨hc, hk⟩, Word.testBit_clearBit _ _ _ (by omega), hc]
      by_cases hm : i % 64 = x % 64
      · have : x = i := by omega
        subst this; simp
      · have : ¬ x = i := by intro h; subst h; exact hm rfl
        simp [hm, this]
    · have : ¬ x = i := by intro h; subst h; exact hc rfl
      simp [hc, this]

/-! ### min / max / push -/

theorem min?_eq_map (b : BStore) :
    b.min? = (b.bits.zipIdx.find? (fun p => p.1 != 0)).map (fun p => p.2 * 64 + tz p.1) := by
  unfold min?; split <;> simp [*]

theorem max?_eq_map (b : BStore) :
    b.max? = (b.bits.zipIdx.reverse.find? (fun p => p.1 != 0)).map (fun p => p.2 * 64 + hiBit p.1) := by
  unfold max?; split <;> simp [*]

theorem min?_from (ws : List Nat) (k : Nat) :
    ((ws.zipIdx k).find? (fun p => p.1 != 0)).map (fun p => p.2 * 64 + tz p.1) = (toArrayFrom k ws).head? := by
  induction ws generalizing k with
  | nil => rfl
  | cons w ws ih =>
    rw [List.zipIdx_cons, List.find?_cons]
    by_cases h0 : w = 0
    · subst h0
      simp only [bne_self_eq_false]
      rw [ih (k + 1)]
      simp [toArrayFrom, drainWord]
    · have hne : (w != 0) = true := by simp [h0]
      simp only [hne, Option.map_some, toArrayFrom, drainWord, if_neg h0, List.cons_append, List.head?_cons]
      congr 1
      omega

theorem max?_from (ws : List Nat) (h : ∀ w ∈ ws, w < 2^64) (k : Nat) :
    ((ws.zipIdx k).reverse.find? (fun p => p.1 != 0)).map (fun p => p.2 * 64 + hiBit p.1)
      = (toArrayFrom k ws).getLast? := by
  induction ws generalizing k with
  | nil => rfl
  | cons w ws ih =>
    have hw : w < 2^64 := h w (by simp)
    have hws : ∀ w ∈ ws, w < 2^64 := fun v hv => h v (by simp [hv])
    rw [List.zipIdx_cons, List.reverse_cons, List.find?_append, Option.map_or, ih hws (k + 1),
      toArrayFrom_cons k w ws hw, List.getLast?_append]
    congr 1
    by_cases h0 : w = 0
    · subst h0; simp [Word.bitsOf_zero]
    · simp only [bitsOf, List.getLast?_map, Word.getLast?_bitPos w h0 hw]
      simp [h0]
      omega

set_option linter.unusedVariables false in
theorem min?_spec (b : BStore) (hb : b.Inv) : b.min? = b.toArray.head? := by
  rw [min?_eq_map]; exact min?_from b.bits 0

theorem max?_spec (b : BStore) (hb : b.Inv) : b.max? = b.toArray.getLast? := by
  rw [max?_eq_map]; exact max?_from b.bits hb.words 0

/-- `max?` is the maximum of the listing -/
theorem max?_eq_none_iff (b : BStore) (hb : b.Inv) : b.max? = none ↔ b.toArray = [] := by
  rw [max?_spec b hb]; exact List.getLast?_eq_none_iff

theorem max?_eq_some (b : BStore) (hb : b.Inv) (m : Nat) (h : b.max? = some m) :
    m ∈ b.toArray ∧ ∀ x ∈ b.toArray, x ≤ m := by
  rw [max?_spec b hb] at h
  exact Word.sorted_le_getLast _ (sorted_toArray b hb) m h

set_option linter.unusedVariables false in
theorem push_spec (b : BStore) (hb : b.Inv) (i : Nat) (hi : i < 65536) :
    (b.push i) = if (∀ x ∈ b.toArray, x < i) then ((b.insert i).1, true) else (b, false) := by
  unfold push
  cases hm : b.max? with
  | none =>
    have := (max?_eq_none_iff b hb).1 hm
    rw [if_pos (by rw [this]; simp)]
  | some m =>
    have ⟨h1, h2⟩ := max?_eq_some b hb m hm
    by_cases hlt : m < i
    · rw [if_pos (by intro x hx; have := h2 x hx; omega)]
      simp [hlt]
    · rw [if_neg (by intro hall; exact hlt (hall m h1))]
      simp [hlt]

set_option linter.unusedVariables false in
theorem pushUnchecked_spec (dbg : Bool) (b : BStore) (hb : b.Inv) (i : Nat) (hi : i < 65536)
    (hmax : ∀ x ∈ b.toArray, x < i) : b.pushUnchecked dbg i = some (b.insert i).1 := by
  unfold pushUnchecked
  cases dbg with
  | false => simp
  | true =>
    cases hm : b.max? with
    | none => simp
    | some m =>
      have ⟨h1, _⟩ := max?_eq_some b hb m hm
      have := hmax m h1
      simp [this]

/-! ### conversions -/

/-- two stores satisfying the invariant list the same values iff they are equal -/
theorem toArray_inj (a b : BStore) (ha : a.Inv) (hb : b.Inv) (h : a.toArray = b.toArray) : a = b := by
  apply ext a b ha hb
  intro x hx
  have h1 := mem_toArray a ha x
  have h2 := mem_toArray b hb x
  rw [h] at h1
  cases hta : a.test x <;> cases htb : b.test x <;> simp_all

/-- inserting a strictly ascending run of fresh values: the `ArrayStore::to_bitmap_store` loop, from any start -/
theorem foldl_setBit_spec (v : List Nat) (hv : Sorted v) (b : BStore) (hb : b.Inv)
    (hfresh : ∀ x ∈ v, x < 65536 ∧ b.test x = false) :
    let b' : BStore := { len := b.len + v.length,
                         bits := v.foldl (fun bits i => bits.set (wkey i) (word bits (wkey i) ||| (1 <<< wbit i))) b.bits }
    b'.Inv ∧ ∀ x, x < 65536 → b'.test x = (b.test x || decide (x ∈ v)) := by
  induction v generalizing b with
  | nil => simp; exact hb
  | cons a v ih =>
    have ⟨ha, hta⟩ := hfresh a (by simp)
    have hsp := insert_spec b hb a ha
    rw [insert_eq] at hsp
    simp only [hta] at hsp
    obtain ⟨hinv, htest, _⟩ := hsp
    unfold Sorted at hv
    rw [List.pairwise_cons] at hv
    have hfresh' : ∀ x ∈ v, x < 65536 ∧
        (BStore.mk (b.len + 1) (b.bits.set (a / 64) (word b.bits (a / 64) ||| (1 <<< (a % 64))))).test x = false := by
      intro x hx
      have ⟨hx1, hx2⟩ := hfresh x (by simp [hx])
      refine ⟨hx1, ?_⟩
      have hne : ¬ x = a := by have := hv.1 x hx; omega
      have := htest x hx1
      simp only [Bool.false_eq_true, if_false] at this
      rw [this, hx2]; simp [hne]
    have := ih hv.2 _ hinv hfresh'
    simp only [Bool.false_eq_true, if_false] at this htest
    simp only [List.foldl_cons, List.length_cons]
    rw [show wkey a = a / 64 from rfl, show wbit a = a % 64 from rfl]
    have hl : b.len + (v.length + 1) = b.len + 1 + v.length := by omega
    rw [hl]
    refine ⟨this.1, ?_⟩
    intro x hx
    rw [this.2 x hx, htest x hx]
    by_cases hxa : x = a
    · simp [hxa]
    · simp [hxa]

/-- `ArrayStore::to_bitmap_store` -/
theorem arrToBitmap_spec (v : List Nat) (hv : Arr.Inv v) :
    (Store.arrToBitmap v).Inv ∧ (Store.arrToBitmap v).toArray = v := by
  have h := foldl_setBit_spec v hv.1 BStore.new inv_new (fun x hx => ⟨hv.2 x hx, test_new x⟩)
  have heq : Store.arrToBitmap v =
      { len := BStore.new.len + v.length,
        bits := v.foldl (fun bits i => bits.set (wkey i) (word bits (wkey i) ||| (1 <<< wbit i))) BStore.new.bits } := by
    show BStore.mk _ _ = BStore.mk _ _
    congr 1
    show v.length = 0 + v.length
    omega
  rw [← heq] at h
  refine ⟨h.1, ?_⟩
  apply Word.sorted_ext _ _ (sorted_toArray _ h.1) hv.1
  intro x
  rw [mem_toArray _ h.1]
  constructor
  · rintro ⟨hx, ht⟩
    rw [h.2 x hx, test_new] at ht
    simpa using ht
  · intro hx
    refine ⟨hv.2 x hx, ?_⟩
    rw [h.2 x (hv.2 x hx)]; simp [hx]

/-- `try_from` accepts exactly the correct cardinality -/
theorem tryFrom_spec (len : Nat) (bits : List Nat) :
    tryFrom len bits = if len = popSum bits then some { len, bits } else none := by
  unfold tryFrom
  by_cases h : len = popSum bits <;> simp [h]

end BStore
end Roaring
