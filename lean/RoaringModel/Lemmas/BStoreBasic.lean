import RoaringModel.Inv
/-!
# BitmapStore basics (bitmap_store.rs): the abstraction `toArray`, single-bit operations, min/max, conversions

All statements are about `Roaring.BStore.*` (BitmapStore.lean) under `BStore.Inv b`
(1024 words < 2^64, cached `len` = number of set bits).  `BStore.test b i` is bit `i`.
-/
namespace Roaring
namespace BStore

/-! ### word level (Word.lean) -/
theorem tz_testBit (w : Nat) (h : w ≠ 0) : w.testBit (tz w) = true ∧ ∀ i, i < tz w → w.testBit i = false := by sorry
theorem tz_lt (w : Nat) (h : w ≠ 0) (hlt : w < 2^64) : tz w < 64 := by sorry
theorem popLow_testBit (w : Nat) (h : w ≠ 0) (i : Nat) :
    (popLow w).testBit i = (w.testBit i && decide (i ≠ tz w)) := by sorry
theorem hiBit_testBit (w : Nat) (h : w ≠ 0) : w.testBit (hiBit w) = true ∧ ∀ i, hiBit w < i → w.testBit i = false := by sorry
theorem popcount_eq (w : Nat) (h : w < 2^64) : popcount w = (bitPos w).length := by sorry
theorem mem_bitPos (w i : Nat) : i ∈ bitPos w ↔ i < 64 ∧ w.testBit i = true := by sorry
theorem sorted_bitPos (w : Nat) : Sorted (bitPos w) := by sorry
/-- the `while word != 0 { push(tz); word &= word - 1 }` loop lists exactly the set bits, ascending -/
theorem drainWord_eq (base w : Nat) (h : w < 2^64) : drainWord base 64 w = (bitPos w).map (base + ·) := by sorry

/-! ### the abstraction -/
theorem mem_toArray (b : BStore) (hb : b.Inv) (x : Nat) : x ∈ b.toArray ↔ x < 65536 ∧ b.test x = true := by sorry
theorem sorted_toArray (b : BStore) (hb : b.Inv) : Sorted b.toArray := by sorry
theorem toArray_lt (b : BStore) (hb : b.Inv) : ∀ x ∈ b.toArray, x < 65536 := by sorry
theorem length_toArray (b : BStore) (hb : b.Inv) : b.toArray.length = b.len := by sorry
theorem inv_toArray (b : BStore) (hb : b.Inv) : Arr.Inv b.toArray := by sorry

theorem inv_new : BStore.new.Inv := by sorry
theorem toArray_new : BStore.new.toArray = [] := by sorry
theorem inv_full : BStore.full.Inv := by sorry
theorem mem_toArray_full (x : Nat) : x ∈ BStore.full.toArray ↔ x < 65536 := by sorry

/-- equal bits ⇒ equal stores (canonical form of a bitset) -/
theorem ext (a b : BStore) (ha : a.Inv) (hb : b.Inv) (h : ∀ x, x < 65536 → a.test x = b.test x) : a = b := by sorry

/-! ### single-bit operations -/
theorem contains_eq_test (b : BStore) (i : Nat) : b.contains i = b.test i := by sorry

theorem insert_spec (b : BStore) (hb : b.Inv) (i : Nat) (hi : i < 65536) :
    (b.insert i).1.Inv ∧ (∀ x, x < 65536 → (b.insert i).1.test x = (decide (x = i) || b.test x)) ∧
    (b.insert i).2 = !b.test i := by sorry

theorem remove_spec (b : BStore) (hb : b.Inv) (i : Nat) (hi : i < 65536) :
    (b.remove i).1.Inv ∧ (∀ x, x < 65536 → (b.remove i).1.test x = (decide (x ≠ i) && b.test x)) ∧
    (b.remove i).2 = b.test i := by sorry

theorem min?_spec (b : BStore) (hb : b.Inv) : b.min? = b.toArray.head? := by sorry
theorem max?_spec (b : BStore) (hb : b.Inv) : b.max? = b.toArray.getLast? := by sorry

theorem push_spec (b : BStore) (hb : b.Inv) (i : Nat) (hi : i < 65536) :
    (b.push i) = if (∀ x ∈ b.toArray, x < i) then ((b.insert i).1, true) else (b, false) := by sorry

theorem pushUnchecked_spec (dbg : Bool) (b : BStore) (hb : b.Inv) (i : Nat) (hi : i < 65536)
    (hmax : ∀ x ∈ b.toArray, x < i) : b.pushUnchecked dbg i = some (b.insert i).1 := by sorry

/-! ### conversions -/
/-- `ArrayStore::to_bitmap_store` -/
theorem arrToBitmap_spec (v : List Nat) (hv : Arr.Inv v) :
    (Store.arrToBitmap v).Inv ∧ (Store.arrToBitmap v).toArray = v := by sorry

/-- `try_from` accepts exactly the correct cardinality -/
theorem tryFrom_spec (len : Nat) (bits : List Nat) :
    tryFrom len bits = if len = popSum bits then some { len, bits } else none := by sorry

end BStore
end Roaring
