import RoaringModel.Lemmas.WordLemmasIter
import RoaringModel.Lemmas.BIterDefs
/-!
# Cursor lemmas of the `BitmapIter` model

Every method of `BIter` is characterised on the abstraction `BIter.rem` (the ascending list of the values
still to be yielded) and preserves `BIter.Inv`:

* `next`          = `(head?, tail)`
* `nextBack`      = `(getLast?, dropLast)`
* `advanceTo n`   = `filter (n ≤ ·)`
* `advanceBackTo n` = `filter (· ≤ n)`
* `sizeHint`      = `length`
-/
namespace Roaring
namespace BIter
open BStore (word)

/-! ### the words strictly between the two cursors -/

theorem between_nil_of_find_none (bits : List Nat) (k kb : Nat)
    (h : (List.range' (k+1) (kb - k - 1)).find? (fun j => word bits j != 0) = none) :
    between bits k kb = [] := by
  unfold between
  rw [List.find?_eq_none] at h
  simp only [List.flatMap_eq_nil_iff]
  intro j hj
  have := h j hj
  simp at this
  simp [this, bitsOf_zero]

/-- splitting the words strictly between `k` and `kb` at a word `j` in that range -/
theorem between_split (bits : List Nat) (k j kb : Nat) (h1 : k < j) (h2 : j < kb) :
    between bits k kb = between bits k j ++ bitsOf j (word bits j) ++ between bits j kb := by
  unfold between
  have e : List.range' (k+1) (kb - k - 1) =
      List.range' (k+1) (j - k - 1) ++ (j :: List.range' (j+1) (kb - j - 1)) := by
    have h3 : kb - k - 1 = (j - k - 1) + (1 + (kb - j - 1)) := by omega
    rw [h3, ← List.range'_append_1]
    have h4 : k + 1 + (j - k - 1) = j := by omega
    rw [h4]
    congr 1
    rw [Nat.add_comm 1, List.range'_succ]
  rw [e]
  simp [List.flatMap_append]

theorem between_nil_prefix_of_find (bits : List Nat) (k j kb : Nat)
    (h : (List.range' (k+1) (kb - k - 1)).find? (fun i => word bits i != 0) = some j) :
    k < j ∧ j < kb ∧ word bits j ≠ 0 ∧ between bits k j = [] := by
  have hmem := List.mem_of_find?_eq_some h
  have hp := List.find?_some h
  rw [List.mem_range'_1] at hmem
  simp at hp
  refine ⟨by omega, by omega, hp, ?_⟩
  unfold between
  simp only [List.flatMap_eq_nil_iff]
  intro i hi
  rw [List.mem_range'_1] at hi
  have := List.find?_eq_some_iff_append.mp h
  obtain ⟨_, as, bs, hsplit, hall⟩ := this
  have hi_mem : i ∈ List.range' (k+1) (kb - k - 1) := by rw [List.mem_range'_1]; omega
  rw [hsplit] at hi_mem
  have hsorted : (List.range' (k+1) (kb - k - 1)).Pairwise (· < ·) := List.pairwise_lt_range'
  rw [hsplit] at hsorted
  rcases List.mem_append.mp hi_mem with hia | hib
  · have := hall i hia
    simp at this
    simp [this, bitsOf_zero]
  · rw [List.pairwise_append] at hsorted
    have hjb := hsorted.2.1
    rcases List.mem_cons.mp hib with hij | hib'
    · omega
    · have := (List.pairwise_cons.mp hjb).1 i hib'
      omega

theorem between_bounds (bits : List Nat) (k kb x : Nat) (h : x ∈ between bits k kb) :
    64*(k+1) ≤ x ∧ x < 64*kb := by
  unfold between at h
  rw [List.mem_flatMap] at h
  obtain ⟨j, hj, hx⟩ := h
  rw [List.mem_range'_1] at hj
  have := bitsOf_bounds j _ x hx
  omega

/-- peeling the last word off the words strictly between -/
theorem between_last (bits : List Nat) (k kb : Nat) (h : k + 1 < kb) :
    between bits k kb = between bits k (kb - 1) ++ bitsOf (kb - 1) (word bits (kb - 1)) := by
  have := between_split bits k (kb - 1) kb (by omega) (by omega)
  rw [this]
  have : between bits (kb - 1) kb = [] := by
    unfold between
    have : kb - (kb - 1) - 1 = 0 := by omega
    simp [this]
  rw [this]; simp

theorem between_adjacent (bits : List Nat) (k : Nat) : between bits k (k+1) = [] := by
  unfold between; simp

/-! ### `next` -/

theorem next_cursor (it : BIter) (hi : it.Inv) :
    it.next.2 = it.rem.head? ∧ it.next.1.rem = it.rem.tail ∧ it.next.1.Inv := by
  unfold BIter.next
  by_cases hv : it.value = 0
  · simp only [hv, ne_eq, not_true_eq_false, ↓reduceIte]
    by_cases hk : it.key ≥ it.keyBack
    · have hnk : ¬ it.key < it.keyBack := by omega
      simp [hk, BIter.rem, hnk, hv, bitsOf_zero, hi]
    · have hk' : it.key < it.keyBack := by omega
      simp only [hk, ↓reduceIte]
      split
      · rename_i j hfind
        obtain ⟨h1, h2, h3, h4⟩ := between_nil_prefix_of_find it.bits it.key j it.keyBack hfind
        have hstep := bitsOf_step j (word it.bits j) h3 (hi.ws j)
        simp only [BIter.emit, BIter.rem, hk', h2, ↓reduceIte, hv, bitsOf_zero, List.nil_append]
        rw [between_split it.bits it.key j it.keyBack h1 h2, h4, hstep]
        refine ⟨by simp, by simp, ?_⟩
        exact ⟨popLow_lt _ (hi.ws j), hi.vb, hi.ws, by intro h; simp only [] at h; omega, hi.kb⟩
      · rename_i hfind
        have hb := between_nil_of_find_none it.bits it.key it.keyBack hfind
        by_cases hvb : it.valueBack = 0
        · simp [hvb, BIter.rem, hk', hv, hb, bitsOf_zero]
          exact ⟨by simp, by simp, hi.ws, by intro _; left; rfl, hi.kb⟩
        · have hstep := bitsOf_step it.keyBack it.valueBack hvb hi.vb
          simp only [hvb, ↓reduceIte, BIter.emit, BIter.rem, hk', hv, bitsOf_zero, hb, List.nil_append,
            Nat.lt_irrefl]
          rw [hstep]
          refine ⟨by simp, by simp, ?_⟩
          exact ⟨popLow_lt _ hi.vb, hi.vb, hi.ws, by intro _; left; rfl, hi.kb⟩
  · have hstep := bitsOf_step it.key it.value hv hi.v
    simp only [hv, ne_eq, not_false_eq_true, ↓reduceIte, BIter.emit]
    refine ⟨?_, ?_, ?_⟩
    · unfold BIter.rem; split <;> simp [hstep]
    · unfold BIter.rem; simp only []; split <;> simp [hstep]
    · refine ⟨popLow_lt _ hi.v, hi.vb, hi.ws, ?_, hi.kb⟩
      intro h
      rcases hi.live h with h' | h'
      · left; exact h'
      · exact absurd h' hv

/-! ### `nextBack` -/

theorem nextBack_cursor (it : BIter) (hi : it.Inv) :
    it.nextBack.2 = it.rem.getLast? ∧ it.nextBack.1.rem = it.rem.dropLast ∧ it.nextBack.1.Inv := by
  fun_induction BIter.nextBack it with
  | case1 it hk hv =>
    -- live word is `value`, empty
    have hnk : ¬ it.key < it.keyBack := by omega
    simp [BIter.rem, hnk, hv, bitsOf_zero, hi]
  | case2 it hk hv =>
    have hnk : ¬ it.key < it.keyBack := by omega
    have hkey : it.keyBack = it.key := by
      rcases hi.live hk with h | h
      · exact h
      · exact absurd h hv
    have hstep := bitsOf_step_back it.key it.value hv hi.v
    have hlt := popHigh_lt _ hi.v
    unfold popHigh at hstep hlt
    simp only [BIter.rem, hnk, ↓reduceIte]
    rw [hstep, hkey]
    refine ⟨by simp, by simp, ?_⟩
    exact ⟨hlt, hi.vb, hi.ws, by intro _; left; rfl,
      by show it.key ≤ 1023; have := hi.kb; omega⟩
  | case3 it hk hvb ih =>
    have hk' : it.key < it.keyBack := by omega
    -- the stepped iterator has the same remaining list
    have hinv' : BIter.Inv { it with keyBack := it.keyBack - 1, valueBack := word it.bits (it.keyBack - 1) } :=
      ⟨hi.v, hi.ws _, hi.ws,
        by intro h; left; show it.keyBack - 1 = it.key; have h' : it.keyBack - 1 ≤ it.key := h; omega,
        by show it.keyBack - 1 ≤ 1023; have := hi.kb; omega⟩
    have hrem : BIter.rem { it with keyBack := it.keyBack - 1, valueBack := word it.bits (it.keyBack - 1) } = it.rem := by
      unfold BIter.rem
      simp only [hk', ↓reduceIte, hvb, bitsOf_zero, List.append_nil]
      by_cases hadj : it.key + 1 < it.keyBack
      · have : it.key < it.keyBack - 1 := by omega
        simp only [this, ↓reduceIte]
        rw [between_last it.bits it.key it.keyBack hadj, List.append_assoc]
      · have hkb : it.keyBack = it.key + 1 := by omega
        have : ¬ it.key < it.keyBack - 1 := by omega
        simp only [this, ↓reduceIte]
        rw [hkb, between_adjacent]; simp
    have := ih hinv'
    rw [hrem] at this
    exact this
  | case4 it hk hvb =>
    have hk' : it.key < it.keyBack := by omega
    have hstep := bitsOf_step_back it.keyBack it.valueBack hvb hi.vb
    have hlt := popHigh_lt _ hi.vb
    unfold popHigh at hstep hlt
    simp only [BIter.rem, hk', ↓reduceIte]
    rw [hstep]
    refine ⟨by simp, ?_, ?_⟩
    · rw [← List.append_assoc, List.dropLast_concat]
    · exact ⟨hi.v, hlt, hi.ws, by intro h; simp only [] at h; omega, hi.kb⟩

/-! ### `advanceTo` -/

theorem filter_keep (l : List Nat) (n : Nat) (h : ∀ x ∈ l, n ≤ x) :
    l.filter (fun x => decide (n ≤ x)) = l := by
  rw [List.filter_eq_self]; intro x hx; simp [h x hx]

theorem filter_drop (l : List Nat) (n : Nat) (h : ∀ x ∈ l, x < n) :
    l.filter (fun x => decide (n ≤ x)) = [] := by
  rw [List.filter_eq_nil_iff]; intro x hx; have := h x hx; simp; omega

theorem advanceTo_cursor (it : BIter) (hi : it.Inv) (n : Nat) :
    (it.advanceTo n).rem = it.rem.filter (fun x => decide (n ≤ x)) ∧ (it.advanceTo n).Inv := by
  have hb : n % 64 < 64 := Nat.mod_lt _ (by omega)
  have hn : n = 64 * (n / 64) + n % 64 := by omega
  unfold BIter.advanceTo wkey wbit
  simp only []
  by_cases c1 : n / 64 < it.key
  · -- target word is before the front word: nothing to discard
    simp only [c1, ↓reduceIte]
    refine ⟨?_, hi⟩
    symm; apply filter_keep
    intro x hx
    unfold BIter.rem at hx
    split at hx
    · simp only [List.mem_append] at hx
      rcases hx with (hx | hx) | hx
      · have := bitsOf_bounds _ _ _ hx; omega
      · have := between_bounds _ _ _ _ hx; omega
      · have := bitsOf_bounds _ _ _ hx; omega
    · have := bitsOf_bounds _ _ _ hx; omega
  · simp only [c1, ↓reduceIte]
    by_cases c2 : n / 64 = it.key
    · -- same word: mask the live front word
      simp only [c2, ↓reduceIte]
      have hm := bitsOf_maskGE it.key it.value (n % 64) hb
      have hn' : 64 * it.key + n % 64 = n := by omega
      rw [hn'] at hm
      refine ⟨?_, ⟨and_lt _ _ hi.v, hi.vb, hi.ws, ?_, hi.kb⟩⟩
      · unfold BIter.rem
        simp only []
        split
        · rw [List.filter_append, List.filter_append, hm]
          congr 1
          · congr 1
            symm; apply filter_keep
            intro x hx; have := between_bounds _ _ _ _ hx; omega
          · symm; apply filter_keep
            intro x hx; have := bitsOf_bounds _ _ _ hx; omega
        · exact hm
      · intro h
        rcases hi.live h with h' | h'
        · left; exact h'
        · right; simp [h']
    · simp only [c2, ↓reduceIte]
      have c2' : it.key < n / 64 := by omega
      by_cases c3 : n / 64 < it.keyBack
      · -- a fresh word strictly between front and back
        simp only [c3, ↓reduceIte]
        have hkb : it.key < it.keyBack := by omega
        have hm := bitsOf_maskGE (n / 64) (word it.bits (n / 64)) (n % 64) hb
        rw [← hn] at hm
        refine ⟨?_, ⟨and_lt _ _ (hi.ws _), hi.vb, hi.ws, by intro h; simp only [] at h; omega, hi.kb⟩⟩
        unfold BIter.rem
        simp only [c3, hkb, ↓reduceIte]
        rw [between_split it.bits it.key (n / 64) it.keyBack c2' c3]
        simp only [List.filter_append]
        rw [hm]
        rw [filter_drop (bitsOf it.key it.value) n (by intro x hx; have := bitsOf_bounds _ _ _ hx; omega)]
        rw [filter_drop (between it.bits it.key (n / 64)) n (by intro x hx; have := between_bounds _ _ _ _ hx; omega)]
        rw [filter_keep (between it.bits (n / 64) it.keyBack) n (by intro x hx; have := between_bounds _ _ _ _ hx; omega)]
        rw [filter_keep (bitsOf it.keyBack it.valueBack) n (by intro x hx; have := bitsOf_bounds _ _ _ hx; omega)]
        simp
      · simp only [c3, ↓reduceIte]
        by_cases c4 : n / 64 = it.keyBack
        · -- the back word becomes the live front word
          simp only [c4, ↓reduceIte]
          have hkb : it.key < it.keyBack := by omega
          have hm := bitsOf_maskGE it.keyBack it.valueBack (n % 64) hb
          have hn' : 64 * it.keyBack + n % 64 = n := by omega
          rw [hn'] at hm
          refine ⟨?_, ⟨and_lt _ _ hi.vb, hi.vb, hi.ws, by intro _; left; rfl, hi.kb⟩⟩
          unfold BIter.rem
          simp only [hkb, Nat.lt_irrefl, ↓reduceIte]
          simp only [List.filter_append]
          rw [hm]
          rw [filter_drop (bitsOf it.key it.value) n (by intro x hx; have := bitsOf_bounds _ _ _ hx; omega)]
          rw [filter_drop (between it.bits it.key it.keyBack) n (by intro x hx; have := between_bounds _ _ _ _ hx; omega)]
          simp
        · -- past the back cursor, nothing remains
          simp only [c4, ↓reduceIte]
          refine ⟨?_, ⟨by simp, by simp, hi.ws, by intro _; left; rfl, hi.kb⟩⟩
          unfold BIter.rem
          simp only [Nat.lt_irrefl, ↓reduceIte, bitsOf_zero]
          symm
          split
          · simp only [List.filter_append]
            rw [filter_drop (bitsOf it.key it.value) n (by intro x hx; have := bitsOf_bounds _ _ _ hx; omega)]
            rw [filter_drop (between it.bits it.key it.keyBack) n (by intro x hx; have := between_bounds _ _ _ _ hx; omega)]
            rw [filter_drop (bitsOf it.keyBack it.valueBack) n (by intro x hx; have := bitsOf_bounds _ _ _ hx; omega)]
            simp
          · exact filter_drop _ n (by intro x hx; have := bitsOf_bounds _ _ _ hx; omega)

/-! ### `advanceBackTo` -/

theorem filterLE_keep (l : List Nat) (n : Nat) (h : ∀ x ∈ l, x ≤ n) :
    l.filter (fun x => decide (x ≤ n)) = l := by
  rw [List.filter_eq_self]; intro x hx; simp [h x hx]

theorem filterLE_drop (l : List Nat) (n : Nat) (h : ∀ x ∈ l, n < x) :
    l.filter (fun x => decide (x ≤ n)) = [] := by
  rw [List.filter_eq_nil_iff]; intro x hx; have := h x hx; simp; omega

theorem advanceBackTo_cursor (it : BIter) (hi : it.Inv) (n : Nat) :
    (it.advanceBackTo n).rem = it.rem.filter (fun x => decide (x ≤ n)) ∧ (it.advanceBackTo n).Inv := by
  have hb : n % 64 < 64 := Nat.mod_lt _ (by omega)
  have hkb := hi.kb
  unfold BIter.advanceBackTo wkey wbit
  simp only []
  by_cases c1 : n / 64 > it.keyBack
  · simp only [c1, ↓reduceIte]
    refine ⟨?_, hi⟩
    symm; apply filterLE_keep
    intro x hx
    unfold BIter.rem at hx
    split at hx
    · simp only [List.mem_append] at hx
      rcases hx with (hx | hx) | hx
      · have := bitsOf_bounds _ _ _ hx; omega
      · have := between_bounds _ _ _ _ hx; omega
      · have := bitsOf_bounds _ _ _ hx; omega
    · rename_i hk
      rcases hi.live (by omega) with h | h
      · have := bitsOf_bounds _ _ _ hx; omega
      · rw [h, bitsOf_zero] at hx; simp at hx
  · simp only [c1, ↓reduceIte]
    by_cases c2 : n / 64 = it.keyBack
    · simp only [c2, ↓reduceIte]
      by_cases c3 : it.keyBack ≤ it.key
      · -- live word is `value`
        simp only [c3, ↓reduceIte]
        have hnk : ¬ it.key < it.keyBack := by omega
        refine ⟨?_, ⟨and_lt _ _ hi.v, hi.vb, hi.ws, ?_, hi.kb⟩⟩
        · unfold BIter.rem
          simp only [hnk, ↓reduceIte]
          rcases hi.live c3 with h | h
          · have hm := bitsOf_maskLE it.key it.value (n % 64) hb
            have : 64 * it.key + n % 64 = n := by omega
            rw [this] at hm; exact hm
          · simp [h, bitsOf_zero]
        · intro h
          rcases hi.live h with h' | h'
          · left; exact h'
          · right; simp [h']
      · simp only [c3, ↓reduceIte]
        have hk : it.key < it.keyBack := by omega
        have hm := bitsOf_maskLE it.keyBack it.valueBack (n % 64) hb
        have : 64 * it.keyBack + n % 64 = n := by omega
        rw [this] at hm
        refine ⟨?_, ⟨hi.v, and_lt _ _ hi.vb, hi.ws, by intro h; simp only [] at h; omega, hi.kb⟩⟩
        unfold BIter.rem
        simp only [hk, ↓reduceIte, List.filter_append]
        rw [hm]
        rw [filterLE_keep (bitsOf it.key it.value) n (by intro x hx; have := bitsOf_bounds _ _ _ hx; omega)]
        rw [filterLE_keep (between it.bits it.key it.keyBack) n (by intro x hx; have := between_bounds _ _ _ _ hx; omega)]
    · simp only [c2, ↓reduceIte]
      have c2' : n / 64 < it.keyBack := by omega
      have hkb' : n / 64 ≤ 1023 := by omega
      by_cases c4 : n / 64 > it.key
      · -- a fresh word strictly between becomes the back word
        simp only [c4, ↓reduceIte]
        have hk : it.key < it.keyBack := by omega
        have hm := bitsOf_maskLE (n / 64) (word it.bits (n / 64)) (n % 64) hb
        have : 64 * (n / 64) + n % 64 = n := by omega
        rw [this] at hm
        refine ⟨?_, ⟨hi.v, and_lt _ _ (hi.ws _), hi.ws, by intro h; simp only [] at h; omega, hkb'⟩⟩
        unfold BIter.rem
        simp only [hk, c4, ↓reduceIte]
        rw [between_split it.bits it.key (n / 64) it.keyBack c4 c2']
        simp only [List.filter_append]
        rw [hm]
        rw [filterLE_keep (bitsOf it.key it.value) n (by intro x hx; have := bitsOf_bounds _ _ _ hx; omega)]
        rw [filterLE_keep (between it.bits it.key (n / 64)) n (by intro x hx; have := between_bounds _ _ _ _ hx; omega)]
        rw [filterLE_drop (between it.bits (n / 64) it.keyBack) n (by intro x hx; have := between_bounds _ _ _ _ hx; omega)]
        rw [filterLE_drop (bitsOf it.keyBack it.valueBack) n (by intro x hx; have := bitsOf_bounds _ _ _ hx; omega)]
        simp
      · simp only [c4, ↓reduceIte]
        by_cases c5 : n / 64 = it.key
        · simp only [c5, ↓reduceIte]
          have hk : it.key < it.keyBack := by omega
          have hm := bitsOf_maskLE it.key it.value (n % 64) hb
          have : 64 * it.key + n % 64 = n := by omega
          rw [this] at hm
          refine ⟨?_, ⟨and_lt _ _ hi.v, hi.vb, hi.ws, by intro _; left; rfl, by show it.key ≤ 1023; omega⟩⟩
          unfold BIter.rem
          simp only [hk, Nat.lt_irrefl, ↓reduceIte, List.filter_append]
          rw [hm]
          rw [filterLE_drop (between it.bits it.key it.keyBack) n (by intro x hx; have := between_bounds _ _ _ _ hx; omega)]
          rw [filterLE_drop (bitsOf it.keyBack it.valueBack) n (by intro x hx; have := bitsOf_bounds _ _ _ hx; omega)]
          simp
        · simp only [c5, ↓reduceIte]
          have c5' : n / 64 < it.key := by omega
          refine ⟨?_, ⟨by simp, hi.vb, hi.ws, by intro _; right; rfl, hkb'⟩⟩
          have hnk : ¬ it.key < n / 64 := by omega
          unfold BIter.rem
          simp only [hnk, ↓reduceIte, bitsOf_zero]
          symm
          split
          · simp only [List.filter_append]
            rw [filterLE_drop (bitsOf it.key it.value) n (by intro x hx; have := bitsOf_bounds _ _ _ hx; omega)]
            rw [filterLE_drop (between it.bits it.key it.keyBack) n (by intro x hx; have := between_bounds _ _ _ _ hx; omega)]
            rw [filterLE_drop (bitsOf it.keyBack it.valueBack) n (by intro x hx; have := bitsOf_bounds _ _ _ hx; omega)]
            simp
          · exact filterLE_drop _ n (by intro x hx; have := bitsOf_bounds _ _ _ hx; omega)

/-! ### `popSum` and `sizeHint` -/

theorem popSum_foldl (ws : List Nat) : ∀ a : Nat,
    ws.foldl (fun acc w => acc + popcount w) a = a + BStore.popSum ws := by
  unfold BStore.popSum
  induction ws with
  | nil => intro a; simp
  | cons w ws ih => intro a; simp only [List.foldl_cons]; rw [ih (a + popcount w), ih (0 + popcount w)]; omega

theorem popSum_nil : BStore.popSum [] = 0 := rfl

theorem popSum_cons (w : Nat) (ws : List Nat) : BStore.popSum (w :: ws) = popcount w + BStore.popSum ws := by
  have := popSum_foldl ws (0 + popcount w)
  unfold BStore.popSum at this ⊢
  simp only [List.foldl_cons]
  rw [this]; omega

theorem word_eq_getElem (bits : List Nat) (k : Nat) (h : k < bits.length) : word bits k = bits[k] := by
  simp [word, List.getD_eq_getElem?_getD, h]

theorem word_of_le (bits : List Nat) (k : Nat) (h : bits.length ≤ k) : word bits k = 0 := by
  simp [word, List.getD_eq_getElem?_getD, h]

/-- the values of `n` consecutive words from word `k` on are counted by `popSum` of that slice -/
theorem length_flatMap_range' (bits : List Nat) (hws : ∀ k, word bits k < 2^64) : ∀ (n k : Nat),
    ((List.range' k n).flatMap (fun j => bitsOf j (word bits j))).length
      = BStore.popSum ((bits.drop k).take n) := by
  intro n
  induction n with
  | zero => intro k; simp [popSum_nil]
  | succ n ih =>
    intro k
    rw [List.range'_succ, List.flatMap_cons, List.length_append, ih (k+1), length_bitsOf _ _ (hws k)]
    by_cases hk : k < bits.length
    · rw [List.drop_eq_getElem_cons hk, List.take_succ_cons, popSum_cons, word_eq_getElem bits k hk]
    · have h1 : bits.drop k = [] := List.drop_eq_nil_of_le (by omega)
      have h2 : bits.drop (k+1) = [] := List.drop_eq_nil_of_le (by omega)
      rw [h1, h2, word_of_le bits k (by omega)]
      simp [popSum_nil, popcount_zero]

theorem length_between (bits : List Nat) (hws : ∀ k, word bits k < 2^64) (k kb : Nat) :
    (between bits k kb).length = BStore.popSum ((bits.drop (k + 1)).take (kb - (k + 1))) := by
  unfold between
  have : kb - k - 1 = kb - (k + 1) := by omega
  rw [this]
  exact length_flatMap_range' bits hws _ _

theorem sizeHint_exact (it : BIter) (hi : it.Inv) : it.sizeHint = it.rem.length := by
  unfold BIter.sizeHint BIter.rem
  split
  · simp only [List.length_append, length_bitsOf _ _ hi.v, length_bitsOf _ _ hi.vb,
      length_between it.bits hi.ws]
  · exact (length_bitsOf _ _ hi.v).symm

/-! ### bounds and order of `rem` -/

theorem rem_lt (it : BIter) (hi : it.Inv) : ∀ x ∈ it.rem, x < 65536 := by
  intro x hx
  have hkb := hi.kb
  unfold BIter.rem at hx
  split at hx
  · simp only [List.mem_append] at hx
    rcases hx with (hx | hx) | hx
    · have := bitsOf_bounds _ _ _ hx; omega
    · have := between_bounds _ _ _ _ hx; omega
    · have := bitsOf_bounds _ _ _ hx; omega
  · rcases hi.live (by omega) with h | h
    · have := bitsOf_bounds _ _ _ hx; omega
    · rw [h, bitsOf_zero] at hx; simp at hx

theorem sorted_flatMap_range' (bits : List Nat) : ∀ (n k : Nat),
    ((List.range' k n).flatMap (fun j => bitsOf j (word bits j))).Pairwise (· < ·) := by
  intro n
  induction n with
  | zero => intro k; simp
  | succ n ih =>
    intro k
    rw [List.range'_succ, List.flatMap_cons, List.pairwise_append]
    refine ⟨sorted_bitsOf _ _, ih (k+1), ?_⟩
    intro a ha b hb
    rw [List.mem_flatMap] at hb
    obtain ⟨j, hj, hb⟩ := hb
    rw [List.mem_range'_1] at hj
    have := bitsOf_bounds _ _ _ ha
    have := bitsOf_bounds _ _ _ hb
    omega

theorem sorted_between (bits : List Nat) (k kb : Nat) : (between bits k kb).Pairwise (· < ·) :=
  sorted_flatMap_range' bits _ _

set_option linter.unusedVariables false in
theorem rem_sorted (it : BIter) (hi : it.Inv) : it.rem.Pairwise (· < ·) := by
  unfold BIter.rem
  split
  · rename_i hk
    rw [List.pairwise_append, List.pairwise_append]
    refine ⟨⟨sorted_bitsOf _ _, sorted_between _ _ _, ?_⟩, sorted_bitsOf _ _, ?_⟩
    · intro a ha b hb
      have := bitsOf_bounds _ _ _ ha
      have := between_bounds _ _ _ _ hb
      omega
    · intro a ha b hb
      have := bitsOf_bounds _ _ _ hb
      rcases List.mem_append.mp ha with ha | ha
      · have := bitsOf_bounds _ _ _ ha; omega
      · have := between_bounds _ _ _ _ ha; omega
  · exact sorted_bitsOf _ _

/-! ### `new` and `to_array_store` -/

theorem word_lt_of_forall (bits : List Nat) (hw : ∀ w ∈ bits, w < 2^64) (k : Nat) :
    word bits k < 2^64 := by
  by_cases hk : k < bits.length
  · rw [word_eq_getElem bits k hk]; exact hw _ (List.getElem_mem hk)
  · rw [word_of_le bits k (by omega)]; exact Nat.two_pow_pos 64

theorem new_inv (bits : List Nat) (hw : ∀ w ∈ bits, w < 2^64) : (BIter.new bits).Inv := by
  unfold BIter.new
  refine ⟨word_lt_of_forall bits hw 0, word_lt_of_forall bits hw 1023, word_lt_of_forall bits hw, ?_, ?_⟩
  · intro h; simp only [] at h; omega
  · exact Nat.le_refl _

/-- `to_array_store`'s loop over the words from `k` on yields the values of those words in order -/
theorem toArrayFrom_drop (bits : List Nat) (hw : ∀ w ∈ bits, w < 2^64) : ∀ (n k : Nat),
    k + n = bits.length →
    BStore.toArrayFrom k (bits.drop k) = (List.range' k n).flatMap (fun j => bitsOf j (word bits j)) := by
  intro n
  induction n with
  | zero =>
    intro k hk
    rw [List.drop_eq_nil_of_le (by omega)]
    simp [BStore.toArrayFrom]
  | succ n ih =>
    intro k hk
    have hk' : k < bits.length := by omega
    rw [List.drop_eq_getElem_cons hk', BStore.toArrayFrom, ih (k+1) (by omega), List.range'_succ,
      List.flatMap_cons, word_eq_getElem bits k hk',
      drainWord_eq_bitsOf k _ (hw _ (List.getElem_mem hk'))]

theorem new_rem (bits : List Nat) (hl : bits.length = 1024) (hw : ∀ w ∈ bits, w < 2^64) :
    (BIter.new bits).rem = BStore.toArrayFrom 0 bits := by
  have h := toArrayFrom_drop bits hw 1024 0 (by omega)
  rw [List.drop_zero] at h
  rw [h]
  have e : List.range' 0 1024 = 0 :: (List.range' 1 1022 ++ [1023]) := by
    have e1 : List.range' 0 1024 = 0 :: List.range' 1 1023 := List.range'_succ ..
    have e2 : List.range' 1 1023 = List.range' 1 1022 ++ [1 + 1022] := List.range'_1_concat ..
    rw [e1, e2]
  rw [e]
  unfold BIter.new BIter.rem between
  simp [List.flatMap_append]

theorem length_toArrayFrom (k : Nat) (ws : List Nat) (hw : ∀ w ∈ ws, w < 2^64) :
    (BStore.toArrayFrom k ws).length = BStore.popSum ws := by
  induction ws generalizing k with
  | nil => simp [BStore.toArrayFrom, popSum_nil]
  | cons w ws ih =>
    rw [BStore.toArrayFrom, List.length_append, popSum_cons,
      drainWord_eq_bitsOf k w (hw w (by simp)), length_bitsOf k w (hw w (by simp)),
      ih (k+1) (fun x hx => hw x (by simp [hx]))]

end BIter
end Roaring

#print axioms Roaring.BIter.next_cursor
#print axioms Roaring.BIter.nextBack_cursor
#print axioms Roaring.BIter.advanceTo_cursor
#print axioms Roaring.BIter.advanceBackTo_cursor
#print axioms Roaring.BIter.sizeHint_exact
#print axioms Roaring.BIter.rem_lt
#print axioms Roaring.BIter.rem_sorted
#print axioms Roaring.BIter.new_inv
#print axioms Roaring.BIter.new_rem
#print axioms Roaring.BIter.length_toArrayFrom
