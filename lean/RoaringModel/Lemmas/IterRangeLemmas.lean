import RoaringModel.Lemmas.IterBackLemmas
import RoaringModel.Lemmas.IterFoldLemmas
import RoaringModel.Lemmas.RangeLemmas
/-!
# C03: `range()` / `into_range()` (iter.rs:594, 651)
-/
namespace Roaring
namespace Iter
open Spec

/-- `range(r)` panics exactly on the documented inputs and otherwise is a cursor over the elements inside `r` -/
theorem range_spec (K : CKernel) (b : Bitmap) (hb : b.IterOK) (hU : ∀ x ∈ Bitmap.elems b, x ≤ u32Max)
    (lo hi : Bound)
    (hlo : ∀ v, lo = .incl v ∨ lo = .excl v → v ≤ u32Max) (hhi : ∀ v, hi = .incl v ∨ hi = .excl v → v ≤ u32Max) :
    match Bitmap.range b lo hi, Spec.range (Bitmap.elems b) lo hi with
    | none, none => True
    | some it, some c => it.Inv ∧ it.rem = c
    | _, _ => False := by
  have hc := convertRange_spec u32Max lo hi hlo hhi
  obtain ⟨i0, r0⟩ := iter_spec b hb
  unfold Bitmap.range Spec.range
  cases hcr : convertRange u32Max lo hi with
  | error e =>
    rw [hcr] at hc
    cases e with
    | empty =>
      simp only [] at hc ⊢
      simp only [hc.1, Bool.false_eq_true, ↓reduceIte]
      refine ⟨empty_spec.1, ?_⟩
      rw [empty_spec.2]
      symm
      rw [List.filter_eq_nil_iff]
      intro x hx
      have := hc.2 x (hU x hx)
      simp [this]
    | startGreaterThanEnd =>
      simp only [] at hc ⊢
      simp [hc]
    | startAndEndEqualExcluded =>
      simp only [] at hc ⊢
      simp [hc]
  | ok p =>
    obtain ⟨s, e⟩ := p
    rw [hcr] at hc
    simp only [] at hc ⊢
    obtain ⟨h0, hse, heM, hmem, _, _⟩ := hc
    simp only [h0, Bool.false_eq_true, ↓reduceIte]
    -- after the optional `advance_to(start)`
    have h1 : (if s ≠ 0 then (Bitmap.iter b).advanceTo s else Bitmap.iter b).Inv ∧
        (if s ≠ 0 then (Bitmap.iter b).advanceTo s else Bitmap.iter b).rem =
          (Bitmap.elems b).filter (fun x => decide (s ≤ x)) := by
      by_cases hs : s = 0
      · subst hs
        simp only [ne_eq, not_true_eq_false, ↓reduceIte]
        refine ⟨i0, ?_⟩
        rw [r0]; symm; rw [List.filter_eq_self]; intro x _; simp
      · simp only [ne_eq, hs, not_false_eq_true, ↓reduceIte]
        have := advanceTo_spec K (Bitmap.iter b) i0 s
        exact ⟨this.2, by rw [this.1, r0]⟩
    generalize (if s ≠ 0 then (Bitmap.iter b).advanceTo s else Bitmap.iter b) = it1 at h1
    have h2 : (if e ≠ u32Max then it1.advanceBackTo e else it1).Inv ∧
        (if e ≠ u32Max then it1.advanceBackTo e else it1).rem = it1.rem.filter (fun x => decide (x ≤ e)) := by
      by_cases he : e = u32Max
      · subst he
        simp only [ne_eq, not_true_eq_false, ↓reduceIte]
        refine ⟨h1.1, ?_⟩
        symm; rw [List.filter_eq_self]; intro x hx
        rw [h1.2] at hx
        simp [hU x (List.mem_filter.mp hx).1]
      · simp only [ne_eq, he, not_false_eq_true, ↓reduceIte]
        have := advanceBackTo_spec K it1 h1.1 e
        exact ⟨this.2, this.1⟩
    refine ⟨h2.1, ?_⟩
    rw [h2.2, h1.2, List.filter_filter]
    apply List.filter_congr
    intro x hx
    have := hmem x (hU x hx)
    by_cases hm : Bound.mem lo hi x
    · have := this.mp hm; simp [hm, this.1, this.2]
    · have hn : ¬ (s ≤ x ∧ x ≤ e) := fun h => hm (this.mpr h)
      simp only [hm, decide_false, Bool.and_eq_false_iff, decide_eq_false_iff_not]
      by_cases h3 : x ≤ e
      · right; intro h4; exact hn ⟨h4, h3⟩
      · left; exact h3

end Iter
end Roaring
