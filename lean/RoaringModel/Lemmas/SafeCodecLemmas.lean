import RoaringModel.SafeCodec
import RoaringModel.Lemmas.SafeLemmas
import RoaringModel.Lemmas.CodecKernel
import RoaringModel.Lemmas.MiscLsb0Aligned
import RoaringModel.Lemmas.RoundTrip
import RoaringModel.Lemmas.IOLemmas
/-!
# The `Safe_*` side conditions of the codec area hold (C16)

For every predicate of `RoaringModel/SafeCodec.lean` a theorem `safe_…`.  The decoders are handled for EVERY reader
that satisfies the `read_exact` contract `ReaderOK` ("a successful `read_exact(n)` returns `n` bytes") — the in-memory
slice reader `readN` and the `Cursor` of `SerOps.lean` are instances — and for every reader state, i.e. for arbitrary
input bytes.
-/
namespace Roaring
open Parser

/-! ## readers -/

/-- the `read_exact` contract: from a good state, a successful `read_exact(n)` yields exactly `n` bytes (each `< 256`)
    and a good state -/
def ReaderOK {σ : Type} (Good : σ → Prop) (R : Nat → Parser σ (List Nat)) : Prop :=
  ∀ n s bytes s', Good s → R n s = .ok (bytes, s') → bytes.length = n ∧ IsBytes bytes ∧ Good s'

theorem readerOK_readN : ReaderOK IsBytes readN := by
  intro n s bytes s' hs he
  obtain ⟨⟨h1, h2⟩, h3⟩ := post_readN n s bytes s' hs he
  exact ⟨h1, h2, h3⟩

theorem readerOK_cursor : ReaderOK (fun c : Cursor => IsBytes c.data) Cursor.readExact := by
  intro n c bytes c' hc he
  unfold Cursor.readExact at he
  split at he
  · next h0 =>
    simp only [Except.ok.injEq, Prod.mk.injEq] at he
    obtain ⟨rfl, rfl⟩ := he
    exact ⟨by simp [h0], by intro x hx; simp at hx, hc⟩
  · split at he
    · next h1 =>
      simp only [Except.ok.injEq, Prod.mk.injEq] at he
      obtain ⟨rfl, rfl⟩ := he
      refine ⟨by simp; omega, ?_, hc⟩
      intro x hx
      exact hc x (List.mem_of_mem_drop (List.mem_of_mem_take hx))
    · simp at he

/-- the scheduled reader of `IO.lean` (arbitrary chunking and `Interrupted` results of the underlying `read`) -/
theorem readerOK_sched : ReaderOK (fun r : SReader => IsBytes r.data) SReader.readExact := by
  intro n r bytes r' hr he
  have h := readExactS_eq r.sched r.data n
  unfold SReader.readExact at he
  rw [he] at h
  simp only [Except.map] at h
  obtain ⟨h1, h2, h3⟩ := readerOK_readN n r.data bytes r'.data hr h.symm
  exact ⟨h1, h2, h3⟩

/-- `PostG Good P p`: from a good state, whenever `p` succeeds its value satisfies `P` and the state is good again -/
def PostG {σ α : Type} (Good : σ → Prop) (P : α → Prop) (p : Parser σ α) : Prop :=
  ∀ s a s', Good s → p s = .ok (a, s') → P a ∧ Good s'

section postg
variable {σ : Type} {Good : σ → Prop}

theorem postG_pure {α : Type} {P : α → Prop} (a : α) (h : P a) : PostG Good P (pure a : Parser σ α) := by
  intro s a' s' hs he
  simp only [pure, Parser.pure, Except.ok.injEq, Prod.mk.injEq] at he
  obtain ⟨rfl, rfl⟩ := he
  exact ⟨h, hs⟩

theorem postG_fail {α : Type} {P : α → Prop} (e : DecErr) : PostG Good P (fail e : Parser σ α) := by
  intro s a s' _ he; simp [fail] at he

theorem postG_bind {α β : Type} {P : α → Prop} {Q : β → Prop} (p : Parser σ α) (f : α → Parser σ β)
    (hp : PostG Good P p) (hf : ∀ a, P a → PostG Good Q (f a)) : PostG Good Q (p >>= f) := by
  intro s b s' hs he
  simp only [bind, Parser.bind] at he
  split at he
  · rename_i a r1 hpa
    obtain ⟨hPa, hr1⟩ := hp s a r1 hs hpa
    exact hf a hPa r1 b s' hr1 he
  · simp at he

theorem postG_read {R : Nat → Parser σ (List Nat)} (hR : ReaderOK Good R) (n : Nat) :
    PostG Good (fun bytes => bytes.length = n ∧ IsBytes bytes) (R n) := by
  intro s a s' hs he
  obtain ⟨h1, h2, h3⟩ := hR n s a s' hs he
  exact ⟨⟨h1, h2⟩, h3⟩

theorem postG_weaken {α : Type} {P Q : α → Prop} (p : Parser σ α) (hp : PostG Good P p) (h : ∀ a, P a → Q a) :
    PostG Good Q p := by
  intro s a s' hs he
  obtain ⟨h1, h2⟩ := hp s a s' hs he
  exact ⟨h a h1, h2⟩

theorem postG_ofOption {α : Type} {P : α → Prop} (e : DecErr) (x : Option α) (h : ∀ a, x = some a → P a) :
    PostG Good P (ofOption e x : Parser σ α) := by
  cases x with
  | some a => exact postG_pure a (h a rfl)
  | none => exact postG_fail e

theorem postG_ofExcept {α : Type} {P : α → Prop} (x : Except DecErr α) (h : ∀ a, x = .ok a → P a) :
    PostG Good P (ofExcept x : Parser σ α) := by
  cases x with
  | ok a => exact postG_pure a (h a rfl)
  | error e => exact postG_fail e

end postg

/-! ## little-endian values -/

theorem leVal_lt_of_length (n : Nat) (bs : List Nat) (hl : bs.length = n) (hb : IsBytes bs) : leVal bs < 256 ^ n := by
  have := leVal_lt bs hb
  rw [hl] at this
  exact this

theorem pairs_length : ∀ (l : List Nat), (pairs l).length = l.length / 2
  | [] => rfl
  | [_] => by simp [pairs]
  | a :: b :: l => by
    simp only [pairs, List.length_cons, pairs_length l]
    omega

theorem pairs_lt (B : Nat) (l : List Nat) (h : ∀ x ∈ l, x < B) : ∀ p ∈ pairs l, p.1 < B ∧ p.2 < B := by
  intro p hp
  have := mem_pairs l p hp
  exact ⟨h _ this.1, h _ this.2⟩

/-- the `(key, value)` pairs made of `cnt * 4` bytes: `cnt` pairs of `u16`s -/
theorem pairs_leWords2 (cnt : Nat) (bs : List Nat) (hl : bs.length = cnt * 4) (hb : IsBytes bs) :
    (pairs (leWords 2 bs)).length = cnt ∧ ∀ p ∈ pairs (leWords 2 bs), p.1 < 65536 ∧ p.2 < 65536 := by
  refine ⟨?_, ?_⟩
  · rw [pairs_length, leWords_length, hl]; omega
  · have := leWords_lt 2 bs hb
    exact pairs_lt 65536 _ (fun x hx => by simpa using this x hx)

theorem foldl_add_le_mul (B : Nat) : ∀ (l : List Nat) (acc : Nat), (∀ x ∈ l, x ≤ B) →
    l.foldl (· + ·) acc ≤ acc + B * l.length
  | [], acc, _ => by simp
  | x :: l, acc, h => by
    have hx := h x (by simp)
    rw [List.foldl_cons]
    refine Nat.le_trans (foldl_add_le_mul B l _ (fun y hy => h y (by simp [hy]))) ?_
    simp only [List.length_cons, Nat.mul_add]
    omega

/-! ## the auxiliary `cookieSize` agrees with the model's `decodeHeader` -/

theorem bind_inv {σ α β : Type} {p : Parser σ α} {f : α → Parser σ β} {s s' : σ} {b : β}
    (h : (p >>= f) s = .ok (b, s')) : ∃ a s1, p s = .ok (a, s1) ∧ f a s1 = .ok (b, s') := by
  simp only [bind, Parser.bind] at h
  split at h
  · next a s1 hp => exact ⟨a, s1, hp, h⟩
  · simp at h

theorem pure_inv {σ α : Type} {a b : α} {s s' : σ} (h : (pure a : Parser σ α) s = .ok (b, s')) : b = a ∧ s' = s := by
  simp only [pure, Parser.pure, Except.ok.injEq, Prod.mk.injEq] at h
  exact ⟨h.1.symm, h.2.symm⟩

/-- the auxiliary `cookieSize` recomputes the first two steps of the model's `decodeHeader`: whenever the header is
    parsed, `cookieSize` succeeds with the header's `size`, and its run flag says whether a run bitmap was read -/
theorem decodeHeader_cookieSize {σ : Type} (R : Nat → Parser σ (List Nat)) (s s' : σ) (h : Header)
    (he : decodeHeader R s = .ok (h, s')) :
    ∃ cookie hasRun s1, cookieSize R s = .ok ((cookie, h.size, hasRun), s1) ∧ hasRun = h.runBitmap.isSome := by
  unfold decodeHeader at he
  obtain ⟨cb, s1, h1, he⟩ := bind_inv he
  obtain ⟨⟨size, ho, hr⟩, s2, h2, he⟩ := bind_inv he
  obtain ⟨rb, s3, h3, he⟩ := bind_inv he
  -- the header fields
  have hh : h.size = size ∧ h.runBitmap = rb := by
    split at he
    · simp [fail] at he
    · obtain ⟨db, s4, _, he⟩ := bind_inv he
      obtain ⟨ob, s5, _, he⟩ := bind_inv he
      obtain ⟨rfl, _⟩ := pure_inv he
      exact ⟨rfl, rfl⟩
  have hrb : hr = rb.isSome := by
    split at h3
    · next hr1 =>
      obtain ⟨bm, s4, _, h3⟩ := bind_inv h3
      obtain ⟨rfl, _⟩ := pure_inv h3
      simp [hr1]
    · next hr0 =>
      obtain ⟨rfl, _⟩ := pure_inv h3
      simpa using hr0
  rw [hh.1, hh.2]
  unfold cookieSize
  rw [h1]
  dsimp only
  split at h2
  · next hc =>
    rw [if_pos hc]
    obtain ⟨sb, s4, h4, h2⟩ := bind_inv h2
    obtain ⟨h2, rfl⟩ := pure_inv h2
    cases h2
    rw [h4]
    exact ⟨_, _, _, rfl, hrb⟩
  · next hc =>
    rw [if_neg hc]
    split at h2
    · next hc2 =>
      rw [if_pos hc2]
      obtain ⟨h2, rfl⟩ := pure_inv h2
      cases h2
      exact ⟨_, _, _, rfl, hrb⟩
    · simp [fail] at h2

/-! ## `deserialize_from_impl` -/

section decoder
variable {σ : Type} {Good : σ → Prop} {R : Nat → Parser σ (List Nat)}

theorem safe_decodeHeader (hR : ReaderOK Good R) (s : σ) (hs : Good s) : Safe_decodeHeader R s := by
  unfold Safe_decodeHeader
  split
  · trivial
  · next cookie size hasRun s' hc =>
    unfold cookieSize at hc
    split at hc
    · simp at hc
    · next cb s1 h1 =>
      obtain ⟨l1, b1, g1⟩ := hR 4 s cb s1 hs h1
      have hcb : leVal cb < 4294967296 := leVal_lt_of_length 4 cb l1 b1
      simp only [] at hc
      split at hc
      · split at hc
        · simp at hc
        · next sb s2 h2 =>
          obtain ⟨l2, b2, _⟩ := hR 4 s1 sb s2 g1 h2
          have hsb : leVal sb < 4294967296 := leVal_lt_of_length 4 sb l2 b2
          simp only [Except.ok.injEq, Prod.mk.injEq] at hc
          obtain ⟨⟨rfl, rfl, rfl⟩, _⟩ := hc
          refine ⟨hcb, hsb, by simp, ?_⟩
          intro hle
          show _ < 4294967296
          omega
      · split at hc
        · simp only [Except.ok.injEq, Prod.mk.injEq] at hc
          obtain ⟨⟨rfl, rfl, rfl⟩, _⟩ := hc
          have hq : leVal cb / 65536 < 65536 := by omega
          refine ⟨hcb, ?_, fun _ => ⟨by decide, ?_, ?_⟩, fun _ => ?_⟩ <;> (show _ < 4294967296) <;> omega
        · simp at hc

/-- what a successfully parsed header looks like -/
def HeaderOK (h : Header) : Prop :=
  h.size ≤ 65536 ∧ h.descr.length = h.size
  ∧ (∀ d ∈ h.descr, d.1 < 65536 ∧ d.2 < 65536)
  ∧ (∀ bm, h.runBitmap = some bm → bm.length = (h.size + 7) / 8)
  ∧ (h.hasOffsets = true → h.offsets.length = h.size)
  ∧ (∀ o ∈ h.offsets, o < 4294967296)

theorem postG_decodeHeader (hR : ReaderOK Good R) : PostG Good HeaderOK (decodeHeader R) := by
  unfold decodeHeader
  apply postG_bind (P := fun _ => True) _ _ (postG_weaken _ (postG_read hR _) (fun _ _ => trivial)); intro cb _
  apply postG_bind (P := fun _ => True)
  · split
    · apply postG_bind (P := fun _ => True) _ _ (postG_weaken _ (postG_read hR _) (fun _ _ => trivial)); intro sb _
      exact postG_pure _ trivial
    · split
      · exact postG_pure _ trivial
      · exact postG_fail _
  · rintro ⟨size, hasOffsets, hasRun⟩ _
    apply postG_bind (P := fun rb : Option (List Nat) => ∀ bm, rb = some bm → bm.length = (size + 7) / 8)
    · split
      · apply postG_bind _ _ (postG_read hR _); intro bm ⟨hl, _⟩
        apply postG_pure
        intro bm' h
        simp only [Option.some.injEq] at h
        subst h
        exact hl
      · apply postG_pure
        intro bm h
        simp at h
    · intro runBitmap hrb
      split
      · exact postG_fail _
      · next hsz =>
        apply postG_bind _ _ (postG_read hR _); intro db ⟨hdl, hdb⟩
        apply postG_bind (P := fun ob : List Nat => (hasOffsets = true → ob.length = size * 4) ∧ IsBytes ob)
        · split
          · next ho => exact postG_weaken _ (postG_read hR _) (fun ob h => ⟨fun _ => h.1, h.2⟩)
          · next ho =>
            apply postG_pure
            exact ⟨fun h => absurd h ho, by intro x hx; simp at hx⟩
        · intro ob ⟨hol, hob⟩
          apply postG_pure
          obtain ⟨p1, p2⟩ := pairs_leWords2 size db hdl hdb
          refine ⟨by show size ≤ 65536; omega, p1, p2, hrb, ?_, ?_⟩
          · intro ho
            show (leWords 4 ob).length = size
            rw [leWords_length, hol ho]; omega
          · intro o ho
            have := leWords_lt 4 ob hob o ho
            simpa using this

theorem safe_replayRuns : ∀ (rs : List (Nat × Nat)) (st : Store), st.Inv → (∀ p ∈ rs, p.1 < 65536 ∧ p.2 < 65536) →
    Safe_replayRuns st rs
  | [], _, _, _ => trivial
  | (s, len) :: rs, st, hst, h => by
    have hp := h (s, len) (by simp)
    unfold Safe_replayRuns
    refine ⟨hp.1, hp.2, ?_⟩
    intro hle
    have he : s + len < 65536 := by omega
    exact ⟨Nat.le_add_right _ _, Store.safe_insertRange st hst s (s + len) (Nat.le_add_right _ _) he,
      safe_replayRuns rs _ (Store.insertRange_spec st hst s (s + len) (Nat.le_add_right _ _) he).1
        (fun p hp => h p (by simp [hp]))⟩

theorem safe_decodeRunStore (hR : ReaderOK Good R) (s : σ) (hs : Good s) : Safe_decodeRunStore R s := by
  unfold Safe_decodeRunStore
  split
  · trivial
  · next rb s1 h1 =>
    obtain ⟨l1, b1, g1⟩ := hR 2 s rb s1 hs h1
    have hruns : leVal rb < 65536 := leVal_lt_of_length 2 rb l1 b1
    simp only []
    refine ⟨hruns, by show _ < 4294967296; omega, ?_⟩
    split
    · trivial
    · next ib s2 h2 =>
      obtain ⟨l2, b2, _⟩ := hR _ s1 ib s2 g1 h2
      obtain ⟨p1, p2⟩ := pairs_leWords2 (leVal rb) ib l2 b2
      refine ⟨?_, safe_replayRuns _ _ (withCapacity_inv _) p2⟩
      have := foldl_add_le_mul 65535 ((pairs (leWords 2 ib)).map (·.2)) 0 (by
        intro x hx
        obtain ⟨p, hp, rfl⟩ := List.mem_map.mp hx
        have := (p2 p hp).2
        omega)
      rw [List.length_map, p1] at this
      have h3 : 65535 * leVal rb ≤ 65535 * 65535 := Nat.mul_le_mul_left _ (by omega)
      show _ < 4294967296
      omega

/-- the store of a run chunk satisfies the structural invariant -/
theorem postG_decodeRunStore (hR : ReaderOK Good R) : PostG Good Store.Inv (decodeRunStore R) := by
  unfold decodeRunStore
  apply postG_bind _ _ (postG_read hR _); intro rb ⟨hl1, hb1⟩
  apply postG_bind _ _ (postG_read hR _); intro ib ⟨hl2, hb2⟩
  apply postG_ofExcept
  intro st hst
  exact (replayRuns_spec _ _ st (withCapacity_inv _) hst).1

theorem safe_decodeBitmapStore (hR : ReaderOK Good R) (validate : Bool) (s : σ) (hs : Good s) :
    Safe_decodeBitmapStore R validate s := by
  unfold Safe_decodeBitmapStore
  split
  · trivial
  · next wb s1 h1 =>
    obtain ⟨l1, b1, _⟩ := hR 8192 s wb s1 hs h1
    have hl : (leWords 8 wb).length = 1024 := by rw [leWords_length, l1]
    refine ⟨hl, fun _ => ?_⟩
    have := BStore.popSum_le (leWords 8 wb) hl (fun w hw => by
      have := leWords_lt 8 wb b1 w hw
      simpa using this)
    show _ < 18446744073709551616
    omega

theorem safe_decodeStore (hR : ReaderOK Good R) (chk dbg : Bool) (card : Nat) (hcard : card ≤ 65536) (isRun : Bool)
    (s : σ) (hs : Good s) : Safe_decodeStore R chk dbg card isRun s := by
  unfold Safe_decodeStore
  split
  · refine ⟨safe_decodeRunStore hR s hs, ?_⟩
    split
    · next st s' he =>
      exact Container.safe_ensureCorrectStore _ (postG_decodeRunStore hR s st s' hs he).1
    · trivial
  · split
    · next hle =>
      unfold ARRAY_LIMIT at hle
      exact ⟨by show _ < 4294967296; omega, by show _ < 4294967296; omega⟩
    · exact safe_decodeBitmapStore hR _ s hs

/-- any successful `decodeStore` leaves the reader in a good state -/
theorem postG_decodeStore (hR : ReaderOK Good R) (chk dbg : Bool) (card : Nat) (isRun : Bool) :
    PostG Good (fun _ => True) (decodeStore R chk dbg card isRun) := by
  unfold decodeStore
  split
  · apply postG_bind _ _ (postG_decodeRunStore hR); intro st _
    exact postG_pure _ trivial
  · split
    · unfold decodeArrayStore
      apply postG_bind _ _ (postG_read hR _); intro vb _
      dsimp only
      split
      · split
        · exact postG_pure _ trivial
        · exact postG_fail _
      · exact postG_ofOption _ _ (fun _ _ => trivial)
    · unfold decodeBitmapStore
      apply postG_bind _ _ (postG_read hR _); intro wb _
      dsimp only
      split
      · exact postG_ofOption _ _ (fun _ _ => trivial)
      · exact postG_ofOption _ _ (fun _ _ => trivial)

theorem safe_descr (rb : Option (List Nat)) (i cardM1 : Nat) (hc : cardM1 < 65536)
    (hrb : ∀ bm, rb = some bm → i < 8 * bm.length) : Safe_descr rb i cardM1 := by
  unfold Safe_descr
  refine ⟨hc, by show _ < 18446744073709551616; omega, ?_⟩
  split
  · next bm =>
    have := hrb bm rfl
    exact ⟨by omega, Nat.mod_lt _ (by decide)⟩
  · trivial

theorem safe_decodeContainers (hR : ReaderOK Good R) (chk dbg : Bool) (rb : Option (List Nat)) :
    ∀ (ds : List (Nat × Nat)) (i : Nat) (s : σ), Good s → (∀ d ∈ ds, d.2 < 65536) →
      (∀ bm, rb = some bm → i + ds.length ≤ 8 * bm.length) → Safe_decodeContainers R chk dbg rb ds i s
  | [], _, _, _, _, _ => trivial
  | (key, cardM1) :: ds, i, s, hs, hd, hrb => by
    have hc : cardM1 < 65536 := hd (key, cardM1) (by simp)
    unfold Safe_decodeContainers
    refine ⟨safe_descr rb i cardM1 hc (fun bm h => by have := hrb bm h; simp only [List.length_cons] at this; omega),
      safe_decodeStore hR chk dbg _ (by omega) _ s hs, ?_⟩
    split
    · next st s' he =>
      refine safe_decodeContainers hR chk dbg rb ds (i + 1) s'
        (postG_decodeStore hR chk dbg _ _ s st s' hs he).2 (fun d hd' => hd d (by simp [hd'])) ?_
      intro bm h
      have := hrb bm h
      simp only [List.length_cons] at this
      omega
    · trivial

/-- **`deserialize_from_impl` has no arithmetic panic on any input**, over any reader that honours `read_exact` -/
theorem safe_deserialize (hR : ReaderOK Good R) (chk dbg : Bool) (s : σ) (hs : Good s) :
    Safe_deserialize R chk dbg s := by
  unfold Safe_deserialize
  refine ⟨safe_decodeHeader hR s hs, ?_⟩
  split
  · trivial
  · next h s' he =>
    obtain ⟨⟨h1, h2, h3, h4, _, _⟩, hs'⟩ := postG_decodeHeader hR s h s' hs he
    refine ⟨h2, h1, safe_decodeContainers hR chk dbg _ _ 0 s' hs' (fun d hd => (h3 d hd).2) ?_⟩
    intro bm hbm
    rw [h2, h4 bm hbm]
    omega

end decoder

/-! ## `intersection_with_serialized_unchecked` -/

/-- the cursor reads `bytes` and is at most `M` past their end -/
def CurOK (bytes : List Nat) (M : Nat) (c : Cursor) : Prop := c.data = bytes ∧ c.pos ≤ bytes.length + M

theorem readerOK_curOK (bytes : List Nat) (hb : IsBytes bytes) (M : Nat) :
    ReaderOK (CurOK bytes M) Cursor.readExact := by
  intro n c out c' hc he
  obtain ⟨h1, h2, _⟩ := readerOK_cursor n c out c' (by show IsBytes c.data; rw [hc.1]; exact hb) he
  refine ⟨h1, h2, ?_⟩
  unfold Cursor.readExact at he
  split at he
  · simp only [Except.ok.injEq, Prod.mk.injEq] at he
    obtain ⟨_, rfl⟩ := he
    exact hc
  · split at he
    · next hle =>
      simp only [Except.ok.injEq, Prod.mk.injEq] at he
      obtain ⟨_, rfl⟩ := he
      refine ⟨hc.1, ?_⟩
      show c.pos + n ≤ bytes.length + M
      rw [hc.1] at hle
      omega
    · simp at he

section inter
variable {bytes : List Nat}

theorem safe_interReadStore (hb : IsBytes bytes) (M : Nat) (dbg : Bool) (card : Nat) (hcard : card ≤ 65536)
    (isRun : Bool) (c : Cursor) (hc : CurOK bytes M c) : Safe_interReadStore dbg card isRun c := by
  have hR := readerOK_curOK bytes hb M
  unfold Safe_interReadStore
  split
  · exact safe_decodeRunStore hR c hc
  · split
    · next hle =>
      unfold ARRAY_LIMIT at hle
      exact ⟨by show _ < 4294967296; omega, by show _ < 4294967296; omega⟩
    · exact safe_decodeBitmapStore hR _ c hc

theorem postG_interReadStore (hb : IsBytes bytes) (M : Nat) (dbg : Bool) (card : Nat) (isRun : Bool) :
    PostG (CurOK bytes M) (fun _ => True) (interReadStore dbg card isRun) := by
  have hR := readerOK_curOK bytes hb M
  unfold interReadStore
  split
  · exact postG_weaken _ (postG_decodeRunStore hR) (fun _ _ => trivial)
  · split
    · unfold decodeArrayStore
      apply postG_bind _ _ (postG_read hR _); intro vb _
      dsimp only
      exact postG_ofOption _ _ (fun _ _ => trivial)
    · unfold decodeBitmapStore
      apply postG_bind _ _ (postG_read hR _); intro wb _
      dsimp only
      exact postG_ofOption _ _ (fun _ _ => trivial)

theorem safe_seekCur (c : Cursor) (n M : Nat) (hc : CurOK bytes M c) (hn : n ≤ 262140)
    (hM : bytes.length + M + 262140 < 18446744073709551616) : Safe_seekCur c n := by
  have := hc.2
  refine ⟨?_, ⟨?_, ?_⟩, ?_⟩
  · show _ < 18446744073709551616; omega
  · omega
  · omega
  · show _ < 18446744073709551616; omega

theorem safe_interSequential (hb : IsBytes bytes) (dbg : Bool) (a : Bitmap) (rb : Option (List Nat)) :
    ∀ (ds : List (Nat × Nat)) (i : Nat) (c : Cursor) (M : Nat), CurOK bytes M c → (∀ d ∈ ds, d.2 < 65536) →
      (∀ bm, rb = some bm → i + ds.length ≤ 8 * bm.length) →
      bytes.length + M + 262140 * ds.length < 18446744073709551616 →
      Safe_interSequential dbg a rb ds i c
  | [], _, _, _, _, _, _, _ => trivial
  | (key, cardM1) :: ds, i, c, M, hc, hd, hrb, hM => by
    have hcm : cardM1 < 65536 := hd (key, cardM1) (by simp)
    have hd' : ∀ d ∈ ds, d.2 < 65536 := fun d h => hd d (by simp [h])
    have hrb' : ∀ bm, rb = some bm → i + 1 + ds.length ≤ 8 * bm.length := by
      intro bm h
      have := hrb bm h
      simp only [List.length_cons] at this
      omega
    -- (`omega` loops on a large literal nested as `x + (y + 262140)`: flatten the sum first)
    simp only [List.length_cons, Nat.mul_add, Nat.mul_one, ← Nat.add_assoc] at hM
    have hM1 : bytes.length + M + 262140 < 18446744073709551616 := by
      generalize 262140 * ds.length = K at hM
      omega
    unfold Safe_interSequential
    simp only []
    refine ⟨safe_descr rb i cardM1 hcm (fun bm h => by have := hrb' bm h; omega), ?_⟩
    split
    · refine ⟨safe_interReadStore hb M dbg _ (by omega) _ c hc, ?_⟩
      split
      · next st c' he =>
        exact safe_interSequential hb dbg a rb ds (i + 1) c' M
          (postG_interReadStore hb M dbg _ _ c st c' hc he).2 hd' hrb' (by omega)
      · trivial
    · split
      · split
        · trivial
        · next rbs c1 h1 =>
          obtain ⟨l1, b1, g1⟩ := readerOK_curOK bytes hb M 2 c rbs c1 hc h1
          have hruns : leVal rbs < 65536 := leVal_lt_of_length 2 rbs l1 b1
          refine ⟨hruns, safe_seekCur c1 (2 * 2 * leVal rbs) M g1 (by omega) hM1, ?_⟩
          refine safe_interSequential hb dbg a rb ds (i + 1) _ (M + 2 * 2 * leVal rbs) ⟨g1.1, ?_⟩ hd' hrb' (by omega)
          have := g1.2
          show c1.pos + 2 * 2 * leVal rbs ≤ _
          omega
      · split
        · next hle =>
          unfold ARRAY_LIMIT at hle
          refine ⟨by show _ < 4294967296; omega, safe_seekCur c (2 * (cardM1 + 1)) M hc (by omega) hM1, ?_⟩
          refine safe_interSequential hb dbg a rb ds (i + 1) _ (M + 2 * (cardM1 + 1)) ⟨hc.1, ?_⟩ hd' hrb' (by omega)
          have := hc.2
          show c.pos + 2 * (cardM1 + 1) ≤ _
          omega
        · refine ⟨safe_seekCur c (8 * 1024) M hc (by omega) hM1, ?_⟩
          refine safe_interSequential hb dbg a rb ds (i + 1) _ (M + 8 * 1024) ⟨hc.1, ?_⟩ hd' hrb' (by omega)
          have := hc.2
          show c.pos + 8 * 1024 ≤ _
          omega

theorem descrSearch_lt (descr : List (Nat × Nat)) (key i : Nat) (h : descrSearch descr key = some i) :
    i < descr.length := by
  unfold descrSearch at h
  simp only [] at h
  split at h
  · next d hd =>
    split at h
    · simp only [Option.some.injEq] at h
      subst h
      exact (List.getElem?_eq_some_iff.mp hd).1
    · simp at h
  · simp at h

theorem safe_interOffsets (hb : IsBytes bytes) (dbg : Bool) (h : Header) (hh : HeaderOK h)
    (ho : h.offsets.length = h.size) :
    ∀ (cs : List Container) (cur : Cursor), cur.data = bytes → Safe_interOffsets dbg h cs cur
  | [], _, _ => trivial
  | c :: cs, cur, hcur => by
    obtain ⟨h1, h2, h3, h4, _, h6⟩ := hh
    unfold Safe_interOffsets
    split
    · exact safe_interOffsets hb dbg h ⟨h1, h2, h3, h4, fun _ => ho, h6⟩ ho cs cur hcur
    · next i hi =>
      have hil := descrSearch_lt _ _ _ hi
      have hio : i < h.offsets.length := by omega
      have hd : (h.descr.getD i (0, 0)).2 < 65536 := by
        rw [List.getD_eq_getElem?_getD, List.getElem?_eq_getElem hil]
        exact (h3 _ (List.getElem_mem hil)).2
      have ho32 : h.offsets.getD i 0 < 4294967296 := by
        rw [List.getD_eq_getElem?_getD, List.getElem?_eq_getElem hio]
        exact h6 _ (List.getElem_mem hio)
      have hc1 : CurOK bytes 4294967296 { cur with pos := h.offsets.getD i 0 } := ⟨hcur, by
        show h.offsets.getD i 0 ≤ _
        omega⟩
      simp only []
      refine ⟨hio, ho32, hil, safe_descr _ i _ hd ?_, safe_interReadStore hb _ dbg _ (by omega) _ _ hc1, ?_⟩
      · intro bm hbm
        rw [h4 bm hbm]
        omega
      · split
        · next st cur' he =>
          exact safe_interOffsets hb dbg h ⟨h1, h2, h3, h4, fun _ => ho, h6⟩ ho cs cur'
            (postG_interReadStore hb _ dbg _ _ _ st cur' hc1 he).2.1
        · trivial

/-- **`intersection_with_serialized_unchecked` has no arithmetic panic while reading / seeking, on any input bytes**
    (`bytes.length < 2^63`: a Rust slice / `Vec` never exceeds `isize::MAX` bytes) -/
theorem safe_interSer (dbg : Bool) (a : Bitmap) (bytes : List Nat) (hb : IsBytes bytes)
    (hlen : bytes.length < 9223372036854775808) : Safe_interSer dbg a bytes := by
  have hR := readerOK_curOK bytes hb 0
  have hc0 : CurOK bytes 0 ⟨bytes, 0⟩ := ⟨rfl, by show 0 ≤ _; omega⟩
  unfold Safe_interSer
  refine ⟨safe_decodeHeader hR _ hc0, ?_⟩
  split
  · trivial
  · next h c he =>
    obtain ⟨hh, hc⟩ := postG_decodeHeader hR _ h c hc0 he
    obtain ⟨h1, h2, h3, h4, h5, h6⟩ := hh
    refine ⟨h2, ?_⟩
    split
    · next hoff =>
      exact ⟨h5 hoff, safe_interOffsets hb dbg h ⟨h1, h2, h3, h4, h5, h6⟩ (h5 hoff) a c hc.1⟩
    · refine safe_interSequential hb dbg a _ _ 0 c 0 hc (fun d hd => (h3 d hd).2) ?_ ?_
      · intro bm hbm
        rw [h2, h4 bm hbm]
        omega
      · rw [h2]
        have : 262140 * h.size ≤ 262140 * 65536 := Nat.mul_le_mul_left _ h1
        omega

end inter

/-! ## `from_lsb0_bytes` -/
namespace Lsb0
open MiscLemmas

theorem safe_shiftBytes (bytes : List Nat) (amount : Nat) (h1 : 1 ≤ amount) (h7 : amount ≤ 7)
    (hl : bytes.length < 4294967296) : Safe_shiftBytes bytes amount :=
  ⟨by show _ < 18446744073709551616; omega, fun _ => ⟨by omega, by omega, by omega⟩⟩

/-- the values pushed by one `while word != 0` loop over a word of width `n` lie in `base .. base + n` -/
theorem drainWord_lt (base w n : Nat) (hn : n ≤ 64) (hw : w < 2 ^ n) : ∀ x ∈ drainWord base 64 w, x < base + n := by
  have hw64 : w < 2 ^ 64 := Nat.lt_of_lt_of_le hw (Nat.pow_le_pow_right (by omega) hn)
  intro x hx
  rw [MiscLemmas.drainWord_eq base w hw64] at hx
  obtain ⟨p, hp, rfl⟩ := List.mem_map.mp hx
  have ht := ((MiscLemmas.mem_bitPos w p).1 hp).2
  by_cases hpn : p < n
  · omega
  · have : w < 2 ^ p := Nat.lt_of_lt_of_le hw (Nat.pow_le_pow_right (by omega) (by omega))
    rw [Nat.testBit_lt_two_pow this] at ht
    contradiction

theorem safe_arrWords (bo : Nat) : ∀ (ws : List Nat) (idx : Nat), (∀ w ∈ ws, w < 2 ^ 64) →
    (bo + (idx + ws.length) * 8) * 8 ≤ 65536 → Safe_arrWords bo idx ws
  | [], _, _, _ => trivial
  | w :: ws, idx, hw, hfit => by
    simp only [List.length_cons] at hfit
    unfold Safe_arrWords
    simp only []
    refine ⟨?_, ?_, ?_, ?_, ?_, safe_arrWords bo ws (idx + 1) (fun x hx => hw x (by simp [hx])) (by omega)⟩
    · show _ < 18446744073709551616; omega
    · show _ < 18446744073709551616; omega
    · show _ < 18446744073709551616; omega
    · show _ < 4294967296; omega
    · intro x hx
      have := drainWord_lt ((bo + idx * 8) * 8) w 64 (by omega) (hw w (by simp)) x hx
      exact ⟨by show _ < 4294967296; omega, by show _ < 65536; omega⟩

theorem safe_arrRem (bo done : Nat) : ∀ (bs : List Nat) (idx : Nat), (∀ b ∈ bs, b < 256) →
    (bo + done + idx + bs.length) * 8 ≤ 65536 → Safe_arrRem bo done idx bs
  | [], _, _, _ => trivial
  | b :: bs, idx, hb, hfit => by
    simp only [List.length_cons] at hfit
    unfold Safe_arrRem
    simp only []
    refine ⟨?_, ?_, ?_, ?_, ?_, safe_arrRem bo done bs (idx + 1) (fun x hx => hb x (by simp [hx])) (by omega)⟩
    · show _ < 18446744073709551616; omega
    · show _ < 18446744073709551616; omega
    · show _ < 18446744073709551616; omega
    · show _ < 4294967296; omega
    · intro x hx
      have := drainWord_lt ((bo + done + idx) * 8) b 8 (by omega) (hb b (by simp)) x hx
      exact ⟨by show _ < 4294967296; omega, by show _ < 65536; omega⟩

theorem sum_map_le_mul (f : Nat → Nat) (B : Nat) : ∀ (l : List Nat), (∀ x ∈ l, f x ≤ B) → (l.map f).sum ≤ B * l.length
  | [], _ => by simp
  | x :: l, h => by
    have hx := h x (by simp)
    have ih := sum_map_le_mul f B l (fun y hy => h y (by simp [hy]))
    simp only [List.map_cons, List.sum_cons, List.length_cons, Nat.mul_add]
    omega

/-- `bits_set` is at most 8 per byte -/
theorem bitsSet_le (bytes : List Nat) (hb : IsBytes bytes) : bitsSet bytes ≤ 8 * bytes.length := by
  rw [bitsSet_eq_sum bytes hb]
  exact sum_map_le_mul popcount 8 bytes (fun x hx => popcount_le 8 x (hb x hx))

theorem safe_arrFromLsb0 (bytes : List Nat) (bo : Nat) (hb : IsBytes bytes) (hfit : bo + bytes.length ≤ 8192) :
    Safe_arrFromLsb0 bytes bo (bitsSet bytes) := by
  have hwl : (chunkWords bytes).length = bytes.length / 8 := leWords_length 8 bytes
  have hrl : (chunkRem bytes).length = bytes.length - bytes.length / 8 * 8 := by simp [chunkRem]
  have hbs := bitsSet_le bytes hb
  unfold Safe_arrFromLsb0
  simp only []
  refine ⟨by show _ < 18446744073709551616; omega, by omega, ?_, ?_⟩
  · exact safe_arrWords bo _ 0 (leWords8_lt bytes hb) (by rw [hwl]; omega)
  · exact safe_arrRem bo _ _ 0 (fun x hx => hb x (List.mem_of_mem_drop hx)) (by rw [hrl]; omega)

theorem safe_bmFromLsb0 (dbg : Bool) (bytes : List Nat) (bo : Nat) (hb : IsBytes bytes)
    (hfit : bo + bytes.length ≤ 8192) : Safe_bmFromLsb0 dbg bytes bo := by
  have hbuf : (if bytes.length = BITMAP_BYTES then bytes
      else List.replicate bo 0 ++ bytes ++ List.replicate (BITMAP_BYTES - bo - bytes.length) 0)
      = padded bo bytes := by
    split
    · rename_i h
      have h0 : bo = 0 := by simp only [BITMAP_BYTES] at h; omega
      simp [padded, h0, h]
    · rfl
  unfold Safe_bmFromLsb0
  simp only []
  rw [hbuf]
  have hl : (leWords 8 (padded bo bytes)).length = 1024 := by
    rw [leWords_length, padded_length bo bytes hfit]
  refine ⟨by simp only [BITMAP_BYTES]; exact hfit, ?_, ?_, hl, fun _ => ?_⟩
  · intro h; simp only [BITMAP_BYTES] at h; omega
  · intro _; simp only [BITMAP_BYTES]; omega
  · have := BStore.popSum_le _ hl (leWords8_lt _ (padded_bytes bo bytes hb))
    show _ < 18446744073709551616
    omega

theorem safe_storeFromLsb0 (dbg : Bool) (bytes : List Nat) (bo : Nat) (hb : IsBytes bytes)
    (hfit : bo + bytes.length ≤ 8192) : Safe_storeFromLsb0 dbg bytes bo := by
  have hbs := bitsSet_le bytes hb
  unfold Safe_storeFromLsb0
  refine ⟨by show _ < 18446744073709551616; omega, by simp only [BITMAP_BYTES]; exact hfit,
    by show _ < 18446744073709551616; omega, fun _ => ?_⟩
  split
  · exact safe_arrFromLsb0 bytes bo hb hfit
  · exact safe_bmFromLsb0 dbg bytes bo hb hfit

theorem safe_fullLoop (dbg : Bool) : ∀ (keys bytes : List Nat), (∀ k ∈ keys, k < 65536) → IsBytes bytes →
    8192 * keys.length ≤ bytes.length → Safe_fullLoop dbg keys bytes
  | [], _, _, _, _ => trivial
  | key :: keys, bytes, hk, hb, hl => by
    simp only [List.length_cons] at hl
    unfold Safe_fullLoop
    refine ⟨by simp only [BITMAP_BYTES]; omega, hk key (by simp), ?_, ?_⟩
    · exact safe_storeFromLsb0 dbg _ 0 (fun x hx => hb x (List.mem_of_mem_take hx))
        (by simp only [BITMAP_BYTES, List.length_take]; omega)
    · exact safe_fullLoop dbg keys _ (fun k h => hk k (by simp [h])) (fun x hx => hb x (List.mem_of_mem_drop hx))
        (by simp only [BITMAP_BYTES, List.length_drop]; omega)

/-- inherent.rs:110-170 on the documented domain, for a multiple-of-8 offset -/
theorem safe_fromLsb0Aligned (dbg : Bool) (off : Nat) (bytes : List Nat) (hal : off % 8 = 0) (hb : IsBytes bytes)
    (hfit : off + 8 * bytes.length ≤ 4294967296) : Safe_fromLsb0Aligned dbg off bytes := by
  intro hne
  have hl : 0 < bytes.length := List.length_pos_iff.2 hne
  simp only [u32Max, wMax]
  refine ⟨fun _ _ => by omega, fun _ => ?_⟩
  -- the two components of `afterFirst`
  have haf : (afterFirst off bytes).2 = (if off % 65536 / 8 ≠ 0 then off / 65536 + 1 else off / 65536)
      ∧ (afterFirst off bytes).1 = (if off % 65536 / 8 ≠ 0 then
          bytes.drop ((if (off + (bytes.length * 8 - 1)) / 65536 = off / 65536
            then ((off + (bytes.length * 8 - 1)) % 65536 + 1) / 8 else 8192) - off % 65536 / 8) else bytes) := by
    unfold afterFirst
    simp only [BITMAP_BYTES]
    split <;> exact ⟨rfl, rfl⟩
  obtain ⟨haf2, haf1⟩ := haf
  have hkeys : ∀ k ∈ List.range' (afterFirst off bytes).2 ((off + (bytes.length * 8 - 1)) / 65536 - (afterFirst off bytes).2),
      k < 65536 := by
    intro k hk
    rw [List.mem_range'_1] at hk
    omega
  have hbaf : IsBytes (afterFirst off bytes).1 := by
    rw [haf1]
    split
    · exact fun x hx => hb x (List.mem_of_mem_drop hx)
    · exact hb
  have hlen1 : 8192 * ((off + (bytes.length * 8 - 1)) / 65536 - (afterFirst off bytes).2) ≤ (afterFirst off bytes).1.length
      ∧ (afterFirst off bytes).1.length ≤
          8192 * ((off + (bytes.length * 8 - 1)) / 65536 - (afterFirst off bytes).2) + 8192 := by
    rw [haf1, haf2]
    split
    · rw [List.length_drop]
      split <;> omega
    · omega
  refine ⟨by show _ < 18446744073709551616; omega, by show _ < 18446744073709551616; omega, by decide,
    by show _ < 18446744073709551616; omega, by show _ < 18446744073709551616; omega, by omega, ?_, ?_, ?_⟩
  · intro hso
    simp only [BITMAP_BYTES]
    refine ⟨by split <;> omega, by split <;> omega, by show _ < 65536; omega, ?_, by show _ < 18446744073709551616; omega⟩
    refine safe_storeFromLsb0 dbg _ _ (fun x hx => hb x (List.mem_of_mem_take hx)) ?_
    rw [List.length_take]
    split <;> omega
  · exact safe_fullLoop dbg _ _ hkeys hbaf (by rw [List.length_range']; exact hlen1.1)
  · intro _
    refine ⟨by show _ < 65536; omega, safe_storeFromLsb0 dbg _ 0 (fun x hx => hbaf x (List.mem_of_mem_drop hx)) ?_⟩
    rw [List.length_drop, List.length_range']
    simp only [BITMAP_BYTES]
    omega

/-- **`from_lsb0_bytes` on the documented domain `offset + 8·len ≤ 2^32`** -/
theorem safe_fromLsb0 (dbg : Bool) (off : Nat) (bytes : List Nat) (hb : IsBytes bytes)
    (hfit : off + 8 * bytes.length ≤ 4294967296) : Safe_fromLsb0 dbg off bytes := by
  unfold Safe_fromLsb0
  split
  · next hne =>
    have hk0 : 0 < off % 8 := Nat.pos_of_ne_zero hne
    have hk : off % 8 < 8 := Nat.mod_lt _ (by omega)
    have hlen := shiftLoop_length (off % 8) bytes 0
    refine ⟨by show _ < 18446744073709551616; omega, safe_shiftBytes bytes _ hk0 (by omega) (by omega),
      by show _ < 4294967296; omega, Nat.mod_le _ _, ?_⟩
    refine safe_fromLsb0Aligned dbg _ _ (by omega) (shiftLoop_bytes (off % 8) hk0 hk bytes 0 hb (Nat.two_pow_pos _)) ?_
    unfold shiftBytes
    omega
  · next he =>
    exact safe_fromLsb0Aligned dbg off bytes (by omega) hb hfit

end Lsb0

/-! ## the 32-bit decoder keeps the reader state good (needed by the treemap loop) -/

section decoder2
variable {σ : Type} {Good : σ → Prop} {R : Nat → Parser σ (List Nat)}

theorem postG_decodeContainers (hR : ReaderOK Good R) (chk dbg : Bool) (rb : Option (List Nat)) :
    ∀ (ds : List (Nat × Nat)) (i : Nat), PostG Good (fun _ => True) (decodeContainers R chk dbg rb ds i)
  | [], _ => by unfold decodeContainers; exact postG_pure _ trivial
  | (key, cardM1) :: ds, i => by
    unfold decodeContainers
    apply postG_bind _ _ (postG_decodeStore hR chk dbg _ _); intro st _
    apply postG_bind _ _ (postG_decodeContainers hR chk dbg rb ds (i + 1)); intro cs _
    exact postG_pure _ trivial

theorem postG_deserializeG (hR : ReaderOK Good R) (chk dbg : Bool) :
    PostG Good (fun _ => True) (deserializeG R chk dbg) := by
  unfold deserializeG
  apply postG_bind _ _ (postG_decodeHeader hR); intro h _
  apply postG_bind _ _ (postG_decodeContainers hR chk dbg _ _ _); intro cs _
  split
  · split
    · exact postG_fail _
    · split
      · exact postG_fail _
      · exact postG_pure _ trivial
  · exact postG_pure _ trivial

end decoder2

/-! ## treemap serialization -/
namespace Treemap

/-- the serialized size of a well-formed 32-bit bitmap: at most `8 + 65536 · 8200` bytes -/
theorem bitmap_serializedSize_le (b : Bitmap) (h : b.WF) : Bitmap.serializedSize b ≤ 537395208 := by
  have hlen := Bitmap.wf_length_le b h
  unfold Bitmap.serializedSize
  have h2 : 8200 * b.length ≤ 8200 * 65536 := Nat.mul_le_mul_left _ hlen
  refine Nat.le_trans (Nat.add_le_add_left (Bitmap.foldl_add_le _ 8200 b 0 ?_) 8) ?_
  · intro c hc
    have hsz := Bitmap.cSize_le c (h.2 c hc).2
    unfold Bitmap.cSize at hsz
    cases hs : c.store with
    | array v => rw [hs] at hsz; simp only [] at hsz ⊢; omega
    | bitmap bs => simp only []; omega
  · generalize 8200 * b.length = m at h2 ⊢
    omega

theorem foldl_size_le (B : Nat) : ∀ (t : Treemap) (acc : Nat), (∀ p ∈ t, Bitmap.serializedSize p.2 ≤ B) →
    t.foldl (fun acc p => acc + 4 + Bitmap.serializedSize p.2) acc ≤ acc + (4 + B) * t.length
  | [], acc, _ => by simp
  | p :: t, acc, h => by
    have hp := h p (by simp)
    rw [List.foldl_cons]
    refine Nat.le_trans (foldl_size_le B t _ (fun q hq => h q (by simp [hq]))) ?_
    simp only [List.length_cons, Nat.mul_add, Nat.mul_one]
    generalize (4 + B) * t.length = m
    omega

/-- `serialized_size` of a treemap with well-formed partitions (at most `2^32` of them: the keys are distinct `u32`s) -/
theorem safe_serializedSize (t : Treemap) (h : PartsWF t) (hl : t.length ≤ 4294967296) : Safe_serializedSize t := by
  refine ⟨fun p hp => Bitmap.safe_serializedSize p.2 (h p hp).2, ?_⟩
  unfold serializedSize
  have h1 := foldl_size_le 537395208 t 8 (fun p hp => bitmap_serializedSize_le p.2 (h p hp).2)
  have h2 : (4 + 537395208) * t.length ≤ (4 + 537395208) * 4294967296 := Nat.mul_le_mul_left _ hl
  generalize (4 + 537395208) * t.length = m at h1 h2
  show _ < 18446744073709551616
  omega

theorem safe_serialize (t : Treemap) (h : PartsWF t) (hl : t.length ≤ 4294967296) : Safe_serialize t :=
  ⟨by show _ < 18446744073709551616; omega, fun p hp => ⟨(h p hp).1, Bitmap.safe_serialize p.2 (h p hp).2⟩⟩

section tdecoder
variable {σ : Type} {Good : σ → Prop} {R : Nat → Parser σ (List Nat)}

theorem safe_decodeParts (hR : ReaderOK Good R) (chk dbg : Bool) :
    ∀ (n : Nat) (s : σ), Good s → Safe_decodeParts R chk dbg n s
  | 0, _, _ => trivial
  | n + 1, s, hs => by
    unfold Safe_decodeParts
    split
    · trivial
    · next kb s1 h1 =>
      obtain ⟨l1, b1, g1⟩ := hR 4 s kb s1 hs h1
      refine ⟨leVal_lt_of_length 4 kb l1 b1, Roaring.safe_deserialize hR chk dbg s1 g1, ?_⟩
      split
      · next bm s2 h2 =>
        exact safe_decodeParts hR chk dbg n s2 (postG_deserializeG hR chk dbg s1 bm s2 g1 h2).2
      · trivial

/-- **the treemap decoder has no arithmetic panic on any input**, over any reader that honours `read_exact` -/
theorem safe_deserialize (hR : ReaderOK Good R) (chk dbg : Bool) (s : σ) (hs : Good s) :
    Safe_deserialize R chk dbg s := by
  unfold Safe_deserialize
  split
  · trivial
  · next sb s1 h1 =>
    obtain ⟨l1, b1, g1⟩ := hR 8 s sb s1 hs h1
    exact ⟨leVal_lt_of_length 8 sb l1 b1, safe_decodeParts hR chk dbg _ s1 g1⟩

end tdecoder
end Treemap

end Roaring
