import RoaringModel.Lemmas.TreemapKernel
import RoaringModel.Lemmas.TreemapQuery
import RoaringModel.Lemmas.TreemapCanonical
/-!
# `RoaringTreemap::is_full` (inherent.rs:306) and `RoaringTreemap::full()` (inherent.rs:34)

`is_full` = `self.map.len() == 2^32 && self.map.values().all(RoaringBitmap::is_full)`.  For a well-formed treemap
(`TWF`) this is proved equal to "the set holds all 2^64 values", in the three equivalent readings
`(elems t).length = 2^64` (`Spec.isFull u64Max`), `∀ v < 2^64, v ∈ elems t`, and `∀ v < 2^64, contains t v`.
The argument is the 32-bit one (`Bitmap.isFull_spec`, Lemmas/BitmapQuery.lean) one level up: at most 2^32
partitions (keys strictly ascending below 2^32), each holding at most 2^32 values, so the total is 2^64 exactly
when there are 2^32 partitions and each one is full.
-/
namespace Roaring
namespace Treemap
open TL

/-- keys strictly ascending below 2^32: at most 2^32 partitions -/
theorem length_le_of_TWF {t : Treemap} (h : TWF t) : t.length ≤ 4294967296 := by
  have := (Arr.sorted_bounded_length (keys t) h.sorted 0 4294967296 (by
    intro k hk
    obtain ⟨p, hp, rfl⟩ := List.mem_map.mp hk
    have := (h.parts p hp).1
    omega)).1
  simpa [keys] using this

theorem length_elems_cons (p : Nat × Bitmap) (t : Treemap) :
    (elems (p :: t)).length = (Bitmap.elems p.2).length + (elems t).length := by
  rw [elems_cons, List.length_append, List.length_map]

/-- every partition holds at most 2^32 values: the total is at most `2^32 · #partitions`, with equality only
    if every partition holds exactly 2^32 -/
theorem length_elems_bound (t : Treemap) (h : ∀ p ∈ t, (Bitmap.elems p.2).length ≤ 4294967296) :
    (elems t).length ≤ 4294967296 * t.length ∧
      ((elems t).length = 4294967296 * t.length → ∀ p ∈ t, (Bitmap.elems p.2).length = 4294967296) := by
  induction t with
  | nil => exact ⟨by simp [elems], by simp⟩
  | cons p t ih =>
    have h0 := h p (List.mem_cons_self ..)
    obtain ⟨ih1, ih2⟩ := ih (fun q hq => h q (List.mem_cons_of_mem _ hq))
    rw [length_elems_cons, List.length_cons]
    refine ⟨by omega, ?_⟩
    intro heq q hq
    rcases List.mem_cons.mp hq with hq' | hq'
    · subst hq'; omega
    · exact ih2 (by omega) q hq'

theorem length_elems_full (t : Treemap) (h : ∀ p ∈ t, (Bitmap.elems p.2).length = 4294967296) :
    (elems t).length = 4294967296 * t.length := by
  induction t with
  | nil => simp [elems]
  | cons p t ih =>
    have h0 := h p (List.mem_cons_self ..)
    have := ih (fun q hq => h q (List.mem_cons_of_mem _ hq))
    rw [length_elems_cons, List.length_cons]
    omega

/-- a well-formed partition is `is_full` iff it holds 2^32 values (C07 `is_full`) -/
theorem part_isFull_iff {b : Bitmap} (hb : Bitmap.WF b) :
    Bitmap.isFull b = true ↔ (Bitmap.elems b).length = 4294967296 := by
  rw [Bitmap.isFull_spec b hb]
  simp [Spec.isFull, u32Max]

/-- **`is_full` ⇔ the set is all of `0 ..= u64::MAX`** (as a cardinality: `Spec.isFull u64Max`) -/
theorem isFull_spec (t : Treemap) (h : TWF t) : isFull t = Spec.isFull u64Max (elems t) := by
  have hwf : ∀ p ∈ t, Bitmap.WF p.2 := fun p hp => (h.parts p hp).2.1
  have hcl : ∀ p ∈ t, (Bitmap.elems p.2).length ≤ 4294967296 :=
    fun p hp => part_length_le kernel32 (hwf p hp)
  have hbound := length_elems_bound t hcl
  have hlen := length_le_of_TWF h
  rw [Bool.eq_iff_iff]
  simp only [isFull, Spec.isFull, Bool.and_eq_true, beq_iff_eq, List.all_eq_true]
  unfold u64Max
  constructor
  · rintro ⟨hl, hall⟩
    have := length_elems_full t (fun p hp => (part_isFull_iff (hwf p hp)).mp (hall p hp))
    omega
  · intro hsum
    have hl : t.length = 4294967296 := by omega
    refine ⟨hl, fun p hp => ?_⟩
    rw [part_isFull_iff (hwf p hp)]
    exact hbound.2 (by omega) p hp

/-- a strictly ascending list of `u64` has 2^64 entries iff it contains every `u64` -/
theorem length_eq_iff_forall_mem {l : List Nat} (hs : Sorted l) (hlt : ∀ x ∈ l, x < 18446744073709551616) :
    l.length = 18446744073709551616 ↔ ∀ v, v < 18446744073709551616 → v ∈ l := by
  have hb := Arr.sorted_bounded_length l hs 0 18446744073709551616 (by
    intro x hx
    have := hlt x hx
    omega)
  constructor
  · intro hlen v hv
    exact hb.2 hlen v (by omega) (by omega)
  · intro hall
    have := Arr.filter_range_of_forall l hs 0 18446744073709551616 (fun x _ h2 => hall x (by omega))
    have h2 := List.length_filter_le (fun x => decide (0 ≤ x) && decide (x < 0 + 18446744073709551616)) l
    rw [this, List.length_range'] at h2
    have := hb.1
    omega

/-- `is_full` ⇔ every `u64` is an element -/
theorem isFull_iff_forall_mem (t : Treemap) (h : TWF t) :
    isFull t = true ↔ ∀ v, v < 18446744073709551616 → v ∈ elems t := by
  rw [isFull_spec t h, ← length_eq_iff_forall_mem (sorted_elems elems32 h) (elems_lt elems32 h)]
  simp [Spec.isFull, u64Max]

/-! ### `RoaringTreemap::full()` -/

/-- inherent.rs:34 `full()`: `(0..=u32::MAX).zip(iter::repeat(RoaringBitmap::full())).collect()` — 2^32 partitions,
    each `RoaringBitmap::full()` (2 TiB of bitsets: never executed, neither by the driver nor by the harness) -/
def full : Treemap := (List.range 4294967296).map fun k => (k, fullBitmap)

theorem full_TWF : TWF full := by
  refine ⟨?_, ?_⟩
  · have : keys full = List.range 4294967296 := by
      unfold keys full
      rw [List.map_map]
      have : ((fun p : Nat × Bitmap => p.1) ∘ fun k => (k, fullBitmap)) = id := by funext k; rfl
      rw [this, List.map_id]
    show Sorted (keys full)
    rw [this]
    exact List.pairwise_lt_range
  · intro p hp
    obtain ⟨k, hk, rfl⟩ := List.mem_map.mp hp
    dsimp only
    refine ⟨List.mem_range.mp hk, fullBitmap_WF, ?_⟩
    rw [elems_fullBitmap]
    simp

/-- `RoaringTreemap::full().is_full()` -/
theorem isFull_full : isFull full = true := by
  simp only [isFull, Bool.and_eq_true, beq_iff_eq, List.all_eq_true]
  refine ⟨by unfold full; rw [List.length_map, List.length_range], ?_⟩
  intro p hp
  obtain ⟨k, _, rfl⟩ := List.mem_map.mp hp
  dsimp only
  rw [part_isFull_iff fullBitmap_WF, elems_fullBitmap, List.length_range']

end Treemap
end Roaring
