import RoaringModel.Inv
/-!
# ArrayStore two-pointer merges (scalar.rs) and the array-level relations

Membership and sortedness of `Arr.or / and / sub / xor`; `interLen = (and …).length`; the in-place
`retain` variants `andAssign` / `subAssign` (galloping index) equal the merges on sorted input;
`isSubset` / `isDisjoint` decide the relations.  Import-free.
-/
namespace Roaring
namespace Arr

theorem mem_or (l r : List Nat) (x : Nat) : x ∈ or l r ↔ x ∈ l ∨ x ∈ r := by
  fun_induction or l r <;> grind
theorem sorted_or (l r : List Nat) (hl : Sorted l) (hr : Sorted r) : Sorted (or l r) := by
  unfold Sorted at *
  fun_induction or l r <;> grind [List.pairwise_cons, mem_or]

theorem mem_and (l r : List Nat) (hl : Sorted l) (hr : Sorted r) (x : Nat) :
    x ∈ and l r ↔ x ∈ l ∧ x ∈ r := by
  unfold Sorted at *
  fun_induction and l r <;> grind [List.pairwise_cons]
theorem sorted_and (l r : List Nat) (hl : Sorted l) (hr : Sorted r) : Sorted (and l r) := by
  have hm := fun l r hl hr x => mem_and l r hl hr x
  unfold Sorted at *
  fun_induction and l r <;> grind [List.pairwise_cons]

theorem mem_sub (l r : List Nat) (hl : Sorted l) (hr : Sorted r) (x : Nat) :
    x ∈ sub l r ↔ x ∈ l ∧ x ∉ r := by
  unfold Sorted at *
  fun_induction sub l r <;> grind [List.pairwise_cons]
theorem sorted_sub (l r : List Nat) (hl : Sorted l) (hr : Sorted r) : Sorted (sub l r) := by
  have hm := fun l r hl hr x => mem_sub l r hl hr x
  unfold Sorted at *
  fun_induction sub l r <;> grind [List.pairwise_cons]

theorem mem_xor (l r : List Nat) (hl : Sorted l) (hr : Sorted r) (x : Nat) :
    x ∈ xor l r ↔ (x ∈ l ∧ x ∉ r) ∨ (x ∉ l ∧ x ∈ r) := by
  unfold Sorted at *
  fun_induction xor l r <;> grind [List.pairwise_cons]
theorem sorted_xor (l r : List Nat) (hl : Sorted l) (hr : Sorted r) : Sorted (xor l r) := by
  have hm := fun l r hl hr x => mem_xor l r hl hr x
  unfold Sorted at *
  fun_induction xor l r <;> grind [List.pairwise_cons]

theorem interLen_eq (l r : List Nat) : interLen l r = (and l r).length := by
  fun_induction interLen l r <;> grind [and]

/-! ### relations -/

theorem isSubset_spec (l r : List Nat) (hl : Sorted l) (hr : Sorted r) :
    isSubset l r = true ↔ ∀ x ∈ l, x ∈ r := by
  unfold Sorted at *
  fun_induction isSubset l r with
  | case1 => simp
  | case2 a l =>
    constructor
    · intro h; cases h
    · intro h; exact absurd (h a (by simp)) (by simp)
  | case3 l b r ih =>
    have hl' := List.pairwise_cons.mp hl
    have hr' := List.pairwise_cons.mp hr
    rw [ih hl'.2 hr'.2]
    constructor
    · intro h x hx
      rcases List.mem_cons.mp hx with rfl | hx
      · simp
      · exact List.mem_cons_of_mem _ (h x hx)
    · intro h x hx
      have h1 := h x (List.mem_cons_of_mem _ hx)
      have h2 := hl'.1 x hx
      rcases List.mem_cons.mp h1 with rfl | h1
      · omega
      · exact h1
  | case4 a l b r hne hlt =>
    have hr' := List.pairwise_cons.mp hr
    constructor
    · intro h; cases h
    · intro h
      have h1 := h a (by simp)
      rcases List.mem_cons.mp h1 with rfl | h1
      · omega
      · have := hr'.1 a h1; omega
  | case5 a l b r hne hlt ih =>
    have hl' := List.pairwise_cons.mp hl
    have hr' := List.pairwise_cons.mp hr
    rw [ih hl hr'.2]
    constructor
    · intro h x hx; exact List.mem_cons_of_mem _ (h x hx)
    · intro h x hx
      have h1 := h x hx
      rcases List.mem_cons.mp h1 with rfl | h1
      · rcases List.mem_cons.mp hx with rfl | hx
        · omega
        · have := hl'.1 x hx; omega
      · exact h1

theorem isDisjoint_spec (l r : List Nat) (hl : Sorted l) (hr : Sorted r) :
    isDisjoint l r = true ↔ ∀ x ∈ l, x ∉ r := by
  unfold Sorted at *
  fun_induction isDisjoint l r with
  | case1 => simp
  | case2 => simp
  | case3 l b r =>
    constructor
    · intro h; cases h
    · intro h; exact absurd (List.mem_cons_self) (h b (by simp))
  | case4 a l b r hne hlt ih =>
    have hl' := List.pairwise_cons.mp hl
    have hr' := List.pairwise_cons.mp hr
    rw [ih hl'.2 hr]
    constructor
    · intro h x hx
      rcases List.mem_cons.mp hx with rfl | hx
      · intro hc
        rcases List.mem_cons.mp hc with rfl | hc
        · omega
        · have := hr'.1 x hc; omega
      · exact h x hx
    · intro h x hx; exact h x (List.mem_cons_of_mem _ hx)
  | case5 a l b r hne hlt ih =>
    have hl' := List.pairwise_cons.mp hl
    have hr' := List.pairwise_cons.mp hr
    rw [ih hl hr'.2]
    constructor
    · intro h x hx hc
      rcases List.mem_cons.mp hc with rfl | hc
      · rcases List.mem_cons.mp hx with rfl | hx
        · omega
        · have := hl'.1 x hx; omega
      · exact h x hx hc
    · intro h x hx hc; exact h x hx (List.mem_cons_of_mem _ hc)
/-! ### the in-place `retain` forms with the galloping index -/

theorem and_nil_right (l : List Nat) : and l [] = [] := by cases l <;> simp [and]
theorem sub_nil_right (l : List Nat) : sub l [] = l := by cases l <;> simp [sub]

/-- skipping the right-hand values below the left head does not change the merge -/
theorem and_gallop (x : Nat) (l rest : List Nat) : and (x :: l) (gallop rest x) = and (x :: l) rest := by
  induction rest with
  | nil => rfl
  | cons b r ih =>
    by_cases h : b < x
    · have h' : ¬ x < b := by omega
      simp only [gallop, List.dropWhile_cons, h, decide_true, ↓reduceIte] at ih ⊢
      rw [ih]; simp [and, h, h']
    · simp [gallop, h]

theorem sub_gallop (x : Nat) (l rest : List Nat) : sub (x :: l) (gallop rest x) = sub (x :: l) rest := by
  induction rest with
  | nil => rfl
  | cons b r ih =>
    by_cases h : b < x
    · have h' : ¬ x < b := by omega
      simp only [gallop, List.dropWhile_cons, h, decide_true, ↓reduceIte] at ih ⊢
      rw [ih]; simp [sub, h, h']
    · simp [gallop, h]

/-- the head of `gallop rest x` (if any) is `≥ x` -/
theorem gallop_head (rest : List Nat) (x b : Nat) (r : List Nat) (h : gallop rest x = b :: r) : ¬ b < x := by
  induction rest with
  | nil => simp [gallop] at h
  | cons c cs ih =>
    by_cases hc : c < x
    · simp only [gallop, List.dropWhile_cons, hc, decide_true, ↓reduceIte] at h
      exact ih h
    · simp only [gallop, List.dropWhile_cons, hc, decide_false, Bool.false_eq_true, ↓reduceIte,
        List.cons.injEq] at h
      omega

theorem sorted_gallop (rest : List Nat) (x : Nat) (h : Sorted rest) : Sorted (gallop rest x) :=
  List.Pairwise.sublist (List.dropWhile_sublist _) h

/-- a right-hand head below every left-hand value is skipped by the merges -/
theorem and_skip (x : Nat) (l r : List Nat) (h : ∀ y ∈ l, x < y) : and l (x :: r) = and l r := by
  cases l with
  | nil => simp [and]
  | cons a l =>
    have := h a (by simp)
    have h' : ¬ a < x := by omega
    simp [and, this, h']

theorem sub_skip (x : Nat) (l r : List Nat) (h : ∀ y ∈ l, x < y) : sub l (x :: r) = sub l r := by
  cases l with
  | nil => simp [sub]
  | cons a l =>
    have := h a (by simp)
    have h' : ¬ a < x := by omega
    simp [sub, this, h']

/-- array_store/mod.rs:374 — `lhs &= &rhs` (retain + galloping index) computes the scalar `and` merge -/
theorem andAssign_eq_and (l r : List Nat) (hl : Sorted l) (hr : Sorted r) : andAssign l r = and l r := by
  induction l generalizing r with
  | nil => simp [andAssign, and]
  | cons x l ih =>
    have hl' := List.pairwise_cons.mp hl
    have hg := sorted_gallop r x hr
    rw [← and_gallop x l r]
    simp only [andAssign]
    rw [ih (gallop r x) hl'.2 hg]
    cases hgr : gallop r x with
    | nil => simp [and_nil_right]
    | cons b r' =>
      have hb := gallop_head r x b r' hgr
      by_cases hbx : b = x
      · subst hbx
        simp [and, and_skip b l r' hl'.1]
      · have : x < b := by omega
        have h2 : ¬ (some b == some x) = true := by simp [hbx]
        simp [and, this, hbx]

/-- array_store/mod.rs:413 — `lhs -= &rhs` computes the scalar `sub` merge -/
theorem subAssign_eq_sub (l r : List Nat) (hl : Sorted l) (hr : Sorted r) : subAssign l r = sub l r := by
  induction l generalizing r with
  | nil => simp [subAssign, sub]
  | cons x l ih =>
    have hl' := List.pairwise_cons.mp hl
    have hg := sorted_gallop r x hr
    rw [← sub_gallop x l r]
    simp only [subAssign]
    rw [ih (gallop r x) hl'.2 hg]
    cases hgr : gallop r x with
    | nil => simp [sub_nil_right]
    | cons b r' =>
      have hb := gallop_head r x b r' hgr
      by_cases hbx : b = x
      · subst hbx
        simp [sub, sub_skip b l r' hl'.1]
      · have : x < b := by omega
        simp [sub, this, hbx]

end Arr
end Roaring
