import RoaringModel.Lemmas.TreemapKernel32
/-!
# `RoaringTreemap::rank` / `select` (inherent.rs:389-432) through the partition directory
-/
namespace Roaring
namespace Treemap
open TL

variable (K : Kernel32)

/-- a strictly ascending list of naturals in `[m, N)` has at most `N - m` elements -/
theorem length_le_of_sorted_lt : ∀ (l : List Nat) (m N : Nat), TL.Sorted l → (∀ x ∈ l, m ≤ x) → (∀ x ∈ l, x < N) →
    l.length + m ≤ N ∨ l = []
  | [], _, _, _, _, _ => Or.inr rfl
  | a :: l, m, N, hs, hm, hN => by
    left
    have ha := hm a (by simp)
    have haN := hN a (by simp)
    rcases length_le_of_sorted_lt l (a + 1) N hs.tail
      (fun x hx => hs.head_lt x hx) (fun x hx => hN x (List.mem_cons_of_mem _ hx)) with h | h
    · simp only [List.length_cons]; omega
    · subst h; simp only [List.length_cons, List.length_nil]; omega

/-- a well-formed partition holds at most 2^32 values -/
theorem part_length_le {b : Bitmap} (hb : K.WF b) : (Bitmap.elems b).length ≤ 4294967296 := by
  rcases length_le_of_sorted_lt (Bitmap.elems b) 0 4294967296 (K.elems_sorted b hb) (fun _ _ => Nat.zero_le _)
    (K.elems_lt b hb) with h | h
  · omega
  · rw [h]; simp

theorem len_foldl : ∀ (t : Treemap), (∀ p ∈ t, K.WF p.2) → ∀ acc,
    t.foldl (fun acc p => acc + Bitmap.len p.2) acc = acc + (elems t).length
  | [], _, acc => by simp [elems]
  | p :: t, h, acc => by
    rw [List.foldl_cons, len_foldl t (fun q hq => h q (List.mem_cons_of_mem _ hq)), elems_cons,
      K.len_spec p.2 (h p (by simp))]
    simp [Nat.add_assoc]

theorem len_eq_length {t : Treemap} (h : ∀ p ∈ t, K.WF p.2) : Treemap.len t = (elems t).length := by
  unfold Treemap.len; rw [len_foldl K t h]; simp

theorem len_snoc (l : Treemap) (p : Nat × Bitmap) : Treemap.len (l ++ [p]) = Treemap.len l + Bitmap.len p.2 := by
  unfold Treemap.len; rw [List.foldl_append]; rfl

/-! ### `select` -/

/-- `select(n)` is the `n`-th smallest value; the `.unwrap()` on the partition's `select` never panics -/
theorem select_spec : ∀ (t : Treemap), WF K t → ∀ n, Treemap.select t n = some (Spec.select (elems t) n)
  | [], _, n => by simp [Treemap.select, Spec.select, elems]
  | (key, b) :: t, hw, n => by
    have hp := hw.parts (key, b) (by simp)
    have hb : K.WF b := hp.2.1
    have hlen := K.len_spec b hb
    have hle := part_length_le K hb
    unfold Treemap.select
    simp only []
    rw [elems_cons]
    by_cases h : Bitmap.len b > n
    · simp only [h, ↓reduceIte]
      have hn : n % 4294967296 = n := Nat.mod_eq_of_lt (by omega)
      have hlt : n < (Bitmap.elems b).length := by omega
      rw [hn, K.select_spec b n hb (by omega)]
      simp only [Spec.select]
      rw [List.getElem?_append_left (by simp only [List.length_map]; exact hlt), List.getElem?_map,
        List.getElem?_eq_getElem hlt]
      rfl
    · simp only [h, ↓reduceIte]
      rw [select_spec t hw.tail (n - Bitmap.len b)]
      simp only [Spec.select]
      rw [List.getElem?_append_right (by simp only [List.length_map]; omega)]
      simp only [List.length_map, hlen]

/-! ### `rank` -/

/-- the values of partition `k` that are `≤ v` -/
theorem rank_part {k : Nat} {b : Bitmap} (hb : K.WF b) (v : Nat) :
    (((Bitmap.elems b).map (join k)).filter (· ≤ v)).length =
      if k < v / 4294967296 then Bitmap.len b
      else if k = v / 4294967296 then Bitmap.rank b (v % 4294967296) else 0 := by
  have hlt := K.elems_lt b hb
  rw [List.filter_map, List.length_map]
  by_cases h1 : k < v / 4294967296
  · simp only [h1, ↓reduceIte, K.len_spec b hb]
    congr 1
    rw [List.filter_eq_self]
    intro y hy
    have := hlt y hy
    simp only [Function.comp, join_eq this, decide_eq_true_eq]
    have : (k + 1) * 4294967296 ≤ v / 4294967296 * 4294967296 := Nat.mul_le_mul_right _ (by omega)
    omega
  · simp only [h1, ↓reduceIte]
    by_cases h2 : k = v / 4294967296
    · simp only [h2, ↓reduceIte]
      rw [K.rank_spec b _ hb (Nat.mod_lt _ (by decide))]
      unfold Spec.rank
      congr 1
      apply List.filter_congr
      intro y hy
      have := hlt y hy
      simp only [Function.comp, join_eq this, decide_eq_decide]
      omega
    · simp only [h2, ↓reduceIte, List.length_eq_zero_iff]
      rw [List.filter_eq_nil_iff]
      intro y hy
      have := hlt y hy
      simp only [Function.comp, join_eq this, decide_eq_true_eq]
      have : (v / 4294967296 + 1) * 4294967296 ≤ k * 4294967296 := Nat.mul_le_mul_right _ (by omega)
      omega

/-- the `match` of `rank` on the reversed range `..=hi` -/
def rankR (hi lo : Nat) (t : Treemap) : Nat :=
  match (range t .unb (.incl hi)).reverse with
  | [] => 0
  | (k, bitmap) :: rest => (if k = hi then Bitmap.rank bitmap lo else Bitmap.len bitmap) + Treemap.len rest

theorem rank_eq_rankR (t : Treemap) (v : Nat) : Treemap.rank t v = rankR (split v).1 (split v).2 t := rfl

private theorem range_cons (p : Nat × Bitmap) (t : Treemap) (hi : Nat) :
    range (p :: t) .unb (.incl hi) = if p.1 ≤ hi then p :: range t .unb (.incl hi) else range t .unb (.incl hi) := by
  unfold range
  rw [List.filter_cons]
  simp [Bound.memB]

private theorem range_nil_of_gt : ∀ {t : Treemap} {hi : Nat}, (∀ q ∈ t, hi < q.1) → range t .unb (.incl hi) = []
  | [], _, _ => rfl
  | p :: t, hi, h => by
    rw [range_cons]
    have := h p (by simp)
    have hn : ¬ p.1 ≤ hi := by omega
    simp only [hn, ↓reduceIte]
    exact range_nil_of_gt (fun q hq => h q (List.mem_cons_of_mem _ hq))

private theorem mem_range_le {t : Treemap} {hi : Nat} {q : Nat × Bitmap} (h : q ∈ range t .unb (.incl hi)) :
    q ∈ t ∧ q.1 ≤ hi := by
  unfold range at h
  have := List.mem_filter.mp h
  exact ⟨this.1, by simpa [Bound.memB] using this.2⟩

theorem rankR_spec (v : Nat) : ∀ (t : Treemap), WF K t →
    rankR (v / 4294967296) (v % 4294967296) t = ((elems t).filter (· ≤ v)).length
  | [], _ => by simp [rankR, range, elems]
  | (k, b) :: t, hw => by
    have hp := hw.parts (k, b) (by simp)
    have hb : K.WF b := hp.2.1
    have ih := rankR_spec v t hw.tail
    have hlt := (keysSorted_cons.mp hw.sorted).1
    rw [elems_cons, List.filter_append, List.length_append, rank_part K hb v, ← ih]
    unfold rankR
    rw [range_cons]
    by_cases h1 : k ≤ v / 4294967296
    · simp only [h1, ↓reduceIte, List.reverse_cons]
      cases hr : (range t .unb (.incl (v / 4294967296))).reverse with
      | nil =>
        simp only [List.nil_append, Treemap.len, List.foldl_nil, Nat.add_zero]
        by_cases h2 : k = v / 4294967296
        · have : ¬ k < v / 4294967296 := by omega
          simp [h2]
        · have : k < v / 4294967296 := by omega
          simp [h2, this]
      | cons q rest =>
        obtain ⟨k', b'⟩ := q
        simp only [List.cons_append]
        have hq : (k', b') ∈ range t .unb (.incl (v / 4294967296)) := by
          rw [← List.mem_reverse, hr]; simp
        have hq' := mem_range_le hq
        have hkk : k < k' := hlt _ hq'.1
        have hk' : k' ≤ v / 4294967296 := hq'.2
        have : k < v / 4294967296 := by omega
        simp only [this, ↓reduceIte, len_snoc]
        omega
    · simp only [h1, ↓reduceIte]
      have hnil : range t .unb (.incl (v / 4294967296)) = [] :=
        range_nil_of_gt (fun q hq => by have := hlt q hq; simp at this; omega)
      have h2 : ¬ k < v / 4294967296 := by omega
      have h3 : ¬ k = v / 4294967296 := by omega
      simp [hnil, h2, h3]

/-- `rank(v)` is the number of values `≤ v` -/
theorem rank_spec (t : Treemap) (hw : WF K t) (v : Nat) (hv : v < 18446744073709551616) :
    Treemap.rank t v = Spec.rank (elems t) v := by
  rw [rank_eq_rankR, split_fst_of_lt hv, split_snd, rankR_spec K v t hw]
  rfl

end Treemap
end Roaring
