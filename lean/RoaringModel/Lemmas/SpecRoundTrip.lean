import RoaringModel.Lemmas.DecodeSpec
/-!
# The reference decoder accepts what the model writes (format conformance, reference side)

`specDecode_serialize`: for a well-formed value `b`, `Spec.decode (serialize b ++ rest) = some (elems b, rest)`:
cookie, size, descriptions with strictly ascending keys, an offset table holding the *true* payload positions
(all `< 2^32`), array payloads strictly ascending, bitset payloads with the declared cardinality.
`serialize_isBytes`: the output is a byte string.
-/
namespace Roaring
open Parser

theorem takeN_append (xs ys : List Nat) (n : Nat) (h : xs.length = n) : Spec.takeN n (xs ++ ys) = some (xs, ys) := by
  subst h
  unfold Spec.takeN
  simp

theorem guard_true {p : Prop} [Decidable p] (h : p) : (guard p : Option Unit) = some () := by
  simp [guard, h]

/-- the reference chunk decoder reads back the payload the model writes for a well-formed container -/
theorem specDecodeChunk_payload (c : Container) (h : StoreWF c.store) (rest : List Nat) :
    Spec.decodeChunk false ((c.len - 1) % 65536 + 1) (payloadOf c ++ rest) = some (c.store.elems, rest) := by
  have hcard : (c.len - 1) % 65536 + 1 = c.store.len := card_roundtrip h
  rw [hcard]
  unfold Spec.decodeChunk
  simp only [Bool.false_eq_true, ↓reduceIte]
  cases hs : c.store with
  | array v =>
    rw [hs] at h
    obtain ⟨h1, h2, h3, h4⟩ := h
    have hle : (Store.array v).len ≤ 4096 := h4
    have hp : payloadOf c = v.flatMap u16le := by unfold payloadOf; rw [hs]
    have hl : (v.flatMap u16le).length = 2 * (Store.array v).len := by
      rw [flatMap_u16le_length]; simp only [Store.len]; omega
    have hints : Spec.leInts 2 (Store.array v).len (v.flatMap u16le) = v := by
      rw [leInts_eq]
      have := leWordsN_flatMap 2 u16le u16le_length v [] (fun x hx => leVal_u16le x (h2 x hx))
      simpa [Store.len] using this
    have hasc : Spec.strictAsc v = true := by rw [strictAsc_eq]; exact (isStrictlySorted_iff v).mpr h1
    rw [if_pos hle, hp, takeN_append _ rest _ hl]
    simp only [bind, Option.bind_some, hints, guard_true hasc, pure, Store.elems]
  | bitmap b =>
    rw [hs] at h
    have hb : b.Inv := ((storeWF_iff _).mp h).1
    obtain ⟨h1, h2, h3, h4⟩ := h
    have hgt : ¬ (Store.bitmap b).len ≤ 4096 := by simp only [Store.len]; omega
    have hp : payloadOf c = b.bits.flatMap u64le := by unfold payloadOf; rw [hs]
    have hl : (b.bits.flatMap u64le).length = 8192 := by rw [flatMap_u64le_length, h1]
    have hints : Spec.leInts 8 1024 (b.bits.flatMap u64le) = b.bits := by
      rw [leInts_eq, ← h1]
      have := leWordsN_flatMap 8 u64le u64le_length b.bits [] (fun x hx => leVal_u64le x (h2 x hx))
      simpa using this
    have hvals : Spec.bitsetVals b.bits = b.toArray := bitsetVals_eq _ hb.words
    have hlen : b.toArray.length = (Store.bitmap b).len := BStore.length_toArray b hb
    rw [if_neg hgt, hp, takeN_append _ rest _ hl]
    simp only [bind, Option.bind_some, hints, hvals, guard_true hlen, pure, Store.elems]


/-- the true payload positions -/
def offsVals : Bitmap → Nat → List Nat
  | [], _ => []
  | c :: cs, off => off :: offsVals cs (off + psize c)

theorem payloadOf_length (c : Container) (h : StoreWF c.store) : (payloadOf c).length = psize c := by
  unfold payloadOf psize
  cases hs : c.store with
  | array v => simp only [flatMap_u16le_length]
  | bitmap b =>
    rw [hs] at h
    simp only [flatMap_u64le_length, h.1]

theorem specDecodeChunks_payload : ∀ (b : Bitmap) (i pos : Nat) (tl rest : List Nat),
    (∀ c ∈ b, StoreWF c.store) →
    Spec.decodeChunks none (descrOf b) i pos (some (offsVals b pos ++ tl)) (Bitmap.payloadBytes b ++ rest)
      = some (Bitmap.elems b, rest)
  | [], i, pos, tl, rest, _ => by
    simp [descrOf, Spec.decodeChunks, Bitmap.payloadBytes, Bitmap.elems]
  | c :: cs, i, pos, tl, rest, h => by
    have hc := h c List.mem_cons_self
    have ih := specDecodeChunks_payload cs (i + 1) (pos + psize c) tl rest
      (fun d hd => h d (List.mem_cons_of_mem _ hd))
    have h1 := specDecodeChunk_payload c hc (Bitmap.payloadBytes cs ++ rest)
    have hlen : (payloadOf c ++ (Bitmap.payloadBytes cs ++ rest)).length - (Bitmap.payloadBytes cs ++ rest).length
        = psize c := by
      rw [List.length_append, payloadOf_length c hc]; omega
    simp only [descrOf, List.map_cons, offsVals, List.cons_append, Spec.decodeChunks, ↓reduceIte, bind,
      Option.bind_some, pure]
    rw [payloadBytes_cons, List.append_assoc, h1]
    simp only [Option.bind_some, hlen]
    simp only [descrOf] at ih
    rw [ih]
    simp [Bitmap.elems, Container.elems]


theorem psize_le (c : Container) (h : StoreWF c.store) : psize c ≤ 8192 := by
  unfold psize
  cases hs : c.store with
  | array v => rw [hs] at h; have := h.2.2.2; simp only; omega
  | bitmap b => simp

theorem offsetBytes_cons (c : Container) (cs : Bitmap) (off : Nat) :
    Bitmap.offsetBytes (c :: cs) off = u32le (off % 4294967296) ++ Bitmap.offsetBytes cs (off + psize c) := by
  unfold psize
  cases hs : c.store <;> simp [Bitmap.offsetBytes, hs]

theorem leInts_offsetBytes : ∀ (b : Bitmap) (off : Nat), (∀ c ∈ b, StoreWF c.store) →
    off + 8192 * b.length ≤ 4294967296 →
    Spec.leInts 4 b.length (Bitmap.offsetBytes b off) = offsVals b off
  | [], _, _, _ => rfl
  | c :: cs, off, h, hle => by
    have hc := psize_le c (h c List.mem_cons_self)
    simp only [List.length_cons] at hle
    have hoff : off < 4294967296 := by omega
    rw [offsetBytes_cons]
    simp only [List.length_cons, offsVals, Spec.leInts]
    rw [List.take_append_of_le_length (by simp), List.take_of_length_le (by simp),
      List.drop_append_of_le_length (by simp), List.drop_of_length_le (by simp), List.nil_append,
      leNat_eq, leVal_u32le _ (Nat.mod_lt _ (by decide)), Nat.mod_eq_of_lt hoff,
      leInts_offsetBytes cs (off + psize c) (fun d hd => h d (List.mem_cons_of_mem _ hd)) (by omega)]

/-- **format conformance, reference side**: the strict reference decoder accepts what the model's writer
    produces for a well-formed value (followed by anything), with exactly the value's elements -/
theorem specDecode_serialize (b : Bitmap) (h : BitmapWF b) (rest : List Nat) :
    Spec.decode (Bitmap.serialize b ++ rest) = some (Bitmap.elems b, rest) := by
  have hlen := h.length_le
  have hs : ∀ c ∈ b, StoreWF c.store := fun c hc => (h.2 c hc).2
  have hc : leVal (u32le 12346) = 12346 := by decide
  have hn : leVal (u32le (b.length % 4294967296)) = b.length := by
    rw [leVal_u32le _ (Nat.mod_lt _ (by decide))]; omega
  have hdescr : Spec.toPairs (Spec.leInts 2 (2 * b.length) (Bitmap.descrBytes b)) = descrOf b := by
    rw [toPairs_eq, leInts_eq, ← leWords_of_length 2 (2 * b.length) _ (by decide) (by rw [descrBytes_length]; omega)]
    exact pairs_leWords_descrBytes b (fun c hc => (h.2 c hc).1)
  have hkeys : (descrOf b).map (·.1) = b.map (·.key) := by simp [descrOf]
  have hasc : Spec.strictAsc ((descrOf b).map (·.1)) = true := by
    rw [hkeys, strictAsc_eq]; exact (isStrictlySorted_iff _).mpr h.1
  have hoffs := leInts_offsetBytes b (8 + 8 * b.length) hs (by omega)
  have hpos : (u32le 12346 ++ (u32le (b.length % 4294967296) ++ (Bitmap.descrBytes b ++
      (Bitmap.offsetBytes b (8 + 8 * b.length) ++ (Bitmap.payloadBytes b ++ rest))))).length
      - (Bitmap.payloadBytes b ++ rest).length = 8 + 8 * b.length := by
    simp only [List.length_append, u32le_length, descrBytes_length, offsetBytes_length]; omega
  have hfin := specDecodeChunks_payload b 0 (8 + 8 * b.length) [] rest hs
  rw [List.append_nil] at hfin
  unfold Spec.decode Bitmap.serialize
  simp only [List.append_assoc]
  rw [takeN_append _ _ 4 (u32le_length _)]
  simp only [bind, Option.bind_some, leNat_eq, hc, ↓reduceIte]
  rw [takeN_append _ _ 4 (u32le_length _)]
  simp only [Option.bind_some, pure, hn, guard_true hlen]
  rw [takeN_append _ _ (4 * b.length) (descrBytes_length b)]
  simp only [Option.bind_some, hdescr, guard_true hasc, true_or, ↓reduceIte]
  rw [takeN_append _ _ (4 * b.length) (offsetBytes_length b _)]
  simp only [Option.bind_some, hoffs, hpos]
  exact hfin


/-! ### what the writer produces is a byte string -/

theorem u32le_bytes (n : Nat) : IsBytes (u32le n) := by
  intro x hx; simp only [u32le, List.mem_cons, List.not_mem_nil, or_false] at hx
  rcases hx with rfl | rfl | rfl | rfl <;> omega

theorem u64le_bytes (n : Nat) : IsBytes (u64le n) := by
  intro x hx
  simp only [u64le, List.mem_append] at hx
  rcases hx with hx | hx <;> exact u32le_bytes _ x hx

theorem isBytes_append {l r : List Nat} (hl : IsBytes l) (hr : IsBytes r) : IsBytes (l ++ r) := by
  intro x hx
  rcases List.mem_append.mp hx with h | h
  · exact hl x h
  · exact hr x h

theorem isBytes_flatMap {α : Type} (l : List α) (f : α → List Nat) (h : ∀ a ∈ l, IsBytes (f a)) :
    IsBytes (l.flatMap f) := by
  intro x hx
  obtain ⟨a, ha, hxa⟩ := List.mem_flatMap.mp hx
  exact h a ha x hxa

theorem offsetBytes_isBytes : ∀ (b : Bitmap) (off : Nat), IsBytes (Bitmap.offsetBytes b off)
  | [], _ => by intro x hx; simp [Bitmap.offsetBytes] at hx
  | c :: cs, off => by
    rw [offsetBytes_cons]
    exact isBytes_append (u32le_bytes _) (offsetBytes_isBytes cs _)

theorem serialize_isBytes (b : Bitmap) : IsBytes (Bitmap.serialize b) := by
  unfold Bitmap.serialize
  refine isBytes_append (isBytes_append (isBytes_append (isBytes_append (u32le_bytes _) (u32le_bytes _)) ?_)
    (offsetBytes_isBytes b _)) ?_
  · exact isBytes_flatMap _ _ (fun c _ => isBytes_append (u16le_bytes _) (u16le_bytes _))
  · apply isBytes_flatMap
    intro c _
    cases c.store with
    | array v => exact isBytes_flatMap _ _ (fun x _ => u16le_bytes x)
    | bitmap bs => exact isBytes_flatMap _ _ (fun x _ => u64le_bytes x)

end Roaring
