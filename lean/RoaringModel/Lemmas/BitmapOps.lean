import RoaringModel.Lemmas.ContainerOps
import RoaringModel.Lemmas.BitmapQuery
import RoaringModel.Ops
/-!
# Bitmap level: the `Pairs` merge-join loops of ops.rs / cmp.rs against the set operations

`pairsOp` is the common shape of `&a | &b`, `&a & &b`, `&a - &b` and the three `^` loops: a `filterMap`
over `pairs a b` that keeps / drops one-sided chunks and combines chunks with equal keys.
-/
namespace Roaring
namespace Bitmap

/-! ### the abstraction `elems`, chunk by chunk -/

theorem elems_nil : elems ([] : Bitmap) = [] := rfl
/-! `elems_cons`, `elems_append` are the core library's (`Lemmas/BitmapQuery.lean`). -/

theorem mem_celems (c : Container) (hc : ∀ i ∈ c.store.elems, i < 65536) (y : Nat) :
    y ∈ c.elems ↔ y / 65536 = c.key ∧ y % 65536 ∈ c.store.elems := by
  simp only [Container.elems, List.mem_map]
  constructor
  · rintro ⟨i, hi, rfl⟩
    have := hc i hi
    have h1 : (c.key * 65536 + i) / 65536 = c.key := by omega
    have h2 : (c.key * 65536 + i) % 65536 = i := by omega
    rw [h1, h2]; exact ⟨rfl, hi⟩
  · rintro ⟨hk, hi⟩
    exact ⟨y % 65536, hi, by omega⟩

/-- chunk-wise validity used by the loops: every store structurally valid (so its values are `< 2^16`) -/
def StoresInv (b : Bitmap) : Prop := ∀ c ∈ b, c.store.Inv

theorem key_of_mem_elems (K : BKernel) (b : Bitmap) (hb : StoresInv b) (y : Nat) (hy : y ∈ elems b) :
    ∃ c ∈ b, c.key = y / 65536 := by
  simp only [elems, List.mem_flatMap] at hy
  obtain ⟨c, hc, hyc⟩ := hy
  exact ⟨c, hc, ((mem_celems c (Store.elems_ltK K _ (hb c hc)) y).mp hyc).1.symm⟩

/-- no element of a chunk-list lives under a key that is below all of its keys -/
theorem not_mem_elems_of_key_lt (K : BKernel) (b : Bitmap) (hb : StoresInv b) (k y : Nat)
    (hk : ∀ c ∈ b, k < c.key) (hy : y / 65536 = k) : y ∉ elems b := by
  intro h
  obtain ⟨c, hc, hck⟩ := key_of_mem_elems K b hb y h
  have := hk c hc; omega

theorem wf_cons (c : Container) (cs : Bitmap) (h : WF (c :: cs)) :
    c.WF ∧ (∀ d ∈ cs, c.key < d.key) ∧ WF cs := by
  obtain ⟨hk, hc⟩ := h
  simp only [List.map_cons, List.pairwise_cons, List.mem_map, forall_exists_index, and_imp,
    forall_apply_eq_imp_iff₂] at hk
  exact ⟨hc c (by simp), hk.1, hk.2, fun d hd => hc d (List.mem_cons_of_mem _ hd)⟩

theorem wf_nil : WF ([] : Bitmap) := ⟨by simp, by simp⟩

theorem wf_cons_intro (c : Container) (cs : Bitmap) (hc : c.WF) (hk : ∀ d ∈ cs, c.key < d.key) (hcs : WF cs) :
    WF (c :: cs) := by
  refine ⟨?_, ?_⟩
  · simp only [List.map_cons, List.pairwise_cons, List.mem_map, forall_exists_index, and_imp,
      forall_apply_eq_imp_iff₂]
    exact ⟨hk, hcs.1⟩
  · intro d hd
    rcases List.mem_cons.mp hd with rfl | hd
    · exact hc
    · exact hcs.2 d hd

theorem storesInv_of_wf (b : Bitmap) (h : WF b) : StoresInv b :=
  fun c hc => Store.wf_inv _ (h.2 c hc).2

/-- for well-formed bitmaps the element list is strictly ascending -/
theorem sorted_elemsK (K : BKernel) : ∀ (b : Bitmap), WF b → Sorted (elems b)
  | [], _ => by simp [elems, Sorted]
  | c :: cs, h => by
    obtain ⟨hc, hk, hcs⟩ := wf_cons c cs h
    have ih := sorted_elemsK K cs hcs
    have hci := Store.wf_inv _ hc.2
    rw [elems_cons]
    unfold Sorted at *
    rw [List.pairwise_append]
    refine ⟨?_, ih, ?_⟩
    · have hs := Store.sorted_elemsK K _ hci
      unfold Container.elems
      unfold Sorted at hs
      rw [List.pairwise_map]
      exact hs.imp (fun h => by omega)
    · intro x hx y hy
      have hx' := (mem_celems c (Store.elems_ltK K _ hci) x).mp hx
      obtain ⟨d, hd, hdk⟩ := key_of_mem_elems K cs (storesInv_of_wf cs hcs) y hy
      have := hk d hd
      have h1 := Nat.div_add_mod x 65536
      have h2 := Nat.div_add_mod y 65536
      have h3 := Nat.mod_lt x (show 65536 > 0 by omega)
      omega

/-- membership in `c :: cs` when every key of `cs` is above `c.key`, split by the chunk of `y` -/
theorem mem_elems_head (K : BKernel) (c : Container) (cs : Bitmap) (hc : c.store.Inv) (hcs : StoresInv cs)
    (hk : ∀ d ∈ cs, c.key < d.key) (y : Nat) :
    y ∈ elems (c :: cs) ↔
      (y / 65536 = c.key ∧ y % 65536 ∈ c.store.elems) ∨ (¬ y / 65536 = c.key ∧ y ∈ elems cs) := by
  rw [elems_cons, List.mem_append, mem_celems c (Store.elems_ltK K _ hc) y]
  by_cases hy : y / 65536 = c.key
  · have := not_mem_elems_of_key_lt K cs hcs c.key y hk hy
    simp [hy, this]
  · simp [hy]

/-- membership in a chunk list all of whose keys are above `k`, in the same split form -/
theorem mem_elems_above (K : BKernel) (cs : Bitmap) (hcs : StoresInv cs) (k : Nat)
    (hk : ∀ d ∈ cs, k < d.key) (y : Nat) :
    y ∈ elems cs ↔ (y / 65536 = k ∧ False) ∨ (¬ y / 65536 = k ∧ y ∈ elems cs) := by
  by_cases hy : y / 65536 = k
  · have := not_mem_elems_of_key_lt K cs hcs k y hk hy
    simp [hy, this]
  · simp [hy]

theorem Store.wf_of_canon_nonempty (_K : BKernel) (s : Store) (hs : s.Canon) (hne : s.elems ≠ []) : s.WF := by
  cases s with
  | array v =>
    refine ⟨hs.1, ?_, hs.2⟩
    cases v with
    | nil => exact absurd rfl hne
    | cons a v => simp
  | bitmap b => exact hs

/-! ### the common shape of the `Pairs` loops -/

/-- the per-pair body shared by the `Pairs` loops of `| & - ^` -/
def gOp (keepL keepR chk : Bool) (f : Container → Container → Container) :
    Option Container × Option Container → Option Container
  | (some l, none) => if keepL then some l else none
  | (none, some r) => if keepR then some r else none
  | (some l, some r) => let c := f l r; if chk && c.isEmpty then none else some c
  | (none, none) => none

def pairsOp (keepL keepR chk : Bool) (f : Container → Container → Container) (a b : Bitmap) : Bitmap :=
  (pairs a b).filterMap (gOp keepL keepR chk f)

/-- `filterMap`, one step -/
def consOpt (o : Option Container) (rest : Bitmap) : Bitmap :=
  match o with
  | none => rest
  | some c => c :: rest

theorem filterMap_cons_consOpt {α} (g : α → Option Container) (x : α) (xs : List α) :
    (x :: xs).filterMap g = consOpt (g x) (xs.filterMap g) := by
  cases h : g x <;> simp [consOpt, h]

/-- what the loop parameters must satisfy to compute the set operation with truth table `P` -/
structure PairSpec (P : Prop → Prop → Prop) (keepL keepR chk : Bool)
    (f : Container → Container → Container) : Prop where
  left : ∀ p : Prop, P p False ↔ (keepL = true ∧ p)
  right : ∀ q : Prop, P False q ↔ (keepR = true ∧ q)
  both : ∀ l r : Container, l.store.Inv → r.store.Inv →
      (f l r).key = l.key ∧ (f l r).store.Canon ∧
        ∀ x, x ∈ (f l r).store.elems ↔ P (x ∈ l.store.elems) (x ∈ r.store.elems)
  nonempty : chk = false → ∀ p q : Prop, p → P p q

/-- the three facts carried through the loop -/
def LoopInv (P : Prop → Prop → Prop) (a b res : Bitmap) : Prop :=
  WF res ∧
  (∀ k, (∀ c ∈ a, k < c.key) → (∀ c ∈ b, k < c.key) → ∀ d ∈ res, k < d.key) ∧
  ∀ y, y ∈ elems res ↔ P (y ∈ elems a) (y ∈ elems b)

section steps
variable {P : Prop → Prop → Prop} {kl kr chk : Bool} {f : Container → Container → Container}

theorem stepL (K : BKernel) (S : PairSpec P kl kr chk f) (l : Container) (ls bs rest : Bitmap)
    (hl : l.WF) (hls : ∀ d ∈ ls, l.key < d.key) (hbs : ∀ d ∈ bs, l.key < d.key)
    (hlsi : StoresInv ls) (hbsi : StoresInv bs) (ih : LoopInv P ls bs rest) :
    LoopInv P (l :: ls) bs (consOpt (if kl then some l else none) rest) := by
  obtain ⟨hw, hlb, hmem⟩ := ih
  have hli := Store.wf_inv _ hl.2
  have hrk : ∀ d ∈ rest, l.key < d.key := hlb l.key hls hbs
  have hri := storesInv_of_wf rest hw
  have hmemP : ∀ y, P (y ∈ elems (l :: ls)) (y ∈ elems bs) ↔
      ((y / 65536 = l.key ∧ kl = true ∧ y % 65536 ∈ l.store.elems) ∨ (¬ y / 65536 = l.key ∧ y ∈ elems rest)) := by
    intro y
    rw [mem_elems_head K l ls hli hlsi hls y, mem_elems_above K bs hbsi l.key hbs y, hmem y]
    by_cases hy : y / 65536 = l.key
    · simp only [hy, true_and, not_true_eq_false, false_and, or_false, and_false]
      rw [S.left]
    · simp only [hy, false_and, not_false_eq_true, true_and, false_or]
  cases kl with
  | false =>
    show LoopInv P (l :: ls) bs rest
    refine ⟨hw, fun k h1 h2 d hd => hlb k (fun c hc => h1 c (List.mem_cons_of_mem _ hc)) h2 d hd, fun y => ?_⟩
    rw [hmemP y]
    constructor
    · intro h; exact Or.inr ⟨fun hy => not_mem_elems_of_key_lt K rest hri l.key y hrk hy h, h⟩
    · rintro (⟨_, hf, _⟩ | ⟨_, h⟩)
      · cases hf
      · exact h
  | true =>
    show LoopInv P (l :: ls) bs (l :: rest)
    refine ⟨wf_cons_intro l rest hl hrk hw, ?_, fun y => ?_⟩
    · intro k h1 h2 d hd
      rcases List.mem_cons.mp hd with rfl | hd
      · exact h1 d (by simp)
      · exact hlb k (fun c hc => h1 c (List.mem_cons_of_mem _ hc)) h2 d hd
    · rw [hmemP y, mem_elems_head K l rest hli hri hrk y]; simp

theorem stepR (K : BKernel) (S : PairSpec P kl kr chk f) (r : Container) (as rs rest : Bitmap)
    (hr : r.WF) (hrs : ∀ d ∈ rs, r.key < d.key) (has : ∀ d ∈ as, r.key < d.key)
    (hrsi : StoresInv rs) (hasi : StoresInv as) (ih : LoopInv P as rs rest) :
    LoopInv P as (r :: rs) (consOpt (if kr then some r else none) rest) := by
  obtain ⟨hw, hlb, hmem⟩ := ih
  have hri' := Store.wf_inv _ hr.2
  have hrk : ∀ d ∈ rest, r.key < d.key := hlb r.key has hrs
  have hri := storesInv_of_wf rest hw
  have hmemP : ∀ y, P (y ∈ elems as) (y ∈ elems (r :: rs)) ↔
      ((y / 65536 = r.key ∧ kr = true ∧ y % 65536 ∈ r.store.elems) ∨ (¬ y / 65536 = r.key ∧ y ∈ elems rest)) := by
    intro y
    rw [mem_elems_head K r rs hri' hrsi hrs y, mem_elems_above K as hasi r.key has y, hmem y]
    by_cases hy : y / 65536 = r.key
    · simp only [hy, true_and, not_true_eq_false, false_and, or_false, and_false]
      rw [S.right]
    · simp only [hy, false_and, not_false_eq_true, true_and, false_or]
  cases kr with
  | false =>
    show LoopInv P as (r :: rs) rest
    refine ⟨hw, fun k h1 h2 d hd => hlb k h1 (fun c hc => h2 c (List.mem_cons_of_mem _ hc)) d hd, fun y => ?_⟩
    rw [hmemP y]
    constructor
    · intro h; exact Or.inr ⟨fun hy => not_mem_elems_of_key_lt K rest hri r.key y hrk hy h, h⟩
    · rintro (⟨_, hf, _⟩ | ⟨_, h⟩)
      · cases hf
      · exact h
  | true =>
    show LoopInv P as (r :: rs) (r :: rest)
    refine ⟨wf_cons_intro r rest hr hrk hw, ?_, fun y => ?_⟩
    · intro k h1 h2 d hd
      rcases List.mem_cons.mp hd with rfl | hd
      · exact h2 d (by simp)
      · exact hlb k h1 (fun c hc => h2 c (List.mem_cons_of_mem _ hc)) d hd
    · rw [hmemP y, mem_elems_head K r rest hri' hri hrk y]; simp

theorem stepB (K : BKernel) (S : PairSpec P kl kr chk f) (l r : Container) (ls rs rest : Bitmap)
    (hl : l.WF) (hr : r.WF) (hkey : l.key = r.key)
    (hls : ∀ d ∈ ls, l.key < d.key) (hrs : ∀ d ∈ rs, r.key < d.key)
    (hlsi : StoresInv ls) (hrsi : StoresInv rs) (ih : LoopInv P ls rs rest) :
    LoopInv P (l :: ls) (r :: rs)
      (consOpt (if (chk && (f l r).isEmpty) = true then none else some (f l r)) rest) := by
  obtain ⟨hw, hlb, hmem⟩ := ih
  have hli := Store.wf_inv _ hl.2
  have hri' := Store.wf_inv _ hr.2
  have hrs' : ∀ d ∈ rs, l.key < d.key := fun d hd => hkey ▸ hrs d hd
  have hrk : ∀ d ∈ rest, l.key < d.key := hlb l.key hls hrs'
  have hri := storesInv_of_wf rest hw
  obtain ⟨hfk, hfc, hfm⟩ := S.both l r hli hri'
  have hmemP : ∀ y, P (y ∈ elems (l :: ls)) (y ∈ elems (r :: rs)) ↔
      ((y / 65536 = l.key ∧ y % 65536 ∈ (f l r).store.elems) ∨ (¬ y / 65536 = l.key ∧ y ∈ elems rest)) := by
    intro y
    rw [mem_elems_head K l ls hli hlsi hls y, mem_elems_head K r rs hri' hrsi hrs y, hmem y, ← hkey]
    by_cases hy : y / 65536 = l.key
    · simp only [hy, true_and, not_true_eq_false, false_and, or_false]
      rw [hfm]
    · simp only [hy, false_and, not_false_eq_true, true_and, false_or]
  have hlbc : ∀ k, (∀ c ∈ l :: ls, k < c.key) → (∀ c ∈ r :: rs, k < c.key) → ∀ d ∈ rest, k < d.key :=
    fun k h1 h2 d hd => hlb k (fun c hc => h1 c (List.mem_cons_of_mem _ hc))
      (fun c hc => h2 c (List.mem_cons_of_mem _ hc)) d hd
  by_cases hdrop : (chk && (f l r).isEmpty) = true
  · -- the combined chunk is empty and dropped
    have hem : (f l r).store.elems = [] := by
      have : (f l r).isEmpty = true := by
        cases chk <;> simp_all
      exact (Container.isEmpty_iff K (f l r) hfc).mp this
    simp only [hdrop, if_true, consOpt]
    refine ⟨hw, hlbc, fun y => ?_⟩
    rw [hmemP y, hem]
    constructor
    · intro h; exact Or.inr ⟨fun hy => not_mem_elems_of_key_lt K rest hri l.key y hrk hy h, h⟩
    · rintro (⟨_, hf⟩ | ⟨_, h⟩)
      · simp at hf
      · exact h
  · simp only [hdrop, if_false, Bool.false_eq_true, consOpt]
    have hne : (f l r).store.elems ≠ [] := by
      cases hchk : chk with
      | true =>
        intro hc
        have := (Container.isEmpty_iff K (f l r) hfc).mpr hc
        simp [hchk, this] at hdrop
      | false =>
        -- no emptiness check (`|`): the result contains the non-empty left chunk
        have hlne : l.store.elems ≠ [] := by
          have := hl.2
          cases hs : l.store with
          | array v =>
            rw [hs] at this
            have h0 : 0 < v.length := this.2.1
            intro hc; simp [Store.elems] at hc; subst hc; simp at h0
          | bitmap b =>
            rw [hs] at this
            have h0 : 4096 < b.len := this.2
            intro hc
            have := K.length_toArray b this.1
            simp only [Store.elems] at hc; rw [hc] at this; simp at this; omega
        obtain ⟨x, hx⟩ := List.exists_mem_of_ne_nil _ hlne
        have := (hfm x).mpr (S.nonempty hchk _ _ hx)
        intro hc; rw [hc] at this; simp at this
    have hfwf : (f l r).WF := ⟨hfk ▸ hl.1, Store.wf_of_canon_nonempty K _ hfc hne⟩
    have hrk' : ∀ d ∈ rest, (f l r).key < d.key := fun d hd => hfk ▸ hrk d hd
    refine ⟨wf_cons_intro (f l r) rest hfwf hrk' hw, ?_, fun y => ?_⟩
    · intro k h1 h2 d hd
      rcases List.mem_cons.mp hd with rfl | hd
      · rw [hfk]; exact h1 l (by simp)
      · exact hlbc k h1 h2 d hd
    · rw [hmemP y, mem_elems_head K (f l r) rest (Store.canon_inv _ hfc) hri hrk' y, hfk]

end steps

theorem loopInv_nil (P : Prop → Prop → Prop) (kl : Bool) (h : ∀ p : Prop, P p False ↔ (kl = true ∧ p)) :
    LoopInv P [] [] [] := by
  refine ⟨wf_nil, fun _ _ _ d hd => by simp at hd, fun y => ?_⟩
  simp only [elems_nil, List.not_mem_nil, false_iff]
  rw [h]; simp

/-- **the `Pairs` loop computes the set operation** and preserves well-formedness -/
theorem pairsOp_loopInv (K : BKernel) {P : Prop → Prop → Prop} {kl kr chk : Bool}
    {f : Container → Container → Container} (S : PairSpec P kl kr chk f) :
    ∀ (a b : Bitmap), WF a → WF b → LoopInv P a b (pairsOp kl kr chk f a b)
  | [], [], _, _ => by
    simp only [pairsOp, pairs, List.filterMap_nil]
    exact loopInv_nil P kl S.left
  | l :: ls, [], ha, hb => by
    obtain ⟨hl, hls, hlsw⟩ := wf_cons l ls ha
    have ih := pairsOp_loopInv K S ls [] hlsw hb
    have := stepL K S l ls [] _ hl hls (by simp) (storesInv_of_wf ls hlsw) (by intro c hc; simp at hc) ih
    simpa only [pairsOp, pairs, filterMap_cons_consOpt, gOp] using this
  | [], r :: rs, ha, hb => by
    obtain ⟨hr, hrs, hrsw⟩ := wf_cons r rs hb
    have ih := pairsOp_loopInv K S [] rs ha hrsw
    have := stepR K S r [] rs _ hr hrs (by simp) (storesInv_of_wf rs hrsw) (by intro c hc; simp at hc) ih
    simpa only [pairsOp, pairs, filterMap_cons_consOpt, gOp] using this
  | l :: ls, r :: rs, ha, hb => by
    obtain ⟨hl, hls, hlsw⟩ := wf_cons l ls ha
    obtain ⟨hr, hrs, hrsw⟩ := wf_cons r rs hb
    by_cases h1 : l.key = r.key
    · have ih := pairsOp_loopInv K S ls rs hlsw hrsw
      have := stepB K S l r ls rs _ hl hr h1 hls hrs (storesInv_of_wf ls hlsw) (storesInv_of_wf rs hrsw) ih
      simpa only [pairsOp, pairs, h1, if_true, filterMap_cons_consOpt, gOp] using this
    · by_cases h2 : l.key < r.key
      · have ih := pairsOp_loopInv K S ls (r :: rs) hlsw hb
        have hbs : ∀ d ∈ r :: rs, l.key < d.key := by
          intro d hd
          rcases List.mem_cons.mp hd with rfl | hd
          · exact h2
          · exact Nat.lt_trans h2 (hrs d hd)
        have := stepL K S l ls (r :: rs) _ hl hls hbs (storesInv_of_wf ls hlsw) (storesInv_of_wf _ hb) ih
        simpa only [pairsOp, pairs, h1, h2, if_true, if_false, filterMap_cons_consOpt, gOp] using this
      · have ih := pairsOp_loopInv K S (l :: ls) rs ha hrsw
        have h3 : r.key < l.key := by omega
        have has : ∀ d ∈ l :: ls, r.key < d.key := by
          intro d hd
          rcases List.mem_cons.mp hd with rfl | hd
          · exact h3
          · exact Nat.lt_trans h3 (hls d hd)
        have := stepR K S r (l :: ls) rs _ hr hrs has (storesInv_of_wf rs hrsw) (storesInv_of_wf _ ha) ih
        simpa only [pairsOp, pairs, h1, h2, if_true, if_false, filterMap_cons_consOpt, gOp] using this
termination_by a b => a.length + b.length

/-- the loop result, as a set: equal to any sorted list with the membership law `P` -/
theorem pairsOp_elems_eq (K : BKernel) {P : Prop → Prop → Prop} {kl kr chk : Bool}
    {f : Container → Container → Container} (S : PairSpec P kl kr chk f)
    (a b : Bitmap) (ha : WF a) (hb : WF b) (spec : List Nat) (hs : Sorted spec)
    (hspec : ∀ y, y ∈ spec ↔ P (y ∈ elems a) (y ∈ elems b)) :
    WF (pairsOp kl kr chk f a b) ∧ elems (pairsOp kl kr chk f a b) = spec := by
  obtain ⟨hw, _, hm⟩ := pairsOp_loopInv K S a b ha hb
  exact ⟨hw, Arr.sorted_ext _ _ (sorted_elemsK K _ hw) hs (fun y => by rw [hm y, hspec y])⟩

/-! ### the instances -/

theorem pairSpec_or (K : BKernel) : PairSpec Store.POr true true false Container.orRef where
  left := by intro p; simp [Store.POr]
  right := by intro q; simp [Store.POr]
  both := fun l r hl hr => Container.op_spec K (Store.orRef_spec K) l r hl hr
  nonempty := fun _ _ _ hp => Or.inl hp

theorem pairSpec_and (K : BKernel) : PairSpec Store.PAnd false false true Container.andRef where
  left := by intro p; simp [Store.PAnd]
  right := by intro q; simp [Store.PAnd]
  both := fun l r hl hr => Container.op_spec K (Store.andRef_spec K) l r hl hr
  nonempty := by intro h; cases h

theorem pairSpec_sub (K : BKernel) : PairSpec Store.PSub true false true Container.subRef where
  left := by intro p; simp [Store.PSub]
  right := by intro q; simp [Store.PSub]
  both := fun l r hl hr => Container.op_spec K (Store.subRef_spec K) l r hl hr
  nonempty := by intro h; cases h

theorem pairSpec_xor (K : BKernel) (f : Container → Container → Container) (op : Store → Store → Store)
    (hf : ∀ l r : Container, f l r = Container.ensureCorrectStore { key := l.key, store := op l.store r.store })
    (hop : Store.OpSpec Store.PXor op) : PairSpec Store.PXor true true true f where
  left := by intro p; simp [Store.PXor]
  right := by intro q; simp [Store.PXor]
  both := fun l r hl hr => by rw [hf]; exact Container.op_spec K hop l r hl hr
  nonempty := by intro h; cases h

theorem orRR_eq (a b : Bitmap) : orRR a b = pairsOp true true false Container.orRef a b := by
  unfold orRR pairsOp
  congr 1

theorem andRR_eq (a b : Bitmap) : andRR a b = pairsOp false false true Container.andRef a b := by
  unfold andRR pairsOp
  congr 1; funext p
  rcases p with ⟨_ | l, _ | r⟩ <;> simp [gOp]
  cases (l.andRef r).isEmpty <;> simp

theorem subRR_eq (a b : Bitmap) : subRR a b = pairsOp true false true Container.subRef a b := by
  unfold subRR pairsOp
  congr 1; funext p
  rcases p with ⟨_ | l, _ | r⟩ <;> simp [gOp]
  cases (l.subRef r).isEmpty <;> simp

theorem xorWith_eq (f : Container → Container → Container) (a b : Bitmap) :
    xorWith f a b = pairsOp true true true f a b := by
  unfold xorWith pairsOp
  congr 1; funext p
  rcases p with ⟨_ | l, _ | r⟩ <;> simp [gOp]
  cases (f l r).isEmpty <;> simp

end Bitmap
end Roaring
