import RoaringModel.Lemmas.ContainerFacts
/-!
# The chunk directory (inherent.rs): a key-sorted vector of containers seen as a finite map `key ↦ low values`

`Bitmap.chunk b k` is the list of low 16-bit values stored under key `k` (`[]` if absent).  For key-sorted
directories `y ∈ elems b ↔ y % 65536 ∈ chunk b (y / 65536)`, so every operation is characterised by what it
does to each chunk.
-/
namespace Roaring
namespace Bitmap

/-- structural invariant of a directory: keys strictly ascending and < 2^16, every store canonical
    (possibly empty — `Bitmap.WF` adds non-emptiness) -/
def Dir (b : Bitmap) : Prop :=
  (b.map Container.key).Pairwise (· < ·) ∧ ∀ c ∈ b, c.key < 65536 ∧ c.store.Canon

theorem wf_iff (b : Bitmap) : b.WF ↔ b.Dir ∧ ∀ c ∈ b, c.store.elems ≠ [] := by
  unfold Bitmap.WF Bitmap.Dir Container.WF
  constructor
  · rintro ⟨h1, h2⟩
    exact ⟨⟨h1, fun c hc => ⟨(h2 c hc).1, Store.wf_canon _ (h2 c hc).2⟩⟩,
           fun c hc => Store.wf_elems_ne _ (h2 c hc).2⟩
  · rintro ⟨⟨h1, h2⟩, h3⟩
    exact ⟨h1, fun c hc => ⟨(h2 c hc).1, Store.wf_of_canon _ (h2 c hc).2 (h3 c hc)⟩⟩

theorem WF.dir {b : Bitmap} (h : b.WF) : b.Dir := ((wf_iff b).mp h).1

theorem Dir.tail {c : Container} {cs : Bitmap} (h : Dir (c :: cs)) : Dir cs :=
  ⟨(List.pairwise_cons.mp h.1).2, fun d hd => h.2 d (List.mem_cons_of_mem _ hd)⟩

theorem Dir.head_lt {c : Container} {cs : Bitmap} (h : Dir (c :: cs)) : ∀ d ∈ cs, c.key < d.key := by
  intro d hd
  exact (List.pairwise_cons.mp h.1).1 d.key (List.mem_map_of_mem hd)

theorem Dir.nil : Dir [] := ⟨List.Pairwise.nil, by simp⟩

theorem Dir.cons {c : Container} {cs : Bitmap} (hcs : Dir cs) (hk : c.key < 65536) (hc : c.store.Canon)
    (hlt : ∀ d ∈ cs, c.key < d.key) : Dir (c :: cs) := by
  refine ⟨?_, ?_⟩
  · simp only [List.map_cons, List.pairwise_cons]
    refine ⟨?_, hcs.1⟩
    intro k hk'
    obtain ⟨d, hd, rfl⟩ := List.mem_map.mp hk'
    exact hlt d hd
  · intro d hd
    rcases List.mem_cons.mp hd with h | h
    · subst h; exact ⟨hk, hc⟩
    · exact hcs.2 d h

/-- the low values stored under chunk key `k` (`[]` if the chunk is absent) -/
def chunk : Bitmap → Nat → List Nat
  | [], _ => []
  | c :: cs, k => if c.key = k then c.store.elems else chunk cs k

theorem chunk_nil_of_lt {b : Bitmap} {k : Nat} (h : ∀ d ∈ b, k < d.key) : chunk b k = [] := by
  induction b with
  | nil => rfl
  | cons c cs ih =>
    have := h c (List.mem_cons_self ..)
    simp only [chunk]
    rw [if_neg (by omega)]
    exact ih (fun d hd => h d (List.mem_cons_of_mem _ hd))

theorem chunk_nil_of_gt {b : Bitmap} {k : Nat} (h : ∀ d ∈ b, d.key < k) : chunk b k = [] := by
  induction b with
  | nil => rfl
  | cons c cs ih =>
    have := h c (List.mem_cons_self ..)
    simp only [chunk]
    rw [if_neg (by omega)]
    exact ih (fun d hd => h d (List.mem_cons_of_mem _ hd))

theorem chunk_lt (b : Bitmap) (h : b.Dir) (k : Nat) : ∀ x ∈ chunk b k, x < 65536 := by
  induction b with
  | nil => intro x hx; simp [chunk] at hx
  | cons c cs ih =>
    intro x hx
    simp only [chunk] at hx
    split at hx
    · exact Store.elems_lt _ (Store.canon_inv _ (h.2 c (List.mem_cons_self ..)).2) x hx
    · exact ih h.tail x hx

theorem chunk_sorted (b : Bitmap) (h : b.Dir) (k : Nat) : Sorted (chunk b k) := by
  induction b with
  | nil => exact List.Pairwise.nil
  | cons c cs ih =>
    simp only [chunk]
    split
    · exact Store.sorted_elems _ (Store.canon_inv _ (h.2 c (List.mem_cons_self ..)).2)
    · exact ih h.tail

theorem chunk_nil_of_key_ge (b : Bitmap) (h : b.Dir) (k : Nat) (hk : 65536 ≤ k) : chunk b k = [] := by
  apply chunk_nil_of_gt
  intro d hd; have := (h.2 d hd).1; omega

theorem mem_cElems (c : Container) (hc : c.store.Inv) (y : Nat) :
    y ∈ c.elems ↔ y / 65536 = c.key ∧ y % 65536 ∈ c.store.elems := by
  unfold Container.elems
  simp only [List.mem_map]
  constructor
  · rintro ⟨l, hl, rfl⟩
    have := Store.elems_lt _ hc l hl
    refine ⟨by omega, ?_⟩
    have : (c.key * 65536 + l) % 65536 = l := by omega
    rw [this]; exact hl
  · rintro ⟨h1, h2⟩
    exact ⟨y % 65536, h2, by omega⟩

/-- membership in the abstraction, chunk by chunk -/
theorem mem_elems (b : Bitmap) (h : b.Dir) (y : Nat) :
    y ∈ elems b ↔ y % 65536 ∈ chunk b (y / 65536) := by
  induction b with
  | nil => simp [elems, chunk]
  | cons c cs ih =>
    have hc := h.2 c (List.mem_cons_self ..)
    have hlt := h.head_lt
    simp only [elems, List.flatMap_cons, List.mem_append, chunk]
    rw [mem_cElems c (Store.canon_inv _ hc.2)]
    have ih' := ih h.tail
    simp only [elems] at ih'
    rw [ih']
    by_cases hk : c.key = y / 65536
    · rw [if_pos hk]
      constructor
      · rintro (⟨_, h2⟩ | h2)
        · exact h2
        · have : chunk cs (y / 65536) = [] := chunk_nil_of_lt (fun d hd => by have := hlt d hd; omega)
          rw [this] at h2; simp at h2
      · intro h2; exact Or.inl ⟨hk.symm, h2⟩
    · rw [if_neg hk]
      constructor
      · rintro (⟨h1, _⟩ | h2)
        · exact absurd h1.symm hk
        · exact h2
      · intro h2; exact Or.inr h2

theorem sorted_cElems (c : Container) (hc : c.store.Inv) : Sorted c.elems := by
  unfold Container.elems Sorted
  rw [List.pairwise_map]
  exact List.Pairwise.imp (fun hab => by omega) (Store.sorted_elems _ hc)

/-- the abstraction of a directory is strictly ascending -/
theorem sorted_elems (b : Bitmap) (h : b.Dir) : Sorted (elems b) := by
  induction b with
  | nil => exact List.Pairwise.nil
  | cons c cs ih =>
    have hc := h.2 c (List.mem_cons_self ..)
    have hci := Store.canon_inv _ hc.2
    simp only [elems, List.flatMap_cons]
    rw [Sorted, List.pairwise_append]
    refine ⟨sorted_cElems c hci, ih h.tail, ?_⟩
    intro x hx y hy
    rw [mem_cElems c hci] at hx
    have hy' : y ∈ elems cs := hy
    rw [mem_elems cs h.tail] at hy'
    -- y lies in a chunk with a larger key
    have : c.key < y / 65536 := by
      by_cases hle : y / 65536 ≤ c.key
      · have : chunk cs (y / 65536) = [] :=
          chunk_nil_of_lt (fun d hd => by have := h.head_lt d hd; omega)
        rw [this] at hy'; simp at hy'
      · omega
    omega

theorem elems_lt (b : Bitmap) (h : b.Dir) : ∀ y ∈ elems b, y < 4294967296 := by
  intro y hy
  rw [mem_elems b h] at hy
  by_cases hk : y / 65536 < 65536
  · omega
  · rw [chunk_nil_of_key_ge b h _ (by omega)] at hy; simp at hy

/-- two directories with the same chunks have the same elements -/
theorem elems_eq_of_chunk (a b : Bitmap) (ha : a.Dir) (hb : b.Dir) (h : ∀ k, chunk a k = chunk b k) :
    elems a = elems b := by
  apply Arr.sorted_ext _ _ (sorted_elems a ha) (sorted_elems b hb)
  intro y; rw [mem_elems a ha, mem_elems b hb, h]

/-! ### `upsert`: the recursive form of `find_container_by_key` followed by an in-place update -/

def upsert {α : Type} (key : Nat) (g : Container → Container × α) : Bitmap → Bitmap × α
  | [] => let r := g (Container.new key); ([r.1], r.2)
  | c :: cs =>
    if c.key < key then let r := upsert key g cs; (c :: r.1, r.2)
    else if c.key = key then let r := g c; (r.1 :: cs, r.2)
    else let r := g (Container.new key); (r.1 :: c :: cs, r.2)

theorem search_cons (c : Container) (cs : Bitmap) (key : Nat) :
    search (c :: cs) key =
      if c.key < key then ((search cs key).1, (search cs key).2 + 1) else (c.key == key, 0) := by
  unfold search
  by_cases h : c.key < key
  · simp [List.takeWhile_cons, h]
  · simp [List.takeWhile_cons, h]

theorem search_nil (key : Nat) : search [] key = (false, 0) := by simp [search]

/-- position-based code = recursive form -/
theorem findModify_eq_upsert {α : Type} (b : Bitmap) (key : Nat) (g : Container → Container × α) (dflt : α) :
    modifyAt (findContainerByKey b key).1 (findContainerByKey b key).2 g dflt = upsert key g b := by
  induction b with
  | nil => simp [findContainerByKey, search_nil, modifyAt, upsert]
  | cons c cs ih =>
    unfold findContainerByKey at ih ⊢
    rw [search_cons]
    unfold upsert
    by_cases h1 : c.key < key
    · simp only [h1, if_true]
      rw [← ih]
      cases hs : search cs key with
      | mk f loc =>
        cases f with
        | true => simp [modifyAt]
                  cases cs[loc]? <;> simp
        | false =>
          simp only [modifyAt, List.take_succ_cons, List.drop_succ_cons, List.cons_append,
            List.getElem?_cons_succ]
          cases (List.take loc cs ++ Container.new key :: List.drop loc cs)[loc]? <;> simp
    · simp only [h1, if_false]
      by_cases h2 : c.key = key
      · simp [h2, modifyAt]
      · have h2' : (c.key == key) = false := by simp [h2]
        simp [h2, h2', modifyAt]

/-- what `upsert` does to the directory -/
theorem upsert_spec {α : Type} (key : Nat) (hkey : key < 65536) (g : Container → Container × α)
    (hg : ∀ c, c.key = key → c.store.Canon → (g c).1.key = key ∧ (g c).1.store.Canon) :
    ∀ (b : Bitmap), b.Dir →
      ∃ c0, c0.key = key ∧ c0.store.Canon ∧ c0.store.elems = chunk b key ∧
        (upsert key g b).2 = (g c0).2 ∧ (upsert key g b).1.Dir ∧
        (∀ k, chunk (upsert key g b).1 k = if k = key then (g c0).1.store.elems else chunk b k) ∧
        (∀ d ∈ (upsert key g b).1, d = (g c0).1 ∨ d ∈ b) := by
  intro b
  induction b with
  | nil =>
    intro _
    obtain ⟨g1, g2⟩ := hg (Container.new key) rfl (Container.new_canon key)
    refine ⟨Container.new key, rfl, Container.new_canon key, rfl, rfl, ?_, ?_, ?_⟩
    · show Dir [(g (Container.new key)).1]
      exact Dir.cons Dir.nil (by rw [g1]; exact hkey) g2 (by simp)
    · intro k
      simp only [upsert, chunk]
      by_cases hk : k = key
      · simp [hk, g1]
      · have : ¬ (g (Container.new key)).1.key = k := by rw [g1]; exact fun h => hk h.symm
        simp [hk, this]
    · intro d hd; simp [upsert] at hd; exact Or.inl hd
  | cons c cs ih =>
    intro hdir
    have hc := hdir.2 c (List.mem_cons_self ..)
    have hlt := hdir.head_lt
    unfold upsert
    by_cases h1 : c.key < key
    · simp only [h1, if_true]
      obtain ⟨c0, k0, cn0, e0, r0, d0, ch0, m0⟩ := ih hdir.tail
      refine ⟨c0, k0, cn0, ?_, r0, ?_, ?_, ?_⟩
      · simp only [chunk]; rw [if_neg (by omega)]; exact e0
      · apply Dir.cons d0 hc.1 hc.2
        intro d hd
        rcases m0 d hd with h | h
        · rw [h, (hg c0 k0 cn0).1]; exact h1
        · exact hlt d h
      · intro k
        simp only [chunk]
        by_cases hk : c.key = k
        · rw [if_pos hk, if_pos hk, if_neg (by omega)]
        · rw [if_neg hk, if_neg hk]; exact ch0 k
      · intro d hd
        rcases List.mem_cons.mp hd with h | h
        · exact Or.inr (h ▸ List.mem_cons_self ..)
        · rcases m0 d h with h' | h'
          · exact Or.inl h'
          · exact Or.inr (List.mem_cons_of_mem _ h')
    · simp only [h1, if_false]
      by_cases h2 : c.key = key
      · simp only [h2, if_true]
        obtain ⟨g1, g2⟩ := hg c h2 hc.2
        refine ⟨c, h2, hc.2, ?_, rfl, ?_, ?_, ?_⟩
        · simp [chunk, h2]
        · apply Dir.cons hdir.tail (by rw [g1]; exact hkey) g2
          intro d hd; rw [g1, ← h2]; exact hlt d hd
        · intro k
          simp only [chunk]
          by_cases hk : k = key
          · rw [if_pos hk, if_pos (by rw [g1]; exact hk.symm)]
          · rw [if_neg hk, if_neg (by rw [g1]; exact fun h => hk h.symm), if_neg (by omega)]
        · intro d hd
          rcases List.mem_cons.mp hd with h | h
          · exact Or.inl h
          · exact Or.inr (List.mem_cons_of_mem _ h)
      · simp only [h2, if_false]
        have h3 : key < c.key := by omega
        obtain ⟨g1, g2⟩ := hg (Container.new key) rfl (Container.new_canon key)
        have hnil : chunk (c :: cs) key = [] :=
          chunk_nil_of_lt (fun d hd => by
            rcases List.mem_cons.mp hd with h | h
            · rw [h]; exact h3
            · have := hlt d h; omega)
        refine ⟨Container.new key, rfl, Container.new_canon key, by rw [hnil]; rfl, rfl, ?_, ?_, ?_⟩
        · apply Dir.cons hdir (by rw [g1]; exact hkey) g2
          intro d hd
          rw [g1]
          rcases List.mem_cons.mp hd with h | h
          · rw [h]; exact h3
          · have := hlt d h; omega
        · intro k
          by_cases hk : k = key
          · rw [if_pos hk]
            show chunk ((g (Container.new key)).1 :: c :: cs) k = _
            simp only [chunk]; rw [if_pos (by rw [g1]; exact hk.symm)]
          · rw [if_neg hk]
            show chunk ((g (Container.new key)).1 :: c :: cs) k = _
            conv => lhs; unfold chunk
            rw [if_neg (by rw [g1]; exact fun h => hk h.symm)]
        · intro d hd
          rcases List.mem_cons.mp hd with h | h
          · exact Or.inl h
          · exact Or.inr h

/-- a directory all of whose chunks are non-empty is well-formed -/
theorem wf_of_dir (b : Bitmap) (h : b.Dir) (hne : ∀ c ∈ b, c.store.elems ≠ []) : b.WF :=
  (wf_iff b).mpr ⟨h, hne⟩

theorem WF.ne {b : Bitmap} (h : b.WF) : ∀ c ∈ b, c.store.elems ≠ [] := ((wf_iff b).mp h).2

end Bitmap
end Roaring
