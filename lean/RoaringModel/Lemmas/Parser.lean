import RoaringModel.Ser
/-!
# Generic parser lemmas: prefix-monotone parsers (C14_prefix, C13 "rest is a suffix", C05_decode "++ rest")

`Mono p`: whenever `p` succeeds on `bs` it has consumed a prefix `used`; it then succeeds with the same value
on `used ++ ys` for every continuation `ys`, and fails with EOF on every strictly shorter prefix of `used`.
The property is preserved by `pure`, `fail`, `bind`, conditionals and structural loops, and holds for
`readN`; hence for every decoder built from them.
-/
namespace Roaring
namespace Parser

abbrev Bytes := List Nat

def Mono {α : Type} (p : Parser Bytes α) : Prop :=
  ∀ bs a rest, p bs = .ok (a, rest) →
    ∃ used, bs = used ++ rest ∧ (∀ ys, p (used ++ ys) = .ok (a, ys)) ∧
      (∀ k, k < used.length → p (used.take k) = .error .eof)

theorem mono_pure {α : Type} (a : α) : Mono (pure a : Parser Bytes α) := by
  intro bs a' rest h
  simp only [pure, Parser.pure, Except.ok.injEq, Prod.mk.injEq] at h
  obtain ⟨rfl, rfl⟩ := h
  exact ⟨[], by simp, by intro ys; simp [pure, Parser.pure], by intro k hk; simp at hk⟩

theorem mono_fail {α : Type} (e : DecErr) : Mono (fail e : Parser Bytes α) := by
  intro bs a rest h; simp [fail] at h

theorem mono_readN (n : Nat) : Mono (readN n) := by
  intro bs a rest h
  unfold readN at h
  split at h
  · simp at h
  · rename_i hn
    simp only [Except.ok.injEq, Prod.mk.injEq] at h
    obtain ⟨rfl, rfl⟩ := h
    have hl : (List.take n bs).length = n := by simp; omega
    refine ⟨bs.take n, by simp, ?_, ?_⟩
    · intro ys
      unfold readN
      simp [hl]
    · intro k hk
      unfold readN
      have : (List.take k (List.take n bs)).length < n := by
        simp only [List.length_take]; rw [hl] at hk; omega
      rw [if_pos this]

theorem mono_bind {α β : Type} (p : Parser Bytes α) (f : α → Parser Bytes β) (hp : Mono p)
    (hf : ∀ a, Mono (f a)) : Mono (p >>= f) := by
  intro bs b rest h
  simp only [bind, Parser.bind] at h
  split at h
  · rename_i a r1 hpa
    obtain ⟨u1, hbs, hcont1, hpre1⟩ := hp bs a r1 hpa
    obtain ⟨u2, hr1, hcont2, hpre2⟩ := hf a r1 b rest h
    refine ⟨u1 ++ u2, by rw [hbs, hr1]; simp, ?_, ?_⟩
    · intro ys
      simp only [bind, Parser.bind]
      rw [List.append_assoc, hcont1 (u2 ++ ys)]
      exact hcont2 ys
    · intro k hk
      simp only [bind, Parser.bind]
      by_cases hk1 : k < u1.length
      · have : List.take k (u1 ++ u2) = List.take k u1 := by
          rw [List.take_append_of_le_length (by omega)]
        rw [this, hpre1 k hk1]
      · have hk' : k - u1.length < u2.length := by simp at hk; omega
        have : List.take k (u1 ++ u2) = u1 ++ List.take (k - u1.length) u2 := by
          rw [List.take_append]
          have : List.take k u1 = u1 := List.take_of_length_le (by omega)
          rw [this]
        rw [this, hcont1]
        exact hpre2 _ hk'
  · simp at h

theorem mono_ofExcept {α : Type} (x : Except DecErr α) : Mono (ofExcept x : Parser Bytes α) := by
  cases x with
  | ok a => exact mono_pure a
  | error e => exact mono_fail e

theorem mono_ofOption {α : Type} (e : DecErr) (x : Option α) : Mono (ofOption e x : Parser Bytes α) := by
  cases x with
  | some a => exact mono_pure a
  | none => exact mono_fail e

theorem mono_ite {α : Type} (c : Prop) [Decidable c] (p q : Parser Bytes α) (hp : Mono p) (hq : Mono q) :
    Mono (if c then p else q) := by
  split <;> assumption

/-- corollary shape used by C14: if the stream parses with nothing left, every strict prefix is EOF -/
theorem strict_prefix_eof {α : Type} (p : Parser Bytes α) (hp : Mono p) (bs : Bytes) (a : α)
    (h : p bs = .ok (a, [])) (k : Nat) (hk : k < bs.length) : p (bs.take k) = .error .eof := by
  obtain ⟨used, hbs, _, hpre⟩ := hp bs a [] h
  simp at hbs
  subst hbs
  exact hpre k hk

/-- the unread rest of a successful parse is a suffix of the input -/
theorem rest_suffix {α : Type} (p : Parser Bytes α) (hp : Mono p) (bs : Bytes) (a : α) (rest : Bytes)
    (h : p bs = .ok (a, rest)) : rest <:+ bs := by
  obtain ⟨used, hbs, _, _⟩ := hp bs a rest h
  exact ⟨used, hbs.symm⟩

/-- a successful parse is unaffected by what follows the consumed prefix -/
theorem append_rest {α : Type} (p : Parser Bytes α) (hp : Mono p) (bs : Bytes) (a : α)
    (h : p bs = .ok (a, [])) (ys : Bytes) : p (bs ++ ys) = .ok (a, ys) := by
  obtain ⟨used, hbs, hcont, _⟩ := hp bs a [] h
  simp at hbs
  subst hbs
  exact hcont ys

/-! ## The decoders of `Ser.lean` over the slice reader are prefix-monotone -/

theorem mono_decodeRunStore : Mono (decodeRunStore readN) := by
  unfold decodeRunStore
  apply mono_bind _ _ (mono_readN _); intro rb
  apply mono_bind _ _ (mono_readN _); intro ib
  exact mono_ofExcept _

theorem mono_decodeArrayStore (chk dbg : Bool) (card : Nat) : Mono (decodeArrayStore readN chk dbg card) := by
  unfold decodeArrayStore
  apply mono_bind _ _ (mono_readN _); intro vb
  dsimp only
  split
  · split
    · exact mono_pure _
    · exact mono_fail _
  · exact mono_ofOption _ _

theorem mono_decodeBitmapStore (chk dbg : Bool) (card : Nat) : Mono (decodeBitmapStore readN chk dbg card) := by
  unfold decodeBitmapStore
  apply mono_bind _ _ (mono_readN _); intro wb
  dsimp only
  split <;> exact mono_ofOption _ _

theorem mono_decodeStore (chk dbg : Bool) (card : Nat) (isRun : Bool) :
    Mono (decodeStore readN chk dbg card isRun) := by
  unfold decodeStore
  split
  · apply mono_bind _ _ mono_decodeRunStore; intro st
    exact mono_pure _
  · split
    · exact mono_decodeArrayStore _ _ _
    · exact mono_decodeBitmapStore _ _ _

theorem mono_decodeContainers (chk dbg : Bool) (rb : Option (List Nat)) :
    ∀ (ds : List (Nat × Nat)) (i : Nat), Mono (decodeContainers readN chk dbg rb ds i)
  | [], _ => by unfold decodeContainers; exact mono_pure _
  | (key, cardM1) :: ds, i => by
    unfold decodeContainers
    apply mono_bind _ _ (mono_decodeStore _ _ _ _); intro st
    apply mono_bind _ _ (mono_decodeContainers chk dbg rb ds (i + 1)); intro cs
    exact mono_pure _

theorem mono_decodeHeader : Mono (decodeHeader readN) := by
  unfold decodeHeader
  apply mono_bind _ _ (mono_readN _); intro cb
  apply mono_bind
  · split
    · apply mono_bind _ _ (mono_readN _); intro sb
      exact mono_pure _
    · split
      · exact mono_pure _
      · exact mono_fail _
  · rintro ⟨size, hasOffsets, hasRun⟩
    apply mono_bind
    · split
      · apply mono_bind _ _ (mono_readN _); intro bm
        exact mono_pure _
      · exact mono_pure _
    · intro runBitmap
      split
      · exact mono_fail _
      · apply mono_bind _ _ (mono_readN _); intro db
        apply mono_bind
        · split
          · exact mono_readN _
          · exact mono_pure _
        · intro ob
          exact mono_pure _

theorem mono_deserializeG (chk dbg : Bool) : Mono (deserializeG readN chk dbg) := by
  unfold deserializeG
  apply mono_bind _ _ mono_decodeHeader; intro h
  apply mono_bind _ _ (mono_decodeContainers _ _ _ _ _); intro cs
  split
  · split
    · exact mono_fail _
    · split
      · exact mono_fail _
      · exact mono_pure _
  · exact mono_pure _

/-! ## No panic: the checked decoder has no `panic` result -/

def NoPanic {σ α : Type} (p : Parser σ α) : Prop := ∀ s, p s ≠ .error .panic

section NoPanic
variable {σ : Type}

theorem np_pure {α : Type} (a : α) : NoPanic (pure a : Parser σ α) := by
  intro s h; simp [pure, Parser.pure] at h

theorem np_fail {α : Type} (e : DecErr) (he : e ≠ .panic) : NoPanic (fail e : Parser σ α) := by
  intro s h; simp only [fail, Except.error.injEq] at h; exact he h

theorem np_bind {α β : Type} (p : Parser σ α) (f : α → Parser σ β) (hp : NoPanic p) (hf : ∀ a, NoPanic (f a)) :
    NoPanic (p >>= f) := by
  intro s h
  simp only [bind, Parser.bind] at h
  split at h
  · rename_i a s' _
    exact hf a s' h
  · rename_i e he
    simp only [Except.error.injEq] at h
    subst h
    exact hp s he

theorem np_ofOption {α : Type} (e : DecErr) (he : e ≠ .panic) (x : Option α) :
    NoPanic (ofOption e x : Parser σ α) := by
  cases x with
  | some a => exact np_pure a
  | none => exact np_fail e he

theorem np_readN (n : Nat) : NoPanic (readN n) := by
  intro s h
  unfold readN at h
  split at h <;> simp at h

theorem replayRuns_ne_panic : ∀ (runs : List (Nat × Nat)) (st : Store), replayRuns st runs ≠ .error .panic
  | [], st => by simp [replayRuns]
  | (s, len) :: rs, st => by
    unfold replayRuns
    split
    · simp
    · exact replayRuns_ne_panic rs _

theorem np_ofExcept_replay (st : Store) (runs : List (Nat × Nat)) :
    NoPanic (ofExcept (replayRuns st runs) : Parser σ Store) := by
  intro s h
  have := replayRuns_ne_panic runs st
  cases hr : replayRuns st runs with
  | ok a => rw [hr] at h; simp [ofExcept, Parser.pure] at h
  | error e =>
    rw [hr] at h this
    simp only [ofExcept, fail, Except.error.injEq] at h
    subst h
    exact this rfl

variable {R : Nat → Parser σ (List Nat)}

theorem np_decodeRunStore (hR : ∀ n, NoPanic (R n)) : NoPanic (decodeRunStore R) := by
  unfold decodeRunStore
  apply np_bind _ _ (hR _); intro rb
  apply np_bind _ _ (hR _); intro ib
  exact np_ofExcept_replay _ _

theorem np_decodeStore (hR : ∀ n, NoPanic (R n)) (dbg : Bool) (card : Nat) (isRun : Bool) :
    NoPanic (decodeStore R true dbg card isRun) := by
  unfold decodeStore
  split
  · apply np_bind _ _ (np_decodeRunStore hR); intro st
    exact np_pure _
  · split
    · unfold decodeArrayStore
      apply np_bind _ _ (hR _); intro vb
      simp only [↓reduceIte]
      split
      · exact np_pure _
      · exact np_fail _ (by decide)
    · unfold decodeBitmapStore
      apply np_bind _ _ (hR _); intro wb
      simp only [↓reduceIte]
      exact np_ofOption _ (by decide) _

theorem np_decodeContainers (hR : ∀ n, NoPanic (R n)) (dbg : Bool) (rb : Option (List Nat)) :
    ∀ (ds : List (Nat × Nat)) (i : Nat), NoPanic (decodeContainers R true dbg rb ds i)
  | [], _ => by unfold decodeContainers; exact np_pure _
  | (key, cardM1) :: ds, i => by
    unfold decodeContainers
    apply np_bind _ _ (np_decodeStore hR _ _ _); intro st
    apply np_bind _ _ (np_decodeContainers hR dbg rb ds (i + 1)); intro cs
    exact np_pure _

theorem np_decodeHeader (hR : ∀ n, NoPanic (R n)) : NoPanic (decodeHeader R) := by
  unfold decodeHeader
  apply np_bind _ _ (hR _); intro cb
  apply np_bind
  · split
    · apply np_bind _ _ (hR _); intro sb
      exact np_pure _
    · split
      · exact np_pure _
      · exact np_fail _ (by decide)
  · rintro ⟨size, hasOffsets, hasRun⟩
    apply np_bind
    · split
      · apply np_bind _ _ (hR _); intro bm
        exact np_pure _
      · exact np_pure _
    · intro runBitmap
      split
      · exact np_fail _ (by decide)
      · apply np_bind _ _ (hR _); intro db
        apply np_bind
        · split
          · exact hR _
          · exact np_pure _
        · intro ob
          exact np_pure _

/-- the checked decoder never panics, over any reader that does not -/
theorem np_deserializeG (hR : ∀ n, NoPanic (R n)) (dbg : Bool) : NoPanic (deserializeG R true dbg) := by
  unfold deserializeG
  apply np_bind _ _ (np_decodeHeader hR); intro h
  apply np_bind _ _ (np_decodeContainers hR _ _ _ _); intro cs
  simp only [↓reduceIte]
  split
  · exact np_fail _ (by decide)
  · split
    · exact np_fail _ (by decide)
    · exact np_pure _

end NoPanic

/-! ## Simulation: the same decoder over two readers related by a projection of the reader state -/

def Sim {σ' σ α : Type} (π : σ' → σ) (p' : Parser σ' α) (p : Parser σ α) : Prop :=
  ∀ s', (p' s').map (fun r => (r.1, π r.2)) = p (π s')

section Sim
variable {σ' σ : Type} {π : σ' → σ}

theorem sim_pure {α : Type} (a : α) : Sim π (pure a : Parser σ' α) (pure a) := by
  intro s'; simp [pure, Parser.pure, Except.map]

theorem sim_fail {α : Type} (e : DecErr) : Sim π (fail e : Parser σ' α) (fail e) := by
  intro s'; simp [fail, Except.map]

theorem sim_bind {α β : Type} (p' : Parser σ' α) (p : Parser σ α) (f' : α → Parser σ' β) (f : α → Parser σ β)
    (hp : Sim π p' p) (hf : ∀ a, Sim π (f' a) (f a)) : Sim π (p' >>= f') (p >>= f) := by
  intro s'
  have h1 := hp s'
  simp only [bind, Parser.bind]
  cases hps : p' s' with
  | error e =>
    rw [hps] at h1; simp only [Except.map] at h1
    rw [← h1]; simp [Except.map]
  | ok r =>
    obtain ⟨a, t'⟩ := r
    rw [hps] at h1; simp only [Except.map] at h1
    rw [← h1]
    exact hf a t'

theorem sim_ofExcept {α : Type} (x : Except DecErr α) : Sim π (ofExcept x : Parser σ' α) (ofExcept x) := by
  cases x with
  | ok a => exact sim_pure a
  | error e => exact sim_fail e

theorem sim_ofOption {α : Type} (e : DecErr) (x : Option α) : Sim π (ofOption e x : Parser σ' α) (ofOption e x) := by
  cases x with
  | some a => exact sim_pure a
  | none => exact sim_fail e

variable {R' : Nat → Parser σ' (List Nat)} {R : Nat → Parser σ (List Nat)}

theorem sim_decodeRunStore (hR : ∀ n, Sim π (R' n) (R n)) : Sim π (decodeRunStore R') (decodeRunStore R) := by
  unfold decodeRunStore
  apply sim_bind _ _ _ _ (hR _); intro rb
  apply sim_bind _ _ _ _ (hR _); intro ib
  exact sim_ofExcept _

theorem sim_decodeArrayStore (hR : ∀ n, Sim π (R' n) (R n)) (chk dbg : Bool) (card : Nat) :
    Sim π (decodeArrayStore R' chk dbg card) (decodeArrayStore R chk dbg card) := by
  unfold decodeArrayStore
  apply sim_bind _ _ _ _ (hR _); intro vb
  dsimp only
  split
  · split
    · exact sim_pure _
    · exact sim_fail _
  · exact sim_ofOption _ _

theorem sim_decodeBitmapStore (hR : ∀ n, Sim π (R' n) (R n)) (chk dbg : Bool) (card : Nat) :
    Sim π (decodeBitmapStore R' chk dbg card) (decodeBitmapStore R chk dbg card) := by
  unfold decodeBitmapStore
  apply sim_bind _ _ _ _ (hR _); intro wb
  dsimp only
  split <;> exact sim_ofOption _ _

theorem sim_decodeStore (hR : ∀ n, Sim π (R' n) (R n)) (chk dbg : Bool) (card : Nat) (isRun : Bool) :
    Sim π (decodeStore R' chk dbg card isRun) (decodeStore R chk dbg card isRun) := by
  unfold decodeStore
  split
  · apply sim_bind _ _ _ _ (sim_decodeRunStore hR); intro st
    exact sim_pure _
  · split
    · exact sim_decodeArrayStore hR _ _ _
    · exact sim_decodeBitmapStore hR _ _ _

theorem sim_decodeContainers (hR : ∀ n, Sim π (R' n) (R n)) (chk dbg : Bool) (rb : Option (List Nat)) :
    ∀ (ds : List (Nat × Nat)) (i : Nat),
      Sim π (decodeContainers R' chk dbg rb ds i) (decodeContainers R chk dbg rb ds i)
  | [], _ => by unfold decodeContainers; exact sim_pure _
  | (key, cardM1) :: ds, i => by
    unfold decodeContainers
    apply sim_bind _ _ _ _ (sim_decodeStore hR _ _ _ _); intro st
    apply sim_bind _ _ _ _ (sim_decodeContainers hR chk dbg rb ds (i + 1)); intro cs
    exact sim_pure _

theorem sim_decodeHeader (hR : ∀ n, Sim π (R' n) (R n)) : Sim π (decodeHeader R') (decodeHeader R) := by
  unfold decodeHeader
  apply sim_bind _ _ _ _ (hR _); intro cb
  apply sim_bind
  · split
    · apply sim_bind _ _ _ _ (hR _); intro sb
      exact sim_pure _
    · split
      · exact sim_pure _
      · exact sim_fail _
  · rintro ⟨size, hasOffsets, hasRun⟩
    apply sim_bind
    · split
      · apply sim_bind _ _ _ _ (hR _); intro bm
        exact sim_pure _
      · exact sim_pure _
    · intro runBitmap
      split
      · exact sim_fail _
      · apply sim_bind _ _ _ _ (hR _); intro db
        apply sim_bind
        · split
          · exact hR _
          · exact sim_pure _
        · intro ob
          exact sim_pure _

/-- the decoder over reader `R'` computes what the decoder over `R` computes on the projected state -/
theorem sim_deserializeG (hR : ∀ n, Sim π (R' n) (R n)) (chk dbg : Bool) :
    Sim π (deserializeG R' chk dbg) (deserializeG R chk dbg) := by
  unfold deserializeG
  apply sim_bind _ _ _ _ (sim_decodeHeader hR); intro h
  apply sim_bind _ _ _ _ (sim_decodeContainers hR _ _ _ _ _); intro cs
  split
  · split
    · exact sim_fail _
    · split
      · exact sim_fail _
      · exact sim_pure _
  · exact sim_pure _

end Sim

end Parser
end Roaring
