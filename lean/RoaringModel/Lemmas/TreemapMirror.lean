import RoaringModel.TreemapOps
import RoaringModel.Lemmas.TreemapDir
/-!
# Mirror equalities for treemap/cmp.rs and treemap/multiops.rs (model-fidelity audit)

* `isDisjointMirror_eq`: `is_disjoint` written as the Rust writes it (`.filter(both Some).all(unwrap … is_disjoint)`)
  equals the fused `all` of `Treemap.isDisjoint` — unconditionally.
* `orderedMultiOwnedMirror_eq`: `try_ordered_multi_op_owned` with the `remove(&k)` it performs on the *other*
  operands equals `Treemap.orderedMultiOwned` (which looks `k` up in the untouched operands), provided the keys of
  the first operand are distinct — a `BTreeMap` invariant, implied by `KeysSorted` / `TWF`.
-/
namespace Roaring
namespace Treemap
open TL

/-! ### `is_disjoint` -/

theorem all_filter_fuse {α : Type} (p q r : α → Bool) (h : ∀ x, r x = (!p x || q x)) :
    ∀ l : List α, (l.filter p).all q = l.all r
  | [] => rfl
  | x :: l => by
    rw [List.filter_cons, List.all_cons, h x]
    cases hp : p x
    · simp only [Bool.false_eq_true, if_false, Bool.not_false, Bool.true_or, Bool.true_and]
      exact all_filter_fuse p q r h l
    · simp only [if_true, List.all_cons, Bool.not_true, Bool.false_or]
      rw [all_filter_fuse p q r h l]

/-- **mirror equality** (unconditional): cmp.rs:37 `is_disjoint` as written = the fused form -/
theorem isDisjointMirror_eq (o : Ops32) (a b : Treemap) : isDisjointMirror o a b = isDisjoint o a b := by
  unfold isDisjointMirror isDisjoint
  apply all_filter_fuse
  rintro ⟨c1, c2⟩
  cases c1 <;> cases c2 <;> rfl

/-! ### `try_ordered_multi_op_owned` -/

theorem getD_removeK_ne (t : Treemap) {k k' : Nat} (h : k' ≠ k) :
    (get (removeK t k) k').getD Bitmap.new = (get t k').getD Bitmap.new := by
  rw [get_removeK, if_neg h]

/-- the loop over the keys of the first operand: threading the shrinking other operands through the loop gives
    the same result as looking every key up in the original ones, as long as no key is visited twice -/
theorem orderedFold_eq (op : List Bitmap → Bitmap) (others0 : List Treemap) :
    ∀ (ks : List Nat) (acc : Treemap) (oth : List Treemap), ks.Nodup →
    (∀ k ∈ ks, (oth.map fun t => (get t k).getD Bitmap.new) = others0.map fun t => (get t k).getD Bitmap.new) →
    (ks.foldl (fun (st : Treemap × List Treemap) k =>
      let cur := (get st.1 k).getD Bitmap.new
      let acc := removeK st.1 k
      let nb := op (cur :: st.2.map fun t => (get t k).getD Bitmap.new)
      let others' := st.2.map fun t => removeK t k
      (if !Bitmap.isEmpty nb then insertKV acc k nb else acc, others')) (acc, oth)).1 =
    ks.foldl (fun acc k =>
      let cur := (get acc k).getD Bitmap.new
      let acc := removeK acc k
      let nb := op (cur :: others0.map fun t => (get t k).getD Bitmap.new)
      if !Bitmap.isEmpty nb then insertKV acc k nb else acc) acc
  | [], _, _, _, _ => rfl
  | k :: ks, acc, oth, hnd, h => by
    have hk := h k (List.mem_cons_self ..)
    have hnd' := List.nodup_cons.mp hnd
    simp only [List.foldl_cons]
    rw [hk]
    apply orderedFold_eq op others0 ks _ _ hnd'.2
    intro k' hk'
    have hne : k' ≠ k := fun e => hnd'.1 (e ▸ hk')
    rw [List.map_map]
    have : ((fun t => (get t k').getD Bitmap.new) ∘ fun t => removeK t k) = fun t => (get t k').getD Bitmap.new := by
      funext t; exact getD_removeK_ne t hne
    rw [this]
    exact h k' (List.mem_cons_of_mem _ hk')

/-- **mirror equality**: multiops.rs:124 `try_ordered_multi_op_owned` with the removal from the other operands =
    `orderedMultiOwned`, when the keys of the first operand are distinct -/
theorem orderedMultiOwnedMirror_eq (op : List Bitmap → Bitmap) (ts : List Treemap)
    (h : ∀ first rest, ts = first :: rest → (keys first).Nodup) :
    orderedMultiOwnedMirror op ts = orderedMultiOwned op ts := by
  cases ts with
  | nil => rfl
  | cons first others =>
    unfold orderedMultiOwnedMirror orderedMultiOwned
    exact orderedFold_eq op others (keys first) first others (h first others rfl) (fun _ _ => rfl)

/-- strictly ascending keys are distinct -/
theorem keys_nodup {t : Treemap} (h : KeysSorted t) : (keys t).Nodup :=
  List.Pairwise.imp (fun hab => Nat.ne_of_lt hab) h

/-- **mirror equality** for the dispatcher the driver runs -/
theorem multiMirror_eq (o : Ops32) (op : MultiOp) (owned : Bool) (ts : List Treemap)
    (h : ∀ t ∈ ts, KeysSorted t) : multiMirror o op owned ts = multi o op owned ts := by
  have hk : ∀ first rest, ts = first :: rest → (keys first).Nodup :=
    fun first rest e => keys_nodup (h first (e ▸ List.mem_cons_self ..))
  unfold multiMirror multi
  cases op <;> simp only [orderedMultiOwnedMirror_eq _ ts hk]

/-- `firstErr` returns exactly the `Ok` payloads -/
theorem firstErr_ok_mem {ε α : Type} : ∀ {items : List (Except ε α)} {l : List α}, firstErr items = .ok l →
    ∀ x ∈ l, Except.ok x ∈ items
  | [], l, h, x, hx => by simp only [firstErr, Except.ok.injEq] at h; subst h; simp at hx
  | .error e :: _, _, h, _, _ => by simp [firstErr] at h
  | .ok y :: ys, l, h, x, hx => by
    simp only [firstErr] at h
    cases hr : firstErr ys with
    | error e => rw [hr] at h; simp at h
    | ok l' =>
      rw [hr] at h
      simp only [Except.ok.injEq] at h
      subst h
      rcases List.mem_cons.mp hx with rfl | hx'
      · exact List.mem_cons_self ..
      · exact List.mem_cons_of_mem _ (firstErr_ok_mem hr x hx')

/-- **mirror equality** for the `Result` forms -/
theorem multiTryMirror_eq {ε : Type} (o : Ops32) (op : MultiOp) (owned : Bool) (items : List (Except ε Treemap))
    (h : ∀ t, Except.ok t ∈ items → KeysSorted t) :
    multiTryMirror o op owned items = multiTry o op owned items := by
  unfold multiTryMirror multiTry
  cases hf : firstErr items with
  | error e => rfl
  | ok ts =>
    simp only []
    rw [multiMirror_eq o op owned ts (fun t ht => h t (firstErr_ok_mem hf t ht))]

end Treemap
end Roaring
