import RoaringModel.Word
/-!
# Word-level lemmas: `tz`, `popLow`, `hiBit`, `popHigh`, masks, `bitPos`/`bitsOf`, `popcount`, `drainWord`

All statements are about the definitions of `RoaringModel/Word.lean`.  Words are `Nat`s; the hypotheses
`w < 2^64` are stated where they are needed.
-/
namespace Roaring

theorem wMax_eq : wMax = 2^64 - 1 := by decide

/-! ### strictly ascending lists are determined by their members -/

theorem sorted_ext : ∀ (l r : List Nat), l.Pairwise (· < ·) → r.Pairwise (· < ·) →
    (∀ x, x ∈ l ↔ x ∈ r) → l = r := by
  intro l
  induction l with
  | nil => intro r _ _ h; cases r with
    | nil => rfl
    | cons b r => have := (h b).2 (by simp); simp at this
  | cons a l ih =>
    intro r hl hr h
    cases r with
    | nil => have := (h a).1 (by simp); simp at this
    | cons b r =>
      have hab : a = b := by
        have h1 := (h a).1 (by simp)
        have h2 := (h b).2 (by simp)
        simp [List.pairwise_cons] at hl hr h1 h2
        rcases h1 with h1 | h1
        · exact h1
        · rcases h2 with h2 | h2
          · exact h2.symm
          · have := hl.1 b h2; have := hr.1 a h1; omega
      subst hab
      congr 1
      apply ih r (List.Pairwise.of_cons hl) (List.Pairwise.of_cons hr)
      intro x
      have hx := h x
      simp [List.pairwise_cons] at hl hr hx
      constructor
      · intro hm; have := hl.1 x hm; rcases hx.1 (Or.inr hm) with h' | h'; omega; exact h'
      · intro hm; have := hr.1 x hm; rcases hx.2 (Or.inr hm) with h' | h'; omega; exact h'

theorem sorted_range (n : Nat) : (List.range n).Pairwise (· < ·) := by
  rw [List.pairwise_iff_getElem]
  intro i j hi hj hij
  simp [hij]

/-! ### `bitPos` -/

theorem mem_bitPos (w i : Nat) : i ∈ bitPos w ↔ i < 64 ∧ w.testBit i = true := by
  simp [bitPos, List.mem_filter, List.mem_range]

theorem sorted_bitPos (w : Nat) : (bitPos w).Pairwise (· < ·) :=
  List.Pairwise.sublist List.filter_sublist (sorted_range 64)

theorem bitPos_zero : bitPos 0 = [] := by simp [bitPos]

theorem bitPos_and (w m : Nat) : bitPos (w &&& m) = (bitPos w).filter (fun i => m.testBit i) := by
  simp [bitPos, List.filter_filter, Nat.testBit_and, Bool.and_comm]

theorem length_bitPos_le (w : Nat) : (bitPos w).length ≤ 64 := by
  unfold bitPos
  have := List.length_filter_le (fun i => w.testBit i) (List.range 64)
  simpa using this

/-! ### `tz` / `popLow` -/

theorem tz_testBit (w : Nat) (h : w ≠ 0) :
    w.testBit (tz w) = true ∧ ∀ i, i < tz w → w.testBit i = false := by
  induction w using Nat.strongRecOn with
  | _ w ih =>
    cases w with
    | zero => contradiction
    | succ n =>
      unfold tz
      split
      · rename_i hodd
        refine ⟨?_, by intro i hi; omega⟩
        simp [Nat.testBit_zero, hodd]
      · rename_i heven
        have hne : (n+1)/2 ≠ 0 := by omega
        have := ih ((n+1)/2) (by omega) hne
        refine ⟨?_, ?_⟩
        · rw [Nat.testBit_succ]; exact this.1
        · intro i hi
          cases i with
          | zero => simp [Nat.testBit_zero]; omega
          | succ j => rw [Nat.testBit_succ]; exact this.2 j (by omega)

theorem popLow_testBit (w : Nat) (h : w ≠ 0) (i : Nat) :
    (popLow w).testBit i = (w.testBit i && decide (i ≠ tz w)) := by
  induction w using Nat.strongRecOn generalizing i with
  | _ w ih =>
    cases w with
    | zero => contradiction
    | succ n =>
      by_cases hodd : (n+1) % 2 = 1
      · have htz : tz (n+1) = 0 := by unfold tz; simp [hodd]
        rw [htz]
        unfold popLow
        rw [Nat.testBit_and]
        cases i with
        | zero => simp [Nat.testBit_zero]; omega
        | succ j =>
          simp only [Nat.testBit_succ, Nat.add_sub_cancel]
          have : n / 2 = (n+1)/2 := by omega
          rw [this]; simp
      · have hne : (n+1)/2 ≠ 0 := by omega
        have htz : tz (n+1) = tz ((n+1)/2) + 1 := by
          conv => lhs; unfold tz
          simp [hodd]
        rw [htz]
        unfold popLow
        rw [Nat.testBit_and]
        cases i with
        | zero => simp [Nat.testBit_zero]; omega
        | succ j =>
          simp only [Nat.testBit_succ, Nat.add_sub_cancel]
          have h2 := ih ((n+1)/2) (by omega) hne j
          unfold popLow at h2
          rw [Nat.testBit_and] at h2
          have : n / 2 = (n+1)/2 - 1 := by omega
          rw [this, h2]
          simp

theorem tz_lt (w : Nat) (h : w ≠ 0) (hlt : w < 2^64) : tz w < 64 := by
  have h1 := (tz_testBit w h).1
  by_cases hc : tz w < 64
  · exact hc
  · have : w < 2 ^ tz w := Nat.lt_of_lt_of_le hlt (Nat.pow_le_pow_right (by omega) (by omega))
    rw [Nat.testBit_lt_two_pow this] at h1
    contradiction

theorem bitPos_step (w : Nat) (hw : w ≠ 0) (hlt : w < 2^64) :
    bitPos w = tz w :: bitPos (popLow w) := by
  apply sorted_ext _ _ (sorted_bitPos w)
  · simp only [List.pairwise_cons]
    refine ⟨?_, sorted_bitPos _⟩
    intro i hi
    rw [mem_bitPos, popLow_testBit w hw] at hi
    simp at hi
    have := (tz_testBit w hw).2 i
    by_cases hc : i < tz w
    · have := this hc; simp [this] at hi
    · omega
  · intro i
    simp only [List.mem_cons, mem_bitPos, popLow_testBit w hw]
    constructor
    · intro ⟨h1, h2⟩
      by_cases hc : i = tz w
      · left; exact hc
      · right; simp [h1, h2, hc]
    · intro h
      rcases h with h | h
      · subst h; exact ⟨tz_lt w hw hlt, (tz_testBit w hw).1⟩
      · simp at h; exact ⟨h.1, h.2.1⟩

theorem and_lt (w m : Nat) (h : w < 2^64) : w &&& m < 2^64 :=
  Nat.lt_of_le_of_lt Nat.and_le_left h

theorem popLow_lt (w : Nat) (h : w < 2^64) : popLow w < 2^64 := by
  unfold popLow
  exact Nat.lt_of_le_of_lt Nat.and_le_left h

/-! ### `hiBit` / `popHigh` -/

theorem hiBit_testBit (w : Nat) (h : w ≠ 0) :
    w.testBit (hiBit w) = true ∧ ∀ i, hiBit w < i → w.testBit i = false := by
  unfold hiBit
  have h1 : 2 ^ w.log2 ≤ w := Nat.log2_self_le h
  have h2 : w < 2 ^ (w.log2 + 1) := Nat.lt_log2_self
  constructor
  · rw [Nat.testBit_eq_decide_div_mod_eq]
    have : w / 2 ^ w.log2 = 1 := by
      apply Nat.div_eq_of_lt_le
      · simpa using h1
      · rw [Nat.pow_succ] at h2; omega
    simp [this]
  · intro i hi
    apply Nat.testBit_lt_two_pow
    exact Nat.lt_of_lt_of_le h2 (Nat.pow_le_pow_right (by omega) (by omega))

theorem hiBit_lt (w : Nat) (h : w ≠ 0) (hlt : w < 2^64) : hiBit w < 64 := by
  unfold hiBit
  rw [Nat.log2_lt h]; exact hlt

set_option linter.unusedVariables false in
theorem popHigh_testBit (w : Nat) (h : w ≠ 0) (hlt : w < 2^64) (i : Nat) (hi : i < 64) :
    (popHigh w).testBit i = (w.testBit i && decide (i ≠ hiBit w)) := by
  unfold popHigh not64
  rw [wMax_eq, Nat.testBit_and, Nat.testBit_xor, Nat.testBit_two_pow_sub_one, Nat.one_shiftLeft,
    Nat.testBit_two_pow]
  by_cases hc : hiBit w = i
  · subst hc; simp [hi]
  · have hc' : ¬ i = hiBit w := fun h => hc h.symm
    simp [hi, hc, hc']

theorem bitPos_step_back (w : Nat) (hw : w ≠ 0) (hlt : w < 2^64) :
    bitPos w = bitPos (popHigh w) ++ [hiBit w] := by
  apply sorted_ext _ _ (sorted_bitPos w)
  · rw [List.pairwise_append]
    refine ⟨sorted_bitPos _, by simp, ?_⟩
    intro a ha b hb
    simp at hb; subst hb
    rw [mem_bitPos] at ha
    rw [popHigh_testBit w hw hlt a ha.1] at ha
    simp at ha
    have := (hiBit_testBit w hw).2 a
    by_cases hc : hiBit w < a
    · have := this hc; simp [this] at ha
    · omega
  · intro i
    simp only [List.mem_append, List.mem_singleton, mem_bitPos]
    constructor
    · intro ⟨h1, h2⟩
      by_cases hc : i = hiBit w
      · right; exact hc
      · left; refine ⟨h1, ?_⟩; rw [popHigh_testBit w hw hlt i h1]; simp [h2, hc]
    · intro h
      rcases h with ⟨h1, h2⟩ | h
      · rw [popHigh_testBit w hw hlt i h1] at h2; simp at h2; exact ⟨h1, h2.1⟩
      · subst h; exact ⟨hiBit_lt w hw hlt, (hiBit_testBit w hw).1⟩

theorem popHigh_lt (w : Nat) (h : w < 2^64) : popHigh w < 2^64 := by
  unfold popHigh; exact Nat.lt_of_le_of_lt Nat.and_le_left h

/-! ### `bitsOf` -/

theorem bitsOf_zero (k : Nat) : bitsOf k 0 = [] := by simp [bitsOf, bitPos_zero]

theorem bitsOf_step (k w : Nat) (hw : w ≠ 0) (hlt : w < 2^64) :
    bitsOf k w = (64*k + tz w) :: bitsOf k (popLow w) := by
  simp [bitsOf, bitPos_step w hw hlt]

theorem bitsOf_step_back (k w : Nat) (hw : w ≠ 0) (hlt : w < 2^64) :
    bitsOf k w = bitsOf k (popHigh w) ++ [64*k + hiBit w] := by
  simp [bitsOf, bitPos_step_back w hw hlt]

theorem mem_bitsOf (k w x : Nat) :
    x ∈ bitsOf k w ↔ ∃ i, i < 64 ∧ w.testBit i = true ∧ x = 64*k + i := by
  simp only [bitsOf, List.mem_map, mem_bitPos]
  constructor
  · rintro ⟨i, ⟨h1, h2⟩, rfl⟩; exact ⟨i, h1, h2, rfl⟩
  · rintro ⟨i, h1, h2, rfl⟩; exact ⟨i, ⟨h1, h2⟩, rfl⟩

theorem bitsOf_bounds (k w x : Nat) (h : x ∈ bitsOf k w) : 64*k ≤ x ∧ x < 64*k + 64 := by
  rw [mem_bitsOf] at h
  obtain ⟨i, h1, _, rfl⟩ := h
  omega

theorem sorted_bitsOf (k w : Nat) : (bitsOf k w).Pairwise (· < ·) := by
  unfold bitsOf
  rw [List.pairwise_map]
  exact List.Pairwise.imp (fun h => by omega) (sorted_bitPos w)

/-! ### masks -/

theorem maskGE_testBit (b i : Nat) (hi : i < 64) :
    (not64 ((1 <<< b) - 1)).testBit i = decide (b ≤ i) := by
  unfold not64
  rw [wMax_eq, Nat.testBit_xor, Nat.testBit_two_pow_sub_one, Nat.one_shiftLeft,
    Nat.testBit_two_pow_sub_one]
  by_cases h : i < b <;> simp [hi, h] <;> omega

set_option linter.unusedVariables false in
theorem shrMax'_testBit (b i : Nat) (hb : b < 64) : (shrMax' b).testBit i = decide (i ≤ b) := by
  unfold shrMax'
  rw [wMax_eq, Nat.testBit_shiftRight, Nat.testBit_two_pow_sub_one]
  by_cases h : i ≤ b <;> simp [h] <;> omega

set_option linter.unusedVariables false in
theorem bitsOf_maskGE (k w b : Nat) (hb : b < 64) :
    bitsOf k (w &&& not64 ((1 <<< b) - 1)) = (bitsOf k w).filter (fun x => decide (64*k + b ≤ x)) := by
  unfold bitsOf
  rw [bitPos_and, List.filter_map]
  congr 1
  apply List.filter_congr
  intro i hi
  rw [mem_bitPos] at hi
  simp only [Function.comp]
  rw [maskGE_testBit b i hi.1]
  by_cases h : b ≤ i <;> simp [h]

theorem bitsOf_maskLE (k w b : Nat) (hb : b < 64) :
    bitsOf k (w &&& shrMax' b) = (bitsOf k w).filter (fun x => decide (x ≤ 64*k + b)) := by
  unfold bitsOf
  rw [bitPos_and, List.filter_map]
  congr 1
  apply List.filter_congr
  intro i _
  simp only [Function.comp]
  rw [shrMax'_testBit b i hb]
  by_cases h : i ≤ b <;> simp [h]

/-! ### `popcount` -/

theorem popLow_lt_self (w : Nat) (hw : w ≠ 0) : popLow w < w := by
  unfold popLow
  have h1 : w &&& (w - 1) ≤ w - 1 := Nat.and_le_right
  omega

/-- for `w < 2^n`, `popcount w` counts the set bits among positions `< n` -/
theorem popcount_eq_length_filter_range (n : Nat) :
    ∀ w, w < 2^n → popcount w = ((List.range n).filter (fun i => w.testBit i)).length := by
  induction n with
  | zero => intro w h; have : w = 0 := by omega
            subst this; simp [popcount_zero]
  | succ n ih =>
    intro w h
    rw [popcount_step, ih (w/2) (by rw [Nat.pow_succ] at h; omega)]
    rw [List.range_succ_eq_map, List.filter_cons, List.filter_map]
    have e : ((fun i => w.testBit i) ∘ Nat.succ) = (fun i => (w/2).testBit i) := by
      funext i; simp [Function.comp, Nat.testBit_succ]
    rw [e]
    by_cases hodd : w % 2 = 1
    · have : w.testBit 0 = true := by simp [Nat.testBit_zero, hodd]
      simp only [this, ↓reduceIte, List.length_cons, List.length_map, hodd]; omega
    · have : w.testBit 0 = false := by simp [Nat.testBit_zero]; omega
      have h0 : w % 2 = 0 := by omega
      simp only [this, Bool.false_eq_true, ↓reduceIte, List.length_map, h0]; omega

theorem popcount_eq_length_bitPos (w : Nat) (h : w < 2^64) : popcount w = (bitPos w).length :=
  popcount_eq_length_filter_range 64 w h

theorem length_bitsOf (k w : Nat) (h : w < 2^64) : (bitsOf k w).length = popcount w := by
  rw [popcount_eq_length_bitPos w h]; simp [bitsOf]

/-! ### `drainWord` -/

theorem drainWord_eq_map_bitPos (base : Nat) :
    ∀ (fuel w : Nat), w < 2^64 → (bitPos w).length ≤ fuel →
      drainWord base fuel w = (bitPos w).map (fun i => base + i) := by
  intro fuel
  induction fuel with
  | zero =>
    intro w _ hl
    have : bitPos w = [] := List.eq_nil_of_length_eq_zero (by omega)
    simp [drainWord, this]
  | succ fuel ih =>
    intro w hw hl
    unfold drainWord
    by_cases h0 : w = 0
    · subst h0; simp [bitPos_zero]
    · simp only [h0, ↓reduceIte]
      have hs := bitPos_step w h0 hw
      rw [hs] at hl ⊢
      simp only [List.length_cons] at hl
      rw [ih (popLow w) (popLow_lt w hw) (by omega)]
      simp

theorem drainWord_eq_bitsOf (k w : Nat) (h : w < 2^64) : drainWord (64 * k) 64 w = bitsOf k w := by
  rw [drainWord_eq_map_bitPos (64*k) 64 w h (length_bitPos_le w)]
  rfl

end Roaring

#print axioms Roaring.sorted_ext
#print axioms Roaring.bitPos_step
#print axioms Roaring.bitPos_step_back
#print axioms Roaring.bitsOf_maskGE
#print axioms Roaring.bitsOf_maskLE
#print axioms Roaring.popcount_eq_length_bitPos
#print axioms Roaring.length_bitsOf
#print axioms Roaring.sorted_bitsOf
#print axioms Roaring.drainWord_eq_bitsOf
