import RoaringModel.Lemmas.TreemapCodec
import RoaringModel.Lemmas.EncodeSpec
import RoaringModel.SpecCodec64
/-!
# `Treemap.serialize t = Spec.encode64 (Treemap.elems t)`: the model's writer against the reference encoder
  of the 64-bit portable format

Generic in the 32-bit facts (`PartsOK`: every partition has an element and only `u32` elements; `h32`: the
32-bit writer agrees with the 32-bit reference encoder on every partition), which `Lemmas/TreemapCodecWF.lean`
supplies for `Treemap.WFd Bitmap.WF` values (`WFd.partsOK`, `serialize_eq_encode bitmap_toArray`).
-/
namespace Roaring
namespace Treemap
open TL

/-- what the bucket grouping needs from the partitions -/
def PartsOK (t : Treemap) : Prop :=
  ∀ p ∈ t, p.1 < P32 ∧ Bitmap.elems p.2 ≠ [] ∧ ∀ x ∈ Bitmap.elems p.2, x < P32

theorem PartsOK.tail {p : Nat × Bitmap} {t : Treemap} (h : PartsOK (p :: t)) : PartsOK t :=
  fun q hq => h q (List.mem_cons_of_mem _ hq)

theorem mem_partElems {p : Nat × Bitmap} {x : Nat} (hx : x ∈ (Bitmap.elems p.2).map (join p.1))
    (hb : ∀ i ∈ Bitmap.elems p.2, i < P32) : x / P32 = p.1 ∧ x % P32 ∈ Bitmap.elems p.2 := by
  obtain ⟨i, hi, rfl⟩ := List.mem_map.mp hx
  have := hb i hi
  rw [join_div this, join_mod this]
  exact ⟨rfl, hi⟩

theorem mem_elems_key64 : ∀ (t : Treemap), PartsOK t → ∀ x ∈ elems t, ∃ q ∈ t, x / P32 = q.1
  | [], _, x, hx => by simp [elems] at hx
  | p :: t, h, x, hx => by
    rw [elems_cons, List.mem_append] at hx
    rcases hx with hx | hx
    · exact ⟨p, List.mem_cons_self, (mem_partElems hx (h p List.mem_cons_self).2.2).1⟩
    · obtain ⟨q, hq, hk⟩ := mem_elems_key64 t h.tail x hx
      exact ⟨q, List.mem_cons_of_mem _ hq, hk⟩

theorem tail_keys_ne64 {p : Nat × Bitmap} {t : Treemap} (h : PartsOK (p :: t)) (hs : KeysSorted (p :: t)) :
    ∀ y ∈ elems t, y / P32 ≠ p.1 := by
  intro y hy
  obtain ⟨q, hq, hk⟩ := mem_elems_key64 t h.tail y hy
  have := (keysSorted_cons.mp hs).1 q hq
  omega

theorem keysOf64_append (k : Nat) : ∀ (l1 l2 : List Nat), l1 ≠ [] → (∀ x ∈ l1, x / P32 = k) →
    (∀ y ∈ l2, y / P32 ≠ k) → Spec.keysOf64 (l1 ++ l2) = k :: Spec.keysOf64 l2
  | [], _, h, _, _ => absurd rfl h
  | [x], l2, _, h1, h2 => by
    have hx := h1 x (List.mem_cons_self)
    cases l2 with
    | nil => simp [Spec.keysOf64, hx]
    | cons y l =>
      have hy := h2 y (List.mem_cons_self)
      simp only [List.cons_append, List.nil_append, Spec.keysOf64, hx]
      rw [if_neg (fun h => hy h.symm)]
  | x :: x' :: l, l2, _, h1, h2 => by
    have hx := h1 x (List.mem_cons_self)
    have hx' := h1 x' (List.mem_cons_of_mem _ List.mem_cons_self)
    simp only [List.cons_append, Spec.keysOf64, hx, hx', ↓reduceIte]
    exact keysOf64_append k (x' :: l) l2 (by simp) (fun y hy => h1 y (List.mem_cons_of_mem _ hy)) h2

/-- the distinct high halves of the values are the partition keys -/
theorem keysOf64_elems : ∀ (t : Treemap), PartsOK t → KeysSorted t → Spec.keysOf64 (elems t) = keys t
  | [], _, _ => rfl
  | p :: t, h, hs => by
    have hp := h p List.mem_cons_self
    rw [elems_cons, keysOf64_append p.1 _ _ (by simpa using hp.2.1)
      (fun x hx => (mem_partElems hx hp.2.2).1) (tail_keys_ne64 h hs)]
    rw [keysOf64_elems t h.tail (keysSorted_cons.mp hs).2]; rfl

theorem bucketOf_append (l1 l2 : List Nat) (k : Nat) :
    Spec.bucketOf (l1 ++ l2) k = Spec.bucketOf l1 k ++ Spec.bucketOf l2 k := by
  simp [Spec.bucketOf]

theorem bucketOf_other {l : List Nat} {k : Nat} (h : ∀ y ∈ l, y / P32 ≠ k) : Spec.bucketOf l k = [] := by
  unfold Spec.bucketOf
  have : l.filter (fun x => decide (x / 4294967296 = k)) = [] := by
    rw [List.filter_eq_nil_iff]
    intro x hx; simp [h x hx]
  rw [this]; rfl

theorem bucketOf_part {p : Nat × Bitmap} (hb : ∀ i ∈ Bitmap.elems p.2, i < P32) :
    Spec.bucketOf ((Bitmap.elems p.2).map (join p.1)) p.1 = Bitmap.elems p.2 := by
  unfold Spec.bucketOf
  have hf : ((Bitmap.elems p.2).map (join p.1)).filter (fun x => decide (x / 4294967296 = p.1))
      = (Bitmap.elems p.2).map (join p.1) := by
    rw [List.filter_eq_self]
    intro x hx
    simp [(mem_partElems hx hb).1]
  rw [hf, List.map_map]
  conv => rhs; rw [← List.map_id (Bitmap.elems p.2)]
  apply List.map_congr_left
  intro i hi
  simp only [Function.comp, id]
  exact join_mod (hb i hi)

/-- the low halves of the values with high half `k` are the elements of partition `k` -/
theorem bucketOf_elems : ∀ (t : Treemap), PartsOK t → KeysSorted t → ∀ p ∈ t,
    Spec.bucketOf (elems t) p.1 = Bitmap.elems p.2
  | [], _, _, p, hp => by simp at hp
  | d :: ds, h, hs, p, hp => by
    rw [elems_cons, bucketOf_append]
    rcases List.mem_cons.mp hp with rfl | hp
    · rw [bucketOf_part (h p List.mem_cons_self).2.2, bucketOf_other (tail_keys_ne64 h hs)]; simp
    · have hlt : d.1 < p.1 := (keysSorted_cons.mp hs).1 p hp
      have h1 : ∀ y ∈ (Bitmap.elems d.2).map (join d.1), y / P32 ≠ p.1 := by
        intro y hy
        have := (mem_partElems hy (h d List.mem_cons_self).2.2).1
        omega
      rw [bucketOf_other h1, bucketOf_elems ds h.tail (keysSorted_cons.mp hs).2 p hp]; simp

theorem flatMap_congr_mem {α β : Type} : ∀ (l : List α) (f g : α → List β), (∀ a ∈ l, f a = g a) →
    l.flatMap f = l.flatMap g
  | [], _, _, _ => rfl
  | a :: l, f, g, h => by
    simp only [List.flatMap_cons]
    rw [h a List.mem_cons_self, flatMap_congr_mem l f g (fun b hb => h b (List.mem_cons_of_mem _ hb))]

/-- The treemap writer emits the reference encoding of the element set, given that the 32-bit writer does so
    for every partition. -/
theorem serialize_eq_encode64 (t : Treemap) (h : PartsOK t) (hs : KeysSorted t)
    (h32 : ∀ p ∈ t, Bitmap.serialize p.2 = Spec.encode (Bitmap.elems p.2)) :
    serialize t = Spec.encode64 (elems t) := by
  unfold Spec.encode64
  simp only
  rw [keysOf64_elems t h hs, leBytes8_eq, serialize_eq, keys, List.length_map, List.flatMap_map]
  congr 1
  apply flatMap_congr_mem
  intro p hp
  rw [bucketOf_elems t h hs p hp, leBytes4_eq, Nat.mod_eq_of_lt (h p hp).1, h32 p hp]

end Treemap
end Roaring
