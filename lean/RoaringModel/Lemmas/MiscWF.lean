import RoaringModel.Lemmas.MiscWord
import RoaringModel.Ser
import RoaringModel.SpecLsb0
import RoaringModel.Inv
/-!
# Well-formedness (as a `Prop`, the same predicate as `Driver/Core.lean bitmapWF`) and the
# container-level abstraction facts needed by C20 / C16 / C17

Local copy of the DESIGN §4 predicate; `bitmapWF_iff` / `storeWF_iff` below prove it equivalent to the shared
`Bitmap.WF` / `Store.WF` of `Inv.lean`, and the property theorems are stated with the shared one.
-/
namespace Roaring.MiscLemmas
open Roaring

def StoreWF : Store → Prop
  | .array v => v.Pairwise (· < ·) ∧ (∀ x ∈ v, x < 65536) ∧ 0 < v.length ∧ v.length ≤ 4096
  | .bitmap b => b.bits.length = 1024 ∧ (∀ w ∈ b.bits, w < W) ∧ b.len = BStore.popSum b.bits ∧ 4096 < b.len

def BitmapWF (b : Bitmap) : Prop :=
  (b.map (·.key)).Pairwise (· < ·) ∧ ∀ c ∈ b, c.key < 65536 ∧ StoreWF c.store

theorem W_eq : W = 2 ^ 64 := by decide

/-- the local predicate is the shared `Store.WF` -/
theorem storeWF_iff (s : Store) : StoreWF s ↔ s.WF := by
  cases s with
  | array v =>
    simp only [StoreWF, Store.WF, Arr.Inv, Roaring.Sorted]
    constructor
    · rintro ⟨h1, h2, h3, h4⟩; exact ⟨⟨h1, h2⟩, h3, h4⟩
    · rintro ⟨⟨h1, h2⟩, h3, h4⟩; exact ⟨h1, h2, h3, h4⟩
  | bitmap b =>
    simp only [StoreWF, Store.WF, W_eq]
    constructor
    · rintro ⟨h1, h2, h3, h4⟩; exact ⟨⟨h1, h2, h3⟩, h4⟩
    · rintro ⟨⟨h1, h2, h3⟩, h4⟩; exact ⟨h1, h2, h3, h4⟩

/-- the local predicate is the shared `Bitmap.WF` -/
theorem bitmapWF_iff (b : Bitmap) : BitmapWF b ↔ b.WF := by
  unfold BitmapWF Bitmap.WF Container.WF
  constructor
  · rintro ⟨h1, h2⟩; exact ⟨h1, fun c hc => ⟨(h2 c hc).1, (storeWF_iff _).1 (h2 c hc).2⟩⟩
  · rintro ⟨h1, h2⟩; exact ⟨h1, fun c hc => ⟨(h2 c hc).1, (storeWF_iff _).2 (h2 c hc).2⟩⟩

theorem BitmapWF.tail {c : Container} {cs : Bitmap} (h : BitmapWF (c :: cs)) : BitmapWF cs := by
  have h1 := h.1
  rw [List.map_cons, List.pairwise_cons] at h1
  exact ⟨h1.2, fun x hx => h.2 x (by simp [hx])⟩

/-! ## store facts -/

theorem store_len_eq (s : Store) (h : StoreWF s) : s.len = s.elems.length := by
  cases s with
  | array v => rfl
  | bitmap b =>
    obtain ⟨_, hw, hlen, _⟩ := h
    simp only [Store.len, Store.elems, BStore.toArray]
    rw [toArrayFrom_length b.bits 0 (fun w hw' => by have := hw w hw'; rw [W_eq] at this; exact this), hlen]

theorem store_elems_lt (s : Store) (h : StoreWF s) : ∀ x ∈ s.elems, x < 65536 := by
  cases s with
  | array v => exact h.2.1
  | bitmap b =>
    obtain ⟨hl, hw, _, _⟩ := h
    intro x hx
    have := toArrayFrom_lt b.bits 0 (fun w hw' => by have := hw w hw'; rw [W_eq] at this; exact this) x hx
    rw [hl] at this; omega

theorem store_len_pos (s : Store) (h : StoreWF s) : 0 < s.len := by
  cases s with
  | array v => exact h.2.2.1
  | bitmap b => have := h.2.2.2; show 0 < b.len; omega

/-- the kind of a well-formed store is decided by its cardinality: the Roaring space rule -/
def isArr : Store → Bool
  | .array _ => true
  | .bitmap _ => false

theorem store_kind (s : Store) (h : StoreWF s) : isArr s = decide (s.len ≤ 4096) := by
  cases s with
  | array v => have := h.2.2.2; simp [isArr, Store.len, this]
  | bitmap b => have := h.2.2.2; simp [isArr, Store.len]; exact decide_eq_false (by omega)

/-! ## container / bitmap facts -/

theorem container_elems_length (c : Container) (h : StoreWF c.store) : c.elems.length = c.len := by
  simp [Container.elems, Container.len, store_len_eq c.store h]

theorem container_elems_prefix (c : Container) (h : StoreWF c.store) : ∀ x ∈ c.elems, x / 65536 = c.key := by
  intro x hx
  simp only [Container.elems, List.mem_map] at hx
  obtain ⟨i, hi, rfl⟩ := hx
  have := store_elems_lt c.store h i hi
  omega

theorem elems_cons (c : Container) (cs : Bitmap) : Bitmap.elems (c :: cs) = c.elems ++ Bitmap.elems cs := by
  simp [Bitmap.elems]

theorem elems_prefix_gt (c : Container) (cs : Bitmap) (h : BitmapWF (c :: cs)) :
    ∀ y ∈ Bitmap.elems cs, y / 65536 ≠ c.key := by
  intro y hy
  simp only [Bitmap.elems, List.mem_flatMap] at hy
  obtain ⟨c', hc', hy⟩ := hy
  have hk := container_elems_prefix c' (h.2 c' (by simp [hc'])).2 y hy
  have h1 := h.1
  rw [List.map_cons, List.pairwise_cons] at h1
  have hlt : c.key < c'.key := h1.1 c'.key (List.mem_map.2 ⟨c', hc', rfl⟩)
  omega

theorem len_foldl (l : List Container) (acc : Nat) :
    l.foldl (fun acc c => acc + c.len) acc = acc + Spec.sum (l.map Container.len) := by
  induction l generalizing acc with
  | nil => simp [Spec.sum]
  | cons c cs ih => simp only [List.foldl_cons, List.map_cons, Spec.sum, List.foldr_cons]; rw [ih]; simp [Spec.sum]; omega

theorem len_eq_sum (l : List Container) : Bitmap.len l = Spec.sum (l.map Container.len) := by
  unfold Bitmap.len; rw [len_foldl]; omega

theorem elems_length (b : Bitmap) (h : BitmapWF b) : (Bitmap.elems b).length = Bitmap.len b := by
  rw [len_eq_sum]
  induction b with
  | nil => simp [Bitmap.elems, Spec.sum]
  | cons c cs ih =>
    rw [elems_cons, List.length_append, ih h.tail, container_elems_length c (h.2 c (by simp)).2]
    simp [Spec.sum]

/-! ## `Spec.groups` of the abstraction -/

theorem groupStep_head (x : Nat) (g : List (Nat × Nat)) : ∃ n rest, Spec.groupStep x g = (x / 65536, n) :: rest := by
  unfold Spec.groupStep
  split
  · rename_i k n rest
    by_cases hk : k = x / 65536
    · subst hk; exact ⟨n + 1, rest, by simp⟩
    · exact ⟨1, (k, n) :: rest, by simp [hk]⟩
  · exact ⟨1, [], rfl⟩

theorem groups_cons (x : Nat) (xs : List Nat) : Spec.groups (x :: xs) = Spec.groupStep x (Spec.groups xs) := by
  simp [Spec.groups]

theorem groups_head (y : Nat) (ys : List Nat) : ∃ n rest, Spec.groups (y :: ys) = (y / 65536, n) :: rest := by
  rw [groups_cons]; exact groupStep_head y _

/-- a non-empty block of values with the same prefix `k`, followed by values whose first has another prefix,
    is one group -/
theorem groups_append_block (k : Nat) : ∀ (xs ys : List Nat), xs ≠ [] → (∀ x ∈ xs, x / 65536 = k) →
    (∀ y ∈ ys, y / 65536 ≠ k) → Spec.groups (xs ++ ys) = (k, xs.length) :: Spec.groups ys := by
  intro xs
  induction xs with
  | nil => intro ys h; contradiction
  | cons x xs ih =>
    intro ys _ hk hy
    have hx : x / 65536 = k := hk x (by simp)
    rw [List.cons_append, groups_cons]
    cases xs with
    | nil =>
      simp only [List.nil_append, List.length_cons, List.length_nil]
      cases ys with
      | nil => simp [Spec.groups, Spec.groupStep, hx]
      | cons y ys' =>
        obtain ⟨n, rest, hg⟩ := groups_head y ys'
        have hne : y / 65536 ≠ k := hy y (by simp)
        rw [hg]; simp only [Spec.groupStep, hx]
        rw [if_neg hne]
    | cons x' xs' =>
      rw [ih ys (by simp) (fun z hz => hk z (by simp [hz])) hy]
      simp [Spec.groupStep, hx]

theorem groups_elems (b : Bitmap) (h : BitmapWF b) :
    Spec.groups (Bitmap.elems b) = b.map (fun c => (c.key, c.len)) := by
  induction b with
  | nil => simp [Bitmap.elems, Spec.groups]
  | cons c cs ih =>
    have hc := (h.2 c (by simp)).2
    have hlen := container_elems_length c hc
    have hne : c.elems ≠ [] := by
      intro he; have := store_len_pos c.store hc
      rw [he] at hlen; simp [Container.len] at hlen; omega
    rw [elems_cons, groups_append_block c.key c.elems _ hne (container_elems_prefix c hc)
      (elems_prefix_gt c cs h), ih h.tail, hlen]
    simp

end Roaring.MiscLemmas
