import RoaringModel.SpecIter
/-!
# Facts about the cursor specification alone: draining from the front / from the back
-/
namespace Roaring
namespace Spec
namespace Cursor

/-- `k` calls of `next` yield the first `k` remaining elements in order (then `None` for ever) -/
theorem run_next (k : Nat) : ∀ (c : Cursor),
    Cursor.run c (List.replicate k .next) = (c.drop k, (List.range k).map (fun i => ItOut.item c[i]?)) := by
  induction k with
  | zero => intro c; simp [Cursor.run]
  | succ k ih =>
    intro c
    simp only [List.replicate_succ, Cursor.run, Cursor.step, Cursor.next, ih]
    rw [List.range_succ_eq_map, List.map_cons, List.map_map]
    cases c with
    | nil => simp
    | cons a l => simp [Function.comp_def]

/-- `k` calls of `next_back` yield the last `k` remaining elements in descending order -/
theorem run_nextBack (k : Nat) : ∀ (c : Cursor),
    Cursor.run c (List.replicate k .nextBack) =
      (c.take (c.length - k), (List.range k).map (fun i => ItOut.item c.reverse[i]?)) := by
  induction k with
  | zero => intro c; simp [Cursor.run]
  | succ k ih =>
    intro c
    simp only [List.replicate_succ, Cursor.run, Cursor.step, Cursor.nextBack, ih]
    rw [List.range_succ_eq_map, List.map_cons, List.map_map]
    rcases List.eq_nil_or_concat c with h | ⟨l, a, h⟩
    · subst h; simp
    · have h' : c = l ++ [a] := by simpa using h
      subst h'
      simp only [List.dropLast_concat, List.getLast?_concat, List.reverse_append, List.reverse_cons,
        List.reverse_nil, List.nil_append, List.singleton_append, List.length_append, List.length_cons,
        List.length_nil, Function.comp_def]
      refine Prod.ext ?_ ?_
      · simp only []
        rw [List.take_append_of_le_length (by omega)]
        congr 1; omega
      · simp

end Cursor
end Spec
end Roaring
