import RoaringModel.SpecIter
/-!
# `convert_range_to_inclusive` against the meaning of a pair of bounds (`Spec.Bound.mem`, `Spec.Bound.inverted`)
-/
namespace Roaring
open Spec

/-- What `convertRange` returns, in terms of the specification's reading of the two bounds.
    `M` is the largest value of the integer type; bounds carry values `≤ M`. -/
theorem convertRange_spec (M : Nat) (lo hi : Bound)
    (hlo : ∀ v, lo = .incl v ∨ lo = .excl v → v ≤ M) (hhi : ∀ v, hi = .incl v ∨ hi = .excl v → v ≤ M) :
    match convertRange M lo hi with
    | .error .startAndEndEqualExcluded => Bound.inverted lo hi = true
    | .error .startGreaterThanEnd => Bound.inverted lo hi = true
    | .error .empty => Bound.inverted lo hi = false ∧ ∀ x, x ≤ M → ¬ Bound.mem lo hi x
    | .ok (s, e) => Bound.inverted lo hi = false ∧ s ≤ e ∧ e ≤ M ∧
        (∀ x, x ≤ M → (Bound.mem lo hi x ↔ s ≤ x ∧ x ≤ e)) ∧
        (lo = .unb → s = 0) ∧ (hi = .unb → e = M) := by
  cases lo with
  | excl s =>
    cases hi with
    | excl e =>
      have hs := hlo s (Or.inr rfl)
      have he := hhi e (Or.inr rfl)
      simp only [convertRange, Bound.inverted, Bound.mem, Bound.admitsLo, Bound.admitsHi]
      by_cases heq : s = e
      · subst heq; simp
      · by_cases h : s > e
        · have hne : ¬ s = e := heq
          simp [hne, h]; omega
        · by_cases h0 : s = M
          · subst h0; have : e ≤ s := he; omega
          · by_cases h1 : e = 0
            · omega
            · by_cases h2 : s + 1 > e - 1
              · simp [heq, h, h0, h1, h2]; grind
              · simp [heq, h, h0, h1, h2]; grind
    | _ => simp only [convertRange, Bound.inverted, Bound.mem, Bound.admitsLo, Bound.admitsHi] <;> grind
  | _ => cases hi <;> simp only [convertRange, Bound.inverted, Bound.mem, Bound.admitsLo, Bound.admitsHi] <;> grind

end Roaring
