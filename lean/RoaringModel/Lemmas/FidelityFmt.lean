import RoaringModel.Fmt
import RoaringModel.TreemapFmt
import RoaringModel.Props.C03
import RoaringModel.Props.C12
import RoaringModel.Lemmas.TreemapCanonical
import RoaringModel.Lemmas.TreemapQuery
/-!
# Fidelity audit, area "codecs and reporting": `Debug` formatting through the mirrored iterators

`Bitmap.debugFmtM` / `Treemap.debugFmtM` print `self.iter().collect::<Vec<_>>()` by running the mirrored iterator
(`next()` until `None`); the proof-carrying `debugFmt` prints the abstraction `elems`.  They agree on every
well-formed value: the cursor theorems C03 (`Iter.next_spec`, `C03_init`) and C12 (`C12_init`, `C12_step`) say that
repeated `next` yields exactly `elems`.
-/
namespace Roaring
namespace Fidelity
open Roaring.C03 Roaring.C12

/-- repeated `next()` on the mirrored 32-bit iterator yields exactly the remaining values, in order -/
theorem collectFuel_spec : ∀ (fuel : Nat) (it : Iter), it.Inv → it.rem.length < fuel →
    Bitmap.collectFuel fuel it = it.rem := by
  intro fuel
  induction fuel with
  | zero => intro it _ h; omega
  | succ fuel ih =>
    intro it hi hl
    obtain ⟨h1, h2, h3⟩ := Iter.next_spec cKernel it hi
    unfold Bitmap.collectFuel
    cases hn : it.next with
    | mk it' r =>
      rw [hn] at h1 h2 h3
      simp only [] at h1 h2 h3
      cases hr : it.rem with
      | nil => rw [hr] at h1; simp only [List.head?_nil] at h1; subst h1; rfl
      | cons x xs =>
        rw [hr] at h1 h2 hl
        simp only [List.head?_cons] at h1
        simp only [List.tail_cons] at h2
        subst h1
        simp only []
        rw [ih it' h3 (by rw [h2]; simp only [List.length_cons] at hl; omega), h2]

/-- `iter().collect()` of a well-formed bitmap is its element list -/
theorem collect_iter (b : Bitmap) (h : C03.BitmapOK b) :
    Bitmap.collectFuel Bitmap.collectFuelMax (Bitmap.iter b) = Bitmap.elems b := by
  obtain ⟨h1, h2⟩ := C03_init b h
  rw [collectFuel_spec _ _ h1.1 ?_, h2]
  have := C03_len_bound _ h1
  have hs := Iter.length_le_of_sorted (Bitmap.iter b).rem 0 u32Max (Iter.rem_sorted cKernel _ h1.1) (by simp) h1.2
  unfold u32Max at hs; unfold Bitmap.collectFuelMax; omega

/-- **Debug (32-bit).** The formatter that runs the mirrored iterator prints what `debugFmt` prints. -/
theorem debugFmtM_eq (b : Bitmap) (h : C03.BitmapOK b) : Bitmap.debugFmtM b = Bitmap.debugFmt b := by
  unfold Bitmap.debugFmtM Bitmap.debugFmt
  rw [collect_iter b h]

/-- repeated `next()` on the mirrored `treemap::Iter` yields exactly the remaining values, in order -/
theorem tcollectFuel_spec : ∀ (fuel : Nat) (it : TIter.Iter K32), it.Inv S32 → (it.rem S32).length < fuel →
    Treemap.collectFuel fuel it = it.rem S32 := by
  intro fuel
  induction fuel with
  | zero => intro it _ h; omega
  | succ fuel ih =>
    intro it hi hl
    obtain ⟨h3, h2, h1⟩ := C12_step it hi .next trivial
    simp only [stepM, stepS, Spec.Cursor64.next] at h1 h2 h3
    unfold Treemap.collectFuel
    cases hn : it.next with
    | mk it' r =>
      rw [hn] at h1 h2 h3
      simp only [] at h1 h2 h3
      cases hr : it.rem S32 with
      | nil => rw [hr] at h1; simp only [List.head?_nil] at h1; subst h1; rfl
      | cons x xs =>
        rw [hr] at h1 h2 hl
        simp only [List.head?_cons] at h1
        simp only [List.tail_cons] at h2
        subst h1
        simp only []
        rw [ih it' h3 (by rw [h2]; simp only [List.length_cons] at hl; omega), h2]

/-- `iter().collect()` of a well-formed treemap is its element list -/
theorem tcollect_iter (t : Treemap) (h : Treemap.TWF t) :
    Treemap.collectFuel Treemap.collectFuelMax (TIter.Iter.new (K := K32) t) = Treemap.elems t := by
  obtain ⟨h1, h2⟩ := C12_init t h
  rw [tcollectFuel_spec _ _ h1 ?_, h2]
  rw [h2]
  rcases Treemap.length_le_of_sorted_lt (Treemap.elems t) 0 18446744073709551616
    (Treemap.sorted_elems Treemap.elems32 h) (fun _ _ => Nat.zero_le _) (Treemap.elems_lt Treemap.elems32 h) with hl | hl
  · unfold Treemap.collectFuelMax; omega
  · rw [hl]; unfold Treemap.collectFuelMax; simp

/-- **Debug (64-bit).** The formatter that runs the mirrored `treemap::Iter` prints what `debugFmt` prints. -/
theorem tdebugFmtM_eq (t : Treemap) (h : Treemap.TWF t) : Treemap.debugFmtM t = Treemap.debugFmt t := by
  unfold Treemap.debugFmtM Treemap.debugFmt
  rw [tcollect_iter t h]

end Fidelity
end Roaring
