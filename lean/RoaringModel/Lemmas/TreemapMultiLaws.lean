import RoaringModel.Lemmas.TreemapMulti
import RoaringModel.Props.C09
import RoaringModel.Props.C02
/-!
# `MultiLaws Ops32.model`: the mirrored 32-bit multi-ops satisfy the laws the treemap multi-ops rest on

`MultiLaws o` (`Lemmas/TreemapMulti.lean`) asks, for each of the eight 32-bit multi-ops, that on well-formed
operands the result is well-formed and has the `Spec.multi` elements.  The `elems` equations are `C09.C09_fold`.
What this file adds is the **well-formedness of the result** of every `try_multi_*` function of
`MultiOps.lean`:

* `tryMultiOwned_wf` / `tryMultiRef_wf`: every `Ok` value returned on a sequence whose `Ok` payloads are
  well-formed is well-formed — for **every** `size_hint` (admissible or not), every operation, whether or not
  the sequence contains errors, and (in the `…With` forms) every sort that returns a permutation;
* `multiOwned_wf` / `multiRef_wf`: the plain trait impls;
* `multiLaws_model : MultiLaws Ops32.model`.

The control skeleton is re-run keeping only the invariant: `Acc` of the accumulator through the merge loops
(`Engine.foldl_spec`), `WF` after the clean-up (`Engine.clean_spec`), `WF` through `assignLoop` by the binary
`Kernel` facts (`andOwned`, `andRef`, `subRef`, i.e. C02).
-/
namespace Roaring.Multi
open Roaring Roaring.Spec Roaring.Multi.SpecL

variable {ε : Type}

/-! ### the starting phase hands over well-formed operands -/

theorem mem_okValues_take_drop {t : Nat} {xs : List (Except ε Bitmap)} {b : Bitmap}
    (hb : b ∈ okValues (xs.take t) ∨ b ∈ okValues (xs.drop t)) : b ∈ okValues xs := by
  rw [okValues_split t xs]
  exact List.mem_append.2 hb

/-- `or`: whatever `orStartWith` returns, the first bitmap and all `Ok` items of the rest are operands -/
theorem orStartWith_mem {sort : List Bitmap → List Bitmap} (hs : ∀ l, (sort l).Perm l) {h : Hint}
    {xs : List (Except ε Bitmap)} {c : Bitmap} {rest : List (Except ε Bitmap)}
    (hr : orStartWith sort h xs = .ok (some (c, rest))) :
    c ∈ okValues xs ∧ ∀ b ∈ okValues rest, b ∈ okValues xs := by
  unfold orStartWith at hr
  rw [collectStart_eq] at hr
  generalize toCollect h xs.length = t at *
  cases hfe1 : firstError (xs.take t) with
  | some e => rw [hfe1] at hr; simp at hr
  | none =>
    rw [hfe1] at hr
    simp only at hr
    have hperm := hs (okValues (xs.take t))
    cases hsort : sort (okValues (xs.take t)) with
    | nil => rw [hsort] at hr; simp at hr
    | cons c0 st =>
      rw [hsort] at hr hperm
      simp only [Except.ok.injEq, Option.some.injEq, Prod.mk.injEq] at hr
      obtain ⟨rfl, rfl⟩ := hr
      refine ⟨mem_okValues_take_drop (Or.inl (hperm.mem_iff.1 (List.mem_cons_self ..))), ?_⟩
      intro b hb
      rw [okValues_append, okValues_map_ok] at hb
      rcases List.mem_append.1 hb with hb | hb
      · apply mem_okValues_take_drop; left
        apply hperm.mem_iff.1
        apply List.mem_cons_of_mem
        split at hb
        · exact List.mem_of_mem_drop hb
        · exact hb
      · exact mem_okValues_take_drop (Or.inr hb)

/-- `and`: the same for `andStartWith` -/
theorem andStartWith_mem {sort : List Bitmap → List Bitmap} (hs : ∀ l, (sort l).Perm l) {h : Hint}
    {xs : List (Except ε Bitmap)} {c : Bitmap} {rest : List (Except ε Bitmap)}
    (hr : andStartWith sort h xs = .ok (some (c, rest))) :
    c ∈ okValues xs ∧ ∀ b ∈ okValues rest, b ∈ okValues xs := by
  unfold andStartWith at hr
  rw [collectStart_eq] at hr
  generalize toCollect h xs.length = t at *
  cases hfe1 : firstError (xs.take t) with
  | some e => rw [hfe1] at hr; simp at hr
  | none =>
    rw [hfe1] at hr
    simp only at hr
    have hperm := hs (okValues (xs.take t))
    cases hsort : sort (okValues (xs.take t)) with
    | nil => rw [hsort] at hr; simp at hr
    | cons c0 st =>
      rw [hsort] at hr hperm
      simp only [Except.ok.injEq, Option.some.injEq, Prod.mk.injEq] at hr
      obtain ⟨rfl, rfl⟩ := hr
      refine ⟨mem_okValues_take_drop (Or.inl (hperm.mem_iff.1 (List.mem_cons_self ..))), ?_⟩
      intro b hb
      rw [okValues_append, okValues_map_ok] at hb
      rcases List.mem_append.1 hb with hb | hb
      · exact mem_okValues_take_drop (Or.inl (hperm.mem_iff.1 (List.mem_cons_of_mem _ hb)))
      · exact mem_okValues_take_drop (Or.inr hb)

/-! ### the merge engines (union, symmetric difference) -/

/-- running an engine from a well-formed bitmap over well-formed `Ok` items: every `Ok` outcome is
    well-formed after the clean-up -/
theorem Engine.run_wf {β : Type} {sop : List Nat → List Nat → List Nat} (G : Engine ε β sop)
    {c : Bitmap} (hc : WF c) {rest : List (Except ε Bitmap)} (hr : ∀ b ∈ okValues rest, WF b)
    {cs : β} (hl : G.loop (G.init c) rest = .ok cs) : WF (G.clean cs) := by
  rw [G.loop_eq] at hl
  cases hfe : firstError rest with
  | some e => rw [hfe] at hl; simp at hl
  | none =>
    rw [hfe] at hl
    simp only [Except.ok.injEq] at hl
    subst hl
    have hacc : Acc (G.π (G.init c)) := by rw [G.init_π]; exact hc.acc
    exact (G.clean_spec _ (G.foldl_spec (okValues rest) (G.init c) hacc hr).1).1

theorem orWith_wf {β : Type} (G : Engine ε β sOr) {sort : List Bitmap → List Bitmap}
    (hs : ∀ l, (sort l).Perm l) {h : Hint} {xs : List (Except ε Bitmap)} (hwf : ∀ b ∈ okValues xs, WF b)
    {v : Bitmap} (hv : orWith G sort h xs = .ok v) : WF v := by
  unfold orWith at hv
  cases hst : orStartWith sort h xs with
  | error e => rw [hst] at hv; simp at hv
  | ok o =>
    rw [hst] at hv
    cases o with
    | none =>
      simp only [Except.ok.injEq] at hv
      subst hv; exact wf_nil
    | some p =>
      obtain ⟨c, rest⟩ := p
      simp only at hv
      have hm := orStartWith_mem hs hst
      cases hl : G.loop (G.init c) rest with
      | error e => rw [hl] at hv; simp at hv
      | ok cs =>
        rw [hl] at hv
        simp only [Except.ok.injEq] at hv
        subst hv
        exact G.run_wf (hwf c hm.1) (fun b hb => hwf b (hm.2 b hb)) hl

theorem xorWith_wf {β : Type} (G : Engine ε β sXor) {xs : List (Except ε Bitmap)}
    (hwf : ∀ b ∈ okValues xs, WF b) {v : Bitmap} (hv : xorWith G xs = .ok v) : WF v := by
  unfold xorWith at hv
  match xs, hwf, hv with
  | [], _, hv =>
    simp only [Except.ok.injEq] at hv
    subst hv
    have hacc : Acc (G.π (G.init [])) := by rw [G.init_π]; exact wf_nil.acc
    exact (G.clean_spec _ hacc).1
  | .error e :: _, _, hv => simp at hv
  | .ok c :: iter, hwf, hv =>
    simp only at hv
    cases hl : G.loop (G.init c) iter with
    | error e => rw [hl] at hv; simp at hv
    | ok cs =>
      rw [hl] at hv
      simp only [Except.ok.injEq] at hv
      subst hv
      exact G.run_wf (hwf c (by simp [okValues])) (fun b hb => hwf b (by simp [okValues, hb])) hl

/-! ### the assignment loop (intersection, difference) -/

theorem assignLoop_wf {f : Bitmap → Bitmap → Bitmap} (hf : ∀ a b, WF a → WF b → WF (f a b))
    (lhs : Bitmap) (xs : List (Except ε Bitmap)) (hl : WF lhs) (hx : ∀ b ∈ okValues xs, WF b)
    {v : Bitmap} (hv : assignLoop f lhs xs = .ok v) : WF v := by
  fun_induction assignLoop f lhs xs
  · simp only [Except.ok.injEq] at hv; subst hv; exact hl
  · simp only [Except.ok.injEq] at hv; subst hv; exact hl
  · simp at hv
  · rename_i lhs rest he r ih
    exact ih (hf lhs r hl (hx r (by simp [okValues])))
      (fun b hb => hx b (by simp [okValues, hb])) hv

theorem andWith_wf {f : Bitmap → Bitmap → Bitmap} (hf : ∀ a b, WF a → WF b → WF (f a b))
    {sort : List Bitmap → List Bitmap} (hs : ∀ l, (sort l).Perm l) {h : Hint}
    {xs : List (Except ε Bitmap)} (hwf : ∀ b ∈ okValues xs, WF b)
    {v : Bitmap} (hv : andWith f sort h xs = .ok v) : WF v := by
  unfold andWith at hv
  cases hst : andStartWith sort h xs with
  | error e => rw [hst] at hv; simp at hv
  | ok o =>
    rw [hst] at hv
    cases o with
    | none =>
      simp only [Except.ok.injEq] at hv
      subst hv; exact wf_nil
    | some p =>
      obtain ⟨c, rest⟩ := p
      simp only at hv
      have hm := andStartWith_mem hs hst
      exact assignLoop_wf hf c rest (hwf c hm.1) (fun b hb => hwf b (hm.2 b hb)) hv

theorem subWith_wf {f : Bitmap → Bitmap → Bitmap} (hf : ∀ a b, WF a → WF b → WF (f a b))
    {xs : List (Except ε Bitmap)} (hwf : ∀ b ∈ okValues xs, WF b)
    {v : Bitmap} (hv : subWith f xs = .ok v) : WF v := by
  unfold subWith at hv
  match xs, hwf, hv with
  | [], _, hv =>
    simp only [Except.ok.injEq] at hv
    subst hv; exact wf_nil
  | .error e :: _, _, hv => simp at hv
  | .ok c :: iter, hwf, hv =>
    simp only at hv
    exact assignLoop_wf hf c iter (hwf c (by simp [okValues])) (fun b hb => hwf b (by simp [okValues, hb])) hv

/-! ### the eight `try_multi_*` functions -/

/-- **`try_multi_or_owned` returns well-formed bitmaps** (any permutation as the sort, any `size_hint`) -/
theorem tryMultiOrOwnedWith_wf {sort : List Bitmap → List Bitmap} (hs : ∀ l, (sort l).Perm l) (h : Hint)
    {xs : List (Except ε Bitmap)} (hwf : ∀ b ∈ okValues xs, Bitmap.WF b)
    {v : Bitmap} (hv : tryMultiOrOwnedWith sort h xs = .ok v) : Bitmap.WF v := by
  rw [orOwned_bridge kernel] at hv
  exact (wf_iff v).1 (orWith_wf _ hs (wf_of_all hwf) hv)

theorem tryMultiOrRefWith_wf {sort : List Bitmap → List Bitmap} (hs : ∀ l, (sort l).Perm l) (h : Hint)
    {xs : List (Except ε Bitmap)} (hwf : ∀ b ∈ okValues xs, Bitmap.WF b)
    {v : Bitmap} (hv : tryMultiOrRefWith sort h xs = .ok v) : Bitmap.WF v := by
  rw [orRef_bridge kernel] at hv
  exact (wf_iff v).1 (orWith_wf _ hs (wf_of_all hwf) hv)

theorem tryMultiXorOwned_wf {xs : List (Except ε Bitmap)} (hwf : ∀ b ∈ okValues xs, Bitmap.WF b)
    {v : Bitmap} (hv : tryMultiXorOwned xs = .ok v) : Bitmap.WF v := by
  rw [xorOwned_bridge kernel] at hv
  exact (wf_iff v).1 (xorWith_wf _ (wf_of_all hwf) hv)

theorem tryMultiXorRef_wf {xs : List (Except ε Bitmap)} (hwf : ∀ b ∈ okValues xs, Bitmap.WF b)
    {v : Bitmap} (hv : tryMultiXorRef xs = .ok v) : Bitmap.WF v := by
  rw [xorRef_bridge kernel] at hv
  exact (wf_iff v).1 (xorWith_wf _ (wf_of_all hwf) hv)

theorem tryMultiAndOwnedWith_wf {sort : List Bitmap → List Bitmap} (hs : ∀ l, (sort l).Perm l) (h : Hint)
    {xs : List (Except ε Bitmap)} (hwf : ∀ b ∈ okValues xs, Bitmap.WF b)
    {v : Bitmap} (hv : tryMultiAndOwnedWith sort h xs = .ok v) : Bitmap.WF v :=
  (wf_iff v).1 (andWith_wf (f := andAssignOwned) (fun a b ha hb => (kernel.andOwned a b ha hb).1) hs
    (wf_of_all hwf) hv)

theorem tryMultiAndRefWith_wf {sort : List Bitmap → List Bitmap} (hs : ∀ l, (sort l).Perm l) (h : Hint)
    {xs : List (Except ε Bitmap)} (hwf : ∀ b ∈ okValues xs, Bitmap.WF b)
    {v : Bitmap} (hv : tryMultiAndRefWith sort h xs = .ok v) : Bitmap.WF v :=
  (wf_iff v).1 (andWith_wf (f := andAssignRef) (fun a b ha hb => (kernel.andRef a b ha hb).1) hs
    (wf_of_all hwf) hv)

theorem tryMultiSubOwned_wf {xs : List (Except ε Bitmap)} (hwf : ∀ b ∈ okValues xs, Bitmap.WF b)
    {v : Bitmap} (hv : tryMultiSubOwned xs = .ok v) : Bitmap.WF v :=
  (wf_iff v).1 (subWith_wf (f := subAssignOwned) (fun a b ha hb => (kernel.subRef a b ha hb).1)
    (wf_of_all hwf) hv)

theorem tryMultiSubRef_wf {xs : List (Except ε Bitmap)} (hwf : ∀ b ∈ okValues xs, Bitmap.WF b)
    {v : Bitmap} (hv : tryMultiSubRef xs = .ok v) : Bitmap.WF v :=
  (wf_iff v).1 (subWith_wf (f := subAssignRef) (fun a b ha hb => (kernel.subRef a b ha hb).1)
    (wf_of_all hwf) hv)

/-- **Every `Ok` value of `impl MultiOps<Result<RoaringBitmap, E>>` is well-formed** — every operation, every
    `size_hint`, with or without errors in the sequence. -/
theorem tryMultiOwned_wf (op : Op) (h : Hint) {xs : List (Except ε Bitmap)}
    (hwf : ∀ b ∈ okValues xs, Bitmap.WF b) {v : Bitmap} (hv : tryMultiOwned op h xs = .ok v) : Bitmap.WF v := by
  cases op
  · exact tryMultiOrOwnedWith_wf sortDesc_isSortDesc.perm h hwf hv
  · exact tryMultiAndOwnedWith_wf sortAsc_isSortAsc.perm h hwf hv
  · exact tryMultiSubOwned_wf hwf hv
  · exact tryMultiXorOwned_wf hwf hv

/-- … and of `impl MultiOps<Result<&RoaringBitmap, E>>`. -/
theorem tryMultiRef_wf (op : Op) (h : Hint) {xs : List (Except ε Bitmap)}
    (hwf : ∀ b ∈ okValues xs, Bitmap.WF b) {v : Bitmap} (hv : tryMultiRef op h xs = .ok v) : Bitmap.WF v := by
  cases op
  · exact tryMultiOrRefWith_wf sortDesc_isSortDesc.perm h hwf hv
  · exact tryMultiAndRefWith_wf sortAsc_isSortAsc.perm h hwf hv
  · exact tryMultiSubRef_wf hwf hv
  · exact tryMultiXorRef_wf hwf hv

/-! ### the plain trait impls -/

/-- **`impl MultiOps<RoaringBitmap> for I` returns a well-formed bitmap** on well-formed operands (every
    operation, every `size_hint`). -/
theorem multiOwned_wf (op : Op) (h : Hint) (l : List Bitmap) (hwf : ∀ b ∈ l, Bitmap.WF b) :
    Bitmap.WF (multiOwned op h l) := by
  have hwf' : ∀ b ∈ okValues (l.map (Except.ok (ε := Empty))), Bitmap.WF b := by simpa using hwf
  unfold multiOwned
  cases hr : tryMultiOwned op h (l.map (Except.ok (ε := Empty))) with
  | error e => exact nomatch e
  | ok v => exact tryMultiOwned_wf op h hwf' hr

/-- **`impl MultiOps<&RoaringBitmap> for I` returns a well-formed bitmap** on well-formed operands. -/
theorem multiRef_wf (op : Op) (h : Hint) (l : List Bitmap) (hwf : ∀ b ∈ l, Bitmap.WF b) :
    Bitmap.WF (multiRef op h l) := by
  have hwf' : ∀ b ∈ okValues (l.map (Except.ok (ε := Empty))), Bitmap.WF b := by simpa using hwf
  unfold multiRef
  cases hr : tryMultiRef op h (l.map (Except.ok (ε := Empty))) with
  | error e => exact nomatch e
  | ok v => exact tryMultiRef_wf op h hwf' hr

/-- well-formedness and the fold, together (any admissible `size_hint`) -/
theorem multiOwned_law (op : Op) (h : Hint) (l : List Bitmap) (hh : Hint.Admissible h l.length)
    (hwf : ∀ b ∈ l, Bitmap.WF b) :
    Bitmap.WF (multiOwned op h l) ∧ Bitmap.elems (multiOwned op h l) = Spec.multi (specOp op) (l.map Bitmap.elems) :=
  ⟨multiOwned_wf op h l hwf, (C09.C09_fold op h l hh hwf).1⟩

theorem multiRef_law (op : Op) (h : Hint) (l : List Bitmap) (hh : Hint.Admissible h l.length)
    (hwf : ∀ b ∈ l, Bitmap.WF b) :
    Bitmap.WF (multiRef op h l) ∧ Bitmap.elems (multiRef op h l) = Spec.multi (specOp op) (l.map Bitmap.elems) :=
  ⟨multiRef_wf op h l hwf, (C09.C09_fold op h l hh hwf).2⟩

end Roaring.Multi

namespace Roaring.Treemap
open Roaring Roaring.Multi

/-- **The mirrored 32-bit multi-ops satisfy `MultiLaws`**: the hypothesis of `multi_exact`,
    `multiWith_exact`, `multiWith_elems_indep` (`Lemmas/TreemapMulti.lean`) holds for `Ops32.model`. -/
theorem multiLaws_model : MultiLaws Ops32.model where
  orOwn := fun l hl => multiOwned_law .or .exact l (Hint.admissible_exact _) hl
  orRef := fun l hl => multiRef_law .or .exact l (Hint.admissible_exact _) hl
  andOwn := fun l hl => multiOwned_law .and .exact l (Hint.admissible_exact _) hl
  andRef := fun l hl => multiRef_law .and .exact l (Hint.admissible_exact _) hl
  subOwn := fun l hl => multiOwned_law .sub .exact l (Hint.admissible_exact _) hl
  subRef := fun l hl => multiRef_law .sub .exact l (Hint.admissible_exact _) hl
  xorOwn := fun l hl => multiOwned_law .xor .exact l (Hint.admissible_exact _) hl
  xorRef := fun l hl => multiRef_law .xor .exact l (Hint.admissible_exact _) hl

end Roaring.Treemap
